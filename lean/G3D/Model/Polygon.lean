import G3D.Model.Vec
namespace G3D
open V3

/-- consecutive pairs of a path -/
def consec : List V3 → List (V3 × V3)
  | a :: b :: l => (a, b) :: consec (b :: l)
  | _ => []

/-- closed edge path of a vertex cycle: (p0,p1),…,(p_{n-1},p0) -/
def closedPairs : List V3 → List (V3 × V3)
  | [] => []
  | p :: ps => consec (p :: ps ++ [p])

/-- orient n a b x = n . ((b-a) × (x-a))  (= the code's (x-a).(n × (b-a))) -/
def orient (n a b x : V3) : Rat := dot n (cross (sub b a) (sub x a))

def inPlane (n p0 x : V3) : Bool := dot n (sub x p0) == 0

def polyContains (n p0 : V3) (pts : List V3) (x : V3) : Bool :=
  inPlane n p0 x && (closedPairs pts).all (fun e => decide (0 ≤ orient n e.1 e.2 x))

/-- convex combination -/
def comb : List Rat → List V3 → V3
  | w :: ws, p :: ps => add (smul w p) (comb ws ps)
  | _, _ => zero

/-- all ordered triples positively oriented -/
def triplesPos (n : V3) : List V3 → Prop
  | [] => True
  | a :: l => (∀ b c, List.Sublist [b, c] l → 0 < orient n a b c) ∧ triplesPos n l
end G3D
