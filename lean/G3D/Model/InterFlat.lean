import G3D.Model.Flat
/-! The 15 flat×flat handlers of calc/intersection.py. -/
namespace G3D
open V3

inductive Geo
  | point (p : V3)
  | line (l : Line)
  | plane (pl : Plane)
  | seg (s : Seg)
  | halfline (h : HalfLine)
deriving DecidableEq, Repr

inductive IErr | bug | notImpl | arity | ctor
deriving DecidableEq, Repr

abbrev Res := Except IErr (Option Geo)

/-- Python `set.add` on a list kept duplicate-free -/
def addNew (l : List V3) (p : V3) : List V3 := if p ∈ l then l else l ++ [p]

/-- `Segment(p, q)` constructor: rejects identical points -/
def mkSeg (p q : V3) : Except IErr Seg := if p = q then .error .ctor else .ok (Seg.mk' p q)

/-- result of a collected point set of size 0 / 1 / 2 / more -/
def ofPointSet (ps : List V3) : Res :=
  match ps with
  | [] => .ok none
  | [p] => .ok (some (.point p))
  | [p, q] => do let s ← mkSeg p q; pure (some (.seg s))
  | _ => .error .bug

def interPointPoint (p q : V3) : Res := .ok (if p = q then some (.point p) else none)
def interPointLine (p : V3) (l : Line) : Res := .ok (if l.contains p then some (.point p) else none)
def interPointPlane (p : V3) (pl : Plane) : Res := .ok (if pl.contains p then some (.point p) else none)
def interPointSeg (p : V3) (s : Seg) : Res := .ok (if s.contains p then some (.point p) else none)
def interPointHalfLine (p : V3) (h : HalfLine) : Res := .ok (if h.contains p then some (.point p) else none)

def lineLineMatrix (l1 l2 : Line) : Solver2.Mat :=
  [[l1.dv.x, -l2.dv.x, l2.sv.x - l1.sv.x],
   [l1.dv.y, -l2.dv.y, l2.sv.y - l1.sv.y],
   [l1.dv.z, -l2.dv.z, l2.sv.z - l1.sv.z]]

def interLineLine (l1 l2 : Line) : Res :=
  if l1.eqv l2 then .ok (some (.line l1))
  else
    let sol := Solver2.solve (lineLineMatrix l1 l2)
    if !Solver2.solvable sol then .ok none
    else match Solver2.call 2 sol [] with
      | .ok [some lmb, some _] => .ok (some (.point (add l1.sv (smul lmb l1.dv))))
      | _ => .error .arity

def interLinePlane (l : Line) (p : Plane) : Res :=
  if p.containsLine l then .ok (some (.line l))
  else if V3.orthogonal l.dv p.n then .ok none
  else
    let mu := (dot p.n p.p - dot p.n l.sv) / dot p.n l.dv
    .ok (some (.point (add l.sv (smul mu l.dv))))

def interPlanePlane (a b : Plane) : Res :=
  if a.eqv b then .ok (some (.plane a))
  else if V3.parallel a.n b.n then .ok none
  else
    let lineV := cross a.n b.n
    let aux : Line := ⟨a.p, cross lineV a.n⟩
    match interLinePlane aux b with
    | .ok (some (.point q)) => .ok (some (.line ⟨q, lineV⟩))
    | _ => .error .bug

def interLineSeg (l : Line) (s : Seg) : Res :=
  match interLineLine l s.line with
  | .ok none => .ok none
  | .ok (some (.line _)) => .ok (some (.seg s))
  | .ok (some (.point q)) => interPointSeg q s
  | .ok _ => .error .bug
  | .error e => .error e

def interLineHalfLine (l : Line) (h : HalfLine) : Res :=
  match interLineLine l h.line with
  | .ok none => .ok none
  | .ok (some (.line _)) => .ok (some (.halfline h))
  | .ok (some (.point q)) => interPointHalfLine q h
  | .ok _ => .error .bug
  | .error e => .error e

def interPlaneSeg (a : Plane) (s : Seg) : Res :=
  match interLinePlane s.line a with
  | .ok none => .ok none
  | .ok (some (.point q)) => interPointSeg q s
  | .ok (some (.line _)) => .ok (some (.seg s))
  | .ok _ => .error .bug
  | .error e => .error e

def interPlaneHalfLine (a : Plane) (h : HalfLine) : Res :=
  match interLinePlane h.line a with
  | .ok none => .ok none
  | .ok (some (.point q)) => interPointHalfLine q h
  | .ok (some (.line _)) => .ok (some (.halfline h))
  | .ok _ => .error .bug
  | .error e => .error e

def interSegSeg (a b : Seg) : Res :=
  if a.line.eqv b.line then
    let ps : List V3 := []
    let ps := if b.contains a.a then addNew ps a.a else ps
    let ps := if b.contains a.b then addNew ps a.b else ps
    let ps := if a.contains b.a then addNew ps b.a else ps
    let ps := if a.contains b.b then addNew ps b.b else ps
    ofPointSet ps
  else
    match interLineLine a.line b.line with
    | .ok none => .ok none
    | .ok (some (.point q)) => .ok (if a.contains q && b.contains q then some (.point q) else none)
    | .ok _ => .error .bug
    | .error e => .error e

def interSegHalfLine (a : Seg) (b : HalfLine) : Res :=
  if a.line.eqv b.line then
    let ps : List V3 := []
    let ps := if b.contains a.a then addNew ps a.a else ps
    let ps := if b.contains a.b then addNew ps a.b else ps
    let ps := if a.contains b.p then addNew ps b.p else ps
    ofPointSet ps
  else
    match interLineLine a.line b.line with
    | .ok none => .ok none
    | .ok (some (.point q)) => .ok (if a.contains q && b.contains q then some (.point q) else none)
    | .ok _ => .error .bug
    | .error e => .error e

/-- `HalfLine.__contains__(HalfLine)`: `self.line == other.line and other.point in self and self.vector*other.vector > -eps` -/
def HalfLine.containsHL (self other : HalfLine) : Bool :=
  self.line.eqv other.line && self.contains other.p && decide (0 ≤ dot self.v other.v)

def interHalfLineHalfLine (a b : HalfLine) : Res :=
  if a.line.eqv b.line then
    if b.containsHL a then .ok (some (.halfline a))
    else if a.containsHL b then .ok (some (.halfline b))
    else
      let ps : List V3 := []
      let ps := if b.contains a.p then addNew ps a.p else ps
      let ps := if a.contains b.p then addNew ps b.p else ps
      ofPointSet ps
  else
    match interLineLine a.line b.line with
    | .ok none => .ok none
    | .ok (some (.point q)) => .ok (if a.contains q && b.contains q then some (.point q) else none)
    | .ok _ => .error .bug
    | .error e => .error e

/-- top-level dispatch restricted to flats (the real table is generated from the source) -/
def interFlat : Geo → Geo → Res
  | .point p, .point q => interPointPoint p q
  | .point p, .line l => interPointLine p l
  | .line l, .point p => interPointLine p l
  | .point p, .plane pl => interPointPlane p pl
  | .plane pl, .point p => interPointPlane p pl
  | .point p, .seg s => interPointSeg p s
  | .seg s, .point p => interPointSeg p s
  | .point p, .halfline h => interPointHalfLine p h
  | .halfline h, .point p => interPointHalfLine p h
  | .line a, .line b => interLineLine a b
  | .line l, .plane p => interLinePlane l p
  | .plane p, .line l => interLinePlane l p
  | .line l, .seg s => interLineSeg l s
  | .seg s, .line l => interLineSeg l s
  | .line l, .halfline h => interLineHalfLine l h
  | .halfline h, .line l => interLineHalfLine l h
  | .plane a, .plane b => interPlanePlane a b
  | .plane a, .seg s => interPlaneSeg a s
  | .seg s, .plane a => interPlaneSeg a s
  | .plane a, .halfline h => interPlaneHalfLine a h
  | .halfline h, .plane a => interPlaneHalfLine a h
  | .seg a, .seg b => interSegSeg a b
  | .seg a, .halfline b => interSegHalfLine a b
  | .halfline b, .seg a => interSegHalfLine a b
  | .halfline a, .halfline b => interHalfLineHalfLine a b
end G3D
