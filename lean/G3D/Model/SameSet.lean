import G3D.Model.InterBody
/-! `ConvexPolyhedron.__eq__` (hash equality), idealised: same set of vertices and same set of faces, the faces
    compared by `ConvexPolygon.__eq__` (`Polygon.same`: same vertex set, same carrier plane up to the sign of the
    normal).  Definitions only (no Mathlib) so that the compiled driver can evaluate it. -/
namespace G3D
open V3

/-- `ConvexPolyhedron.__eq__`: the vertex sets agree and every face of either body has a `Polygon.same` partner in
    the other -/
def Polyhedron.sameB (A B : Polyhedron) : Bool :=
  A.verts.all (· ∈ B.verts) && B.verts.all (· ∈ A.verts) &&
  A.faces.all (fun f => B.faces.any (fun g => f.same g)) &&
  B.faces.all (fun g => A.faces.any (fun f => g.same f))

/-- every listed vertex is a vertex of some face (true for every constructed body: the vertex list is collected from
    the faces) -/
def Polyhedron.vertsOnFacesB (A : Polyhedron) : Bool :=
  A.verts.all (fun v => A.faces.any (fun f => decide (v ∈ f.pts)))

end G3D
