import G3D.Model.Flat
/-! calc/angle.py: exact representation of the angle by cos² of the underlying directions. -/
namespace G3D
open V3

/-- cos² of the angle between two vectors: `(u.v)² / (|u|²|v|²)` -/
def cosSqVec (u v : V3) : Rat := (dot u v)^2 / (normSq u * normSq v)

inductive AObj | line (l : Line) | plane (p : Plane) | vec (v : V3)

/-- how the float angle is obtained from `t = cos` of the two directions -/
inductive AngleRep
  | acute (cosSq : Rat)        -- acute(acos t)            = arccos |t|
  | compl (cosSq : Rat)        -- π/2 - acute(acos t)      (line vs plane)
deriving DecidableEq, Repr

def angleRep : AObj → AObj → Option AngleRep
  | .line a, .line b => some (.acute (cosSqVec a.dv b.dv))
  | .line a, .plane b => some (.compl (cosSqVec a.dv b.n))
  | .plane a, .line b => some (.compl (cosSqVec b.dv a.n))
  | .plane a, .plane b => some (.acute (cosSqVec a.n b.n))
  | .vec a, .vec b => some (.acute (cosSqVec a b))
  | _, _ => none

def parallelG : AObj → AObj → Option Bool
  | .line a, .line b => some (V3.parallel a.dv b.dv)
  | .line a, .plane b => some (V3.orthogonal a.dv b.n)
  | .plane a, .line b => some (V3.orthogonal b.dv a.n)
  | .plane a, .plane b => some (V3.parallel a.n b.n)
  | .vec a, .vec b => some (V3.parallel a b)
  | _, _ => none

def orthogonalG : AObj → AObj → Option Bool
  | .line a, .line b => some (dot a.dv b.dv == 0)
  | .line a, .plane b => some (V3.parallel a.dv b.n)
  | .plane a, .line b => some (V3.parallel b.dv a.n)
  | .plane a, .plane b => some (V3.orthogonal a.n b.n)
  | .vec a, .vec b => some (V3.orthogonal a b)
  | _, _ => none
end G3D
