import G3D.Model.Move
import G3D.Model.Measure
/-! `move` on Point, ConvexPolygon and ConvexPolyhedron (value model: receiver' and returned object).

    Python mutates in place; here every `move` is a function returning the new receiver state and the
    object the method returns.  Aliasing between Python `Point` objects (e.g. `plane.p is points[0]`)
    is NOT modelled: in the paths that complete normally every cached field is rebuilt from the moved
    vertex tuple, so aliasing is unobservable there.  It would matter only in the raising branches of
    `Polygon.move` (fewer than three vertices / collinear first three vertices), whose receiver state
    is therefore only an approximation (vertices moved, `plane` and `center_point` left as they were);
    no theorem depends on those branches beyond the vertex list. -/
namespace G3D
open V3

/-- `Point.move`: `self.x += v[0] …; return Point(self.pv())` -/
def Point.move (p v : V3) : V3 × V3 := (add p v, add p v)

/-- `Plane(a, b, c)` from three points (normal kept unnormalised) -/
def planeOf3 (p0 p1 p2 : V3) : Plane := ⟨p0, cross (sub p1 p0) (sub p2 p0)⟩

/-- `ConvexPolygon.move`:
    ```
    self.points = tuple(point.move(v) for point in self.points)      # same order
    self.plane = Plane(self.points[0], self.points[1], self.points[2])
    self.center_point = self._get_center_point()
    return ConvexPolygon(self.points)
    ```
    The plane is recomputed from the first three vertices of the (already angularly sorted) cycle, so
    its normal is `cross (p1-p0) (p2-p0)`, in general a multiple of the old normal, and `plane.p`
    becomes the moved `points[0]`.  `Plane(...)` normalises the normal and so divides by zero when the
    three vertices are collinear; `self.points[2]` raises `IndexError` on fewer than three vertices. -/
def Polygon.move (P : Polygon) (v : V3) : Polygon × Except CErr Polygon :=
  let pts' := P.pts.map (fun p => (Point.move p v).2)
  match pts' with
  | p0 :: p1 :: p2 :: _ =>
    if cross (sub p1 p0) (sub p2 p0) = zero then (⟨pts', P.plane, P.center⟩, .error .zeroDiv)
    else (⟨pts', planeOf3 p0 p1 p2, meanV pts'⟩, Polygon.mk? pts')
  | _ => (⟨pts', P.plane, P.center⟩, .error .index)

/-- the translate of a polygon record (every stored point moved, normal kept) -/
def Polygon.translate (P : Polygon) (v : V3) : Polygon :=
  ⟨P.pts.map (fun p => add p v), ⟨add P.plane.p v, P.plane.n⟩, add P.center v⟩

/-! ### ConvexPolyhedron.move
    ```
    self.convex_polygons = tuple(cp.move(v) for cp in self.convex_polygons)   # the RETURNED polygons
    point_set / segment_set rebuilt; center recomputed
    for i, cp in enumerate(self.convex_polygons):
        if Vector(center, cp.plane.p) * cp.plane.n < -eps: self.convex_polygons[i] = -cp   # tuple!
        pyramid_set.add(Pyramid(cp, center))
    _check_normal, _euler_check
    return ConvexPolyhedron(self.convex_polygons)
    ```
    Unlike the constructor, `move` stores the faces in a `tuple`, so the flip branch evaluates
    `-cp` (which may itself raise) and then raises `TypeError` on the item assignment. -/
inductive MErr | ctor (e : CErr) | typeErr
deriving DecidableEq, Repr

def liftC2 {α : Type} : Except CErr α → Except MErr α
  | .ok a => .ok a
  | .error e => .error (.ctor e)

/-- per face of the loop in `ConvexPolyhedron.move` -/
def moveFace (c : V3) (f : Polygon) : Except MErr (Polygon × V3) :=
  if dot (sub f.plane.p c) f.plane.n < 0 then
    match f.neg? with
    | .error e => .error (.ctor e)
    | .ok _ => .error .typeErr
  else if f.plane.contains c then .error (.ctor .value) else .ok (f, c)

/-- receiver' and returned object; any raise is reported as an error (the partially mutated receiver
    of a raising call is not modelled) -/
def Polyhedron.move (B : Polyhedron) (v : V3) : Except MErr (Polyhedron × Polyhedron) := do
  let faces ← liftC2 (B.faces.mapM (fun f => (f.move v).2))
  let verts := collectVerts faces
  let edges ← liftC2 (collectEdges faces [])
  if verts.length = 0 then .error (.ctor .zeroDiv)
  else
    let c := meanV verts
    let pyr ← faces.mapM (moveFace c)
    if !(faces.all (fun f => decide (0 ≤ dot (sub f.plane.p c) f.plane.n))) then .error (.ctor .value)
    else if (verts.length : Int) - edges.length + faces.length != 2 then .error (.ctor .value)
    else do
      let R ← liftC2 (Polyhedron.mk? faces)
      pure (⟨faces, verts, edges, pyr, c⟩, R)

end G3D
