/-! The "Python runtime" of the translator T6 (tools/extract_solver.py): the vocabulary into which
    Geometry3D/utils/solver.py is translated statement by statement (generated: G3D/Extracted/Solver.lean).
    Hand-written, Mathlib-free, no reference to the hand model G3D/Model/Solver2.lean.

    Python value                      Lean
    --------------------------------  ------------------------------------------------------------------
    float                             `Rat`  (exact arithmetic)
    int (len, index, counter)         `Int`  (so `shape([])[1] - 1 = -1`, negative indices, empty ranges)
    None-or-number                    `Option Rat` / `Option Int`; a `None` used as a number raises `typeError`
    list / tuple of numbers           `List Rat`;   matrix `List (List Rat)`;   `vals` `List (Option Rat)`
    tuple (a, b)                      `a × b`
    set of ints (membership only)     `List Int`
    exception                         `Except PyErr`

    Mutation is FUNCTIONAL: `m[i] = x` rebinds `m` to `pySetIdx m i x`; this is exact here because solver.py never
    mutates a row in place (rows are only replaced or swapped), so no alias of a row can observe an update.
    The ONE trusted reading is `null`: `abs(f) < get_eps()` is read as `f = 0` (`pyNullExact`).            -/
namespace G3D.PyRtS

inductive PyErr
  | valueError (msg : String)   -- `raise ValueError(msg)`; `max([])`
  | typeError                   -- `None` used as a number / index
  | indexError                  -- list index out of range; `[].pop()`
  | zeroDivision                -- `x / 0`
deriving Repr, DecidableEq

abbrev PyM := Except PyErr

/-- TRUSTED READING of `abs(f) < get_eps()`: exact arithmetic, so "null" is "zero" -/
def pyNullExact (f : Rat) : Bool := decide (f = 0)

/-- `abs(x)` -/
def pyAbs (x : Rat) : Rat := if x < 0 then -x else x

/-- `len(l)` -/
def pyLen {α} (l : List α) : Int := (l.length : Int)

/-- truth value of a list: non-empty -/
def pyTruthy {α} (l : List α) : Bool := !l.isEmpty

/-- Python index normalisation: `i` counts from the end when negative; `none` = out of range -/
def pyNormIdx (n : Nat) (i : Int) : Option Nat :=
  if 0 ≤ i then (if i.toNat < n then some i.toNat else none)
  else if 0 ≤ (n : Int) + i then some ((n : Int) + i).toNat else none

/-- `l[i]` -/
def pyIdx {α} (l : List α) (i : Int) : PyM α :=
  match pyNormIdx l.length i with
  | none => throw .indexError
  | some k => match l[k]? with
    | none => throw .indexError
    | some x => pure x

/-- `l[i] = x` (functional) -/
def pySetIdx {α} (l : List α) (i : Int) (x : α) : PyM (List α) :=
  match pyNormIdx l.length i with
  | none => throw .indexError
  | some k => pure (l.set k x)

/-- slice bound clamping -/
def pyClamp (n : Nat) (i : Int) : Nat :=
  if 0 ≤ i then min i.toNat n else ((n : Int) + i).toNat

/-- `l[i:]` -/
def pySliceFrom {α} (l : List α) (i : Int) : List α := l.drop (pyClamp l.length i)
/-- `l[:i]` -/
def pySliceTo {α} (l : List α) (i : Int) : List α := l.take (pyClamp l.length i)

/-- `range(a, b)` (`range(b)` is `range(0, b)`) -/
def pyRange (a b : Int) : List Int := (List.range (b - a).toNat).map (fun (k : Nat) => a + (k : Int))
/-- `reversed(l)` -/
def pyReversed {α} (l : List α) : List α := l.reverse
/-- `enumerate(l)` -/
def pyEnumerate {α} (l : List α) : List (Int × α) := l.zipIdx.map (fun p => ((p.2 : Int), p.1))
/-- `zip(a, b)` -/
def pyZip {α β} (a : List α) (b : List β) : List (α × β) := List.zip a b
/-- `l * n` for a list `l` -/
def pyRepeat {α} (l : List α) (n : Int) : List α := (List.replicate n.toNat l).flatten
/-- `l.append(x)` (functional) -/
def pyAppend {α} (l : List α) (x : α) : List α := l ++ [x]
/-- `v.pop()`: the last element and the shortened list -/
def pyPop {α} (l : List α) : PyM (α × List α) :=
  match l.getLast? with
  | none => throw .indexError
  | some x => pure (x, l.dropLast)

/-- tuple `<` (lexicographic: first differing component decides) -/
def pyTupLt (a b : Rat × Int) : Bool := decide (a.1 < b.1) || (a.1 == b.1 && decide (a.2 < b.2))
/-- `max(l)` over tuples: the FIRST maximal element (`if item > best: best = item`) -/
def pyMax : List (Rat × Int) → PyM (Rat × Int)
  | [] => throw (.valueError "max() arg is an empty sequence")
  | x :: xs => pure (xs.foldl (fun best y => if pyTupLt best y then y else best) x)

/-- `sum(l)`: starts from 0, adds from the left -/
def pySum {α} [Add α] [OfNat α 0] (l : List α) : α := l.foldl (· + ·) 0

/-- `list(l)` / `tuple(l)` of something that is already a sequence: a copy (values are immutable here) -/
def pyList {α} (l : List α) : List α := l
def pyTuple {α} (l : List α) : List α := l

/-- `set(l)` used for membership only -/
def pySetOf (l : List Int) : List Int := l
/-- `i in s` -/
def pyIn (i : Int) (s : List Int) : Bool := s.contains i

/-- `x is None` -/
def pyIsNone {α} (o : Option α) : Bool := o.isNone
/-- a None-or-number used as a number -/
def pyNum {α} : Option α → PyM α
  | none => throw .typeError
  | some x => pure x
/-- true division -/
def pyDiv (a b : Rat) : PyM Rat := if b = 0 then throw .zeroDivision else pure (a / b)

/-- `a and b` (short-circuit) -/
def pyAnd (a b : PyM Bool) : PyM Bool := do if (← a) then b else pure false
/-- `a or b` (short-circuit) -/
def pyOr (a b : PyM Bool) : PyM Bool := do if (← a) then pure true else b

/-- `[e(x) for x in xs]` / a generator expression consumed completely -/
def pyComp {α β} (e : α → PyM β) : List α → PyM (List β)
  | [] => pure []
  | x :: xs => do let y ← e x; let ys ← pyComp e xs; pure (y :: ys)
/-- `(e(x) for x in xs if c(x))` consumed completely -/
def pyCompIf {α β} (c : α → PyM Bool) (e : α → PyM β) : List α → PyM (List β)
  | [] => pure []
  | x :: xs => do
    if (← c x) then let y ← e x; let ys ← pyCompIf c e xs; pure (y :: ys)
    else pyCompIf c e xs
/-- `any(e(x) for x in xs)` (lazy: stops at the first true element) -/
def pyAny {α} (e : α → PyM Bool) : List α → PyM Bool
  | [] => pure false
  | x :: xs => do if (← e x) then pure true else pyAny e xs
/-- `all(e(x) for x in xs)` / `all(map(e, xs))` (lazy: stops at the first false element) -/
def pyAll {α} (e : α → PyM Bool) : List α → PyM Bool
  | [] => pure true
  | x :: xs => do if (← e x) then pyAll e xs else pure false

end G3D.PyRtS
