import Mathlib.Analysis.Real.Sqrt

/-! # Tolerance-aware model of the comparison predicates over ℝ

    Every predicate below is the Python expression of the cited source line, read over the real
    numbers: `+ - * /` are the field operations of ℝ, `v.length()` (`(v*v) ** 0.5`,
    utils/vector.py:131-133) is `Real.sqrt (v·v)`, `abs` is `|·|` and `get_eps()` is the positive real
    parameter `eps`.  Python's `and` / `or` are `∧` / `∨` (all operands are total here, so the
    short-circuit order does not matter for the truth value).  Floating-point rounding is NOT
    modelled. -/
namespace G3D.TolGeo

/-- coordinates of a `Vector` (`_v[0.._2]`) or of a `Point` (`x, y, z`; `Point.pv()`,
    geometry/point.py:85-87, is the identity on coordinates) -/
@[ext] structure R3 where
  x : ℝ
  y : ℝ
  z : ℝ

namespace R3
/-- `Vector.zero()` utils/vector.py:14-16 -/
def zero : R3 := ⟨0, 0, 0⟩
/-- `Vector.__add__` utils/vector.py:89-90 -/
def add (a b : R3) : R3 := ⟨a.x + b.x, a.y + b.y, a.z + b.z⟩
/-- `Vector.__sub__` utils/vector.py:92-93; also `Vector(A, B)` = `B - A` utils/vector.py:45-52 -/
def sub (a b : R3) : R3 := ⟨a.x - b.x, a.y - b.y, a.z - b.z⟩
/-- `Vector.__mul__` with a scalar utils/vector.py:95-98 -/
def smul (k : ℝ) (a : R3) : R3 := ⟨k * a.x, k * a.y, k * a.z⟩
/-- `Vector.__mul__` with a vector (dot product) utils/vector.py:95-97 -/
def dot (a b : R3) : ℝ := a.x * b.x + a.y * b.y + a.z * b.z
/-- `Vector.cross` utils/vector.py:115-129 -/
def cross (a b : R3) : R3 :=
  ⟨a.y * b.z - a.z * b.y, a.z * b.x - a.x * b.z, a.x * b.y - a.y * b.x⟩
/-- `Vector.length`: `(self * self) ** 0.5` utils/vector.py:131-133 -/
noncomputable def len (a : R3) : ℝ := Real.sqrt (dot a a)
/-- `Vector.normalized`: `float(1 / self.length()) * self` utils/vector.py:163-168 -/
noncomputable def normalized (a : R3) : R3 := smul (1 / len a) a
end R3

open R3

/-- `Vector.__eq__` utils/vector.py:82-87 and `Point.__eq__` geometry/point.py:66-73:
    three coordinate tests `abs(a_i - b_i) < get_eps()` -/
def vecEq (eps : ℝ) (a b : R3) : Prop :=
  |a.x - b.x| < eps ∧ |a.y - b.y| < eps ∧ |a.z - b.z| < eps

/-- `self == Vector.zero()` utils/vector.py:141 (and geometry/line.py:56) -/
def isZero (eps : ℝ) (a : R3) : Prop := vecEq eps a R3.zero

/-- `Vector.parallel` utils/vector.py:137-149:
    `if self == zero or other == zero: return True`; `if self == other: return True`;
    `return abs(abs(self * other) - self.length() * other.length()) < get_eps() * self.length()` -/
noncomputable def parallelT (eps : ℝ) (a b : R3) : Prop :=
  (isZero eps a ∨ isZero eps b) ∨ vecEq eps a b ∨
    |(|dot a b|) - len a * len b| < eps * len a

/-- `Vector.orthogonal` utils/vector.py:151-153: `abs(self * other) < get_eps()` -/
def orthogonalT (eps : ℝ) (a b : R3) : Prop := |dot a b| < eps

/-! ## Line  (geometry/line.py) -/

/-- `Line(sv, dv)`: `self.sv = a` (line.py:49), `self.dv = b` (line.py:51) -/
structure Line where
  sv : R3
  dv : R3

/-- `Line(Point, Point)`: `self.dv = b.pv() - self.sv` line.py:52-54 -/
def Line.ofPoints (a b : R3) : Line := ⟨a, sub b a⟩

/-- the constructor does not raise: `if self.dv == Vector.zero(): raise ValueError` line.py:56-57 -/
def Line.valid (eps : ℝ) (l : Line) : Prop := ¬ isZero eps l.dv

/-- `Line.__contains__` for a Point, line.py:66-68: `v = other.pv() - self.sv; return v.parallel(self.dv)` -/
noncomputable def Line.containsT (eps : ℝ) (l : Line) (x : R3) : Prop :=
  parallelT eps (sub x l.sv) l.dv

/-- `Line.__eq__` line.py:76-77: `Point(other.sv) in self and other.dv.parallel(self.dv)` -/
noncomputable def Line.eqT (eps : ℝ) (l m : Line) : Prop :=
  Line.containsT eps l m.sv ∧ parallelT eps m.dv l.dv

/-! ## Plane  (geometry/plane.py) -/

/-- stored fields `self.p`, `self.n` plane.py:75-76 -/
structure Plane where
  p : R3
  n : R3

/-- `Plane(Point, Vector)` → `_init_pn` plane.py:73-76: the stored normal IS normalised,
    `self.n = normale.normalized()` -/
noncomputable def Plane.ofPN (p r : R3) : Plane := ⟨p, normalized r⟩

/-- `Plane(Point, Point, Point)` plane.py:51-58, 66-67: `vec = vab.cross(vac); _init_pn(a, vec)` -/
noncomputable def Plane.ofPoints (a b c : R3) : Plane :=
  Plane.ofPN a (cross (sub b a) (sub c a))

/-- `Plane.__contains__` for a Point, plane.py:101-102:
    `abs(other.pv() * self.n - self.p.pv() * self.n) < get_eps()` -/
def Plane.containsT (eps : ℝ) (P : Plane) (x : R3) : Prop :=
  |dot x P.n - dot P.p P.n| < eps

/-- `Plane.__eq__` plane.py:92-93: `self.p in other and self.n.parallel(other.n)` -/
noncomputable def Plane.eqT (eps : ℝ) (P Q : Plane) : Prop :=
  Plane.containsT eps Q P.p ∧ parallelT eps P.n Q.n

/-! ## Segment  (geometry/segment.py) -/

/-- `start_point`, `end_point` segment.py:34-35 (Point,Point) resp. 42-43 (Point,Vector: `end = a + b`) -/
structure Segment where
  s : R3
  e : R3

/-- `Segment(Point, Vector)` segment.py:41-43 -/
def Segment.ofPV (a b : R3) : Segment := ⟨a, add a b⟩

/-- `self.line = Line(a, b)` segment.py:33: support `a`, direction `b - a` (line.py:52-54).
    For `Segment(Point, Vector)` the direction is the given vector, which over ℝ is the same
    `(a + b) - a`. -/
def Segment.line (S : Segment) : Line := Line.ofPoints S.s S.e

/-- the constructor does not raise: `if a == b: raise ValueError` segment.py:29-32 -/
def Segment.valid (eps : ℝ) (S : Segment) : Prop := ¬ vecEq eps S.s S.e

/-- `Segment.__eq__` segment.py:49-54 -/
def Segment.eqT (eps : ℝ) (S T : Segment) : Prop :=
  (vecEq eps S.s T.s ∧ vecEq eps S.e T.e) ∨ (vecEq eps S.e T.s ∧ vecEq eps S.s T.e)

/-- `reletive_length = v1 * v / (v.length()) / (v.length())` segment.py:68 with
    `v = Vector(start, end)` (63), `v1 = Vector(start, other)` (64) -/
noncomputable def Segment.rel (S : Segment) (x : R3) : ℝ :=
  dot (sub x S.s) (sub S.e S.s) / len (sub S.e S.s) / len (sub S.e S.s)

/-- `Segment.__contains__` for a Point, segment.py:61-73:
    `r1 = other in self.line`; `if v1.length() < get_eps(): return True`
    `else: return r1 and rel > -get_eps() and rel < 1 + get_eps()` -/
noncomputable def Segment.containsT (eps : ℝ) (S : Segment) (x : R3) : Prop :=
  len (sub x S.s) < eps ∨
    (¬ len (sub x S.s) < eps ∧
      (Line.containsT eps S.line x ∧ Segment.rel S x > -eps ∧ Segment.rel S x < 1 + eps))

/-! ## HalfLine  (geometry/halfline.py) -/

/-- `self.point`, `self.vector` halfline.py:43-44 (Point,Vector) resp. 35-36 (Point,Point: `Vector(a, b)`) -/
structure HalfLine where
  p : R3
  v : R3

/-- `HalfLine(Point, Point)` halfline.py:34-36 -/
def HalfLine.ofPoints (a b : R3) : HalfLine := ⟨a, sub b a⟩

/-- `self.line = Line(a, b)` halfline.py:42 (resp. 34: direction `b - a`, the same vector) -/
def HalfLine.line (H : HalfLine) : Line := ⟨H.p, H.v⟩

/-- `HalfLine.__eq__` halfline.py:50-55:
    `self.point == other.point and (self.vector.normalized() - other.vector.normalized()).length() < get_eps()` -/
noncomputable def HalfLine.eqT (eps : ℝ) (H K : HalfLine) : Prop :=
  vecEq eps H.p K.p ∧ len (sub (normalized H.v) (normalized K.v)) < eps

/-- `HalfLine.__contains__` for a Point, halfline.py:62-68:
    `r1 = other in self.line; if r1: v1 = Vector(self.point, other); return v1 * self.vector > -get_eps()` -/
noncomputable def HalfLine.containsT (eps : ℝ) (H : HalfLine) (x : R3) : Prop :=
  Line.containsT eps H.line x ∧ dot (sub x H.p) H.v > -eps

/-- `HalfLine.__contains__` for a HalfLine, halfline.py:71-76:
    `(self.line == other.line) and (other.point in self) and ((self.vector * other.vector) > -get_eps())` -/
noncomputable def HalfLine.containsHL (eps : ℝ) (H K : HalfLine) : Prop :=
  Line.eqT eps H.line K.line ∧ HalfLine.containsT eps H K.p ∧ dot H.v K.v > -eps

/-! ## The branch taken first by the intersection handlers  (calc/intersection.py) -/

/-- `inter_line_line` intersection.py:275-276: `if l1 == l2: return l1` (else: solve the 3×2 system, 278-299) -/
inductive LLBranch | coincident | solve
deriving DecidableEq

open Classical in
noncomputable def interLineLineBranch (eps : ℝ) (l1 l2 : Line) : LLBranch :=
  if Line.eqT eps l1 l2 then .coincident else .solve

/-- `inter_plane_plane` intersection.py:462-473:
    `if a == b: return a` / `elif a.n.parallel(b.n): return None` / `else:` the common line -/
inductive PPBranch | coincident | parallelNone | line
deriving DecidableEq

open Classical in
noncomputable def interPlanePlaneBranch (eps : ℝ) (a b : Plane) : PPBranch :=
  if Plane.eqT eps a b then .coincident
  else if parallelT eps a.n b.n then .parallelNone else .line

/-- `inter_segment_segment` intersection.py:575: `if a.line == b.line:` selects the collinear branch;
    the collinear branch then collects the end points that pass
    `a.start_point in b`, `a.end_point in b`, `b.start_point in a`, `b.end_point in a` (577-584) -/
noncomputable def segSegCollinearBranch (eps : ℝ) (a b : Segment) : Prop :=
  Line.eqT eps a.line b.line

/-- the four membership tests of intersection.py:577-584 all succeed -/
noncomputable def segSegAllEndpointsCollected (eps : ℝ) (a b : Segment) : Prop :=
  Segment.containsT eps b a.s ∧ Segment.containsT eps b a.e ∧
    Segment.containsT eps a b.s ∧ Segment.containsT eps a b.e

/-- `inter_halfline_halfline` intersection.py:927-929: `if a.line == b.line: if a in b: return a` -/
noncomputable def hlHlReturnsFirst (eps : ℝ) (a b : HalfLine) : Prop :=
  Line.eqT eps a.line b.line ∧ HalfLine.containsHL eps b a

end G3D.TolGeo
