import G3D.Model.K5

/-! Executable judge of the hypotheses of the exactness theorems for flat × ConvexPolyhedron (kernel K3).
    Definitions only (no Mathlib) so that the compiled driver can evaluate the judge on every body of the correspondence;
    `Polyhedron.exactHyp_of_B` (Proofs/K3.lean) proves that `exactHypB = true` implies the hypotheses. -/
namespace G3D
open V3

def Seg.wfB (s : Seg) : Bool := (s.a != s.b) && (s.line == (⟨s.a, sub s.b s.a⟩ : Line))

def Seg.isEdge (s : Seg) (e : V3 × V3) : Bool := (s.a == e.1 && s.b == e.2) || (s.a == e.2 && s.b == e.1)

def Polyhedron.edgesRealB (B : Polyhedron) : Bool :=
  B.edges.all (fun s => B.faces.any (fun f => (closedPairs f.pts).any (fun e => s.isEdge e)))

def Polyhedron.edgesCompleteB (B : Polyhedron) : Bool :=
  B.faces.all (fun f => (closedPairs f.pts).all (fun e => B.edges.any (fun s => s.isEdge e)))

/-- executable judge of `Polyhedron.ExactHyp` -/
def Polyhedron.exactHypB (B : Polyhedron) : Bool :=
  B.validCoreB && B.faceLocalB && B.edges.all (·.wfB) && B.edgesRealB && B.edgesCompleteB

end G3D
