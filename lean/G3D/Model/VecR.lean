import Mathlib.Data.Real.Basic
import G3D.Model.Vec
/-! Real triples: the carrier of the kernels that contain square roots (G3D/Extracted/Kernelsr.lean), with the
    embedding of the exact-rational model vectors. -/
namespace G3D

structure RVec where
  x : ℝ
  y : ℝ
  z : ℝ

noncomputable section
namespace RVec
def zero : RVec := ⟨0, 0, 0⟩
def add (a b : RVec) : RVec := ⟨a.x + b.x, a.y + b.y, a.z + b.z⟩
def sub (a b : RVec) : RVec := ⟨a.x - b.x, a.y - b.y, a.z - b.z⟩
def smul (k : ℝ) (a : RVec) : RVec := ⟨k * a.x, k * a.y, k * a.z⟩
def dot (a b : RVec) : ℝ := a.x * b.x + a.y * b.y + a.z * b.z
def cross (a b : RVec) : RVec := ⟨a.y * b.z - a.z * b.y, a.z * b.x - a.x * b.z, a.x * b.y - a.y * b.x⟩
def normSq (a : RVec) : ℝ := dot a a
end RVec

/-- a rational model vector read as a real triple -/
def V3.toR (a : V3) : RVec := ⟨(a.x : ℝ), (a.y : ℝ), (a.z : ℝ)⟩
end
end G3D
