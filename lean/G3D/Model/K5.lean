import G3D.Model.Body
import G3D.Model.Judge
/-! Kernel K5, executable part (Mathlib-free): the face functional, the Bool judges of polyhedron validity, the
    face-locality checker, and a few concrete bodies. -/
namespace G3D
open V3

/-- the value tested by `ConvexPolyhedron.__contains__` for one face: `(x - f.center) . f.plane.n` -/
def Polygon.side (f : Polygon) (x : V3) : Rat := dot (sub x f.center) f.plane.n

/-- Bool checker of `Polyhedron.FaceLocal`: for every face `f` and every directed edge `(a, b)` of `f` there is a
    face `g` whose plane passes through `a` and `b` and which has a vertex of `f` strictly on its inner side -/
def Polyhedron.faceLocalB (B : Polyhedron) : Bool :=
  B.faces.all (fun f => (closedPairs f.pts).all (fun e =>
    B.faces.any (fun g => g.side e.1 == 0 && g.side e.2 == 0 && f.pts.any (fun v => decide (g.side v < 0)))))

/-- the directed edges of all faces -/
def Polyhedron.dirEdgesB (B : Polyhedron) : List (V3 × V3) := B.faces.flatMap (fun f => closedPairs f.pts)

/-- two faces sharing an edge with opposite directions are not coplanar (Bool) -/
def Polyhedron.properEdgesB (B : Polyhedron) : Bool :=
  B.faces.all (fun f => (closedPairs f.pts).all (fun e =>
    B.faces.all (fun g => !((closedPairs g.pts).contains (e.2, e.1)) || f.pts.any (fun v => g.side v != 0))))

/-- the vertex mean is strictly inside every face half-space (what the library's constructor enforces) -/
def Polyhedron.interiorB (B : Polyhedron) : Bool :=
  B.faces.all (fun f => decide (f.side (meanV B.verts) < 0))

/-- the part of validity common to both judges: a face exists; faces valid with centre in plane; face vertices are
    listed; listed vertices pass all face tests; the directed edges form a closed surface -/
def Polyhedron.validCoreB (B : Polyhedron) : Bool :=
  !B.faces.isEmpty &&
  B.faces.all (fun f => f.validB) &&
  B.faces.all (fun f => inPlane f.plane.n f.plane.p f.center) &&
  B.faces.all (fun f => f.pts.all (fun p => B.verts.contains p)) &&
  B.faces.all (fun f => B.verts.all (fun v => decide (f.side v ≤ 0))) &&
  B.dirEdgesB.isPerm (B.dirEdgesB.map Prod.swap)

/-- Bool judge of `Polyhedron.Valid` (general case; coplanar neighbouring faces allowed) -/
def Polyhedron.validB (B : Polyhedron) : Bool := B.validCoreB && B.interiorB

/-- Bool judge of `Polyhedron.ValidProper` (no interior point needed, no coplanar neighbours) -/
def Polyhedron.validProperB (B : Polyhedron) : Bool := B.validCoreB && B.properEdgesB

/-- the polygon of a judged face `(outward normal, vertex cycle)`: plane through the first vertex -/
def faceOf (f : V3 × List V3) : Polygon := ⟨f.2, ⟨f.2.headD zero, f.1⟩, f.2.headD zero⟩

/-- the polyhedron of a judged face list (the input format of `polyhedronValidB`) -/
def Polyhedron.ofFaces (faces : List (V3 × List V3)) : Polyhedron :=
  ⟨faces.map faceOf, faces.foldl (fun acc f => f.2.foldl addPt acc) [], [], [], zero⟩

/-- additional check on judged face lists: the vertex mean is strictly inside every face half-space -/
def interiorF (faces : List (V3 × List V3)) : Bool := (Polyhedron.ofFaces faces).interiorB

/-- alternative additional check on judged face lists: no two faces sharing an edge are coplanar -/
def properEdgesF (faces : List (V3 × List V3)) : Bool := (Polyhedron.ofFaces faces).properEdgesB

/-- triangle face with outward normal `(q - p) × (r - p)`, centre = vertex centroid (as the library stores it) -/
def triFace (p q r : V3) : Polygon := ⟨[p, q, r], ⟨p, cross (sub q p) (sub r p)⟩, meanV [p, q, r]⟩

/-- tetrahedron on a positively oriented vertex quadruple (`(b-a) . ((c-a) × (d-a)) > 0`), faces outward -/
def tetra (a b c d : V3) : Polyhedron :=
  ⟨[triFace a c b, triFace a b d, triFace a d c, triFace b c d], [a, b, c, d], [], [], meanV [a, b, c, d]⟩

/-! ### concrete instances for the Bool judges -/
/-- polygon from an explicit cycle: plane through the first vertex, normal from the first three, centre = centroid -/
def cycleFace (pts : List V3) : Polygon :=
  match pts with
  | p0 :: p1 :: p2 :: _ => ⟨pts, ⟨p0, cross (sub p1 p0) (sub p2 p0)⟩, meanV pts⟩
  | _ => ⟨pts, ⟨zero, zero⟩, zero⟩

def polyOfCycles (cs : List (List V3)) : Polyhedron :=
  let fs := cs.map cycleFace
  ⟨fs, collectVerts fs, [], [], meanV (collectVerts fs)⟩

/-- the unit cube, six outward oriented quadrilaterals -/
def unitCube : Polyhedron := polyOfCycles
  [ [⟨0,0,0⟩, ⟨0,1,0⟩, ⟨1,1,0⟩, ⟨1,0,0⟩], [⟨0,0,1⟩, ⟨1,0,1⟩, ⟨1,1,1⟩, ⟨0,1,1⟩],
    [⟨0,0,0⟩, ⟨1,0,0⟩, ⟨1,0,1⟩, ⟨0,0,1⟩], [⟨0,1,0⟩, ⟨0,1,1⟩, ⟨1,1,1⟩, ⟨1,1,0⟩],
    [⟨0,0,0⟩, ⟨0,0,1⟩, ⟨0,1,1⟩, ⟨0,1,0⟩], [⟨1,0,0⟩, ⟨1,1,0⟩, ⟨1,1,1⟩, ⟨1,0,1⟩] ]

/-- the unit cube with its top face split into two coplanar triangles: closed, convex, Euler holds; valid in the
    general sense, but not `ValidProper`, and "a body point in a face plane lies in that face" fails -/
def splitCube : Polyhedron := polyOfCycles
  [ [⟨0,0,0⟩, ⟨0,1,0⟩, ⟨1,1,0⟩, ⟨1,0,0⟩], [⟨0,0,1⟩, ⟨1,0,1⟩, ⟨1,1,1⟩], [⟨0,0,1⟩, ⟨1,1,1⟩, ⟨0,1,1⟩],
    [⟨0,0,0⟩, ⟨1,0,0⟩, ⟨1,0,1⟩, ⟨0,0,1⟩], [⟨0,1,0⟩, ⟨0,1,1⟩, ⟨1,1,1⟩, ⟨1,1,0⟩],
    [⟨0,0,0⟩, ⟨0,0,1⟩, ⟨0,1,1⟩, ⟨0,1,0⟩], [⟨1,0,0⟩, ⟨1,1,0⟩, ⟨1,1,1⟩, ⟨1,0,1⟩] ]

/-- the "pillow": the unit square twice, with opposite normals.  It passes `polyhedronValidB` (closed, Euler
    4 - 4 + 2 = 2, all vertices on the inner side) but its two face tests describe the whole plane `z = 0` -/
def pillowFaces : List (V3 × List V3) :=
  [ (⟨0,0,1⟩, [⟨0,0,0⟩, ⟨1,0,0⟩, ⟨1,1,0⟩, ⟨0,1,0⟩]), (⟨0,0,-1⟩, [⟨0,0,0⟩, ⟨0,1,0⟩, ⟨1,1,0⟩, ⟨1,0,0⟩]) ]
end G3D
