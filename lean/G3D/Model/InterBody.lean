import G3D.Model.InterFlat
import G3D.Model.Body
import G3D.Model.Dispatch
/-! The remaining 13 handlers of calc/intersection.py (those involving ConvexPolygon / ConvexPolyhedron)
    and the helpers of calc/aux_calc.py. Internal generic `intersection(...)` calls are resolved to the
    handler the dispatch table selects for the (statically known) operand types. -/
namespace G3D
open V3

inductive Obj
  | flat (g : Geo)
  | polygon (P : Polygon)
  | polyhedron (B : Polyhedron)
deriving Repr

inductive BErr | bug | notImpl | arity | ctor (e : CErr) | value | typeMismatch
deriving Repr

abbrev ResB := Except BErr (Option Obj)

def liftFlat (r : Res) : ResB :=
  match r with
  | .ok none => .ok none
  | .ok (some g) => .ok (some (.flat g))
  | .error .bug => .error .bug
  | .error .notImpl => .error .notImpl
  | .error .arity => .error .arity
  | .error .ctor => .error (.ctor .value)

def liftC {α} (r : Except CErr α) : Except BErr α :=
  match r with | .ok a => .ok a | .error e => .error (.ctor e)

def pt? (p : V3) : ResB := .ok (some (.flat (.point p)))
def seg? (s : Seg) : ResB := .ok (some (.flat (.seg s)))

/-- 0 / 1 / 2 collected points → None / Point / Segment, more → "Bug detected" -/
def ofPoints (ps : List V3) : ResB := liftFlat (ofPointSet ps)

def interPointPolygon (p : V3) (P : Polygon) : ResB := if P.contains p then pt? p else .ok none
def interPointPolyhedron (p : V3) (B : Polyhedron) : ResB := if B.contains p then pt? p else .ok none

/-- `get_segment_from_point_list` -/
def segmentFromPointList (ps : List V3) : Except BErr Seg :=
  match ps with
  | p0 :: p1 :: rest =>
    let v0 := sub p1 p0
    if rest.any (fun pi => !(V3.parallel (sub pi p0) v0)) then .error .value
    else if rest ≠ [] ∧ normSq v0 = 0 then .error (.ctor .zeroDiv)
    else
      let rels : List Rat := 0 :: 1 :: rest.map (fun pi => dot (sub pi p0) v0 / normSq v0)
      let lo := rels.foldl min 0
      let hi := rels.foldl max 0
      let a := add p0 (smul lo v0)
      let b := add p0 (smul hi v0)
      if a = b then .error (.ctor .value) else .ok (Seg.mk' a b)
  | _ => .error .value

/-- coplanar branch of `inter_line_convexpolygon` -/
def lineEdgesLoop (l : Line) : List Seg → List V3 → ResB
  | [], acc => ofPoints acc
  | s :: ss, acc =>
    match interLineSeg l s with
    | .ok none => lineEdgesLoop l ss acc
    | .ok (some (.point q)) => lineEdgesLoop l ss (addNew acc q)
    | .ok (some (.seg r)) => seg? r
    | .ok _ => .error .bug
    | .error _ => .error .bug

def interLinePolygon (l : Line) (P : Polygon) : ResB :=
  match interLinePlane l P.plane with
  | .ok none => .ok none
  | .ok (some (.line _)) => do
      let ss ← liftC P.segments?
      lineEdgesLoop l ss []
  | .ok (some (.point q)) => interPointPolygon q P
  | _ => .error .bug

def interLinePolyhedron (l : Line) (B : Polyhedron) : ResB :=
  let rec loop : List Polygon → List V3 → ResB
    | [], acc =>
      match acc with
      | [] => .ok none
      | [p] => pt? p
      | ps => do let s ← segmentFromPointList ps; seg? s
    | f :: fs, acc =>
      match interLinePolygon l f with
      | .ok (some (.flat (.seg s))) => seg? s
      | .ok (some (.flat (.point q))) => loop fs (addNew acc q)
      | .ok none => loop fs acc
      | .ok _ => .error .bug
      | .error e => .error e
  loop B.faces []

def interPlanePolygon (a : Plane) (P : Polygon) : ResB :=
  match interPlanePlane a P.plane with
  | .ok none => .ok none
  | .ok (some (.plane _)) => .ok (some (.polygon P))
  | .ok (some (.line l)) => interLinePolygon l P
  | _ => .error .bug

def interPlanePolyhedron (a : Plane) (B : Polyhedron) : ResB :=
  match B.faces.find? (fun f => f.inPlane a) with
  | some f => .ok (some (.polygon f))
  | none =>
    let rec loop : List Seg → List V3 → Except BErr (List V3)
      | [], acc => .ok acc
      | s :: ss, acc =>
        match interPlaneSeg a s with
        | .ok none => loop ss acc
        | .ok (some (.seg _)) => loop ss acc
        | .ok (some (.point q)) => loop ss (addNew acc q)
        | _ => .error .bug
    match loop B.edges [] with
    | .error e => .error e
    | .ok [] => .ok none
    | .ok [p] => pt? p
    | .ok [p, q] => do let s ← liftC (if p = q then .error .value else .ok (Seg.mk' p q)); seg? s
    | .ok ps => do let P ← liftC (Polygon.mk? ps); pure (some (.polygon P))

/-- shared by segment and half-line: operand `X` with carrier line `ln`, membership `mem`, and the
    flat handlers to apply to a Point / Segment result of the carrier line -/
def interCarrierPolygon (ln : Line) (mem : V3 → Bool) (withPoint : V3 → Res) (withSeg : Seg → Res)
    (P : Polygon) : ResB :=
  match interLinePlane ln P.plane with
  | .ok none => .ok none
  | .ok (some (.point q)) => if mem q && P.contains q then pt? q else .ok none
  | .ok (some (.line _)) =>
    match interLinePolygon ln P with
    | .ok none => .ok none
    | .ok (some (.flat (.point q))) => liftFlat (withPoint q)
    | .ok (some (.flat (.seg s))) => liftFlat (withSeg s)
    | .ok _ => .error .bug
    | .error e => .error e
  | _ => .error .bug

def interSegPolygon (a : Seg) (P : Polygon) : ResB :=
  interCarrierPolygon a.line a.contains (fun q => interPointSeg q a) (fun s => interSegSeg s a) P

def interPolygonHalfLine (P : Polygon) (h : HalfLine) : ResB :=
  interCarrierPolygon h.line h.contains (fun q => interPointHalfLine q h) (fun s => interSegHalfLine s h) P

/-- `get_segment_convexpolyhedron_intersection_point_set` / the half-line twin -/
def faceHits (facePt : Polygon → ResB) : List Polygon → List V3 → Except BErr (List V3)
  | [], acc => .ok acc
  | f :: fs, acc =>
    match facePt f with
    | .ok none => faceHits facePt fs acc
    | .ok (some (.flat (.seg _))) => faceHits facePt fs acc
    | .ok (some (.flat (.point q))) => faceHits facePt fs (addNew acc q)
    | .ok _ => .error .bug
    | .error e => .error e

def edgeHits (edgePt : Seg → Res) : List Seg → List V3 → Except BErr (List V3)
  | [], acc => .ok acc
  | s :: ss, acc =>
    match edgePt s with
    | .ok none => edgeHits edgePt ss acc
    | .ok (some (.seg _)) => edgeHits edgePt ss acc
    | .ok (some (.point q)) => edgeHits edgePt ss (addNew acc q)
    | _ => .error .bug

def boundaryHits (facePt : Polygon → ResB) (edgePt : Seg → Res) (B : Polyhedron) : Except BErr (List V3) := do
  let acc ← faceHits facePt B.faces []
  edgeHits edgePt B.edges acc

def segPolyhedronPointSet (a : Seg) (B : Polyhedron) : Except BErr (List V3) :=
  boundaryHits (fun f => interSegPolygon a f) (fun s => interSegSeg s a) B

def interSegPolyhedron (a : Seg) (B : Polyhedron) : ResB :=
  if B.contains a.a && B.contains a.b then seg? a
  else do
    let acc ← segPolyhedronPointSet a B
    let acc := if B.contains a.a && !B.contains a.b then addNew acc a.a
               else if !B.contains a.a && B.contains a.b then addNew acc a.b else acc
    ofPoints acc

def interPolyhedronHalfLine (B : Polyhedron) (h : HalfLine) : ResB := do
  let acc ← boundaryHits (fun f => interPolygonHalfLine f h) (fun s => interSegHalfLine s h) B
  let acc := if B.contains h.p then addNew acc h.p else acc
  ofPoints acc

/-- `points_in_a_line` -/
def pointsInALine (ps : List V3) : Except BErr Bool :=
  match ps with
  | p0 :: p1 :: rest =>
    if rest = [] then .ok true
    else if p1 = p0 then .error .value
    else .ok (rest.all (fun p => (⟨p0, sub p1 p0⟩ : Line).contains p))
  | _ => .ok true

def interFlatPair (x y : Geo) : ResB := liftFlat (interFlat x y)

/-- `for seg in a.segments(): point_set |= get_segment_convexpolygon_intersection_point_set(seg, b)` -/
def crossHitsOne (sb : List Seg) (s : Seg) : List V3 → Except BErr (List V3) :=
  edgeHits (fun t => interSegSeg t s) sb

def crossHits (sb : List Seg) : List Seg → List V3 → Except BErr (List V3)
  | [], acc => .ok acc
  | s :: ss, acc => do
    let acc' ← crossHitsOne sb s acc
    crossHits sb ss acc'

def interPolygonPolygon (a b : Polygon) : ResB :=
  match interPlanePlane a.plane b.plane with
  | .ok none => .ok none
  | .ok (some (.line l)) =>
    match interLinePolygon l a, interLinePolygon l b with
    | .ok none, _ => .ok none
    | .ok _, .ok none => .ok none
    | .ok (some (.flat x)), .ok (some (.flat y)) => interFlatPair x y
    | .error e, _ => .error e
    | _, .error e => .error e
    | _, _ => .error .bug
  | .ok (some (.plane _)) =>
    if !(a.plane.eqv b.plane) then .error .bug
    else do
      let acc := (a.pts.filter b.contains).foldl addNew []
      let acc := (b.pts.filter a.contains).foldl addNew acc
      let sa ← liftC a.segments?
      let sb ← liftC b.segments?
      let acc ← crossHits sb sa acc
      match acc with
      | [] => pure none
      | [p] => pt? p
      | [p, q] => do let s ← liftC (if p = q then .error .value else .ok (Seg.mk' p q)); seg? s
      | ps => do
        if (← pointsInALine ps) then throw .bug
        let P ← liftC (Polygon.mk? ps)
        pure (some (.polygon P))
  | _ => .error .bug

def interPolygonPolyhedron (B : Polyhedron) (P : Polygon) : ResB :=
  match interPlanePolyhedron P.plane B with
  | .ok none => .ok none
  | .ok (some (.flat (.point q))) => interPointPolygon q P
  | .ok (some (.flat (.seg s))) => interSegPolygon s P
  | .ok (some (.polygon Q)) => interPolygonPolygon Q P
  | .ok _ => .error .bug
  | .error e => .error e

/-- `ConvexPolygon.__eq__` (hash equality): same vertex set, same carrier plane up to the sign of the normal -/
def Polygon.same (P Q : Polygon) : Bool :=
  P.pts.all (· ∈ Q.pts) && Q.pts.all (· ∈ P.pts) && P.plane.eqv Q.plane

def addPolygon (l : List Polygon) (P : Polygon) : List Polygon := if l.any (·.same P) then l else l ++ [P]

structure Parts where
  gons : List Polygon := []
  segs : List Seg := []
  pts : List V3 := []

/-- clip every face in `fs` by the body `X` and sort the results by kind -/
def clipFaces (X : Polyhedron) : List Polygon → Parts → Except BErr Parts
  | [], acc => .ok acc
  | f :: fs, acc =>
    match interPolygonPolyhedron X f with
    | .ok none => clipFaces X fs acc
    | .ok (some (.flat (.point q))) => clipFaces X fs { acc with pts := addNew acc.pts q }
    | .ok (some (.flat (.seg s))) => clipFaces X fs { acc with segs := addSeg acc.segs s }
    | .ok (some (.polygon Q)) => clipFaces X fs { acc with gons := addPolygon acc.gons Q }
    | .ok _ => clipFaces X fs acc
    | .error e => .error e

def interPolyhedronPolyhedron (A B : Polyhedron) : ResB := do
  let p1 ← clipFaces B A.faces {}
  let p2 ← clipFaces A B.faces p1
  match p2.gons, p2.segs, p2.pts with
  | _ :: _ :: _, _, _ => do let R ← liftC (Polyhedron.mk? p2.gons); pure (some (.polyhedron R))
  | [Q], _, _ => pure (some (.polygon Q))
  | [], _ :: _ :: _, _ => throw .bug
  | [], [s], _ => seg? s
  | [], [], _ :: _ :: _ => throw .bug
  | [], [], [p] => pt? p
  | [], [], [] => pure none

def tyOf : Obj → Dispatch.Ty
  | .flat (.point _) => .point
  | .flat (.line _) => .line
  | .flat (.plane _) => .plane
  | .flat (.seg _) => .seg
  | .flat (.halfline _) => .halfline
  | .polygon _ => .polygon
  | .polyhedron _ => .polyhedron

/-- a handler applied to operands in the handler's own parameter order; a type mismatch is the
    Python `AttributeError`/`TypeError` one would get from calling a handler with wrong operands -/
def runHandler : Dispatch.Handler → Obj → Obj → ResB
  | .inter_point_point, .flat (.point p), .flat (.point q) => liftFlat (interPointPoint p q)
  | .inter_point_line, .flat (.point p), .flat (.line l) => liftFlat (interPointLine p l)
  | .inter_point_plane, .flat (.point p), .flat (.plane pl) => liftFlat (interPointPlane p pl)
  | .inter_point_segment, .flat (.point p), .flat (.seg s) => liftFlat (interPointSeg p s)
  | .inter_point_halfline, .flat (.point p), .flat (.halfline h) => liftFlat (interPointHalfLine p h)
  | .inter_point_convexpolygon, .flat (.point p), .polygon P => interPointPolygon p P
  | .inter_point_convexpolyhedron, .flat (.point p), .polyhedron B => interPointPolyhedron p B
  | .inter_line_line, .flat (.line a), .flat (.line b) => liftFlat (interLineLine a b)
  | .inter_line_plane, .flat (.line l), .flat (.plane p) => liftFlat (interLinePlane l p)
  | .inter_line_segment, .flat (.line l), .flat (.seg s) => liftFlat (interLineSeg l s)
  | .inter_line_halfline, .flat (.line l), .flat (.halfline h) => liftFlat (interLineHalfLine l h)
  | .inter_line_convexpolygon, .flat (.line l), .polygon P => interLinePolygon l P
  | .inter_line_convexpolyhedron, .flat (.line l), .polyhedron B => interLinePolyhedron l B
  | .inter_plane_plane, .flat (.plane a), .flat (.plane b) => liftFlat (interPlanePlane a b)
  | .inter_plane_segment, .flat (.plane a), .flat (.seg s) => liftFlat (interPlaneSeg a s)
  | .inter_plane_halfline, .flat (.plane a), .flat (.halfline h) => liftFlat (interPlaneHalfLine a h)
  | .inter_plane_convexpolygon, .flat (.plane a), .polygon P => interPlanePolygon a P
  | .inter_plane_convexpolyhedron, .flat (.plane a), .polyhedron B => interPlanePolyhedron a B
  | .inter_segment_segment, .flat (.seg a), .flat (.seg b) => liftFlat (interSegSeg a b)
  | .inter_segment_halfline, .flat (.seg a), .flat (.halfline b) => liftFlat (interSegHalfLine a b)
  | .inter_segment_convexpolygon, .flat (.seg s), .polygon P => interSegPolygon s P
  | .inter_segment_convexpolyhedron, .flat (.seg s), .polyhedron B => interSegPolyhedron s B
  | .inter_halfline_halfline, .flat (.halfline a), .flat (.halfline b) => liftFlat (interHalfLineHalfLine a b)
  | .inter_convexpolygon_halfline, .polygon P, .flat (.halfline h) => interPolygonHalfLine P h
  | .inter_convexpolyhedron_halfline, .polyhedron B, .flat (.halfline h) => interPolyhedronHalfLine B h
  | .inter_convexpolygon_convexpolygon, .polygon P, .polygon Q => interPolygonPolygon P Q
  | .inter_convexpolygon_convexPolyhedron, .polyhedron B, .polygon P => interPolygonPolyhedron B P
  | .inter_convexpolyhedron_convexpolyhedron, .polyhedron A, .polyhedron B => interPolyhedronPolyhedron A B
  | _, _, _ => .error .typeMismatch

/-- `intersection(a, b)` for non-None operands, driven by a dispatch table -/
def interBy (tbl : Dispatch.Ty → Dispatch.Ty → Dispatch.Cell) (a b : Obj) : ResB :=
  match tbl (tyOf a) (tyOf b) with
  | .call h false => runHandler h a b
  | .call h true => runHandler h b a
  | .retNone => .ok none
  | _ => .error .notImpl

/-- the hand-written reference dispatcher: what the 49 cells are expected to do -/
def interRef : Obj → Obj → ResB
  | .flat x, .flat y => interFlatPair x y
  | .flat (.point p), .polygon P => interPointPolygon p P
  | .polygon P, .flat (.point p) => interPointPolygon p P
  | .flat (.point p), .polyhedron B => interPointPolyhedron p B
  | .polyhedron B, .flat (.point p) => interPointPolyhedron p B
  | .flat (.line l), .polygon P => interLinePolygon l P
  | .polygon P, .flat (.line l) => interLinePolygon l P
  | .flat (.line l), .polyhedron B => interLinePolyhedron l B
  | .polyhedron B, .flat (.line l) => interLinePolyhedron l B
  | .flat (.plane a), .polygon P => interPlanePolygon a P
  | .polygon P, .flat (.plane a) => interPlanePolygon a P
  | .flat (.plane a), .polyhedron B => interPlanePolyhedron a B
  | .polyhedron B, .flat (.plane a) => interPlanePolyhedron a B
  | .flat (.seg s), .polygon P => interSegPolygon s P
  | .polygon P, .flat (.seg s) => interSegPolygon s P
  | .flat (.seg s), .polyhedron B => interSegPolyhedron s B
  | .polyhedron B, .flat (.seg s) => interSegPolyhedron s B
  | .polygon P, .flat (.halfline h) => interPolygonHalfLine P h
  | .flat (.halfline h), .polygon P => interPolygonHalfLine P h
  | .polyhedron B, .flat (.halfline h) => interPolyhedronHalfLine B h
  | .flat (.halfline h), .polyhedron B => interPolyhedronHalfLine B h
  | .polygon P, .polygon Q => interPolygonPolygon P Q
  | .polyhedron B, .polygon P => interPolygonPolyhedron B P
  | .polygon P, .polyhedron B => interPolygonPolyhedron B P
  | .polyhedron A, .polyhedron B => interPolyhedronPolyhedron A B
/-- the documentation's name for the type of a returned value -/
def resTyOf : Option Obj → Dispatch.ResTy
  | none => .none
  | some (.flat (.point _)) => .point
  | some (.flat (.line _)) => .line
  | some (.flat (.plane _)) => .plane
  | some (.flat (.seg _)) => .seg
  | some (.flat (.halfline _)) => .halfline
  | some (.polygon _) => .polygon
  | some (.polyhedron _) => .polyhedron
end G3D
