/-! Object-graph model for aliasing (C20): the only mutable cells are coordinate triples (Points and
    Vectors); every other object is a tree over such cells and is represented by its list of leaf
    addresses. Constructors gather leaves of existing roots either by deep copy (fresh cells) or by
    alias (same cells) and may add derived fresh cells. -/
namespace G3D.Heap

abbrev Triple := Rat × Rat × Rat

abbrev Store := List Triple

structure Ob where
  kind : Nat            -- type tag (Point, Vector, Line, …)
  leaves : List Nat
  owning : Bool         -- Segment, HalfLine, ConvexPolygon, ConvexPolyhedron, Line(Point, Point)
deriving Repr, DecidableEq

structure State where
  store : Store
  env : List Ob
deriving Repr

inductive Op
  /-- `Point(x,y,z)` / `Vector(x,y,z)` -/
  | new (kind : Nat) (v : Triple)
  /-- constructor call: for each source root, deep-copy (`true`) or alias (`false`) its leaves, then
      append derived fresh cells computed from the gathered values -/
  | build (kind : Nat) (owning : Bool) (srcs : List (Nat × Bool)) (derive : List Triple → List Triple)
  /-- in-place mutation of one leaf of a root (`p.x = …`, `v[i] = …`, `p.move(v)` on a Point) -/
  | write (root : Nat) (k : Nat) (g : Triple → Triple)
  /-- `obj.move(v)`: every leaf listed in `movedIdx` is updated in place, the derived state is rebuilt in
      fresh cells (`self.line = Line(...)`, `self.plane = Plane(...)`, …) -/
  | move (root : Nat) (movedIdx : List Nat) (g : Triple → Triple) (derive : List Triple → List Triple)
  /-- `copy.deepcopy(obj)` -/
  | copy (root : Nat)
  /-- any query: reads only -/
  | query

def readLeaves (s : Store) (ls : List Nat) : List Triple := ls.map (fun a => s.getD a (0,0,0))

def obs (st : State) (o : Ob) : List Triple := readLeaves st.store o.leaves

/-- allocate `vs` at the end of the store; returns the new store and the fresh addresses -/
def allocMany (s : Store) (vs : List Triple) : Store × List Nat :=
  (s ++ vs, (List.range vs.length).map (· + s.length))

def gather (st : State) : List (Nat × Bool) → Store → List Nat → Store × List Nat
  | [], s, acc => (s, acc)
  | (i, cp) :: rest, s, acc =>
    match st.env[i]? with
    | none => gather st rest s acc
    | some o =>
      if cp then
        let (s', fresh) := allocMany s (readLeaves s o.leaves)
        gather st rest s' (acc ++ fresh)
      else gather st rest s (acc ++ o.leaves)

def step (st : State) : Op → State
  | .new kind v =>
    let (s', fresh) := allocMany st.store [v]
    ⟨s', st.env ++ [⟨kind, fresh, false⟩]⟩
  | .build kind owning srcs derive =>
    let (s1, ls) := gather st srcs st.store []
    let (s2, dl) := allocMany s1 (derive (readLeaves s1 ls))
    ⟨s2, st.env ++ [⟨kind, ls ++ dl, owning⟩]⟩
  | .write root k g =>
    match st.env[root]? with
    | none => st
    | some o =>
      match o.leaves[k]? with
      | none => st
      | some a => ⟨st.store.set a (g (st.store.getD a (0,0,0))), st.env⟩
  | .move root movedIdx g derive =>
    match st.env[root]? with
    | none => st
    | some o =>
      let moved := movedIdx.filterMap (fun k => o.leaves[k]?)
      let s1 := moved.foldl (fun s a => s.set a (g (s.getD a (0,0,0)))) st.store
      let (s2, dl) := allocMany s1 (derive (readLeaves s1 moved))
      ⟨s2, st.env.set root ⟨o.kind, moved ++ dl, o.owning⟩⟩
  | .copy root =>
    match st.env[root]? with
    | none => st
    | some o =>
      let (s', fresh) := allocMany st.store (readLeaves st.store o.leaves)
      ⟨s', st.env ++ [⟨o.kind, fresh, o.owning⟩]⟩
  | .query => st

def run (st : State) (ops : List Op) : State := ops.foldl step st

/-- the root an operation mutates through, if any -/
def Op.target : Op → Option Nat
  | .write r _ _ => some r
  | .move r _ _ _ => some r
  | _ => none

/-- constructor discipline: an owning object deep-copies every argument -/
def Op.disciplined : Op → Bool
  | .build _ owning srcs _ => !owning || srcs.all (·.2)
  | _ => true
end G3D.Heap
