import G3D.Model.VecR
import Mathlib.Analysis.Real.Sqrt
/-! The "Python runtime" of the measure translator (tools/extract_mmeas.py → G3D/Extracted/Mmeas.lean): the real-number
    reading of the objects and of the library calls that occur inside the MEASURE methods
    (`Segment.length`, `get_triangle_area`, `ConvexPolygon.area`, `Pyramid.height / volume`,
    `ConvexPolyhedron.area / volume / length`, calc/volume.py `volume`).  Hand-written, small, and the ONLY vocabulary
    of the generated file besides `RVec.*`, `Real.sqrt`, `|·|`, `List.foldl / foldlM / drop`.

      Python                                     here
      -----------------------------------------  -------------------------------------------------------------------
      a ConvexPolygon (attributes read)          `MPolygon`   : `points`, `center_point`, `plane`
      a Plane                                    `MPlane`     : `p`, `n`  — `n` is the STORED normal (the constructor
                                                               `_init_pn` stores `normale.normalized()`)
      a Segment                                  `MSegment`   : `start_point`, `end_point`
      a Pyramid                                  `MPyramid`   : `convex_polygon`, `point`
      a ConvexPolyhedron                         `MPolyhedron`: `convex_polygons`, `pyramid_set`, `segment_set`
                                                               (the two Python sets are read as lists in some iteration
                                                               order; the ties hold for EVERY order, see `foldl_add_perm`)
      an argument of unknown class               `MObj`       : `pyramid _ | polyhedron _ | other`;
      isinstance(x, Pyramid / ConvexPolyhedron)  `MObj.asPyramid? x` / `MObj.asPolyhedron? x`  (the two classes are unrelated)
      p.distance(q)        (Point.distance)      `pointDistance p q = √((p.x-q.x)² + (p.y-q.y)² + (p.z-q.z)²)`
      Vector(a, b)                               `vecFromTo a b = b - a`
      v * w   (Vector.__mul__, two vectors)      `RVec.dot v w`
      v.length()      `(self*self) ** 0.5`       `vLength v = √(v·v)`
      v.normalized()  `float(1/|v|) * self`      `vNormalized v = (1/|v|)·v`
      distance(point, plane)  (calc/distance.py) `distPointPlane x pl = |pl.n·(x − pl.p)| / √(pl.n·pl.n)`
      math.sqrt(x)                               `Real.sqrt x`          abs(x): `|x|`
      len(xs), range(n), xs[i], xs[k:]           `pyLen xs : ℤ`, `pyRange n : List ℤ`, `pyGetD xs i default`, `xs.drop k`
      raise ValueError(..)                       `throw "ValueError"` in `PyE = Except String`

    Trusted readings (not proved; repeated in the header of the generated file): floats are reals; Python ints are
    integers `ℤ` (`xs[i]` with a negative `i` counts from the end, as in Python); `xs[i]` out of range (Python:
    IndexError), `x / 0` (Python: ZeroDivisionError) and `math.sqrt` of a negative number (Python: ValueError) take
    the values `default`, `0`, `0` — the hypotheses of the tie theorems (at least three vertices, non-zero normal) exclude
    the first two, and Heron's radicand is non-negative (`G3D.heron_area_eq`).
    G3D/Proofs/MeasTieBase.lean relates `pointDistance`, `distPointPlane`, `vLength`, `vNormalized` to the terms that the
    symbolic-execution kernels `kdist` / `kvecr` extract from the real `Point.distance`, `distance(Point, Plane)`,
    `Vector.length`, `Vector.normalized`. -/
namespace G3D
namespace MeasRt
open Real

/-- the value, or the class name of the raised exception -/
abbrev PyE := Except String

structure MPlane where
  p : RVec
  n : RVec

structure MSegment where
  start_point : RVec
  end_point : RVec

structure MPolygon where
  points : List RVec
  center_point : RVec
  plane : MPlane

structure MPyramid where
  convex_polygon : MPolygon
  point : RVec

structure MPolyhedron where
  convex_polygons : List MPolygon
  pyramid_set : List MPyramid
  segment_set : List MSegment

/-- an argument whose class is only known at run time (`volume(arg)`) -/
inductive MObj where
  | pyramid (p : MPyramid)
  | polyhedron (b : MPolyhedron)
  | other

/-- `isinstance(x, Pyramid)`, with the narrowed value -/
def MObj.asPyramid? : MObj → Option MPyramid
  | .pyramid p => some p
  | _ => none

/-- `isinstance(x, ConvexPolyhedron)`, with the narrowed value -/
def MObj.asPolyhedron? : MObj → Option MPolyhedron
  | .polyhedron b => some b
  | _ => none

/-- `len(xs)` -/
def pyLen {α : Type} (xs : List α) : ℤ := (xs.length : ℤ)

/-- `range(n)` : `0, 1, …, n-1` (empty for `n ≤ 0`) -/
def pyRange (n : ℤ) : List ℤ := (List.range n.toNat).map Int.ofNat

/-- `xs[i]`: a negative index counts from the end; out of range (Python: IndexError) gives `d` -/
def pyGetD {α : Type} (xs : List α) (i : ℤ) (d : α) : α :=
  if 0 ≤ i then xs.getD i.toNat d
  else if -i ≤ (xs.length : ℤ) then xs.getD ((xs.length : ℤ) + i).toNat d
  else d

noncomputable section

/-- `Point.distance`: `math.sqrt((x - x')**2 + (y - y')**2 + (z - z')**2)` -/
def pointDistance (a b : RVec) : ℝ := √((a.x - b.x) ^ 2 + (a.y - b.y) ^ 2 + (a.z - b.z) ^ 2)

/-- `Vector(A, B)`: the vector from the point `A` to the point `B` -/
def vecFromTo (a b : RVec) : RVec := RVec.sub b a

/-- `Vector.length`: `(self * self) ** 0.5` -/
def vLength (v : RVec) : ℝ := √(RVec.dot v v)

/-- `Vector.normalized`: `float(1 / self.length()) * self` -/
def vNormalized (v : RVec) : RVec := RVec.smul (1 / vLength v) v

/-- `distance(Point, Plane)` of calc/distance.py (foot of the perpendicular along the stored normal, then
    `distance(a, foot)`), in closed form -/
def distPointPlane (x : RVec) (pl : MPlane) : ℝ := |RVec.dot pl.n (RVec.sub x pl.p)| / √(RVec.normSq pl.n)

end

end MeasRt
end G3D
