import G3D.Proofs.K4h
import G3D.Proofs.SameSet

/-! # Kernel K4, part i: the polyhedron returned by `ConvexPolyhedron(collected polygons)`

    * `K4.FacetBody A B R` : the faces of `R` are outward oriented Valid polygons, each cut out of `K = A ∩ B` by its
      own plane (`hull h = K ∩ {h.side = 0}`, `K ⊆ {h.side ≤ 0}`), every boundary point of `K` lies on one of them,
      different faces have different planes, the listed vertices are the face vertices and lie in `K`, and `K` has an
      interior point
    * `K4.facetBody_of_mk` : every body returned by the constructor on the collected polygons is such a body
    * consequences: `FacetBody.contains_iff` (`R.contains x ↔ K x`: the collected planes alone cut out `K`),
      `FacetBody.vertsInside`, `FacetBody.interior_strict` -/
namespace G3D
open V3

/-- the face `h` of the result is the facet of `K` in its own plane -/
structure K4.RFace (A B : Polyhedron) (h : Polygon) : Prop where
  valid : h.Valid
  center : G3D.inPlane h.plane.n h.plane.p h.center = true
  inner : ∀ x, K4.InK A B x → h.side x ≤ 0
  den : ∀ x, InHull h.pts x ↔ (K4.InK A B x ∧ h.side x = 0)
  strict : ∀ c, (∀ F ∈ A.faces ++ B.faces, F.side c < 0) → h.side c < 0

structure K4.FacetBody (A B R : Polyhedron) : Prop where
  nonempty : R.faces ≠ []
  face : ∀ h ∈ R.faces, K4.RFace A B h
  cover : ∀ x, K4.InK A B x → (∃ F ∈ A.faces ++ B.faces, F.side x = 0) → ∃ h ∈ R.faces, InHull h.pts x
  verts_in : ∀ v ∈ R.verts, K4.InK A B v
  pts_sub : ∀ h ∈ R.faces, ∀ v ∈ h.pts, v ∈ R.verts
  distinct : R.faces.Pairwise (fun h1 h2 => ¬ ∀ x, InHull h1.pts x ↔ InHull h2.pts x)
  interior : ∃ c, ∀ F ∈ A.faces ++ B.faces, F.side c < 0

theorem K4.Stored.rface {A B : Polyhedron} {c : V3} {g F : Polygon} (hs : K4.Stored A B c g F) :
    K4.RFace A B (flipOf c g) := by
  obtain ⟨k, hk, _, hside⟩ := hs.same
  refine ⟨hs.valid, hs.center, ?_, ?_, ?_⟩
  · intro x hx
    rw [hside]
    exact mul_nonpos_of_nonneg_of_nonpos (le_of_lt hk) ((K4.InK_iff_side A B x).mp hx F hs.memF)
  · intro x
    rw [SameSet.hull_congr (fun v hv => (hs.verts v).mp hv) (fun v hv => (hs.verts v).mpr hv) x, hs.den x, hside]
    constructor
    · rintro ⟨h1, h2⟩; exact ⟨h1, by rw [h2]; ring⟩
    · rintro ⟨h1, h2⟩; exact ⟨h1, (mul_eq_zero.mp h2).resolve_left (ne_of_gt hk)⟩
  · intro c' hc'
    rw [hside]
    exact mul_neg_of_pos_of_neg hk (hc' F hs.memF)

/-- **every body the constructor returns on the collected polygons is a facet body of `A ∩ B`** -/
theorem K4.facetBody_of_mk {A B : Polyhedron} (hA : A.ExactHyp) (hB : B.ExactHyp) {p : Parts}
    (hp : K4.Parts2 A B p) (h2 : 2 ≤ p.gons.length) (R : Polyhedron) (hR : Polyhedron.mk? p.gons = .ok R) :
    K4.FacetBody A B R := by
  obtain ⟨o, ho⟩ := K4.interior_of_two hA hB hp h2
  obtain ⟨hverts, _, _, hcen, hF, _⟩ := Polyhedron.mk?_eq p.gons R hR
  have hc := K4.mean_interior hA hB hp o ho
  rw [← hcen] at hc
  have hst : ∀ g ∈ p.gons, ∃ F, K4.Stored A B R.center g F := fun g hg => K4.stored hA hB hp g hg _ hc
  have hullflip : ∀ g ∈ p.gons, ∀ x, InHull (flipOf R.center g).pts x ↔ InHull g.pts x := by
    intro g hg x
    obtain ⟨F, hs⟩ := hst g hg
    exact SameSet.hull_congr (fun v hv => (hs.verts v).mp hv) (fun v hv => (hs.verts v).mpr hv) x
  refine ⟨?_, ?_, ?_, ?_, ?_, ?_, ⟨o, ho⟩⟩
  · rw [hF]
    intro h0
    have : p.gons = [] := List.map_eq_nil_iff.mp h0
    rw [this] at h2; simp at h2
  · intro h hh
    rw [hF] at hh
    obtain ⟨g, hg, rfl⟩ := List.mem_map.mp hh
    obtain ⟨F, hs⟩ := hst g hg
    exact hs.rface
  · intro x hx ⟨F, hFm, hFx⟩
    obtain ⟨g, hg, hin⟩ := (K4.onGon_of_boundary hA hB o ho x hx F hFm hFx).in_parts hp
    exact ⟨flipOf R.center g, by rw [hF]; exact List.mem_map.mpr ⟨g, hg, rfl⟩, (hullflip g hg x).mpr hin⟩
  · intro v hv
    rw [hverts] at hv
    exact K4.collected_vertex_inK hA hB hp v hv
  · intro h hh v hv
    rw [hF] at hh
    obtain ⟨g, hg, rfl⟩ := List.mem_map.mp hh
    obtain ⟨F, hs⟩ := hst g hg
    rw [hverts]
    exact (mem_collectVerts _ v).mpr ⟨g, hg, (hs.verts v).mp hv⟩
  · rw [hF, List.pairwise_map]
    refine List.Pairwise.imp_of_mem ?_ hp.gons_pw
    intro g1 g2 hg1 hg2 hns hall
    have hv1 := (hp.gon_full hA hB g1 hg1).1
    have hv2 := (hp.gon_full hA hB g2 hg2).1
    have := K4.same_of_hull_eq g1 g2 hv1 hv2 (fun x => by
      rw [← hullflip g1 hg1 x, ← hullflip g2 hg2 x]; exact hall x)
    rw [hns] at this; cases this

namespace K4.FacetBody
variable {A B R : Polyhedron}

theorem side_strict (hb : K4.FacetBody A B R) {c : V3} (hc : ∀ F ∈ A.faces ++ B.faces, F.side c < 0) :
    ∀ h ∈ R.faces, h.side c < 0 := fun h hh => (hb.face h hh).strict c hc

/-- **the collected planes alone cut out `A ∩ B`** -/
theorem contains_iff (hb : K4.FacetBody A B R) (x : V3) : R.contains x = true ↔ K4.InK A B x := by
  rw [R.contains_iff_side]
  constructor
  · intro hall
    by_contra hnot
    rw [K4.InK_iff_side] at hnot
    push Not at hnot
    obtain ⟨F0, hF0, hF0x⟩ := hnot
    obtain ⟨c, hc⟩ := hb.interior
    set w := sub x c with hw
    have sd : ∀ (f : Polygon), dot f.plane.n w = f.side x - f.side c := by
      intro f; simp only [hw, Polygon.side, dot, sub]; ring
    obtain ⟨t, ht, hy, F1, hF1, hF1y⟩ := K4.exit (A.faces ++ B.faces) c w hc
      ⟨F0, hF0, by rw [sd]; linarith [hc F0 hF0]⟩
    have ht1 : t < 1 := by
      have h1 := hy F0 hF0
      rw [F0.side_pt, sd] at h1
      have h2 := hc F0 hF0
      by_contra hge
      have hge := not_lt.mp hge
      nlinarith
    have hyK : K4.InK A B (pt c w t) := (K4.InK_iff_side A B _).mpr hy
    obtain ⟨h, hh, hin⟩ := hb.cover _ hyK ⟨F1, hF1, hF1y⟩
    have hy0 := (((hb.face h hh).den _).mp hin).2
    rw [h.side_pt, sd] at hy0
    have hcs := hb.side_strict hc h hh
    have hxs := hall h hh
    nlinarith
  · intro hx h hh
    exact (hb.face h hh).inner x hx

theorem vertsInside (hb : K4.FacetBody A B R) : R.VertsInside :=
  fun h hh v hv => (hb.face h hh).inner v (hb.verts_in v hv)

theorem contains_iff_hull (hb : K4.FacetBody A B R) (hA : A.ExactHyp) (hB : B.ExactHyp) (x : V3) :
    R.contains x = true ↔ (InHull A.verts x ∧ InHull B.verts x) := by
  rw [hb.contains_iff x, K4.InK_iff_hull hA hB]

end K4.FacetBody

#print axioms K4.facetBody_of_mk
#print axioms K4.FacetBody.contains_iff
end G3D
