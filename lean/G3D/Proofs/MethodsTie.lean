import G3D.Proofs.MethodsTieFlat
import G3D.Proofs.MethodsTiePolygon
import G3D.Proofs.MethodsTiePolyhedron
import G3D.Proofs.MethodsTieCalc
/-! # The extracted METHOD bodies of the geometry classes agree with the hand-written model

    `G3D.Extracted.m_<Class>_<method>` is the statement-by-statement translation of the Python method
    (tools/extract_m{flat,polygon,polyhedron,calc}.py over the shared engine tools/mextract.py, which extends tools/hextract.py;
    regenerated from the source into `G3D/Extracted/M{flat,polygon,polyhedron,calc}.lean`), over the runtime vocabulary
    `G3D.Model.PyRt` + `G3D.Model.PyRtM`; the definitions of `G3D.Model.{Flat,Body,Move,Move2,PlaneForms,InterFlat,InterBody}`
    are the hand-written model that all proofs are about.  One theorem per method and operand kind, for ALL operands of
    that kind; `new_<Class>_*` tie the constructors (`__init__` on the blank attribute record, then the packed object),
    `*_effects_eq` pin which references are stored / returned / mutated in place.

    Four modules that do NOT import each other (fault isolation): `MethodsTieFlat`, `MethodsTiePolygon`,
    `MethodsTiePolyhedron`, `MethodsTieCalc` (`parallel` / `orthogonal` of calc/angle.py); shared lemmas in `MethodsTieBase`.  This file only collects them.
    Trusted readings and the deviations found: header of `G3D.Model.PyRtM`, headers of the three modules, DESIGN. -/
