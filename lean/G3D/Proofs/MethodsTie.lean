import G3D.Proofs.MethodsTieCalc
import G3D.Proofs.MethodsTieFlatComplete
import G3D.Proofs.MethodsTieFlatCtor
import G3D.Proofs.MethodsTieFlatEffects
import G3D.Proofs.MethodsTieFlatEq
import G3D.Proofs.MethodsTieFlatMember
import G3D.Proofs.MethodsTieFlatMove
import G3D.Proofs.MethodsTiePolygonCenter
import G3D.Proofs.MethodsTiePolygonComplete
import G3D.Proofs.MethodsTiePolygonCtor
import G3D.Proofs.MethodsTiePolygonEffects
import G3D.Proofs.MethodsTiePolygonEq
import G3D.Proofs.MethodsTiePolygonLength
import G3D.Proofs.MethodsTiePolygonMember
import G3D.Proofs.MethodsTiePolygonMove
import G3D.Proofs.MethodsTiePolygonSegments
import G3D.Proofs.MethodsTiePolygonShared
import G3D.Proofs.MethodsTiePolyhedronComplete
import G3D.Proofs.MethodsTiePolyhedronCtor
import G3D.Proofs.MethodsTiePolyhedronEffects
import G3D.Proofs.MethodsTiePolyhedronHelpers
import G3D.Proofs.MethodsTiePolyhedronMember
import G3D.Proofs.MethodsTiePolyhedronMove
import G3D.Proofs.MethodsTiePolyhedronShared
/-! # The extracted METHOD bodies of the geometry classes agree with the hand-written model

    `G3D.Extracted.m_<Class>_<method>` is the statement-by-statement translation of the Python method
    (tools/extract_m{flat,polygon,polyhedron,calc}.py over the shared engine tools/mextract.py, which extends tools/hextract.py;
    regenerated from the source into `G3D/Extracted/M{flat,polygon,polyhedron,calc}.lean`), over the runtime vocabulary
    `G3D.Model.PyRt` + `G3D.Model.PyRtM`; the definitions of `G3D.Model.{Flat,Body,Move,Move2,PlaneForms,InterFlat,InterBody}`
    are the hand-written model that all proofs are about.  One theorem per method and operand kind, for ALL operands of
    that kind; `new_<Class>_*` tie the constructors (`__init__` on the blank attribute record, then the packed object),
    `*_effects_eq` pin which references are stored / returned / mutated in place.  `*_raw` theorems state the exact
    behaviour of the code including the exceptions the (total) model functions do not have; the `*_eq` corollaries are the
    model equations under the well-formedness condition that excludes those exceptions.
    Inner calls of other methods (`x in self.line`, `Line(a, b)`, `p.move(v)`, `self.parallel(o)`) are the model's functions
    (`pyInM`, `pyLineM`, ..): each is tied by its own theorem, so together they cover the call tree.

    FAULT ISOLATION: one generated file per class group, but the ties are split BY ROLE into modules that do not import each
    other — `MethodsTie<Group>{Ctor,Member,Eq,Move,Effects,Complete}` (+ `MethodsTiePolygonLength`, `MethodsTieCalc`) — so a
    change of one method breaks only the module(s) of its role (and `..Effects` when its stored references change,
    `..Complete` when it cannot be translated).  The only cross-role imports are the real call dependencies:
    `MethodsTiePolygonCenter` (`_get_center_point`, called by `__init__` and `move`), `MethodsTiePolygonSegments`
    (`segments`, called by `length`), `MethodsTiePolyhedronHelpers` (`_get_center_point`, `_check_normal`, `_euler_check`,
    called by `__init__` and `move`).  `MethodsTieBase`, `MethodsTie{Polygon,Polyhedron}Shared` contain no extracted
    definition and never break when a method changes.  This file only collects the modules.
    Trusted readings and the deviations found: header of `G3D.Model.PyRtM`, DESIGN. -/
