import G3D.Proofs.BodySound

/-! # Soundness of `intersection`, all 49 cells in one statement (C12, third clause), and the structural
    part of `Polyhedron.Good` for constructed polyhedra. -/
namespace G3D
open V3

/-! ### what `ConvexPolyhedron(polygons)` guarantees structurally -/
theorem BS.mem_foldl_addPt_of : ∀ (l acc : List V3) (v : V3), (v ∈ acc ∨ v ∈ l) → v ∈ l.foldl addPt acc := by
  intro l
  induction l with
  | nil => intro acc v h; rcases h with h | h; exact h; simp at h
  | cons x l ih =>
    intro acc v h
    rw [List.foldl_cons]
    apply ih
    rcases h with h | h
    · left; unfold addPt; split
      · exact h
      · simp [h]
    · rcases List.mem_cons.mp h with rfl | h
      · left; unfold addPt; split
        · assumption
        · simp
      · exact Or.inr h

theorem BS.collectVerts_mem (input : List Polygon) (f : Polygon) (hf : f ∈ input) (v : V3) (hv : v ∈ f.pts) :
    v ∈ collectVerts input := by
  unfold collectVerts
  have gen : ∀ (l : List Polygon) (acc : List V3), (v ∈ acc ∨ ∃ g ∈ l, v ∈ g.pts) →
      v ∈ l.foldl (fun acc f => f.pts.foldl addPt acc) acc := by
    intro l
    induction l with
    | nil => intro acc h; rcases h with h | ⟨g, hg, _⟩; exact h; simp at hg
    | cons g l ih =>
      intro acc h
      rw [List.foldl_cons]
      apply ih
      rcases h with h | ⟨g', hg', hv'⟩
      · exact Or.inl (BS.mem_foldl_addPt_of _ _ _ (Or.inl h))
      · rcases List.mem_cons.mp hg' with rfl | hg'
        · exact Or.inl (BS.mem_foldl_addPt_of _ _ _ (Or.inr hv'))
        · exact Or.inr ⟨g', hg', hv'⟩
  exact gen input [] (Or.inr ⟨f, hf, hv⟩)

theorem BS.mem_foldl_addSeg : ∀ (ss acc : List Seg) (x : Seg), x ∈ ss.foldl addSeg acc → x ∈ acc ∨ x ∈ ss := by
  intro ss
  induction ss with
  | nil => intro acc x h; exact Or.inl h
  | cons s ss ih =>
    intro acc x h
    rw [List.foldl_cons] at h
    rcases ih _ x h with h' | h'
    · rcases BS.mem_addSeg _ _ _ h' with h'' | rfl
      · exact Or.inl h''
      · exact Or.inr (by simp)
    · exact Or.inr (by simp [h'])

theorem BS.collectEdges_mem : ∀ (fs : List Polygon) (acc out : List Seg), collectEdges fs acc = .ok out →
    ∀ s ∈ out, s ∈ acc ∨ ∃ f ∈ fs, ∃ ss, f.segments? = .ok ss ∧ s ∈ ss := by
  intro fs
  induction fs with
  | nil => intro acc out h s hs; simp only [collectEdges] at h; cases h; exact Or.inl hs
  | cons f fs ih =>
    intro acc out h s hs
    rw [collectEdges] at h
    cases hss : f.segments? with
    | error e => rw [hss] at h; cases h
    | ok ss =>
      rw [hss] at h
      rcases ih _ out h s hs with h' | ⟨g, hg, ss', h1, h2⟩
      · rcases BS.mem_foldl_addSeg _ _ _ h' with h'' | h''
        · exact Or.inl h''
        · exact Or.inr ⟨f, by simp, ss, hss, h''⟩
      · exact Or.inr ⟨g, by simp [hg], ss', h1, h2⟩

theorem BS.orientFace_pts (c : V3) (f : Polygon) (pr : Polygon × (Polygon × V3)) (h : orientFace c f = .ok pr) :
    ∀ v ∈ pr.1.pts, v ∈ f.pts := by
  unfold orientFace at h
  simp only [bind, Except.bind] at h
  by_cases hd : dot (sub f.plane.p c) f.plane.n < 0
  · rw [if_pos hd] at h
    cases hn : f.neg? with
    | error e => rw [hn] at h; cases h
    | ok f' =>
      rw [hn] at h
      simp only at h
      split at h
      · cases h
      · simp only [pure, Except.pure] at h
        cases h
        unfold Polygon.neg? at hn
        exact (Polygon.mk?_ok f.pts true f' hn).2.2.1
  · rw [if_neg hd] at h
    simp only [pure, Except.pure] at h
    split at h
    · cases h
    · cases h
      exact fun v hv => hv

/-- the structural fields of `Polyhedron.Good` hold for every successfully constructed polyhedron -/
theorem Polyhedron.mk?_structure (input : List Polygon) (B : Polyhedron) (h : Polyhedron.mk? input = .ok B) :
    (∀ f ∈ B.faces, ∀ v ∈ f.pts, v ∈ B.verts) ∧ (∀ s ∈ B.edges, s.WF) ∧
    (∀ s ∈ B.edges, s.a ∈ B.verts ∧ s.b ∈ B.verts) := by
  unfold Polyhedron.mk? at h
  simp only [bind, Except.bind] at h
  cases he : collectEdges input [] with
  | error e => rw [he] at h; cases h
  | ok edges =>
    rw [he] at h
    simp only at h
    by_cases hv : (collectVerts input).length = 0
    · rw [if_pos hv] at h; cases h
    · rw [if_neg hv] at h
      cases hf : input.mapM (orientFace (meanV (collectVerts input))) with
      | error e => rw [hf] at h; cases h
      | ok fp =>
        rw [hf] at h
        simp only at h
        split at h
        · cases h
        · split at h
          · cases h
          · simp only [pure, Except.pure] at h
            cases h
            have hedge : ∀ s ∈ edges, s.WF ∧ s.a ∈ collectVerts input ∧ s.b ∈ collectVerts input := by
              intro s hs
              rcases BS.collectEdges_mem input [] edges he s hs with h' | ⟨f, hfi, ss, hss, hm⟩
              · simp at h'
              · obtain ⟨hw, ha, hb⟩ := Polygon.segments?_mem f ss hss s hm
                exact ⟨hw, BS.collectVerts_mem input f hfi _ ha, BS.collectVerts_mem input f hfi _ hb⟩
            refine ⟨?_, fun s hs => (hedge s hs).1, fun s hs => (hedge s hs).2⟩
            intro f' hf' v hv'
            obtain ⟨pr, hpr, rfl⟩ := List.mem_map.mp hf'
            obtain ⟨f, hfi, hof⟩ := BS.mapM_mem _ input fp hf pr hpr
            exact BS.collectVerts_mem input f hfi v (BS.orientFace_pts _ f pr hof v hv')
#print axioms Polyhedron.mk?_structure

/-- for a constructed polyhedron, `Good` reduces to: Valid faces, vertices inside, face centres in the face planes -/
theorem Polyhedron.good_of_mk? (input : List Polygon) (B : Polyhedron) (h : Polyhedron.mk? input = .ok B)
    (hval : ∀ f ∈ B.faces, f.Valid) (hvi : B.VertsInside)
    (hc : ∀ f ∈ B.faces, f.plane.contains f.center = true) : B.Good :=
  let ⟨h1, h2, h3⟩ := Polyhedron.mk?_structure input B h
  ⟨hval, hvi, hc, h1, h2, h3⟩

/-! ### one statement for all cells -/
/-- denotation of an operand: flats as point sets, a polygon as the hull of its vertices, a polyhedron
    as its own membership test -/
def OpDen : Obj → V3 → Prop
  | .flat g => g.den
  | .polygon P => InHull P.pts
  | .polyhedron B => BodyDen B

/-- hypotheses on an operand -/
def OpWF : Obj → Prop
  | .flat g => g.WF
  | .polygon P => P.Valid
  | .polyhedron B => B.Good

theorem Sound.verts {r : ResB} {A B : V3 → Prop} (h : Sound r A B) (o : Obj) (ho : r = .ok (some o)) :
    ∀ v ∈ resVerts (some o), A v ∧ B v := (h _ ho).2

theorem interFlatPair_sound (x y : Geo) (hx : x.WF) (hy : y.WF) : Sound (interFlatPair x y) x.den y.den :=
  (ExactW_of_liftFlat (interFlat_exact x y hx hy)).sound

/-- **result ⊆ a ∩ b for the reference dispatcher, all 49 cells**: whenever `intersection(a, b)` returns an
    object, each of its vertices / end points lies in `a` and in `b`, and a returned Segment is well formed.
    Hypotheses: the operands are well-formed flats / Valid polygons / Good polyhedra. -/
theorem interRef_sound (a b : Obj) (ha : OpWF a) (hb : OpWF b) :
    Sound (interRef a b) (OpDen a) (OpDen b) := by
  cases a with
  | flat x =>
    cases b with
    | flat y => exact interFlatPair_sound x y ha hb
    | polygon P =>
      cases x with
      | point p => exact (interPointPolygon_exact p P hb).toExactW.sound
      | line l => exact (interLinePolygon_exact l ha P hb).toExactW.sound
      | plane pl => exact (interPlanePolygon_exactW pl ha P hb).sound
      | seg s => exact (interSegPolygon_exactW s ha P hb).sound
      | halfline h => exact (interPolygonHalfLine_exactW P hb h ha).sound
    | polyhedron B =>
      cases x with
      | point p => exact interPointPolyhedron_sound p B
      | line l => exact interLinePolyhedron_sound l ha B hb
      | plane pl => exact interPlanePolyhedron_sound pl ha B hb
      | seg s => exact interSegPolyhedron_sound s ha B hb
      | halfline h => exact interPolyhedronHalfLine_sound B hb h ha
  | polygon P =>
    cases b with
    | flat y =>
      cases y with
      | point p => exact (interPointPolygon_exact p P ha).toExactW.sound.swap
      | line l => exact (interLinePolygon_exact l hb P ha).toExactW.sound.swap
      | plane pl => exact (interPlanePolygon_exactW pl hb P ha).sound.swap
      | seg s => exact (interSegPolygon_exactW s hb P ha).sound.swap
      | halfline h => exact (interPolygonHalfLine_exactW P ha h hb).sound.swap
    | polygon Q => exact interPolygonPolygon_sound P Q ha hb
    | polyhedron B => exact (interPolygonPolyhedron_sound B hb P ha).swap
  | polyhedron A =>
    cases b with
    | flat y =>
      cases y with
      | point p => exact (interPointPolyhedron_sound p A).swap
      | line l => exact (interLinePolyhedron_sound l hb A ha).swap
      | plane pl => exact (interPlanePolyhedron_sound pl hb A ha).swap
      | seg s => exact (interSegPolyhedron_sound s hb A ha).swap
      | halfline h => exact (interPolyhedronHalfLine_sound A ha h hb).swap
    | polygon Q => exact interPolygonPolyhedron_sound A ha Q hb
    | polyhedron B => exact interPolyhedronPolyhedron_sound A B ha hb
#print axioms interRef_sound

end G3D
