import G3D.Proofs.Clip3

/-! C02, polygon half: Point / Line / Plane / Segment / HalfLine × ConvexPolygon are exact. -/
namespace G3D
open V3

/-- well-formedness of a constructed polygon (decidable content: coplanar, all ordered triples
    positively oriented about the stored normal, at least three vertices) -/
def Polygon.Valid (P : Polygon) : Prop :=
  ∃ p0 p1 p2 rest, P.pts = p0 :: p1 :: p2 :: rest ∧
    (∀ p ∈ P.pts, G3D.inPlane P.plane.n P.plane.p p = true) ∧ triplesPos P.plane.n P.pts

theorem Plane.contains_eq_inPlane (pl : Plane) (x : V3) : pl.contains x = inPlane pl.n pl.p x := by
  simp only [Plane.contains, inPlane]
  congr 1
  simp only [dot, sub]; ring

theorem edgeSide_eq_orient (n a b x : V3) : edgeSide n a b x = orient n a b x := by
  simp only [edgeSide, orient, dot, cross, sub]; ring

theorem Polygon.contains_eq (P : Polygon) (x : V3) :
    P.contains x = polyContains P.plane.n P.plane.p P.pts x := by
  simp only [Polygon.contains, polyContains, Plane.contains_eq_inPlane, edgeSide_eq_orient]

theorem Polygon.contains_iff (P : Polygon) (hv : P.Valid) (x : V3) : P.contains x = true ↔ InHull P.pts x := by
  obtain ⟨p0, p1, p2, rest, hp, hpl, htp⟩ := hv
  rw [Polygon.contains_eq, hp]
  rw [hp] at hpl htp
  exact polyContains_iff_hull _ _ p0 p1 p2 rest hpl htp x

theorem Polygon.hull_in_plane (P : Polygon) (hv : P.Valid) (x : V3) (hx : InHull P.pts x) : P.plane.den x := by
  have := (Polygon.contains_iff P hv x).mpr hx
  unfold Polygon.contains at this
  rw [Bool.and_eq_true] at this
  exact (Plane.contains_iff P.plane x).mp this.1

theorem Polygon.plane_WF (P : Polygon) (hv : P.Valid) : P.plane.WF := by
  obtain ⟨p0, p1, p2, rest, hp, _, htp⟩ := hv
  intro h
  rw [hp] at htp
  have := htp.1 p1 p2 (by simp)
  rw [h] at this; simp [orient, dot, zero] at this

theorem Polygon.segments_eq (P : Polygon) (hv : P.Valid) :
    P.segments? = .ok ((closedPairs P.pts).map (fun e => Seg.mk' e.1 e.2)) := by
  obtain ⟨p0, p1, p2, rest, hp, _, htp⟩ := hv
  unfold Polygon.segments?
  rw [hp] at htp ⊢
  have hne : ∀ e ∈ closedPairs (p0 :: p1 :: p2 :: rest), e.1 ≠ e.2 := edge_ne _ p0 p1 p2 rest htp
  generalize closedPairs (p0 :: p1 :: p2 :: rest) = es at hne
  induction es with
  | nil => rfl
  | cons e es ih =>
    have h1 := hne e (by simp)
    have h2 := ih (fun e' he' => hne e' (by simp [he']))
    simp only [List.mapM_cons, if_neg h1, h2, List.map_cons]
    rfl

theorem interPointPolygon_exact (p : V3) (P : Polygon) (hv : P.Valid) :
    ExactPS (interPointPolygon p P) (· = p) (InHull P.pts) := by
  unfold interPointPolygon
  by_cases hc : P.contains p = true
  · rw [if_pos hc]
    refine ⟨_, rfl, trivial, fun x => ?_⟩
    simp only [denOptB, ObjDen, Geo.den]
    constructor
    · rintro rfl; exact ⟨rfl, (Polygon.contains_iff P hv x).mp hc⟩
    · exact fun h => h.1
  · rw [if_neg hc]
    refine ⟨none, rfl, trivial, fun x => ?_⟩
    simp only [denOptB, false_iff]
    rintro ⟨rfl, h⟩; exact hc ((Polygon.contains_iff P hv x).mpr h)

theorem interLinePolygon_exact (l : Line) (hl : l.WF) (P : Polygon) (hv : P.Valid) :
    ExactPS (interLinePolygon l P) l.den (InHull P.pts) := by
  have hinp := Polygon.hull_in_plane P hv
  obtain ⟨o, ho, _, hd⟩ := interLinePlane_exact l P.plane hl
  unfold interLinePolygon
  rcases interLinePlane_shape l P.plane o ho with rfl | ⟨q, rfl⟩ | ⟨rfl, hc⟩
  · rw [ho]
    refine ⟨none, rfl, trivial, fun x => ?_⟩
    simp only [denOptB, false_iff]
    rintro ⟨h1, h2⟩; exact (hd x).mpr ⟨h1, hinp x h2⟩
  · rw [ho]
    simp only
    have hq := (hd q).mp rfl
    obtain ⟨o', ho', hw', hd'⟩ := interPointPolygon_exact q P hv
    refine ⟨o', ho', hw', fun x => ?_⟩
    rw [hd' x]
    constructor
    · rintro ⟨rfl, h⟩; exact ⟨hq.1, h⟩
    · rintro ⟨h1, h2⟩; exact ⟨(hd x).mpr ⟨h1, hinp x h2⟩, h2⟩
  · rw [ho]
    simp only [Polygon.segments_eq P hv, liftC]
    obtain ⟨p0, p1, p2, rest, hp, hpl, htp⟩ := hv
    unfold Plane.containsLine at hc
    rw [Bool.and_eq_true] at hc
    have hls : inPlane P.plane.n P.plane.p l.sv = true := by rw [← Plane.contains_eq_inPlane]; exact hc.1
    have hld : dot P.plane.n l.dv = 0 := by
      have := hc.2; simp only [V3.orthogonal, beq_iff_eq] at this
      simp only [dot] at this ⊢; linarith
    rw [hp] at hpl htp ⊢
    exact lineClip_exact P.plane.n P.plane.p p0 p1 p2 rest hpl htp l hl hls hld
#print axioms interLinePolygon_exact

theorem interPlanePlane_shape (a b : Plane) (ha : a.WF) (hb : b.WF) (o : Option Geo)
    (h : interPlanePlane a b = .ok o) :
    o = none ∨ (o = some (.plane a) ∧ a.eqv b = true) ∨ (∃ L : Line, o = some (.line L) ∧ L.WF) := by
  obtain ⟨o', ho', hw, _⟩ := interPlanePlane_exact a b ha hb
  rw [h] at ho'; cases ho'
  unfold interPlanePlane at h
  by_cases heq : a.eqv b = true
  · rw [if_pos heq] at h; cases h; exact Or.inr (Or.inl ⟨rfl, heq⟩)
  · rw [if_neg heq] at h
    by_cases hpar : V3.parallel a.n b.n = true
    · rw [if_pos hpar] at h; cases h; exact Or.inl rfl
    · rw [if_neg hpar] at h
      simp only at h
      split at h
      · cases h; exact Or.inr (Or.inr ⟨_, rfl, hw _ rfl⟩)
      · cases h

theorem interPlanePolygon_exact (a : Plane) (ha : a.WF) (P : Polygon) (hv : P.Valid) :
    ExactB (interPlanePolygon a P) a.den (InHull P.pts) := by
  have hinp := Polygon.hull_in_plane P hv
  have hpW := Polygon.plane_WF P hv
  obtain ⟨o, ho, _, hd⟩ := interPlanePlane_exact a P.plane ha hpW
  unfold interPlanePolygon
  rcases interPlanePlane_shape a P.plane ha hpW o ho with rfl | ⟨rfl, heq⟩ | ⟨L, rfl, hLW⟩
  · rw [ho]
    refine ⟨none, rfl, fun x => ?_⟩
    simp only [denOptB, false_iff]
    rintro ⟨h1, h2⟩; exact (hd x).mpr ⟨h1, hinp x h2⟩
  · rw [ho]
    refine ⟨some (.polygon P), rfl, fun x => ?_⟩
    simp only [denOptB, ObjDen]
    constructor
    · intro h; exact ⟨((Plane.eqv_den a P.plane ha hpW heq) x).mpr (hinp x h), h⟩
    · exact fun h => h.2
  · rw [ho]
    simp only
    obtain ⟨o', ho', _, hd'⟩ := interLinePolygon_exact L hLW P hv
    refine ⟨o', ho', fun x => ?_⟩
    rw [hd' x]
    have hL : ∀ y, L.den y ↔ a.den y ∧ P.plane.den y := fun y => by simpa [denOpt, Geo.den] using hd y
    constructor
    · rintro ⟨h1, h2⟩; exact ⟨((hL x).mp h1).1, h2⟩
    · rintro ⟨h1, h2⟩; exact ⟨(hL x).mpr ⟨h1, hinp x h2⟩, h2⟩

theorem ObjFlatWF_cases (o : Option Obj) (h : ObjFlatWF o) :
    o = none ∨ (∃ q, o = some (.flat (.point q))) ∨ (∃ s, o = some (.flat (.seg s)) ∧ s.WF) := by
  cases o with
  | none => exact Or.inl rfl
  | some ob =>
    cases ob with
    | flat g =>
      cases g with
      | point q => exact Or.inr (Or.inl ⟨q, rfl⟩)
      | seg s => exact Or.inr (Or.inr ⟨s, rfl, h⟩)
      | line _ => exact absurd h (by simp [ObjFlatWF])
      | plane _ => exact absurd h (by simp [ObjFlatWF])
      | halfline _ => exact absurd h (by simp [ObjFlatWF])
    | polygon _ => exact absurd h (by simp [ObjFlatWF])
    | polyhedron _ => exact absurd h (by simp [ObjFlatWF])

/-- segment / half-line against a polygon through the shared carrier routine -/
theorem interCarrierPolygon_exact {X : V3 → Prop} (ln : Line) (hln : ln.WF) (hX : ∀ x, X x → ln.den x)
    (mem : V3 → Bool) (hmem : ∀ q, mem q = true ↔ X q)
    (withPoint : V3 → Res) (hwp : ∀ q, Exact (withPoint q) (· = q) X)
    (withSeg : Seg → Res) (hws : ∀ s : Seg, s.WF → Exact (withSeg s) s.den X)
    (P : Polygon) (hv : P.Valid) :
    ExactB (interCarrierPolygon ln mem withPoint withSeg P) X (InHull P.pts) := by
  have hinp := Polygon.hull_in_plane P hv
  obtain ⟨o, ho, _, hd⟩ := interLinePlane_exact ln P.plane hln
  unfold interCarrierPolygon
  rcases interLinePlane_shape ln P.plane o ho with rfl | ⟨q, rfl⟩ | ⟨rfl, hc⟩
  · rw [ho]
    refine ⟨none, rfl, fun x => ?_⟩
    simp only [denOptB, false_iff]
    rintro ⟨h1, h2⟩; exact (hd x).mpr ⟨hX x h1, hinp x h2⟩
  · rw [ho]
    simp only
    by_cases hc : (mem q && P.contains q) = true
    · rw [if_pos hc]
      rw [Bool.and_eq_true] at hc
      refine ⟨_, rfl, fun x => ?_⟩
      simp only [denOptB, ObjDen, Geo.den]
      constructor
      · rintro rfl; exact ⟨(hmem x).mp hc.1, (Polygon.contains_iff P hv x).mp hc.2⟩
      · rintro ⟨h1, h2⟩; exact (hd x).mpr ⟨hX x h1, hinp x h2⟩
    · rw [if_neg hc]
      refine ⟨none, rfl, fun x => ?_⟩
      simp only [denOptB, false_iff]
      rintro ⟨h1, h2⟩
      have : x = q := (hd x).mpr ⟨hX x h1, hinp x h2⟩
      subst this
      exact hc (by rw [Bool.and_eq_true]; exact ⟨(hmem x).mpr h1, (Polygon.contains_iff P hv x).mpr h2⟩)
  · rw [ho]
    simp only
    obtain ⟨o', ho', hw', hd'⟩ := interLinePolygon_exact ln hln P hv
    rw [ho']
    rcases ObjFlatWF_cases o' hw' with rfl | ⟨q, rfl⟩ | ⟨s, rfl, hsW⟩
    · refine ⟨none, rfl, fun x => ?_⟩
      simp only [denOptB, false_iff]
      rintro ⟨h1, h2⟩; exact (hd' x).mpr ⟨hX x h1, h2⟩
    · simp only
      obtain ⟨o2, ho2, hd2⟩ := ExactB_of_liftFlat (hwp q)
      refine ⟨o2, ho2, fun x => ?_⟩
      rw [hd2 x]
      have hq : ∀ y, y = q ↔ ln.den y ∧ InHull P.pts y := fun y => by simpa [denOptB, ObjDen, Geo.den] using hd' y
      constructor
      · rintro ⟨h1, h2⟩; exact ⟨h2, ((hq x).mp h1).2⟩
      · rintro ⟨h1, h2⟩; exact ⟨(hq x).mpr ⟨hX x h1, h2⟩, h1⟩
    · simp only
      have hsden : ∀ y, s.den y ↔ ln.den y ∧ InHull P.pts y := fun y => by simpa [denOptB, ObjDen, Geo.den] using hd' y
      obtain ⟨o2, ho2, hd2⟩ := ExactB_of_liftFlat (hws s hsW)
      refine ⟨o2, ho2, fun x => ?_⟩
      rw [hd2 x]
      constructor
      · rintro ⟨h1, h2⟩; exact ⟨h2, ((hsden x).mp h1).2⟩
      · rintro ⟨h1, h2⟩; exact ⟨(hsden x).mpr ⟨hX x h1, h2⟩, h1⟩

theorem interSegPolygon_exact (a : Seg) (ha : a.WF) (P : Polygon) (hv : P.Valid) :
    ExactB (interSegPolygon a P) a.den (InHull P.pts) :=
  interCarrierPolygon_exact a.line (a.line_WF ha) (a.den_sub_line ha) a.contains (Seg.contains_iff a ha)
    (fun q => interPointSeg q a) (fun q => interPointSeg_exact q a ha)
    (fun s => interSegSeg s a) (fun s hs => interSegSeg_exact s a hs ha) P hv

theorem interPolygonHalfLine_exact (P : Polygon) (hv : P.Valid) (h : HalfLine) (hh : h.WF) :
    ExactB (interPolygonHalfLine P h) h.den (InHull P.pts) :=
  interCarrierPolygon_exact h.line (h.line_WF hh) (h.den_sub_line hh) h.contains (HalfLine.contains_iff h hh)
    (fun q => interPointHalfLine q h) (fun q => interPointHalfLine_exact q h hh)
    (fun s => interSegHalfLine s h) (fun s hs => interSegHalfLine_exact s h hs hh) P hv
#print axioms interPlanePolygon_exact
#print axioms interSegPolygon_exact
#print axioms interPolygonHalfLine_exact
end G3D
