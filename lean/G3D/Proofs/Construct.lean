import G3D.Proofs.Polyhedron

/-! C09, polyhedron half: what a successful `ConvexPolyhedron(...)` guarantees. -/
namespace G3D
open V3

theorem mapM_length {α β ε : Type} (f : α → Except ε β) : ∀ (l : List α) (out : List β),
    l.mapM f = .ok out → out.length = l.length := by
  intro l
  induction l with
  | nil => intro out h; simp [List.mapM_nil, pure, Except.pure] at h; cases h; rfl
  | cons a l ih =>
    intro out h
    rw [List.mapM_cons] at h
    simp only [bind, Except.bind] at h
    cases ha : f a with
    | error e => rw [ha] at h; cases h
    | ok b =>
      rw [ha] at h
      simp only at h
      cases hl : l.mapM f with
      | error e => rw [hl] at h; cases h
      | ok bs =>
        rw [hl] at h
        simp only [pure, Except.pure] at h
        cases h
        simp [ih bs hl]

theorem Polyhedron.mk?_ok (input : List Polygon) (B : Polyhedron) (h : Polyhedron.mk? input = .ok B) :
    -- every stored face is oriented away from the centre (so `_check_normal` passed)
    (∀ f ∈ B.faces, 0 ≤ dot (sub f.plane.p B.center) f.plane.n) ∧
    -- Euler's formula
    ((B.verts.length : Int) - B.edges.length + B.faces.length = 2) ∧
    -- the centre is the mean of the (deduplicated) vertices, and there is at least one vertex
    (B.center = meanV B.verts ∧ B.verts = collectVerts input ∧ B.verts ≠ []) ∧
    -- one face and one pyramid per input polygon
    (B.faces.length = input.length ∧ B.pyramids.length = input.length) := by
  unfold Polyhedron.mk? at h
  simp only [bind, Except.bind] at h
  cases he : collectEdges input [] with
  | error e => rw [he] at h; cases h
  | ok edges =>
    rw [he] at h
    simp only at h
    by_cases hv : (collectVerts input).length = 0
    · rw [if_pos hv] at h; cases h
    · rw [if_neg hv] at h
      cases hf : input.mapM (orientFace (meanV (collectVerts input))) with
      | error e => rw [hf] at h; cases h
      | ok fp =>
        rw [hf] at h
        simp only at h
        split at h
        · cases h
        · rename_i hnorm
          split at h
          · cases h
          · rename_i heul
            simp only [pure, Except.pure] at h
            cases h
            have hlen : fp.length = input.length := mapM_length _ input fp hf
            refine ⟨?_, ?_, ⟨rfl, rfl, ?_⟩, ?_⟩
            · intro f hf'
              have hall : (List.map (fun x => x.1) fp).all
                  (fun f => decide (0 ≤ dot (sub f.plane.p (meanV (collectVerts input))) f.plane.n)) = true := by
                cases hh : (List.map (fun x => x.1) fp).all
                  (fun f => decide (0 ≤ dot (sub f.plane.p (meanV (collectVerts input))) f.plane.n)) with
                | true => rfl
                | false => rw [hh] at hnorm; simp at hnorm
              have := (List.all_eq_true.mp hall) f hf'
              simpa using this
            · have : ¬ ((collectVerts input).length : Int) - edges.length + (List.map (fun x => x.1) fp).length ≠ 2 := by
                intro hne; apply heul; simpa using hne
              push_neg at this
              exact this
            · intro h0
              apply hv
              show (collectVerts input).length = 0
              have : collectVerts input = [] := h0
              rw [this]; rfl
            · simp [hlen]

/-- C09: the centre of a successfully constructed polyhedron passes its own membership test, provided
    each face's centroid lies in the face plane (true for every constructed polygon) -/
theorem Polyhedron.center_inside (input : List Polygon) (B : Polyhedron) (h : Polyhedron.mk? input = .ok B)
    (hc : ∀ f ∈ B.faces, f.plane.contains f.center = true) : B.contains B.center = true := by
  obtain ⟨hout, _, _, _⟩ := Polyhedron.mk?_ok input B h
  unfold Polyhedron.contains
  rw [List.all_eq_true]
  intro f hf
  simp only [decide_eq_true_eq]
  have h1 := hout f hf
  have h2 := (Plane.contains_iff f.plane f.center).mp (hc f hf)
  simp only [Plane.den] at h2
  have : dot (sub B.center f.center) f.plane.n =
      - dot (sub f.plane.p B.center) f.plane.n - dot f.plane.n (sub f.center f.plane.p) := by
    simp only [dot, sub]; ring
  rw [this, h2]; linarith
#print axioms Polyhedron.mk?_ok
#print axioms Polyhedron.center_inside

/-! ### C09 / C15, polygon constructor -/
theorem angInsert_mem (k : Rat × Rat) (p : V3) : ∀ (l : List ((Rat × Rat) × V3)) (q : V3),
    q ∈ (angInsert k p l).map (·.2) → q = p ∨ q ∈ l.map (·.2) := by
  intro l
  induction l with
  | nil => intro q h; simp [angInsert] at h; exact Or.inl h
  | cons e rest ih =>
    intro q h
    obtain ⟨k', p'⟩ := e
    simp only [angInsert] at h
    split at h
    · simp only [List.map_cons, List.mem_cons] at h ⊢
      rcases h with h | h
      · exact Or.inl h
      · exact Or.inr (Or.inr h)
    · split at h
      · simp only [List.map_cons, List.mem_cons] at h ⊢
        rcases h with h | h | h
        · exact Or.inl h
        · exact Or.inr (Or.inl h)
        · exact Or.inr (Or.inr h)
      · simp only [List.map_cons, List.mem_cons] at h ⊢
        rcases h with h | h
        · exact Or.inr (Or.inl h)
        · rcases ih q h with h' | h'
          · exact Or.inl h'
          · exact Or.inr (Or.inr h')

theorem foldl_angInsert_mem (key : V3 → Rat × Rat) : ∀ (ded : List V3) (acc : List ((Rat × Rat) × V3)) (q : V3),
    q ∈ (ded.foldl (fun acc p => angInsert (key p) p acc) acc).map (·.2) → q ∈ ded ∨ q ∈ acc.map (·.2) := by
  intro ded
  induction ded with
  | nil => intro acc q h; exact Or.inr h
  | cons d ds ih =>
    intro acc q h
    rw [List.foldl_cons] at h
    rcases ih _ q h with h' | h'
    · exact Or.inl (by simp [h'])
    · rcases angInsert_mem (key d) d acc q h' with h'' | h''
      · exact Or.inl (by simp [h''])
      · exact Or.inr h''

theorem dedupV_mem : ∀ (l : List V3) (q : V3), q ∈ dedupV l → q ∈ l := by
  intro l
  induction l with
  | nil => intro q h; simp [dedupV] at h
  | cons a l ih =>
    intro q h
    simp only [dedupV, List.mem_cons, List.mem_filter] at h ⊢
    rcases h with h | h
    · exact Or.inl h
    · exact Or.inr (ih q h.1)

/-- what a successful `ConvexPolygon(points)` guarantees -/
theorem Polygon.mk?_ok (input : List V3) (rev : Bool) (P : Polygon) (h : Polygon.mk? input rev = .ok P) :
    3 ≤ input.length ∧ P.plane.WF ∧ (∀ p ∈ P.pts, p ∈ input) ∧ (∀ p ∈ P.pts, P.plane.contains p = true) ∧
    P.center = meanV (dedupV input) := by
  unfold Polygon.mk? at h
  simp only at h
  by_cases hlen : input.length < 3
  · rw [if_pos hlen] at h; cases h
  · rw [if_neg hlen] at h
    cases hded : dedupV input with
    | nil => rw [hded] at h; cases h
    | cons p0 r1 =>
      cases r1 with
      | nil => rw [hded] at h; cases h
      | cons p1 r2 =>
        cases r2 with
        | nil => rw [hded] at h; cases h
        | cons p2 rest =>
          rw [hded] at h
          simp only at h
          by_cases hn0 : cross (sub p1 p0) (sub p2 p0) = zero
          · rw [if_pos hn0] at h; cases h
          · rw [if_neg hn0] at h
            generalize hn : (if rev = true then neg (cross (sub p1 p0) (sub p2 p0)) else cross (sub p1 p0) (sub p2 p0)) = n at h
            have hnW : n ≠ zero := by
              rw [← hn]
              cases rev
              · simpa using hn0
              · simp only [if_true]
                intro hz; apply hn0
                have hx := congrArg V3.x hz; have hy := congrArg V3.y hz; have hz' := congrArg V3.z hz
                simp only [neg, zero] at hx hy hz'
                apply V3.ext' <;> simp only [zero] <;> linarith
            by_cases hv0 : sub p0 (meanV (p0 :: p1 :: p2 :: rest)) = zero
            · rw [if_pos hv0] at h; cases h
            · rw [if_neg hv0] at h
              by_cases hall : (!(p0 :: p1 :: p2 :: rest).all (⟨p0, n⟩ : Plane).contains) = true
              · rw [if_pos hall] at h; cases h
              · rw [if_neg hall] at h
                cases h
                have hall' : ∀ p ∈ p0 :: p1 :: p2 :: rest, (⟨p0, n⟩ : Plane).contains p = true := by
                  have : (p0 :: p1 :: p2 :: rest).all (⟨p0, n⟩ : Plane).contains = true := by
                    cases hh : (p0 :: p1 :: p2 :: rest).all (⟨p0, n⟩ : Plane).contains with
                    | true => rfl
                    | false => rw [hh] at hall; simp at hall
                  exact List.all_eq_true.mp this
                have hsub : ∀ q, q ∈ (List.map (fun x => x.2) ((p0 :: p1 :: p2 :: rest).foldl
                    (fun acc p => angInsert (dot (sub p (meanV (p0 :: p1 :: p2 :: rest))) (sub p0 (meanV (p0 :: p1 :: p2 :: rest))),
                      dot (sub p (meanV (p0 :: p1 :: p2 :: rest))) (cross n (sub p0 (meanV (p0 :: p1 :: p2 :: rest))))) p acc) [])) →
                    q ∈ p0 :: p1 :: p2 :: rest := by
                  intro q hq
                  rcases foldl_angInsert_mem _ (p0 :: p1 :: p2 :: rest) [] q hq with h' | h'
                  · exact h'
                  · simp at h'
                refine ⟨by omega, hnW, ?_, ?_, rfl⟩
                · intro p hp
                  exact dedupV_mem input p (by rw [hded]; exact hsub p hp)
                · intro p hp
                  exact hall' p (hsub p hp)
#print axioms Polygon.mk?_ok
end G3D
