import G3D.Proofs.PolygonMem
import G3D.Proofs.Collinear

/-! Kernel K1: a line lying in the plane of a convex polygon — the edge-hit collection of
    `inter_line_convexpolygon` yields exactly line ∩ polygon. Part 1: convex-geometry lemmas. -/
namespace G3D
open V3

/-! ### hull facts -/
theorem comb_single (l : List V3) : ∀ (i : Nat) (hi : i < l.length),
    comb ((List.replicate l.length (0:Rat)).set i 1) l = l[i] := by
  induction l with
  | nil => intro i hi; simp at hi
  | cons a l ih =>
    intro i hi
    cases i with
    | zero =>
      simp only [List.length_cons, List.replicate_succ, List.set_cons_zero, comb, List.getElem_cons_zero]
      have : comb (List.replicate l.length (0:Rat)) l = zero := by
        rw [show comb (List.replicate l.length (0:Rat)) l = smul 0 (by exact (⟨(l.map V3.x).sum, (l.map V3.y).sum, (l.map V3.z).sum⟩ : V3)) from ?_]
        · apply V3.ext' <;> simp [smul, zero]
        · clear ih hi
          induction l with
          | nil => simp [comb]; apply V3.ext' <;> simp [smul, zero]
          | cons b l ih2 =>
            simp only [List.length_cons, List.replicate_succ, comb, ih2]
            apply V3.ext' <;> simp [add, smul]
      rw [this]; apply V3.ext' <;> simp [add, smul, zero]
    | succ i =>
      simp only [List.length_cons, List.replicate_succ, List.set_cons_succ, comb, List.getElem_cons_succ]
      rw [ih i (by simpa using hi)]
      apply V3.ext' <;> simp [add, smul]

theorem vertex_in_hull (l : List V3) (v : V3) (hv : v ∈ l) : InHull l v := by
  obtain ⟨i, hi, rfl⟩ := List.mem_iff_getElem.mp hv
  refine ⟨(List.replicate l.length (0:Rat)).set i 1, by simp, ?_, ?_, comb_single l i hi⟩
  · intro w hw
    have := List.mem_or_eq_of_mem_set hw
    rcases this with h | h
    · rw [List.mem_replicate] at h; rw [h.2]
    · rw [h]; norm_num
  · rw [List.sum_set]; simp [hi]

theorem comb_add_smul : ∀ (ws us : List Rat) (ps : List V3) (s t : Rat), ws.length = ps.length → us.length = ps.length →
    comb (List.zipWith (fun w u => s * w + t * u) ws us) ps = add (smul s (comb ws ps)) (smul t (comb us ps)) := by
  intro ws
  induction ws with
  | nil =>
    intro us ps s t h1 h2
    cases ps with
    | nil => simp [comb]; apply V3.ext' <;> simp [add, smul, zero]
    | cons _ _ => simp at h1
  | cons w ws ih =>
    intro us ps s t h1 h2
    cases ps with
    | nil => simp at h1
    | cons p ps =>
      cases us with
      | nil => simp at h2
      | cons u us =>
        simp only [List.zipWith_cons_cons, comb]
        rw [ih us ps s t (by simpa using h1) (by simpa using h2)]
        apply V3.ext' <;> simp only [add, smul] <;> ring

theorem sum_zipWith_lin : ∀ (ws us : List Rat) (s t : Rat), ws.length = us.length →
    (List.zipWith (fun w u => s * w + t * u) ws us).sum = s * ws.sum + t * us.sum := by
  intro ws
  induction ws with
  | nil => intro us s t h; cases us <;> simp_all
  | cons w ws ih =>
    intro us s t h
    cases us with
    | nil => simp at h
    | cons u us =>
      simp only [List.zipWith_cons_cons, List.sum_cons, ih us s t (by simpa using h)]; ring

/-- the hull is convex -/
theorem InHull.convex {l : List V3} {x y : V3} (hx : InHull l x) (hy : InHull l y) (t : Rat)
    (h0 : 0 ≤ t) (h1 : t ≤ 1) : InHull l (add x (smul t (sub y x))) := by
  obtain ⟨ws, hwl, hwn, hws, rfl⟩ := hx
  obtain ⟨us, hul, hun, hus, rfl⟩ := hy
  refine ⟨List.zipWith (fun w u => (1 - t) * w + t * u) ws us, by simp [hwl, hul], ?_, ?_, ?_⟩
  · intro z hz
    obtain ⟨i, hi, rfl⟩ := List.mem_iff_getElem.mp hz
    simp only [List.getElem_zipWith]
    have a := hwn _ (List.getElem_mem (by simp at hi; omega : i < ws.length))
    have b := hun _ (List.getElem_mem (by simp at hi; omega : i < us.length))
    nlinarith
  · rw [sum_zipWith_lin _ _ _ _ (by rw [hwl, hul]), hws, hus]; ring
  · rw [comb_add_smul ws us l (1 - t) t hwl hul]
    apply V3.ext' <;> simp only [add, smul, sub] <;> ring

theorem between_in_hull {l : List V3} {a b x : V3} (ha : a ∈ l) (hb : b ∈ l) (hx : Between a b x) :
    InHull l x := by
  obtain ⟨t, h0, h1, rfl⟩ := hx
  exact (vertex_in_hull l a ha).convex (vertex_in_hull l b hb) t h0 h1
#print axioms InHull.convex

/-! ### strict version of the edge tests on vertices -/
theorem path_edges_pos (n : V3) : ∀ (m : List V3), triplesPos n m →
    ∀ e ∈ consec m, ∀ v ∈ m, 0 < orient n e.1 e.2 v ∨ v = e.1 ∨ v = e.2 := by
  intro m
  induction m with
  | nil => intro _ e he; simp [consec] at he
  | cons a m ih =>
    intro htp e he v hv
    cases m with
    | nil => simp [consec] at he
    | cons b l =>
      simp only [consec, List.mem_cons] at he
      rcases he with rfl | he
      · simp only [List.mem_cons] at hv
        rcases hv with rfl | rfl | hv
        · exact Or.inr (Or.inl rfl)
        · exact Or.inr (Or.inr rfl)
        · exact Or.inl (htp.1 b v (List.Sublist.cons₂ _ (List.singleton_sublist.mpr hv)))
      · rcases List.mem_cons.mp hv with rfl | hv
        · have hs := consec_sublist (b :: l) e.1 e.2 he
          left; rw [orient_cyc, orient_cyc]; exact htp.1 e.1 e.2 hs
        · exact ih htp.2 e he v hv

theorem closed_edges_pos (n : V3) (l : List V3) (htp : triplesPos n l) :
    ∀ e ∈ closedPairs l, ∀ v ∈ l, 0 < orient n e.1 e.2 v ∨ v = e.1 ∨ v = e.2 := by
  cases l with
  | nil => intro e he; simp [closedPairs] at he
  | cons p0 rest =>
    intro e he v hv
    rcases concat_cases rest with rfl | ⟨d, z, rfl⟩
    · have : closedPairs [p0] = [(p0, p0)] := by simp [closedPairs, consec]
      rw [this, List.mem_singleton] at he
      subst he; simp at hv; exact Or.inr (Or.inl hv)
    · have hcp : closedPairs (p0 :: (d ++ [z])) = consec (p0 :: (d ++ [z])) ++ [(z, p0)] := by
        simp only [closedPairs]
        have := consec_append_singleton' (p0 :: d) z p0
        simpa using this
      rw [hcp] at he
      rcases List.mem_append.mp he with he | he
      · exact path_edges_pos n _ htp e he v hv
      · simp only [List.mem_singleton] at he
        subst he
        simp only
        rcases List.mem_cons.mp hv with rfl | hvr
        · exact Or.inr (Or.inr rfl)
        · rcases List.mem_append.mp hvr with hvd | hvz
          · have hs : List.Sublist [v, z] (d ++ [z]) := by
              have : List.Sublist [v] d := List.singleton_sublist.mpr hvd
              simpa using List.Sublist.append this (List.Sublist.refl [z])
            left; rw [orient_cyc]; exact htp.1 v z hs
          · simp at hvz; exact Or.inr (Or.inl hvz)

/-! ### a polygon point on the carrier of an edge lies on the edge -/
theorem sum_zipWith_eq_zero_terms : ∀ (ws : List Rat) (ps : List V3) (f : V3 → Rat),
    (∀ w ∈ ws, 0 ≤ w) → (∀ p ∈ ps, 0 ≤ f p) → (List.zipWith (fun w p => w * f p) ws ps).sum = 0 →
    ∀ i (h1 : i < ws.length) (h2 : i < ps.length), ws[i] * f ps[i] = 0 := by
  intro ws
  induction ws with
  | nil => intro ps f _ _ _ i h1; simp at h1
  | cons w ws ih =>
    intro ps f hw hf hs i h1 h2
    cases ps with
    | nil => simp at h2
    | cons p ps =>
      simp only [List.zipWith_cons_cons, List.sum_cons] at hs
      have a : 0 ≤ w * f p := mul_nonneg (hw w (by simp)) (hf p (by simp))
      have b := sum_zipWith_nonneg ws ps f (fun w' h => hw w' (by simp [h])) (fun p' h => hf p' (by simp [h]))
      have ha : w * f p = 0 := by linarith
      have hb : (List.zipWith (fun w p => w * f p) ws ps).sum = 0 := by linarith
      cases i with
      | zero => simpa using ha
      | succ i =>
        simpa using ih ps f (fun w' h => hw w' (by simp [h])) (fun p' h => hf p' (by simp [h])) hb i
          (by simpa using h1) (by simpa using h2)

theorem comb_two (a b : V3) : ∀ (ws : List Rat) (ps : List V3), ws.length = ps.length →
    (∀ w ∈ ws, 0 ≤ w) →
    (∀ i (h1 : i < ws.length) (h2 : i < ps.length), ps[i] ≠ a → ps[i] ≠ b → ws[i] = 0) →
    ∃ wa wb : Rat, 0 ≤ wa ∧ 0 ≤ wb ∧ wa + wb = ws.sum ∧ comb ws ps = add (smul wa a) (smul wb b) := by
  intro ws
  induction ws with
  | nil =>
    intro ps h _ _
    cases ps with
    | nil => exact ⟨0, 0, le_refl _, le_refl _, by simp, by apply V3.ext' <;> simp [comb, add, smul, zero]⟩
    | cons _ _ => simp at h
  | cons w ws ih =>
    intro ps h hw hz
    cases ps with
    | nil => simp at h
    | cons p ps =>
      obtain ⟨wa, wb, ha, hb, hsum, hc⟩ := ih ps (by simpa using h) (fun w' hw' => hw w' (by simp [hw']))
        (fun i h1 h2 hne1 hne2 => by
          have := hz (i+1) (by simpa using h1) (by simpa using h2)
          simp only [List.getElem_cons_succ] at this
          exact this hne1 hne2)
      have hw0 : 0 ≤ w := hw w (by simp)
      by_cases hpa : p = a
      · refine ⟨wa + w, wb, by linarith, hb, by simp [List.sum_cons]; linarith, ?_⟩
        simp only [comb, hc, hpa]; apply V3.ext' <;> simp only [add, smul] <;> ring
      · by_cases hpb : p = b
        · refine ⟨wa, wb + w, ha, by linarith, by simp [List.sum_cons]; linarith, ?_⟩
          simp only [comb, hc, hpb]; apply V3.ext' <;> simp only [add, smul] <;> ring
        · have : w = 0 := by
            have := hz 0 (by simp) (by simp)
            simp only [List.getElem_cons_zero] at this
            exact this hpa hpb
          refine ⟨wa, wb, ha, hb, by simp [List.sum_cons, this]; linarith, ?_⟩
          simp only [comb, hc, this]; apply V3.ext' <;> simp only [add, smul] <;> ring

/-- Lemma E -/
theorem on_edge_of_tight (n : V3) (l : List V3) (htp : triplesPos n l) (e : V3 × V3) (he : e ∈ closedPairs l)
    (x : V3) (hx : InHull l x) (h0 : orient n e.1 e.2 x = 0) : Between e.1 e.2 x := by
  obtain ⟨ws, hlen, hnn, hsum, rfl⟩ := hx
  have hlin : orient n e.1 e.2 (comb ws l) = (List.zipWith (fun w p => w * orient n e.1 e.2 p) ws l).sum := by
    have := orient_comb n e.1 e.2 ws l hlen
    rw [hsum] at this
    rw [← this]; congr 1; apply V3.ext' <;> simp [add, smul]
  rw [hlin] at h0
  have hterms := sum_zipWith_eq_zero_terms ws l (fun p => orient n e.1 e.2 p) hnn
    (fun p hp => closed_edges_nonneg n l htp e he p hp) h0
  obtain ⟨wa, wb, ha, hb, hab, hc⟩ := comb_two e.1 e.2 ws l hlen hnn (by
    intro i h1 h2 hne1 hne2
    have hpos := closed_edges_pos n l htp e he l[i] (List.getElem_mem h2)
    rcases hpos with hp | hp | hp
    · have := hterms i h1 h2
      rcases mul_eq_zero.mp this with h | h
      · exact h
      · linarith
    · exact absurd hp hne1
    · exact absurd hp hne2)
  rw [hc]
  refine ⟨wb, hb, by linarith, ?_⟩
  have hwa : wa = 1 - wb := by linarith
  rw [hwa]; apply V3.ext' <;> simp only [add, smul, sub] <;> ring
#print axioms on_edge_of_tight

/-! ### one-dimensional linear programme: finitely many constraints `0 ≤ α + β t` -/
def Feas (C : List (Rat × Rat)) (t : Rat) : Prop := ∀ c ∈ C, 0 ≤ c.1 + c.2 * t

theorem exists_max_of_list {α : Type} (f : α → Rat) : ∀ (l : List α), l ≠ [] → ∃ x ∈ l, ∀ y ∈ l, f y ≤ f x := by
  intro l
  induction l with
  | nil => intro h; exact absurd rfl h
  | cons a l ih =>
    intro _
    by_cases hl : l = []
    · subst hl; exact ⟨a, by simp, by intro y hy; simp at hy; rw [hy]⟩
    · obtain ⟨x, hx, hmax⟩ := ih hl
      rcases le_total (f x) (f a) with h | h
      · refine ⟨a, by simp, ?_⟩
        intro y hy; rcases List.mem_cons.mp hy with rfl | hy
        · exact le_refl _
        · exact le_trans (hmax y hy) h
      · refine ⟨x, by simp [hx], ?_⟩
        intro y hy; rcases List.mem_cons.mp hy with rfl | hy
        · exact h
        · exact hmax y hy

/-- the feasible set has a least element, attained on a constraint with positive slope -/
theorem lp_lo (C : List (Rat × Rat)) (t0 : Rat) (h0 : Feas C t0) (hpos : ∃ c ∈ C, 0 < c.2) :
    ∃ tlo, Feas C tlo ∧ (∀ t, Feas C t → tlo ≤ t) ∧ ∃ c ∈ C, 0 < c.2 ∧ c.1 + c.2 * tlo = 0 := by
  set P := C.filter (fun c => decide (0 < c.2)) with hP
  have hPne : P ≠ [] := by
    obtain ⟨c, hc, hcp⟩ := hpos
    intro h
    have : c ∈ P := by rw [hP, List.mem_filter]; exact ⟨hc, by simpa using hcp⟩
    rw [h] at this; cases this
  obtain ⟨cs, hcs, hmax⟩ := exists_max_of_list (fun c : Rat × Rat => - c.1 / c.2) P hPne
  rw [hP, List.mem_filter] at hcs
  have hcsC := hcs.1
  have hcsp : 0 < cs.2 := by simpa using hcs.2
  refine ⟨- cs.1 / cs.2, ?_, ?_, cs, hcsC, hcsp, by field_simp; ring⟩
  · -- feasibility of the candidate
    have ht0 : - cs.1 / cs.2 ≤ t0 := by
      rw [div_le_iff₀ hcsp]; have := h0 cs hcsC; linarith
    intro c hc
    rcases lt_or_ge 0 c.2 with hb | hb
    · have hcP : c ∈ P := by rw [hP, List.mem_filter]; exact ⟨hc, by simpa using hb⟩
      have := hmax c hcP
      have h1 : - c.1 / c.2 * c.2 = - c.1 := by field_simp
      nlinarith
    · have := h0 c hc
      nlinarith
  · intro t ht
    rw [div_le_iff₀ hcsp]; have := ht cs hcsC; linarith

theorem lp_hi (C : List (Rat × Rat)) (t0 : Rat) (h0 : Feas C t0) (hneg : ∃ c ∈ C, c.2 < 0) :
    ∃ thi, Feas C thi ∧ (∀ t, Feas C t → t ≤ thi) ∧ ∃ c ∈ C, c.2 < 0 ∧ c.1 + c.2 * thi = 0 := by
  -- reflect t ↦ -t
  set C' := C.map (fun c => (c.1, - c.2)) with hC'
  have hf : ∀ t, Feas C' t ↔ Feas C (-t) := by
    intro t; unfold Feas; rw [hC']
    constructor
    · intro h c hc
      have := h (c.1, -c.2) (List.mem_map.mpr ⟨c, hc, rfl⟩)
      simp only at this; linarith
    · intro h c' hc'
      obtain ⟨c, hc, rfl⟩ := List.mem_map.mp hc'
      have := h c hc
      simp only; linarith
  obtain ⟨tlo, h1, h2, c', hc', hcp, hct⟩ := lp_lo C' (-t0) ((hf _).mpr (by simpa using h0))
    (by obtain ⟨c, hc, hcn⟩ := hneg; exact ⟨(c.1, -c.2), List.mem_map.mpr ⟨c, hc, rfl⟩, by simpa using hcn⟩)
  obtain ⟨c, hc, rfl⟩ := List.mem_map.mp hc'
  refine ⟨-tlo, (hf tlo).mp h1, ?_, c, hc, by simpa using hcp, by simp only at hct; linarith⟩
  intro t ht
  have := h2 (-t) ((hf (-t)).mpr (by simpa using ht))
  linarith

theorem all_zero_of_nonneg_sum_zero : ∀ (l : List Rat), (∀ x ∈ l, 0 ≤ x) → l.sum = 0 → ∀ x ∈ l, x = 0 := by
  intro l
  induction l with
  | nil => intro _ _ x hx; cases hx
  | cons a l ih =>
    intro h hs x hx
    have ha : 0 ≤ a := h a (by simp)
    have hl : 0 ≤ l.sum := List.sum_nonneg (fun y hy => h y (by simp [hy]))
    simp only [List.sum_cons] at hs
    have ha0 : a = 0 := by linarith
    have hl0 : l.sum = 0 := by linarith
    rcases List.mem_cons.mp hx with rfl | hx
    · exact ha0
    · exact ih (fun y hy => h y (by simp [hy])) hl0 x hx

theorem exists_pos_neg_of_sum_zero (l : List Rat) (hs : l.sum = 0) (hne : ∃ x ∈ l, x ≠ 0) :
    (∃ x ∈ l, 0 < x) ∧ (∃ x ∈ l, x < 0) := by
  obtain ⟨x0, hx0, hx0n⟩ := hne
  constructor
  · by_contra hcon
    push_neg at hcon
    have hneg : ∀ y ∈ l.map (fun z => -z), 0 ≤ y := by
      intro y hy; obtain ⟨z, hz, rfl⟩ := List.mem_map.mp hy; have := hcon z hz; linarith
    have hsum : (l.map (fun z => -z)).sum = 0 := by
      have : (l.map (fun z => -z)).sum = - l.sum := by
        clear * -
        induction l with
        | nil => simp
        | cons a l ih => simp only [List.map_cons, List.sum_cons, ih]; ring
      rw [this, hs]; ring
    have := all_zero_of_nonneg_sum_zero _ hneg hsum (-x0) (List.mem_map.mpr ⟨x0, hx0, rfl⟩)
    exact hx0n (by linarith)
  · by_contra hcon
    push_neg at hcon
    exact hx0n (all_zero_of_nonneg_sum_zero l hcon hs x0 hx0)
#print axioms lp_lo
#print axioms lp_hi
end G3D
