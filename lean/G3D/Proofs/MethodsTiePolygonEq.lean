import G3D.Extracted.Mpolygon
import G3D.Proofs.MethodsTiePolygonShared
/-! # Tie, group `mpolygon`, role EQUALITY (C08): `__eq__` = `Polygon.same` under the IDEALISATION `hash(a) == hash(b)` ↦ `pyHashEq`.  Conventions, trusted readings and the deviations found: `G3D.Proofs.MethodsTie`, header of `G3D.Model.PyRtM`. -/
set_option linter.unusedSimpArgs false
set_option linter.unusedVariables false
set_option linter.style.nameCheck false
set_option linter.unusedTactic false
set_option linter.unreachableTactic false
namespace G3D.Tie
open V3 PyRt Extracted

/-- IDEALISATION: `hash(self) == hash(other)` is read as the model's `Polygon.same` (`pyHashEq`) -/
theorem m_ConvexPolygon___eq___eq (P Q : Polygon) :
    m_ConvexPolygon___eq__ (Self.ofPolygon P) (.obj (.polygon Q)) = .ok (.bool (P.same Q)) := by
  unfold m_ConvexPolygon___eq__
  simp [pyPack_ConvexPolygon_of, pyrt, pyHashEq, objHashable, objSame]

theorem m_ConvexPolygon___eq___other (P : Polygon) (l : Line) :
    m_ConvexPolygon___eq__ (Self.ofPolygon P) (.obj (lnObj l)) = .ok (.bool false) := by
  unfold m_ConvexPolygon___eq__
  simp [pyrt, lnObj]

end G3D.Tie
