import G3D.Extracted.Mpolygon
import G3D.Proofs.MethodsTiePolygonShared
/-! # Tie, group `mpolygon`, role EQUALITY (C08): `__eq__` = `Polygon.same` (the body compares vertex lists and planes; translated loop by loop).  Conventions, trusted readings and the deviations found: `G3D.Proofs.MethodsTie`, header of `G3D.Model.PyRtM`. -/
set_option linter.unusedSimpArgs false
set_option linter.unusedVariables false
set_option linter.style.nameCheck false
set_option linter.unusedTactic false
set_option linter.unreachableTactic false
namespace G3D.Tie
open V3 PyRt Extracted

/-- `ConvexPolygon.__eq__` (the vertex lists contain each other and the carrier planes are equal) IS the model's
    `Polygon.same`; no idealisation of hashes is involved any more (repair D12: `==` used to compare hashes) -/
theorem m_ConvexPolygon___eq___eq (P Q : Polygon) :
    m_ConvexPolygon___eq__ (Self.ofPolygon P) (.obj (.polygon Q)) = .ok (.bool (P.same Q)) := by
  unfold m_ConvexPolygon___eq__
  simp only [pyrt, Self.ofPolygon, Val.ptSeq, List.forIn_map, pyInM_pt_seq, pyAttr_points, pyAttr_plane]
  simp [forIn_return]
  by_cases h1 : ∀ a ∈ P.pts, a ∈ Q.pts
  · by_cases h2 : ∀ a ∈ Q.pts, a ∈ P.pts
    · have e1 : P.pts.all (· ∈ Q.pts) = true := by simpa using h1
      have e2 : Q.pts.all (· ∈ P.pts) = true := by simpa using h2
      rw [if_pos h1, if_pos h2]
      simp [Polygon.same, e1, e2, pyrt, plObj, pyEqM]
    · have e2 : Q.pts.all (· ∈ P.pts) = false := by
        rw [List.all_eq_false]; push Not at h2; obtain ⟨a, ha, hb⟩ := h2; exact ⟨a, ha, by simpa using hb⟩
      rw [if_pos h1, if_neg h2]
      simp [Polygon.same, e2]
  · have e1 : P.pts.all (· ∈ Q.pts) = false := by
      rw [List.all_eq_false]; push Not at h1; obtain ⟨a, ha, hb⟩ := h1; exact ⟨a, ha, by simpa using hb⟩
    rw [if_neg h1]
    simp [Polygon.same, e1]

theorem m_ConvexPolygon___eq___other (P : Polygon) (l : Line) :
    m_ConvexPolygon___eq__ (Self.ofPolygon P) (.obj (lnObj l)) = .ok (.bool false) := by
  unfold m_ConvexPolygon___eq__
  simp [pyrt, lnObj]

end G3D.Tie
