import G3D.Extracted.Khash
import G3D.Proofs.KhashLemmas
/-! # khash, `Line.__hash__`  (C08, C19)
    `G3D.Extracted.impl_hash_*` are regenerated on every run (tools/extract_khash.py, engine tools/khash_engine.py on tools/kernels_engine.py):
    the REAL `__hash__` bodies are run on symbolic numbers with `hash` / `round` / `get_sig_figures` / `get_eps` shimmed; `H` is the
    uninterpreted hash of a tuple, `rnd` / `rndI` the uninterpreted `round(., get_sig_figures())` on numbers / integers, `sig` / `neg`
    the uninterpreted answers to `abs(c) > get_eps()` / `c < 0`.  Every statement holds FOR ALL H, rnd, rndI.  Each kernel has its own
    `section`: when the walk of ONE kernel fails the generated file holds only the marker `impl_<kernel>_EXTRACTION_FAILED` for it
    and exactly the theorems of that section stop compiling.  The reference functions (`…Ref`, `…OfKey`) and their reading through
    the hash keys of `Model/HashKey.lean` are hand-written in `Proofs/KhashLemmas.lean`. -/
namespace G3D.KTie.Khash
open G3D G3D.Extracted G3D.KTie

section hash_Line
/-- the comparisons the body asks (on the components of `dv.normalized()`) and the seven paths of the loop -/
theorem hash_Line_paths :
    impl_hash_Line_oracles = [("sig", "abs(R) > eps"), ("neg", "R < 0")] ∧
    impl_hash_Line_paths = [[("abs(R) > eps", true), ("R < 0", true)], [("abs(R) > eps", true), ("R < 0", false)],
      [("abs(R) > eps", false), ("abs(R) > eps", true), ("R < 0", true)],
      [("abs(R) > eps", false), ("abs(R) > eps", true), ("R < 0", false)],
      [("abs(R) > eps", false), ("abs(R) > eps", false), ("abs(R) > eps", true), ("R < 0", true)],
      [("abs(R) > eps", false), ("abs(R) > eps", false), ("abs(R) > eps", true), ("R < 0", false)],
      [("abs(R) > eps", false), ("abs(R) > eps", false), ("abs(R) > eps", false)]] := by decide

/-- the length under the shared square root is `|dv|` -/
theorem hash_Line_sqrt (sv dv : RVec) : impl_hash_Line_sqrt0 sv dv = √(RVec.normSq dv) := by
  simp only [impl_hash_Line_sqrt0, sum0]

/-- under the exact reading of the comparisons the extracted decision tree IS the reference: the canonical unit direction
    (first non-zero component positive) and the foot of the origin `sv − (sv·d) d` (in which the sign cancels), rounded, tag "Line" -/
theorem hash_Line_tie (H : HFun) (rnd : ℝ → ℝ) (sv dv : RVec) :
    impl_hash_Line H rnd sigE negE sv dv = lineHashRef H rnd sv dv := by
  simp only [impl_hash_Line, impl_hash_Line_sqrt0, sum0, lineHashRef, sgnF_cases, sigE, negE, decide_eq_true_eq, unitR, RVec.dot]
  split_ifs <;> ring_nf

/-- **the extracted hash of a line depends only on the model's `Line.hashKey`** (canonical unit direction, foot point) -/
theorem hash_Line_key (H : HFun) (rnd : ℝ → ℝ) (l : Line) (h : l.WF) :
    impl_hash_Line H rnd sigE negE l.sv.toR l.dv.toR = lineHashOfKey H rnd (Line.hashKey l) := by
  rw [hash_Line_tie, lineHashRef_key H rnd l h]

/-- **EQUAL LINES HAVE EQUAL EXTRACTED HASHES**, for every H and every rounding (any support point, any direction of any length
    and sign) -/
theorem hash_Line_eq_of_eqv (H : HFun) (rnd : ℝ → ℝ) (a b : Line) (ha : a.WF) (hb : b.WF) (h : a.eqv b = true) :
    impl_hash_Line H rnd sigE negE a.sv.toR a.dv.toR = impl_hash_Line H rnd sigE negE b.sv.toR b.dv.toR := by
  rw [hash_Line_key H rnd a ha, hash_Line_key H rnd b hb, Line.hashKey_of_eqv a b ha hb h]

/-- (C19) for a tolerance e ≥ 0 and a unit direction whose non-zero components all exceed e in absolute value, the
    tolerance-aware reading of `abs(c) > get_eps()` takes the same path as the exact one -/
theorem hash_Line_tol (H : HFun) (rnd : ℝ → ℝ) (e : ℝ) (he : 0 ≤ e) (sv dv : RVec)
    (hx : (unitR dv).x = 0 ∨ e < |(unitR dv).x|) (hy : (unitR dv).y = 0 ∨ e < |(unitR dv).y|)
    (hz : (unitR dv).z = 0 ∨ e < |(unitR dv).z|) :
    impl_hash_Line H rnd (sigT e) negE sv dv = impl_hash_Line H rnd sigE negE sv dv := by
  have key : ∀ c : ℝ, (c = 0 ∨ e < |c|) → sigT e c = sigE c := by
    intro c hc
    simp only [sigT, sigE, gt_iff_lt, ne_eq, decide_eq_decide]
    rcases hc with rfl | hc
    · simp; exact he
    · exact ⟨fun _ h0 => by rw [h0, abs_zero] at hc; linarith, fun _ => hc⟩
  simp only [unitR] at hx hy hz
  simp only [impl_hash_Line, impl_hash_Line_sqrt0, sum0, key _ hx, key _ hy, key _ hz]

/-- non-vacuity: the line through (0,0,1) with direction (1,2,2), given again by another of its points and the direction −3·(1,2,2) -/
theorem hash_Line_example (H : HFun) (rnd : ℝ → ℝ) :
    impl_hash_Line H rnd sigE negE (V3.toR ⟨0, 0, 1⟩) (V3.toR ⟨1, 2, 2⟩)
      = impl_hash_Line H rnd sigE negE (V3.toR ⟨-2, -4, -3⟩) (V3.toR ⟨-3, -6, -6⟩) :=
  hash_Line_eq_of_eqv H rnd ⟨⟨0, 0, 1⟩, ⟨1, 2, 2⟩⟩ ⟨⟨-2, -4, -3⟩, ⟨-3, -6, -6⟩⟩ (by unfold Line.WF; decide +kernel)
    (by unfold Line.WF; decide +kernel) (by decide +kernel)

/-- (C19) every `round` of the body takes its digit count from the LIVE `get_sig_figures()` (offset 0) -/
theorem hash_Line_roundings : impl_hash_Line_roundings = [0] := by decide
end hash_Line

#print axioms hash_Line_key
#print axioms hash_Line_eq_of_eqv
#print axioms hash_Line_tol
end G3D.KTie.Khash
