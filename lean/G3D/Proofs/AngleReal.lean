import Mathlib.Analysis.SpecialFunctions.Trigonometric.Inverse

/-! Real-analysis facts behind calc/acute.py and calc/angle.py -/
namespace G3D
open Real

/-- `acute`: fold angles above π/2 -/
noncomputable def acuteR (rad : ℝ) : ℝ := if rad > π / 2 then π - rad else rad

/-- the code's `acute(acos(t))` is the acute angle `arccos |t|`, in `[0, π/2]` -/
theorem acute_arccos (t : ℝ) (h1 : -1 ≤ t) (h2 : t ≤ 1) :
    acuteR (arccos t) = arccos |t| ∧ 0 ≤ arccos |t| ∧ arccos |t| ≤ π / 2 := by
  refine ⟨?_, arccos_nonneg _, arccos_le_pi_div_two.mpr (abs_nonneg t)⟩
  unfold acuteR
  by_cases ht : 0 ≤ t
  · have : ¬ arccos t > π / 2 := by
      push_neg; exact arccos_le_pi_div_two.mpr ht
    rw [if_neg this, abs_of_nonneg ht]
  · push_neg at ht
    have : arccos t > π / 2 := by
      have := arccos_le_pi_div_two (x := t)
      by_contra hc; push_neg at hc
      exact absurd (this.mp hc) (not_le.mpr ht)
    rw [if_pos this, abs_of_neg ht, arccos_neg]

/-- line/plane: `π/2 - acute(acos t)` is again in `[0, π/2]` -/
theorem line_plane_angle_range (t : ℝ) :
    0 ≤ π / 2 - arccos |t| ∧ π / 2 - arccos |t| ≤ π / 2 := by
  constructor
  · have := arccos_le_pi_div_two.mpr (abs_nonneg t); linarith
  · have := arccos_nonneg |t|; linarith

theorem arccos_abs_eq_zero_iff (t : ℝ) (h1 : -1 ≤ t) (h2 : t ≤ 1) : arccos |t| = 0 ↔ t ^ 2 = 1 := by
  rw [arccos_eq_zero]
  constructor
  · intro h
    have : |t| = 1 := le_antisymm (abs_le.mpr ⟨h1, h2⟩) h
    rw [← sq_abs, this]; norm_num
  · intro h
    have : |t| ^ 2 = 1 := by rw [sq_abs]; exact h
    have h0 := abs_nonneg t
    nlinarith

theorem arccos_abs_eq_pi_div_two_iff (t : ℝ) : arccos |t| = π / 2 ↔ t ^ 2 = 0 := by
  rw [arccos_eq_pi_div_two]
  constructor
  · intro h; rw [abs_eq_zero] at h; rw [h]; norm_num
  · intro h; rw [abs_eq_zero]; exact pow_eq_zero_iff (by norm_num) |>.mp h
#print axioms acute_arccos
end G3D
