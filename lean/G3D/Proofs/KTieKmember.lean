import G3D.Extracted.Kmember
import G3D.Model.Flat
import G3D.Proofs.Vec
/-! # kmember (rational part): `Plane.__contains__(Point / Line)`, `HalfLine.__contains__(Point)`  (C05, C19)
    `G3D.Extracted.impl_*` are regenerated on every run (tools/extract_kmember.py, engine tools/kernels_engine.py): the REAL code is run on
    symbolic numbers, every comparison against the tolerance is recorded (operands and shape) and answered from a scripted
    path.  Each kernel has its own `section`: when the walk of ONE kernel fails the generated file holds only the marker
    `impl_<kernel>_EXTRACTION_FAILED` for it and exactly the theorems of that section stop compiling.
    (the constructor pins of this group are in KTieKmemberCtor / KTieKmemberrCtor) -/
namespace G3D.KTie.Kmember
open G3D V3 G3D.Extracted

section planeContains
theorem planeContains_tie (pl : Plane) (x : V3) :
    impl_planeContains_residual pl.p pl.n x = dot (sub x pl.p) pl.n := by
  simp only [impl_planeContains_residual, dot, sub]; ring

/-- the model's membership test is the exact reading `R = 0` of the recorded `abs(R) < eps` -/
theorem planeContains_iff (pl : Plane) (x : V3) :
    pl.contains x = true ↔ impl_planeContains_residual pl.p pl.n x = 0 := by
  simp only [Plane.contains, beq_iff_eq, impl_planeContains_residual, dot]
  constructor <;> intro h <;> linarith

theorem planeContains_shape : impl_planeContains_shape = "abs(R) < eps" := by decide

theorem planeContains_path : impl_planeContains_path = [("abs(R) < eps", true)] ∧ impl_planeCtor_path = [] := by decide
end planeContains

section planeContainsLine
theorem planeContainsLine_tie (pl : Plane) (l : Line) :
    impl_planeContainsLine_residual0 pl.p pl.n l.sv l.dv = dot (sub l.sv pl.p) pl.n ∧
    impl_planeContainsLine_residual1 pl.p pl.n l.sv l.dv = dot l.dv pl.n := by
  constructor
  · simp only [impl_planeContainsLine_residual0, dot, sub]; ring
  · simp only [impl_planeContainsLine_residual1, dot]; ring

theorem planeContainsLine_iff (pl : Plane) (l : Line) :
    pl.containsLine l = true ↔
      impl_planeContainsLine_residual0 pl.p pl.n l.sv l.dv = 0 ∧ impl_planeContainsLine_residual1 pl.p pl.n l.sv l.dv = 0 := by
  simp only [Plane.containsLine, Plane.contains, V3.orthogonal, Bool.and_eq_true, beq_iff_eq,
    impl_planeContainsLine_residual0, impl_planeContainsLine_residual1, dot]
  constructor <;> rintro ⟨h1, h2⟩ <;> constructor <;> linarith

theorem planeContainsLine_path :
    impl_planeContainsLine_path = [("abs(R) < eps", true), ("abs(R) < eps", true)] := by decide
end planeContainsLine

section halfLineContains
theorem halfLineContains_tie (h : HalfLine) (x : V3) :
    impl_halfLineContains_proj h.p h.v x = dot (sub x h.p) h.v := by
  simp only [impl_halfLineContains_proj, dot, sub]; ring

/-- the model's test = carrier line ∧ exact reading `0 ≤ R` of the recorded `R > -eps` -/
theorem halfLineContains_iff (h : HalfLine) (x : V3) :
    h.contains x = true ↔ h.line.contains x = true ∧ 0 ≤ impl_halfLineContains_proj h.p h.v x := by
  rw [halfLineContains_tie]
  unfold HalfLine.contains
  by_cases hc : h.line.contains x = true <;> simp [hc]

theorem halfLineContains_paths :
    impl_halfLineContains_shape = "R > -eps" ∧
    impl_halfLineContains_path = [("abs(R) < eps", false), ("abs(R) < eps", false), ("abs(R) < eps", false), ("abs(R) < (eps * S)", true), ("R > -eps", true)] ∧
    impl_halfLineContainsOffLine_path = [("abs(R) < eps", false), ("abs(R) < eps", false), ("abs(R) < eps", false), ("abs(R) < (eps * S)", false)] := by decide
end halfLineContains

end G3D.KTie.Kmember
