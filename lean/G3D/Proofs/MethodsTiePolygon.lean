import G3D.Extracted.Mpolygon
import G3D.Proofs.MethodsTieBase
/-! # Tie, group `mpolygon` (properties C05 / C07 / C08 / C09 / C15): the methods of ConvexPolygon —
    extracted body (`G3D.Extracted.Mpolygon`, tools/extract_mpolygon.py over tools/mextract.py) = hand-written model
    (`G3D.Model.Body`: `Polygon.mk?`, `contains`, `containsSeg`, `segments?`, `neg?`, `inPlane`; `Move2`: `Polygon.move`;
    `InterBody`: `Polygon.same`; `Measure`: `edgeLenSqs`).  Conventions: `G3D.Proofs.MethodsTieFlat`. -/
set_option linter.unusedSimpArgs false
set_option linter.unusedVariables false
set_option linter.style.nameCheck false
set_option linter.unusedTactic false
set_option linter.unreachableTactic false
namespace G3D.Tie
open V3 PyRt Extracted

theorem m_ConvexPolygon__get_center_point_eq (self : Self) (ps : List V3) (h : self.f_points = some (Val.ptSeq ps)) :
    m_ConvexPolygon__get_center_point self =
      if ps = [] then .error (.ctor .zeroDiv) else .ok (.obj (ptObj (meanV ps))) := by
  unfold m_ConvexPolygon__get_center_point
  rw [h]
  simp only [pyrt, pyFld, Val.ptSeq, List.map_map, List.length_map]
  rw [show ((Val.int 0, Val.int 0, Val.int 0) : Val × Val × Val) = ctrRepr none from rfl]
  rw [forIn_repr (Val.obj ∘ ptObj) ctrRepr ps _ (fun p o => .ok (.yield (ctrAdd o p)))]
  · rw [forIn_yield]
    cases ps with
    | nil => simp [ctrRepr, pyFloat, pyDiv, Val.asRat?]
    | cons p ps =>
      have hn : ((ps.length : Rat) + 1) ≠ 0 := by positivity
      simp only [List.foldl_cons, ctrAdd, ctrFold]
      simp [ctrRepr, pyFloat, pyDiv, Val.asRat?, pyPoint3, hn, meanV, sumV, zero_add', smul, ptObj]
      refine ⟨?_, ?_, ?_⟩ <;> ring
  · intro p _ o
    exact center_loop_body p o


/-- the angular keys of `_check_and_sort_points` on the unnormalised frame -/
def angKey (n c p0 p : V3) : Rat × Rat := (dot (sub p c) (sub p0 c), dot (sub p c) (cross n (sub p0 c)))

/-- the vertex order `_check_and_sort_points` produces -/
def angSort (n c p0 : V3) (pts : List V3) : List V3 :=
  (pts.foldl (fun acc p => angInsert (angKey n c p0 p) p acc) []).map (·.2)

theorem m_ConvexPolygon__check_and_sort_points_eq (self : Self) (p0 : V3) (ps : List V3) (a : Plane) (c : V3)
    (h1 : self.f_points = some (Val.ptSeq (p0 :: ps))) (h2 : self.f_plane = some (.obj (plObj a)))
    (h3 : self.f_center_point = some (.obj (ptObj c))) (hn : a.n ≠ zero) :
    m_ConvexPolygon__check_and_sort_points self =
      if sub p0 c = zero then .error (.ctor .zeroDiv)
      else if (p0 :: ps).all a.contains = true then
        .ok ({ self with f_points := some (Val.ptSeq (angSort a.n c p0 (p0 :: ps))) },
             .bool true)
      else .error (.ctor .value) := by
  unfold m_ConvexPolygon__check_and_sort_points
  by_cases hv : sub p0 c = zero
  · simp only [h1, h2, h3, pyrt, pyFld, Val.ptSeq, plObj, ptObj, pyAttr_n, pyMeth_normalized, hn, if_false, pyVector, hv, if_true]
  simp only [h1, h2, h3, pyrt, pyFld, Val.ptSeq, List.map_map, plObj, ptObj, pyAttr_n, pyMeth_normalized, hn, if_false,
    pyVector, hv, pyMeth_cross, pyAngDictNew]
  rw [forIn_repr (Val.obj ∘ ptObj) (fun d : AngDict => d) (p0 :: ps) _
    (fun p d => if a.contains p = true then .ok (.yield (angInsert (angKey a.n c p0 p) p d)) else .error (.ctor .value))]
  · rw [forIn_guard (p0 :: ps) a.contains (fun d p => angInsert (angKey a.n c p0 p) p d)]
    by_cases hall : (p0 :: ps).all a.contains = true
    · simp only [hall, if_true]
      simp [pyAngDictSortedValues, pyList, Val.ptSeq, angSort]
    · simp [hall]
  · intro p _ d
    by_cases hp : a.contains p = true
    · simp [Function.comp, ptObj, pyInM, pyContains, hp, pyNot, Val.truthy, pyMeth_pv, pySub, pyMulM, pyAngDictSet, Val.asRat?,
        ForInStep.map', angKey]
    · simp [Function.comp, ptObj, pyInM, pyContains, hp, pyNot, Val.truthy]


theorem new_ConvexPolygon_eq (input : List V3) (rev : Bool) (cc : Val) :
    new_ConvexPolygon (Val.ptSeq input) (.bool rev) cc = ofCtor Obj.polygon (Polygon.mk? input rev) := by
  unfold new_ConvexPolygon m_ConvexPolygon___init__
  simp only [pyrt, pyDedupFirst, Val.ptSeq, allPoints_pt, Self.empty, List.length_map, pyFld]
  unfold Polygon.mk?
  by_cases hlen : input.length < 3
  · have : (input.length : Int) < 3 := by omega
    simp [hlen, this, ofCtor]
  have hlen' : ¬ (input.length : Int) < 3 := by omega
  simp only [hlen, hlen', decide_false, if_false, Bool.false_eq_true]
  generalize dedupV input = ded
  match ded with
  | [] => cases rev <;> simp [pyIndexM, pyIndex, normIdx, ofCtor]
  | [a] => cases rev <;> simp [pyIndexM, pyIndex, normIdx, ofCtor]
  | [a, b] => cases rev <;> simp [pyIndexM, pyIndex, normIdx, ofCtor]
  | p0 :: p1 :: p2 :: rest =>
    simp only [pyrt, pyPlane3, ptObj, Plane.ofPoints]
    by_cases hn0 : cross (sub p1 p0) (sub p2 p0) = zero
    · cases rev <;> simp [hn0, ofCtor]
    have hneg : ¬ neg (cross (sub p1 p0) (sub p2 p0)) = zero := fun e => hn0 (neg_eq_zero_iff.mp e)
    cases rev
    · simp only [hn0, if_false, ofCtor, plObj, Bool.false_eq_true, pyrt]
      rw [m_ConvexPolygon__get_center_point_eq _ (p0 :: p1 :: p2 :: rest) rfl]
      simp only [List.cons_ne_nil, reduceCtorEq, if_false, pyrt]
      rw [m_ConvexPolygon__check_and_sort_points_eq _ p0 (p1 :: p2 :: rest) ⟨p0, cross (sub p1 p0) (sub p2 p0)⟩
        (meanV (p0 :: p1 :: p2 :: rest)) rfl rfl rfl hn0]
      by_cases hv : sub p0 (meanV (p0 :: p1 :: p2 :: rest)) = zero
      · simp [hv]
      by_cases hall : (p0 :: p1 :: p2 :: rest).all (Plane.contains ⟨p0, cross (sub p1 p0) (sub p2 p0)⟩) = true
      · simp only [hv, hall, if_false, if_true]
        simp only [pyrt, pyPack_ConvexPolygon, Val.ptSeq, allPoints_pt, plObj, ptObj]
        rfl
      · simp [hv, hall]
    · simp only [hn0, if_false, ofCtor, plObj, Bool.false_eq_true, pyrt, pyNegM, Plane.neg, if_true]
      rw [m_ConvexPolygon__get_center_point_eq _ (p0 :: p1 :: p2 :: rest) rfl]
      simp only [List.cons_ne_nil, reduceCtorEq, if_false, pyrt]
      rw [m_ConvexPolygon__check_and_sort_points_eq _ p0 (p1 :: p2 :: rest) ⟨p0, neg (cross (sub p1 p0) (sub p2 p0))⟩
        (meanV (p0 :: p1 :: p2 :: rest)) rfl rfl rfl hneg]
      by_cases hv : sub p0 (meanV (p0 :: p1 :: p2 :: rest)) = zero
      · simp [hv]
      by_cases hall : (p0 :: p1 :: p2 :: rest).all (Plane.contains ⟨p0, neg (cross (sub p1 p0) (sub p2 p0))⟩) = true
      · simp only [hv, hall, if_false, if_true]
        simp only [pyrt, pyPack_ConvexPolygon, Val.ptSeq, allPoints_pt, plObj, ptObj]
        rfl
      · simp [hv, hall]

def segOf (e : V3 × V3) : Except CErr Seg := if e.1 = e.2 then .error .value else .ok (Seg.mk' e.1 e.2)

theorem m_ConvexPolygon_segments_eq (self : Self) (pts : List V3) (h1 : self.f_points = some (Val.ptSeq pts)) :
    m_ConvexPolygon_segments self = (fun ss => Val.seq (ss.map sgObj)) <$> liftC ((closedPairs pts).mapM segOf) := by
  unfold m_ConvexPolygon_segments
  simp only [h1, pyrt, pyFld, Val.ptSeq, List.length_map, Int.sub_zero, Int.toNat_natCast]
  rw [show Val.seq [] = (fun ss : List Seg => Val.seq (ss.map sgObj)) [] from rfl]
  rw [forIn_cyc pts (fun ss : List Seg => Val.seq (ss.map sgObj)) _
    (fun e acc => do let y ← liftC (segOf e); pure (ForInStep.yield (acc ++ [y])))]
  · rw [forIn_append_mapM, liftC_mapM]
    cases (closedPairs pts).mapM (fun x => liftC (segOf x)) <;> simp
  · intro k a b hk acc
    obtain ⟨h0, hb⟩ := cyc_index pts k a b hk
    rcases hb with ⟨hk1, hb⟩ | ⟨hk1, hb⟩
    · have hk2 : ((k : Int) == (pts.length : Int) - 1) = true := by simp [hk1]
      by_cases hab : a = b <;>
        simp [pySub, pyEqM, pyEq, Val.truthy, hk2, h0, hb, pySegmentM, ofCtor, Seg.mk?, segOf, hab, liftC, pyListAppend, ForInStep.map', sgObj, ptObj]
    · have hk2 : ¬ ((k : Int) == (pts.length : Int) - 1) = true := by simpa using hk1
      by_cases hab : a = b <;>
        simp [pySub, pyEqM, pyEq, Val.truthy, hk2, h0, hb, pyAdd, pySegmentM, ofCtor, Seg.mk?, segOf, hab, liftC, pyListAppend, ForInStep.map', sgObj, ptObj]


theorem m_ConvexPolygon___contains___raw_point (P : Polygon) (x : V3) :
    m_ConvexPolygon___contains__ (Self.ofPolygon P) (.obj (ptObj x)) =
      if P.plane.n = zero then .error (.ctor .zeroDiv) else .ok (.bool (P.contains x)) := by
  unfold m_ConvexPolygon___contains__
  by_cases hn : P.plane.n = zero
  · simp [Self.ofPolygon, pyrt, pyFld, ptObj, plObj, pyInM, pyContains, pyAttr_n, pyMeth_normalized, hn]
  simp only [Self.ofPolygon, pyrt, pyFld, Val.ptSeq, List.length_map, ptObj, plObj, pyInM, pyContains, pyAttr_n,
    pyMeth_normalized, hn, if_false, Int.sub_zero, Int.toNat_natCast, decide_true, if_true]
  rw [show Val.bool true = (fun b : Bool => Val.bool b) true from rfl]
  rw [forIn_cyc P.pts (fun b : Bool => Val.bool b) _
    (fun e r => if decide (edgeSide P.plane.n e.1 e.2 x < 0) = true then .ok (.done false) else .ok (.yield r))]
  · rw [forIn_all (closedPairs P.pts) (fun e => decide (edgeSide P.plane.n e.1 e.2 x < 0)) true]
    simp only [pyrt, Polygon.contains]
    have : ((closedPairs P.pts).all fun e => decide (0 ≤ edgeSide P.plane.n e.1 e.2 x)) =
        !((closedPairs P.pts).any fun e => decide (edgeSide P.plane.n e.1 e.2 x < 0)) := by
      rw [List.all_eq_not_any_not]; congr 2; funext e; rw [Bool.eq_iff_iff]; simp [not_lt]
    rw [this]
    cases P.plane.contains x <;> cases ((closedPairs P.pts).any fun e => decide (edgeSide P.plane.n e.1 e.2 x < 0)) <;> rfl
  · intro k a b hk r
    obtain ⟨h0, hb⟩ := cyc_index P.pts k a b hk
    rcases hb with ⟨hk1, hb⟩ | ⟨hk1, hb⟩
    · have hk2 : ((k : Int) == (P.pts.length : Int) - 1) = true := by simp [hk1]
      by_cases hs : dot (sub x a) (cross P.plane.n (sub b a)) < 0 <;>
        simp [pySub, pyEqM, pyEq, Val.truthy, hk2, h0, hb, ptObj, pyVector, pyMeth_cross, pyMulM, pyCmpTol, tolEval, Val.asRat?,
          ForInStep.map', edgeSide, hs] <;> rfl
    · have hk2 : ¬ ((k : Int) == (P.pts.length : Int) - 1) = true := by simpa using hk1
      by_cases hs : dot (sub x a) (cross P.plane.n (sub b a)) < 0 <;>
        simp [pySub, pyEqM, pyEq, Val.truthy, hk2, h0, hb, ptObj, pyAdd, pyVector, pyMeth_cross, pyMulM, pyCmpTol, tolEval, Val.asRat?,
          ForInStep.map', edgeSide, hs] <;> rfl



theorem pyPack_ConvexPolygon_of (P : Polygon) : pyPack_ConvexPolygon (Self.ofPolygon P) = .ok (.obj (.polygon P)) := by
  simp [pyPack_ConvexPolygon, Self.ofPolygon, Val.ptSeq, plObj, ptObj]

theorem m_ConvexPolygon___contains___eq_seg (P : Polygon) (s : Seg) :
    m_ConvexPolygon___contains__ (Self.ofPolygon P) (.obj (sgObj s)) = .ok (.bool (P.containsSeg s)) := by
  unfold m_ConvexPolygon___contains__
  simp only [pyPack_ConvexPolygon_of, pyrt, sgObj]
  simp [pyInM, pyContains, Polygon.containsSeg, pyrt]

theorem m_ConvexPolygon___contains___eq_other (P : Polygon) (l : Line) :
    m_ConvexPolygon___contains__ (Self.ofPolygon P) (.obj (lnObj l)) = .error .notImpl := by
  unfold m_ConvexPolygon___contains__
  simp [pyrt, lnObj]

theorem m_ConvexPolygon_in__eq (P : Polygon) (a : Plane) :
    m_ConvexPolygon_in_ (Self.ofPolygon P) (.obj (plObj a)) = .ok (.bool (P.inPlane a)) := by
  unfold m_ConvexPolygon_in_
  simp [pyrt, plObj, Self.ofPolygon, pyFld, pyEqM, pyEq, Polygon.inPlane]

theorem m_ConvexPolygon_in__eq_other (P : Polygon) (l : Line) :
    m_ConvexPolygon_in_ (Self.ofPolygon P) (.obj (lnObj l)) = .error .notImpl := by
  unfold m_ConvexPolygon_in_
  simp [pyrt, lnObj]

/-- IDEALISATION: `hash(self) == hash(other)` is read as the model's `Polygon.same` (`pyHashEq`) -/
theorem m_ConvexPolygon___eq___eq (P Q : Polygon) :
    m_ConvexPolygon___eq__ (Self.ofPolygon P) (.obj (.polygon Q)) = .ok (.bool (P.same Q)) := by
  unfold m_ConvexPolygon___eq__
  simp [pyPack_ConvexPolygon_of, pyrt, pyHashEq, objHashable, objSame]

theorem m_ConvexPolygon___eq___other (P : Polygon) (l : Line) :
    m_ConvexPolygon___eq__ (Self.ofPolygon P) (.obj (lnObj l)) = .ok (.bool false) := by
  unfold m_ConvexPolygon___eq__
  simp [pyrt, lnObj]

theorem m_ConvexPolygon___neg___eq (P : Polygon) :
    m_ConvexPolygon___neg__ (Self.ofPolygon P) = ofCtor Obj.polygon P.neg? := by
  unfold m_ConvexPolygon___neg__
  simp only [Self.ofPolygon, pyFld, pyrt, Val.ptSeq, pyConvexPolygon_pt, Polygon.neg?, ofCtor]
  cases Polygon.mk? P.pts true <;> simp [liftC]




theorem foldl_snoc_map {α β : Type} (f : α → β) (xs : List α) (acc : List β) :
    xs.foldl (fun acc x => acc ++ [f x]) acc = acc ++ xs.map f := by
  induction xs generalizing acc with
  | nil => simp
  | cons x xs ih => simp [ih]

theorem m_ConvexPolygon_move_eq (P : Polygon) (v : V3) :
    m_ConvexPolygon_move (Self.ofPolygon P) (.vec v) =
      match P.move v with
      | (P', .ok R) => .ok (Self.ofPolygon P', .obj (.polygon R))
      | (_, .error e) => .error (.ctor e) := by
  unfold m_ConvexPolygon_move
  simp only [Self.ofPolygon, pyrt, pyFld, Val.ptSeq, List.map_map, decide_true, if_true]
  rw [show pyListLit [] = .ok ((fun l : List V3 => Val.seq (l.map ptObj)) []) from rfl]
  simp only [pyrt]
  rw [forIn_repr (Val.obj ∘ ptObj) (fun l : List V3 => Val.seq (l.map ptObj)) P.pts _
    (fun p acc => .ok (.yield (acc ++ [add p v])))]
  · rw [forIn_yield P.pts (fun acc p => acc ++ [add p v]), foldl_snoc_map]
    simp only [pyrt, List.nil_append, Polygon.move, Point.move]
    generalize P.pts.map (fun p => add p v) = pts'
    match pts' with
    | [] => simp [pyIndexM, pyIndex, normIdx]
    | [a] => simp [pyIndexM, pyIndex, normIdx]
    | [a, b] => simp [pyIndexM, pyIndex, normIdx]
    | p0 :: p1 :: p2 :: rest =>
      simp only [pyrt, pyPlane3, ptObj, Plane.ofPoints]
      by_cases hn0 : cross (sub p1 p0) (sub p2 p0) = zero
      · simp [hn0, ofCtor]
      simp only [hn0, if_false, ofCtor, plObj, pyrt]
      rw [m_ConvexPolygon__get_center_point_eq _ (p0 :: p1 :: p2 :: rest) rfl]
      simp only [List.cons_ne_nil, reduceCtorEq, if_false, pyrt]
      cases Polygon.mk? (p0 :: p1 :: p2 :: rest) <;> simp [liftC, planeOf3, Val.ptSeq, ptObj, plObj]
  · intro p _ acc
    simp [Function.comp, ptObj, pyMoveRet, Point.move, pyListAppend, ForInStep.map']

/-- a sum of square roots, represented by its radicands (`0` while empty) -/
def sqrtSumRepr (l : List Rat) : Val := if l = [] then .int 0 else .nums l

theorem mapM_segOf_lenSq : ∀ (cp : List (V3 × V3)) (ss : List Seg), cp.mapM segOf = .ok ss →
    ss.map Seg.lenSq = cp.map (fun e => normSq (sub e.2 e.1)) := by
  intro cp
  induction cp with
  | nil => intro ss h; simp at h; cases h; rfl
  | cons e cp ih =>
    intro ss h
    rw [List.mapM_cons] at h
    by_cases he : e.1 = e.2
    · simp [segOf, he] at h
    · cases hm : cp.mapM segOf with
      | error x => simp [segOf, he, hm] at h
      | ok ts =>
        simp [segOf, he, hm] at h
        cases h
        simp [ih ts hm, Seg.lenSq, Seg.mk']

theorem m_ConvexPolygon_length_eq (P : Polygon) :
    m_ConvexPolygon_length (Self.ofPolygon P) =
      match P.segments? with
      | .error e => .error (.ctor e)
      | .ok ss => .ok (sqrtSumRepr (ss.map Seg.lenSq)) := by
  unfold m_ConvexPolygon_length
  rw [m_ConvexPolygon_segments_eq _ P.pts rfl]
  have hs : P.segments? = (closedPairs P.pts).mapM segOf := rfl
  rw [hs]
  cases (closedPairs P.pts).mapM segOf with
  | error e => simp [liftC]
  | ok ss =>
    simp only [liftC, pyrt, List.map_map]
    rw [show Val.int 0 = sqrtSumRepr [] from rfl]
    rw [forIn_repr (Val.obj ∘ sgObj) sqrtSumRepr ss _ (fun s acc => .ok (.yield (acc ++ [s.lenSq])))]
    · rw [forIn_yield ss (fun acc s => acc ++ [s.lenSq]), foldl_snoc_map]
      simp
    · intro s _ acc
      by_cases ha : acc = []
      · simp [Function.comp, sgObj, sqrtSumRepr, ha, pySqrtSumAdd, ForInStep.map']
      · simp [Function.comp, sgObj, sqrtSumRepr, ha, pySqrtSumAdd, ForInStep.map']

/-- the radicands are the model's squared edge lengths -/
theorem segments_lenSq (P : Polygon) (ss : List Seg) (h : P.segments? = .ok ss) : ss.map Seg.lenSq = P.edgeLenSqs :=
  mapM_segOf_lenSq _ ss h


/-- `segments()` (read eagerly) on a polygon object -/
theorem m_ConvexPolygon_segments_eq' (P : Polygon) :
    m_ConvexPolygon_segments (Self.ofPolygon P) = (fun ss => Val.seq (ss.map sgObj)) <$> liftC P.segments? :=
  m_ConvexPolygon_segments_eq _ P.pts rfl

/-- `_get_center_point()` on a polygon object (the constructor and `move` call it on the record under construction) -/
theorem m_ConvexPolygon__get_center_point_eq' (P : Polygon) :
    m_ConvexPolygon__get_center_point (Self.ofPolygon P) =
      if P.pts = [] then .error (.ctor .zeroDiv) else .ok (.obj (ptObj (meanV P.pts))) :=
  m_ConvexPolygon__get_center_point_eq _ P.pts rfl

theorem m_ConvexPolygon___contains___eq_point (P : Polygon) (x : V3) (h : P.plane.WF) :
    m_ConvexPolygon___contains__ (Self.ofPolygon P) (.obj (ptObj x)) = .ok (.bool (P.contains x)) := by
  rw [m_ConvexPolygon___contains___raw_point, if_neg h]

/-! ## references stored / returned, dropped effects (C20) -/
theorem m_ConvexPolygon___init___effects_eq : m_ConvexPolygon___init___effects =
    ["store: self.points = new[new[copy]]", "store: self.plane = new",
     "store: self.plane = new Plane(ref:self.points[0], ref:self.points[1], ref:self.points[2])",
     "store: self.center_point = new", "call self._check_and_sort_points() (assigns attributes)"] := rfl
theorem m_ConvexPolygon__check_and_sort_points_effects_eq :
    m_ConvexPolygon__check_and_sort_points_effects = ["store: self.points = new[new[elem:self.points]]"] := rfl
theorem m_ConvexPolygon_move_effects_eq : m_ConvexPolygon_move_effects =
    ["dropped: in-place effect of point.move(..) on the elements of self.points (dead: self.center_point, self.plane, self.points re-assigned afterwards)",
     "store: self.points = new[new]",
     "store: self.plane = new Plane(ref:self.points[0], ref:self.points[1], ref:self.points[2])",
     "store: self.center_point = new"] := rfl
theorem mpolygon_readonly_effects :
    m_ConvexPolygon__get_center_point_effects = [] ∧ m_ConvexPolygon_segments_effects = [] ∧
    m_ConvexPolygon___contains___effects = [] ∧ m_ConvexPolygon_in__effects = [] ∧ m_ConvexPolygon___eq___effects = [] ∧
    m_ConvexPolygon___neg___effects = [] ∧ m_ConvexPolygon_length_effects = [] := ⟨rfl, rfl, rfl, rfl, rfl, rfl, rfl⟩

theorem mpolygon_complete : mpolygonFailed = [] := rfl

/-- `move` rejects a non-Vector argument (C15) -/
theorem m_ConvexPolygon_move_reject (self : Self) (o : Obj) : m_ConvexPolygon_move self (.obj o) = .error .notImpl := by
  unfold m_ConvexPolygon_move; simp [pyrt]

end G3D.Tie
