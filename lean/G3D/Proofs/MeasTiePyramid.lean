import G3D.Extracted.Mmeas
import G3D.Proofs.MeasTieBase
import G3D.Proofs.MeasTiePolygon
import G3D.Proofs.MeasTiePyramidHeight
/-! # mmeas, `Pyramid.volume`  (C06)
    `G3D.Extracted.m_Pyramid_volume` is regenerated on every run by tools/extract_mmeas.py from the BODY in
    geometry/pyramid.py: `h = self.height(); return 1 / 3 * h * self.convex_polygon.area()` (Python's evaluation order
    `(1/3 · h) · A`).  It is the model's EXACT RATIONAL `heightNum · areaNum / (6 · n·n)`: the two square roots cancel.
    Needs `MeasOK` of the base polygon (through `area`).  Imports the ties of `Pyramid.height` and `ConvexPolygon.area`
    because the Python delegates to them. -/
namespace G3D.MeasTie.Pyramid
open G3D G3D.MeasRt G3D.KTie G3D.Extracted G3D.MeasTie Real

section volume
set_option linter.unusedTactic false in
set_option linter.unreachableTactic false in
/-- the body: `1 / 3 * self.height() * self.convex_polygon.area()`  (closed with `ring`: over ℝ the order of the
    multiplications is immaterial, so `h * A / 3` would pass as well — `1 / 2` would not) -/
theorem m_Pyramid_volume_unfold (M : MPyramid) :
    m_Pyramid_volume M = 1 / 3 * m_Pyramid_height M * m_ConvexPolygon_area M.convex_polygon := by
  simp only [m_Pyramid_volume] <;> ring

/-- **`Pyramid.volume()` is the model's exact rational `heightNum·areaNum / (6·n·n)`** -/
theorem m_Pyramid_volume_tie (f : Polygon) (apex : V3) (h : MeasOK f) :
    m_Pyramid_volume (pyrToM (f, apex)) = ((pyramidVolume f apex : ℚ) : ℝ) := by
  have hn : f.plane.n ≠ V3.zero := Polygon.plane_WF f h.1
  have hN := nn_pos hn
  have hs : √((V3.normSq f.plane.n : ℚ) : ℝ) ≠ 0 := (Real.sqrt_pos.mpr hN).ne'
  rw [m_Pyramid_volume_unfold, m_Pyramid_height_tie f apex hn]
  have ha : m_ConvexPolygon_area (pyrToM (f, apex)).convex_polygon = _ := Polygon.m_ConvexPolygon_area_tie f h
  rw [ha]
  unfold pyramidVolume
  push_cast
  have hss : √((V3.normSq f.plane.n : ℚ) : ℝ) * √((V3.normSq f.plane.n : ℚ) : ℝ) = ((V3.normSq f.plane.n : ℚ) : ℝ) :=
    Real.mul_self_sqrt hN.le
  field_simp
  rw [show (√((V3.normSq f.plane.n : ℚ) : ℝ)) ^ 2 = ((V3.normSq f.plane.n : ℚ) : ℝ) by rw [sq, hss]]
  ring
end volume

#print axioms m_Pyramid_volume_unfold
#print axioms m_Pyramid_volume_tie
end G3D.MeasTie.Pyramid
