import G3D.Props.C01
import G3D.Props.C02

/-! # C12 for the table-driven dispatcher `inter` (what follows from the proved exactness theorems)

    `G3D/Proofs/Algebra.lean` states associativity / idempotence / symmetry for the flat dispatcher
    `interFlat`.  Here the same facts are stated about `inter`, the dispatcher generated from the
    current source, with `None` handled by the model's own `interOpt`; plus the "result lies in both
    operands" fact for flat × ConvexPolygon.

    NOTE: `G3D.Proofs.Algebra` cannot be imported together with `G3D.Model.Inter`: both declare a
    constant `G3D.interOpt` (Algebra.lean: `Option Geo → Geo → Res`; Model/Inter.lean:
    `Option Obj → Option Obj → ResB`).  The statements below are therefore re-derived from
    `Props.C01.inter_flat_exact` (= `interFlat_exact` lifted through `Props.C04.inter_eq_ref`), exactly
    as `interFlat_assoc` is derived from `interFlat_exact`. -/
namespace G3D
open V3

theorem denOptB_map_flat (o : Option Geo) (x : V3) : denOptB (o.map Obj.flat) x ↔ denOpt o x := by
  cases o <;> rfl

/-! ## `None` absorbs -/

/-- `intersection(None, x) = intersection(x, None) = None` (re-export of `Props.C04.interOpt_none`) -/
theorem inter_none_absorbs (x : Option Obj) : interOpt none x = .ok none ∧ interOpt x none = .ok none :=
  Props.C04.interOpt_none x

theorem interOpt_some (a b : Obj) : interOpt (some a) (some b) = inter a b := rfl

/-! ## flat × polygon: the result lies in both operands -/

/-- for a well-formed flat `f` and a Valid polygon `P`, every point of a returned object lies in `f` and in
    the convex hull of the vertices of `P` (and conversely: the returned object is all of `f ∩ hull P`) -/
theorem inter_flat_polygon_vertices_in_both (f : Geo) (hf : f.WF) (P : Polygon) (hv : P.Valid) (r : Obj)
    (h : inter (.flat f) (.polygon P) = .ok (some r)) : ∀ x, ObjDen r x → f.den x ∧ InHull P.pts x := by
  obtain ⟨o, ho, hd⟩ := (Props.C02.inter_flat_polygon_exact f hf P hv).1
  rw [h] at ho; cases ho
  exact fun x hx => (hd x).mp hx

/-- the same with the operands in the other order -/
theorem inter_polygon_flat_vertices_in_both (f : Geo) (hf : f.WF) (P : Polygon) (hv : P.Valid) (r : Obj)
    (h : inter (.polygon P) (.flat f) = .ok (some r)) : ∀ x, ObjDen r x → f.den x ∧ InHull P.pts x := by
  obtain ⟨o, ho, hd⟩ := (Props.C02.inter_flat_polygon_exact f hf P hv).2
  rw [h] at ho; cases ho
  exact fun x hx => (hd x).mp hx

/-- exact form: the returned object denotes precisely `f ∩ hull P` -/
theorem inter_flat_polygon_den_iff (f : Geo) (hf : f.WF) (P : Polygon) (hv : P.Valid) (r : Obj)
    (h : inter (.flat f) (.polygon P) = .ok (some r)) : ∀ x, ObjDen r x ↔ f.den x ∧ InHull P.pts x := by
  obtain ⟨o, ho, hd⟩ := (Props.C02.inter_flat_polygon_exact f hf P hv).1
  rw [h] at ho; cases ho
  exact hd

/-- `None` is returned only when the two operands are disjoint, and the call never raises -/
theorem inter_flat_polygon_none_iff (f : Geo) (hf : f.WF) (P : Polygon) (hv : P.Valid) :
    (∃ o, inter (.flat f) (.polygon P) = .ok o) ∧
    (inter (.flat f) (.polygon P) = .ok none → ∀ x, ¬ (f.den x ∧ InHull P.pts x)) := by
  obtain ⟨o, ho, hd⟩ := (Props.C02.inter_flat_polygon_exact f hf P hv).1
  refine ⟨⟨o, ho⟩, fun h x hx => ?_⟩
  rw [h] at ho; cases ho
  exact (hd x).mpr hx

/-- symmetry, syntactic: both argument orders run the same handler on the same operands -/
theorem inter_flat_polygon_comm (f : Geo) (P : Polygon) : inter (.flat f) (.polygon P) = inter (.polygon P) (.flat f) :=
  Props.C04.inter_comm_of_ne _ _ (by cases f <;> simp [tyOf])

/-! ## associativity, idempotence, symmetry for flats, about `inter` / `interOpt` -/

/-- second step of a chain: a (possibly `None`) well-formed flat result against a flat -/
theorem interOpt_flat_left_exact (o : Option Geo) (hw : ∀ g, o = some g → g.WF) (c : Geo) (hc : c.WF) :
    ∃ l : Option Geo, interOpt (o.map Obj.flat) (some (.flat c)) = .ok (l.map Obj.flat) ∧
      (∀ g, l = some g → g.WF) ∧ ∀ x, denOpt l x ↔ (denOpt o x ∧ c.den x) := by
  cases o with
  | none =>
    exact ⟨none, (Props.C04.interOpt_none _).1, fun g hg => (by cases hg), fun x => (by simp [denOpt])⟩
  | some g => exact Props.C01.inter_flat_exact g c (hw g rfl) hc

theorem interOpt_flat_right_exact (a : Geo) (ha : a.WF) (o : Option Geo) (hw : ∀ g, o = some g → g.WF) :
    ∃ r : Option Geo, interOpt (some (.flat a)) (o.map Obj.flat) = .ok (r.map Obj.flat) ∧
      (∀ g, r = some g → g.WF) ∧ ∀ x, denOpt r x ↔ (a.den x ∧ denOpt o x) := by
  cases o with
  | none =>
    exact ⟨none, (Props.C04.interOpt_none _).2, fun g hg => (by cases hg), fun x => (by simp [denOpt])⟩
  | some g => exact Props.C01.inter_flat_exact a g ha (hw g rfl)

/-- **associativity on the denoted sets, all 125 type triples of flat primitives, for the generated
    dispatcher**: `intersection(intersection(a, b), c)` and `intersection(a, intersection(b, c))` both
    return without error and denote the same point set.  (`interFlat_assoc` of Proofs/Algebra.lean,
    restated for `inter` / `interOpt`.) -/
theorem interFlat_assoc_inter (a b c : Geo) (ha : a.WF) (hb : b.WF) (hc : c.WF) :
    ∃ ab bc l r, inter (.flat a) (.flat b) = .ok ab ∧ inter (.flat b) (.flat c) = .ok bc ∧
      interOpt ab (some (.flat c)) = .ok l ∧ interOpt (some (.flat a)) bc = .ok r ∧
      ∀ x, denOptB l x ↔ denOptB r x := by
  obtain ⟨ab, hab, wab, dab⟩ := Props.C01.inter_flat_exact a b ha hb
  obtain ⟨bc, hbc, wbc, dbc⟩ := Props.C01.inter_flat_exact b c hb hc
  obtain ⟨l, hl, _, dl⟩ := interOpt_flat_left_exact ab wab c hc
  obtain ⟨r, hr, _, dr⟩ := interOpt_flat_right_exact a ha bc wbc
  refine ⟨_, _, _, _, hab, hbc, hl, hr, fun x => ?_⟩
  rw [denOptB_map_flat, denOptB_map_flat, dl x, dr x, dab x, dbc x]
  tauto

/-- stronger form: both bracketings denote exactly `a ∩ b ∩ c`, and all results are flats -/
theorem interFlat_assoc_inter_den (a b c : Geo) (ha : a.WF) (hb : b.WF) (hc : c.WF) :
    ∃ ab bc l r : Option Geo,
      inter (.flat a) (.flat b) = .ok (ab.map Obj.flat) ∧ inter (.flat b) (.flat c) = .ok (bc.map Obj.flat) ∧
      interOpt (ab.map Obj.flat) (some (.flat c)) = .ok (l.map Obj.flat) ∧
      interOpt (some (.flat a)) (bc.map Obj.flat) = .ok (r.map Obj.flat) ∧
      (∀ x, denOpt l x ↔ (a.den x ∧ b.den x ∧ c.den x)) ∧ (∀ x, denOpt r x ↔ (a.den x ∧ b.den x ∧ c.den x)) := by
  obtain ⟨ab, hab, wab, dab⟩ := Props.C01.inter_flat_exact a b ha hb
  obtain ⟨bc, hbc, wbc, dbc⟩ := Props.C01.inter_flat_exact b c hb hc
  obtain ⟨l, hl, _, dl⟩ := interOpt_flat_left_exact ab wab c hc
  obtain ⟨r, hr, _, dr⟩ := interOpt_flat_right_exact a ha bc wbc
  refine ⟨ab, bc, l, r, hab, hbc, hl, hr, fun x => ?_, fun x => ?_⟩
  · rw [dl x, dab x]; tauto
  · rw [dr x, dbc x]

/-- `intersection(a, a)` denotes `a` (for the generated dispatcher) -/
theorem inter_flat_self (a : Geo) (ha : a.WF) :
    ∃ g : Geo, inter (.flat a) (.flat a) = .ok (some (.flat g)) ∧ g.WF ∧ ∀ x, g.den x ↔ a.den x := by
  obtain ⟨o, ho, hw, hd⟩ := Props.C01.inter_flat_exact a a ha ha
  cases o with
  | none =>
    exfalso
    have := (Props.C01.inter_flat_none_iff a a ha ha).mp ho
    cases a with
    | point p => exact this p ⟨rfl, rfl⟩
    | line l => exact this l.sv ⟨⟨0, Props.C01.add_smul_zero _ _⟩, ⟨0, Props.C01.add_smul_zero _ _⟩⟩
    | plane pl =>
      have hp : pl.den pl.p := by show dot pl.n (sub pl.p pl.p) = 0; simp only [V3.dot, V3.sub]; ring
      exact this pl.p ⟨hp, hp⟩
    | seg s =>
      have hp : s.den s.a := ⟨0, le_refl _, by decide, Props.C01.add_smul_zero _ _⟩
      exact this s.a ⟨hp, hp⟩
    | halfline h =>
      have hp : h.den h.p := ⟨0, le_refl _, Props.C01.add_smul_zero _ _⟩
      exact this h.p ⟨hp, hp⟩
  | some g =>
    exact ⟨g, ho, hw g rfl, fun x => by have := hd x; simp only [denOpt] at this; rw [this]; tauto⟩

/-- symmetry on the denoted sets (for the generated dispatcher) -/
theorem inter_flat_symm (a b : Geo) (ha : a.WF) (hb : b.WF) :
    ∃ o1 o2, inter (.flat a) (.flat b) = .ok o1 ∧ inter (.flat b) (.flat a) = .ok o2 ∧
      ∀ x, denOptB o1 x ↔ denOptB o2 x := by
  obtain ⟨o1, h1, _, d1⟩ := Props.C01.inter_flat_exact a b ha hb
  obtain ⟨o2, h2, _, d2⟩ := Props.C01.inter_flat_exact b a hb ha
  exact ⟨_, _, h1, h2, fun x => by rw [denOptB_map_flat, denOptB_map_flat, d1 x, d2 x]; tauto⟩

/-- if `a ⊆ b` (and `a` is non-empty, which every well-formed flat is) then `intersection(a, b)` denotes `a` -/
theorem inter_flat_of_subset (a b : Geo) (ha : a.WF) (hb : b.WF) (hsub : ∀ x, a.den x → b.den x)
    (hne : ∃ x, a.den x) :
    ∃ g : Geo, inter (.flat a) (.flat b) = .ok (some (.flat g)) ∧ ∀ x, g.den x ↔ a.den x := by
  obtain ⟨o, ho, _, hd⟩ := Props.C01.inter_flat_exact a b ha hb
  cases o with
  | none => obtain ⟨x, hx⟩ := hne; exact absurd ((hd x).mpr ⟨hx, hsub x hx⟩) (by simp [denOpt])
  | some g =>
    exact ⟨g, ho, fun x => by
      have := hd x; simp only [denOpt] at this; rw [this]
      exact ⟨fun h => h.1, fun h => ⟨h, hsub x h⟩⟩⟩

/-- mixed chain flat–flat–polygon, left bracketing: `intersection(intersection(a, b), P)` returns without
    error and denotes `a ∩ b ∩ hull P` -/
theorem inter_flat_flat_polygon_left (a b : Geo) (ha : a.WF) (hb : b.WF) (P : Polygon) (hv : P.Valid) :
    ∃ ab l, inter (.flat a) (.flat b) = .ok ab ∧ interOpt ab (some (.polygon P)) = .ok l ∧
      ∀ x, denOptB l x ↔ (a.den x ∧ b.den x ∧ InHull P.pts x) := by
  obtain ⟨ab, hab, wab, dab⟩ := Props.C01.inter_flat_exact a b ha hb
  cases ab with
  | none =>
    refine ⟨_, none, hab, (Props.C04.interOpt_none _).1, fun x => ?_⟩
    have := dab x; simp only [denOpt, false_iff] at this
    simp only [denOptB, false_iff]; tauto
  | some g =>
    obtain ⟨l, hl, dl⟩ := (Props.C02.inter_flat_polygon_exact g (wab g rfl) P hv).1
    refine ⟨_, l, hab, hl, fun x => ?_⟩
    have := dab x; simp only [denOpt] at this
    rw [dl x, this]; tauto

#print axioms inter_none_absorbs
#print axioms inter_flat_polygon_vertices_in_both
#print axioms interFlat_assoc_inter
#print axioms interFlat_assoc_inter_den
#print axioms inter_flat_self
#print axioms inter_flat_symm
#print axioms inter_flat_flat_polygon_left
end G3D
