import G3D.Extracted.Mpolyhedron
/-! # Tie, group `mpolyhedron`, role EFFECTS (C20): provenance pins, dropped in-place effects; by `rfl`. -/
namespace G3D.Tie
open V3 PyRt Extracted

theorem m_Pyramid___init___effects_eq : m_Pyramid___init___effects =
    ["store: self.convex_polygon = param:cp", "store: self.point = param:p"] := rfl

theorem m_ConvexPolyhedron___init___effects_eq : m_ConvexPolyhedron___init___effects =
    ["store: self.convex_polygons = new[copy]", "store: self.point_set = new", "store: self.segment_set = new",
     "store: self.pyramid_set = new", "store: self.center_point = new", "store: self.convex_polygons[..] = new"] := rfl

theorem m_ConvexPolyhedron_move_effects_eq : m_ConvexPolyhedron_move_effects =
    ["dropped: in-place effect of convexpolygon.move(..) on the elements of self.convex_polygons (dead: self.center_point, self.convex_polygons, self.point_set, self.pyramid_set, self.segment_set re-assigned afterwards)",
     "store: self.convex_polygons = new[new]", "store: self.point_set = new", "store: self.segment_set = new",
     "store: self.pyramid_set = new", "store: self.center_point = new",
     "store: self.convex_polygons[..] on a tuple (TypeError)"] := rfl

theorem mpolyhedron_readonly_effects :
    m_ConvexPolyhedron__get_center_point_effects = [] ∧ m_ConvexPolyhedron__check_normal_effects = [] ∧
    m_ConvexPolyhedron__euler_check_effects = [] ∧ m_ConvexPolyhedron___contains___effects = [] := ⟨rfl, rfl, rfl, rfl⟩

end G3D.Tie
