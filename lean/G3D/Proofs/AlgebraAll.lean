import G3D.Proofs.ExactAll
import G3D.Proofs.Equality

/-! # C12 beyond flats: algebraic laws for every operand triple in which no two polyhedra meet directly

Corollaries of `interRef_exactOK` (K0–K3, K6): results are admissible operands again, so intersections chain. -/
namespace G3D
open V3

theorem ResOK.opOK {o : Obj} (h : ResOK (some o)) : OpOK o := by
  cases o with
  | flat g => exact h
  | polygon P => exact h
  | polyhedron _ => exact h.elim

theorem ResOK.notBoth_left {o : Obj} (h : ResOK (some o)) (c : Obj) : NotBothBodies o c := by
  cases o with
  | flat g => trivial
  | polygon P => trivial
  | polyhedron _ => exact h.elim

theorem ResOK.notBoth_right {o : Obj} (h : ResOK (some o)) (a : Obj) : NotBothBodies a o := by
  cases o with
  | flat g => cases a <;> trivial
  | polygon P => cases a <;> trivial
  | polyhedron _ => exact h.elim

/-- result of a first intersection fed into a second one (`None` absorbs) -/
def interOptLB (o : Option Obj) (c : Obj) : ResB :=
  match o with
  | none => .ok none
  | some g => interRef g c

def interOptRB (a : Obj) (o : Option Obj) : ResB :=
  match o with
  | none => .ok none
  | some g => interRef a g

/-- **associativity**: for admissible a, b, c such that neither (a, b) nor (b, c) is a pair of polyhedra, both nestings
    return without error and denote exactly a ∩ b ∩ c -/
theorem interRef_assoc (a b c : Obj) (ha : OpOK a) (hb : OpOK b) (hc : OpOK c)
    (hab : NotBothBodies a b) (hbc : NotBothBodies b c) :
    ∃ ab bc l r, interRef a b = .ok ab ∧ interRef b c = .ok bc ∧
      interOptLB ab c = .ok l ∧ interOptRB a bc = .ok r ∧ ResOK l ∧ ResOK r ∧
      (∀ x, denOptB l x ↔ (ObjDen a x ∧ ObjDen b x ∧ ObjDen c x)) ∧
      (∀ x, denOptB r x ↔ (ObjDen a x ∧ ObjDen b x ∧ ObjDen c x)) := by
  obtain ⟨ab, h1, w1, d1⟩ := interRef_exactOK a b ha hb hab
  obtain ⟨bc, h2, w2, d2⟩ := interRef_exactOK b c hb hc hbc
  have hl : ∃ l, interOptLB ab c = .ok l ∧ ResOK l ∧ ∀ x, denOptB l x ↔ (ObjDen a x ∧ ObjDen b x ∧ ObjDen c x) := by
    cases ab with
    | none =>
      refine ⟨none, rfl, trivial, fun x => ?_⟩
      simp only [denOptB, false_iff]
      rintro ⟨h, h', _⟩; exact (d1 x).mpr ⟨h, h'⟩
    | some g =>
      obtain ⟨l, hl, wl, dl⟩ := interRef_exactOK g c w1.opOK hc (w1.notBoth_left c)
      refine ⟨l, hl, wl, fun x => ?_⟩
      rw [dl x]; have := d1 x; simp only [denOptB] at this; rw [this]; tauto
  have hr : ∃ r, interOptRB a bc = .ok r ∧ ResOK r ∧ ∀ x, denOptB r x ↔ (ObjDen a x ∧ ObjDen b x ∧ ObjDen c x) := by
    cases bc with
    | none =>
      refine ⟨none, rfl, trivial, fun x => ?_⟩
      simp only [denOptB, false_iff]
      rintro ⟨_, h, h'⟩; exact (d2 x).mpr ⟨h, h'⟩
    | some g =>
      obtain ⟨r, hr, wr, dr⟩ := interRef_exactOK a g ha w2.opOK (w2.notBoth_right a)
      refine ⟨r, hr, wr, fun x => ?_⟩
      rw [dr x]; have := d2 x; simp only [denOptB] at this; rw [this]
  obtain ⟨l, hl1, hl2, hl3⟩ := hl
  obtain ⟨r, hr1, hr2, hr3⟩ := hr
  exact ⟨ab, bc, l, r, h1, h2, hl1, hr1, hl2, hr2, hl3, hr3⟩

/-- every admissible operand has a point -/
theorem OpOK.nonempty (a : Obj) (ha : OpOK a) (hnb : NotBothBodies a a) : ∃ x, ObjDen a x := by
  cases a with
  | flat g =>
    cases g with
    | point p => exact ⟨p, rfl⟩
    | line l => exact ⟨l.sv, 0, by apply V3.ext' <;> simp [add, smul]⟩
    | plane pl => exact ⟨pl.p, by simp [ObjDen, Geo.den, Plane.den, dot, sub]⟩
    | seg s => exact ⟨s.a, s.den_endpoints.1⟩
    | halfline h => exact ⟨h.p, 0, le_refl _, by apply V3.ext' <;> simp [add, smul]⟩
  | polygon P =>
    obtain ⟨p0, p1, p2, rest, hp, _, _⟩ := ha
    exact ⟨p0, vertex_in_hull _ _ (by rw [hp]; simp)⟩
  | polyhedron _ => exact hnb.elim

/-- `intersection(a, a)` denotes `a` (flats and polygons) -/
theorem interRef_self (a : Obj) (ha : OpOK a) (hnb : NotBothBodies a a) :
    ∃ g, interRef a a = .ok (some g) ∧ OpOK g ∧ ∀ x, ObjDen g x ↔ ObjDen a x := by
  obtain ⟨o, ho, hw, hd⟩ := interRef_exactOK a a ha ha hnb
  cases o with
  | none => obtain ⟨x, hx⟩ := OpOK.nonempty a ha hnb; exact absurd ((hd x).mpr ⟨hx, hx⟩) (by simp [denOptB])
  | some g => exact ⟨g, ho, hw.opOK, fun x => by have := hd x; simp only [denOptB] at this; rw [this]; tauto⟩

/-- if `a ⊆ b` (a non-empty) then `intersection(a, b)` and `intersection(b, a)` denote `a` -/
theorem interRef_of_subset (a b : Obj) (ha : OpOK a) (hb : OpOK b) (hnb : NotBothBodies a b) (hnb' : NotBothBodies b a)
    (hsub : ∀ x, ObjDen a x → ObjDen b x) (hne : ∃ x, ObjDen a x) :
    (∃ g, interRef a b = .ok (some g) ∧ ∀ x, ObjDen g x ↔ ObjDen a x) ∧
    (∃ g, interRef b a = .ok (some g) ∧ ∀ x, ObjDen g x ↔ ObjDen a x) := by
  obtain ⟨o, ho, _, hd⟩ := interRef_exactOK a b ha hb hnb
  obtain ⟨o', ho', _, hd'⟩ := interRef_exactOK b a hb ha hnb'
  obtain ⟨x0, hx0⟩ := hne
  constructor
  · cases o with
    | none => exact absurd ((hd x0).mpr ⟨hx0, hsub x0 hx0⟩) (by simp [denOptB])
    | some g =>
      exact ⟨g, ho, fun x => by
        have := hd x; simp only [denOptB] at this; rw [this]
        exact ⟨fun h => h.1, fun h => ⟨h, hsub x h⟩⟩⟩
  · cases o' with
    | none => exact absurd ((hd' x0).mpr ⟨hsub x0 hx0, hx0⟩) (by simp [denOptB])
    | some g =>
      exact ⟨g, ho', fun x => by
        have := hd' x; simp only [denOptB] at this; rw [this]
        exact ⟨fun h => h.2, fun h => ⟨hsub x h, h⟩⟩⟩

/-- symmetry on the denoted sets -/
theorem interRef_symm (a b : Obj) (ha : OpOK a) (hb : OpOK b) (hnb : NotBothBodies a b) (hnb' : NotBothBodies b a) :
    ∃ o1 o2, interRef a b = .ok o1 ∧ interRef b a = .ok o2 ∧ ∀ x, denOptB o1 x ↔ denOptB o2 x := by
  obtain ⟨o1, h1, _, d1⟩ := interRef_exactOK a b ha hb hnb
  obtain ⟨o2, h2, _, d2⟩ := interRef_exactOK b a hb ha hnb'
  exact ⟨o1, o2, h1, h2, fun x => by rw [d1 x, d2 x]; tauto⟩

#print axioms interRef_assoc
end G3D
