import G3D.Extracted.Kforms
import G3D.Model.Flat
import G3D.Proofs.Vec
/-! # kforms, constructor pins: the zero-direction test of `Line.__init__`  (C17, C19)
    `G3D.Extracted.impl_*` are regenerated on every run (tools/extract_kforms.py, engine tools/kernels_engine.py): the REAL code is run on
    symbolic numbers, every comparison against the tolerance is recorded (operands and shape) and answered from a scripted
    path.  Each kernel has its own `section`: when the walk of ONE kernel fails the generated file holds only the marker
    `impl_<kernel>_EXTRACTION_FAILED` for it and exactly the theorems of that section stop compiling. -/
namespace G3D.KTie.Kforms
open G3D V3 G3D.Extracted

section lineCtor
theorem lineCtor_tie (p v : V3) : impl_lineCtor_residual0 p v = v.x := by simp [impl_lineCtor_residual0]

theorem lineCtor_path : impl_lineCtor_path = [("abs(R) < eps", false)] := by decide
end lineCtor

section lineCtorReject
/-- the constructor's rejection test, read exactly, is `dv = 0`, the negation of the model's `Line.WF` -/
theorem lineCtorReject_iff (p v : V3) :
    (impl_lineCtorReject_residual0 p v = 0 ∧ impl_lineCtorReject_residual1 p v = 0 ∧ impl_lineCtorReject_residual2 p v = 0)
      ↔ ¬ (⟨p, v⟩ : Line).WF := by
  simp only [impl_lineCtorReject_residual0, impl_lineCtorReject_residual1, impl_lineCtorReject_residual2, Line.WF,
    ne_eq, not_not, sub_zero]
  constructor
  · rintro ⟨h1, h2, h3⟩; apply V3.ext' <;> simp [zero, h1, h2, h3]
  · rintro rfl; simp [zero]

theorem lineCtorReject_path :
    impl_lineCtorReject_path = [("abs(R) < eps", true), ("abs(R) < eps", true), ("abs(R) < eps", true)] := by decide
end lineCtorReject

section combined
/-- (conjunction of `lineCtor_path` and `lineCtorReject_path`, kept under its former name) -/
theorem lineCtor_paths :
    impl_lineCtor_path = [("abs(R) < eps", false)] ∧
    impl_lineCtorReject_path = [("abs(R) < eps", true), ("abs(R) < eps", true), ("abs(R) < eps", true)] :=
  ⟨lineCtor_path, lineCtorReject_path⟩
end combined

end G3D.KTie.Kforms
