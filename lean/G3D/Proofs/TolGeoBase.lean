import G3D.Model.TolGeo
import Mathlib.Tactic.Ring
import Mathlib.Tactic.Linarith
import Mathlib.Tactic.Positivity
import Mathlib.Tactic.FieldSimp

/-! Algebra behind the tolerance predicates: Lagrange / Cauchy–Schwarz for `R3`, the length
    function, the core estimate for `Vector.parallel`, and the effect of `normalized()` on a
    perturbed vector. -/
namespace G3D.TolGeo
open R3

theorem dot_self_nonneg (a : R3) : 0 ≤ dot a a := by
  unfold dot; nlinarith [sq_nonneg a.x, sq_nonneg a.y, sq_nonneg a.z]

theorem len_nonneg (a : R3) : 0 ≤ len a := Real.sqrt_nonneg _

theorem len_mul_self (a : R3) : len a * len a = dot a a :=
  Real.mul_self_sqrt (dot_self_nonneg a)

theorem len_pos {a : R3} (h : 0 < dot a a) : 0 < len a := Real.sqrt_pos.mpr h

/-- `c ≤ |a|` from `c² ≤ a·a` -/
theorem le_len {a : R3} {c : ℝ} (_hc : 0 ≤ c) (h : c * c ≤ dot a a) : c ≤ len a := by
  have h1 : c * c ≤ len a * len a := by rw [len_mul_self]; exact h
  nlinarith [len_nonneg a]

/-- `|a| ≤ c` from `a·a ≤ c²` -/
theorem len_le {a : R3} {c : ℝ} (hc : 0 ≤ c) (h : dot a a ≤ c * c) : len a ≤ c := by
  have h1 : len a * len a ≤ c * c := by rw [len_mul_self]; exact h
  nlinarith [len_nonneg a]

theorem len_lt {a : R3} {c : ℝ} (hc : 0 < c) (h : dot a a < c * c) : len a < c := by
  have h1 : len a * len a < c * c := by rw [len_mul_self]; exact h
  nlinarith [len_nonneg a]

/-- Lagrange's identity `|a|²|b|² − (a·b)² = |a × b|²` -/
theorem lagrange (a b : R3) :
    dot a a * dot b b - (dot a b) ^ 2 = dot (cross a b) (cross a b) := by
  simp only [dot, cross]; ring

theorem dot_sq_le (a b : R3) : (dot a b) ^ 2 ≤ dot a a * dot b b := by
  have := lagrange a b
  have := dot_self_nonneg (cross a b)
  linarith

/-- Cauchy–Schwarz with the code's lengths -/
theorem abs_dot_le (a b : R3) : |dot a b| ≤ len a * len b := by
  have hp : 0 ≤ len a * len b := mul_nonneg (len_nonneg a) (len_nonneg b)
  have hsq : (dot a b) ^ 2 ≤ (len a * len b) ^ 2 := by
    have : (len a * len b) ^ 2 = dot a a * dot b b := by
      rw [← len_mul_self a, ← len_mul_self b]; ring
    rw [this]; exact dot_sq_le a b
  exact abs_le_of_sq_le_sq' hsq hp |> fun h => abs_le.mpr h

theorem cross_sq_le (a b : R3) : dot (cross a b) (cross a b) ≤ dot a a * dot b b := by
  have := lagrange a b
  nlinarith [sq_nonneg (dot a b)]

theorem abs_x_le_len (a : R3) : |a.x| ≤ len a := by
  apply le_len (abs_nonneg _)
  rw [abs_mul_abs_self]; unfold dot; nlinarith [sq_nonneg a.y, sq_nonneg a.z]

theorem abs_y_le_len (a : R3) : |a.y| ≤ len a := by
  apply le_len (abs_nonneg _)
  rw [abs_mul_abs_self]; unfold dot; nlinarith [sq_nonneg a.x, sq_nonneg a.z]

theorem abs_z_le_len (a : R3) : |a.z| ≤ len a := by
  apply le_len (abs_nonneg _)
  rw [abs_mul_abs_self]; unfold dot; nlinarith [sq_nonneg a.x, sq_nonneg a.y]

/-- `a·a ≤ 3c²` when all coordinates are within `c` -/
theorem dot_self_le_of_coord {a : R3} {c : ℝ} (hx : |a.x| ≤ c) (hy : |a.y| ≤ c) (hz : |a.z| ≤ c) :
    dot a a ≤ 3 * (c * c) := by
  have h1 : a.x * a.x ≤ c * c := by
    have := abs_mul_abs_self a.x; nlinarith [abs_nonneg a.x]
  have h2 : a.y * a.y ≤ c * c := by
    have := abs_mul_abs_self a.y; nlinarith [abs_nonneg a.y]
  have h3 : a.z * a.z ≤ c * c := by
    have := abs_mul_abs_self a.z; nlinarith [abs_nonneg a.z]
  unfold dot; linarith

/-- `|a·b| ≤ 3·c·m` when the coordinates of `a` are within `c` and those of `b` within `m` -/
theorem abs_dot_le_of_coord {a b : R3} {c m : ℝ}
    (hx : |a.x| ≤ c) (hy : |a.y| ≤ c) (hz : |a.z| ≤ c)
    (mx : |b.x| ≤ m) (my : |b.y| ≤ m) (mz : |b.z| ≤ m) : |dot a b| ≤ 3 * (c * m) := by
  have hc : 0 ≤ c := le_trans (abs_nonneg _) hx
  have t1 : |a.x * b.x| ≤ c * m := by
    rw [abs_mul]; exact mul_le_mul hx mx (abs_nonneg _) hc
  have t2 : |a.y * b.y| ≤ c * m := by
    rw [abs_mul]; exact mul_le_mul hy my (abs_nonneg _) hc
  have t3 : |a.z * b.z| ≤ c * m := by
    rw [abs_mul]; exact mul_le_mul hz mz (abs_nonneg _) hc
  unfold dot
  have := abs_add_three (a.x * b.x) (a.y * b.y) (a.z * b.z)
  linarith

/-- reverse triangle inequality for the code's length -/
theorem abs_len_sub_len_le (a b : R3) : |len a - len b| ≤ len (sub a b) := by
  apply le_len (abs_nonneg _)
  rw [abs_mul_abs_self]
  have h1 := abs_dot_le a b
  have h2 : dot a b ≤ len a * len b := le_trans (le_abs_self _) h1
  have h3 : dot (sub a b) (sub a b) = dot a a + dot b b - 2 * dot a b := by
    simp only [dot, sub]; ring
  rw [h3, ← len_mul_self a, ← len_mul_self b]
  nlinarith

/-- **core of `Vector.parallel`**: the final comparison holds as soon as
    `|a × b|² < eps · |a|² · |b|`, because
    `|a||b| − |a·b| = |a×b|² / (|a||b| + |a·b|) ≤ |a×b|² / (|a||b|)`. -/
theorem parallel_core {eps : ℝ} {a b : R3} (ha : 0 < dot a a) (hb : 0 < dot b b)
    (h : dot (cross a b) (cross a b) < eps * dot a a * len b) :
    |(|dot a b|) - len a * len b| < eps * len a := by
  have hla := len_pos ha
  have hlb := len_pos hb
  have hp : 0 < len a * len b := mul_pos hla hlb
  have hq : 0 ≤ |dot a b| := abs_nonneg _
  have hqp := abs_dot_le a b
  have hL := lagrange a b
  have hc : (len a * len b) ^ 2 - |dot a b| ^ 2 = dot (cross a b) (cross a b) := by
    rw [sq_abs, ← hL, ← len_mul_self a, ← len_mul_self b]; ring
  rw [abs_sub_comm, abs_of_nonneg (by linarith)]
  have h1 : (len a * len b - |dot a b|) * (len a * len b) < (eps * len a) * (len a * len b) := by
    have e1 : (eps * len a) * (len a * len b) = eps * dot a a * len b := by
      rw [← len_mul_self a]; ring
    rw [e1]
    nlinarith
  exact lt_of_mul_lt_mul_right h1 hp.le

/-- `|a × b|² ≤ 2|e|²|d|² + 2|a|²|f|²` for `a = t·d + e`, `b = d + f`
    (`a × b = e × d + a × f` because `d × d = 0`) -/
theorem cross_perturbed_le (t : ℝ) (d e f : R3) :
    dot (cross (add (smul t d) e) (add d f)) (cross (add (smul t d) e) (add d f))
      ≤ 2 * (dot e e * dot d d) + 2 * (dot (add (smul t d) e) (add (smul t d) e) * dot f f) := by
  set a := add (smul t d) e with ha
  have h1 := cross_sq_le e d
  have h2 := cross_sq_le a f
  have hx : (cross a (add d f)).x = (cross e d).x + (cross a f).x := by
    simp only [ha, cross, add, smul]; ring
  have hy : (cross a (add d f)).y = (cross e d).y + (cross a f).y := by
    simp only [ha, cross, add, smul]; ring
  have hz : (cross a (add d f)).z = (cross e d).z + (cross a f).z := by
    simp only [ha, cross, add, smul]; ring
  have h3 : dot (cross a (add d f)) (cross a (add d f))
      ≤ 2 * dot (cross e d) (cross e d) + 2 * dot (cross a f) (cross a f) := by
    unfold dot; rw [hx, hy, hz]
    nlinarith [sq_nonneg ((cross e d).x - (cross a f).x), sq_nonneg ((cross e d).y - (cross a f).y),
      sq_nonneg ((cross e d).z - (cross a f).z)]
  linarith

/-- `|u + g|² ≥ |u|²/2 − |g|²` -/
theorem dot_add_self_ge (u g : R3) : dot u u / 2 - dot g g ≤ dot (add u g) (add u g) := by
  simp only [dot, add]
  nlinarith [sq_nonneg (u.x + 2 * g.x), sq_nonneg (u.y + 2 * g.y), sq_nonneg (u.z + 2 * g.z)]

/-- `|u + g|² ≥ (3/4)|u|² − 3|g|²` -/
theorem dot_add_self_ge' (u g : R3) : 3 / 4 * dot u u - 3 * dot g g ≤ dot (add u g) (add u g) := by
  simp only [dot, add]
  nlinarith [sq_nonneg (u.x + 4 * g.x), sq_nonneg (u.y + 4 * g.y), sq_nonneg (u.z + 4 * g.z)]

theorem dot_smul_self (t : ℝ) (d : R3) : dot (smul t d) (smul t d) = t ^ 2 * dot d d := by
  simp only [dot, smul]; ring

/-! ### `normalized()` of a perturbed vector -/

/-- scalar step: `|u'/L' − u/L| · L' ≤ 3γ` when `|u' − u| ≤ γ`, `|u| ≤ L`, `|L' − L| ≤ 2γ` -/
theorem scalar_normalized_close {L L' u u' γ : ℝ} (hL : 0 < L) (hL' : 0 < L')
    (hu : |u' - u| ≤ γ) (huL : |u| ≤ L) (hLL : |L' - L| ≤ 2 * γ) :
    |1 / L' * u' - 1 / L * u| * L' ≤ 3 * γ := by
  have hγ : 0 ≤ γ := le_trans (abs_nonneg _) hu
  have e : (1 / L' * u' - 1 / L * u) * L' = (L * (u' - u) + (L - L') * u) / L := by
    field_simp; ring
  have hpos : |L'| = L' := abs_of_pos hL'
  calc |1 / L' * u' - 1 / L * u| * L'
      = |(1 / L' * u' - 1 / L * u) * L'| := by rw [abs_mul, hpos]
    _ = |L * (u' - u) + (L - L') * u| / L := by rw [e, abs_div, abs_of_pos hL]
    _ ≤ (3 * γ * L) / L := by
        apply div_le_div_of_nonneg_right _ hL.le
        have a1 : |L * (u' - u)| ≤ L * γ := by
          rw [abs_mul, abs_of_pos hL]; exact mul_le_mul_of_nonneg_left hu hL.le
        have a2 : |(L - L') * u| ≤ 2 * γ * L := by
          rw [abs_mul, abs_sub_comm]
          exact mul_le_mul hLL huL (abs_nonneg _) (by linarith)
        have := abs_add_le (L * (u' - u)) ((L - L') * u)
        linarith
    _ = 3 * γ := by field_simp

/-- all coordinates of `r' − r` within `γ` ⇒ `| |r'| − |r| | ≤ 2γ` -/
theorem len_close {r r' : R3} {γ : ℝ} (hx : |r'.x - r.x| ≤ γ) (hy : |r'.y - r.y| ≤ γ)
    (hz : |r'.z - r.z| ≤ γ) : |len r' - len r| ≤ 2 * γ := by
  have hγ : 0 ≤ γ := le_trans (abs_nonneg _) hx
  have h1 := abs_len_sub_len_le r' r
  have h2 : len (sub r' r) ≤ 2 * γ := by
    apply len_le (by linarith)
    have := dot_self_le_of_coord (a := sub r' r) (c := γ) hx hy hz
    nlinarith [mul_nonneg hγ hγ]
  linarith

/-- each coordinate of `normalized r' − normalized r`, times `|r'|`, is within `3γ` -/
theorem normalized_close {r r' : R3} {γ : ℝ} (hr : 0 < dot r r) (hr' : 0 < dot r' r')
    (hx : |r'.x - r.x| ≤ γ) (hy : |r'.y - r.y| ≤ γ) (hz : |r'.z - r.z| ≤ γ) :
    |(normalized r').x - (normalized r).x| * len r' ≤ 3 * γ ∧
    |(normalized r').y - (normalized r).y| * len r' ≤ 3 * γ ∧
    |(normalized r').z - (normalized r).z| * len r' ≤ 3 * γ := by
  have hL := len_pos hr
  have hL' := len_pos hr'
  have hLL := len_close hx hy hz
  exact ⟨scalar_normalized_close hL hL' hx (abs_x_le_len r) hLL,
    scalar_normalized_close hL hL' hy (abs_y_le_len r) hLL,
    scalar_normalized_close hL hL' hz (abs_z_le_len r) hLL⟩

/-- a normalised vector has unit length -/
theorem normalized_dot_self {r : R3} (hr : 0 < dot r r) : dot (normalized r) (normalized r) = 1 := by
  have hL := len_pos hr
  have : dot (normalized r) (normalized r) = (1 / len r) ^ 2 * dot r r := dot_smul_self _ _
  rw [this, ← len_mul_self r]; field_simp

theorem normalized_coord_le {r : R3} (hr : 0 < dot r r) :
    |(normalized r).x| ≤ 1 ∧ |(normalized r).y| ≤ 1 ∧ |(normalized r).z| ≤ 1 := by
  have h1 : len (normalized r) = 1 := by
    unfold len; rw [normalized_dot_self hr]; exact Real.sqrt_one
  refine ⟨?_, ?_, ?_⟩
  · have := abs_x_le_len (normalized r); rwa [h1] at this
  · have := abs_y_le_len (normalized r); rwa [h1] at this
  · have := abs_z_le_len (normalized r); rwa [h1] at this

/-! ### perturbed copies -/

/-- every coordinate of `b` differs from that of `a` by at most `δ` -/
def closeBy (δ : ℝ) (a b : R3) : Prop :=
  |b.x - a.x| ≤ δ ∧ |b.y - a.y| ≤ δ ∧ |b.z - a.z| ≤ δ

theorem closeBy.symm {δ : ℝ} {a b : R3} (h : closeBy δ a b) : closeBy δ b a := by
  unfold closeBy at *
  rw [abs_sub_comm a.x, abs_sub_comm a.y, abs_sub_comm a.z]; exact h

theorem closeBy.sub_coord {δ : ℝ} {a b : R3} (h : closeBy δ a b) :
    |(sub b a).x| ≤ δ ∧ |(sub b a).y| ≤ δ ∧ |(sub b a).z| ≤ δ := h

/-- the difference of two δ-perturbed points is a 2δ-perturbed vector -/
theorem closeBy.sub {δ : ℝ} {a a' b b' : R3} (ha : closeBy δ a a') (hb : closeBy δ b b') :
    closeBy (2 * δ) (sub b a) (sub b' a') := by
  obtain ⟨a1, a2, a3⟩ := ha
  obtain ⟨b1, b2, b3⟩ := hb
  refine ⟨?_, ?_, ?_⟩ <;> simp only [R3.sub]
  · have e : b'.x - a'.x - (b.x - a.x) = (b'.x - b.x) - (a'.x - a.x) := by ring
    rw [e]; have := abs_sub (b'.x - b.x) (a'.x - a.x); linarith
  · have e : b'.y - a'.y - (b.y - a.y) = (b'.y - b.y) - (a'.y - a.y) := by ring
    rw [e]; have := abs_sub (b'.y - b.y) (a'.y - a.y); linarith
  · have e : b'.z - a'.z - (b.z - a.z) = (b'.z - b.z) - (a'.z - a.z) := by ring
    rw [e]; have := abs_sub (b'.z - b.z) (a'.z - a.z); linarith

/-- a vector of length ≥ 1/8 keeps length ≥ 1/10 under a perturbation of ≤ 1/100 per coordinate -/
theorem dot_self_ge_of_close {r r' : R3} {γ : ℝ} (hγ : γ ≤ 1 / 100) (h : closeBy γ r r')
    (hr : 1 / 64 ≤ dot r r) : 1 / 100 ≤ dot r' r' := by
  have hγ0 : 0 ≤ γ := le_trans (abs_nonneg _) h.1
  have e : r' = add r (sub r' r) := by ext <;> simp only [add, sub] <;> ring
  have h1 := dot_add_self_ge' r (sub r' r)
  rw [← e] at h1
  obtain ⟨a1, a2, a3⟩ := h.sub_coord
  have h2 := dot_self_le_of_coord a1 a2 a3
  nlinarith

end G3D.TolGeo
