import G3D.Extracted.Mpolyhedron
import G3D.Proofs.MethodsTiePolyhedronShared
import G3D.Proofs.MethodsTiePolyhedronHelpers
/-! # Tie, group `mpolyhedron`, role MOVE (C07; `*_move_reject` C15): `move` = `Polyhedron.move`, unconditional.
    Imports `MethodsTiePolyhedronHelpers` (`move` calls the three helper methods); the final `ConvexPolyhedron(..)` is the model's constructor, so `MethodsTiePolyhedronCtor` is NOT needed.  Conventions, trusted readings and the deviations found: `G3D.Proofs.MethodsTie`, header of `G3D.Model.PyRtM`. -/
set_option linter.unusedSimpArgs false
set_option linter.unusedVariables false
set_option linter.style.nameCheck false
set_option linter.unusedTactic false
set_option linter.unreachableTactic false
namespace G3D.Tie
open V3 PyRt Extracted

theorem m_ConvexPolyhedron_move_eq (B : Polyhedron) (v : V3) :
    m_ConvexPolyhedron_move (Self.ofPolyhedron B) (.vec v) =
      (fun r : Polyhedron × Polyhedron => (Self.ofPolyhedron r.1, Val.obj (.polyhedron r.2))) <$> liftM (B.move v) := by
  unfold m_ConvexPolyhedron_move
  simp only [Self.ofPolyhedron, pyrt, pyFld_some, List.map_map, decide_true, if_true]
  rw [show pyListLit [] = .ok ((fun l : List Polygon => Val.seq (l.map Obj.polygon)) []) from rfl]
  simp only [pyrt]
  rw [forIn_repr (Val.obj ∘ Obj.polygon) (fun l : List Polygon => Val.seq (l.map Obj.polygon)) B.faces _
    (fun f acc => do let Q ← liftC (f.move v).2; pure (ForInStep.yield (acc ++ [Q])))]
  rotate_left
  · intro f _ acc
    cases hq : (f.move v).2 <;> simp [Function.comp, pyMoveRet, hq, liftC, pyListAppend, ForInStep.map']
  rw [forIn_append_mapM, ← liftC_mapM]
  unfold Polyhedron.move
  cases hfs : B.faces.mapM (fun f => (f.move v).2) with
  | error e => simp [liftC, liftC2, liftM]
  | ok fs =>
    simp only [liftC, pyrt, List.nil_append, pyFld_some]
    simp only [List.map_map]
    have h0 : ({ f_center_point := some (Val.obj (ptObj B.center)), f_convex_polygons := some (Val.seq (List.map Obj.polygon fs)), f_point_set := some (Val.set []), f_segment_set := some (Val.set []), f_pyramid_set := some (Val.set []) } : Self) = (fun st : List V3 × List Seg => setVE (moveSelf B fs) st.1 st.2) ([], []) := rfl
    rw [h0]
    rw [forIn_repr (Val.obj ∘ Obj.polygon) (fun st : List V3 × List Seg => setVE (moveSelf B fs) st.1 st.2) fs _ collectStep]
    rotate_left
    · intro f _ st
      exact collect_body_eq _ f st.1 st.2
    rw [collect_forIn]
    simp only [liftC2, pyrt]
    cases collectEdges fs [] with
    | error e => simp [liftC, liftM]
    | ok es =>
      simp only [liftC, pyrt]
      rw [m_ConvexPolyhedron__get_center_point_eq _ (collectVerts fs) rfl]
      by_cases hvz : collectVerts fs = []
      · simp [hvz, liftM]
      have hlen0 : ¬ (collectVerts fs).length = 0 := by simpa using hvz
      simp only [hvz, if_false, pyrt, setVE, moveSelf, pyFld_some, List.length_map, Int.sub_zero, Int.toNat_natCast, hlen0]
      have hinit : ({ f_center_point := some (Val.obj (ptObj (meanV (collectVerts fs)))), f_convex_polygons := some (Val.seq (List.map Obj.polygon fs)), f_point_set := some (Val.ptSet (List.foldl (fun acc f => List.foldl addPt acc f.pts) [] fs)), f_segment_set := some (Val.set (List.map sgObj es)), f_pyramid_set := some (Val.set []) } : Self) = moveRepr fs (collectVerts fs) es (meanV (collectVerts fs)) [] := rfl
      rw [hinit]
      rw [forIn_repr_idx0 (moveRepr fs (collectVerts fs) es (meanV (collectVerts fs))) (fun _ _ => True) _
        (fun f d => do let r ← liftM (moveFace (meanV (collectVerts fs)) f); pure (ForInStep.yield (d ++ [r]))) fs [] trivial]
      rotate_left
      · intro k f hf d _
        exact move_orient_body_eq fs _ es _ k f hf d
      · intro k f hf d d' _ _
        trivial
      rw [forIn_append_mapM, ← liftM_mapM]
      cases hpy : fs.mapM (moveFace (meanV (collectVerts fs))) with
      | error e => cases e <;> simp [liftM]
      | ok pyr =>
        simp only [liftM, pyrt, List.nil_append]
        rw [m_ConvexPolyhedron__check_normal_eq _ fs (meanV (collectVerts fs)) rfl rfl]
        rw [m_ConvexPolyhedron__euler_check_eq _ (fs.map Obj.polygon) ((collectVerts fs).map ptObj) (es.map sgObj) rfl rfl rfl]
        simp only [show (fun f : Polygon => decide (0 ≤ (f.plane.p.sub (meanV (collectVerts fs))).dot f.plane.n)) =
          outward (meanV (collectVerts fs)) from rfl, List.length_map, pyrt, pyNot, Val.truthy]
        cases fs.all (outward (meanV (collectVerts fs)))
        · simp [liftM]
        · by_cases he : ((collectVerts fs).length : Int) - es.length + fs.length = 2
          · simp only [he, moveRepr, pyFld_some, pyrt, pyConvexPolyhedron_polygon]
            cases Polyhedron.mk? fs <;> simp [liftC, liftM, ptObj]
          · simp [he, liftM]

/-- `move` rejects a non-Vector argument (C15) -/
theorem m_ConvexPolyhedron_move_reject (self : Self) (o : Obj) : m_ConvexPolyhedron_move self (.obj o) = .error .notImpl := by
  unfold m_ConvexPolyhedron_move; simp [pyrt]

end G3D.Tie
