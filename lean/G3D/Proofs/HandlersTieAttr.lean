import Lean.Meta.Tactic.Simp.RegisterCommand
/-! the simp set `pyrt`: evaluation rules of the Python runtime on constructor-headed arguments -/
register_simp_attr pyrt
