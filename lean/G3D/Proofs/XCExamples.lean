import G3D.Proofs.XCBody
import G3D.Proofs.XCFlat
import G3D.Proofs.MeasExamples

/-! Non-vacuity of the hypotheses of the C13 constructor theorems (`XCPolygon`, `XCBody`, `XCFlat`), and both sides
    evaluated: a reflection (det σ = −1) with scaling `k = 2` and a translation, applied to a non-symmetric
    quadrilateral in a tilted plane and to a skew pyramid over a non-symmetric quadrilateral whose faces are built by
    `ConvexPolygon` from scrambled point lists. -/
namespace G3D
open V3

/-- `x ↦ 2·(−z, x, y) + (1, −2, 3)`: cyclic permutation with one sign flipped (a reflection), scaling 2, translation -/
def XC.exT : Xf := ⟨⟨.zxy, true, false, false⟩, ⟨1, -2, 3⟩, 2⟩

theorem XC.exT_hyp : XC.exT.s.det = -1 ∧ 0 < XC.exT.k := by decide +kernel

/-! ### Bool certificates -/
def XC.sameSetB (l m : List V3) : Bool := l.all (fun p => decide (p ∈ m)) && m.all (fun p => decide (p ∈ l))

theorem XC.sameSet_of_B (l m : List V3) (h : XC.sameSetB l m = true) : ∀ p, p ∈ l ↔ p ∈ m := by
  simp only [XC.sameSetB, Bool.and_eq_true, List.all_eq_true, decide_eq_true_eq] at h
  exact fun p => ⟨h.1 p, h.2 p⟩

def XC.isOkB (e : Except CErr Polygon) : Bool :=
  match e with
  | .ok _ => true
  | .error _ => false

theorem XC.ok_of_isOkB (e : Except CErr Polygon) (h : XC.isOkB e = true) : e = .ok (Meas.getP e) := by
  cases e with
  | error _ => cases h
  | ok P => rfl

/-- the faces `ConvexPolygon(points, reverse)` builds from a list of (point list, reverse flag) -/
def XC.build (pls : List (List V3 × Bool)) : List Polygon := pls.map (fun pr => Meas.getP (Polygon.mk? pr.1 pr.2))

/-- `pls[i]` lists exactly the vertices of `fs[i]` and the polygon constructor accepts it -/
def XC.inputChkB (fs : List Polygon) (pls : List (List V3 × Bool)) : Bool :=
  fs.length == pls.length &&
  (fs.zip pls).all (fun fp => XC.sameSetB fp.2.1 fp.1.pts && XC.isOkB (Polygon.mk? fp.2.1 fp.2.2))

theorem XC.getP_xf (T : Xf) (hk : 0 < T.k) (i : List V3) (rev : Bool) (h : XC.isOkB (Polygon.mk? i rev) = true) :
    Meas.getP (Polygon.mk? (T.pts i) rev) = XC.img T (Meas.getP (Polygon.mk? i rev)) := by
  rw [XC.mk?_xf_ok T hk i rev _ (XC.ok_of_isOkB _ h)]
  rfl

/-- the checked input satisfies the hypotheses of `XC.polyhedron_ctor_xf`, and building from the transformed point
    lists gives the image records -/
theorem XC.build_hyp (T : Xf) (hk : 0 < T.k) : ∀ (fs : List Polygon) (pls : List (List V3 × Bool)),
    (∀ f ∈ fs, f.Valid) → XC.inputChkB fs pls = true →
    List.Forall₂ Reoriented fs (XC.build pls) ∧ (∀ g ∈ XC.build pls, g.CentreInside) ∧
    XC.build (pls.map (fun pr => (T.pts pr.1, pr.2))) = (XC.build pls).map (XC.img T) := by
  intro fs
  induction fs with
  | nil =>
    intro pls _ h
    cases pls with
    | nil => exact ⟨List.Forall₂.nil, fun g hg => (by cases hg), rfl⟩
    | cons _ _ => simp [XC.inputChkB] at h
  | cons f fs ih =>
    intro pls hv h
    cases pls with
    | nil => simp [XC.inputChkB] at h
    | cons pr pls =>
      simp only [XC.inputChkB, List.length_cons, List.zip_cons_cons, List.all_cons, Bool.and_eq_true,
        beq_iff_eq] at h
      obtain ⟨hlen, ⟨hset, hok⟩, hall⟩ := h
      have hrest : XC.inputChkB fs pls = true := by
        simp only [XC.inputChkB, Bool.and_eq_true, beq_iff_eq]
        exact ⟨by omega, hall⟩
      obtain ⟨h1, h2, h3⟩ := ih pls (fun f' hf' => hv f' (List.mem_cons_of_mem _ hf')) hrest
      obtain ⟨hr, hci⟩ := Reoriented.of_mk? f (hv f (by simp)) pr.1 pr.2 _ (XC.sameSet_of_B _ _ hset)
        (XC.ok_of_isOkB _ hok)
      refine ⟨List.Forall₂.cons hr h1, ?_, ?_⟩
      · intro g hg
        rcases List.mem_cons.mp hg with rfl | hg
        · exact hci
        · exact h2 g hg
      · simp only [XC.build, List.map_cons] at h3 ⊢
        rw [h3, XC.getP_xf T hk pr.1 pr.2 hok]

/-! ### a non-symmetric quadrilateral in the plane `z = x + 2y` (one point listed twice, `reverse = True`) -/
def XC.quad : List V3 := [⟨0,0,0⟩, ⟨3,3,9⟩, ⟨1,0,1⟩, ⟨0,2,4⟩, ⟨3,3,9⟩]

theorem XC.quad_strictConvex : StrictConvexPos (dedupV XC.quad) :=
  Meas.strictConvexPos_of_cert _ [⟨-1,-1,0⟩, ⟨1,1,0⟩, ⟨1,-2,0⟩, ⟨-2,1,0⟩] (by decide +kernel)

theorem XC.quad_ok : Polygon.mk? XC.quad true = .ok (Meas.getP (Polygon.mk? XC.quad true)) := by decide +kernel

/-- the hypotheses of `XC.polygon_ctor_xf` hold: the theorem applies -/
example :
    let T := XC.exT
    let P := Meas.getP (Polygon.mk? XC.quad true)
    ∃ P', Polygon.mk? (T.pts XC.quad) true = .ok P' ∧ P.Valid ∧ P'.Valid ∧
      P'.pts = T.pts P.pts ∧ (∀ p, p ∈ P'.pts ↔ p ∈ T.pts P.pts) ∧
      P'.center = T.pt P.center ∧ P'.plane.p = T.pt P.plane.p ∧
      P'.plane.n = smul (T.k^2) (T.pnrm P.plane.n) ∧
      P'.same (T.polygon P) = true ∧
      (∀ x, InHull P'.pts (T.pt x) ↔ InHull P.pts x) ∧
      (∀ x, P'.contains (T.pt x) = P.contains x) ∧
      P'.areaSq = T.k^4 * P.areaSq ∧ P'.edgeLenSqs = P.edgeLenSqs.map (T.k^2 * ·) :=
  XC.polygon_ctor_xf XC.exT XC.exT_hyp.2 XC.quad true _ XC.quad_strictConvex XC.quad_ok

/-- … and both sides by evaluation: the constructor on the transformed points returns the image record (same vertex
    order; normal `det σ·k²·σ n`, which is NOT the true-vector image `σ n`); area² 16-fold, squared edge lengths
    4-fold, `==` to the transformed polygon, membership of an inner and an outer point of the plane transported -/
example :
    (let T := XC.exT
     let P := Meas.getP (Polygon.mk? XC.quad true)
     let P' := Meas.getP (Polygon.mk? (T.pts XC.quad) true)
     XC.isOkB (Polygon.mk? XC.quad true) && XC.isOkB (Polygon.mk? (T.pts XC.quad) true) &&
       P' == XC.img T P && P'.pts == T.pts P.pts && P.pts.length == 4 && P'.center == T.pt P.center &&
       P'.plane.n == smul 4 (T.pnrm P.plane.n) && P'.plane.n != smul 4 (T.nrm P.plane.n) &&
       P'.areaSq == 16 * P.areaSq && P.areaSq != 0 && P'.edgeLenSqs == P.edgeLenSqs.map (4 * ·) &&
       P'.same (T.polygon P) && P.contains ⟨1,1,3⟩ && P'.contains (T.pt ⟨1,1,3⟩) &&
       !(P.contains ⟨5,5,15⟩) && !(P'.contains (T.pt ⟨5,5,15⟩))) = true := by decide +kernel

/-- the transformed points listed in another order, without the repetition, `reverse = False`: hypotheses of
    `XC.polygon_ctor_xf_sameSet` -/
def XC.quad' : List V3 := [XC.exT.pt ⟨0,2,4⟩, XC.exT.pt ⟨1,0,1⟩, XC.exT.pt ⟨0,0,0⟩, XC.exT.pt ⟨3,3,9⟩]

theorem XC.quad'_ok : Polygon.mk? XC.quad' false = .ok (Meas.getP (Polygon.mk? XC.quad' false)) := by decide +kernel

example :
    let T := XC.exT
    let P := Meas.getP (Polygon.mk? XC.quad true)
    let P' := Meas.getP (Polygon.mk? XC.quad' false)
    P'.Valid ∧ (∀ p, p ∈ P'.pts ↔ p ∈ T.pts P.pts) ∧ P'.center = T.pt P.center ∧
      P'.same (T.polygon P) = true ∧ (∀ x, P'.contains (T.pt x) = P.contains x) ∧
      P'.areaSq = T.k^4 * P.areaSq ∧ List.Perm P'.edgeLenSqs (P.edgeLenSqs.map (T.k^2 * ·)) := by
  obtain ⟨h1, h2, h3, h4, _, h6, h7, h8, _⟩ := XC.polygon_ctor_xf_sameSet XC.exT XC.exT_hyp.2 XC.quad XC.quad' true false
    _ _ XC.quad_strictConvex (XC.sameSet_of_B _ _ (by decide +kernel)) XC.quad_ok XC.quad'_ok
  exact ⟨h1, h2, h3, h4, h6, h7, h8⟩

example :
    (let T := XC.exT
     let P := Meas.getP (Polygon.mk? XC.quad true)
     let P' := Meas.getP (Polygon.mk? XC.quad' false)
     P'.pts != T.pts P.pts && P'.center == T.pt P.center && P'.same (T.polygon P) && P'.areaSq == 16 * P.areaSq &&
       P'.edgeLenSqs.isPerm (P.edgeLenSqs.map (4 * ·)) && P'.contains (T.pt ⟨1,1,3⟩)) = true := by decide +kernel

/-! ### a skew pyramid over a non-symmetric quadrilateral -/
def XC.pa : V3 := ⟨0,0,0⟩
def XC.pb : V3 := ⟨4,0,0⟩
def XC.pc : V3 := ⟨5,3,0⟩
def XC.pd : V3 := ⟨1,2,0⟩
def XC.pe : V3 := ⟨1,1,3⟩

/-- reference body: base seen from below, four side triangles, all outward -/
def XC.pyr : Polyhedron := polyOfCycles
  [ [XC.pa, XC.pd, XC.pc, XC.pb], [XC.pa, XC.pb, XC.pe], [XC.pb, XC.pc, XC.pe], [XC.pc, XC.pd, XC.pe],
    [XC.pd, XC.pa, XC.pe] ]

theorem XC.pyr_validB : XC.pyr.validB = true ∧ XC.pyr.faceLocalB = true := by decide +kernel
theorem XC.pyr_valid : XC.pyr.Valid := XC.pyr.valid_of_validB XC.pyr_validB.1
theorem XC.pyr_faceLocal : XC.pyr.FaceLocal := XC.pyr.faceLocal_of_faceLocalB XC.pyr_validB.2

/-- Euler: 5 − 8 + 5 = 2 -/
theorem XC.pyr_euler :
    ((collectVerts XC.pyr.faces).length : Int) - (edgesOf XC.pyr.faces []).length + XC.pyr.faces.length = 2 := by
  decide +kernel

/-- the faces as POINT LISTS handed to `ConvexPolygon`: reverse order of the faces, scrambled vertex order, one repeated
    point, mixed `reverse` flags -/
def XC.pyrPls : List (List V3 × Bool) :=
  [ ([XC.pe, XC.pd, XC.pa], true), ([XC.pd, XC.pe, XC.pc, XC.pd], false), ([XC.pc, XC.pb, XC.pe], true),
    ([XC.pe, XC.pa, XC.pb], false), ([XC.pc, XC.pa, XC.pb, XC.pd], true) ]

/-- the polygons `ConvexPolygon` builds from them … -/
def XC.pyrInput : List Polygon := XC.build XC.pyrPls
/-- … and from the TRANSFORMED point lists -/
def XC.pyrInput' : List Polygon := XC.build (XC.pyrPls.map (fun pr => (XC.exT.pts pr.1, pr.2)))

theorem XC.pyr_chk : XC.inputChkB XC.pyr.faces.reverse XC.pyrPls = true := by decide +kernel

/-- the hypotheses of `XC.polyhedron_ctor_xf` hold for the pyramid: both constructor calls succeed and the results
    correspond -/
example :
    let T := XC.exT
    ∃ B B', Polyhedron.mk? XC.pyrInput = .ok B ∧ Polyhedron.mk? XC.pyrInput' = .ok B' ∧
      B.Valid ∧ B'.Valid ∧ (∀ x, B'.contains (T.pt x) = B.contains x) ∧
      (∀ x, InHull B'.verts (T.pt x) ↔ InHull B.verts x) ∧ List.Perm B'.verts (T.pts B.verts) ∧
      B'.center = T.pt B.center ∧ List.Perm B'.edgeLenSqs (B.edgeLenSqs.map (T.k^2 * ·)) ∧
      B'.volume = T.k^3 * B.volume ∧
      List.Perm (B'.faces.map Polygon.areaSq) ((B.faces.map Polygon.areaSq).map (T.k^4 * ·)) ∧
      B'.sameB (T.body B) = true := by
  intro T
  have hk := XC.exT_hyp.2
  obtain ⟨hrel, hci, himgEq⟩ := XC.build_hyp XC.exT hk XC.pyr.faces.reverse XC.pyrPls
    (fun f hf => XC.pyr_valid.faces_valid f (List.mem_reverse.mp hf)) XC.pyr_chk
  have hperm : List.Perm XC.pyr.faces.reverse XC.pyr.faces := List.reverse_perm _
  have hin' : XC.pyrInput' = XC.pyrInput.map (XC.img XC.exT) := himgEq
  have himg := XC.forall₂_imgOf_img XC.exT hk _ XC.pyrInput hrel
  obtain ⟨hiff, hres⟩ := XC.polyhedron_ctor_xf XC.exT hk XC.pyr XC.pyr_valid _ XC.pyrInput _ hperm hrel himg
  obtain ⟨B, hB, _⟩ := Polyhedron.mk?_reoriented XC.pyr XC.pyr_valid _ _ hperm hrel XC.pyr_euler
  obtain ⟨B', hB'⟩ := hiff.mpr ⟨B, hB⟩
  obtain ⟨h1, h2, h3, h4, _, h6, h7, _, _, h10, h11, h12⟩ := hres B B' hB hB'
  obtain ⟨hvol, har⟩ := h11 hci (XC.centreInside_map_img XC.exT hk _ hci)
  exact ⟨B, B', hB, by rw [hin']; exact hB', h1, h2, h3, h4, h6, h7, h10, hvol, har, h12 XC.pyr_faceLocal⟩

/-- … and both sides by evaluation: volume 19/2 resp. 8·19/2 = 76, eight edges each, `B' == T.body B`, the vertex
    lists correspond, an inner and an outer point are transported; the stored bodies differ from the reference body
    and `B'` is not literally `T.body B` (other face cycles, rescaled normals) -/
example : (match Polyhedron.mk? XC.pyrInput, Polyhedron.mk? XC.pyrInput' with
    | .ok B, .ok B' =>
      let T := XC.exT
      B.volume == 19/2 && B'.volume == 76 && B.edges.length == 8 && B'.edges.length == 8 &&
        B'.sameB (T.body B) && (T.body B).sameB B' && B.sameB XC.pyr &&
        B'.verts.isPerm (T.pts B.verts) && B'.center == T.pt B.center &&
        B'.edgeLenSqs.isPerm (B.edgeLenSqs.map (4 * ·)) &&
        (B'.faces.map Polygon.areaSq).isPerm ((B.faces.map Polygon.areaSq).map (16 * ·)) &&
        B.contains ⟨1,1,1⟩ && B'.contains (T.pt ⟨1,1,1⟩) && !(B.contains ⟨1,1,4⟩) && !(B'.contains (T.pt ⟨1,1,4⟩)) &&
        !(B'.faces == (T.body B).faces) && !(B.faces == XC.pyr.faces)
    | _, _ => false) = true := by decide +kernel

/-- the image of the reference body is a valid reference body with the same counts -/
example : (XC.exT.body XC.pyr).Valid ∧ (XC.exT.body XC.pyr).FaceLocal :=
  ⟨XC.body_valid XC.exT XC.exT_hyp.2 _ XC.pyr_valid, XC.body_faceLocal XC.exT XC.exT_hyp.2 _ XC.pyr_faceLocal⟩
example : (XC.exT.body XC.pyr).validB = true ∧ (XC.exT.body XC.pyr).faceLocalB = true := by decide +kernel

/-! ### flats -/
example :
    (let T := XC.exT
     Plane.ofPoints (T.pt XC.pa) (T.pt XC.pc) (T.pt XC.pe) == (Plane.ofPoints XC.pa XC.pc XC.pe).map (XC.planeImg T) &&
     Line.ofPoints? (T.pt XC.pa) (T.pt XC.pe) == (Line.ofPoints? XC.pa XC.pe).map T.line &&
     Seg.mk? (T.pt XC.pb) (T.pt XC.pe) == (Seg.mk? XC.pb XC.pe).map T.seg &&
     HalfLine.ofVec? (T.pt XC.pb) (T.dir XC.pe) == (HalfLine.ofVec? XC.pb XC.pe).map T.halfline &&
     Seg.mk? (T.pt XC.pb) (T.pt XC.pb) == .error .value &&
     (match Plane.ofPoints XC.pa XC.pc XC.pe with
      | .ok P => (XC.planeImg T P).eqv (T.plane P) && XC.planeImg T P != T.plane P
      | .error _ => false)) = true := by decide +kernel

end G3D
