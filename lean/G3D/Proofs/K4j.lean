import G3D.Proofs.K4i

/-! # Kernel K4, part j: the faces of a facet body fit together edge to edge

    * vector lemmas (`K4.expand_dot`: Parseval in the orthogonal frame `n, u, n × u`; `K4.cross_zero_of_perp`)
    * polygon lemmas (`K4.third_vertex`, `K4.rev_edge_of_left`, `K4.closedPairs_nodup`)
    * `K4.FacetBody.edge_partner` : across every directed edge `(a, b)` of a face `h1` there is a face `h2` having the
      directed edge `(b, a)`, not coplanar with `h1`
    * `K4.FacetBody.edge_unique` : two faces with a common directed edge have the same hull -/
namespace G3D
open V3

/-! ### vectors -/
theorem K4.expand_dot (n u x y : V3) (hnu : dot n u = 0) :
    normSq n * normSq u * dot x y =
      normSq u * dot x n * dot y n + dot x (cross n u) * dot y (cross n u) + normSq n * dot x u * dot y u := by
  simp only [dot, cross, normSq] at hnu ⊢
  linear_combination ((n.x * u.x + n.y * u.y + n.z * u.z) * (x.x * y.x + x.y * y.y + x.z * y.z)
    - (x.x * u.x + x.y * u.y + x.z * u.z) * (y.x * n.x + y.y * n.y + y.z * n.z)
    - (x.x * n.x + x.y * n.y + x.z * n.z) * (y.x * u.x + y.y * u.y + y.z * u.z)) * hnu

theorem K4.normSq_cross_perp (n u : V3) (hnu : dot n u = 0) : normSq (cross n u) = normSq n * normSq u := by
  rw [lagrange, hnu]; ring

/-- two vectors orthogonal to `u` whose triple product with `u` vanishes are parallel -/
theorem K4.cross_zero_of_perp (n1 n2 u : V3) (hu : u ≠ zero) (h1 : dot n1 u = 0) (h2 : dot n2 u = 0)
    (hD : dot n2 (cross n1 u) = 0) : cross n2 n1 = zero := by
  have e1 : cross (cross n2 n1) u = sub (smul (dot n2 u) n1) (smul (dot n1 u) n2) := by
    apply V3.ext' <;> simp only [cross, sub, smul, dot] <;> ring
  have e2 : dot (cross n2 n1) u = dot n2 (cross n1 u) := by simp only [dot, cross]; ring
  have hz : cross (cross n2 n1) u = zero := by
    rw [e1, h1, h2]; apply V3.ext' <;> simp [sub, smul, zero]
  have hl := lagrange (cross n2 n1) u
  rw [hz, e2, hD] at hl
  have h0 : normSq zero = 0 := by simp [normSq, dot, zero]
  rw [h0] at hl
  have hN := normSq_pos hu
  have : normSq (cross n2 n1) = 0 := by
    have : normSq (cross n2 n1) * normSq u = 0 := by linarith
    exact (mul_eq_zero.mp this).resolve_right (ne_of_gt hN)
  exact normSq_eq_zero.mp this

theorem K4.triple_swap (n1 n2 u : V3) : dot n1 (cross n2 u) = - dot n2 (cross n1 u) := by
  simp only [dot, cross]; ring

theorem K4.side_diff (f : Polygon) (x y : V3) : dot f.plane.n (sub y x) = f.side y - f.side x := by
  simp only [Polygon.side, dot, sub]; ring

theorem K4.side_diff' (f : Polygon) (x y : V3) : dot (sub y x) f.plane.n = f.side y - f.side x := by
  simp only [Polygon.side, dot, sub]; ring

/-- `orient` as a scalar product with the in-plane normal of the edge -/
theorem K4.orient_eq (n a b x : V3) : orient n a b x = dot (sub x a) (cross n (sub b a)) := by
  simp only [orient, dot, cross, sub]; ring

/-! ### polygons -/
theorem K4.consec_fst : ∀ l : List V3, (consec l).map Prod.fst = l.dropLast
  | [] => rfl
  | [_] => rfl
  | a :: b :: l => by
    simp only [consec, List.map_cons, List.dropLast_cons_cons]
    rw [K4.consec_fst (b :: l)]

theorem K4.closedPairs_nodup (l : List V3) (h : l.Nodup) : (closedPairs l).Nodup := by
  cases l with
  | nil => exact List.nodup_nil
  | cons p ps =>
    apply List.Nodup.of_map Prod.fst
    unfold closedPairs
    rw [K4.consec_fst]
    have : (p :: ps ++ [p]).dropLast = p :: ps := by
      have := List.dropLast_concat (l₁ := p :: ps) (b := p)
      simpa using this
    rw [this]; exact h

/-- a valid polygon has a vertex strictly to the left of each of its edges -/
theorem K4.third_vertex (P : Polygon) (hv : P.Valid) (e : V3 × V3) (he : e ∈ closedPairs P.pts) :
    ∃ v ∈ P.pts, 0 < orient P.plane.n e.1 e.2 v := by
  have hnd := hv.nodup
  obtain ⟨p0, p1, p2, rest, hp, _, htp⟩ := hv
  rw [hp] at hnd
  have h01 : p0 ≠ p1 := by intro h; rw [h] at hnd; simp at hnd
  have h02 : p0 ≠ p2 := by intro h; rw [h] at hnd; simp at hnd
  have h12 : p1 ≠ p2 := by intro h; rw [h] at hnd; simp at hnd
  have hex : ∃ v ∈ P.pts, v ≠ e.1 ∧ v ≠ e.2 := by
    rw [hp]
    by_cases a0 : p0 = e.1 ∨ p0 = e.2
    · by_cases a1 : p1 = e.1 ∨ p1 = e.2
      · refine ⟨p2, by simp, ?_, ?_⟩
        · intro h2
          rcases a0 with a0 | a0 <;> rcases a1 with a1 | a1
          · exact h01 (a0.trans a1.symm)
          · exact h02 (a0.trans h2.symm)
          · exact h12 (a1.trans h2.symm)
          · exact h01 (a0.trans a1.symm)
        · intro h2
          rcases a0 with a0 | a0 <;> rcases a1 with a1 | a1
          · exact h01 (a0.trans a1.symm)
          · exact h12 (a1.trans h2.symm)
          · exact h02 (a0.trans h2.symm)
          · exact h01 (a0.trans a1.symm)
      · push Not at a1
        exact ⟨p1, by simp, a1.1, a1.2⟩
    · push Not at a0
      exact ⟨p0, by simp, a0.1, a0.2⟩
  obtain ⟨v, hvm, hv1, hv2⟩ := hex
  rcases closed_edges_pos P.plane.n P.pts htp e he v hvm with h | h | h
  · exact ⟨v, hvm, h⟩
  · exact absurd h hv1
  · exact absurd h hv2

/-- if all vertices lie (weakly) to the left of `b → a`, then `(b, a)` is an edge of the cycle -/
theorem K4.rev_edge_of_left (P : Polygon) (hv : P.Valid) (a b : V3) (ha : a ∈ P.pts) (hb : b ∈ P.pts)
    (hab : a ≠ b) (hall : ∀ v ∈ P.pts, 0 ≤ orient P.plane.n b a v) : (b, a) ∈ closedPairs P.pts := by
  obtain ⟨⟨s, hs⟩, _⟩ := K3.vertex_edges P.pts b hb
  by_cases hsa : s = a
  · rw [← hsa]; exact hs
  · exfalso
    have htp : triplesPos P.plane.n P.pts := by
      obtain ⟨_, _, _, _, _, _, htp⟩ := hv; exact htp
    rcases closed_edges_pos P.plane.n P.pts htp (b, s) hs a ha with h | h | h
    · simp only at h
      rw [orient_swap23] at h
      have := hall s (closedPairs_mem P.pts _ hs).2
      linarith
    · exact hab h
    · exact hsa h.symm

/-! ### two face functionals along a common edge -/

/-- the functional of `f2` at a point `v` of the plane of `f1`, both planes containing `a` and `b` -/
theorem K4.side_via_orient (f1 f2 : Polygon) (a b v : V3) (h1a : f1.side a = 0) (h1b : f1.side b = 0)
    (h2a : f2.side a = 0) (h2b : f2.side b = 0) (h1v : f1.side v = 0) :
    normSq f1.plane.n * normSq (sub b a) * f2.side v =
      dot f2.plane.n (cross f1.plane.n (sub b a)) * orient f1.plane.n a b v := by
  have hnu : dot f1.plane.n (sub b a) = 0 := by rw [K4.side_diff, h1a, h1b]; ring
  have h := K4.expand_dot f1.plane.n (sub b a) f2.plane.n (sub v a) hnu
  rw [K4.side_diff f2 a v, K4.side_diff' f1 a v, K4.side_diff f2 a b, h1a, h2a, h2b, h1v,
    ← K4.orient_eq] at h
  linarith

theorem K4.side_prop_of_cross_zero (f1 f2 : Polygon) (a : V3) (h1a : f1.side a = 0) (h2a : f2.side a = 0)
    (hn1 : f1.plane.n ≠ zero) (hc : cross f2.plane.n f1.plane.n = zero) :
    ∃ l : Rat, f2.plane.n = smul l f1.plane.n ∧ ∀ x, f2.side x = l * f1.side x := by
  have hs := exists_smul_of_cross_zero hn1 hc
  refine ⟨_, hs, fun x => ?_⟩
  rw [K4.side_affine f2 a x, K4.side_affine f1 a x, h1a, h2a]
  generalize dot f2.plane.n f1.plane.n / normSq f1.plane.n = l at hs ⊢
  rw [hs]; simp only [dot, smul]; ring

namespace K4.FacetBody
variable {A B R : Polyhedron}

theorem vertex (hb : K4.FacetBody A B R) (h : Polygon) (hh : h ∈ R.faces) (v : V3) (hv : v ∈ h.pts) :
    K4.InK A B v ∧ h.side v = 0 := ((hb.face h hh).den v).mp (vertex_in_hull _ _ hv)

theorem normal_ne (hb : K4.FacetBody A B R) (h : Polygon) (hh : h ∈ R.faces) : h.plane.n ≠ zero :=
  Polygon.plane_WF h (hb.face h hh).valid

/-- two faces with parallel normals through a common point have the same hull -/
theorem same_of_parallel (hb : K4.FacetBody A B R) (h1 h2 : Polygon) (hh1 : h1 ∈ R.faces) (hh2 : h2 ∈ R.faces)
    (a : V3) (h1a : h1.side a = 0) (h2a : h2.side a = 0) (hc : cross h2.plane.n h1.plane.n = zero) :
    ∀ x, InHull h1.pts x ↔ InHull h2.pts x := by
  obtain ⟨l, hl, hside⟩ := K4.side_prop_of_cross_zero h1 h2 a h1a h2a (hb.normal_ne h1 hh1) hc
  obtain ⟨c, hc'⟩ := hb.interior
  have s1 := hb.side_strict hc' h1 hh1
  have s2 := hb.side_strict hc' h2 hh2
  rw [hside] at s2
  have hl0 : l ≠ 0 := by rintro rfl; simp at s2
  intro x
  rw [(hb.face h1 hh1).den x, (hb.face h2 hh2).den x, hside]
  constructor
  · rintro ⟨hk, h0⟩; exact ⟨hk, by rw [h0]; ring⟩
  · rintro ⟨hk, h0⟩; exact ⟨hk, (mul_eq_zero.mp h0).resolve_left hl0⟩

/-- **uniqueness**: two faces with a common DIRECTED edge have the same hull -/
theorem edge_unique (hb : K4.FacetBody A B R) (h1 h2 : Polygon) (hh1 : h1 ∈ R.faces) (hh2 : h2 ∈ R.faces)
    (e : V3 × V3) (he1 : e ∈ closedPairs h1.pts) (he2 : e ∈ closedPairs h2.pts) :
    ∀ x, InHull h1.pts x ↔ InHull h2.pts x := by
  have hv1 := (hb.face h1 hh1).valid
  have hv2 := (hb.face h2 hh2).valid
  have hne := hv1.edges_distinct e he1
  have m1 := closedPairs_mem h1.pts e he1
  have m2 := closedPairs_mem h2.pts e he2
  have h1a := (hb.vertex h1 hh1 _ m1.1).2
  have h1b := (hb.vertex h1 hh1 _ m1.2).2
  have h2a := (hb.vertex h2 hh2 _ m2.1).2
  have h2b := (hb.vertex h2 hh2 _ m2.2).2
  have hu : sub e.2 e.1 ≠ zero := fun h => hne (sub_eq_zero_iff.mp h).symm
  have hU := normSq_pos hu
  have hN1 := normSq_pos (hb.normal_ne h1 hh1)
  have hN2 := normSq_pos (hb.normal_ne h2 hh2)
  obtain ⟨v1, hv1m, ho1⟩ := K4.third_vertex h1 hv1 e he1
  obtain ⟨v2, hv2m, ho2⟩ := K4.third_vertex h2 hv2 e he2
  have f1 := hb.vertex h1 hh1 v1 hv1m
  have f2 := hb.vertex h2 hh2 v2 hv2m
  have e1 := K4.side_via_orient h1 h2 e.1 e.2 v1 h1a h1b h2a h2b f1.2
  have e2 := K4.side_via_orient h2 h1 e.1 e.2 v2 h2a h2b h1a h1b f2.2
  have i1 := (hb.face h2 hh2).inner v1 f1.1
  have i2 := (hb.face h1 hh1).inner v2 f2.1
  rw [K4.triple_swap] at e2
  have hD : dot h2.plane.n (cross h1.plane.n (sub e.2 e.1)) = 0 := by
    have a1 : dot h2.plane.n (cross h1.plane.n (sub e.2 e.1)) * orient h1.plane.n e.1 e.2 v1 ≤ 0 := by
      rw [← e1]; exact mul_nonpos_of_nonneg_of_nonpos (le_of_lt (mul_pos hN1 hU)) i1
    have a2 : - dot h2.plane.n (cross h1.plane.n (sub e.2 e.1)) * orient h2.plane.n e.1 e.2 v2 ≤ 0 := by
      rw [← e2]; exact mul_nonpos_of_nonneg_of_nonpos (le_of_lt (mul_pos hN2 hU)) i2
    have b1 : dot h2.plane.n (cross h1.plane.n (sub e.2 e.1)) ≤ 0 := by
      by_contra hpos; have := mul_pos (not_le.mp hpos) ho1; linarith
    have b2 : 0 ≤ dot h2.plane.n (cross h1.plane.n (sub e.2 e.1)) := by
      by_contra hneg
      have : 0 < - dot h2.plane.n (cross h1.plane.n (sub e.2 e.1)) := by linarith [not_le.mp hneg]
      have := mul_pos this ho2; linarith
    linarith
  have hc := K4.cross_zero_of_perp h1.plane.n h2.plane.n (sub e.2 e.1) hu
    (by rw [K4.side_diff, h1a, h1b]; ring) (by rw [K4.side_diff, h2a, h2b]; ring) hD
  exact hb.same_of_parallel h1 h2 hh1 hh2 e.1 h1a h2a hc

end K4.FacetBody
#print axioms K4.FacetBody.edge_unique

end G3D
