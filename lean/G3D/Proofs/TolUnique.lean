import G3D.Proofs.Tol
import Mathlib.Algebra.Order.Field.Power

/-! Uniqueness of `SIG_FIGURES = round(log10(1/eps))`, completeness of the window search `sigOf`, and
    full restoration of the configuration by `set_eps(old_eps)`. -/
namespace G3D.Tol

/-- `pow10neg k = 10^(-k)` (integer power) -/
theorem pow10neg_eq_zpow (k : Int) : pow10neg k = (10 : Rat) ^ (-k) := by
  unfold pow10neg pow10
  split
  · rename_i h
    obtain ⟨n, rfl⟩ := Int.eq_ofNat_of_zero_le h
    simp
  · rename_i h
    have h' : 0 ≤ -k := by omega
    obtain ⟨n, hn⟩ := Int.eq_ofNat_of_zero_le h'
    rw [hn]
    simp

/-- `pow10neg` is antitone in its integer argument -/
theorem pow10neg_anti {a b : Int} (h : a ≤ b) : pow10neg b ≤ pow10neg a := by
  rw [pow10neg_eq_zpow, pow10neg_eq_zpow]
  exact zpow_le_zpow_right₀ (by norm_num) (by omega)

theorem pow10neg_strictAnti {a b : Int} (h : a < b) : pow10neg b < pow10neg a := by
  rw [pow10neg_eq_zpow, pow10neg_eq_zpow]
  exact zpow_lt_zpow_right₀ (by norm_num) (by omega)

theorem pow10neg_pos (k : Int) : 0 < pow10neg k := by
  rw [pow10neg_eq_zpow]; positivity

/-- unfolding of `isSigOf` with integer powers: `10^(2k-1) ≤ e⁻² < 10^(2k+1)` -/
theorem isSigOf_iff (e : Rat) (k : Int) :
    isSigOf e k = true ↔ 0 < e ∧ (10 : Rat) ^ (2*k-1) ≤ 1 / (e*e) ∧ 1 / (e*e) < (10 : Rat) ^ (2*k+1) := by
  unfold isSigOf
  simp only [Bool.and_eq_true, decide_eq_true_eq, pow10neg_eq_zpow, neg_neg, and_assoc]

private theorem isSigOf_le (e : Rat) (k k' : Int) (h : isSigOf e k = true) (h' : isSigOf e k' = true) :
    k' ≤ k := by
  rw [isSigOf_iff] at h h'
  by_contra hlt
  have hlt : k < k' := by omega
  have : (10 : Rat) ^ (2*k+1) ≤ (10 : Rat) ^ (2*k'-1) :=
    zpow_le_zpow_right₀ (by norm_num) (by omega)
  linarith [h.2.2, h'.2.1]

/-- the significant-figure count of an eps is unique -/
theorem isSigOf_unique (e : Rat) (k k' : Int) (h : isSigOf e k = true) (h' : isSigOf e k' = true) :
    k = k' :=
  le_antisymm (isSigOf_le e k' k h' h) (isSigOf_le e k k' h h')

/-- the window searched by `sigOf` is exactly `-350 ≤ k < 350` -/
theorem sigOf_window (e : Rat) (k : Int) (h : sigOf e = some k) : -350 ≤ k ∧ k < 350 := by
  unfold sigOf at h
  have hm := List.mem_of_find?_eq_some h
  simp only [List.mem_map, List.mem_range] at hm
  obtain ⟨i, hi, rfl⟩ := hm
  constructor <;> simp only [Int.ofNat_eq_natCast] <;> omega

/-- completeness of the search inside its window -/
theorem sigOf_complete (e : Rat) (k : Int) (h : isSigOf e k = true) (hw : -350 ≤ k ∧ k < 350) :
    sigOf e = some k := by
  cases hs : sigOf e with
  | some k' =>
    have := isSigOf_unique e k' k (sigOf_spec e k' hs) h
    rw [this]
  | none =>
    exfalso
    unfold sigOf at hs
    rw [List.find?_eq_none] at hs
    have hmem : k ∈ (List.range 700).map (fun (i : Nat) => (Int.ofNat i) - 350) := by
      simp only [List.mem_map, List.mem_range]
      refine ⟨(k + 350).toNat, by omega, ?_⟩
      simp only [Int.ofNat_eq_natCast]
      omega
    exact hs k hmem h

/-- `sigOf e = some k` iff `k` is the (unique) sig count and lies in the window -/
theorem sigOf_eq_some_iff (e : Rat) (k : Int) :
    sigOf e = some k ↔ isSigOf e k = true ∧ -350 ≤ k ∧ k < 350 :=
  ⟨fun h => ⟨sigOf_spec e k h, sigOf_window e k h⟩, fun h => sigOf_complete e k h.1 h.2⟩

/-- restoring the previous eps restores the *whole* previous configuration.  (No window hypothesis is
    needed here: `h2` already says the search succeeded, and uniqueness identifies the result.) -/
theorem restore_full (c : Cfg) (hc : Inv c) (e : Rat) (c1 c2 : Cfg) (_h1 : setEps c e = some c1)
    (h2 : setEps c1 c.eps = some c2) : c2 = c := by
  unfold setEps at h2
  cases hs : sigOf c.eps with
  | none => rw [hs] at h2; cases h2
  | some k =>
    rw [hs] at h2
    simp only [Option.map_some, Option.some.injEq] at h2
    subst h2
    have : k = c.sig := isSigOf_unique c.eps k c.sig (sigOf_spec _ _ hs) hc
    subst this
    rfl

/-- with the window hypothesis the restoring call is also guaranteed to succeed -/
theorem restore_succeeds (c : Cfg) (hc : Inv c) (hw : -350 ≤ c.sig ∧ c.sig < 350) (c1 : Cfg) :
    setEps c1 c.eps = some c := by
  unfold setEps
  rw [sigOf_complete c.eps c.sig hc hw]
  rfl

/-- hence the statement in the requested form, with the window -/
theorem restore_full' (c : Cfg) (hc : Inv c) (hw : -350 ≤ c.sig ∧ c.sig < 350) (e : Rat) (c1 c2 : Cfg)
    (_h1 : setEps c e = some c1) (h2 : setEps c1 c.eps = some c2) : c2 = c := by
  rw [restore_succeeds c hc hw c1] at h2
  exact (Option.some.inj h2).symm

/-- on reachable configurations `setEps` is a function of `eps` alone and `sig` is determined by `eps` -/
theorem Inv_sig_determined (c c' : Cfg) (hc : Inv c) (hc' : Inv c') (he : c.eps = c'.eps) : c = c' := by
  have : c.sig = c'.sig := by
    unfold Inv at hc hc'
    rw [he] at hc
    exact isSigOf_unique _ _ _ hc hc'
  cases c; cases c'; simp_all

#print axioms isSigOf_unique
#print axioms sigOf_complete
#print axioms restore_full
#print axioms restore_succeeds
#print axioms Inv_sig_determined
end G3D.Tol
