import G3D.Proofs.Polygon
import Mathlib.Algebra.BigOperators.Group.List.Basic

namespace G3D
open V3

/-! ### every vertex of a positively oriented cycle passes every edge test -/

theorem orient_cyc (n a b c : V3) : orient n a b c = orient n b c a := by
  simp only [orient, dot, cross, sub]; ring

theorem orient_self_left (n a b : V3) : orient n a b a = 0 := by
  simp only [orient, dot, cross, sub]; ring

theorem orient_self_right (n a b : V3) : orient n a b b = 0 := by
  simp only [orient, dot, cross, sub]; ring

theorem consec_sublist : ∀ (m : List V3) (c d : V3), (c, d) ∈ consec m → List.Sublist [c, d] m := by
  intro m
  induction m with
  | nil => intro c d h; simp [consec] at h
  | cons a m ih =>
    intro c d h
    cases m with
    | nil => simp [consec] at h
    | cons b l =>
      simp only [consec, List.mem_cons] at h
      rcases h with h | h
      · cases h
        exact List.Sublist.cons₂ _ (List.Sublist.cons₂ _ (List.nil_sublist _))
      · exact List.Sublist.cons _ (ih c d h)

theorem triplesPos_tail {n a : V3} {l : List V3} (h : triplesPos n (a :: l)) : triplesPos n l := h.2

/-- non-wrapping edges -/
theorem path_edges_nonneg (n : V3) : ∀ (m : List V3), triplesPos n m →
    ∀ e ∈ consec m, ∀ v ∈ m, 0 ≤ orient n e.1 e.2 v := by
  intro m
  induction m with
  | nil => intro _ e he; simp [consec] at he
  | cons a m ih =>
    intro htp e he v hv
    cases m with
    | nil => simp [consec] at he
    | cons b l =>
      simp only [consec, List.mem_cons] at he
      rcases he with rfl | he
      · -- edge (a, b)
        simp only [List.mem_cons] at hv
        rcases hv with rfl | rfl | hv
        · rw [orient_self_left]
        · rw [orient_self_right]
        · exact le_of_lt (htp.1 b v (List.Sublist.cons₂ _ (List.singleton_sublist.mpr hv)))
      · -- a later edge
        rcases List.mem_cons.mp hv with rfl | hv
        · have hs := consec_sublist (b :: l) e.1 e.2 he
          rw [orient_cyc, orient_cyc]
          exact le_of_lt (htp.1 e.1 e.2 hs)
        · exact ih htp.2 e he v hv

theorem consec_append_singleton : ∀ (m : List V3) (x : V3) (hm : m ≠ []),
    consec (m ++ [x]) = consec m ++ [(m.getLast hm, x)] := by
  intro m
  induction m with
  | nil => intro x hm; exact absurd rfl hm
  | cons a m ih =>
    intro x hm
    cases m with
    | nil => simp [consec]
    | cons b l =>
      have := ih x (by simp)
      simp only [List.cons_append, consec] at this ⊢
      rw [this]; simp

theorem orient_same (n a x : V3) : orient n a a x = 0 := by
  simp only [orient, dot, cross, sub]; ring

theorem concat_cases : ∀ (l : List V3), l = [] ∨ ∃ d z, l = d ++ [z] := by
  intro l
  induction l with
  | nil => exact Or.inl rfl
  | cons a l ih =>
    right
    rcases ih with rfl | ⟨d, z, rfl⟩
    · exact ⟨[], a, rfl⟩
    · exact ⟨a :: d, z, rfl⟩

theorem consec_append_singleton' : ∀ (m : List V3) (y x : V3),
    consec (m ++ [y] ++ [x]) = consec (m ++ [y]) ++ [(y, x)] := by
  intro m
  induction m with
  | nil => intro y x; simp [consec]
  | cons a m ih =>
    intro y x
    cases m with
    | nil => simp [consec]
    | cons b l =>
      have := ih y x
      simp only [List.cons_append, consec] at this ⊢
      rw [this]

/-- all vertices pass all (closed) edge tests -/
theorem closed_edges_nonneg (n : V3) (l : List V3) (htp : triplesPos n l) :
    ∀ e ∈ closedPairs l, ∀ v ∈ l, 0 ≤ orient n e.1 e.2 v := by
  cases l with
  | nil => intro e he; simp [closedPairs] at he
  | cons p0 rest =>
    intro e he v hv
    rcases concat_cases rest with rfl | ⟨d, z, rfl⟩
    · have : closedPairs [p0] = [(p0, p0)] := by simp [closedPairs, consec]
      rw [this, List.mem_singleton] at he
      subst he; simp only; rw [orient_same]
    · have hcp : closedPairs (p0 :: (d ++ [z])) = consec (p0 :: (d ++ [z])) ++ [(z, p0)] := by
        simp only [closedPairs]
        have := consec_append_singleton' (p0 :: d) z p0
        simpa using this
      rw [hcp] at he
      rcases List.mem_append.mp he with he | he
      · exact path_edges_nonneg n _ htp e he v hv
      · simp only [List.mem_singleton] at he
        subst he
        simp only
        -- wrap-around edge (z, p0)
        rw [orient_cyc]
        rcases List.mem_cons.mp hv with rfl | hvr
        · rw [orient_same]
        · rcases List.mem_append.mp hvr with hvd | hvz
          · have hs : List.Sublist [v, z] (d ++ [z]) := by
              have : List.Sublist [v] d := List.singleton_sublist.mpr hvd
              simpa using List.Sublist.append this (List.Sublist.refl [z])
            exact le_of_lt (htp.1 v z hs)
          · simp at hvz; subst hvz; rw [orient_self_right]

/-! ### linearity: the hull passes the tests -/
theorem orient_comb (n a b : V3) : ∀ (ws : List Rat) (ps : List V3), ws.length = ps.length →
    orient n a b (add (comb ws ps) (smul (1 - ws.sum) a)) =
      (List.zipWith (fun w p => w * orient n a b p) ws ps).sum := by
  intro ws
  induction ws with
  | nil =>
    intro ps h; cases ps
    · simp [comb, orient, dot, cross, sub, add, smul, zero]
    · simp at h
  | cons w ws ih =>
    intro ps h
    cases ps with
    | nil => simp at h
    | cons p ps =>
      have := ih ps (by simpa using h)
      simp only [List.zipWith_cons_cons, List.sum_cons, comb] at this ⊢
      rw [← this]
      simp only [orient, dot, cross, sub, add, smul]
      ring

theorem dot_comb (n q : V3) : ∀ (ws : List Rat) (ps : List V3), ws.length = ps.length →
    dot n (sub (add (comb ws ps) (smul (1 - ws.sum) q)) q) =
      (List.zipWith (fun w p => w * dot n (sub p q)) ws ps).sum := by
  intro ws
  induction ws with
  | nil =>
    intro ps h; cases ps
    · simp [comb, dot, sub, add, smul, zero]
    · simp at h
  | cons w ws ih =>
    intro ps h
    cases ps with
    | nil => simp at h
    | cons p ps =>
      have := ih ps (by simpa using h)
      simp only [List.zipWith_cons_cons, List.sum_cons, comb] at this ⊢
      rw [← this]
      simp only [dot, sub, add, smul]
      ring

theorem sum_zipWith_nonneg : ∀ (ws : List Rat) (ps : List V3) (f : V3 → Rat),
    (∀ w ∈ ws, 0 ≤ w) → (∀ p ∈ ps, 0 ≤ f p) → 0 ≤ (List.zipWith (fun w p => w * f p) ws ps).sum := by
  intro ws
  induction ws with
  | nil => intro ps f _ _; simp
  | cons w ws ih =>
    intro ps f hw hf
    cases ps with
    | nil => simp
    | cons p ps =>
      simp only [List.zipWith_cons_cons, List.sum_cons]
      have h1 : 0 ≤ w * f p := mul_nonneg (hw w (by simp)) (hf p (by simp))
      have h2 := ih ps f (fun w' h => hw w' (by simp [h])) (fun p' h => hf p' (by simp [h]))
      linarith

theorem sum_zipWith_zero : ∀ (ws : List Rat) (ps : List V3) (f : V3 → Rat),
    (∀ p ∈ ps, f p = 0) → (List.zipWith (fun w p => w * f p) ws ps).sum = 0 := by
  intro ws
  induction ws with
  | nil => intro ps f _; simp
  | cons w ws ih =>
    intro ps f hf
    cases ps with
    | nil => simp
    | cons p ps =>
      simp only [List.zipWith_cons_cons, List.sum_cons]
      rw [hf p (by simp), ih ps f (fun p' h => hf p' (by simp [h]))]; ring

/-- C05 (polygon): for a coplanar, positively oriented vertex cycle, the implementation's test
    (in the plane, on the inner side of every directed edge) holds exactly on the convex hull. -/
theorem polyContains_iff_hull (n pl : V3) (p0 p1 p2 : V3) (rest : List V3)
    (hpl : ∀ p ∈ p0 :: p1 :: p2 :: rest, inPlane n pl p = true)
    (htp : triplesPos n (p0 :: p1 :: p2 :: rest)) (x : V3) :
    polyContains n pl (p0 :: p1 :: p2 :: rest) x = true ↔ InHull (p0 :: p1 :: p2 :: rest) x := by
  constructor
  · intro h
    unfold polyContains at h
    rw [Bool.and_eq_true, List.all_eq_true] at h
    exact poly_hull n pl x h.1 rest p0 p1 p2 hpl htp (fun e he => by simpa using h.2 e he)
  · rintro ⟨ws, hlen, hnn, hsum, rfl⟩
    have hx : comb ws (p0 :: p1 :: p2 :: rest) =
        add (comb ws (p0 :: p1 :: p2 :: rest)) (smul (1 - ws.sum) pl) := by
      rw [hsum]; apply V3.ext' <;> simp [add, smul]
    unfold polyContains
    rw [Bool.and_eq_true, List.all_eq_true]
    constructor
    · simp only [inPlane, beq_iff_eq]
      rw [hx, dot_comb n pl ws _ hlen]
      exact sum_zipWith_zero ws _ (fun p => dot n (sub p pl))
        (fun p hp => by simpa [inPlane] using hpl p hp)
    · intro e he
      simp only [decide_eq_true_eq]
      have hx' : comb ws (p0 :: p1 :: p2 :: rest) =
          add (comb ws (p0 :: p1 :: p2 :: rest)) (smul (1 - ws.sum) e.1) := by
        rw [hsum]; apply V3.ext' <;> simp [add, smul]
      rw [hx', orient_comb n e.1 e.2 ws _ hlen]
      exact sum_zipWith_nonneg ws _ (fun p => orient n e.1 e.2 p) hnn
        (fun p hp => closed_edges_nonneg n _ htp e he p hp)
#print axioms polyContains_iff_hull
end G3D
