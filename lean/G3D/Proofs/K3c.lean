import G3D.Proofs.K3b
import G3D.Proofs.SortValid
import G3D.Proofs.BodySoundSets

/-! # Kernel K3, part c: Plane × ConvexPolyhedron — the section is the hull of the edge hits

    `a ∩ K = hull (hits)`, where the hits are the Point results of `intersection(a, edge)` over the listed edges
    (`K3.section_hull`), every hit is a strictly exposed point of the section (`K3.hits_strictConvexPos`), hence the
    constructor `ConvexPolygon(hits)` succeeds (K6) and `interPlanePolyhedron` is exact. -/
namespace G3D
open V3

/-- every edge of every face is listed (in one of the two directions) -/
def Polyhedron.EdgesComplete (B : Polyhedron) : Prop :=
  ∀ f ∈ B.faces, ∀ e ∈ closedPairs f.pts, ∃ s ∈ B.edges, (s.a = e.1 ∧ s.b = e.2) ∨ (s.a = e.2 ∧ s.b = e.1)

/-! ### small facts -/
theorem interPlaneSeg_cases (a : Plane) (s : Seg) (o : Option Geo) (h : interPlaneSeg a s = .ok o) :
    o = none ∨ (∃ q, o = some (.point q)) ∨ (o = some (.seg s) ∧ a.containsLine s.line = true) := by
  unfold interPlaneSeg at h
  cases hr : interLinePlane s.line a with
  | error e => rw [hr] at h; cases h
  | ok o' =>
    rw [hr] at h
    rcases interLinePlane_shape s.line a o' hr with rfl | ⟨q, rfl⟩ | ⟨rfl, hc⟩
    · cases h; exact Or.inl rfl
    · simp only [interPointSeg] at h
      cases h
      split
      · exact Or.inr (Or.inl ⟨q, rfl⟩)
      · exact Or.inl rfl
    · cases h; exact Or.inr (Or.inr ⟨rfl, hc⟩)

theorem interPlaneSeg_IsPS (a : Plane) (s : Seg) (o : Option Geo) (h : interPlaneSeg a s = .ok o) : IsPS o := by
  rcases interPlaneSeg_cases a s o h with rfl | ⟨q, rfl⟩ | ⟨rfl, _⟩ <;> trivial

theorem K3.consec_succ (z : V3) : ∀ (l : List V3) (u : V3), u ∈ l → ∃ v, (u, v) ∈ consec (l ++ [z])
  | [], u, h => by cases h
  | [a], u, h => by
    simp only [List.mem_singleton] at h; subst h
    exact ⟨z, by simp [consec]⟩
  | a :: b :: l, u, h => by
    rcases List.mem_cons.mp h with rfl | h
    · exact ⟨b, by simp [consec]⟩
    · obtain ⟨v, hv⟩ := K3.consec_succ z (b :: l) u h
      exact ⟨v, by simp only [List.cons_append, consec, List.mem_cons] at hv ⊢; exact Or.inr hv⟩

theorem K3.consec_pred : ∀ (l : List V3) (z u : V3), u ∈ l → ∃ u', (u', u) ∈ consec (z :: l)
  | [], _, u, h => by cases h
  | a :: l, z, u, h => by
    rcases List.mem_cons.mp h with rfl | h
    · exact ⟨z, by simp [consec]⟩
    · obtain ⟨u', hu'⟩ := K3.consec_pred l a u h
      exact ⟨u', by simp only [consec, List.mem_cons]; exact Or.inr hu'⟩

/-- every vertex of a cycle is the start of an edge and the end of an edge -/
theorem K3.vertex_edges (l : List V3) (u : V3) (hu : u ∈ l) :
    (∃ v, (u, v) ∈ closedPairs l) ∧ (∃ u', (u', u) ∈ closedPairs l) := by
  cases l with
  | nil => cases hu
  | cons p ps =>
    constructor
    · obtain ⟨v, hv⟩ := K3.consec_succ p (p :: ps) u hu
      exact ⟨v, by simpa [closedPairs] using hv⟩
    · have hu' : u ∈ ps ++ [p] := by
        rcases List.mem_cons.mp hu with rfl | h
        · simp
        · simp [h]
      obtain ⟨u', hu''⟩ := K3.consec_pred (ps ++ [p]) p u hu'
      exact ⟨u', by simpa [closedPairs] using hu''⟩

/-- a non-zero vector orthogonal to `n` -/
def K3.perp (n : V3) : V3 := if n.x = 0 ∧ n.y = 0 then ⟨1, 0, 0⟩ else ⟨-n.y, n.x, 0⟩

theorem K3.perp_spec (n : V3) : dot n (K3.perp n) = 0 ∧ K3.perp n ≠ zero := by
  unfold K3.perp
  by_cases h : n.x = 0 ∧ n.y = 0
  · rw [if_pos h]
    refine ⟨by simp [dot, h.1], ?_⟩
    intro e; have := congrArg V3.x e; simp [zero] at this
  · rw [if_neg h]
    refine ⟨by simp only [dot]; ring, ?_⟩
    intro e
    have hx := congrArg V3.x e; have hy := congrArg V3.y e
    simp only [zero] at hx hy
    exact h ⟨hy, by linarith⟩

theorem K3.inHull_nil (x : V3) : ¬ InHull [] x := by
  rintro ⟨ws, hlen, _, hsum, _⟩
  have : ws = [] := List.length_eq_zero_iff.mp (by simpa using hlen)
  rw [this] at hsum; simp at hsum

theorem K3.inHull_singleton (p x : V3) : InHull [p] x ↔ x = p := by
  constructor
  · rintro ⟨ws, hlen, _, hsum, rfl⟩
    match ws, hlen with
    | [w], _ =>
      simp only [List.sum_cons, List.sum_nil, add_zero] at hsum
      rw [hsum]; apply V3.ext' <;> simp [comb, add, smul, zero]
  · rintro rfl; exact vertex_in_hull _ _ (by simp)

theorem K3.inHull_pair (p q x : V3) : InHull [p, q] x ↔ Between p q x := by
  constructor
  · rintro ⟨ws, hlen, hnn, hsum, rfl⟩
    match ws, hlen with
    | [w1, w2], _ =>
      simp only [List.sum_cons, List.sum_nil, add_zero] at hsum
      have h1 : 0 ≤ w1 := hnn w1 (by simp)
      have h2 : 0 ≤ w2 := hnn w2 (by simp)
      refine ⟨w2, h2, by linarith, ?_⟩
      have : w1 = 1 - w2 := by linarith
      rw [this]; apply V3.ext' <;> simp only [comb, add, smul, sub, zero] <;> ring
  · intro h; exact between_in_hull (l := [p, q]) (by simp) (by simp) h

theorem K3.inHull_perm {l l' : List V3} (h : List.Perm l l') (x : V3) : InHull l x ↔ InHull l' x :=
  ⟨fun hx => hx.mono (fun _ hp => h.subset hp), fun hx => hx.mono (fun _ hp => h.symm.subset hp)⟩

/-- three vectors orthogonal to a non-zero vector are linearly dependent -/
theorem K3.trip_zero_of_perp (n u v w : V3) (hn : n ≠ zero) (hu : dot n u = 0) (hv : dot n v = 0)
    (hw : dot n w = 0) : dot (cross u v) w = 0 := by
  have hN := normSq_pos hn
  have e : dot (cross u v) w * normSq n = dot n u * dot n (cross v w)
      + dot n v * dot n (cross w u) + dot n w * dot n (cross u v) := by
    simp only [normSq, dot, cross]; ring
  rw [hu, hv, hw] at e
  have : dot (cross u v) w * normSq n = 0 := by rw [e]; ring
  rcases mul_eq_zero.mp this with h | h
  · exact h
  · exact absurd h (ne_of_gt hN)

theorem K3.den_sub_perp (a : Plane) {x y : V3} (hx : a.den x) (hy : a.den y) : dot a.n (sub y x) = 0 := by
  simp only [Plane.den, dot, sub] at hx hy ⊢; linarith

theorem K3.den_pt (a : Plane) {y d : V3} (hy : a.den y) (hd : dot a.n d = 0) (t : Rat) : a.den (pt y d t) := by
  simp only [Plane.den, dot, sub, pt, add, smul] at hy hd ⊢
  linear_combination hy + t * hd


/-! ### chord of a polygon along a line of its plane: both ends lie on edges -/
theorem K3.neg_ne_zero {d : V3} (hd : d ≠ zero) : neg d ≠ zero := by
  intro h; apply hd
  have hx := congrArg V3.x h; have hy := congrArg V3.y h; have hz := congrArg V3.z h
  simp only [neg, zero] at hx hy hz
  apply V3.ext' <;> simp only [zero] <;> linarith

theorem K3.polygon_chord (f : Polygon) (hv : f.Valid) (z d : V3) (hz : InHull f.pts z) (hd : d ≠ zero)
    (hdn : dot f.plane.n d = 0) :
    ∃ t0 t1 : Rat, t0 ≤ 0 ∧ 0 ≤ t1 ∧ (∃ e ∈ closedPairs f.pts, Between e.1 e.2 (pt z d t0)) ∧
      (∃ e ∈ closedPairs f.pts, Between e.1 e.2 (pt z d t1)) := by
  have hzc : f.contains z = true := (Polygon.contains_iff f hv z).mpr hz
  have hzin := f.inPlane_of_contains z hzc
  obtain ⟨_, _, _, _, _, _, htp⟩ := id hv
  set n := f.plane.n with hn
  set C : List (Rat × Rat) := (closedPairs f.pts).map
    (fun e => (orient n e.1 e.2 z, dot n (cross (sub e.2 e.1) d))) with hC
  have hfeas : ∀ t, Feas C t ↔ InHull f.pts (pt z d t) := by
    intro t
    rw [← Polygon.contains_iff f hv, f.contains_iff_edges _ (inPlane_pt hzin hdn t)]
    unfold Feas
    rw [hC]
    constructor
    · intro h e he
      have := h _ (List.mem_map.mpr ⟨e, he, rfl⟩)
      simp only at this
      rw [orient_pt]; exact this
    · intro h c' hc'
      obtain ⟨e, he, rfl⟩ := List.mem_map.mp hc'
      have := h e he
      rw [orient_pt] at this
      exact this
  have hpt0 : pt z d 0 = z := K3.pt_zero z d
  have hF0 : Feas C 0 := (hfeas 0).mpr (by rw [hpt0]; exact hz)
  have hneg : ∃ c ∈ C, c.2 < 0 := by
    by_contra hcon
    push Not at hcon
    apply hull_ray_absurd f.pts z d hd
    intro t ht
    rw [← hfeas]
    intro c hc
    have h1 := hF0 c hc
    have h2 := mul_nonneg (hcon c hc) ht
    linarith
  have hpos : ∃ c ∈ C, 0 < c.2 := by
    by_contra hcon
    push Not at hcon
    apply hull_ray_absurd f.pts z (neg d) (K3.neg_ne_zero hd)
    intro t ht
    have e : pt z (neg d) t = pt z d (-t) := by apply V3.ext' <;> simp only [pt, add, smul, neg] <;> ring
    rw [e, ← hfeas]
    intro c hc
    have h1 := hF0 c hc
    have h2 := mul_nonneg (neg_nonneg.mpr (hcon c hc)) ht
    nlinarith
  obtain ⟨thi, hthi, hmax, c1, hc1, _, hc1t⟩ := lp_hi C 0 hF0 hneg
  obtain ⟨tlo, htlo, hmin, c2, hc2, _, hc2t⟩ := lp_lo C 0 hF0 hpos
  rw [hC] at hc1 hc2
  obtain ⟨e1, he1, rfl⟩ := List.mem_map.mp hc1
  obtain ⟨e2, he2, rfl⟩ := List.mem_map.mp hc2
  simp only at hc1t hc2t
  refine ⟨tlo, thi, hmin 0 hF0, hmax 0 hF0, ⟨e2, he2, ?_⟩, ⟨e1, he1, ?_⟩⟩
  · exact on_edge_of_tight n f.pts htp e2 he2 _ ((hfeas tlo).mp htlo) (by rw [orient_pt]; exact hc2t)
  · exact on_edge_of_tight n f.pts htp e1 he1 _ ((hfeas thi).mp hthi) (by rw [orient_pt]; exact hc1t)

/-- the neighbouring half-space restricted to the plane of `f`: tight on the neighbour ⇒ on the carrier of the edge
    (equality case of `edge_of_neighbour`) -/
theorem K3.edge_of_neighbour_eq (n pl a b v y q m : V3) (hn : n ≠ zero)
    (ha : inPlane n pl a = true) (hb : inPlane n pl b = true) (hv : inPlane n pl v = true)
    (hy : inPlane n pl y = true)
    (hGa : dot (sub a q) m = 0) (hGb : dot (sub b q) m = 0)
    (hGv : dot (sub v q) m ≠ 0) (hGy : dot (sub y q) m = 0) :
    orient n a b y = 0 := by
  have hN := normSq_pos hn
  have nu : dot n (sub b a) = 0 := inPlane_diff ha hb
  have nw : dot n (sub v a) = 0 := inPlane_diff ha hv
  have nz : dot n (sub y a) = 0 := inPlane_diff ha hy
  have mu : dot m (sub b a) = 0 := by
    have : dot m (sub b a) = dot (sub b q) m - dot (sub a q) m := by simp only [dot, sub]; ring
    rw [this, hGa, hGb]; ring
  have eGv : dot (sub v q) m = dot m (sub v a) := by
    have : dot (sub v q) m = dot m (sub v a) + dot (sub a q) m := by simp only [dot, sub]; ring
    rw [this, hGa]; ring
  have eGy : dot (sub y q) m = dot m (sub y a) := by
    have : dot (sub y q) m = dot m (sub y a) + dot (sub a q) m := by simp only [dot, sub]; ring
    rw [this, hGa]; ring
  have hT : trip (sub b a) (sub v a) (sub y a) = 0 := by
    have e : trip (sub b a) (sub v a) (sub y a) * normSq n = dot n (sub b a) * dot n (cross (sub v a) (sub y a))
        + dot n (sub v a) * dot n (cross (sub y a) (sub b a))
        + dot n (sub y a) * dot n (cross (sub b a) (sub v a)) := by
      simp only [trip, normSq, dot, cross, sub]; ring
    rw [nu, nw, nz] at e
    have : trip (sub b a) (sub v a) (sub y a) * normSq n = 0 := by rw [e]; ring
    rcases mul_eq_zero.mp this with h | h
    · exact h
    · exact absurd h (ne_of_gt hN)
  have id4 : orient n a b y * dot m (sub v a) - orient n a b v * dot m (sub y a) =
      - trip (sub b a) (sub v a) (sub y a) * dot m n + dot n (cross (sub v a) (sub y a)) * dot m (sub b a) := by
    simp only [trip, orient, dot, cross, sub]; ring
  rw [hT, mu, ← eGy, hGy, ← eGv] at id4
  have : orient n a b y * dot (sub v q) m = 0 := by linarith
  exact (mul_eq_zero.mp this).resolve_right hGv

/-! ### the generic branch of the plane handler -/

/-- the data of the generic branch: no face lies in the plane `a`, `out` is the set of Point hits on the edges -/
structure K3.Section (a : Plane) (B : Polyhedron) (out : List V3) : Prop where
  aWF : a.WF
  proper : B.Proper
  edgeWF : ∀ s ∈ B.edges, s.WF
  real : B.EdgesReal
  complete : B.EdgesComplete
  noFace : ∀ f ∈ B.faces, f.plane.eqv a = false
  hits : ∀ p, p ∈ out ↔ ∃ s ∈ B.edges, interPlaneSeg a s = .ok (some (.point p))

namespace K3.Section
variable {a : Plane} {B : Polyhedron} {out : List V3}

theorem seg_den_edge (s : Seg) (e : V3 × V3) (hse : (s.a = e.1 ∧ s.b = e.2) ∨ (s.a = e.2 ∧ s.b = e.1)) (y : V3) :
    s.den y ↔ Between e.1 e.2 y := by
  rcases hse with ⟨h1, h2⟩ | ⟨h1, h2⟩
  · unfold Seg.den Between; rw [h1, h2]
  · rw [Between_swap]; unfold Seg.den Between; rw [h1, h2]

/-- a point of `a` on a listed edge is a hit, or the whole edge lies in `a` -/
theorem edge_mem (S : K3.Section a B out) (s : Seg) (hs : s ∈ B.edges) (w : V3) (ha : a.den w) (hw : s.den w) :
    w ∈ out ∨ (a.den s.a ∧ a.den s.b) := by
  have hsW := S.edgeWF s hs
  obtain ⟨o, ho, _, hd⟩ := interPlaneSeg_exact a s hsW
  rcases interPlaneSeg_cases a s o ho with rfl | ⟨q, rfl⟩ | ⟨rfl, hc⟩
  · exact absurd ((hd w).mpr ⟨ha, hw⟩) (by simp [denOpt])
  · have : w = q := (hd w).mpr ⟨ha, hw⟩
    subst this
    exact Or.inl ((S.hits w).mpr ⟨s, hs, ho⟩)
  · right
    have h := (Plane.containsLine_iff a s.line).mp hc
    exact ⟨h _ (s.den_sub_line hsW _ s.den_a), h _ (s.den_sub_line hsW _ s.den_b)⟩

/-- every hit lies in the plane and in the body -/
theorem hit_mem (S : K3.Section a B out) (p : V3) (hp : p ∈ out) : a.den p ∧ B.contains p = true := by
  obtain ⟨s, hs, hsp⟩ := (S.hits p).mp hp
  have := (interPlaneSeg_exact a s (S.edgeWF s hs)).point_mem p hsp
  refine ⟨this.1, ?_⟩
  obtain ⟨f, hf, e, he, hse⟩ := S.real s hs
  have hm := closedPairs_mem f.pts e he
  exact S.proper.face_sub f hf p (between_in_hull hm.1 hm.2 ((seg_den_edge s e hse p).mp this.2))

theorem plane_den_of_face (S : K3.Section a B out) (f : Polygon) (hf : f ∈ B.faces) (x : V3) (hx : x ∈ f.pts) :
    f.plane.den x := by
  obtain ⟨_, _, _, _, _, hpl, _⟩ := S.proper.core.faces_valid f hf
  have := hpl x hx
  simp only [G3D.inPlane, beq_iff_eq] at this
  exact this

/-- three non-collinear vertices of a face do not all lie in `a` -/
theorem not_three (S : K3.Section a B out) (f : Polygon) (hf : f ∈ B.faces) (p0 p1 p2 : V3)
    (h0 : p0 ∈ f.pts) (h1 : p1 ∈ f.pts) (h2 : p2 ∈ f.pts) (hw : cross (sub p1 p0) (sub p2 p0) ≠ zero)
    (a0 : a.den p0) (a1 : a.den p1) (a2 : a.den p2) : False := by
  have fW := Polygon.plane_WF f (S.proper.core.faces_valid f hf)
  have hpar := parallel_normals_of_three f.plane a hw (S.plane_den_of_face f hf _ h0)
    (S.plane_den_of_face f hf _ h1) (S.plane_den_of_face f hf _ h2) a0 a1 a2
  have := Plane.eqv_of_parallel_common f.plane a fW S.aWF hpar p0 (S.plane_den_of_face f hf _ h0) a0
  rw [S.noFace f hf] at this; cases this

/-- a vertex of a face lying in `a` is a hit -/
theorem vertex_hit (S : K3.Section a B out) (f : Polygon) (hf : f ∈ B.faces) (u : V3) (hu : u ∈ f.pts)
    (hau : a.den u) : u ∈ out := by
  have hv := S.proper.core.faces_valid f hf
  obtain ⟨⟨v, huv⟩, ⟨u', hu'u⟩⟩ := K3.vertex_edges f.pts u hu
  obtain ⟨s1, hs1, hse1⟩ := S.complete f hf (u, v) huv
  obtain ⟨s2, hs2, hse2⟩ := S.complete f hf (u', u) hu'u
  simp only at hse1 hse2
  have d1 : s1.den u := (seg_den_edge s1 (u, v) hse1 u).mpr ⟨0, le_refl _, by norm_num, by
    apply V3.ext' <;> simp [add, smul, sub]⟩
  have d2 : s2.den u := (seg_den_edge s2 (u', u) hse2 u).mpr ⟨1, by norm_num, le_refl _, by
    apply V3.ext' <;> simp [add, smul, sub]⟩
  rcases S.edge_mem s1 hs1 u hau d1 with h | ⟨ha1, hb1⟩
  · exact h
  rcases S.edge_mem s2 hs2 u hau d2 with h | ⟨ha2, hb2⟩
  · exact h
  exfalso
  have hav : a.den v := by
    rcases hse1 with ⟨_, h2⟩ | ⟨h1, _⟩
    · rw [← h2]; exact hb1
    · rw [← h1]; exact ha1
  have hau' : a.den u' := by
    rcases hse2 with ⟨h1, _⟩ | ⟨_, h2⟩
    · rw [← h1]; exact ha2
    · rw [← h2]; exact hb2
  have hmv := (closedPairs_mem f.pts _ huv).2
  have hmu' := (closedPairs_mem f.pts _ hu'u).1
  obtain ⟨p0, p1, p2, rest, hp, _, htp⟩ := id hv
  have hpos : 0 < orient f.plane.n u' u v := by
    rcases closed_edges_pos f.plane.n f.pts htp (u', u) hu'u v hmv with h | h | h
    · exact h
    · exfalso
      simp only at h
      rw [h] at huv
      exact Polygon.no_rev_edge f hv (u', u) hu'u huv
    · exfalso
      simp only at h
      rw [h] at huv
      have := edge_ne f.plane.n p0 p1 p2 rest (by rw [← hp]; exact htp) (u, u) (by rw [← hp]; exact huv)
      exact this rfl
  refine S.not_three f hf u' u v hmu' hu hmv ?_ hau' hau hav
  intro hz
  unfold orient at hpos
  rw [hz] at hpos
  simp [dot, zero] at hpos

/-- a point of `a` on an edge of a face is in the hull of the hits -/
theorem edge_point (S : K3.Section a B out) (f : Polygon) (hf : f ∈ B.faces) (e : V3 × V3)
    (he : e ∈ closedPairs f.pts) (w : V3) (hw : Between e.1 e.2 w) (haw : a.den w) : InHull out w := by
  obtain ⟨s, hs, hse⟩ := S.complete f hf e he
  have hm := closedPairs_mem f.pts e he
  rcases S.edge_mem s hs w haw ((seg_den_edge s e hse w).mpr hw) with h | ⟨ha1, hb1⟩
  · exact vertex_in_hull _ _ h
  · have h1 : a.den e.1 := by
      rcases hse with ⟨h1, _⟩ | ⟨_, h2⟩
      · rw [← h1]; exact ha1
      · rw [← h2]; exact hb1
    have h2 : a.den e.2 := by
      rcases hse with ⟨_, h2⟩ | ⟨h1, _⟩
      · rw [← h2]; exact hb1
      · rw [← h1]; exact ha1
    exact InHull.between (vertex_in_hull _ _ (S.vertex_hit f hf _ hm.1 h1))
      (vertex_in_hull _ _ (S.vertex_hit f hf _ hm.2 h2)) hw

/-- a point of `a` in a face is in the hull of the hits -/
theorem face_point (S : K3.Section a B out) (f : Polygon) (hf : f ∈ B.faces) (z : V3) (hz : InHull f.pts z)
    (haz : a.den z) : InHull out z := by
  have hv := S.proper.core.faces_valid f hf
  have fW := Polygon.plane_WF f hv
  set d := cross a.n f.plane.n with hd
  have hd0 : d ≠ zero := by
    intro h
    have hpar : V3.parallel f.plane.n a.n = true := by
      rw [parallel_iff_cross, cross_anticomm, ← hd, h]; apply V3.ext' <;> simp [neg, zero]
    have := Plane.eqv_of_parallel_common f.plane a fW S.aWF hpar z (Polygon.hull_in_plane f hv z hz) haz
    rw [S.noFace f hf] at this; cases this
  have hda : dot a.n d = 0 := by rw [hd]; exact dot_cross_self _ _
  have hdf : dot f.plane.n d = 0 := by rw [hd]; simp only [dot, cross]; ring
  obtain ⟨t0, t1, h0, h1, ⟨e0, he0, hb0⟩, ⟨e1, he1, hb1⟩⟩ := K3.polygon_chord f hv z d hz hd0 hdf
  have i0 := S.edge_point f hf e0 he0 _ hb0 (K3.den_pt a haz hda t0)
  have i1 := S.edge_point f hf e1 he1 _ hb1 (K3.den_pt a haz hda t1)
  refine InHull.between i0 i1 ?_
  rw [Between_pt (le_trans h0 h1)]
  exact ⟨0, h0, h1, (K3.pt_zero z d).symm⟩

/-- a point of `a` in the body is in the hull of the hits -/
theorem body_point (S : K3.Section a B out) (y : V3) (hay : a.den y) (hy : B.contains y = true) :
    InHull out y := by
  obtain ⟨hdn, hd0⟩ := K3.perp_spec a.n
  set d := K3.perp a.n with hd
  have h0 : B.contains (pt y d 0) = true := by rw [K3.pt_zero]; exact hy
  obtain ⟨tlo, thi, hle, hiff, ⟨f2, hf2, hs2, _⟩, ⟨f1, hf1, hs1, _⟩⟩ :=
    B.line_interval S.proper.hullCore y d hd0 ⟨0, h0⟩
  have hz := (hiff 0).mp h0
  have k2 := S.proper.tight _ ((hiff tlo).mpr ⟨le_refl _, hle⟩) f2 hf2 hs2
  have k1 := S.proper.tight _ ((hiff thi).mpr ⟨hle, le_refl _⟩) f1 hf1 hs1
  have i2 := S.face_point f2 hf2 _ k2 (K3.den_pt a hay hdn tlo)
  have i1 := S.face_point f1 hf1 _ k1 (K3.den_pt a hay hdn thi)
  refine InHull.between i2 i1 ?_
  rw [Between_pt hle]
  exact ⟨0, hz.1, hz.2, (K3.pt_zero y d).symm⟩

/-- **K3**: the section of the body by the plane is the convex hull of the edge hits -/
theorem section_hull (S : K3.Section a B out) (x : V3) : (a.den x ∧ B.contains x = true) ↔ InHull out x := by
  constructor
  · rintro ⟨h1, h2⟩; exact S.body_point x h1 h2
  · intro hx
    exact ⟨InHull.sub_of_conv (Plane.den_conv a) out (fun p hp => (S.hit_mem p hp).1) x hx,
      Polyhedron.contains_of_hull B out (fun p hp => (S.hit_mem p hp).2) x hx⟩

end K3.Section
#print axioms K3.Section.section_hull


/-! ### every hit is a strictly exposed point of the section -/
namespace K3.Section
variable {a : Plane} {B : Polyhedron} {out : List V3}

theorem hit_exposed (S : K3.Section a B out) (p : V3) (hp : p ∈ out) :
    ∃ d : V3, ∀ q ∈ out, q ≠ p → dot d q < dot d p := by
  obtain ⟨s, hs, hsp⟩ := (S.hits p).mp hp
  have hsW := S.edgeWF s hs
  obtain ⟨o, ho, _, hd⟩ := interPlaneSeg_exact a s hsW
  rw [hsp] at ho; cases ho
  have hex : ∀ y, y = p ↔ (a.den y ∧ s.den y) := fun y => hd y
  obtain ⟨f, hf, e, he, hse⟩ := S.real s hs
  obtain ⟨g, hg, hg1, hg2, v, hv, hgv⟩ := S.proper.faceLocal f hf e he
  have hfv := S.proper.core.faces_valid f hf
  have hm := closedPairs_mem f.pts e he
  have hpe : Between e.1 e.2 p := (seg_den_edge s e hse p).mp ((hex p).mp rfl).2
  have hpf : f.side p = 0 := S.proper.side_of_face f hf p (between_in_hull hm.1 hm.2 hpe)
  have hpg : g.side p = 0 := by
    obtain ⟨t, _, _, rfl⟩ := hpe
    have : g.side (add e.1 (smul t (sub e.2 e.1))) = (1 - t) * g.side e.1 + t * g.side e.2 := by
      simp only [Polygon.side, dot, sub, add, smul]; ring
    rw [this, hg1, hg2]; ring
  refine ⟨add f.plane.n g.plane.n, fun q hq hqp => ?_⟩
  obtain ⟨haq, hKq⟩ := S.hit_mem q hq
  have sf := (B.contains_iff_side q).mp hKq f hf
  have sg := (B.contains_iff_side q).mp hKq g hg
  have key : dot (add f.plane.n g.plane.n) q - dot (add f.plane.n g.plane.n) p =
      (f.side q - f.side p) + (g.side q - g.side p) := by
    simp only [Polygon.side, dot, add, sub]; ring
  rw [hpf, hpg] at key
  by_contra hcon
  have hcon := not_lt.mp hcon
  have hf0 : f.side q = 0 := by linarith
  have hg0 : g.side q = 0 := by linarith
  have hqin := (f.side_zero_inPlane (S.proper.core.center_in_plane f hf) q).mp hf0
  have hn := Polygon.plane_WF f hfv
  obtain ⟨p0, p1, p2, rest, hpp, hpl, htp⟩ := id hfv
  have hor := K3.edge_of_neighbour_eq f.plane.n f.plane.p e.1 e.2 v q g.center g.plane.n hn
    (hpl _ hm.1) (hpl _ hm.2) (hpl _ hv) hqin hg1 hg2 (ne_of_lt hgv) hg0
  have hne12 : e.1 ≠ e.2 := edge_ne f.plane.n p0 p1 p2 rest (by rw [← hpp]; exact htp) e (by rw [← hpp]; exact he)
  obtain ⟨uq, hqe⟩ := on_carrier_of_orient_zero hn hne12 (hpl _ hm.1) (hpl _ hm.2) hqin hor
  obtain ⟨up, _, _, hpe'⟩ := hpe
  have hu : uq ≠ up := by intro h; apply hqp; rw [hqe, hpe', h]
  have hap : a.den p := ((hex p).mp rfl).1
  have eq1 : dot a.n (sub e.1 a.p) + uq * dot a.n (sub e.2 e.1) = 0 := by
    have := haq; rw [hqe] at this
    simp only [Plane.den, dot, sub, add, smul] at this ⊢
    linarith
  have eq2 : dot a.n (sub e.1 a.p) + up * dot a.n (sub e.2 e.1) = 0 := by
    have := hap; rw [hpe'] at this
    simp only [Plane.den, dot, sub, add, smul] at this ⊢
    linarith
  have hD : dot a.n (sub e.2 e.1) = 0 := by
    have : (uq - up) * dot a.n (sub e.2 e.1) = 0 := by linarith
    exact (mul_eq_zero.mp this).resolve_left (sub_ne_zero.mpr hu)
  have hA : dot a.n (sub e.1 a.p) = 0 := by rw [hD] at eq1; linarith
  have ha1 : a.den e.1 := hA
  have ha2 : a.den e.2 := by
    simp only [Plane.den, dot, sub] at hA hD ⊢; linarith
  have e1p : e.1 = p := (hex e.1).mpr ⟨ha1, (seg_den_edge s e hse e.1).mpr ⟨0, le_refl _, by norm_num, by
    apply V3.ext' <;> simp [add, smul, sub]⟩⟩
  have e2p : e.2 = p := (hex e.2).mpr ⟨ha2, (seg_den_edge s e hse e.2).mpr ⟨1, by norm_num, le_refl _, by
    apply V3.ext' <;> simp [add, smul, sub]⟩⟩
  exact hne12 (e1p.trans e2p.symm)

/-- the hits are in strictly convex position (every hit is a vertex of the section) -/
theorem strictConvexPos (S : K3.Section a B out) : StrictConvexPos out := fun p hp => S.hit_exposed p hp

end K3.Section
#print axioms K3.Section.strictConvexPos

/-! ### 4. Plane × ConvexPolyhedron -/

/-- **Plane × ConvexPolyhedron is exact**: for a well-formed plane and a `Proper` polyhedron whose listed edges are
    well-formed Segments and are exactly the edges of the faces, the handler succeeds and returns an object denoting
    exactly `a ∩ K`: the coincident face, or None / Point / Segment / `ConvexPolygon(hits)` — in the last case the
    constructor succeeds, the polygon is `Valid` and its vertex list is a permutation of the hits
    (`interPlanePolyhedron_polygon`). -/
theorem interPlanePolyhedron_exact (a : Plane) (ha : a.WF) (B : Polyhedron) (hP : B.Proper)
    (hEW : ∀ s ∈ B.edges, s.WF) (hR : B.EdgesReal) (hC : B.EdgesComplete) :
    ExactW (interPlanePolyhedron a B) a.den (BodyDen B) := by
  unfold interPlanePolyhedron
  cases hfind : B.faces.find? (fun f => f.inPlane a) with
  | some f =>
    simp only
    have hf : f ∈ B.faces := List.mem_of_find?_eq_some hfind
    have hin : f.plane.eqv a = true := by simpa [Polygon.inPlane] using List.find?_some hfind
    have hv := hP.core.faces_valid f hf
    have hden := Plane.eqv_den f.plane a (Polygon.plane_WF f hv) ha hin
    refine ⟨_, rfl, trivial, fun x => ?_⟩
    show InHull f.pts x ↔ _
    constructor
    · intro h; exact ⟨(hden x).mp (Polygon.hull_in_plane f hv x h), hP.face_sub f hf x h⟩
    · rintro ⟨h1, h2⟩
      refine hP.tight x h2 f hf ?_
      apply (f.side_zero_inPlane (hP.core.center_in_plane f hf) x).mpr
      have := (hden x).mpr h1
      simp only [G3D.inPlane, beq_iff_eq]
      exact this
  | none =>
    simp only
    have hno : ∀ f ∈ B.faces, f.plane.eqv a = false := by
      intro f hf
      have := List.find?_eq_none.mp hfind f hf
      simpa [Polygon.inPlane] using this
    obtain ⟨out, hout, hmem, hnd⟩ := edgeHits_spec (interPlaneSeg a) B.edges []
      (fun s hs => by
        obtain ⟨o, ho, _, _⟩ := interPlaneSeg_exact a s (hEW s hs)
        exact ⟨o, ho, interPlaneSeg_IsPS a s o ho⟩)
    have hnd' : out.Nodup := hnd List.nodup_nil
    have S : K3.Section a B out := ⟨ha, hP, hEW, hR, hC, hno, fun p => by rw [hmem p]; simp⟩
    rw [interPlanePolyhedron_loop_eq, hout]
    match out, hnd', S with
    | [], _, S =>
      refine ⟨none, rfl, trivial, fun x => ?_⟩
      simp only [denOptB, false_iff]
      intro h
      exact K3.inHull_nil x ((S.section_hull x).mp h)
    | [p], _, S =>
      refine ⟨_, rfl, trivial, fun x => ?_⟩
      show x = p ↔ _
      rw [← K3.inHull_singleton]
      exact (S.section_hull x).symm
    | [p, q], hnd2, S =>
      have hpq : p ≠ q := by
        intro h; rw [List.nodup_cons] at hnd2; exact hnd2.1 (by simp [h])
      simp only [if_neg hpq, liftC, bind, Except.bind]
      refine ⟨_, rfl, Seg.mk'_WF hpq, fun x => ?_⟩
      show Between p q x ↔ _
      rw [← K3.inHull_pair]
      exact (S.section_hull x).symm
    | p0 :: p1 :: p2 :: rest, hnd3, S =>
      have hded : dedupV (p0 :: p1 :: p2 :: rest) = p0 :: p1 :: p2 :: rest := dedupV_of_nodup _ hnd3
      have hx : StrictConvexPos (dedupV (p0 :: p1 :: p2 :: rest)) := by rw [hded]; exact S.strictConvexPos
      have hpl : ∀ p ∈ dedupV (p0 :: p1 :: p2 :: rest), dot (cross (sub p1 p0) (sub p2 p0)) (sub p p0) = 0 := by
        rw [hded]
        intro p hp
        have a0 := (S.hit_mem p0 (by simp)).1
        have a1 := (S.hit_mem p1 (by simp)).1
        have a2 := (S.hit_mem p2 (by simp)).1
        have ap := (S.hit_mem p hp).1
        exact K3.trip_zero_of_perp a.n _ _ _ ha (K3.den_sub_perp a a0 a1) (K3.den_sub_perp a a0 a2)
          (K3.den_sub_perp a a0 ap)
      obtain ⟨P, hmk, _, hperm⟩ := Polygon.mk?_ok_of_strictConvex (p0 :: p1 :: p2 :: rest) false p0 p1 p2 rest
        hded hx hpl
      rw [hded] at hperm
      simp only [hmk, liftC, bind, Except.bind, pure, Except.pure]
      refine ⟨_, rfl, trivial, fun x => ?_⟩
      show InHull P.pts x ↔ _
      rw [K3.inHull_perm hperm]
      exact (S.section_hull x).symm
#print axioms interPlanePolyhedron_exact

end G3D
