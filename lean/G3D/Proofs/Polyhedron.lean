import G3D.Proofs.FlatPolygon

/-! C05, polyhedron half (the provable direction): every point of the hull of the vertices passes the
    face tests of `ConvexPolyhedron.__contains__`; composite membership by convexity. -/
namespace G3D
open V3

/-- decidable content of a well-formed polyhedron that the membership theorem needs: every vertex is on
    the inner side of every (outward oriented) face -/
def Polyhedron.VertsInside (B : Polyhedron) : Prop :=
  ∀ f ∈ B.faces, ∀ v ∈ B.verts, dot (sub v f.center) f.plane.n ≤ 0

theorem affine_comb (n c : V3) : ∀ (ws : List Rat) (ps : List V3), ws.length = ps.length →
    dot (sub (add (comb ws ps) (smul (1 - ws.sum) c)) c) n =
      (List.zipWith (fun w p => w * dot (sub p c) n) ws ps).sum := by
  intro ws
  induction ws with
  | nil =>
    intro ps h; cases ps
    · simp [comb, dot, sub, add, smul, zero]
    · simp at h
  | cons w ws ih =>
    intro ps h
    cases ps with
    | nil => simp at h
    | cons p ps =>
      have := ih ps (by simpa using h)
      simp only [List.zipWith_cons_cons, List.sum_cons, comb] at this ⊢
      rw [← this]
      simp only [dot, sub, add, smul]
      ring

theorem sum_zipWith_neg : ∀ (ws : List Rat) (ps : List V3) (f : V3 → Rat),
    (List.zipWith (fun w p => w * - f p) ws ps).sum = - (List.zipWith (fun w p => w * f p) ws ps).sum := by
  intro ws
  induction ws with
  | nil => intro ps f; simp
  | cons w ws ih =>
    intro ps f
    cases ps with
    | nil => simp
    | cons p ps => simp only [List.zipWith_cons_cons, List.sum_cons, ih ps f]; ring

theorem Polyhedron.hull_subset_contains (B : Polyhedron) (hv : B.VertsInside) (x : V3)
    (hx : InHull B.verts x) : B.contains x = true := by
  obtain ⟨ws, hlen, hnn, hsum, rfl⟩ := hx
  unfold Polyhedron.contains
  rw [List.all_eq_true]
  intro f hf
  simp only [decide_eq_true_eq]
  have hx' : comb ws B.verts = add (comb ws B.verts) (smul (1 - ws.sum) f.center) := by
    rw [hsum]; apply V3.ext' <;> simp [add, smul]
  rw [hx', affine_comb f.plane.n f.center ws _ hlen]
  have := sum_zipWith_nonneg ws B.verts (fun p => - dot (sub p f.center) f.plane.n) hnn
    (fun p hp => by have := hv f hf p hp; linarith)
  have e := sum_zipWith_neg ws B.verts (fun p => dot (sub p f.center) f.plane.n)
  rw [e] at this
  linarith

/-- a segment whose endpoints are in a convex body lies in it (used for `Segment in X`) -/
theorem seg_sub_of_endpoints {D : V3 → Prop}
    (hconv : ∀ x y t, D x → D y → 0 ≤ t → t ≤ 1 → D (add x (smul t (sub y x))))
    (s : Seg) (ha : D s.a) (hb : D s.b) : ∀ x, s.den x → D x := by
  rintro x ⟨t, h0, h1, rfl⟩
  exact hconv _ _ t ha hb h0 h1
#print axioms Polyhedron.hull_subset_contains
end G3D
