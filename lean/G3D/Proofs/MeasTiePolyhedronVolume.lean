import G3D.Extracted.Mmeas
import G3D.Proofs.MeasTieBase
import G3D.Proofs.MeasTiePyramid
/-! # mmeas, `ConvexPolyhedron.volume`  (C06)
    `G3D.Extracted.m_ConvexPolyhedron_volume` is regenerated on every run by tools/extract_mmeas.py from the BODY in
    geometry/polyhedron.py: `v = 0; for pyramid in self.pyramid_set: v += pyramid.volume(); return v`.
    For a body whose pyramids stand on `MeasOK` polygons it is the model's EXACT RATIONAL `Polyhedron.volume`, in whatever
    order the set is iterated.  Imports the tie of `Pyramid.volume` because the Python delegates to it. -/
namespace G3D.MeasTie.Polyhedron
open G3D G3D.MeasRt G3D.KTie G3D.Extracted G3D.MeasTie Real

section volume
/-- the accumulator loop is the sum of the pyramid volumes -/
theorem m_ConvexPolyhedron_volume_sum (M : MPolyhedron) :
    m_ConvexPolyhedron_volume M = (M.pyramid_set.map m_Pyramid_volume).sum := by
  simp only [m_ConvexPolyhedron_volume]
  rw [foldl_add_sum, zero_add]

/-- **`ConvexPolyhedron.volume()` = the model's rational `B.volume`**, for every iteration order of `pyramid_set` -/
theorem m_ConvexPolyhedron_volume_tie (B : Polyhedron) (hp : ∀ pa ∈ B.pyramids, MeasOK pa.1) (M : MPolyhedron)
    (hs : List.Perm M.pyramid_set (B.pyramids.map pyrToM)) :
    m_ConvexPolyhedron_volume M = ((B.volume : ℚ) : ℝ) := by
  rw [m_ConvexPolyhedron_volume_sum, sum_map_perm hs]
  unfold Polyhedron.volume
  rw [cast_sum_map, List.map_map]
  apply sum_map_congr
  intro pa hpa
  exact Pyramid.m_Pyramid_volume_tie pa.1 pa.2 (hp pa hpa)

/-- in the model's own order -/
theorem m_ConvexPolyhedron_volume_model (B : Polyhedron) (hp : ∀ pa ∈ B.pyramids, MeasOK pa.1) :
    m_ConvexPolyhedron_volume (bodyToM B) = ((B.volume : ℚ) : ℝ) :=
  m_ConvexPolyhedron_volume_tie B hp (bodyToM B) (List.Perm.refl _)
end volume

#print axioms m_ConvexPolyhedron_volume_sum
#print axioms m_ConvexPolyhedron_volume_tie
#print axioms m_ConvexPolyhedron_volume_model
end G3D.MeasTie.Polyhedron
