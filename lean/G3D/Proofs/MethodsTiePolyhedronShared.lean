import G3D.Proofs.MethodsTieBase
/-! # group `mpolyhedron`: helper lemmas about the runtime and the model only — the collecting round, the orientation rounds of the constructor and of `move`, indexed loops with an invariant (NO extracted definition occurs here, so this module never breaks when a method changes) -/
set_option linter.unusedSimpArgs false
set_option linter.unusedVariables false
set_option linter.style.nameCheck false
set_option linter.unusedTactic false
set_option linter.unreachableTactic false
namespace G3D.Tie
open V3 PyRt 

/-- the outward test of one face: `Vector(center, face.plane.p) * face.plane.n >= -eps` -/
def outward (c : V3) (f : Polygon) : Bool := decide (0 ≤ dot (sub f.plane.p c) f.plane.n)

/-- a loop whose only effect is an early `return False` -/
theorem forIn_return_false {α : Type} (xs : List α) (bad : α → Bool) :
    forIn xs ((none : Option Val), ()) (fun x _ => if bad x = true then
        (Except.ok (ForInStep.done (some (Val.bool false), ())) : PyM (ForInStep (Option Val × Unit)))
      else .ok (.yield (none, ()))) =
      .ok (if xs.any bad = true then (some (Val.bool false), ()) else (none, ())) := by
  induction xs with
  | nil => simp
  | cons x xs ih =>
    by_cases h : bad x = true
    · simp [List.forIn_cons, h]
    · simp [List.forIn_cons, h, ih]

/-- the record with the two collected sets replaced -/
def setVE (s : Self) (vs : List V3) (es : List Seg) : Self :=
  { s with f_point_set := some (Val.ptSet vs), f_segment_set := some (.set (es.map sgObj)) }

/-- one round of the collecting loop: the vertices and the edges of one face -/
def collectStep (f : Polygon) (st : List V3 × List Seg) : PyM (ForInStep (List V3 × List Seg)) := do
  let ss ← liftC f.segments?
  pure (.yield (f.pts.foldl addPt st.1, ss.foldl addSeg st.2))

theorem addPt_eq_addNew : addPt = addNew := rfl

theorem collect_forIn (fs : List Polygon) (vs : List V3) (es : List Seg) :
    forIn fs (vs, es) collectStep =
      (do let es' ← liftC (collectEdges fs es); pure (fs.foldl (fun acc f => f.pts.foldl addPt acc) vs, es')) := by
  induction fs generalizing vs es with
  | nil => simp [collectEdges, liftC]
  | cons f fs ih =>
    rw [List.forIn_cons]
    simp only [collectStep, collectEdges]
    cases f.segments? with
    | error e => simp [liftC]
    | ok ss =>
      simp only [liftC, pyrt, List.foldl_cons]
      rw [ih]
      simp [liftC]

theorem collect_body_eq (s0 : Self) (f : Polygon) (vs : List V3) (es : List Seg) :
    (do
      let a ← pyAttr_points ((Val.obj ∘ Obj.polygon) f)
      let it ← pyIter a
      let s ← forIn it (setVE s0 vs es) fun point s => do
          let v ← pyFld s.f_point_set
          (fun a => ForInStep.yield { s with f_point_set := some a }) <$> pySetAddM v point
      let b ← pyMeth_segments ((Val.obj ∘ Obj.polygon) f)
      let it ← pyIter b
      ForInStep.yield <$> forIn it s fun segment s => do
          let v ← pyFld s.f_segment_set
          (fun a => ForInStep.yield { s with f_segment_set := some a }) <$> pySetAddM v segment) =
    ForInStep.map' (fun st : List V3 × List Seg => setVE s0 st.1 st.2) <$> collectStep f (vs, es) := by
  simp only [Function.comp, pyrt, List.map_map, collectStep, pyMeth_segments]
  rw [forIn_repr (Val.obj ∘ ptObj) (fun vs' => setVE s0 vs' es) f.pts _ (fun p vs' => .ok (.yield (addPt vs' p)))]
  · rw [forIn_yield f.pts addPt]
    simp only [pyrt]
    cases f.segments? with
    | error e => simp [liftC]
    | ok ss =>
      simp only [liftC, pyrt, List.map_map]
      rw [forIn_repr (Val.obj ∘ sgObj) (fun es' => setVE s0 (f.pts.foldl addPt vs) es') ss _ (fun t es' => .ok (.yield (addSeg es' t)))]
      · rw [forIn_yield ss addSeg]
        simp [ForInStep.map']
      · intro t _ es'
        simp [Function.comp, setVE, pyFld, sgObj, pySetAddM, ForInStep.map']
  · intro p _ vs'
    simp [Function.comp, setVE, pyFld, Val.ptSet, ptObj, pySetAddM, ForInStep.map', addPt_eq_addNew]

/-- `forIn_repr` for a `range(len(xs))` loop whose body is tied to the model step only under an invariant on the
    index (the loop reads `container[i]` while it replaces items of the container) -/
theorem forIn_repr_idx {α σ τ : Type} (repr : σ → τ) (I : Nat → σ → Prop) (body : Val → τ → PyM (ForInStep τ))
    (step : α → σ → PyM (ForInStep σ)) :
    ∀ (xs : List α) (lo : Nat) (s : σ), I lo s →
      (∀ k x, xs[k]? = some x → ∀ s, I (lo + k) s →
        body (.int ((lo + k : Nat) : Int)) (repr s) = ForInStep.map' repr <$> step x s) →
      (∀ k x, xs[k]? = some x → ∀ s s', I (lo + k) s → step x s = .ok (.yield s') → I (lo + k + 1) s') →
      forIn ((intsFrom (lo : Int) xs.length).map Val.int) (repr s) body = repr <$> forIn xs s step := by
  intro xs
  induction xs with
  | nil => intro lo s _ _ _; simp [intsFrom]
  | cons x xs ih =>
    intro lo s hI hb hstep
    simp only [List.length_cons, intsFrom, List.map_cons, List.forIn_cons]
    have h0 := hb 0 x (by simp) s (by simpa using hI)
    simp only [Nat.add_zero] at h0
    rw [h0]
    cases hs : step x s with
    | error e => simp
    | ok r =>
      cases r with
      | done s' => simp [ForInStep.map']
      | yield s' =>
        simp only [ForInStep.map', except_map_ok, ok_bind]
        have hI' : I (lo + 1) s' := by simpa using hstep 0 x (by simp) s s' (by simpa using hI) hs
        have := ih (lo + 1) s' hI'
          (fun k y hy t ht => by
            have := hb (k + 1) y (by simpa using hy) t (by rw [← Nat.add_assoc, Nat.add_right_comm]; simpa [Nat.add_assoc, Nat.add_comm 1 k] using ht)
            simpa [Nat.add_assoc, Nat.add_comm 1 k] using this)
          (fun k y hy t t' ht hst => by
            have := hstep (k + 1) y (by simpa using hy) t t' (by simpa [Nat.add_assoc, Nat.add_comm 1 k] using ht) hst
            simpa [Nat.add_assoc, Nat.add_comm 1 k] using this)
        rw [show ((lo : Int) + 1) = ((lo + 1 : Nat) : Int) by push_cast; rfl]
        exact this

theorem flatPyr_append (P : List (Polygon × V3)) (f : Polygon) (c : V3) :
    flatPyr (P ++ [(f, c)]) = flatPyr P ++ [.polygon f, .flat (.point c)] := by
  induction P with
  | nil => rfl
  | cons x P ih => obtain ⟨g, d⟩ := x; simp [flatPyr, ih]

theorem unflatPyr_flatPyr (P : List (Polygon × V3)) : unflatPyr? (flatPyr P) = some P := by
  induction P with
  | nil => rfl
  | cons x P ih => obtain ⟨g, d⟩ := x; simp [flatPyr, unflatPyr?, ih]

theorem allPolygons_comp {α : Type} (l : List α) (g : α → Polygon) : allPolygons? (l.map (Obj.polygon ∘ g)) = some (l.map g) := by
  rw [← List.map_map]; exact allPolygons_polygon _

theorem allSegs_sg (ss : List Seg) : allSegs? (ss.map sgObj) = some ss := by
  induction ss with
  | nil => rfl
  | cons s ss ih => simp [allSegs?, objSeg?, sgObj, ih]

/-- the record during the orientation loop of the constructor: `done` = the faces already processed (possibly flipped
    face, pyramid) -/
def orientRepr (fs : List Polygon) (vs : List V3) (es : List Seg) (c : V3) (done : List (Polygon × (Polygon × V3))) : Self :=
  { f_convex_polygons := some (.seq ((done.map (·.1) ++ fs.drop done.length).map Obj.polygon)),
    f_point_set := some (Val.ptSet vs), f_segment_set := some (.set (es.map sgObj)),
    f_pyramid_set := some (.set (flatPyr (done.map (·.2)))), f_center_point := some (.obj (ptObj c)) }

theorem orient_body_eq (fs : List Polygon) (vs : List V3) (es : List Seg) (c : V3) (k : Nat) (f : Polygon)
    (hf : fs[k]? = some f) (done : List (Polygon × (Polygon × V3))) (hd : done.length = k) :
    (do
      let l ← pyFld (orientRepr fs vs es c done).f_convex_polygons
      let convex_polygon ← pyIndexM l (.int (k : Int))
      let cp ← pyFld (orientRepr fs vs es c done).f_center_point
      let a ← pyAttr_plane convex_polygon
      let b ← pyAttr_p a
      let w ← pyVector cp b
      let a' ← pyAttr_plane convex_polygon
      let n ← pyAttr_n a'
      let d ← pyMulM w n
      let t ← pyCmpTol CmpOp.lt false d (Val.int 0)
      if t.truthy = true then do
          let g ← pyNegM convex_polygon
          let l' ← pyFld (orientRepr fs vs es c done).f_convex_polygons
          let l'' ← pySetItemM l' (.int (k : Int)) g
          let ps ← pyFld (orientRepr fs vs es c done).f_pyramid_set
          let cp' ← pyFld (orientRepr fs vs es c done).f_center_point
          let py ← pyPyramid convex_polygon cp' (Val.bool false)
          (fun a => ForInStep.yield { orientRepr fs vs es c done with f_convex_polygons := some l'', f_pyramid_set := some a }) <$>
            pySetAddM ps py
        else do
          let ps ← pyFld (orientRepr fs vs es c done).f_pyramid_set
          let cp' ← pyFld (orientRepr fs vs es c done).f_center_point
          let py ← pyPyramid convex_polygon cp' (Val.bool false)
          (fun a => ForInStep.yield { orientRepr fs vs es c done with f_pyramid_set := some a }) <$> pySetAddM ps py) =
    ForInStep.map' (orientRepr fs vs es c) <$>
      (do let r ← liftC (orientFace c f); pure (ForInStep.yield (done ++ [r]))) := by
  have hk : k < fs.length := by
    rcases Nat.lt_or_ge k fs.length with h | h
    · exact h
    · rw [List.getElem?_eq_none h] at hf; cases hf
  have hdrop : fs.drop k = f :: fs.drop (k + 1) := by
    have := List.drop_eq_getElem_cons hk
    rw [this]; congr 1
    have := List.getElem?_eq_getElem hk
    rw [this] at hf; exact Option.some.inj hf
  have hidx : pyIndexM (Val.seq ((done.map (·.1) ++ fs.drop done.length).map Obj.polygon)) (.int (k : Int)) =
      .ok (.obj (.polygon f)) := by
    have := pyIndex_seq_nat ((done.map (·.1) ++ fs.drop done.length).map Obj.polygon) k (.polygon f)
      (by rw [hd, hdrop]; simp [List.getElem?_append_right, hd])
    simpa [pyIndexM] using this
  have hlen : ((done.map (·.1) ++ fs.drop done.length).map Obj.polygon).length = fs.length := by
    simp [hd]; omega
  have hnorm : normIdx fs.length (k : Int) = some k := by simp [normIdx, hk]
  have hset : ∀ f' : Polygon, ((done.map (·.1) ++ fs.drop done.length).map Obj.polygon).set k (.polygon f') =
      (((done ++ [(f', (f, c))]).map (·.1) ++ fs.drop (done ++ [(f', (f, c))]).length).map Obj.polygon) := by
    intro f'
    subst hd
    rw [hdrop]
    simp [List.set_append_right]
  have hkeep : ((done.map (·.1) ++ fs.drop done.length).map Obj.polygon) =
      (((done ++ [(f, (f, c))]).map (·.1) ++ fs.drop (done ++ [(f, (f, c))]).length).map Obj.polygon) := by
    subst hd
    rw [hdrop]
    simp
  simp only [orientRepr, pyFld_some, pyrt, hidx, pyAttr_p, pyAttr_n, ptObj, pyVector, pyMulM, pyCmpTol, tolEval, Val.asRat?, Int.cast_zero]
  by_cases hflip : dot (sub f.plane.p c) f.plane.n < 0
  · simp only [hflip, decide_true, Val.truthy, if_true, pyNegM, orientFace]
    cases hneg : f.neg? with
    | error e => simp [liftC]
    | ok f' =>
      simp only [liftC, pyrt, pySetItemM, hlen, hnorm, hset f', pyPyramid]
      by_cases hc : f.plane.contains c = true
      · simp [hc]
      · simp [hc, pySetAddM, ForInStep.map', orientRepr, flatPyr_append, ptObj]
  · simp only [hflip, decide_false, Val.truthy, if_false, Bool.false_eq_true, orientFace, pyPyramid]
    by_cases hc : f.plane.contains c = true
    · simp [hc, liftC]
    · simp only [hc, if_false, Bool.false_eq_true, pyrt, pySetAddM, liftC, ForInStep.map', orientRepr, flatPyr_append,
        List.map_append, List.map_cons, List.map_nil]
      simp [hd, hdrop, ptObj]

theorem forIn_repr_idx0 {α σ τ : Type} (repr : σ → τ) (I : Nat → σ → Prop) (body : Val → τ → PyM (ForInStep τ))
    (step : α → σ → PyM (ForInStep σ)) (xs : List α) (s : σ) (h0 : I 0 s)
    (hb : ∀ k x, xs[k]? = some x → ∀ s, I k s → body (.int (k : Int)) (repr s) = ForInStep.map' repr <$> step x s)
    (hs : ∀ k x, xs[k]? = some x → ∀ s s', I k s → step x s = .ok (.yield s') → I (k + 1) s') :
    forIn ((intsFrom 0 xs.length).map Val.int) (repr s) body = repr <$> forIn xs s step := by
  have := forIn_repr_idx repr I body step xs 0 s h0
    (fun k x hx t ht => by simpa using hb k x hx t (by simpa using ht))
    (fun k x hx t t' ht hst => by simpa using hs k x hx t t' (by simpa using ht) hst)
  simpa using this

theorem mapM_length {α β ε : Type} (g : α → Except ε β) : ∀ (xs : List α) (ys : List β), xs.mapM g = .ok ys → ys.length = xs.length := by
  intro xs
  induction xs with
  | nil => intro ys h; simp at h; cases h; rfl
  | cons x xs ih =>
    intro ys h
    rw [List.mapM_cons] at h
    cases hx : g x with
    | error e => simp [hx] at h
    | ok y =>
      cases hm : xs.mapM g with
      | error e => simp [hx, hm] at h
      | ok zs =>
        simp [hx, hm] at h
        cases h
        simp [ih zs hm]

/-- the record after the four initialising assignments of the constructor -/
def initSelf (fs : List Polygon) : Self :=
  { f_convex_polygons := some (Val.seq (List.map Obj.polygon fs)), f_pyramid_set := some (Val.set []) }

theorem pyPack_ConvexPolyhedron_of (B : Polyhedron) : pyPack_ConvexPolyhedron (Self.ofPolyhedron B) = .ok (.obj (.polyhedron B)) := by
  simp [pyPack_ConvexPolyhedron, Self.ofPolyhedron, Val.ptSet, allSegs_sg, unflatPyr_flatPyr, ptObj]

/-- the exceptions of the model's `Polyhedron.move` as runtime exceptions (`TypeError` of the tuple item assignment is
    `.typeMismatch`) -/
def liftM {α : Type} : Except MErr α → PyM α
  | .ok a => .ok a
  | .error (.ctor e) => .error (.ctor e)
  | .error .typeErr => .error .typeMismatch

theorem liftM_mapM {α β : Type} (xs : List α) (g : α → Except MErr β) :
    liftM (xs.mapM g) = xs.mapM (fun x => liftM (g x)) := by
  induction xs with
  | nil => rfl
  | cons x xs ih =>
    simp only [List.mapM_cons]
    cases hx : g x with
    | error e => cases e <;> simp [liftM]
    | ok y =>
      rw [← ih]
      cases hm : xs.mapM g with
      | error e => cases e <;> simp [liftM]
      | ok ys => simp [liftM]

/-- the record of `move` after its re-initialising assignments (the old centre is still there) -/
def moveSelf (B : Polyhedron) (fs : List Polygon) : Self :=
  { f_center_point := some (Val.obj (ptObj B.center)), f_convex_polygons := some (Val.seq (List.map Obj.polygon fs)), f_pyramid_set := some (Val.set []) }

/-- the record during the orientation loop of `move` (the faces are a tuple: nothing is replaced) -/
def moveRepr (fs : List Polygon) (vs : List V3) (es : List Seg) (c : V3) (done : List (Polygon × V3)) : Self :=
  { f_convex_polygons := some (.seq (fs.map Obj.polygon)), f_point_set := some (Val.ptSet vs),
    f_segment_set := some (.set (es.map sgObj)), f_pyramid_set := some (.set (flatPyr done)),
    f_center_point := some (.obj (ptObj c)) }

theorem move_orient_body_eq (fs : List Polygon) (vs : List V3) (es : List Seg) (c : V3) (k : Nat) (f : Polygon)
    (hf : fs[k]? = some f) (done : List (Polygon × V3)) :
    (do
      let l ← pyFld (moveRepr fs vs es c done).f_convex_polygons
      let convex_polygon ← pyIndexM l (.int (k : Int))
      let cp ← pyFld (moveRepr fs vs es c done).f_center_point
      let a ← pyAttr_plane convex_polygon
      let b ← pyAttr_p a
      let w ← pyVector cp b
      let a' ← pyAttr_plane convex_polygon
      let n ← pyAttr_n a'
      let d ← pyMulM w n
      let t ← pyCmpTol CmpOp.lt false d (Val.int 0)
      if t.truthy = true then do
          let _ ← pyNegM convex_polygon
          let _ ← pyFld (moveRepr fs vs es c done).f_convex_polygons
          Except.error BErr.typeMismatch
        else do
          let ps ← pyFld (moveRepr fs vs es c done).f_pyramid_set
          let cp' ← pyFld (moveRepr fs vs es c done).f_center_point
          let py ← pyPyramid convex_polygon cp' (Val.bool false)
          (fun a => ForInStep.yield { moveRepr fs vs es c done with f_pyramid_set := some a }) <$> pySetAddM ps py) =
    ForInStep.map' (moveRepr fs vs es c) <$>
      (do let r ← liftM (moveFace c f); pure (ForInStep.yield (done ++ [r]))) := by
  have hidx : pyIndexM (Val.seq (fs.map Obj.polygon)) (.int (k : Int)) = .ok (.obj (.polygon f)) := by
    have := pyIndex_seq_nat (fs.map Obj.polygon) k (.polygon f) (by simp [hf])
    simpa [pyIndexM] using this
  simp only [moveRepr, pyFld_some, pyrt, hidx, pyAttr_p, pyAttr_n, ptObj, pyVector, pyMulM, pyCmpTol, tolEval, Val.asRat?, Int.cast_zero]
  by_cases hflip : dot (sub f.plane.p c) f.plane.n < 0
  · simp only [hflip, decide_true, Val.truthy, if_true, pyNegM, moveFace]
    cases hneg : f.neg? <;> simp [liftC, liftM]
  · simp only [hflip, decide_false, Val.truthy, if_false, Bool.false_eq_true, moveFace, pyPyramid]
    by_cases hc : f.plane.contains c = true
    · simp [hc, liftM]
    · simp [hc, pySetAddM, liftM, ForInStep.map', moveRepr, flatPyr_append, ptObj]

end G3D.Tie
