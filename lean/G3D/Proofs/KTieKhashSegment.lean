import G3D.Extracted.Khash
import G3D.Proofs.KhashLemmas
import G3D.Proofs.KTieKhashPoint
/-! # khash, `Segment.__hash__`  (C08)
    `G3D.Extracted.impl_hash_*` are regenerated on every run (tools/extract_khash.py, engine tools/khash_engine.py on tools/kernels_engine.py):
    the REAL `__hash__` bodies are run on symbolic numbers with `hash` / `round` / `get_sig_figures` / `get_eps` shimmed; `H` is the
    uninterpreted hash of a tuple, `rnd` / `rndI` the uninterpreted `round(., get_sig_figures())` on numbers / integers, `sig` / `neg`
    the uninterpreted answers to `abs(c) > get_eps()` / `c < 0`.  Every statement holds FOR ALL H, rnd, rndI.  Each kernel has its own
    `section`: when the walk of ONE kernel fails the generated file holds only the marker `impl_<kernel>_EXTRACTION_FAILED` for it
    and exactly the theorems of that section stop compiling.  The reference functions (`…Ref`, `…OfKey`) and their reading through
    the hash keys of `Model/HashKey.lean` are hand-written in `Proofs/KhashLemmas.lean`.
    `Segment.__hash__` delegates to `Point.__hash__`: the extracted text calls `impl_hash_Point` (a change of the Point hash that
    cannot be walked withholds this kernel too). -/
-- `first | rfl | ring_nf`: the second alternative only runs after a harmless arithmetic rearrangement of the Python body
set_option linter.unusedTactic false
set_option linter.unreachableTactic false
namespace G3D.KTie.Khash
open G3D G3D.Extracted G3D.KTie

section hash_Segment
/-- the extracted tuple: tag, `hash(a) + hash(b)`, `hash(a) * hash(b)` with the EXTRACTED point hash -/
theorem hash_Segment_shape (H : HFun) (rnd : ℝ → ℝ) (a b : RVec) :
    impl_hash_Segment H rnd a b
      = H [.tag "Segment", .int (impl_hash_Point H rnd a + impl_hash_Point H rnd b),
           .int (impl_hash_Point H rnd a * impl_hash_Point H rnd b)] := by
  unfold impl_hash_Segment
  first | rfl | ring_nf

theorem hash_Segment_tie (H : HFun) (rnd : ℝ → ℝ) (a b : RVec) : impl_hash_Segment H rnd a b = segHashRef H rnd a b := by
  simp only [hash_Segment_shape, hash_Point_tie, segHashRef]

/-- **symmetric in the end points** -/
theorem hash_Segment_comm (H : HFun) (rnd : ℝ → ℝ) (a b : RVec) : impl_hash_Segment H rnd a b = impl_hash_Segment H rnd b a := by
  rw [hash_Segment_tie, hash_Segment_tie, segHashRef_comm]

/-- **the extracted hash depends only on the model's `Seg.hashKey`** (the unordered pair of end points) -/
theorem hash_Segment_key (H : HFun) (rnd : ℝ → ℝ) (s : Seg) :
    impl_hash_Segment H rnd s.a.toR s.b.toR = segHashOfKey H rnd (Seg.hashKey s) := by
  rw [hash_Segment_tie, segHashRef_key]

/-- **EQUAL SEGMENTS HAVE EQUAL EXTRACTED HASHES**, for every H and every rounding -/
theorem hash_Segment_eq_of_same (H : HFun) (rnd : ℝ → ℝ) (s o : Seg) (h : s.same o = true) :
    impl_hash_Segment H rnd s.a.toR s.b.toR = impl_hash_Segment H rnd o.a.toR o.b.toR := by
  rw [hash_Segment_tie, hash_Segment_tie, segHashRef_eq_of_same H rnd s o h]

theorem hash_Segment_paths : impl_hash_Segment_oracles = [] ∧ impl_hash_Segment_paths = [[]] := by decide

/-- (C19) the body rounds nothing itself (the roundings are those of `Point.__hash__`) -/
theorem hash_Segment_roundings : impl_hash_Segment_roundings = [] := by decide
end hash_Segment

#print axioms hash_Segment_comm
#print axioms hash_Segment_eq_of_same
end G3D.KTie.Khash
