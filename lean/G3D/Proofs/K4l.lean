import G3D.Proofs.K4k
import G3D.Proofs.ExactAll

/-! # Kernel K4, part l: the returned polyhedron is a valid operand again

    * `K4.FacetBody.closedSurface`, `K4.FacetBody.faceLocal`, `K4.FacetBody.valid`, `K4.FacetBody.proper`
    * `K4.result_exactHyp` : every body returned by `ConvexPolyhedron(collected polygons)` is `Valid`, satisfies
      `ExactHyp`, and its membership test / hull is exactly `A ∩ B`
    * `interPolyhedronPolyhedron_result_exactHyp`, `interPolyhedronPolyhedron_ok_opOK`,
      `interPolyhedronPolyhedron_exactOK_of_euler` -/
namespace G3D
open V3

namespace K4.FacetBody
variable {A B R : Polyhedron}

theorem dirEdges_eq (R : Polyhedron) :
    dirEdges (R.faces.map (·.pts)) = R.faces.flatMap (fun h => closedPairs h.pts) := by
  unfold dirEdges
  rw [List.flatMap_map]

theorem dirEdges_nodup (hb : K4.FacetBody A B R) : (dirEdges (R.faces.map (·.pts))).Nodup := by
  rw [dirEdges_eq, List.nodup_flatMap]
  refine ⟨fun h hh => K4.closedPairs_nodup h.pts (hb.face h hh).valid.nodup, ?_⟩
  refine List.Pairwise.imp_of_mem ?_ hb.distinct
  intro h1 h2 hh1 hh2 hne
  simp only [Function.onFun]
  intro e he1 he2
  exact hne (hb.edge_unique h1 h2 hh1 hh2 e he1 he2)

theorem dirEdges_swap (hb : K4.FacetBody A B R) (e : V3 × V3) (he : e ∈ dirEdges (R.faces.map (·.pts))) :
    e.swap ∈ dirEdges (R.faces.map (·.pts)) := by
  obtain ⟨h1, hh1, he1⟩ := (mem_dirEdges R.faces e).mp he
  obtain ⟨a, b⟩ := e
  obtain ⟨h2, hh2, he2, _⟩ := hb.edge_partner h1 hh1 a b he1
  exact (mem_dirEdges R.faces _).mpr ⟨h2, hh2, he2⟩

/-- **the faces form a closed surface**: every directed edge occurs exactly once, and so does its reverse -/
theorem closedSurface (hb : K4.FacetBody A B R) : ClosedSurface (R.faces.map (·.pts)) := by
  unfold ClosedSurface
  set L := dirEdges (R.faces.map (·.pts)) with hL
  have hnd : L.Nodup := hb.dirEdges_nodup
  have hnd' : (L.map Prod.swap).Nodup := hnd.map Prod.swap_injective
  have hsub : L.map Prod.swap ⊆ L := by
    intro e he
    obtain ⟨e', he', rfl⟩ := List.mem_map.mp he
    exact hb.dirEdges_swap e' he'
  have hsp := List.subperm_of_subset hnd' hsub
  exact (hsp.perm_of_length_le (by rw [List.length_map])).symm

theorem faceLocal (hb : K4.FacetBody A B R) : R.FaceLocal := by
  intro f hf e he
  obtain ⟨a, b⟩ := e
  obtain ⟨g, hg, _, ga, gb, v, hv, hlt⟩ := hb.edge_partner f hf a b he
  exact ⟨g, hg, ga, gb, v, hv, hlt⟩

theorem validCore (hb : K4.FacetBody A B R) : R.ValidCore :=
  ⟨hb.nonempty, fun f hf => (hb.face f hf).valid, fun f hf => (hb.face f hf).center, hb.pts_sub, hb.vertsInside,
    hb.closedSurface⟩

theorem valid (hb : K4.FacetBody A B R) : R.Valid := by
  obtain ⟨c, hc⟩ := hb.interior
  exact ⟨hb.nonempty, fun f hf => (hb.face f hf).valid, fun f hf => (hb.face f hf).center, hb.pts_sub,
    hb.vertsInside, hb.closedSurface, ⟨c, hb.side_strict hc⟩⟩

theorem proper (hb : K4.FacetBody A B R) : R.Proper := ⟨hb.validCore, hb.faceLocal⟩

end K4.FacetBody
#print axioms K4.FacetBody.closedSurface

/-- **the stored result is a valid operand**: every body returned by `ConvexPolyhedron(collected polygons)` is `Valid`
    (closed surface, vertices inside, interior point) and `FaceLocal`, its edge list is exact — so it satisfies
    `ExactHyp` — and its membership test and the hull of its vertices are exactly `A ∩ B` -/
theorem K4.result_exactHyp {A B : Polyhedron} (hA : A.ExactHyp) (hB : B.ExactHyp) {p : Parts}
    (hp : K4.Parts2 A B p) (h2 : 2 ≤ p.gons.length) (R : Polyhedron) (hR : Polyhedron.mk? p.gons = .ok R) :
    R.Valid ∧ R.ExactHyp ∧
      (∀ x, R.contains x = true ↔ (InHull A.verts x ∧ InHull B.verts x)) ∧
      (∀ x, InHull R.verts x ↔ (InHull A.verts x ∧ InHull B.verts x)) := by
  have hb := K4.facetBody_of_mk hA hB hp h2 R hR
  obtain ⟨e1, e2, e3⟩ := Polyhedron.mk?_edges_exact p.gons (fun g hg => (hp.gon_full hA hB g hg).1) R hR
  exact ⟨hb.valid, ⟨hb.proper, e1, e2, e3⟩, hb.contains_iff_hull hA hB, K4.exact_of_mk hA hB hp h2 R hR⟩
#print axioms K4.result_exactHyp

/-- a polyhedron returned by `intersection(A, B)` is `Valid`, satisfies `ExactHyp` and is exactly `A ∩ B` -/
theorem interPolyhedronPolyhedron_result_exactHyp (A B : Polyhedron) (hA : A.ExactHyp) (hB : B.ExactHyp)
    (R : Polyhedron) (h : interPolyhedronPolyhedron A B = .ok (some (.polyhedron R))) :
    R.Valid ∧ R.ExactHyp ∧
      (∀ x, R.contains x = true ↔ (InHull A.verts x ∧ InHull B.verts x)) ∧
      (∀ x, InHull R.verts x ↔ (InHull A.verts x ∧ InHull B.verts x)) := by
  obtain ⟨p, hp, hcases⟩ := interPolyhedronPolyhedron_total A B hA hB
  rcases hcases with ⟨_, o, ho, hsh, _⟩ | ⟨h2, _, heq, _⟩
  · rw [ho] at h; cases h; cases hsh
  · rw [heq] at h
    cases hm : Polyhedron.mk? p.gons with
    | error ce => rw [hm] at h; simp [liftC, bind, Except.bind] at h
    | ok R' =>
      rw [hm] at h
      simp only [liftC, bind, Except.bind, pure, Except.pure] at h
      cases h
      exact K4.result_exactHyp hA hB hp h2 R hm

/-- **whatever `intersection(A, B)` returns is an admissible operand denoting exactly `A ∩ B`**: a well-formed flat,
    a Valid polygon, or a polyhedron satisfying `ExactHyp` -/
theorem interPolyhedronPolyhedron_ok_opOK (A B : Polyhedron) (hA : A.ExactHyp) (hB : B.ExactHyp)
    (o : Option Obj) (h : interPolyhedronPolyhedron A B = .ok o) :
    (∀ ob, o = some ob → OpOK ob) ∧ ∀ x, denOptB o x ↔ (InHull A.verts x ∧ InHull B.verts x) := by
  obtain ⟨hw, hd⟩ := (interPolyhedronPolyhedron_exact_of_ok A B hA hB).1 o h
  refine ⟨?_, hd⟩
  rintro ob rfl
  obtain ⟨p, hp, hcases⟩ := interPolyhedronPolyhedron_total A B hA hB
  cases ob with
  | polyhedron R => exact (interPolyhedronPolyhedron_result_exactHyp A B hA hB R h).2.1
  | flat g =>
    rcases hcases with ⟨_, o', ho', hsh, _⟩ | ⟨h2, _, heq, _⟩
    · rw [ho'] at h; cases h
      cases hsh with
      | point q => trivial
      | seg s hs => exact hs
    · rw [heq] at h
      cases hm : Polyhedron.mk? p.gons with
      | error ce => rw [hm] at h; simp [liftC, bind, Except.bind] at h
      | ok R' => rw [hm] at h; simp only [liftC, bind, Except.bind, pure, Except.pure] at h; cases h
  | polygon Q =>
    rcases hcases with ⟨_, o', ho', hsh, _⟩ | ⟨h2, _, heq, _⟩
    · rw [ho'] at h; cases h
      cases hsh with
      | gon Q hv => exact hv
    · rw [heq] at h
      cases hm : Polyhedron.mk? p.gons with
      | error ce => rw [hm] at h; simp [liftC, bind, Except.bind] at h
      | ok R' => rw [hm] at h; simp only [liftC, bind, Except.bind, pure, Except.pure] at h; cases h
#print axioms interPolyhedronPolyhedron_ok_opOK

/-- **K4 under the Euler hypothesis**: if the collected complex has Euler number 2 whenever two or more polygons are
    collected, `intersection(A, B)` returns — without error — None, a well-formed flat, a Valid polygon or a
    polyhedron satisfying `ExactHyp`, denoting exactly `A ∩ B` -/
theorem interPolyhedronPolyhedron_exactOK_of_euler (A B : Polyhedron) (hA : A.ExactHyp) (hB : B.ExactHyp)
    (heul : ∀ p, K4.Parts2 A B p → 2 ≤ p.gons.length → K4.eulerOf p.gons = 2) :
    ∃ o, interPolyhedronPolyhedron A B = .ok o ∧ (∀ ob, o = some ob → OpOK ob) ∧
      ∀ x, denOptB o x ↔ (InHull A.verts x ∧ InHull B.verts x) := by
  obtain ⟨p, hp, hcases⟩ := interPolyhedronPolyhedron_ok_or_euler A B hA hB
  have key : ∀ o, interPolyhedronPolyhedron A B = .ok o → ∃ o, interPolyhedronPolyhedron A B = .ok o ∧
      (∀ ob, o = some ob → OpOK ob) ∧ ∀ x, denOptB o x ↔ (InHull A.verts x ∧ InHull B.verts x) :=
    fun o ho => ⟨o, ho, interPolyhedronPolyhedron_ok_opOK A B hA hB o ho⟩
  rcases hcases with ⟨_, o, ho, _⟩ | ⟨_, _, R, _, ho, _⟩ | ⟨h2, hne, _⟩
  · exact key o ho
  · exact key _ ho
  · exact absurd (heul p hp h2) hne
#print axioms interPolyhedronPolyhedron_exactOK_of_euler

end G3D
