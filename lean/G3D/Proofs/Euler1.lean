import G3D.Proofs.K4l

/-! # Euler's polyhedron formula, part 1: counting lemmas on lists

    * `Eu.consec3`, `Eu.cycTriples` : the cyclic triples `(pred, v, succ)` of a vertex cycle and their projections
      onto the directed edges (`Eu.cycTriples_left`, `Eu.cycTriples_right_perm`, `Eu.cycTriples_mid_perm`)
    * `Eu.edges_count` : for a closed surface in which every directed edge occurs once, the number of undirected edges
      the constructor counts (`edgesOf fs []`) is the number of ASCENDING directed edges w.r.t. a functional that
      separates the end points of every edge
    * `Eu.length_filter_two` : removing two distinct members of a duplicate-free list -/
namespace G3D
open V3

/-! ### consecutive triples -/

/-- consecutive triples of a path -/
def Eu.consec3 : List V3 → List (V3 × V3 × V3)
  | a :: b :: c :: l => (a, b, c) :: Eu.consec3 (b :: c :: l)
  | _ => []

/-- cyclic triples `(pred, v, succ)` of a vertex cycle -/
def Eu.cycTriples : List V3 → List (V3 × V3 × V3)
  | a :: b :: l => Eu.consec3 (a :: b :: l ++ [a, b])
  | _ => []

theorem Eu.consec3_right : ∀ l : List V3, (Eu.consec3 l).map (fun t => (t.2.1, t.2.2)) = consec l.tail
  | [] => rfl
  | [_] => rfl
  | [_, _] => rfl
  | a :: b :: c :: l => by
    have ih := Eu.consec3_right (b :: c :: l)
    simp only [Eu.consec3, List.map_cons, List.tail_cons, consec] at ih ⊢
    rw [ih]

theorem Eu.consec3_left : ∀ l : List V3, (Eu.consec3 l).map (fun t => (t.1, t.2.1)) = consec l.dropLast
  | [] => rfl
  | [_] => rfl
  | [_, _] => rfl
  | a :: b :: c :: l => by
    have ih := Eu.consec3_left (b :: c :: l)
    simp only [Eu.consec3, List.map_cons, List.dropLast_cons_cons, consec] at ih ⊢
    rw [ih]

theorem Eu.dropLast_two (X : List V3) (a b : V3) : (X ++ [a, b]).dropLast = X ++ [a] := by
  have : X ++ [a, b] = (X ++ [a]) ++ [b] := by simp
  rw [this, List.dropLast_concat]

/-- the pairs `(pred, v)` of the cyclic triples are the directed edges -/
theorem Eu.cycTriples_left (a b : V3) (l : List V3) :
    (Eu.cycTriples (a :: b :: l)).map (fun t => (t.1, t.2.1)) = closedPairs (a :: b :: l) := by
  unfold Eu.cycTriples closedPairs
  rw [Eu.consec3_left]
  have : (a :: b :: l ++ [a, b]).dropLast = a :: (b :: l) ++ [a] := Eu.dropLast_two (a :: b :: l) a b
  rw [this]

/-- the pairs `(v, succ)` of the cyclic triples are the directed edges of the cycle rotated by one -/
theorem Eu.cycTriples_right (a b : V3) (l : List V3) :
    (Eu.cycTriples (a :: b :: l)).map (fun t => (t.2.1, t.2.2)) = closedPairs (b :: l ++ [a]) := by
  unfold Eu.cycTriples closedPairs
  rw [Eu.consec3_right]
  simp

theorem Eu.cycTriples_right_perm (a b : V3) (l : List V3) :
    List.Perm ((Eu.cycTriples (a :: b :: l)).map (fun t => (t.2.1, t.2.2))) (closedPairs (a :: b :: l)) := by
  rw [Eu.cycTriples_right]
  exact closedPairs_rotate1 a (b :: l)

theorem Eu.closedPairs_fst (l : List V3) : (closedPairs l).map Prod.fst = l := by
  cases l with
  | nil => rfl
  | cons p ps =>
    unfold closedPairs
    rw [K4.consec_fst]
    have := List.dropLast_concat (l₁ := p :: ps) (b := p)
    simpa using this

/-- the middle vertices of the cyclic triples are the vertices of the cycle -/
theorem Eu.cycTriples_mid_perm (a b : V3) (l : List V3) :
    List.Perm ((Eu.cycTriples (a :: b :: l)).map (fun t => t.2.1)) (a :: b :: l) := by
  have h : (Eu.cycTriples (a :: b :: l)).map (fun t => t.2.1) =
      ((Eu.cycTriples (a :: b :: l)).map (fun t => (t.2.1, t.2.2))).map Prod.fst := by
    rw [List.map_map]; rfl
  rw [h, Eu.cycTriples_right, Eu.closedPairs_fst]
  have : b :: l ++ [a] = (b :: l) ++ [a] := rfl
  rw [this]
  exact List.perm_append_singleton a (b :: l)

theorem Eu.cycTriples_mem (l : List V3) (t : V3 × V3 × V3) (ht : t ∈ Eu.cycTriples l) :
    (t.1, t.2.1) ∈ closedPairs l ∧ (t.2.1, t.2.2) ∈ closedPairs l := by
  match l with
  | [] => simp [Eu.cycTriples] at ht
  | [a] => simp [Eu.cycTriples] at ht
  | a :: b :: l =>
    constructor
    · rw [← Eu.cycTriples_left]
      exact List.mem_map.mpr ⟨t, ht, rfl⟩
    · exact (Eu.cycTriples_right_perm a b l).mem_iff.mp (List.mem_map.mpr ⟨t, ht, rfl⟩)

/-- in a duplicate-free cycle, two cyclic triples with the same middle vertex coincide -/
theorem Eu.cycTriples_mid_inj (l : List V3) (hnd : l.Nodup) (t t' : V3 × V3 × V3)
    (ht : t ∈ Eu.cycTriples l) (ht' : t' ∈ Eu.cycTriples l) (h : t.2.1 = t'.2.1) : t = t' := by
  match l with
  | [] => simp [Eu.cycTriples] at ht
  | [a] => simp [Eu.cycTriples] at ht
  | a :: b :: l =>
    have hn : ((Eu.cycTriples (a :: b :: l)).map (fun t => t.2.1)).Nodup :=
      (Eu.cycTriples_mid_perm a b l).nodup_iff.mpr hnd
    exact List.inj_on_of_nodup_map hn ht ht' h

theorem Eu.cycTriples_nodup (l : List V3) (hnd : l.Nodup) : (Eu.cycTriples l).Nodup := by
  match l with
  | [] => simp [Eu.cycTriples]
  | [a] => simp [Eu.cycTriples]
  | a :: b :: l =>
    exact List.Nodup.of_map _ ((Eu.cycTriples_mid_perm a b l).nodup_iff.mpr hnd)

/-- every vertex of a cycle with at least two vertices is the middle of a cyclic triple -/
theorem Eu.cycTriples_exists (l : List V3) (hlen : 2 ≤ l.length) (v : V3) (hv : v ∈ l) :
    ∃ t ∈ Eu.cycTriples l, t.2.1 = v := by
  match l with
  | [] => simp at hlen
  | [a] => simp at hlen
  | a :: b :: l =>
    have := (Eu.cycTriples_mid_perm a b l).mem_iff.mpr hv
    obtain ⟨t, ht, rfl⟩ := List.mem_map.mp this
    exact ⟨t, ht, rfl⟩

/-! ### counting -/

theorem Eu.countP_split {α : Type} (p q r : α → Bool) : ∀ l : List α,
    (∀ x ∈ l, p x = (q x || r x)) → (∀ x ∈ l, ¬ (q x = true ∧ r x = true)) →
    l.countP p = l.countP q + l.countP r := by
  intro l
  induction l with
  | nil => intro _ _; rfl
  | cons a l ih =>
    intro h1 h2
    have ih' := ih (fun x hx => h1 x (List.mem_cons_of_mem _ hx)) (fun x hx => h2 x (List.mem_cons_of_mem _ hx))
    have ha := h1 a (by simp)
    have hb := h2 a (by simp)
    rw [List.countP_cons, List.countP_cons, List.countP_cons, ih', ha]
    cases hq : q a <;> cases hr : r a <;> simp_all <;> omega

/-- removing two distinct members of a duplicate-free list -/
theorem Eu.length_filter_two (V : List V3) (hnd : V.Nodup) (a b : V3) (ha : a ∈ V) (hb : b ∈ V) (hab : a ≠ b) :
    (V.filter (fun v => decide (v ≠ a ∧ v ≠ b))).length + 2 = V.length := by
  have h1 : V.countP (fun v => decide (v ≠ a ∧ v ≠ b)) + V.countP (fun v => !decide (v ≠ a ∧ v ≠ b)) = V.length := by
    have := Eu.countP_split (fun _ => true) (fun v => decide (v ≠ a ∧ v ≠ b)) (fun v => !decide (v ≠ a ∧ v ≠ b)) V
      (fun x _ => by cases decide (x ≠ a ∧ x ≠ b) <;> rfl)
      (fun x _ h => by cases hx : decide (x ≠ a ∧ x ≠ b) <;> simp [hx] at h)
    rw [List.countP_true] at this
    exact this.symm
  have h2 : V.countP (fun v => !decide (v ≠ a ∧ v ≠ b)) = V.countP (· == a) + V.countP (· == b) := by
    apply Eu.countP_split
    · intro x _
      by_cases hxa : x = a <;> by_cases hxb : x = b <;> simp [hxa, hxb]
    · intro x _ ⟨h3, h4⟩
      simp only [beq_iff_eq] at h3 h4
      exact hab (h3.symm.trans h4)
  have h3 : V.countP (· == a) = 1 := by
    have := List.count_eq_one_of_mem hnd ha
    rwa [List.count] at this
  have h4 : V.countP (· == b) = 1 := by
    have := List.count_eq_one_of_mem hnd hb
    rwa [List.count] at this
  rw [← List.countP_eq_length_filter]
  omega

/-! ### the number of undirected edges is the number of ascending directed edges -/

/-- for a closed surface in which every directed edge occurs once, and a functional `d` that separates the end
    points of every edge: `edgesOf fs []` has as many entries as there are directed edges ascending w.r.t. `d` -/
theorem Eu.edges_count (fs : List Polygon) (d : V3)
    (hc : ClosedSurface (fs.map (·.pts))) (hnd : (dirEdges (fs.map (·.pts))).Nodup)
    (hsep : ∀ e ∈ dirEdges (fs.map (·.pts)), dot d e.1 ≠ dot d e.2) :
    (edgesOf fs []).length = (dirEdges (fs.map (·.pts))).countP (fun e => decide (dot d e.1 < dot d e.2)) := by
  set L := dirEdges (fs.map (·.pts)) with hL
  set A := L.filter (fun e => decide (dot d e.1 < dot d e.2)) with hA
  have hlen : (A.map (fun e => Seg.mk' e.1 e.2)).length = L.countP (fun e => decide (dot d e.1 < dot d e.2)) := by
    rw [List.length_map, hA, List.countP_eq_length_filter]
  rw [← hlen]
  have hAmem : ∀ e, e ∈ A ↔ e ∈ L ∧ dot d e.1 < dot d e.2 := by
    intro e; rw [hA, List.mem_filter]; simp
  apply length_eq_of_classes (fun a b : Seg => a.same b = true) (fun _ _ => Seg.same_symm)
    (fun _ _ _ => Seg.same_trans) _ _ (edgesOf_noSame fs [] List.Pairwise.nil)
  · -- ascending representatives are pairwise different undirected edges
    rw [List.pairwise_map]
    have hAnd : A.Nodup := hnd.filter _
    refine List.Pairwise.imp_of_mem ?_ hAnd
    intro e e' he he' hne
    rw [Seg.same_iff]
    simp only [Seg.mk']
    rintro (⟨h1, h2⟩ | ⟨h1, h2⟩)
    · exact hne (Prod.ext h1 h2)
    · have a1 := ((hAmem e).mp he).2
      have a2 := ((hAmem e').mp he').2
      rw [h1, h2] at a1
      exact lt_asymm a1 a2
  · intro a ha
    rcases edgesOf_mem fs [] a ha with h' | ⟨f, hf, e, he, rfl⟩
    · cases h'
    · have heL : e ∈ L := (mem_dirEdges fs e).mpr ⟨f, hf, he⟩
      rcases lt_or_gt_of_ne (hsep e heL) with hlt | hgt
      · exact ⟨_, List.mem_map.mpr ⟨e, (hAmem e).mpr ⟨heL, hlt⟩, rfl⟩, Seg.same_refl _⟩
      · have hsw : e.swap ∈ L := by
          have := (List.Perm.mem_iff hc).mp heL
          obtain ⟨e', he', rfl⟩ := List.mem_map.mp this
          simpa using he'
        refine ⟨_, List.mem_map.mpr ⟨e.swap, (hAmem _).mpr ⟨hsw, by simpa using hgt⟩, rfl⟩, ?_⟩
        exact Seg.same_mk'_swap e.1 e.2
  · intro b hb
    obtain ⟨e, he, rfl⟩ := List.mem_map.mp hb
    obtain ⟨f, hf, hef⟩ := (mem_dirEdges fs e).mp ((hAmem e).mp he).1
    exact edgesOf_covers fs [] f hf e hef
#print axioms Eu.edges_count

end G3D
