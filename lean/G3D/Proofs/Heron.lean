import G3D.Model.Measure
import G3D.Proofs.Vec
import Mathlib.Analysis.SpecialFunctions.Sqrt

/-! `get_triangle_area` (geometry/polygon.py) evaluates Heron's formula
      a = |pa pb|, b = |pb pc|, c = |pc pa|, p = (a+b+c)/2, area = sqrt(p (p-a) (p-b) (p-c)).
    Here: Heron's radicand is the polynomial `(2a²b²+2b²c²+2c²a²-a⁴-b⁴-c⁴)/16`, that polynomial in
    the squared side lengths is `4 |u × v|²` (u = pb - pa, v = pc - pa), hence the Heron value is
    `|u × v| / 2`, the cross-product form used by the model (`triNum`).  Heron's expression is symmetric
    in (a,b,c), so the assignment of the names to the three sides is immaterial. -/
namespace G3D
open V3

/-- Heron's radicand as a polynomial in the side lengths -/
theorem heron_identity (a b c : ℝ) :
    16 * (((a+b+c)/2) * ((a+b+c)/2 - a) * ((a+b+c)/2 - b) * ((a+b+c)/2 - c))
      = 2*a^2*b^2 + 2*b^2*c^2 + 2*c^2*a^2 - a^4 - b^4 - c^4 := by
  ring

/-- the same polynomial, in the *squared* side lengths of the triangle spanned by `u`, `v`, is
    four times the squared norm of the cross product (exact, over `Rat`) -/
theorem heron_cross (u v : V3) :
    2 * normSq u * normSq v + 2 * normSq v * normSq (sub u v) + 2 * normSq (sub u v) * normSq u
        - (normSq u)^2 - (normSq v)^2 - (normSq (sub u v))^2
      = 4 * normSq (cross u v) := by
  simp only [normSq, dot, cross, sub]; ring

/-- the same with the three sides named as in the code: `pa pb`, `pb pc`, `pc pa` -/
theorem heron_cross_points (pa pb pc : V3) :
    2 * normSq (sub pb pa) * normSq (sub pc pb) + 2 * normSq (sub pc pb) * normSq (sub pa pc)
        + 2 * normSq (sub pa pc) * normSq (sub pb pa)
        - (normSq (sub pb pa))^2 - (normSq (sub pc pb))^2 - (normSq (sub pa pc))^2
      = 4 * normSq (cross (sub pb pa) (sub pc pa)) := by
  simp only [normSq, dot, cross, sub]; ring

/-- abstract form: if the squared sides `A B C ≥ 0` satisfy the polynomial relation with `N`, then the
    Heron value computed from `a = √A, b = √B, c = √C` is `√N / 2`; in particular the radicand is `N/4` -/
theorem heron_radicand (A B C N : ℝ) (hA : 0 ≤ A) (hB : 0 ≤ B) (hC : 0 ≤ C)
    (h : 2*A*B + 2*B*C + 2*C*A - A^2 - B^2 - C^2 = 4 * N) :
    ((√A+√B+√C)/2) * ((√A+√B+√C)/2 - √A) * ((√A+√B+√C)/2 - √B) * ((√A+√B+√C)/2 - √C) = N / 4 := by
  have h16 := heron_identity (√A) (√B) (√C)
  have e4 : ∀ x : ℝ, 0 ≤ x → (√x)^4 = x^2 := by
    intro x hx
    have : (√x)^4 = ((√x)^2)^2 := by ring
    rw [this, Real.sq_sqrt hx]
  rw [Real.sq_sqrt hA, Real.sq_sqrt hB, Real.sq_sqrt hC, e4 A hA, e4 B hB, e4 C hC] at h16
  linarith

theorem heron_sqrt (A B C N : ℝ) (hA : 0 ≤ A) (hB : 0 ≤ B) (hC : 0 ≤ C)
    (h : 2*A*B + 2*B*C + 2*C*A - A^2 - B^2 - C^2 = 4 * N) :
    √(((√A+√B+√C)/2) * ((√A+√B+√C)/2 - √A) * ((√A+√B+√C)/2 - √B) * ((√A+√B+√C)/2 - √C))
      = (1/2) * √N := by
  rw [heron_radicand A B C N hA hB hC h]
  have : N / 4 = (1/2)^2 * N := by ring
  rw [this, Real.sqrt_mul (by positivity), Real.sqrt_sq (by norm_num)]

/-- squared norm of a real triple -/
def nsqR (x y z : ℝ) : ℝ := x^2 + y^2 + z^2

theorem nsqR_nonneg (x y z : ℝ) : 0 ≤ nsqR x y z := by unfold nsqR; positivity

/-- Heron over ℝ for the triangle spanned by `u = (ux,uy,uz)` and `v = (vx,vy,vz)`:
    with `a = |u|`, `b = |v|`, `c = |u - v|` the Heron value equals `|u × v| / 2`,
    and the radicand is non-negative (so `math.sqrt` never sees a negative exact argument) -/
theorem heron_area_eq (ux uy uz vx vy vz : ℝ) :
    let a := √(nsqR ux uy uz)
    let b := √(nsqR vx vy vz)
    let c := √(nsqR (ux-vx) (uy-vy) (uz-vz))
    let s := (a+b+c)/2
    0 ≤ s * (s - a) * (s - b) * (s - c) ∧
    √(s * (s - a) * (s - b) * (s - c))
      = (1/2) * √(nsqR (uy*vz - uz*vy) (uz*vx - ux*vz) (ux*vy - uy*vx)) := by
  intro a b c s
  have h : 2 * nsqR ux uy uz * nsqR vx vy vz + 2 * nsqR vx vy vz * nsqR (ux-vx) (uy-vy) (uz-vz)
      + 2 * nsqR (ux-vx) (uy-vy) (uz-vz) * nsqR ux uy uz
      - (nsqR ux uy uz)^2 - (nsqR vx vy vz)^2 - (nsqR (ux-vx) (uy-vy) (uz-vz))^2
      = 4 * nsqR (uy*vz - uz*vy) (uz*vx - ux*vz) (ux*vy - uy*vx) := by
    unfold nsqR; ring
  constructor
  · have := heron_radicand _ _ _ _ (nsqR_nonneg ux uy uz) (nsqR_nonneg vx vy vz)
      (nsqR_nonneg (ux-vx) (uy-vy) (uz-vz)) h
    show 0 ≤ s * (s - a) * (s - b) * (s - c)
    rw [show s * (s - a) * (s - b) * (s - c) = _ from this]
    have := nsqR_nonneg (uy*vz - uz*vy) (uz*vx - ux*vz) (ux*vy - uy*vx)
    linarith
  · exact heron_sqrt _ _ _ _ (nsqR_nonneg ux uy uz) (nsqR_nonneg vx vy vz)
      (nsqR_nonneg (ux-vx) (uy-vy) (uz-vz)) h

/-- the same for rational vectors of the model (components cast to ℝ) -/
theorem heron_area_V3 (u v : V3) :
    let a := √((normSq u : ℚ) : ℝ)
    let b := √((normSq v : ℚ) : ℝ)
    let c := √((normSq (sub u v) : ℚ) : ℝ)
    let s := (a+b+c)/2
    √(s * (s - a) * (s - b) * (s - c)) = (1/2) * √((normSq (cross u v) : ℚ) : ℝ) := by
  intro a b c s
  have nn : ∀ w : V3, (0:ℝ) ≤ ((normSq w : ℚ) : ℝ) := by
    intro w
    have : (0:ℚ) ≤ normSq w := by
      simp only [normSq, dot]; nlinarith [mul_self_nonneg w.x, mul_self_nonneg w.y, mul_self_nonneg w.z]
    exact_mod_cast this
  have h := heron_cross u v
  have hR : 2 * ((normSq u : ℚ) : ℝ) * ((normSq v : ℚ) : ℝ)
      + 2 * ((normSq v : ℚ) : ℝ) * ((normSq (sub u v) : ℚ) : ℝ)
      + 2 * ((normSq (sub u v) : ℚ) : ℝ) * ((normSq u : ℚ) : ℝ)
      - ((normSq u : ℚ) : ℝ)^2 - ((normSq v : ℚ) : ℝ)^2 - ((normSq (sub u v) : ℚ) : ℝ)^2
      = 4 * ((normSq (cross u v) : ℚ) : ℝ) := by
    exact_mod_cast h
  exact heron_sqrt _ _ _ _ (nn u) (nn v) (nn (sub u v)) hR

/-- link to the model's numerator: when the plane normal `n` is parallel to `w = (a-c) × (b-c)`
    (the triangle lies in the plane), `triNum² = |n|² |w|²`, i.e. `triNum / (2|n|) = |w|/2` is the
    Heron value of `heron_area_V3` for `u = a - c`, `v = b - c`. -/
theorem triNum_sq (n c a b : V3) (hpar : cross n (cross (sub a c) (sub b c)) = zero) :
    (triNum n c a b)^2 = normSq n * normSq (cross (sub a c) (sub b c)) := by
  have hl := lagrange n (cross (sub a c) (sub b c))
  rw [hpar] at hl
  have h0 : normSq zero = 0 := by simp [normSq, dot, zero]
  rw [h0] at hl
  have : (triNum n c a b)^2 = (dot n (cross (sub a c) (sub b c)))^2 := by
    unfold triNum absQ
    split <;> ring
  rw [this]; linarith

#print axioms heron_identity
#print axioms heron_cross
#print axioms heron_area_eq
#print axioms heron_area_V3
#print axioms triNum_sq
end G3D
