import G3D.Proofs.MeasMove
import G3D.Proofs.BridgeExact

/-! Non-vacuity of the hypotheses of the C06 theorems (`MeasPolygon`, `MeasBody`, `MeasMove`): the unit square given
    in two orders (with a repeated point, one call with `reverse = True`) and the unit cube built from its faces
    listed backwards and turned inside out (`Bridge.cubeInput`). -/
namespace G3D
open V3

/-! ### a Bool certificate for strictly convex position -/
/-- `ds[i]` is a direction in which `l[i]` is the strict maximum over `l` -/
def Meas.strictConvexCertB (l ds : List V3) : Bool :=
  l.length == ds.length &&
  (l.zip ds).all (fun pd => l.all (fun q => q == pd.1 || decide (dot pd.2 q < dot pd.2 pd.1)))

theorem Meas.strictConvexPos_of_cert (l ds : List V3) (h : Meas.strictConvexCertB l ds = true) :
    StrictConvexPos l := by
  simp only [Meas.strictConvexCertB, Bool.and_eq_true, beq_iff_eq, List.all_eq_true] at h
  obtain ⟨hlen, hall⟩ := h
  intro p hp
  obtain ⟨i, hi, rfl⟩ := List.getElem_of_mem hp
  have hi' : i < ds.length := hlen ▸ hi
  have hz : (l[i], ds[i]) ∈ l.zip ds := by
    have hiz : i < (l.zip ds).length := by rw [List.length_zip]; omega
    have h2 : (l.zip ds)[i] = (l[i], ds[i]) := by simp [List.getElem_zip]
    exact h2 ▸ List.getElem_mem hiz
  refine ⟨ds[i], fun q hq hne => ?_⟩
  have := hall _ hz q hq
  simp only [Bool.or_eq_true, beq_iff_eq, decide_eq_true_eq] at this
  rcases this with h | h
  · exact absurd h hne
  · exact h

/-! ### a convex quadrilateral (area 9/2), two inputs -/
/-- not in cyclic order; the constructor computes the normal `(0,0,-3)` from the first three points -/
def Meas.sqA : List V3 := [⟨0,0,0⟩, ⟨3,3,0⟩, ⟨1,0,0⟩, ⟨0,2,0⟩]
/-- the same four points in another order, one of them repeated; with `reverse = True` the normal is `(0,0,7)` -/
def Meas.sqB : List V3 := [⟨1,0,0⟩, ⟨0,2,0⟩, ⟨3,3,0⟩, ⟨0,0,0⟩, ⟨3,3,0⟩]

def Meas.getP (e : Except CErr Polygon) : Polygon :=
  match e with
  | .ok P => P
  | .error _ => ⟨[], ⟨zero, zero⟩, zero⟩

theorem Meas.sq_sameSet : ∀ p, p ∈ Meas.sqA ↔ p ∈ Meas.sqB := by
  intro p
  simp only [Meas.sqA, Meas.sqB, List.mem_cons, List.not_mem_nil, or_false]
  tauto

theorem Meas.sq_strictConvex : StrictConvexPos (dedupV Meas.sqA) :=
  Meas.strictConvexPos_of_cert _ [⟨-1,-1,0⟩, ⟨1,1,0⟩, ⟨1,-2,0⟩, ⟨-2,1,0⟩] (by decide +kernel)

theorem Meas.sqA_ok : Polygon.mk? Meas.sqA false = .ok (Meas.getP (Polygon.mk? Meas.sqA false)) := by decide +kernel
theorem Meas.sqB_ok : Polygon.mk? Meas.sqB true = .ok (Meas.getP (Polygon.mk? Meas.sqB true)) := by decide +kernel

/-- the hypotheses of `Polygon.mk?_measures_input_order` hold for the two inputs; the two results are different
    records (different cycles, opposite normals) -/
example :
    let P1 := Meas.getP (Polygon.mk? Meas.sqA false)
    let P2 := Meas.getP (Polygon.mk? Meas.sqB true)
    P1.areaSq = P2.areaSq ∧ List.Perm P1.edgeLenSqs P2.edgeLenSqs ∧ P1.center = P2.center ∧
      (∀ p, p ∈ P1.pts ↔ p ∈ P2.pts) :=
  Polygon.mk?_measures_input_order Meas.sqA Meas.sqB false true _ _ Meas.sq_sameSet Meas.sq_strictConvex
    Meas.sqA_ok Meas.sqB_ok

/-- … and by evaluation: different cycles (opposite sense), normals of different length and sign, different area
    numerators, area² = (9/2)² in both cases, the same edge lengths in a different order, centre (1, 5/4, 0) -/
example :
    (let P1 := Meas.getP (Polygon.mk? Meas.sqA false)
     let P2 := Meas.getP (Polygon.mk? Meas.sqB true)
     P1.pts != P2.pts && P1.plane.n == ⟨0, 0, -3⟩ && P2.plane.n == ⟨0, 0, 7⟩ &&
       P1.areaNum == 27 && P2.areaNum == 63 && P1.areaSq == 81/4 && P2.areaSq == 81/4 &&
       P1.edgeLenSqs != P2.edgeLenSqs && P1.edgeLenSqs.isPerm P2.edgeLenSqs &&
       P1.center == ⟨1, 5/4, 0⟩ && P2.center == ⟨1, 5/4, 0⟩) = true := by decide +kernel

/-- `areaSq` is the squared true area `|½ Σ pᵢ × pᵢ₊₁|²` -/
example : (Meas.getP (Polygon.mk? Meas.sqB true)).areaSq =
    normSq (vecArea2 (Meas.getP (Polygon.mk? Meas.sqB true)).pts) / 4 :=
  Polygon.mk?_areaSq Meas.sqB true _ Meas.sqB_ok (StrictConvexPos.perm Meas.sq_strictConvex
    (Meas.dedupV_perm_of_same_set _ _ Meas.sq_sameSet).symm)

/-- `-P` : hypotheses of `Polygon.neg?_measures` -/
example :
    let P := Meas.getP (Polygon.mk? Meas.sqA false)
    ∀ Q, P.neg? = .ok Q → Q.areaSq = P.areaSq ∧ List.Perm Q.edgeLenSqs P.edgeLenSqs := by
  intro P Q h
  obtain ⟨hv, hci, _⟩ := Polygon.mk?_measure_facts Meas.sqA false _ Meas.sqA_ok Meas.sq_strictConvex
  obtain ⟨_, _, ha, he, _⟩ := Polygon.neg?_measures P hv hci Q h
  exact ⟨ha, he⟩

example : (match (Meas.getP (Polygon.mk? Meas.sqA false)).neg? with
    | .ok Q => Q.areaSq == 81/4 && Q.plane.n == ⟨0, 0, 6⟩
    | .error _ => false) = true := by decide +kernel

/-! ### the unit cube from reversed, inverted faces -/
theorem Meas.unitCube_centreInside : ∀ f ∈ unitCube.faces, f.CentreInside := by
  intro f hf
  apply Polygon.CentreInside.of_mean (unitCube_valid.faces_valid f hf)
  revert f
  decide +kernel

theorem Meas.negOf_centreInside (f : Polygon) (hf : f.Valid) (hc : f.CentreInside) :
    (Bridge.negOf f).CentreInside := by
  obtain ⟨Q, _, _, _, hQ, _⟩ := Polygon.neg?_of_valid f hf
  have : Bridge.negOf f = Q := by unfold Bridge.negOf; rw [hQ]
  rw [this]
  exact (Polygon.neg?_measures f hf hc Q hQ).2.1

theorem Meas.cubeInput_centreInside : ∀ g ∈ Bridge.cubeInput, g.CentreInside := by
  intro g hg
  obtain ⟨f, hf, rfl⟩ := List.mem_map.mp hg
  have hf' := List.mem_reverse.mp hf
  exact Meas.negOf_centreInside f (unitCube_valid.faces_valid f hf') (Meas.unitCube_centreInside f hf')

theorem Meas.reoriented_refl (B0 : Polyhedron) (hV : B0.Valid) :
    List.Forall₂ Reoriented B0.faces B0.faces := by
  have := Forall₂.map_self (R := Reoriented) (fun f : Polygon => f) B0.faces
    (fun f hf => ⟨hV.faces_valid f hf, hV.center_in_plane f hf, fun _ => Iff.rfl⟩)
  rwa [List.map_id'] at this

/-- hypotheses of `Polyhedron.mk?_reoriented_measures` for `Bridge.cubeInput`: the constructor succeeds (by
    `Polyhedron.mk?_reoriented`) and the result has volume 1, twelve edges of squared length 1, six faces of squared
    area 1 -/
example : ∃ B, Polyhedron.mk? Bridge.cubeInput = .ok B ∧ B.Valid ∧ B.Stored ∧ B.volume = 1 ∧
    (∀ q, B.volume = vol6 (B.faces.map (·.pts)) q / 6) ∧
    List.Perm B.edgeLenSqs (List.replicate 12 1) ∧ List.Perm (B.faces.map Polygon.areaSq) (List.replicate 6 1) := by
  obtain ⟨B, hB, _⟩ := Polyhedron.mk?_reoriented unitCube unitCube_valid _ _ Bridge.cubeInput_hyp.1
    Bridge.cubeInput_hyp.2 unitCube_euler
  obtain ⟨hBV, hS, hvol, hed, har, _⟩ := Polyhedron.mk?_reoriented_measures unitCube unitCube_valid _ _
    Bridge.cubeInput_hyp.1 Bridge.cubeInput_hyp.2 Meas.cubeInput_centreInside B hB
  refine ⟨B, hB, hBV, hS, ?_, fun q => (B.volume_eq_surface_integral hBV hS q).1, ?_, ?_⟩
  · rw [hvol zero]; decide +kernel
  · refine hed.trans ?_
    have : (edgesOf unitCube.faces []).map Seg.lenSq = List.replicate 12 1 := by decide +kernel
    rw [this]
  · refine har.trans ?_
    have : unitCube.faces.map (fun f => normSq (vecArea2 f.pts) / 4) = List.replicate 6 1 := by decide +kernel
    rw [this]

/-- two inputs: the inverted, reversed face list and the outward face list itself -/
example (B1 B2 : Polyhedron) (h1 : Polyhedron.mk? Bridge.cubeInput = .ok B1)
    (h2 : Polyhedron.mk? unitCube.faces = .ok B2) :
    B1.volume = B2.volume ∧ List.Perm B1.edgeLenSqs B2.edgeLenSqs ∧
    List.Perm (B1.faces.map Polygon.areaSq) (B2.faces.map Polygon.areaSq) ∧ B1.center = B2.center :=
  Polyhedron.mk?_reoriented_measures_two unitCube unitCube_valid _ _ _ _ Bridge.cubeInput_hyp.1
    Bridge.cubeInput_hyp.2 (List.Perm.refl _) (Meas.reoriented_refl unitCube unitCube_valid)
    Meas.cubeInput_centreInside Meas.unitCube_centreInside B1 B2 h1 h2

/-- the same by evaluation: both constructor calls succeed, the stored face lists differ, volume 1 in both cases -/
example : (match Polyhedron.mk? Bridge.cubeInput, Polyhedron.mk? unitCube.faces with
    | .ok B1, .ok B2 => B1.volume == 1 && B2.volume == 1 && !(B1.faces == B2.faces) &&
        B1.edgeLenSqs == List.replicate 12 1 && B1.faces.map Polygon.areaSq == List.replicate 6 1
    | _, _ => false) = true := by decide +kernel

/-- the moved unit cube: hypotheses of `Polyhedron.moved_measures` -/
example (v : V3) : (unitCube.moved v).volume = 1 ∧ (unitCube.moved v).edgeLenSqs = List.replicate 12 1 ∧
    (unitCube.moved v).faces.map Polygon.areaSq = List.replicate 6 1 := by
  obtain ⟨h1, h2, h3⟩ := unitCube.moved_measures unitCube_valid Meas.unitCube_centreInside v
  refine ⟨?_, ?_, ?_⟩
  · rw [h3 zero]; decide +kernel
  · rw [h1]; decide +kernel
  · rw [h2]; decide +kernel

end G3D
