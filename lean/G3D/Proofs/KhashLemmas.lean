import G3D.Model.HashTree
import G3D.Model.VecR
import G3D.Proofs.HashKey
import G3D.Proofs.HashSum
import G3D.Proofs.VecRLemmas
import Mathlib.Analysis.Real.Sqrt
import Mathlib.Tactic.Ring
import Mathlib.Tactic.Linarith
import Mathlib.Tactic.FieldSimp
import Mathlib.Tactic.Positivity
import Mathlib.Tactic.NormNum
/-! # What the `__hash__` bodies compute, as hand-written REFERENCE functions over the reals, and their reading through the
    model's hash keys  (C08, C19)

    Hand-written and independent of every generated file (the ties `KTieKhash*.lean` prove the definitions regenerated from the
    Python source equal to the `…Ref` functions of this file).  `H` is the uninterpreted hash of a tuple, `rnd` the uninterpreted
    `round(., get_sig_figures())`: every statement holds FOR ALL of them.

    * `sigE` / `negE`: the exact reading of the two comparisons of the sign-canonicalisation loops (`abs(c) > eps` ⇔ `c ≠ 0`).
    * `keyR`: the real number that an exact key `(sign, square)` of `Model/HashKey.lean` stands for (`d/√N ↦ (sgn d, d²/N)`).
    * `planeHashRef = planeHashOfKey ∘ Plane.hashKey`, `lineHashRef = lineHashOfKey ∘ Line.hashKey`, … : the hashed tuple is a
      function of the model's key, hence — by `Plane.eqv_iff_hashKey` etc. — EQUAL OBJECTS HAVE EQUAL HASHES. -/
namespace G3D.KTie.Khash
open G3D G3D.KTie Real

abbrev HFun := List (HItem ℝ) → Int
abbrev UnitKey := (Int × Rat) × (Int × Rat) × (Int × Rat)

/-- exact reading of `abs(c) > get_eps()` -/
noncomputable def sigE (x : ℝ) : Bool := decide (x ≠ 0)
/-- exact reading of `c < 0` -/
noncomputable def negE (x : ℝ) : Bool := decide (x < 0)

/-- tolerance-aware reading of `abs(c) > get_eps()` for a tolerance `e` -/
noncomputable def sigT (e : ℝ) (x : ℝ) : Bool := decide (|x| > e)

theorem sigT_zero : sigT 0 = sigE := by
  funext x; simp [sigT, sigE]

/-- the real number an exact key (sign, square) stands for -/
noncomputable def keyR (k : Int × Rat) : ℝ := (k.1 : ℝ) * √(k.2 : ℝ)

theorem keyR_scalKey (d N : Rat) (hN : 0 < N) : keyR (scalKey d N) = (d : ℝ) * (1 / √(N : ℝ)) := by
  have hNr : (0 : ℝ) < (N : ℝ) := by exact_mod_cast hN
  have hs : 0 < √(N : ℝ) := Real.sqrt_pos.mpr hNr
  have hq : √(((d * d / N : Rat)) : ℝ) = |(d : ℝ)| / √(N : ℝ) := by
    push_cast
    rw [Real.sqrt_div' _ (le_of_lt hNr), Real.sqrt_mul_self_eq_abs]
  simp only [keyR, scalKey, hq]
  rcases rsgn_cases d with ⟨h, e⟩ | ⟨h, e⟩ | ⟨h, e⟩
  · have : (0 : ℝ) < d := by exact_mod_cast h
    rw [e, abs_of_pos this]; push_cast; ring
  · subst h; rw [e]; simp
  · have : (d : ℝ) < 0 := by exact_mod_cast h
    rw [e, abs_of_neg this]; push_cast; ring

/-- `v.normalized()` as the code computes it: `float(1 / |v|) * v` -/
noncomputable def unitR (v : RVec) : RVec :=
  ⟨v.x * (1 / √(RVec.normSq v)), v.y * (1 / √(RVec.normSq v)), v.z * (1 / √(RVec.normSq v))⟩

/-- `-v` as the code computes it: `v * -1` -/
noncomputable def negR (v : RVec) : RVec := ⟨v.x * (-1), v.y * (-1), v.z * (-1)⟩

theorem toR_neg (v : V3) : (V3.neg v).toR = negR v.toR := by
  apply RVec.ext' <;> simp [V3.neg, negR, V3.toR]

theorem normSq_negR (v : RVec) : RVec.normSq (negR v) = RVec.normSq v := by
  simp only [RVec.normSq, RVec.dot, negR]; ring

theorem unitR_negR (v : RVec) : unitR (negR v) = negR (unitR v) := by
  have h := normSq_negR v
  apply RVec.ext' <;> simp only [unitR, h] <;> simp only [negR] <;> ring

theorem normSq_unitR {v : RVec} (hv : v ≠ RVec.zero) : RVec.normSq (unitR v) = 1 := by
  have hp := nsq_pos hv
  have hs : 0 < √(RVec.normSq v) := Real.sqrt_pos.mpr hp
  have hm := Real.mul_self_sqrt (le_of_lt hp)
  have : RVec.normSq (unitR v) = RVec.normSq v * ((1 / √(RVec.normSq v)) * (1 / √(RVec.normSq v))) := by
    simp only [RVec.normSq, RVec.dot, unitR]; ring
  rw [this, div_mul_div_comm, hm, one_mul, mul_one_div, div_self (ne_of_gt hp)]

/-- normalising a unit vector again changes nothing (`Plane(p, n)` applied to a stored normal) -/
theorem unitR_unitR {v : RVec} (hv : v ≠ RVec.zero) : unitR (unitR v) = unitR v := by
  have h1 := normSq_unitR hv
  apply RVec.ext' <;> simp only [unitR] at h1 ⊢ <;> rw [h1] <;> simp

theorem toR_ne_zero {v : V3} (hv : v ≠ V3.zero) : v.toR ≠ RVec.zero := by
  intro h; rw [← toR_zero] at h; exact hv (toR_inj.mp h)

/-- the components of the stored unit vector are what the keys of `unitKey` stand for -/
theorem unitR_key (v : V3) (hv : v ≠ V3.zero) :
    unitR v.toR = ⟨keyR (unitKey v).1, keyR (unitKey v).2.1, keyR (unitKey v).2.2⟩ := by
  have hN : 0 < V3.normSq v := by
    have := nsq_pos (toR_ne_zero hv); rw [toR_normSq] at this; exact_mod_cast this
  apply RVec.ext' <;> simp only [unitR, unitKey, keyR_scalKey _ _ hN, toR_normSq, toR_x, toR_y, toR_z]

/-! ## the sign canonicalisation loop `for c in d: if abs(c) > eps: (if c < 0: flip); break`, exact reading -/

/-- does the loop flip? -/
noncomputable def flipR (n : RVec) : Bool :=
  if n.x ≠ 0 then decide (n.x < 0) else if n.y ≠ 0 then decide (n.y < 0) else decide (n.z < 0)

/-- the factor the loop applies -/
noncomputable def sgnF (n : RVec) : ℝ := if flipR n = true then -1 else 1

/-- the loop, branch by branch (the form in which the extracted decision trees are met) -/
theorem sgnF_cases (n : RVec) :
    sgnF n = if n.x ≠ 0 then (if n.x < 0 then -1 else 1) else if n.y ≠ 0 then (if n.y < 0 then -1 else 1)
      else if n.z ≠ 0 then (if n.z < 0 then -1 else 1) else 1 := by
  unfold sgnF flipR
  split_ifs <;> simp_all

theorem sgnF_sq (n : RVec) : sgnF n * sgnF n = 1 := by
  unfold sgnF; split <;> norm_num

theorem flipR_unitR (m : V3) (hm : m ≠ V3.zero) : flipR (unitR m.toR) = decide (firstSign m < 0) := by
  have hp := nsq_pos (toR_ne_zero hm)
  have ht : 0 < 1 / √(RVec.normSq m.toR) := by positivity
  have hne : ∀ c : Rat, ((c : ℝ) * (1 / √(RVec.normSq m.toR)) ≠ 0) = (c ≠ 0) := by
    intro c; simp only [ne_eq, mul_eq_zero, ne_of_gt ht, or_false, Rat.cast_eq_zero]
  have hlt : ∀ c : Rat, ((c : ℝ) * (1 / √(RVec.normSq m.toR)) < 0) = (c < 0) := by
    intro c
    rw [mul_neg_iff]
    simp only [not_lt_of_gt ht, and_false, false_or, ht, and_true, Rat.cast_lt_zero]
  simp only [flipR, unitR, toR_x, toR_y, toR_z, hne, hlt, firstSign]
  by_cases h1 : m.x ≠ 0
  · simp [h1, rsgn_lt_zero_iff]
  · by_cases h2 : m.y ≠ 0
    · simp [h1, h2, rsgn_lt_zero_iff]
    · simp [h1, h2, rsgn_lt_zero_iff]


theorem normSq_pos_of_WF {m : V3} (hm : m ≠ V3.zero) : 0 < V3.normSq m := by
  have := nsq_pos (toR_ne_zero hm); rw [toR_normSq] at this; exact_mod_cast this

theorem sgnF_unitR (m : V3) (hm : m ≠ V3.zero) : sgnF (unitR m.toR) = if firstSign m < 0 then -1 else 1 := by
  simp only [sgnF, flipR_unitR m hm, decide_eq_true_eq]

/-- the canonical unit vector of the loop = the real numbers the model's `unitKey (canon m)` stands for -/
theorem canon_unit_key (m : V3) (hm : m ≠ V3.zero) :
    (⟨sgnF (unitR m.toR) * (unitR m.toR).x, sgnF (unitR m.toR) * (unitR m.toR).y, sgnF (unitR m.toR) * (unitR m.toR).z⟩ : RVec)
      = ⟨keyR (unitKey (canon m)).1, keyR (unitKey (canon m)).2.1, keyR (unitKey (canon m)).2.2⟩ := by
  rw [sgnF_unitR m hm]
  by_cases hf : firstSign m < 0
  · have hc : canon m = V3.neg m := by simp [canon, hf]
    rw [hc, ← unitR_key (V3.neg m) (negV_ne_zero hm), toR_neg, unitR_negR]
    apply RVec.ext' <;> simp only [hf, if_true, negR] <;> ring
  · have hc : canon m = m := by simp [canon, hf]
    rw [hc, ← unitR_key m hm]
    apply RVec.ext' <;> simp only [hf, if_false, one_mul]

theorem canon_key_x (m : V3) (hm : m ≠ V3.zero) : sgnF (unitR m.toR) * (unitR m.toR).x = keyR (unitKey (canon m)).1 :=
  congrArg RVec.x (canon_unit_key m hm)
theorem canon_key_y (m : V3) (hm : m ≠ V3.zero) : sgnF (unitR m.toR) * (unitR m.toR).y = keyR (unitKey (canon m)).2.1 :=
  congrArg RVec.y (canon_unit_key m hm)
theorem canon_key_z (m : V3) (hm : m ≠ V3.zero) : sgnF (unitR m.toR) * (unitR m.toR).z = keyR (unitKey (canon m)).2.2 :=
  congrArg RVec.z (canon_unit_key m hm)

/-! ## Point, Vector -/

noncomputable def pointHashRef (H : HFun) (rnd : ℝ → ℝ) (p : RVec) : Int :=
  H [.tag "Point", .num (rnd p.x), .num (rnd p.y), .num (rnd p.z), .num (rnd p.x * rnd p.y), .num (rnd p.x * rnd p.z),
     .num (rnd p.y * rnd p.z)]

noncomputable def vectorHashRef (H : HFun) (rnd : ℝ → ℝ) (v : RVec) : Int :=
  H [.tag "Vector", .num (rnd v.x), .num (rnd v.y), .num (rnd v.z), .num (rnd v.x * rnd v.y), .num (rnd v.y * rnd v.z),
     .num (rnd v.z * rnd v.x)]

/-- a rounding of rationals to rationals (decimal rounding is one) read in the reals -/
def RoundCompat (r : Rat → Rat) (rnd : ℝ → ℝ) : Prop := ∀ q : Rat, rnd (q : ℝ) = ((r q : Rat) : ℝ)

/-- the coordinates read through a rounding -/
def mapV (r : Rat → Rat) (p : V3) : V3 := ⟨r p.x, r p.y, r p.z⟩

/-- **Point**: the hashed tuple is the model's `Point.hashTuple` of the rounded coordinates (tag "Point" in front) -/
theorem pointHashRef_tuple (H : HFun) (r : Rat → Rat) (rnd : ℝ → ℝ) (hc : RoundCompat r rnd) (p : V3) :
    pointHashRef H rnd p.toR = H ((HItem.tuple6 "Point" (Point.hashTuple (mapV r p))).map (HItem.map (Rat.cast : Rat → ℝ))) := by
  have hc' : ∀ q : Rat, rnd (q : ℝ) = ((r q : Rat) : ℝ) := hc
  simp only [pointHashRef, HItem.tuple6, Point.hashTuple, mapV, List.map, HItem.map, toR_x, toR_y, toR_z, hc']
  push_cast; rfl

/-- **Vector**: the hashed tuple is the model's `V3.hashTuple` of the rounded coordinates -/
theorem vectorHashRef_tuple (H : HFun) (r : Rat → Rat) (rnd : ℝ → ℝ) (hc : RoundCompat r rnd) (v : V3) :
    vectorHashRef H rnd v.toR = H ((HItem.tuple6 "Vector" (V3.hashTuple (mapV r v))).map (HItem.map (Rat.cast : Rat → ℝ))) := by
  have hc' : ∀ q : Rat, rnd (q : ℝ) = ((r q : Rat) : ℝ) := hc
  simp only [vectorHashRef, HItem.tuple6, V3.hashTuple, mapV, List.map, HItem.map, toR_x, toR_y, toR_z, hc']
  push_cast; rfl

/-! ## Plane -/

/-- `Plane.__hash__` on the attributes (p, n): the loop's factor applied to n and to d = n·p -/
noncomputable def planeHashRef (H : HFun) (rnd : ℝ → ℝ) (p n : RVec) : Int :=
  H [.tag "Plane", .num (rnd (sgnF n * n.x)), .num (rnd (sgnF n * n.y)), .num (rnd (sgnF n * n.z)),
     .num (rnd (sgnF n * RVec.dot n p))]

/-- the tuple hashed for a plane, from the model's exact key -/
noncomputable def planeHashOfKey (H : HFun) (rnd : ℝ → ℝ) (k : UnitKey × (Int × Rat)) : Int :=
  H [.tag "Plane", .num (rnd (keyR k.1.1)), .num (rnd (keyR k.1.2.1)), .num (rnd (keyR k.1.2.2)), .num (rnd (keyR k.2))]

theorem canon_key_d (pl : Plane) (h : pl.WF) :
    sgnF (unitR pl.n.toR) * RVec.dot (unitR pl.n.toR) pl.p.toR = keyR (scalKey pl.canonD (V3.normSq pl.n)) := by
  have hN := normSq_pos_of_WF h
  have hdot : RVec.dot (unitR pl.n.toR) pl.p.toR = ((V3.dot pl.n pl.p : Rat) : ℝ) * (1 / √((V3.normSq pl.n : Rat) : ℝ)) := by
    rw [← toR_dot, ← toR_normSq]; simp only [RVec.dot, unitR]; ring
  rw [sgnF_unitR pl.n h, hdot, keyR_scalKey _ _ hN]
  by_cases hf : firstSign pl.n < 0
  · have hd : pl.canonD = -(V3.dot pl.n pl.p) := by simp [Plane.canonD, hf]
    rw [hd]; simp only [hf, if_true]; push_cast; ring
  · have hd : pl.canonD = V3.dot pl.n pl.p := by simp [Plane.canonD, hf]
    rw [hd]; simp only [hf, if_false, one_mul]

/-- **Plane**: on a plane as constructed (stored normal = `n.normalized()`), the hash is `planeHashOfKey` of the model's key -/
theorem planeHashRef_key (H : HFun) (rnd : ℝ → ℝ) (pl : Plane) (h : pl.WF) :
    planeHashRef H rnd pl.p.toR (unitR pl.n.toR) = planeHashOfKey H rnd (Plane.hashKey pl) := by
  simp only [planeHashRef, planeHashOfKey, Plane.hashKey, canon_key_x _ h, canon_key_y _ h, canon_key_z _ h, canon_key_d pl h]

/-- **equal planes have equal hashes** (reference level), for every H and every rounding -/
theorem planeHashRef_eq_of_eqv (H : HFun) (rnd : ℝ → ℝ) (a b : Plane) (ha : a.WF) (hb : b.WF) (h : a.eqv b = true) :
    planeHashRef H rnd a.p.toR (unitR a.n.toR) = planeHashRef H rnd b.p.toR (unitR b.n.toR) := by
  rw [planeHashRef_key H rnd a ha, planeHashRef_key H rnd b hb, Plane.hashKey_of_eqv a b ha hb h]

/-- the plane with the opposite normal (`Plane.__neg__`) has the same key -/
theorem Plane.hashKey_neg (pl : Plane) (h : pl.WF) : Plane.hashKey ⟨pl.p, V3.neg pl.n⟩ = Plane.hashKey pl := by
  have hw : (⟨pl.p, V3.neg pl.n⟩ : Plane).WF := negV_ne_zero h
  apply Plane.hashKey_of_eqv _ _ hw h
  simp only [Plane.eqv, Plane.contains, V3.parallel, Bool.and_eq_true, beq_iff_eq]
  refine ⟨by ring, ?_⟩
  simp only [V3.dot, V3.normSq, V3.neg]; ring

/-- the hash of `-plane` as the code builds it (`Plane(p, -n)` normalises the negated stored normal) equals the hash of `plane` -/
theorem planeHashRef_neg (H : HFun) (rnd : ℝ → ℝ) (pl : Plane) (h : pl.WF) :
    planeHashRef H rnd pl.p.toR (unitR (negR (unitR pl.n.toR))) = planeHashRef H rnd pl.p.toR (unitR pl.n.toR) := by
  have h0 := toR_ne_zero h
  rw [unitR_negR, unitR_unitR h0, ← unitR_negR, ← toR_neg]
  have := planeHashRef_key H rnd ⟨pl.p, V3.neg pl.n⟩ (negV_ne_zero h)
  simp only at this
  rw [this, Plane.hashKey_neg pl h, ← planeHashRef_key H rnd pl h]

/-! ## Line -/

/-- `Line.__hash__` on the attributes (sv, dv): d = canonical unit direction, foot = sv − (sv·d) d -/
noncomputable def lineHashRef (H : HFun) (rnd : ℝ → ℝ) (sv dv : RVec) : Int :=
  H [.tag "Line", .num (rnd (sgnF (unitR dv) * (unitR dv).x)), .num (rnd (sgnF (unitR dv) * (unitR dv).y)),
     .num (rnd (sgnF (unitR dv) * (unitR dv).z)),
     .num (rnd (sv.x - RVec.dot sv (unitR dv) * (unitR dv).x)), .num (rnd (sv.y - RVec.dot sv (unitR dv) * (unitR dv).y)),
     .num (rnd (sv.z - RVec.dot sv (unitR dv) * (unitR dv).z))]

noncomputable def lineHashOfKey (H : HFun) (rnd : ℝ → ℝ) (k : UnitKey × V3) : Int :=
  H [.tag "Line", .num (rnd (keyR k.1.1)), .num (rnd (keyR k.1.2.1)), .num (rnd (keyR k.1.2.2)),
     .num (rnd (k.2.x : ℝ)), .num (rnd (k.2.y : ℝ)), .num (rnd (k.2.z : ℝ))]

/-- the sign chosen by the loop cancels in the foot point: `(sv·(s u)) (s c) = (sv·u) c` for `s² = 1` -/
theorem foot_sign (sv u : RVec) (s c : ℝ) (hs : s * s = 1) :
    RVec.dot sv ⟨s * u.x, s * u.y, s * u.z⟩ * (s * c) = RVec.dot sv u * c := by
  have : RVec.dot sv ⟨s * u.x, s * u.y, s * u.z⟩ * (s * c) = (s * s) * (RVec.dot sv u * c) := by
    simp only [RVec.dot]; ring
  rw [this, hs, one_mul]

theorem foot_unit (sv dv : V3) (hd : dv ≠ V3.zero) (c : Rat) :
    RVec.dot sv.toR (unitR dv.toR) * ((c : ℝ) * (1 / √(RVec.normSq dv.toR))) = ((V3.dot sv dv / V3.normSq dv * c : Rat) : ℝ) := by
  have hp := nsq_pos (toR_ne_zero hd)
  have hss : (1 / √(RVec.normSq dv.toR)) * (1 / √(RVec.normSq dv.toR)) = 1 / RVec.normSq dv.toR := by
    rw [div_mul_div_comm, Real.mul_self_sqrt (le_of_lt hp), one_mul]
  have : RVec.dot sv.toR (unitR dv.toR) * ((c : ℝ) * (1 / √(RVec.normSq dv.toR)))
      = RVec.dot sv.toR dv.toR * (c : ℝ) * ((1 / √(RVec.normSq dv.toR)) * (1 / √(RVec.normSq dv.toR))) := by
    simp only [RVec.dot, unitR]; ring
  rw [this, hss, toR_dot, toR_normSq]; push_cast; ring

/-- **Line**: the hash is `lineHashOfKey` of the model's key (canonical unit direction, foot of the origin) -/
theorem lineHashRef_key (H : HFun) (rnd : ℝ → ℝ) (l : Line) (h : l.WF) :
    lineHashRef H rnd l.sv.toR l.dv.toR = lineHashOfKey H rnd (Line.hashKey l) := by
  have fx := foot_unit l.sv l.dv h l.dv.x
  have fy := foot_unit l.sv l.dv h l.dv.y
  have fz := foot_unit l.sv l.dv h l.dv.z
  simp only [lineHashRef, lineHashOfKey, Line.hashKey, canon_key_x _ h, canon_key_y _ h, canon_key_z _ h]
  simp only [unitR, toR_x, toR_y, toR_z] at fx fy fz ⊢
  rw [fx, fy, fz]
  simp only [Line.foot, V3.sub, V3.smul]
  push_cast; rfl

/-- **equal lines have equal hashes** (reference level) -/
theorem lineHashRef_eq_of_eqv (H : HFun) (rnd : ℝ → ℝ) (a b : Line) (ha : a.WF) (hb : b.WF) (h : a.eqv b = true) :
    lineHashRef H rnd a.sv.toR a.dv.toR = lineHashRef H rnd b.sv.toR b.dv.toR := by
  rw [lineHashRef_key H rnd a ha, lineHashRef_key H rnd b hb, Line.hashKey_of_eqv a b ha hb h]

/-! ## Segment, HalfLine -/

noncomputable def segHashRef (H : HFun) (rnd : ℝ → ℝ) (a b : RVec) : Int :=
  H [.tag "Segment", .int (pointHashRef H rnd a + pointHashRef H rnd b), .int (pointHashRef H rnd a * pointHashRef H rnd b)]

theorem segHashRef_comm (H : HFun) (rnd : ℝ → ℝ) (a b : RVec) : segHashRef H rnd a b = segHashRef H rnd b a := by
  unfold segHashRef; rw [add_comm, mul_comm]

/-- the hash of a segment from the model's key (the end points sorted by `V3.lexLe`) -/
noncomputable def segHashOfKey (H : HFun) (rnd : ℝ → ℝ) (k : V3 × V3) : Int := segHashRef H rnd k.1.toR k.2.toR

theorem segHashRef_key (H : HFun) (rnd : ℝ → ℝ) (s : Seg) :
    segHashRef H rnd s.a.toR s.b.toR = segHashOfKey H rnd (Seg.hashKey s) := by
  unfold segHashOfKey Seg.hashKey Point.hashKey
  split
  · rfl
  · exact segHashRef_comm H rnd _ _

/-- **equal segments (same end points in either order) have equal hashes** -/
theorem segHashRef_eq_of_same (H : HFun) (rnd : ℝ → ℝ) (s o : Seg) (h : s.same o = true) :
    segHashRef H rnd s.a.toR s.b.toR = segHashRef H rnd o.a.toR o.b.toR := by
  rw [segHashRef_key, segHashRef_key, Seg.hashKey_of_same s o h]

noncomputable def halfLineHashRef (H : HFun) (rnd : ℝ → ℝ) (p v : RVec) : Int :=
  H [.tag "HalfLine", .int (pointHashRef H rnd p + vectorHashRef H rnd (unitR v)),
     .int (pointHashRef H rnd p * vectorHashRef H rnd (unitR v))]

noncomputable def halfLineHashOfKey (H : HFun) (rnd : ℝ → ℝ) (k : V3 × UnitKey) : Int :=
  H [.tag "HalfLine", .int (pointHashRef H rnd k.1.toR + vectorHashRef H rnd ⟨keyR k.2.1, keyR k.2.2.1, keyR k.2.2.2⟩),
     .int (pointHashRef H rnd k.1.toR * vectorHashRef H rnd ⟨keyR k.2.1, keyR k.2.2.1, keyR k.2.2.2⟩)]

theorem halfLineHashRef_key (H : HFun) (rnd : ℝ → ℝ) (h : HalfLine) (hw : h.WF) :
    halfLineHashRef H rnd h.p.toR h.v.toR = halfLineHashOfKey H rnd (HalfLine.hashKey h) := by
  simp only [halfLineHashRef, halfLineHashOfKey, HalfLine.hashKey, Point.hashKey, unitR_key _ hw.1]

/-- **equal half-lines have equal hashes** -/
theorem halfLineHashRef_eq_of_eqv (H : HFun) (rnd : ℝ → ℝ) (a b : HalfLine) (ha : a.WF) (hb : b.WF) (h : a.eqv b = true) :
    halfLineHashRef H rnd a.p.toR a.v.toR = halfLineHashRef H rnd b.p.toR b.v.toR := by
  rw [halfLineHashRef_key H rnd a ha, halfLineHashRef_key H rnd b hb, HalfLine.hashKey_of_eqv a b ha hb h]

/-! ## ConvexPolygon, ConvexPolyhedron: the tuple of hash SUMS, for any number of vertices / faces -/

/-- `ConvexPolygon.__hash__` over an arbitrary point hash `hP` and plane hash `hPl` (attributes p, n of the plane):
    `("ConvexPolygon", round(Σ hash(point)), hash(plane) + hash(-plane), hash(plane) * hash(-plane))`, where `-plane` is
    `Plane(p, -n)`, whose constructor normalises `-n` -/
noncomputable def polygonHashAbs (H : HFun) (rndI : Int → Int) (hP : RVec → Int) (hPl : RVec → RVec → Int)
    (pts : List RVec) (pp pn : RVec) : Int :=
  H [.tag "ConvexPolygon", .int (rndI ((pts.map hP).sum)), .int (hPl pp pn + hPl pp (unitR (negR pn))),
     .int (hPl pp pn * hPl pp (unitR (negR pn)))]

/-- `ConvexPolyhedron.__hash__` over an arbitrary point hash and face hash (a face = its points and the attributes of its plane) -/
noncomputable def polyhedronHashAbs (H : HFun) (rndI : Int → Int) (hP : RVec → Int) (hF : List RVec → RVec → RVec → Int)
    (faces : List (List RVec × RVec × RVec)) (verts : List RVec) : Int :=
  H [.tag "ConvexPolyhedron", .int (rndI ((faces.map (fun f => hF f.1 f.2.1 f.2.2)).sum)), .int (rndI ((verts.map hP).sum))]

noncomputable def polygonHashRef (H : HFun) (rnd : ℝ → ℝ) (rndI : Int → Int) (pts : List RVec) (pp pn : RVec) : Int :=
  polygonHashAbs H rndI (pointHashRef H rnd) (planeHashRef H rnd) pts pp pn

noncomputable def polyhedronHashRef (H : HFun) (rnd : ℝ → ℝ) (rndI : Int → Int) (faces : List (List RVec × RVec × RVec))
    (verts : List RVec) : Int :=
  polyhedronHashAbs H rndI (pointHashRef H rnd) (polygonHashRef H rnd rndI) faces verts

/-- the instances of the abstract hashes of `Proofs/HashSum.lean` that the code uses -/
noncomputable def hPt (H : HFun) (rnd : ℝ → ℝ) : V3 → Int := fun p => pointHashRef H rnd p.toR
/-- (hash(plane) + hash(-plane), hash(plane) * hash(-plane)) as a function of the canonical plane key: both planes have that key -/
noncomputable def hPlanePair (H : HFun) (rnd : ℝ → ℝ) : UnitKey × (Int × Rat) → Int × Int :=
  fun k => (planeHashOfKey H rnd k + planeHashOfKey H rnd k, planeHashOfKey H rnd k * planeHashOfKey H rnd k)
noncomputable def hFace (H : HFun) (rndI : Int → Int) : Int × (Int × Int) → Int :=
  fun t => H [.tag "ConvexPolygon", .int (rndI t.1), .int t.2.1, .int t.2.2]
noncomputable def hBody (H : HFun) (rndI : Int → Int) : Int × Int → Int :=
  fun t => H [.tag "ConvexPolyhedron", .int (rndI t.1), .int (rndI t.2)]

/-- the attributes of a model polygon as the Python object stores them (unit normal) -/
noncomputable def faceAttrs (f : Polygon) : List RVec × RVec × RVec := (f.pts.map V3.toR, f.plane.p.toR, unitR f.plane.n.toR)

/-- **ConvexPolygon**: the hash is `hFace` of the model's `Polygon.hashTupleAbs`, instantiated with the code's point hash
    and plane-pair hash -/
theorem polygonHashRef_tuple (H : HFun) (rnd : ℝ → ℝ) (rndI : Int → Int) (P : Polygon) (hw : P.plane.WF) :
    polygonHashRef H rnd rndI (P.pts.map V3.toR) P.plane.p.toR (unitR P.plane.n.toR)
      = hFace H rndI (P.hashTupleAbs (hPt H rnd) (hPlanePair H rnd)) := by
  simp only [polygonHashRef, polygonHashAbs, hFace, Polygon.hashTupleAbs, hPlanePair, planeHashRef_neg H rnd P.plane hw,
    planeHashRef_key H rnd P.plane hw, List.map_map]
  rfl

/-- **equal polygons (same vertex set, same carrier plane) have equal hashes**, for every H, rnd, rndI -/
theorem polygonHashRef_eq_of_same (H : HFun) (rnd : ℝ → ℝ) (rndI : Int → Int) {P Q : Polygon} (hP : P.Valid) (hQ : Q.Valid)
    (hs : P.same Q = true) :
    polygonHashRef H rnd rndI (P.pts.map V3.toR) P.plane.p.toR (unitR P.plane.n.toR)
      = polygonHashRef H rnd rndI (Q.pts.map V3.toR) Q.plane.p.toR (unitR Q.plane.n.toR) := by
  rw [polygonHashRef_tuple H rnd rndI P (Polygon.plane_WF P hP), polygonHashRef_tuple H rnd rndI Q (Polygon.plane_WF Q hQ),
    Polygon.hashTupleAbs_eq_of_same _ _ hP hQ hs]

/-- **ConvexPolyhedron**: the hash is `hBody` of the model's `Polyhedron.hashTupleAbs` -/
theorem polyhedronHashRef_tuple (H : HFun) (rnd : ℝ → ℝ) (rndI : Int → Int) (B : Polyhedron) (hw : ∀ f ∈ B.faces, f.plane.WF) :
    polyhedronHashRef H rnd rndI (B.faces.map faceAttrs) (B.verts.map V3.toR)
      = hBody H rndI (B.hashTupleAbs (hPt H rnd) (hPlanePair H rnd) (hFace H rndI)) := by
  have hf : B.faces.map (fun f => polygonHashRef H rnd rndI (faceAttrs f).1 (faceAttrs f).2.1 (faceAttrs f).2.2)
      = B.faces.map (fun f => hFace H rndI (f.hashTupleAbs (hPt H rnd) (hPlanePair H rnd))) :=
    List.map_congr_left (fun f hfm => polygonHashRef_tuple H rnd rndI f (hw f hfm))
  simp only [polyhedronHashRef, polyhedronHashAbs, hBody, Polyhedron.hashTupleAbs, List.map_map]
  rw [← hf]
  rfl

/-- **equal polyhedra (same vertex set, same face set) have equal hashes**, for every H, rnd, rndI -/
theorem polyhedronHashRef_eq_of_sameB (H : HFun) (rnd : ℝ → ℝ) (rndI : Int → Int) {A B : Polyhedron}
    (hAf : ∀ f ∈ A.faces, f.Valid) (hBf : ∀ f ∈ B.faces, f.Valid)
    (hAd : A.faces.Pairwise (fun f g => ¬ f.same g = true)) (hBd : B.faces.Pairwise (fun f g => ¬ f.same g = true))
    (hAv : A.verts.Nodup) (hBv : B.verts.Nodup) (hs : A.sameB B = true) :
    polyhedronHashRef H rnd rndI (A.faces.map faceAttrs) (A.verts.map V3.toR)
      = polyhedronHashRef H rnd rndI (B.faces.map faceAttrs) (B.verts.map V3.toR) := by
  rw [polyhedronHashRef_tuple H rnd rndI A (fun f hf => Polygon.plane_WF f (hAf f hf)),
    polyhedronHashRef_tuple H rnd rndI B (fun f hf => Polygon.plane_WF f (hBf f hf)),
    Polyhedron.hashTupleAbs_eq_of_sameB _ _ _ hAf hBf hAd hBd hAv hBv hs]

end G3D.KTie.Khash
