import G3D.Extracted.Mcalc
import G3D.Proofs.MethodsTieBase
/-! # Tie, group `mcalc` (property C11): the non-dispatch predicates `parallel`, `orthogonal` of calc/angle.py —
    extracted body (`G3D.Extracted.Mcalc`, tools/extract_mcalc.py over tools/mextract.py) = hand-written model
    (`G3D.Model.Angle`: `parallelG`, `orthogonalG`), for every pair of Line / Plane / Vector operands.
    The recursive call with swapped operands (`parallel(b, a)` for Plane/Line) is read as the model's function, like every
    inner generic call; the model's table is symmetric there by definition, so the induction on the call depth is trivial.
    `pyGeo_parallel`, which `Plane.__contains__(Line)` uses (`G3D.Proofs.MethodsTieFlat`), is thereby tied to the code. -/
set_option linter.unusedSimpArgs false
set_option linter.unusedVariables false
set_option linter.style.nameCheck false
namespace G3D.Tie
open V3 PyRt Extracted

def aVal : AObj → Val
  | .line l => .obj (lnObj l)
  | .plane a => .obj (plObj a)
  | .vec v => .vec v

theorem toAObj_toVal (x : AObj) : toAObj? (aVal x) = some x := by cases x <;> rfl

/-- `parallel(a, b)` of calc/angle.py on Line / Plane / Vector operands -/
theorem m_angle_parallel_eq (x y : AObj) :
    m_angle_parallel (aVal x) (aVal y) = match parallelG x y with | some r => .ok (.bool r) | none => .error .notImpl := by
  unfold m_angle_parallel
  cases x <;> cases y <;> msimp [aVal, parallelG, pyMeth_orthogonal]

/-- `orthogonal(a, b)` of calc/angle.py on Line / Plane / Vector operands -/
theorem m_angle_orthogonal_eq (x y : AObj) :
    m_angle_orthogonal (aVal x) (aVal y) = match orthogonalG x y with | some r => .ok (.bool r) | none => .error .notImpl := by
  unfold m_angle_orthogonal
  cases x <;> cases y <;> msimp [aVal, orthogonalG, pyMeth_orthogonal, pyGeo_orthogonal, pyNull, V3.orthogonal]

/-- the runtime primitives used for `self.parallel(o)` / `self.orthogonal(o)` are these functions -/
theorem pyGeo_parallel_eq (x y : AObj) : pyGeo_parallel (aVal x) (aVal y) = m_angle_parallel (aVal x) (aVal y) := by
  rw [m_angle_parallel_eq]; simp [pyGeo_parallel, toAObj_toVal]; cases parallelG x y <;> rfl

theorem pyGeo_orthogonal_eq (x y : AObj) : pyGeo_orthogonal (aVal x) (aVal y) = m_angle_orthogonal (aVal x) (aVal y) := by
  rw [m_angle_orthogonal_eq]; simp [pyGeo_orthogonal, toAObj_toVal]; cases orthogonalG x y <;> rfl

theorem mcalc_complete : mcalcFailed = [] := rfl

end G3D.Tie
