import G3D.Proofs.Move2
import G3D.Proofs.SortCycle

/-! `ConvexPolygon.move` on a `Valid` polygon: the returned object (`ConvexPolygon(self.points)`) IS the moved
    receiver — the full `move_returned_eq_receiver` that `Polygon.move_returned_partial` left open (it needed the
    theory of `angInsert` as a sort: re-sorting an already sorted cycle returns the same cycle). -/
namespace G3D
open V3

theorem orient_translate' (n a b c v : V3) :
    orient n (add a v) (add b v) (add c v) = orient n a b c := by
  simp only [orient, dot, cross, sub, add]; ring

/-- `move` on a `Valid` polygon does not raise and returns a polygon equal (field by field) to the moved receiver -/
theorem Polygon.move_returned_eq_receiver (P : Polygon) (hv : P.Valid) (v : V3) :
    (P.move v).2 = .ok (P.move v).1 := by
  obtain ⟨p0, p1, p2, rest, hp, hn⟩ := Polygon.Valid.good hv
  obtain ⟨_, _, _, _, _, hpl, htp⟩ := hv
  rw [Polygon.move_eq P p0 p1 p2 rest hp hn v]
  simp only
  have hin : ∀ p ∈ add p0 v :: add p1 v :: add p2 v :: rest.map (fun p => add p v),
      dot P.plane.n (sub p (add P.plane.p v)) = 0 := by
    intro p hpm
    have : p ∈ (p0 :: p1 :: p2 :: rest).map (fun p => add p v) := by simpa using hpm
    obtain ⟨q, hq, rfl⟩ := List.mem_map.mp this
    rw [sub_add_add]
    have := hpl q (by rw [hp]; exact hq)
    simpa [G3D.inPlane] using this
  have htp' : triplesPos P.plane.n (add p0 v :: add p1 v :: add p2 v :: rest.map (fun p => add p v)) := by
    have := triplesPos_map (fun p => add p v) P.plane.n P.plane.n
      (fun a b c h => by rw [orient_translate']; exact h) P.pts htp
    rw [hp] at this
    simpa using this
  obtain ⟨Q, hQ, _, h1, h2, _, h3, h4⟩ := Polygon.mk?_of_cycle P.plane.n (add P.plane.p v)
    (add p0 v) (add p1 v) (add p2 v) (rest.map (fun p => add p v)) hin htp' false
  have hmap : P.pts.map (fun p => add p v) = add p0 v :: add p1 v :: add p2 v :: rest.map (fun p => add p v) := by
    rw [hp]; simp
  rw [hmap, hQ]
  congr 1
  have hc := meanV_translate v P.pts (by rw [hp]; simp)
  rw [hmap] at hc
  simp only [Bool.false_eq_true, if_false, sub_add_add] at h3 h4
  cases Q with
  | mk pts plane center =>
    cases plane with
    | mk pp pn =>
      simp only at h1 h2 h3 h4
      rw [h1, h2, h3, h4, hc]

#print axioms Polygon.move_returned_eq_receiver
end G3D
