import G3D.Proofs.Euler3

/-! # Euler's polyhedron formula, part 4: an ascending corner exists at every vertex that is neither the lowest nor
    the highest

    `d` is generic (`Eu.Generic`: injective on the face vertices).  At a vertex `v` with a higher and a lower vertex
    the horizontal plane through `v` meets the body in a point `q ≠ v`.  With `D` an exposing functional of `v`
    (`Proper.vertex_exposed`) and `u = D × d`, the directions `(q - v) + t u` that stay in the tangent cone of the body
    at `v` form a parameter interval bounded above (else `v + ε u` would be a body point at the `D`-level of `v`);
    at its upper end the direction `w` is tight on a face `f` through `v` (`lp_hi`), a small step along `w` stays in
    the body (`K4.small_step`) and in `f` (`Proper.tight`); the orientation of the corner of `f` at `v` together with
    `n_f . u > 0` forces `pred` below and `succ` above `v`. -/
namespace G3D
open V3

/-- `d` separates the face vertices -/
def Eu.Generic (B : Polyhedron) (d : V3) : Prop :=
  ∀ u ∈ collectVerts B.faces, ∀ w ∈ collectVerts B.faces, u ≠ w → dot d u ≠ dot d w

theorem Eu.Generic.face {B : Polyhedron} {d : V3} (hg : Eu.Generic B d) (f : Polygon) (hf : f ∈ B.faces) :
    ∀ u ∈ f.pts, ∀ w ∈ f.pts, u ≠ w → dot d u ≠ dot d w := fun u hu w hw hne =>
  hg u ((mem_collectVerts _ u).mpr ⟨f, hf, hu⟩) w ((mem_collectVerts _ w).mpr ⟨f, hf, hw⟩) hne

theorem Eu.orient_ray1 (n d v s : V3) (c ε : Rat) :
    orient n v s (add v (smul ε (smul c (cross n d)))) =
      ε * c * (normSq n * dot d (sub s v) - dot n (sub s v) * dot n d) := by
  simp only [orient, dot, cross, add, smul, sub, normSq]; ring

theorem Eu.orient_ray2 (n d p v : V3) (c ε : Rat) :
    orient n p v (add v (smul ε (smul c (cross n d)))) =
      - (ε * c * (normSq n * dot d (sub p v) - dot n (sub p v) * dot n d)) := by
  simp only [orient, dot, cross, add, smul, sub, normSq]; ring

/-- a face through a vertex of the body has it as a vertex -/
theorem Eu.Hyp.vertex_of_tight {B : Polyhedron} (H : Eu.Hyp B) (f0 : Polygon) (hf0 : f0 ∈ B.faces) (v : V3)
    (hv0 : v ∈ f0.pts) (f : Polygon) (hf : f ∈ B.faces) (hs : f.side v = 0) : v ∈ f.pts := by
  have hP := H.proper
  obtain ⟨D, hD⟩ := hP.vertex_exposed f0 hf0 v hv0
  have hin : InHull f.pts v := hP.tight v (H.vertex f0 hf0 v hv0).2 f hf hs
  exact SameSet.exposed_mem hD (fun m hm => vertex_in_hull _ _ (H.valid.pts_sub f hf m hm)) hin

/-- **existence of an ascending corner** at a vertex with a higher and a lower vertex -/
theorem Eu.asc_exists {B : Polyhedron} (H : Eu.Hyp B) (d : V3) (hgen : Eu.Generic B d)
    (v a b : V3) (hv : v ∈ collectVerts B.faces) (ha : a ∈ collectVerts B.faces) (hb : b ∈ collectVerts B.faces)
    (hva : dot d v < dot d a) (hbv : dot d b < dot d v) :
    ∃ f ∈ B.faces, ∃ t ∈ Eu.cycTriples f.pts, t.2.1 = v ∧ Eu.amT d t = true := by
  have hP := H.proper
  obtain ⟨f0, hf0, hv0⟩ := (mem_collectVerts _ v).mp hv
  obtain ⟨fa, hfa, hva0⟩ := (mem_collectVerts _ a).mp ha
  obtain ⟨fb, hfb, hvb0⟩ := (mem_collectVerts _ b).mp hb
  obtain ⟨D, hD⟩ := hP.vertex_exposed f0 hf0 v hv0
  have hvB := (H.vertex f0 hf0 v hv0).2
  have haB := (H.vertex fa hfa a hva0).2
  have hbB := (H.vertex fb hfb b hvb0).2
  have hav : a ≠ v := by intro h; rw [h] at hva; exact lt_irrefl _ hva
  have hbv' : b ≠ v := by intro h; rw [h] at hbv; exact lt_irrefl _ hbv
  have hDa : dot D a < dot D v := hD a (H.valid.pts_sub fa hfa a hva0) hav
  have hDb : dot D b < dot D v := hD b (H.valid.pts_sub fb hfb b hvb0) hbv'
  -- the point `q` of `[b, a]` at the height of `v`
  set σ := (dot d v - dot d b) / (dot d a - dot d b) with hσ
  have hden : 0 < dot d a - dot d b := by linarith
  have hσ0 : 0 < σ := div_pos (by linarith) hden
  have hσ1 : σ < 1 := by rw [hσ, div_lt_one hden]; linarith
  set q := add b (smul σ (sub a b)) with hq
  have hqB : B.contains q = true :=
    Polyhedron.contains_of_hull B [b, a] (by
      intro x hx
      rcases List.mem_cons.mp hx with rfl | hx
      · exact hbB
      · rw [List.mem_singleton.mp hx]; exact haB) q
      (between_in_hull (by simp) (by simp) ⟨σ, le_of_lt hσ0, le_of_lt hσ1, hq⟩)
  have hdq : dot d q = dot d v := by
    have : dot d q = dot d b + σ * (dot d a - dot d b) := by rw [hq]; simp only [dot, add, smul, sub]; ring
    rw [this, hσ]; field_simp; ring
  have hDq : dot D q < dot D v := by
    have : dot D q = (1 - σ) * dot D b + σ * dot D a := by rw [hq]; simp only [dot, add, smul, sub]; ring
    rw [this]
    nlinarith
  set w0 := sub q v with hw0
  set u := cross D d with hu
  have hdu : dot d u = 0 := by rw [hu]; simp only [dot, cross]; ring
  have hDu : dot D u = 0 := by rw [hu]; exact dot_cross_self _ _
  have hdw0 : dot d w0 = 0 := by
    have : dot d w0 = dot d q - dot d v := by rw [hw0]; simp only [dot, sub]; ring
    rw [this, hdq]; ring
  have hDw0 : dot D w0 < 0 := by
    have : dot D w0 = dot D q - dot D v := by rw [hw0]; simp only [dot, sub]; ring
    rw [this]; linarith
  -- `u ≠ 0`: `D` is not parallel to `d`
  have hd0 : d ≠ zero := by
    intro h; rw [h] at hva; simp [dot, zero] at hva
  have hu0 : u ≠ zero := by
    intro hz
    have := exists_smul_of_cross_zero hd0 hz
    rw [this] at hDw0
    have e : dot (smul (dot D d / normSq d) d) w0 = (dot D d / normSq d) * dot d w0 := by
      simp only [dot, smul]; ring
    rw [e, hdw0] at hDw0
    simp at hDw0
  -- the faces through `v` and the 1-D programme
  set Fv := B.faces.filter (fun f => decide (f.side v = 0)) with hFv
  have hFvmem : ∀ f, f ∈ Fv ↔ f ∈ B.faces ∧ f.side v = 0 := by
    intro f; rw [hFv, List.mem_filter]; simp
  set C : List (Rat × Rat) := Fv.map (fun f => (- dot f.plane.n w0, - dot f.plane.n u)) with hC
  have hfeas : ∀ t, Feas C t ↔ ∀ f ∈ Fv, dot f.plane.n (add w0 (smul t u)) ≤ 0 := by
    intro t
    unfold Feas
    constructor
    · intro h f hf
      have := h _ (List.mem_map.mpr ⟨f, hf, rfl⟩)
      simp only at this
      have e : dot f.plane.n (add w0 (smul t u)) = dot f.plane.n w0 + t * dot f.plane.n u := by
        simp only [dot, add, smul]; ring
      rw [e]; linarith
    · intro h c hc
      obtain ⟨f, hf, rfl⟩ := List.mem_map.mp hc
      have := h f hf
      have e : dot f.plane.n (add w0 (smul t u)) = dot f.plane.n w0 + t * dot f.plane.n u := by
        simp only [dot, add, smul]; ring
      rw [e] at this
      simp only; linarith
  have hF0 : Feas C 0 := by
    rw [hfeas]
    intro f hf
    obtain ⟨hfB, hfv⟩ := (hFvmem f).mp hf
    have e : dot f.plane.n (add w0 (smul 0 u)) = f.side q - f.side v := by
      rw [hw0, ← K4.side_diff]; simp only [dot, add, smul, sub]; ring
    rw [e, hfv]
    have := H.side_le f hfB q hqB
    linarith
  -- a step from `v` along a direction of the tangent cone stays in the body
  have hstep : ∀ e : V3, (∀ f ∈ Fv, dot f.plane.n e ≤ 0) →
      ∃ ε : Rat, 0 < ε ∧ B.contains (pt v e ε) = true := by
    intro e he
    obtain ⟨ε, hε, hall⟩ := K4.small_step B.faces v e (by
      intro g hg
      have hle := H.side_le g hg v hvB
      rcases lt_or_eq_of_le hle with h | h
      · exact Or.inl h
      · exact Or.inr ⟨hle, he g ((hFvmem g).mpr ⟨hg, h⟩)⟩)
    exact ⟨ε, hε, (B.contains_iff_side _).mpr (hall ε (le_of_lt hε) (le_refl _))⟩
  -- bounded above
  have hneg : ∃ c ∈ C, c.2 < 0 := by
    by_contra hcon
    have hall : ∀ f ∈ Fv, dot f.plane.n u ≤ 0 := by
      intro f hf
      by_contra hpos
      exact hcon ⟨_, List.mem_map.mpr ⟨f, hf, rfl⟩, by simp only; linarith [not_le.mp hpos]⟩
    obtain ⟨ε, hε, hx⟩ := hstep u hall
    have hDx : dot D (pt v u ε) = dot D v := by
      have : dot D (pt v u ε) = dot D v + ε * dot D u := by simp only [pt, dot, add, smul]; ring
      rw [this, hDu]; ring
    rcases SameSet.hull_exposed (hP.hull _ hx) hD with h | h
    · have h0 : smul ε u = zero := by
        have hx' := congrArg V3.x h; have hy' := congrArg V3.y h; have hz' := congrArg V3.z h
        simp only [pt, add, smul] at hx' hy' hz'
        apply V3.ext' <;> simp only [smul, zero] <;> linarith
      exact Eu.smul_ne_zero (ne_of_gt hε) hu0 h0
    · rw [hDx] at h; exact lt_irrefl _ h
  obtain ⟨thi, hthi, _, c, hcC, hc2, hct⟩ := lp_hi C 0 hF0 hneg
  obtain ⟨f, hfFv, rfl⟩ := List.mem_map.mp hcC
  simp only at hc2 hct
  obtain ⟨hf, hfv⟩ := (hFvmem f).mp hfFv
  have hfu : 0 < dot f.plane.n u := by linarith
  set w := add w0 (smul thi u) with hw
  have hfw : dot f.plane.n w = 0 := by
    have e : dot f.plane.n w = dot f.plane.n w0 + thi * dot f.plane.n u := by
      rw [hw]; simp only [dot, add, smul]; ring
    rw [e]; linarith
  have hdw : dot d w = 0 := by
    have e : dot d w = dot d w0 + thi * dot d u := by rw [hw]; simp only [dot, add, smul]; ring
    rw [e, hdw0, hdu]; ring
  have hDw : dot D w < 0 := by
    have e : dot D w = dot D w0 + thi * dot D u := by rw [hw]; simp only [dot, add, smul]; ring
    rw [e, hDu]; linarith
  obtain ⟨ε, hε, hyB⟩ := hstep w ((hfeas thi).mp hthi)
  set y := pt v w ε with hy
  have hfy : f.side y = 0 := by rw [hy, f.side_pt, hfv, hfw]; ring
  have hyf : InHull f.pts y := hP.tight y hyB f hf hfy
  have hvf : v ∈ f.pts := H.vertex_of_tight f0 hf0 v hv0 f hf hfv
  have hfval := H.valid.faces_valid f hf
  obtain ⟨t, ht, htv⟩ := Eu.cycTriples_exists f.pts (by
    obtain ⟨_, _, _, _, hp, _, _⟩ := hfval; rw [hp]; simp) v hvf
  refine ⟨f, hf, t, ht, htv, ?_⟩
  obtain ⟨e1, e2, d1, d2, _, _⟩ := Eu.triple_facts f hfval t ht
  have m1 := closedPairs_mem _ _ e1
  have m2 := closedPairs_mem _ _ e2
  rw [htv] at e1 e2 d1 d2 m1 m2
  have hn : f.plane.n ≠ zero := Polygon.plane_WF f hfval
  have hN := normSq_pos hn
  obtain ⟨_, _, _, _, _, hpl, _⟩ := id hfval
  have na : dot f.plane.n (sub t.2.2 v) = 0 := inPlane_diff (hpl _ hvf) (hpl _ m2.2)
  have nb : dot f.plane.n (sub t.1 v) = 0 := inPlane_diff (hpl _ hvf) (hpl _ m1.1)
  have hα0 : dot d (sub t.2.2 v) ≠ 0 := by
    have : dot d (sub t.2.2 v) = dot d t.2.2 - dot d v := by simp only [dot, sub]; ring
    rw [this]
    have := hgen.face f hf v hvf _ m2.2 d2
    intro h; apply this; linarith
  have hβ0 : dot d (sub t.1 v) ≠ 0 := by
    have : dot d (sub t.1 v) = dot d t.1 - dot d v := by simp only [dot, sub]; ring
    rw [this]
    have := hgen.face f hf _ m1.1 v hvf d1
    intro h; apply this; linarith
  -- `n × d ≠ 0`
  have hcr : cross f.plane.n d ≠ zero := by
    intro hz
    have h := Eu.lagrange f.plane.n d (sub t.2.2 v)
    rw [hz, na] at h
    have h0 : dot zero (cross f.plane.n (sub t.2.2 v)) = 0 := by simp [dot, zero]
    rw [h0] at h
    have : normSq f.plane.n * dot d (sub t.2.2 v) = 0 := by linarith
    rcases mul_eq_zero.mp this with h' | h'
    · exact (ne_of_gt hN) h'
    · exact hα0 h'
  have hwf : dot w f.plane.n = 0 := by rw [← hfw]; simp only [dot]; ring
  have hwd : dot w d = 0 := by rw [← hdw]; simp only [dot]; ring
  obtain ⟨c, hc⟩ := parallel_of_perp f.plane.n d w hcr hwf hwd
  -- `c > 0`
  have hcpos : 0 < c := by
    have e1' : dot f.plane.n u = - dot D (cross f.plane.n d) := by rw [hu]; exact K4.triple_swap _ _ _
    have e2' : dot D w = c * dot D (cross f.plane.n d) := by rw [hc]; simp only [dot, smul]; ring
    have h1 : c * dot f.plane.n u = - dot D w := by rw [e1', e2']; ring
    have h2 : 0 < c * dot f.plane.n u := by rw [h1]; linarith
    exact (pos_iff_pos_of_mul_pos h2).mpr hfu
  have hyeq : y = add v (smul ε (smul c (cross f.plane.n d))) := by rw [hy, pt, hc]
  obtain ⟨_, _, _, _, _, _, htp⟩ := id hfval
  have o1 := K3.hull_orient_nonneg f hfval y hyf _ e2
  have o2 := K3.hull_orient_nonneg f hfval y hyf _ e1
  simp only at o1 o2
  rw [hyeq, Eu.orient_ray1, na] at o1
  rw [hyeq, Eu.orient_ray2, nb] at o2
  have hεc : 0 < ε * c := mul_pos hε hcpos
  have hα : 0 < dot d (sub t.2.2 v) := by
    have h1 : 0 ≤ ε * c * (normSq f.plane.n * dot d (sub t.2.2 v)) := by linarith
    have h2 := (mul_nonneg_iff_of_pos_left hεc).mp h1
    have h3 := (mul_nonneg_iff_of_pos_left hN).mp h2
    exact lt_of_le_of_ne h3 (Ne.symm hα0)
  have hβ : dot d (sub t.1 v) < 0 := by
    have h1 : 0 ≤ ε * c * (normSq f.plane.n * (- dot d (sub t.1 v))) := by linarith
    have h2 := (mul_nonneg_iff_of_pos_left hεc).mp h1
    have h3 := (mul_nonneg_iff_of_pos_left hN).mp h2
    exact lt_of_le_of_ne (by linarith) hβ0
  have ea : dot d (sub t.2.2 v) = dot d t.2.2 - dot d v := by simp only [dot, sub]; ring
  have eb : dot d (sub t.1 v) = dot d t.1 - dot d v := by simp only [dot, sub]; ring
  rw [ea] at hα
  rw [eb] at hβ
  simp only [Eu.amT, decide_eq_true_iff, htv]
  exact ⟨by linarith, by linarith⟩
#print axioms Eu.asc_exists

end G3D
