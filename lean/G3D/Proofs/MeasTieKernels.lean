import G3D.Proofs.MeasTieBase
import G3D.Extracted.Kdist
import G3D.Extracted.Kvecr
import G3D.Proofs.KTieKdist
/-! # mmeas: the runtime functions of `G3D/Model/MeasRt.lean` ARE the terms that the symbolic-execution kernels extract
    The measure translator calls `Point.distance`, `Vector.length`, `Vector.normalized` and `distance(Point, Plane)` as
    runtime functions with hand-written defining equations.  The kernel translators `kdist` and `kvecr` (tools/extract_kdist.py,
    tools/extract_kvecr.py) RUN those real functions on symbolic numbers on every check; here the defining equations are
    proved equal to the extracted terms, so an edit of one of these callees breaks a theorem of this module
    (and the kernel's own tie).  Independent of `G3D/Extracted/Mmeas.lean`. -/
namespace G3D.MeasTie.Kernels
open G3D G3D.MeasRt G3D.KTie G3D.Extracted G3D.MeasTie Real

section pointDistance
/-- `Point.distance` -/
theorem pointDistance_kdist (p q : RVec) : pointDistance p q = impl_pointDistance p q := rfl
end pointDistance

section vector
/-- `Vector.length` -/
theorem vLength_kvecr (a : RVec) : vLength a = impl_length a := by
  simp only [vLength, impl_length, sum0]; rfl

/-- `Vector.normalized` -/
theorem vNormalized_kvecr (a : RVec) : vNormalized a = impl_normalized a := by
  simp only [vNormalized, vLength, impl_normalized, sum0]
  apply RVec.ext' <;> simp only [RVec.smul, RVec.normSq] <;> ring
end vector

section distPointPlane
/-- `distance(Point, Plane)` on a plane built from the normal `n ≠ 0` (which stores `n/|n|`): the runtime's closed form is the
    value of the walked code path (auxiliary line, intersection with the plane, `distance(a, foot)`) -/
theorem distPointPlane_kdist (x p n : RVec) (h : n ≠ RVec.zero) :
    distPointPlane x ⟨p, vNormalized n⟩ = impl_distPointPlane x p n := by
  rw [distPointPlane_unit x p n h, Kdist.distPointPlane_closed x p n h]

/-- … hence the square root of the model's `pyramidHeightSqViaDistance` (= `distSqPointPlane apex plane`) -/
theorem distPointPlane_model_sq (f : Polygon) (apex : V3) (hn : f.plane.n ≠ V3.zero) :
    ∃ d2 : ℚ, pyramidHeightSqViaDistance f apex = .ok d2 ∧
      distPointPlane apex.toR (planeToM f.plane) = √((d2 : ℚ) : ℝ) := by
  obtain ⟨d2, h1, h2⟩ := Kdist.distPointPlane_tie apex f.plane hn
  refine ⟨d2, h1, ?_⟩
  simp only [planeToM]
  rw [distPointPlane_kdist _ _ _ (toR_ne_zero hn), h2]
end distPointPlane

#print axioms pointDistance_kdist
#print axioms vLength_kvecr
#print axioms vNormalized_kvecr
#print axioms distPointPlane_kdist
#print axioms distPointPlane_model_sq
end G3D.MeasTie.Kernels
