import G3D.Extracted.Kforms
import G3D.Model.Flat
import G3D.Proofs.Vec
/-! # kforms, Line forms: `Line(Point, Vector)`, `Line(Point, Point)`, `Line.parametric()`  (C17)
    `G3D.Extracted.impl_*` are regenerated on every run (tools/extract_kforms.py, engine tools/kernels_engine.py): the REAL code is run on
    symbolic numbers, every comparison against the tolerance is recorded (operands and shape) and answered from a scripted
    path.  Each kernel has its own `section`: when the walk of ONE kernel fails the generated file holds only the marker
    `impl_<kernel>_EXTRACTION_FAILED` for it and exactly the theorems of that section stop compiling. -/
namespace G3D.KTie.Kforms
open G3D V3 G3D.Extracted

section lineParametric
theorem lineParametric_tie (p v : V3) : impl_lineParametric_sv p v = p ∧ impl_lineParametric_dv p v = v := ⟨rfl, rfl⟩
end lineParametric

section linePP
theorem linePP_tie (p q : V3) : impl_linePP_sv p q = p ∧ impl_linePP_dv p q = sub q p := ⟨rfl, rfl⟩
end linePP

end G3D.KTie.Kforms
