import G3D.Proofs.Move
import Mathlib.Tactic.Ring
import Mathlib.Tactic.Linarith
import Mathlib.Tactic.LinearCombination
import Mathlib.Tactic.FieldSimp
import Mathlib.Tactic.Positivity

/-! C05, composite membership, remaining cases: HalfLine in Line / Plane / HalfLine,
    ConvexPolygon in Plane, ConvexPolygon in ConvexPolyhedron (provable direction). -/
namespace G3D
open V3

theorem HalfLine.den_origin (h : HalfLine) : h.den h.p :=
  ⟨0, le_refl _, by apply V3.ext' <;> simp [add, smul]⟩

theorem HalfLine.den_tip (h : HalfLine) : h.den (add h.p h.v) :=
  ⟨1, by norm_num, by apply V3.ext' <;> simp [add, smul]⟩

/-- the direction of a half-line through `p = o + s0 d` and `p + v = o + s1 d` -/
theorem dir_of_two_params {o d p v : V3} {s0 s1 : Rat} (h0 : p = add o (smul s0 d))
    (h1 : add p v = add o (smul s1 d)) : v = smul (s1 - s0) d := by
  have hx := congrArg V3.x h1; have hy := congrArg V3.y h1; have hz := congrArg V3.z h1
  rw [h0] at hx hy hz
  simp only [add, smul] at hx hy hz
  apply V3.ext' <;> simp only [smul] <;> linarith

/-- `HalfLine.in_(Line)`: `self.point in other and self.vector.parallel(other.dv)` -/
theorem Line.containsHalfLine_iff (l : Line) (hl : l.WF) (h : HalfLine) (_hh : h.WF) :
    l.containsHalfLine h = true ↔ ∀ x, h.den x → l.den x := by
  unfold Line.containsHalfLine
  rw [Bool.and_eq_true, Line.contains_iff l hl, parallel_iff_cross]
  constructor
  · rintro ⟨⟨t0, ht0⟩, hpar⟩ x ⟨t, _, rfl⟩
    have hk := exists_smul_of_cross_zero hl hpar
    generalize dot h.v l.dv / normSq l.dv = k at hk
    exact ⟨t0 + t * k, by rw [ht0, hk]; apply V3.ext' <;> simp only [add, smul] <;> ring⟩
  · intro hsub
    obtain ⟨t0, ht0⟩ := hsub _ h.den_origin
    obtain ⟨t1, ht1⟩ := hsub _ h.den_tip
    refine ⟨⟨t0, ht0⟩, ?_⟩
    rw [dir_of_two_params ht0 ht1]
    have := parallel_smul (t1 - t0) l.dv
    rwa [parallel_iff_cross] at this
#print axioms Line.containsHalfLine_iff

/-- `HalfLine.in_(Plane)`: `self.point in other and self.vector.orthogonal(other.n)` -/
theorem Plane.containsHalfLine_iff (p : Plane) (h : HalfLine) (_hh : h.WF) :
    p.containsHalfLine h = true ↔ ∀ x, h.den x → p.den x := by
  unfold Plane.containsHalfLine
  rw [Bool.and_eq_true, Plane.contains_iff]
  simp only [V3.orthogonal, beq_iff_eq]
  constructor
  · rintro ⟨h1, h2⟩ x ⟨t, _, rfl⟩
    simp only [Plane.den, dot, sub, add, smul] at h1 h2 ⊢
    linear_combination h1 + t * h2
  · intro hs
    have h0 := hs _ h.den_origin
    have h1 := hs _ h.den_tip
    refine ⟨h0, ?_⟩
    simp only [Plane.den, dot, sub, add] at h0 h1 ⊢
    linarith
#print axioms Plane.containsHalfLine_iff

/-- `HalfLine.__contains__(HalfLine)` -/
theorem HalfLine.containsHL_iff (c h : HalfLine) (hc : c.WF) (hh : h.WF) :
    c.containsHL h = true ↔ ∀ x, h.den x → c.den x := by
  have hcw := hc
  obtain ⟨hcv, hcl⟩ := hc
  obtain ⟨_, hhl⟩ := hh
  have hN := normSq_pos hcv
  unfold HalfLine.containsHL Line.eqv
  rw [hcl, hhl]
  simp only [Bool.and_eq_true, decide_eq_true_eq]
  rw [Line.contains_iff ⟨c.p, c.v⟩ hcv, parallel_iff_cross, HalfLine.contains_iff c hcw]
  simp only
  constructor
  · rintro ⟨⟨⟨_, hpar⟩, ⟨s, hs, hps⟩⟩, hdot⟩ x ⟨t, ht, rfl⟩
    have hk := exists_smul_of_cross_zero hcv hpar
    generalize dot h.v c.v / normSq c.v = k at hk
    have hk0 : 0 ≤ k := by
      have : dot c.v h.v = k * normSq c.v := by rw [hk]; simp only [dot, smul, normSq]; ring
      rw [this] at hdot
      by_contra hneg
      have := lt_of_not_ge hneg
      nlinarith
    exact ⟨s + t * k, by positivity, by rw [hps, hk]; apply V3.ext' <;> simp only [add, smul] <;> ring⟩
  · intro hsub
    obtain ⟨s0, hs0, hp0⟩ := hsub _ h.den_origin
    obtain ⟨s1, _, hp1⟩ := hsub _ h.den_tip
    have hvk := dir_of_two_params hp0 hp1
    have hk : 0 ≤ s1 - s0 := by
      by_contra hneg
      have hlt : s1 - s0 < 0 := lt_of_not_ge hneg
      have hne : s0 - s1 ≠ 0 := by intro e; linarith
      have hT : 0 ≤ (s0 + 1) / (s0 - s1) := div_nonneg (by linarith) (by linarith)
      have hT' : (s0 + 1) / (s0 - s1) * (s0 - s1) = s0 + 1 := div_mul_cancel₀ _ hne
      generalize (s0 + 1) / (s0 - s1) = T at hT hT'
      obtain ⟨u, hu, hpu⟩ := hsub _ ⟨T, hT, rfl⟩
      have e : pt c.p c.v (s0 + T * (s1 - s0)) = pt c.p c.v u := by
        rw [← show add h.p (smul T h.v) = pt c.p c.v u from hpu, hp0, hvk]
        apply V3.ext' <;> simp only [pt, add, smul] <;> ring
      have := pt_inj hcv e
      nlinarith
    refine ⟨⟨⟨⟨s0, hp0⟩, ?_⟩, ⟨s0, hs0, hp0⟩⟩, ?_⟩
    · rw [hvk]
      have := parallel_smul (s1 - s0) c.v
      rwa [parallel_iff_cross] at this
    · rw [hvk]
      have : dot c.v (smul (s1 - s0) c.v) = (s1 - s0) * normSq c.v := by
        simp only [dot, smul, normSq]; ring
      rw [this]; positivity
#print axioms HalfLine.containsHL_iff

/-- a vector orthogonal to `u` and `v` is parallel to `u × v` -/
theorem cross_cross_of_perp {a u v : V3} (hu : dot a u = 0) (hv : dot a v = 0) :
    cross a (cross u v) = zero := by
  simp only [dot] at hu hv
  apply V3.ext' <;> simp only [cross, zero]
  · linear_combination u.x * hv - v.x * hu
  · linear_combination u.y * hv - v.y * hu
  · linear_combination u.z * hv - v.z * hu

/-- a plane through three points has its normal parallel to `(p1-p0) × (p2-p0)` -/
theorem Plane.normal_cross_of_three (q : Plane) {p0 p1 p2 : V3} (h0 : q.den p0) (h1 : q.den p1)
    (h2 : q.den p2) : cross q.n (cross (sub p1 p0) (sub p2 p0)) = zero := by
  apply cross_cross_of_perp
  · simp only [Plane.den, dot, sub] at h0 h1 ⊢; linear_combination h1 - h0
  · simp only [Plane.den, dot, sub] at h0 h2 ⊢; linear_combination h2 - h0

/-- `ConvexPolygon.in_(Plane)`: `self.plane == other` -/
theorem Polygon.inPlane_iff (P : Polygon) (hv : P.Valid) (pl : Plane) (hpl : pl.WF) :
    P.inPlane pl = true ↔ ∀ x, InHull P.pts x → pl.den x := by
  have hPW := Polygon.plane_WF P hv
  unfold Polygon.inPlane
  constructor
  · intro he x hx
    exact (Plane.eqv_den P.plane pl hPW hpl he x).mp (Polygon.hull_in_plane P hv x hx)
  · intro hsub
    obtain ⟨p0, p1, p2, rest, hp, hin, htp⟩ := hv
    have m0 : p0 ∈ P.pts := by rw [hp]; simp
    have m1 : p1 ∈ P.pts := by rw [hp]; simp
    have m2 : p2 ∈ P.pts := by rw [hp]; simp
    have a0 := hsub p0 (vertex_in_hull _ _ m0)
    have a1 := hsub p1 (vertex_in_hull _ _ m1)
    have a2 := hsub p2 (vertex_in_hull _ _ m2)
    have b0 : P.plane.den p0 := by
      have := hin p0 m0; simp only [G3D.inPlane, beq_iff_eq] at this; exact this
    have b1 : P.plane.den p1 := by
      have := hin p1 m1; simp only [G3D.inPlane, beq_iff_eq] at this; exact this
    have b2 : P.plane.den p2 := by
      have := hin p2 m2; simp only [G3D.inPlane, beq_iff_eq] at this; exact this
    have hpos : 0 < orient P.plane.n p0 p1 p2 := by
      rw [hp] at htp; exact htp.1 p1 p2 (by simp)
    simp only [orient] at hpos
    have ca := Plane.normal_cross_of_three P.plane b0 b1 b2
    have cb := Plane.normal_cross_of_three pl a0 a1 a2
    generalize cross (sub p1 p0) (sub p2 p0) = w at ca cb hpos
    have hw : w ≠ zero := by
      rintro rfl
      simp [dot, zero] at hpos
    have ea := exists_smul_of_cross_zero hw ca
    have eb := exists_smul_of_cross_zero hw cb
    have hpar : V3.parallel P.plane.n pl.n = true := by
      rw [parallel_iff_cross, ea, eb]
      apply V3.ext' <;> simp only [cross, smul, zero] <;> ring
    exact Plane.eqv_of_parallel_common P.plane pl hPW hpl hpar p0 b0 a0
#print axioms Polygon.inPlane_iff

/-- `ConvexPolygon in ConvexPolyhedron` (`all vertices in the body`), provable direction -/
theorem Polyhedron.containsPolygon_of_hull (B : Polyhedron) (hv : B.VertsInside) (P : Polygon)
    (h : ∀ x, InHull P.pts x → InHull B.verts x) : B.containsPolygon P = true := by
  unfold Polyhedron.containsPolygon
  rw [List.all_eq_true]
  intro p hp
  exact Polyhedron.hull_subset_contains B hv p (h p (vertex_in_hull _ _ hp))
#print axioms Polyhedron.containsPolygon_of_hull

end G3D
