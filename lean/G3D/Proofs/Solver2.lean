import G3D.Model.Solver2
import Mathlib.Tactic.Ring
import Mathlib.Tactic.Linarith
import Mathlib.Algebra.Order.Field.Rat
import Mathlib.Algebra.BigOperators.Group.List.Basic
import Mathlib.Tactic.FieldSimp

namespace G3D.Solver2

#eval gauss [[0,1,1],[0,1,2]]
#eval gauss [[0,1,2,3]]
#eval gauss [[2,2,8],[2,-2,0]]
#eval gauss [[1,2,3],[2,4,6],[3,1,2]]

theorem rowDot_addMul (k : Rat) (a b : Row) (x : List Rat) (h : a.length = b.length) :
    rowDot (addMul k a b) x = rowDot b x + k * rowDot a x := by
  induction a generalizing b x with
  | nil => cases b <;> simp_all [rowDot, addMul]
  | cons a0 as ih =>
    cases b with
    | nil => simp at h
    | cons b0 bs =>
      cases x with
      | nil => simp [rowDot, addMul]
      | cons x0 xs =>
        have := ih bs xs (by simpa using h)
        simp only [rowDot, addMul, List.zipWith_cons_cons, List.sum_cons] at this ⊢
        rw [this]; ring

theorem rowSat_elimRow (p row : Row) (j : Nat) (x : List Rat) (h : p.length = row.length)
    (hp : rowSat p x) : rowSat (elimRow p j row) x ↔ rowSat row x := by
  unfold rowSat at *
  unfold elimRow
  rw [rowDot_addMul _ _ _ _ h, hp]; simp


theorem takePivot_perm (rows : List Row) (k : Nat) (hk : k < rows.length) :
    List.Perm ((takePivot rows k).1 :: (takePivot rows k).2) rows := by
  cases rows with
  | nil => simp at hk
  | cons r0 rest =>
    unfold takePivot
    by_cases h0 : k = 0
    · simp [h0]
    · simp only [h0, if_false]
      have hk' : k - 1 < rest.length := by simp at hk; omega
      have hget : rest.getD (k-1) [] = rest[k-1] := by
        rw [List.getD_eq_getElem?_getD]; simp [hk']
      rw [hget]
      have hsplit : rest = rest.take (k-1) ++ rest[k-1] :: rest.drop k := by
        have h1 := List.take_append_drop (k-1) rest
        have h2 := List.drop_eq_getElem_cons hk'
        have hk1 : k - 1 + 1 = k := by omega
        rw [hk1] at h2
        rw [← h2]; exact h1.symm
      have a1 : List.Perm (rest.take (k-1) ++ r0 :: rest.drop k) (r0 :: (rest.take (k-1) ++ rest.drop k)) :=
        List.perm_middle
      have a2 : List.Perm (rest.take (k-1) ++ rest[k-1] :: rest.drop k) (rest[k-1] :: (rest.take (k-1) ++ rest.drop k)) :=
        List.perm_middle
      have e3 : r0 :: (rest.take (k-1) ++ rest[k-1] :: rest.drop k) = r0 :: rest :=
        congrArg (r0 :: ·) hsplit.symm
      exact (List.Perm.cons _ a1).trans ((List.Perm.swap _ _ _).trans ((List.Perm.cons _ a2.symm).trans (by rw [e3])))

/-- specification of the pivot search -/
theorem pivotAux_spec (j : Nat) : ∀ (rows pre : List Row) (best : Option (Rat × Nat)),
    (∀ b, best = some b → b.2 < pre.length ∧ ((pre ++ rows).getD b.2 []).getD j 0 ≠ 0) →
    (best = none → ∀ r ∈ pre, r.getD j 0 = 0) →
    (∀ b, pivotAux j rows pre.length best = some b →
        b.2 < (pre ++ rows).length ∧ ((pre ++ rows).getD b.2 []).getD j 0 ≠ 0) ∧
    (pivotAux j rows pre.length best = none → ∀ r ∈ pre ++ rows, r.getD j 0 = 0) := by
  intro rows
  induction rows with
  | nil =>
    intro pre best h1 h2
    simp only [pivotAux, List.append_nil]
    exact ⟨fun b hb => by simpa using h1 b hb, h2⟩
  | cons r rs ih =>
    intro pre best h1 h2
    have hlen : (pre ++ [r]).length = pre.length + 1 := by simp
    have happ : pre ++ r :: rs = (pre ++ [r]) ++ rs := by simp
    have hr : (pre ++ r :: rs).getD pre.length [] = r := by
      rw [List.getD_eq_getElem?_getD]; simp
    simp only [pivotAux]
    by_cases hz : r.getD j 0 = 0
    · simp only [hz, if_true]
      have := ih (pre ++ [r]) best
        (by intro b hb; obtain ⟨hb1, hb2⟩ := h1 b hb; rw [happ] at hb2; exact ⟨by rw [hlen]; omega, hb2⟩)
        (by intro hn r' hr'; rcases List.mem_append.mp hr' with h | h
            · exact h2 hn r' h
            · simp at h; rw [h]; exact hz)
      rw [hlen, ← happ] at this
      exact this
    · simp only [hz, if_false]
      have hnew : ∀ a : Rat, ∀ b, some (a, pre.length) = some b →
          b.2 < (pre ++ [r]).length ∧ (((pre ++ [r]) ++ rs).getD b.2 []).getD j 0 ≠ 0 := by
        intro a b hb
        cases hb
        refine ⟨by rw [hlen]; simp, ?_⟩
        rw [← happ]; simp only; rw [hr]; exact hz
      have hold : ∀ b, best = some b →
          b.2 < (pre ++ [r]).length ∧ (((pre ++ [r]) ++ rs).getD b.2 []).getD j 0 ≠ 0 := by
        intro b hb; obtain ⟨hb1, hb2⟩ := h1 b hb; rw [happ] at hb2; exact ⟨by rw [hlen]; omega, hb2⟩
      cases best with
      | none =>
        simp only
        have := ih (pre ++ [r]) (some (absR (r.getD j 0), pre.length)) (hnew _) (by intro h; cases h)
        rw [hlen, ← happ] at this
        exact this
      | some bb =>
        obtain ⟨b, bi⟩ := bb
        simp only
        by_cases hle : b ≤ absR (r.getD j 0)
        · simp only [hle, if_true]
          have := ih (pre ++ [r]) (some (absR (r.getD j 0), pre.length)) (hnew _) (by intro h; cases h)
          rw [hlen, ← happ] at this
          exact this
        · simp only [hle, if_false]
          have := ih (pre ++ [r]) (some (b, bi)) hold (by intro h; cases h)
          rw [hlen, ← happ] at this
          exact this

theorem pivotIdx_some {rows : List Row} {j k : Nat} (h : pivotIdx rows j = some k) :
    k < rows.length ∧ (rows.getD k []).getD j 0 ≠ 0 := by
  unfold pivotIdx at h
  have := (pivotAux_spec j rows [] none (by intro b hb; cases hb) (by intro _ r hr; cases hr)).1
  cases hp : pivotAux j rows 0 none with
  | none => rw [hp] at h; simp at h
  | some b =>
    rw [hp] at h; simp at h
    have := this b (by simpa using hp)
    simpa [h] using this

theorem pivotIdx_none {rows : List Row} {j : Nat} (h : pivotIdx rows j = none) :
    ∀ r ∈ rows, r.getD j 0 = 0 := by
  unfold pivotIdx at h
  have := (pivotAux_spec j rows [] none (by intro b hb; cases hb) (by intro _ r hr; cases hr)).2
  cases hp : pivotAux j rows 0 none with
  | none => simpa using this (by simpa using hp)
  | some b => rw [hp] at h; simp at h


def Uniform (nc : Nat) (rows : List Row) : Prop := ∀ r ∈ rows, r.length = nc

theorem addMul_length (k : Rat) (a b : Row) : (addMul k a b).length = min a.length b.length := by
  simp [addMul]

theorem Sat_cons (r : Row) (m : Mat) (x : List Rat) : Sat (r :: m) x ↔ rowSat r x ∧ Sat m x := by
  simp [Sat]

theorem Sat_perm {m m' : Mat} (h : List.Perm m m') (x : List Rat) : Sat m x ↔ Sat m' x := by
  unfold Sat; constructor
  · intro hs r hr; exact hs r (h.mem_iff.mpr hr)
  · intro hs r hr; exact hs r (h.mem_iff.mp hr)

theorem Uniform_perm {nc : Nat} {m m' : Mat} (h : List.Perm m m') : Uniform nc m ↔ Uniform nc m' := by
  unfold Uniform; constructor
  · intro hs r hr; exact hs r (h.mem_iff.mpr hr)
  · intro hs r hr; exact hs r (h.mem_iff.mp hr)

theorem gaussRec_sat (nc : Nat) (x : List Rat) : ∀ (f j : Nat) (rows : List Row),
    Uniform nc rows → (Sat (gaussRec f nc j rows) x ↔ Sat rows x) := by
  intro f
  induction f with
  | zero => intro j rows _; simp [gaussRec]
  | succ f ih =>
    intro j rows hu
    unfold gaussRec
    by_cases hj : j + 1 ≥ nc
    · simp [hj]
    · simp only [hj, if_false]
      cases rows with
      | nil => simp
      | cons r0 rs =>
        simp only
        cases hp : pivotIdx (r0 :: rs) j with
        | none => simp only; exact ih (j+1) _ hu
        | some k =>
          simp only
          obtain ⟨hk, _⟩ := pivotIdx_some hp
          have hperm := takePivot_perm (r0 :: rs) k hk
          have hu' : Uniform nc ((takePivot (r0 :: rs) k).1 :: (takePivot (r0 :: rs) k).2) :=
            (Uniform_perm hperm).mpr hu
          have hp1 : (takePivot (r0 :: rs) k).1.length = nc := hu' _ (by simp)
          have hp2 : ∀ r ∈ (takePivot (r0 :: rs) k).2, r.length = nc := fun r hr => hu' r (by simp [hr])
          have humap : Uniform nc ((takePivot (r0 :: rs) k).2.map (elimRow (takePivot (r0 :: rs) k).1 j)) := by
            intro r hr
            obtain ⟨r', hr', rfl⟩ := List.mem_map.mp hr
            unfold elimRow; rw [addMul_length, hp1, hp2 r' hr']; simp
          rw [Sat_cons, ih (j+1) _ humap, ← Sat_perm hperm x, Sat_cons]
          constructor
          · rintro ⟨h1, h2⟩
            refine ⟨h1, ?_⟩
            intro r hr
            have := h2 (elimRow (takePivot (r0 :: rs) k).1 j r) (List.mem_map.mpr ⟨r, hr, rfl⟩)
            exact (rowSat_elimRow _ _ j x (by rw [hp1, hp2 r hr]) h1).mp this
          · rintro ⟨h1, h2⟩
            refine ⟨h1, ?_⟩
            intro r hr
            obtain ⟨r', hr', rfl⟩ := List.mem_map.mp hr
            exact (rowSat_elimRow _ _ j x (by rw [hp1, hp2 r' hr']) h1).mpr (h2 r' hr')

/-- C16(i): elimination does not change the solution set -/
theorem gauss_preserves_solutions (m : Mat) (x : List Rat)
    (hu : Uniform (m.headD []).length m) : Sat (gauss m) x ↔ Sat m x := by
  unfold gauss; exact gaussRec_sat _ x _ _ _ hu
#print axioms gauss_preserves_solutions

/-! ### Echelon form -/

def ZeroBefore (c : Nat) (row : Row) : Prop := ∀ i, i < c → row.getD i 0 = 0

inductive Ech (n : Nat) : Nat → List Row → Prop
  | tail (j : Nat) (rows : List Row) : j ≤ n →
      (∀ r ∈ rows, r.length = n + 1 ∧ ZeroBefore n r) → Ech n j rows
  | cons (j c : Nat) (p : Row) (rest : List Row) :
      j ≤ c → c < n → p.length = n + 1 → ZeroBefore c p → p.getD c 0 ≠ 0 →
      Ech n (c+1) rest → Ech n j (p :: rest)

theorem Ech.mono {n j j' : Nat} {l : List Row} (h : Ech n j l) (hj : j' ≤ j) : Ech n j' l := by
  cases h with
  | tail _ _ hjn hz => exact Ech.tail _ _ (by omega) hz
  | cons _ c p rest hjc hcn hl hzb hne he => exact Ech.cons _ c p rest (by omega) hcn hl hzb hne he

theorem ZeroBefore.mono {c c' : Nat} {r : Row} (h : ZeroBefore c r) (hc : c' ≤ c) : ZeroBefore c' r :=
  fun i hi => h i (by omega)

theorem Ech.rows {n j : Nat} {l : List Row} (h : Ech n j l) :
    ∀ r ∈ l, r.length = n + 1 ∧ ZeroBefore j r := by
  induction h with
  | tail j rows hjn hz => intro r hr; exact ⟨(hz r hr).1, (hz r hr).2.mono hjn⟩
  | cons j c p rest hjc hcn hl hzb hne _ ih =>
    intro r hr
    rcases List.mem_cons.mp hr with rfl | hr
    · exact ⟨hl, hzb.mono hjc⟩
    · exact ⟨(ih r hr).1, (ih r hr).2.mono (by omega)⟩

theorem getD_addMul (k : Rat) (a b : Row) (i : Nat) (h : a.length = b.length) :
    (addMul k a b).getD i 0 = b.getD i 0 + k * a.getD i 0 := by
  induction a generalizing b i with
  | nil => cases b <;> simp_all [addMul]
  | cons a0 as ih =>
    cases b with
    | nil => simp at h
    | cons b0 bs =>
      cases i with
      | zero => simp [addMul]
      | succ i =>
        have := ih bs i (by simpa using h)
        simpa [addMul] using this

theorem takePivot_fst (rows : List Row) (k : Nat) (hk : k < rows.length) :
    (takePivot rows k).1 = rows.getD k [] := by
  cases rows with
  | nil => simp at hk
  | cons r0 rest =>
    unfold takePivot
    by_cases h0 : k = 0
    · simp [h0]
    · simp only [h0, if_false]
      obtain ⟨k', rfl⟩ : ∃ k', k = k' + 1 := ⟨k - 1, by omega⟩
      simp

theorem gaussRec_ech (n : Nat) : ∀ (f j : Nat) (rows : List Row),
    Uniform (n+1) rows → (∀ r ∈ rows, ZeroBefore j r) → j ≤ n → n ≤ j + f →
    Ech n j (gaussRec f (n+1) j rows) := by
  intro f
  induction f with
  | zero =>
    intro j rows hu hz hjn hf
    have : j = n := by omega
    subst this
    simp only [gaussRec]
    exact Ech.tail _ _ (le_refl _) (fun r hr => ⟨hu r hr, hz r hr⟩)
  | succ f ih =>
    intro j rows hu hz hjn hf
    unfold gaussRec
    by_cases hj : j + 1 ≥ n + 1
    · simp only [hj, if_true]
      have : j = n := by omega
      subst this
      exact Ech.tail _ _ (le_refl _) (fun r hr => ⟨hu r hr, hz r hr⟩)
    · simp only [hj, if_false]
      have hjn' : j < n := by omega
      cases rows with
      | nil => exact Ech.tail _ _ hjn (by simp)
      | cons r0 rs =>
        simp only
        cases hp : pivotIdx (r0 :: rs) j with
        | none =>
          simp only
          have hzero := pivotIdx_none hp
          refine (ih (j+1) _ hu ?_ (by omega) (by omega)).mono (by omega)
          intro r hr i hi
          rcases Nat.lt_succ_iff_lt_or_eq.mp hi with h | h
          · exact hz r hr i h
          · rw [h]; exact hzero r hr
        | some k =>
          simp only
          obtain ⟨hk, hne⟩ := pivotIdx_some hp
          have hperm := takePivot_perm (r0 :: rs) k hk
          have hu' : Uniform (n+1) ((takePivot (r0 :: rs) k).1 :: (takePivot (r0 :: rs) k).2) :=
            (Uniform_perm hperm).mpr hu
          have hmem : ∀ r ∈ (takePivot (r0 :: rs) k).1 :: (takePivot (r0 :: rs) k).2, r ∈ r0 :: rs :=
            fun r hr => hperm.mem_iff.mp hr
          have hp1 : (takePivot (r0 :: rs) k).1.length = n + 1 := hu' _ (by simp)
          have hp2 : ∀ r ∈ (takePivot (r0 :: rs) k).2, r.length = n + 1 := fun r hr => hu' r (by simp [hr])
          have hpz : ZeroBefore j (takePivot (r0 :: rs) k).1 := hz _ (hmem _ (by simp))
          have hpne : (takePivot (r0 :: rs) k).1.getD j 0 ≠ 0 := by
            rw [takePivot_fst _ _ hk]; exact hne
          have humap : Uniform (n+1) ((takePivot (r0 :: rs) k).2.map (elimRow (takePivot (r0 :: rs) k).1 j)) := by
            intro r hr
            obtain ⟨r', hr', rfl⟩ := List.mem_map.mp hr
            unfold elimRow; rw [addMul_length, hp1, hp2 r' hr']; simp
          have hzmap : ∀ r ∈ (takePivot (r0 :: rs) k).2.map (elimRow (takePivot (r0 :: rs) k).1 j),
              ZeroBefore (j+1) r := by
            intro r hr
            obtain ⟨r', hr', rfl⟩ := List.mem_map.mp hr
            intro i hi
            unfold elimRow
            rw [getD_addMul _ _ _ _ (by rw [hp1, hp2 r' hr'])]
            rcases Nat.lt_succ_iff_lt_or_eq.mp hi with h | h
            · rw [hz r' (hmem r' (by simp [hr'])) i h, hpz i h]; ring
            · rw [h]; field_simp; ring
          exact Ech.cons j j _ _ (le_refl _) hjn' hp1 hpz hpne
            (ih (j+1) _ humap hzmap (by omega) (by omega))

/-- C16(ii): the result of the elimination is in row echelon form -/
theorem gauss_echelon (n : Nat) (m : Mat) (hu : Uniform (n+1) m) (hne : m ≠ []) :
    Ech n 0 (gauss m) := by
  unfold gauss
  have hl : (m.headD []).length = n + 1 := by
    cases m with
    | nil => exact absurd rfl hne
    | cons r rs => simpa using hu r (by simp)
  rw [hl]
  exact gaussRec_ech n (n+1) 0 m hu (fun r _ i hi => by omega) (by omega) (by omega)
#print axioms gauss_echelon

/-! ### Back substitution -/

def tot (vals : List (Option Rat)) : List Rat := vals.map (fun o => o.getD 0)

@[simp] theorem rowDot_nil_left (y : List Rat) : rowDot [] y = 0 := by simp [rowDot]
@[simp] theorem rowDot_nil_right (r : Row) : rowDot r [] = 0 := by simp [rowDot]
@[simp] theorem rowDot_cons (a : Rat) (as : Row) (b : Rat) (bs : List Rat) :
    rowDot (a :: as) (b :: bs) = a * b + rowDot as bs := by simp [rowDot]

theorem ZeroBefore.tail {c : Nat} {a : Rat} {as : Row} (h : ZeroBefore (c+1) (a :: as)) :
    a = 0 ∧ ZeroBefore c as := by
  constructor
  · simpa using h 0 (by omega)
  · intro i hi; simpa using h (i+1) (by omega)

theorem rowDot_zeroBefore : ∀ (c : Nat) (row : Row) (y : List Rat), ZeroBefore c row →
    rowDot row y = rowDot (row.drop c) (y.drop c) := by
  intro c
  induction c with
  | zero => intro row y _; simp
  | succ c ih =>
    intro row y hz
    cases row with
    | nil => simp
    | cons a as =>
      cases y with
      | nil => simp
      | cons b bs =>
        obtain ⟨ha, hz'⟩ := hz.tail
        simp only [rowDot_cons, List.drop_succ_cons, ha, zero_mul, zero_add]
        exact ih as bs hz'

theorem rowDot_append_neg_one : ∀ (bs : List Rat) (as : Row), as.length = bs.length + 1 →
    rowDot as (bs ++ [-1]) = rowDot as.dropLast bs - as.getLastD 0 := by
  intro bs
  induction bs with
  | nil =>
    intro as h
    match as, h with
    | [a], _ => simp [rowDot]
  | cons b bs ih =>
    intro as h
    match as, h with
    | a :: a' :: as', h =>
      have := ih (a' :: as') (by simpa using h)
      simp only [List.cons_append, rowDot_cons, List.dropLast_cons₂, this]
      simp [List.getLastD]
      ring

theorem sumNeg_ok : ∀ (as : Row) (ovs : List (Option Rat)), (∀ o ∈ ovs, o ≠ none) →
    sumNeg as ovs = .ok (- rowDot as (tot ovs)) := by
  intro as
  induction as with
  | nil => intro ovs _; simp [sumNeg, tot]; rfl
  | cons a as ih =>
    intro ovs h
    cases ovs with
    | nil => simp [sumNeg, tot]; rfl
    | cons o os =>
      cases o with
      | none => exact absurd rfl (h none (by simp))
      | some v =>
        have := ih os (fun o ho => h o (by simp [ho]))
        simp only [sumNeg, this, tot, List.map_cons, Option.getD_some, rowDot_cons]
        simp only [bind, Except.bind, pure, Except.pure]
        congr 1
        simp [tot]; ring

theorem rowDot_set_zero : ∀ (row : Row) (y : List Rat) (c : Nat) (a : Rat), row.getD c 0 = 0 →
    rowDot row (y.set c a) = rowDot row y := by
  intro row
  induction row with
  | nil => intro y c a _; simp
  | cons r rs ih =>
    intro y c a h
    cases y with
    | nil => simp
    | cons b bs =>
      cases c with
      | zero => simp at h; simp [h]
      | succ c => simp at h; simp [ih bs c a h]

theorem tot_set (vals : List (Option Rat)) (c : Nat) (a : Rat) :
    tot (vals.set c (some a)) = (tot vals).set c a := by
  simp [tot, List.map_set]

theorem firstNonzero_eq : ∀ (c : Nat) (p : Row), ZeroBefore c p → p.getD c 0 ≠ 0 → firstNonzero p = c := by
  intro c
  induction c with
  | zero =>
    intro p _ hne
    cases p with
    | nil => simp at hne
    | cons a as => simp at hne; simp [firstNonzero, hne]
  | succ c ih =>
    intro p hz hne
    cases p with
    | nil => simp at hne
    | cons a as =>
      obtain ⟨ha, hz'⟩ := hz.tail
      simp at hne
      simp [firstNonzero, ha, ih as hz' hne]

theorem nullRow_iff (r : Row) : nullRow r = true ↔ ∀ a ∈ r, a = 0 := by
  simp [nullRow]

theorem not_nullRow_of_ne {p : Row} {c : Nat} (h : p.getD c 0 ≠ 0) : nullRow p = false := by
  by_contra hn
  simp only [Bool.not_eq_false] at hn
  rw [nullRow_iff] at hn
  apply h
  rw [List.getD_eq_getElem?_getD]
  cases hg : p[c]? with
  | none => simp
  | some a => simp; exact hn a (List.mem_of_getElem? hg)

theorem rowDot_all_zero : ∀ (row : Row) (y : List Rat), (∀ a ∈ row, a = 0) → rowDot row y = 0 := by
  intro row
  induction row with
  | nil => intro y _; simp
  | cons a as ih =>
    intro y h
    cases y with
    | nil => simp
    | cons b bs => simp [h a (by simp), ih bs (fun a' ha' => h a' (by simp [ha']))]

theorem solvable_cons {p : Row} {rest : Mat} (h : solvable (p :: rest) = true) :
    ¬ ((p.dropLast.all (· == 0)) = true ∧ p.getLastD 0 ≠ 0) ∧ solvable rest = true := by
  simp only [solvable, List.any_cons, Bool.not_eq_true', Bool.or_eq_false_iff] at h ⊢
  refine ⟨?_, by simpa using h.2⟩
  intro ⟨h1, h2⟩
  have := h.1
  simp only [Bool.and_eq_false_iff] at this
  rcases this with h3 | h3
  · rw [h1] at h3; cases h3
  · simp at h3; exact h2 (by rw [List.getLastD_eq_getLast?]; exact h3)

/-- a row with only zero coefficients in a solvable system is a null row -/
theorem null_of_tail {n : Nat} {r : Row} (hl : r.length = n + 1) (hz : ZeroBefore n r)
    (hs : ¬ ((r.dropLast.all (· == 0)) = true ∧ r.getLastD 0 ≠ 0)) : ∀ a ∈ r, a = 0 := by
  have hne : r ≠ [] := by intro h; rw [h] at hl; simp at hl
  have hcoef : ∀ a ∈ r.dropLast, a = 0 := by
    intro a ha
    obtain ⟨i, hi, rfl⟩ := List.mem_iff_getElem.mp ha
    have hi' : i < n := by simpa [hl] using hi
    have := hz i hi'
    rw [List.getD_eq_getElem?_getD] at this
    rw [List.getElem_dropLast]
    have hlt : i < r.length := by omega
    simpa [List.getElem?_eq_getElem hlt] using this
  have hlast : r.getLastD 0 = 0 := by
    by_contra h
    exact hs ⟨by simpa using hcoef, h⟩
  intro a ha
  rw [← List.dropLast_append_getLast hne] at ha
  rcases List.mem_append.mp ha with h | h
  · exact hcoef a h
  · simp at h
    rw [h]
    have : r.getLastD 0 = r.getLast hne := by
      rw [List.getLastD_eq_getLast?, List.getLast?_eq_getLast hne]; rfl
    rw [← this]; exact hlast

theorem pass3_null : ∀ (rows : List Row) (vals0 : List (Option Rat)),
    (∀ r ∈ rows, nullRow r = true) → pass3 rows vals0 = .ok vals0 := by
  intro rows
  induction rows with
  | nil => intro vals0 _; rfl
  | cons r rs ih =>
    intro vals0 h
    simp only [pass3, ih vals0 (fun r' hr' => h r' (by simp [hr'])), h r (by simp)]
    rfl

theorem pivotCols_null (rows : List Row) (h : ∀ r ∈ rows, nullRow r = true) : pivotCols rows = [] := by
  simp only [pivotCols, nonNullRows, List.map_eq_nil_iff, List.filter_eq_nil_iff]
  intro r hr; simp [h r hr]

theorem pivotCols_cons_nonnull (p : Row) (rest : Mat) (h : nullRow p = false) :
    pivotCols (p :: rest) = firstNonzero p :: pivotCols rest := by
  simp [pivotCols, nonNullRows, h]

theorem pivotCols_ge {n : Nat} : ∀ {j : Nat} {s : Mat}, Ech n j s → solvable s = true →
    ∀ i ∈ pivotCols s, j ≤ i ∧ i < n := by
  intro j s h
  induction h with
  | tail j rows hjn hz =>
    intro hs i hi
    have hnull : ∀ r ∈ rows, nullRow r = true := by
      intro r hr
      rw [nullRow_iff]
      have : solvable rows = true := hs
      simp only [solvable, Bool.not_eq_true', List.any_eq_false] at this
      refine null_of_tail (hz r hr).1 (hz r hr).2 ?_
      intro ⟨h1, h2⟩
      have := this r hr
      simp [h1] at this
      exact h2 (by rw [List.getLastD_eq_getLast?]; exact this)
    rw [pivotCols_null rows hnull] at hi; cases hi
  | cons j c p rest hjc hcn hl hzb hne _ ih =>
    intro hs i hi
    obtain ⟨_, hsr⟩ := solvable_cons hs
    rw [pivotCols_cons_nonnull p rest (not_nullRow_of_ne hne), firstNonzero_eq c p hzb hne] at hi
    rcases List.mem_cons.mp hi with rfl | hi
    · exact ⟨hjc, hcn⟩
    · have := ih hsr i hi; exact ⟨by omega, this.2⟩

theorem getD_set_ne {α} (l : List α) (c i : Nat) (a d : α) (h : c ≠ i) : (l.set c a).getD i d = l.getD i d := by
  rw [List.getD_eq_getElem?_getD, List.getD_eq_getElem?_getD, List.getElem?_set_ne h]

theorem getD_set_eq {α} (l : List α) (c : Nat) (a d : α) (h : c < l.length) : (l.set c a).getD c d = a := by
  rw [List.getD_eq_getElem?_getD, List.getElem?_set_self h]; rfl

theorem getD_tot (vals : List (Option Rat)) (i : Nat) : (tot vals).getD i 0 = (vals.getD i none).getD 0 := by
  simp only [tot, List.getD_eq_getElem?_getD, List.getElem?_map]
  cases vals[i]? <;> simp

/-- the pivot row's equation after setting its variable -/
theorem pivot_row_sat {n c : Nat} {p : Row} {y : List Rat} (hl : p.length = n + 1) (hy : y.length = n)
    (hcn : c < n) (hzb : ZeroBefore c p) (hne : p.getD c 0 ≠ 0) :
    rowDot p (y.set c ((- rowDot ((p.drop (c+1)).dropLast) (y.drop (c+1)) + p.getLastD 0) / p.getD c 0) ++ [-1]) = 0 := by
  set val := (- rowDot ((p.drop (c+1)).dropLast) (y.drop (c+1)) + p.getLastD 0) / p.getD c 0 with hval
  have hylen : (y.set c val ++ [-1]).length = n + 1 := by simp [hy]
  rw [rowDot_zeroBefore c p _ hzb]
  have hc1 : c < p.length := by omega
  have hc2 : c < (y.set c val ++ [-1]).length := by omega
  rw [List.drop_eq_getElem_cons hc1, List.drop_eq_getElem_cons hc2, rowDot_cons]
  have hpc : p[c] = p.getD c 0 := by rw [List.getD_eq_getElem?_getD, List.getElem?_eq_getElem hc1]; rfl
  have hyc : (y.set c val ++ [-1])[c] = val := by
    rw [List.getElem_append_left (by simp [hy, hcn])]; simp
  have hdrop : (y.set c val ++ [-1]).drop (c+1) = y.drop (c+1) ++ [-1] := by
    rw [List.drop_append_of_le_length (by simp [hy]; omega), List.drop_set_of_lt (by omega)]
  rw [hpc, hyc, hdrop]
  have hlen2 : (p.drop (c+1)).length = (y.drop (c+1)).length + 1 := by simp [hl, hy]; omega
  rw [rowDot_append_neg_one _ _ hlen2]
  have hlast : (p.drop (c+1)).getLastD 0 = p.getLastD 0 := by
    rw [List.getLastD_eq_getLast?, List.getLastD_eq_getLast?, List.getLast?_drop, if_neg (by omega)]
  rw [hlast, hval]
  field_simp
  ring

theorem pass3_spec (n : Nat) : ∀ {j : Nat} {s : Mat}, Ech n j s → solvable s = true →
    ∀ vals0 : List (Option Rat), vals0.length = n →
    (∀ i, j ≤ i → i < n → i ∉ pivotCols s → vals0.getD i none ≠ none) →
    ∃ vals, pass3 s vals0 = .ok vals ∧ vals.length = n ∧
      (∀ i, i ∉ pivotCols s → vals.getD i none = vals0.getD i none) ∧
      (∀ i, j ≤ i → i < n → vals.getD i none ≠ none) ∧
      (∀ row ∈ s, rowDot row (tot vals ++ [-1]) = 0) := by
  intro j s h
  induction h with
  | tail j rows hjn hz =>
    intro hs vals0 hlen hfree
    have hnullall : ∀ r ∈ rows, ∀ a ∈ r, a = 0 := by
      intro r hr
      have : solvable rows = true := hs
      simp only [solvable, Bool.not_eq_true', List.any_eq_false] at this
      refine null_of_tail (hz r hr).1 (hz r hr).2 ?_
      intro ⟨h1, h2⟩
      have := this r hr
      simp [h1] at this
      exact h2 (by rw [List.getLastD_eq_getLast?]; exact this)
    have hnull : ∀ r ∈ rows, nullRow r = true := fun r hr => (nullRow_iff r).mpr (hnullall r hr)
    have hpc := pivotCols_null rows hnull
    refine ⟨vals0, pass3_null rows vals0 hnull, hlen, fun _ _ => rfl, ?_, ?_⟩
    · intro i hji hin; exact hfree i hji hin (by rw [hpc]; simp)
    · intro row hrow; exact rowDot_all_zero row _ (hnullall row hrow)
  | cons j c p rest hjc hcn hl hzb hne hrest ih =>
    intro hs vals0 hlen hfree
    obtain ⟨_, hsr⟩ := solvable_cons hs
    have hpnn : nullRow p = false := not_nullRow_of_ne hne
    have hfn : firstNonzero p = c := firstNonzero_eq c p hzb hne
    have hpc : pivotCols (p :: rest) = c :: pivotCols rest := by
      rw [pivotCols_cons_nonnull p rest hpnn, hfn]
    have hge := pivotCols_ge hrest hsr
    obtain ⟨vals', hp3, hlen', hunch, hsome, hsat⟩ := ih hsr vals0 hlen (by
      intro i hci hin hnot
      exact hfree i (by omega) hin (by rw [hpc]; simp; exact ⟨by omega, hnot⟩))
    have hallsome : ∀ o ∈ vals'.drop (c+1), o ≠ none := by
      intro o ho
      obtain ⟨i, hi, rfl⟩ := List.mem_iff_getElem.mp ho
      simp only [List.length_drop] at hi
      rw [List.getElem_drop]
      have := hsome (c + 1 + i) (by omega) (by omega)
      rw [List.getD_eq_getElem?_getD, List.getElem?_eq_getElem (by omega)] at this
      simpa using this
    have hsum := sumNeg_ok ((p.drop (c+1)).dropLast) (vals'.drop (c+1)) hallsome
    set val := (- rowDot ((p.drop (c+1)).dropLast) (tot (vals'.drop (c+1))) + p.getLastD 0) / p.getD c 0 with hval
    refine ⟨vals'.set c (some val), ?_, by simp [hlen'], ?_, ?_, ?_⟩
    · simp only [pass3, hp3, hpnn, hfn, hsum, bind, Except.bind, pure, Except.pure,
        Bool.false_eq_true, if_false, hval]
    · intro i hi
      rw [hpc] at hi
      simp only [List.mem_cons, not_or] at hi
      rw [getD_set_ne _ _ _ _ _ (Ne.symm hi.1)]
      exact hunch i hi.2
    · intro i hji hin
      by_cases hic : i = c
      · subst hic; rw [getD_set_eq _ _ _ _ (by omega)]; simp
      · rw [getD_set_ne _ _ _ _ _ (Ne.symm hic)]
        by_cases hgt : c < i
        · exact hsome i (by omega) hin
        · have hnotpiv : i ∉ pivotCols rest := fun hm => by have := (hge i hm).1; omega
          rw [hunch i hnotpiv]
          exact hfree i hji hin (by rw [hpc]; simp; exact ⟨hic, hnotpiv⟩)
    · intro row hrow
      rw [tot_set]
      rcases List.mem_cons.mp hrow with rfl | hrow
      · have hdrop : tot (vals'.drop (c+1)) = (tot vals').drop (c+1) := by simp [tot, List.map_drop]
        rw [hval, hdrop]
        exact pivot_row_sat hl (by simp [tot, hlen']) hcn hzb hne
      · have hz0 : row.getD c 0 = 0 := (hrest.rows row hrow).2 c (by omega)
        have : (tot vals').set c val ++ [-1] = (tot vals' ++ [-1]).set c val := by
          rw [List.set_append_left _ _ (by simp [tot, hlen', hcn])]
        rw [this, rowDot_set_zero _ _ _ _ hz0]
        exact hsat row hrow
#print axioms pass3_spec

/-! ### pass 1 and pass 2 -/

theorem firstNonzero_dropLast : ∀ (r : Row), (∃ a ∈ r.dropLast, a ≠ 0) →
    firstNonzero r.dropLast = firstNonzero r := by
  intro r
  induction r with
  | nil => intro h; simp at h
  | cons a as ih =>
    intro h
    cases as with
    | nil => simp at h
    | cons a' as' =>
      rw [List.dropLast_cons_cons]
      by_cases ha : a = 0
      · have e1 : firstNonzero (a :: (a' :: as').dropLast) = firstNonzero (a' :: as').dropLast + 1 := by
          simp [firstNonzero, ha]
        have e2 : firstNonzero (a :: a' :: as') = firstNonzero (a' :: as') + 1 := by
          simp [firstNonzero, ha]
        rw [e1, e2]
        have : ∃ b ∈ (a' :: as').dropLast, b ≠ 0 := by
          obtain ⟨b, hb, hb0⟩ := h
          simp only [List.dropLast_cons_cons, List.mem_cons] at hb
          rcases hb with rfl | hb
          · exact absurd ha hb0
          · exact ⟨b, hb, hb0⟩
        rw [ih this]
      · have e1 : firstNonzero (a :: (a' :: as').dropLast) = 0 := by
          rw [firstNonzero]; simp [ha]
        have e2 : firstNonzero (a :: a' :: as') = 0 := by
          rw [firstNonzero]; simp [ha]
        rw [e1, e2]

theorem mem_pivotCols_of_mem {s : Mat} {r : Row} (hr : r ∈ s) (hnn : nullRow r = false) :
    firstNonzero r ∈ pivotCols s := by
  simp only [pivotCols, nonNullRows, List.mem_map, List.mem_filter]
  exact ⟨r, ⟨hr, by simp [hnn]⟩, rfl⟩

theorem pass1_spec (s : Mat) : ∀ (rows : List Row) (vals : List (Option Rat)),
    (∀ r ∈ rows, r ∈ s) →
    (pass1 rows vals).length = vals.length ∧
    ∀ i, i ∉ pivotCols s → (pass1 rows vals).getD i none = vals.getD i none := by
  intro rows
  induction rows with
  | nil => intro vals _; simp [pass1]
  | cons r rs ih =>
    intro vals hsub
    have hrs : ∀ r' ∈ rs, r' ∈ s := fun r' h => hsub r' (by simp [h])
    simp only [pass1, List.foldl_cons]
    by_cases h1 : (r.dropLast.filter (· != 0)).length = 1
    · simp only [h1, if_true]
      have := ih (vals.set (firstNonzero r.dropLast) (some (r.getLastD 0 / r.getD (firstNonzero r.dropLast) 0))) hrs
      simp only [pass1] at this
      refine ⟨by rw [this.1]; simp, ?_⟩
      intro i hi
      rw [this.2 i hi]
      -- the variable set here is a pivot column
      have hex : ∃ a ∈ r.dropLast, a ≠ 0 := by
        have : 0 < (r.dropLast.filter (· != 0)).length := by omega
        obtain ⟨a, ha⟩ := List.exists_mem_of_length_pos this
        rw [List.mem_filter] at ha
        exact ⟨a, ha.1, by simpa using ha.2⟩
      have hnn : nullRow r = false := by
        obtain ⟨a, ha, ha0⟩ := hex
        by_contra hn
        simp only [Bool.not_eq_false] at hn
        exact ha0 ((nullRow_iff r).mp hn a (List.dropLast_subset r ha))
      have hpiv : firstNonzero r.dropLast ∈ pivotCols s := by
        rw [firstNonzero_dropLast r hex]; exact mem_pivotCols_of_mem (hsub r (by simp)) hnn
      have hne : firstNonzero r.dropLast ≠ i := fun h => hi (h ▸ hpiv)
      exact getD_set_ne _ _ _ _ _ hne
    · simp only [h1, if_false]
      have := ih vals hrs
      simpa [pass1] using this

/-- number of still-unset non-pivot variables among the first `i` -/
def freeBelow (piv : List Nat) (vals : List (Option Rat)) : Nat → Nat
  | 0 => 0
  | i+1 => freeBelow piv vals i + (if vals.getD i none = none ∧ i ∉ piv then 1 else 0)

theorem freeBelow_set_ge (piv : List Nat) (vals : List (Option Rat)) (c : Nat) (o : Option Rat) :
    ∀ i, i ≤ c → freeBelow piv (vals.set c o) i = freeBelow piv vals i := by
  intro i
  induction i with
  | zero => intro _; rfl
  | succ i ih =>
    intro h
    simp only [freeBelow, ih (by omega)]
    rw [getD_set_ne _ _ _ _ _ (by omega : c ≠ i)]

theorem freeBelow_zero (piv : List Nat) (vals : List (Option Rat)) : ∀ m, freeBelow piv vals m = 0 →
    ∀ k, k < m → k ∉ piv → vals.getD k none ≠ none := by
  intro m
  induction m with
  | zero => intro _ k hk; omega
  | succ m ihm =>
    intro hm k hk hkp
    rw [freeBelow] at hm
    rcases Nat.lt_succ_iff_lt_or_eq.mp hk with h | h
    · exact ihm (by omega) k h hkp
    · subst h
      intro hnone
      rw [if_pos ⟨hnone, hkp⟩] at hm
      omega

theorem pass2_spec (piv : List Nat) : ∀ (i : Nat) (v : List Rat) (vals : List (Option Rat)),
    i ≤ vals.length → freeBelow piv vals i ≤ v.length →
    (pass2 piv i v vals).length = vals.length ∧
    (∀ k, k < i → k ∉ piv → (pass2 piv i v vals).getD k none ≠ none) ∧
    (∀ k, i ≤ k → (pass2 piv i v vals).getD k none = vals.getD k none) := by
  intro i
  induction i with
  | zero => intro v vals _ _; exact ⟨rfl, fun k hk => by omega, fun _ _ => rfl⟩
  | succ i ih =>
    intro v vals hil hv
    rw [freeBelow] at hv
    unfold pass2
    by_cases hemp : v.isEmpty = true
    · rw [if_pos hemp]
      have hv0 : v.length = 0 := by simpa using hemp
      refine ⟨rfl, ?_, fun _ _ => rfl⟩
      exact freeBelow_zero piv vals (i+1) (by rw [freeBelow]; omega)
    · rw [if_neg hemp]
      by_cases hc : vals.getD i none = none ∧ i ∉ piv
      · rw [if_pos hc] at hv ⊢
        have hvl : 0 < v.length := by
          cases v with
          | nil => simp at hemp
          | cons _ _ => simp
        have := ih v.dropLast (vals.set i (some (v.getLastD 0))) (by simp; omega)
          (by rw [freeBelow_set_ge _ _ _ _ i (le_refl _)]; simp; omega)
        refine ⟨by rw [this.1]; simp, ?_, ?_⟩
        · intro k hk hkp
          rcases Nat.lt_succ_iff_lt_or_eq.mp hk with h | h
          · exact this.2.1 k h hkp
          · subst h
            rw [this.2.2 k (le_refl _), getD_set_eq _ _ _ _ (by omega)]; simp
        · intro k hk
          rw [this.2.2 k (by omega), getD_set_ne _ _ _ _ _ (by omega : i ≠ k)]
      · rw [if_neg hc] at hv ⊢
        have := ih v vals (by omega) (by omega)
        refine ⟨this.1, ?_, fun k hk => this.2.2 k (by omega)⟩
        intro k hk hkp
        rcases Nat.lt_succ_iff_lt_or_eq.mp hk with h | h
        · exact this.2.1 k h hkp
        · subst h
          rw [this.2.2 k (le_refl _)]
          intro hnone; exact hc ⟨hnone, hkp⟩

/-! ### Assembly -/

def freeCount (piv : List Nat) : Nat → Nat
  | 0 => 0
  | i+1 => freeCount piv i + (if i ∈ piv then 0 else 1)

theorem freeBelow_le_freeCount (piv : List Nat) (vals : List (Option Rat)) :
    ∀ m, freeBelow piv vals m ≤ freeCount piv m := by
  intro m
  induction m with
  | zero => simp [freeBelow, freeCount]
  | succ m ih =>
    rw [freeBelow, freeCount]
    by_cases h : m ∈ piv
    · rw [if_pos h, if_neg (by intro hh; exact hh.2 h)]; omega
    · rw [if_neg h]; split <;> omega

theorem freeCount_congr (p q : List Nat) : ∀ m, (∀ k, k < m → (k ∈ p ↔ k ∈ q)) → freeCount p m = freeCount q m := by
  intro m
  induction m with
  | zero => intro _; rfl
  | succ m ih =>
    intro h
    rw [freeCount, freeCount, ih (fun k hk => h k (by omega))]
    by_cases hm : m ∈ p
    · rw [if_pos hm, if_pos ((h m (by omega)).mp hm)]
    · rw [if_neg hm, if_neg (fun hq => hm ((h m (by omega)).mpr hq))]

theorem freeCount_add_length : ∀ (m : Nat) (piv : List Nat), piv.Nodup → (∀ k ∈ piv, k < m) →
    freeCount piv m + piv.length = m := by
  intro m
  induction m with
  | zero =>
    intro piv _ h
    cases piv with
    | nil => rfl
    | cons a as => exact absurd (h a (by simp)) (by omega)
  | succ m ih =>
    intro piv hnd h
    rw [freeCount]
    by_cases hm : m ∈ piv
    · rw [if_pos hm]
      have hnd' : (piv.erase m).Nodup := hnd.erase m
      have hlt : ∀ k ∈ piv.erase m, k < m := by
        intro k hk
        have hk1 : k ∈ piv := List.mem_of_mem_erase hk
        have hk2 : k ≠ m := by
          intro e; subst e
          exact (List.Nodup.not_mem_erase hnd) hk
        have := h k hk1; omega
      have hcong : freeCount piv m = freeCount (piv.erase m) m := by
        apply freeCount_congr
        intro k hk
        constructor
        · intro hkp; exact (List.mem_erase_of_ne (by omega)).mpr hkp
        · exact List.mem_of_mem_erase
      have hlen : (piv.erase m).length = piv.length - 1 := List.length_erase_of_mem hm
      have hpos : 0 < piv.length := List.length_pos_of_mem hm
      have := ih (piv.erase m) hnd' hlt
      omega
    · rw [if_neg hm]
      have hlt : ∀ k ∈ piv, k < m := by
        intro k hk
        have := h k hk
        have : k ≠ m := fun e => hm (e ▸ hk)
        omega
      have := ih piv hnd hlt
      omega

theorem pivotCols_nodup {n : Nat} : ∀ {j : Nat} {s : Mat}, Ech n j s → solvable s = true →
    (pivotCols s).Nodup := by
  intro j s h
  induction h with
  | tail j rows hjn hz =>
    intro hs
    have hnull : ∀ r ∈ rows, nullRow r = true := by
      intro r hr
      rw [nullRow_iff]
      have : solvable rows = true := hs
      simp only [solvable, Bool.not_eq_true', List.any_eq_false] at this
      refine null_of_tail (hz r hr).1 (hz r hr).2 ?_
      intro ⟨h1, h2⟩
      have := this r hr
      simp [h1] at this
      exact h2 (by rw [List.getLastD_eq_getLast?]; exact this)
    rw [pivotCols_null rows hnull]; exact List.nodup_nil
  | cons j c p rest hjc hcn hl hzb hne hrest ih =>
    intro hs
    obtain ⟨_, hsr⟩ := solvable_cons hs
    rw [pivotCols_cons_nonnull p rest (not_nullRow_of_ne hne), firstNonzero_eq c p hzb hne]
    refine List.nodup_cons.mpr ⟨?_, ih hsr⟩
    intro hm
    have := (pivotCols_ge hrest hsr c hm).1
    omega

theorem pivotCols_length (s : Mat) : (pivotCols s).length = (nonNullRows s).length := by
  simp [pivotCols]

/-- C16(iii): with the expected number of free values, the call succeeds, every unknown gets a number,
    and the tuple satisfies every equation of the ORIGINAL system. -/
theorem call_satisfies (n : Nat) (m : Mat) (hu : Uniform (n+1) m) (hne : m ≠ [])
    (hs : solvable (solve m) = true) (v : List Rat) (hv : v.length = varargs n (solve m)) :
    ∃ vals, call n (solve m) v = .ok vals ∧ vals.length = n ∧
      (∀ i, i < n → vals.getD i none ≠ none) ∧ Sat m (tot vals) := by
  have hech : Ech n 0 (solve m) := gauss_echelon n m hu hne
  set s := solve m with hsdef
  have hpiv_lt := pivotCols_ge hech hs
  have hnd := pivotCols_nodup hech hs
  -- pass 1
  obtain ⟨h1len, h1free⟩ := pass1_spec s s (List.replicate n none) (fun r hr => hr)
  set vals1 := pass1 s (List.replicate n none) with hv1
  have h1len' : vals1.length = n := by rw [h1len]; simp
  -- pass 2
  have hcount : freeBelow (pivotCols s) vals1 n ≤ v.length := by
    have a := freeBelow_le_freeCount (pivotCols s) vals1 n
    have b := freeCount_add_length n (pivotCols s) hnd (fun k hk => (hpiv_lt k hk).2)
    rw [hv, varargs, ← pivotCols_length]
    omega
  obtain ⟨h2len, h2some, _⟩ := pass2_spec (pivotCols s) n v vals1 (by omega) hcount
  set vals2 := pass2 (pivotCols s) n v vals1 with hv2
  -- pass 3
  obtain ⟨vals, hp3, hlen, _, hsome, hsat⟩ := pass3_spec n hech hs vals2 (by rw [h2len, h1len'])
    (fun i _ hin hnp => h2some i hin hnp)
  refine ⟨vals, ?_, hlen, fun i hi => hsome i (by omega) hi, ?_⟩
  · unfold call
    rw [hs]
    simp only [Bool.not_true, Bool.false_eq_true, if_false, hv, ne_eq, not_true_eq_false]
    exact hp3
  · exact (gauss_preserves_solutions m (tot vals) (by
      have : (m.headD []).length = n + 1 := by
        cases m with
        | nil => exact absurd rfl hne
        | cons r rs => simpa using hu r (by simp)
      rw [this]; exact hu)).mp hsat

/-- C16(iv): truthiness of the solution object is exactly consistency of the system -/
theorem solvable_iff_consistent (n : Nat) (m : Mat) (hu : Uniform (n+1) m) (hne : m ≠ []) :
    solvable (solve m) = true ↔ ∃ x : List Rat, x.length = n ∧ Sat m x := by
  have hpres : ∀ x, Sat (solve m) x ↔ Sat m x := fun x => gauss_preserves_solutions m x (by
      have : (m.headD []).length = n + 1 := by
        cases m with
        | nil => exact absurd rfl hne
        | cons r rs => simpa using hu r (by simp)
      rw [this]; exact hu)
  constructor
  · intro hs
    obtain ⟨vals, _, hlen, _, hsat⟩ := call_satisfies n m hu hne hs (List.replicate (varargs n (solve m)) 0) (by simp)
    exact ⟨tot vals, by simp [tot, hlen], hsat⟩
  · rintro ⟨x, hx, hsat⟩
    have hsat' := (hpres x).mpr hsat
    have hech : Ech n 0 (solve m) := gauss_echelon n m hu hne
    simp only [solvable, Bool.not_eq_true', List.any_eq_false]
    intro row hrow
    simp only [Bool.and_eq_true, not_and, bne_iff_ne, ne_eq, not_not]
    intro hz
    have hlen := (hech.rows row hrow).1
    have h0 := hsat' row hrow
    unfold rowSat at h0
    rw [rowDot_append_neg_one x row (by omega)] at h0
    have : rowDot row.dropLast x = 0 := rowDot_all_zero _ _ (by simpa using hz)
    rw [this] at h0
    have h1 : row.getLastD 0 = 0 := by linarith
    exact h1

#print axioms call_satisfies
#print axioms solvable_iff_consistent

/-! ### The free values parametrise the solution set bijectively -/

/-- non-pivot columns below `i`, ascending -/
def freeCols (piv : List Nat) : Nat → List Nat
  | 0 => []
  | i+1 => if i ∈ piv then freeCols piv i else freeCols piv i ++ [i]

theorem freeCols_lt (piv : List Nat) : ∀ i k, k ∈ freeCols piv i → k < i ∧ k ∉ piv := by
  intro i
  induction i with
  | zero => intro k hk; simp [freeCols] at hk
  | succ i ih =>
    intro k hk
    rw [freeCols] at hk
    by_cases h : i ∈ piv
    · rw [if_pos h] at hk; have := ih k hk; exact ⟨by omega, this.2⟩
    · rw [if_neg h] at hk
      rcases List.mem_append.mp hk with hk | hk
      · have := ih k hk; exact ⟨by omega, this.2⟩
      · simp at hk; subst hk; exact ⟨by omega, h⟩

/-- read-back for pass 2: if all non-pivot variables below `i` are unset and `v` has one value per such
    variable, the t-th free variable receives `v[t]` -/
theorem pass2_readback (piv : List Nat) : ∀ (i : Nat) (v : List Rat) (vals : List (Option Rat)),
    i ≤ vals.length → (∀ k, k < i → k ∉ piv → vals.getD k none = none) →
    v.length = (freeCols piv i).length →
    ∀ t (ht : t < (freeCols piv i).length),
      (pass2 piv i v vals).getD ((freeCols piv i).getD t 0) none = some (v.getD t 0) := by
  intro i
  induction i with
  | zero => intro v vals _ _ _ t ht; simp [freeCols] at ht
  | succ i ih =>
    intro v vals hil hunset hv t ht
    unfold pass2
    rw [freeCols] at hv ht ⊢
    by_cases hip : i ∈ piv
    · rw [if_pos hip] at hv ht ⊢
      have hcond : ¬ (vals.getD i none = none ∧ i ∉ piv) := fun h => h.2 hip
      by_cases hemp : v.isEmpty = true
      · have : v.length = 0 := by simpa using hemp
        omega
      · rw [if_neg hemp, if_neg hcond]
        exact ih v vals (by omega) (fun k hk hkp => hunset k (by omega) hkp) hv t ht
    · rw [if_neg hip] at hv ht ⊢
      have hvl : v.length = (freeCols piv i).length + 1 := by simpa using hv
      have hemp : ¬ v.isEmpty = true := by
        intro h; have : v.length = 0 := by simpa using h
        omega
      have hcond : vals.getD i none = none ∧ i ∉ piv := ⟨hunset i (by omega) hip, hip⟩
      rw [if_neg hemp, if_pos hcond]
      have hrec := ih v.dropLast (vals.set i (some (v.getLastD 0))) (by simp; omega)
        (by intro k hk hkp; rw [getD_set_ne _ _ _ _ _ (by omega : i ≠ k)]; exact hunset k (by omega) hkp)
        (by simp; omega)
      have hfc : freeCount piv i = (freeCols piv i).length := by
        clear * -
        induction i with
        | zero => rfl
        | succ i ih =>
          rw [freeCount, freeCols, ih]
          by_cases h : i ∈ piv <;> simp [h]
      have hdl : v.dropLast.length = (freeCols piv i).length := by simp; omega
      have hspec := pass2_spec piv i v.dropLast (vals.set i (some (v.getLastD 0))) (by simp; omega)
        (by rw [hdl, ← hfc]; exact freeBelow_le_freeCount _ _ _)
      simp only [List.length_append, List.length_cons, List.length_nil] at ht
      by_cases htl : t < (freeCols piv i).length
      · have e1 : (freeCols piv i ++ [i]).getD t 0 = (freeCols piv i).getD t 0 := by
          rw [List.getD_eq_getElem?_getD, List.getD_eq_getElem?_getD, List.getElem?_append_left htl]
        have e2 : v.dropLast.getD t 0 = v.getD t 0 := by
          rw [List.getD_eq_getElem?_getD, List.getD_eq_getElem?_getD]
          have h1 : t < v.dropLast.length := by simp; omega
          have h2 : t < v.length := by omega
          rw [List.getElem?_eq_getElem h1, List.getElem?_eq_getElem h2, List.getElem_dropLast]
        rw [e1, ← e2]
        exact hrec t htl
      · have hteq : t = (freeCols piv i).length := by omega
        have e1 : (freeCols piv i ++ [i]).getD t 0 = i := by
          rw [List.getD_eq_getElem?_getD, hteq]; simp
        rw [e1, hspec.2.2 i (le_refl _), getD_set_eq _ _ _ _ (by omega)]
        congr 1
        rw [List.getLastD_eq_getLast?, List.getD_eq_getElem?_getD, List.getLast?_eq_getElem?, hteq, hvl]
        simp

/-- two solutions of an echelon system that agree on the non-pivot variables are equal -/
theorem ech_unique (n : Nat) : ∀ {j : Nat} {s : Mat}, Ech n j s → solvable s = true →
    ∀ y z : List Rat, y.length = n → z.length = n →
    (∀ row ∈ s, rowDot row (y ++ [-1]) = 0) → (∀ row ∈ s, rowDot row (z ++ [-1]) = 0) →
    (∀ i, j ≤ i → i < n → i ∉ pivotCols s → y.getD i 0 = z.getD i 0) →
    ∀ i, j ≤ i → i < n → y.getD i 0 = z.getD i 0 := by
  intro j s h
  induction h with
  | tail j rows hjn hz =>
    intro hs y z _ _ _ _ hfree i hji hin
    have hnull : ∀ r ∈ rows, nullRow r = true := by
      intro r hr
      rw [nullRow_iff]
      have : solvable rows = true := hs
      simp only [solvable, Bool.not_eq_true', List.any_eq_false] at this
      refine null_of_tail (hz r hr).1 (hz r hr).2 ?_
      intro ⟨h1, h2⟩
      have := this r hr
      simp [h1] at this
      exact h2 (by rw [List.getLastD_eq_getLast?]; exact this)
    exact hfree i hji hin (by rw [pivotCols_null rows hnull]; simp)
  | cons j c p rest hjc hcn hl hzb hne hrest ih =>
    intro hs y z hy hz' hsy hsz hfree
    obtain ⟨_, hsr⟩ := solvable_cons hs
    have hpc : pivotCols (p :: rest) = c :: pivotCols rest := by
      rw [pivotCols_cons_nonnull p rest (not_nullRow_of_ne hne), firstNonzero_eq c p hzb hne]
    have hge := pivotCols_ge hrest hsr
    have hrec := ih hsr y z hy hz' (fun r hr => hsy r (by simp [hr])) (fun r hr => hsz r (by simp [hr]))
      (by intro i hci hin hnot
          exact hfree i (by omega) hin (by rw [hpc]; simp; exact ⟨by omega, hnot⟩))
    -- tails agree
    have htail : (y ++ [-1]).drop (c+1) = (z ++ [-1]).drop (c+1) := by
      apply List.ext_getElem
      · simp [hy, hz']
      · intro k h1 h2
        simp only [List.getElem_drop]
        by_cases hk : c + 1 + k < n
        · rw [List.getElem_append_left (by omega), List.getElem_append_left (by omega)]
          have := hrec (c + 1 + k) (by omega) hk
          rw [List.getD_eq_getElem?_getD, List.getD_eq_getElem?_getD,
            List.getElem?_eq_getElem (by omega), List.getElem?_eq_getElem (by omega)] at this
          simpa using this
        · simp only [List.length_drop, List.length_append, List.length_cons, List.length_nil] at h1
          have hkn : c + 1 + k = n := by omega
          rw [List.getElem_append_right (by omega), List.getElem_append_right (by omega)]
          simp [hy, hz', hkn]
    -- the pivot row pins variable c
    have hcy : c < (y ++ [-1]).length := by simp [hy]; omega
    have hcz : c < (z ++ [-1]).length := by simp [hz']; omega
    have hc1 : c < p.length := by omega
    have ey := hsy p (by simp)
    have ez := hsz p (by simp)
    rw [rowDot_zeroBefore c p _ hzb, List.drop_eq_getElem_cons hc1, List.drop_eq_getElem_cons hcy, rowDot_cons] at ey
    rw [rowDot_zeroBefore c p _ hzb, List.drop_eq_getElem_cons hc1, List.drop_eq_getElem_cons hcz, rowDot_cons, ← htail] at ez
    have hpc' : p[c] ≠ 0 := by
      have : p.getD c 0 = p[c] := by rw [List.getD_eq_getElem?_getD, List.getElem?_eq_getElem hc1]; rfl
      rw [← this]; exact hne
    have hyc : (y ++ [-1])[c] = y.getD c 0 := by
      rw [List.getElem_append_left (by omega), List.getD_eq_getElem?_getD, List.getElem?_eq_getElem (by omega)]; rfl
    have hzc : (z ++ [-1])[c] = z.getD c 0 := by
      rw [List.getElem_append_left (by omega), List.getD_eq_getElem?_getD, List.getElem?_eq_getElem (by omega)]; rfl
    rw [hyc] at ey; rw [hzc] at ez
    have hceq : y.getD c 0 = z.getD c 0 := by
      have : p[c] * (y.getD c 0 - z.getD c 0) = 0 := by linarith
      rcases mul_eq_zero.mp this with h | h
      · exact absurd h hpc'
      · linarith
    intro i hji hin
    by_cases hic : i = c
    · rw [hic]; exact hceq
    · by_cases hgt : c < i
      · exact hrec i (by omega) hin
      · have hnotpiv : i ∉ pivotCols rest := fun hm => by have := (hge i hm).1; omega
        exact hfree i hji hin (by rw [hpc]; simp; exact ⟨hic, hnotpiv⟩)
#print axioms pass2_readback
#print axioms ech_unique

theorem freeCount_eq_freeCols_length (piv : List Nat) : ∀ i, freeCount piv i = (freeCols piv i).length := by
  intro i
  induction i with
  | zero => rfl
  | succ i ih =>
    rw [freeCount, freeCols, ih]
    by_cases h : i ∈ piv <;> simp [h]

theorem varargs_eq_freeCols {n : Nat} {s : Mat} (hech : Ech n 0 s) (hs : solvable s = true) :
    varargs n s = (freeCols (pivotCols s) n).length := by
  have hnd := pivotCols_nodup hech hs
  have hlt := pivotCols_ge hech hs
  have b := freeCount_add_length n (pivotCols s) hnd (fun k hk => (hlt k hk).2)
  rw [varargs, ← pivotCols_length, ← freeCount_eq_freeCols_length]
  omega

/-- C16(v): the supplied values are read back at the free (non-pivot) unknowns, in order -/
theorem call_readback (n : Nat) (m : Mat) (hu : Uniform (n+1) m) (hne : m ≠ [])
    (hs : solvable (solve m) = true) (v : List Rat) (hv : v.length = varargs n (solve m))
    (vals : List (Option Rat)) (hcall : call n (solve m) v = .ok vals) :
    ∀ t, t < v.length →
      (vals.getD ((freeCols (pivotCols (solve m)) n).getD t 0) none) = some (v.getD t 0) := by
  have hech : Ech n 0 (solve m) := gauss_echelon n m hu hne
  set s := solve m with hsdef
  have hpiv_lt := pivotCols_ge hech hs
  have hnd := pivotCols_nodup hech hs
  obtain ⟨h1len, h1free⟩ := pass1_spec s s (List.replicate n none) (fun r hr => hr)
  set vals1 := pass1 s (List.replicate n none) with hv1
  have h1len' : vals1.length = n := by rw [h1len]; simp
  have hvf : v.length = (freeCols (pivotCols s) n).length := by rw [hv, varargs_eq_freeCols hech hs]
  have hunset : ∀ k, k < n → k ∉ pivotCols s → vals1.getD k none = none := by
    intro k hk hkp
    rw [h1free k hkp, List.getD_eq_getElem?_getD]; simp [hk]
  have hrb := pass2_readback (pivotCols s) n v vals1 (by omega) hunset hvf
  have hcount : freeBelow (pivotCols s) vals1 n ≤ v.length := by
    have a := freeBelow_le_freeCount (pivotCols s) vals1 n
    rw [hvf, ← freeCount_eq_freeCols_length]; exact a
  obtain ⟨h2len, h2some, _⟩ := pass2_spec (pivotCols s) n v vals1 (by omega) hcount
  set vals2 := pass2 (pivotCols s) n v vals1 with hv2
  obtain ⟨vals', hp3, hlen, hunch, hsome, hsat⟩ := pass3_spec n hech hs vals2 (by rw [h2len, h1len'])
    (fun i _ hin hnp => h2some i hin hnp)
  have hcall' : call n s v = .ok vals' := by
    unfold call
    rw [hs]
    simp only [Bool.not_true, Bool.false_eq_true, if_false, hv, ne_eq, not_true_eq_false]
    exact hp3
  have : vals = vals' := by
    rw [hcall] at hcall'; cases hcall'; rfl
  subst this
  intro t ht
  have htf : t < (freeCols (pivotCols s) n).length := by omega
  have hmem : (freeCols (pivotCols s) n).getD t 0 ∈ freeCols (pivotCols s) n := by
    rw [List.getD_eq_getElem?_getD, List.getElem?_eq_getElem htf]; simp
  have hnp := (freeCols_lt _ _ _ hmem).2
  rw [hunch _ hnp]
  exact hrb t htf

/-- C16(vi): every solution of the original system is produced by the call, from its own values at
    the free unknowns -/
theorem call_surjective (n : Nat) (m : Mat) (hu : Uniform (n+1) m) (hne : m ≠ [])
    (x : List Rat) (hx : x.length = n) (hsat : Sat m x) :
    ∃ v vals, v.length = varargs n (solve m) ∧ call n (solve m) v = .ok vals ∧ tot vals = x := by
  have hs : solvable (solve m) = true := (solvable_iff_consistent n m hu hne).mpr ⟨x, hx, hsat⟩
  have hech : Ech n 0 (solve m) := gauss_echelon n m hu hne
  let fc := freeCols (pivotCols (solve m)) n
  let v : List Rat := fc.map (fun k => x.getD k 0)
  have hv : v.length = varargs n (solve m) := by simp [v, fc, varargs_eq_freeCols hech hs]
  obtain ⟨vals, hcall, hlen, hsome, hsatv⟩ := call_satisfies n m hu hne hs v hv
  refine ⟨v, vals, hv, hcall, ?_⟩
  have hrb := call_readback n m hu hne hs v hv vals hcall
  have hpres : ∀ y, Sat (solve m) y ↔ Sat m y := fun y => gauss_preserves_solutions m y (by
      have : (m.headD []).length = n + 1 := by
        cases m with
        | nil => exact absurd rfl hne
        | cons r rs => simpa using hu r (by simp)
      rw [this]; exact hu)
  have huniq := ech_unique n hech hs (tot vals) x (by simp [tot, hlen]) hx
    ((hpres _).mpr hsatv) ((hpres _).mpr hsat)
    (by
      intro i _ hin hnp
      -- i is a free column: i = fc[t] for some t
      have hmem : i ∈ fc := by
        clear * - hin hnp
        induction n with
        | zero => omega
        | succ n ih =>
          simp only [fc, freeCols]
          by_cases hnpiv : n ∈ pivotCols (solve m)
          · rw [if_pos hnpiv]
            have : i ≠ n := fun e => hnp (e ▸ hnpiv)
            exact ih (by omega)
          · rw [if_neg hnpiv]
            by_cases hie : i = n
            · simp [hie]
            · exact List.mem_append_left _ (ih (by omega))
      obtain ⟨t, ht, hti⟩ := List.mem_iff_getElem.mp hmem
      have htv : t < v.length := by simpa [v] using ht
      have := hrb t htv
      have hfi : fc.getD t 0 = i := by
        rw [List.getD_eq_getElem?_getD, List.getElem?_eq_getElem ht]; simpa using hti
      rw [hfi] at this
      rw [getD_tot, this]
      simp only [Option.getD_some, v]
      rw [List.getD_eq_getElem?_getD, List.getElem?_map, List.getElem?_eq_getElem ht]
      simp [hti])
  apply List.ext_getElem
  · simp [tot, hlen, hx]
  · intro i h1 h2
    have := huniq i (Nat.zero_le _) (by simpa [tot, hlen] using h1)
    rw [List.getD_eq_getElem?_getD, List.getD_eq_getElem?_getD,
      List.getElem?_eq_getElem h1, List.getElem?_eq_getElem h2] at this
    simpa using this
#print axioms call_readback
#print axioms call_surjective
end G3D.Solver2
