import G3D.Proofs.AlgebraAll
import G3D.Proofs.K4l

/-! # The algebra of `intersection` for ALL operand types, with Euler's polyhedron formula as the only hypothesis

`EulerAll` says: whenever two admissible polyhedra overlap in a 3-dimensional body, the face complex collected by the handler
has Euler number 2 — the check `ConvexPolyhedron.__init__` performs.  It is the classical theorem of Euler for the boundary
complex of the convex polytope A ∩ B; it is NOT proved here.  Everything else about polyhedron × polyhedron is (K4). -/
namespace G3D
open V3

def EulerAll : Prop :=
  ∀ A B : Polyhedron, A.ExactHyp → B.ExactHyp → ∀ p, K4.Parts2 A B p → 2 ≤ p.gons.length → K4.eulerOf p.gons = 2

/-- None or an admissible operand of any type -/
def ResOK' (o : Option Obj) : Prop := ∀ ob, o = some ob → OpOK ob

theorem ResOK.toResOK' {o : Option Obj} (h : ResOK o) : ResOK' o := by
  rintro ob rfl; exact h.opOK

/-- **all 49 ordered type pairs**: returns without error None or an admissible operand denoting exactly a ∩ b -/
theorem interRef_exact_all (hE : EulerAll) (a b : Obj) (ha : OpOK a) (hb : OpOK b) :
    ∃ o, interRef a b = .ok o ∧ ResOK' o ∧ ∀ x, denOptB o x ↔ (ObjDen a x ∧ ObjDen b x) := by
  cases a with
  | polyhedron A =>
    cases b with
    | polyhedron B => exact interPolyhedronPolyhedron_exactOK_of_euler A B ha hb (hE A B ha hb)
    | flat y => obtain ⟨o, h1, h2, h3⟩ := interRef_exactOK (.polyhedron A) (.flat y) ha hb trivial; exact ⟨o, h1, h2.toResOK', h3⟩
    | polygon P => obtain ⟨o, h1, h2, h3⟩ := interRef_exactOK (.polyhedron A) (.polygon P) ha hb trivial; exact ⟨o, h1, h2.toResOK', h3⟩
  | flat x =>
    have hnb : NotBothBodies (.flat x) b := by cases b <;> trivial
    obtain ⟨o, h1, h2, h3⟩ := interRef_exactOK (.flat x) b ha hb hnb; exact ⟨o, h1, h2.toResOK', h3⟩
  | polygon P =>
    have hnb : NotBothBodies (.polygon P) b := by cases b <;> trivial
    obtain ⟨o, h1, h2, h3⟩ := interRef_exactOK (.polygon P) b ha hb hnb; exact ⟨o, h1, h2.toResOK', h3⟩

/-- **associativity for all 343 type triples** -/
theorem interRef_assoc_all (hE : EulerAll) (a b c : Obj) (ha : OpOK a) (hb : OpOK b) (hc : OpOK c) :
    ∃ ab bc l r, interRef a b = .ok ab ∧ interRef b c = .ok bc ∧
      interOptLB ab c = .ok l ∧ interOptRB a bc = .ok r ∧ ResOK' l ∧ ResOK' r ∧
      (∀ x, denOptB l x ↔ (ObjDen a x ∧ ObjDen b x ∧ ObjDen c x)) ∧
      (∀ x, denOptB r x ↔ (ObjDen a x ∧ ObjDen b x ∧ ObjDen c x)) := by
  obtain ⟨ab, h1, w1, d1⟩ := interRef_exact_all hE a b ha hb
  obtain ⟨bc, h2, w2, d2⟩ := interRef_exact_all hE b c hb hc
  have hl : ∃ l, interOptLB ab c = .ok l ∧ ResOK' l ∧ ∀ x, denOptB l x ↔ (ObjDen a x ∧ ObjDen b x ∧ ObjDen c x) := by
    cases ab with
    | none =>
      refine ⟨none, rfl, (fun ob h => by cases h), fun x => ?_⟩
      simp only [denOptB, false_iff]
      rintro ⟨h, h', _⟩; exact (d1 x).mpr ⟨h, h'⟩
    | some g =>
      obtain ⟨l, hl, wl, dl⟩ := interRef_exact_all hE g c (w1 g rfl) hc
      refine ⟨l, hl, wl, fun x => ?_⟩
      rw [dl x]; have := d1 x; simp only [denOptB] at this; rw [this]; tauto
  have hr : ∃ r, interOptRB a bc = .ok r ∧ ResOK' r ∧ ∀ x, denOptB r x ↔ (ObjDen a x ∧ ObjDen b x ∧ ObjDen c x) := by
    cases bc with
    | none =>
      refine ⟨none, rfl, (fun ob h => by cases h), fun x => ?_⟩
      simp only [denOptB, false_iff]
      rintro ⟨_, h, h'⟩; exact (d2 x).mpr ⟨h, h'⟩
    | some g =>
      obtain ⟨r, hr, wr, dr⟩ := interRef_exact_all hE a g ha (w2 g rfl)
      refine ⟨r, hr, wr, fun x => ?_⟩
      rw [dr x]; have := d2 x; simp only [denOptB] at this; rw [this]
  obtain ⟨l, hl1, hl2, hl3⟩ := hl
  obtain ⟨r, hr1, hr2, hr3⟩ := hr
  exact ⟨ab, bc, l, r, h1, h2, hl1, hr1, hl2, hr2, hl3, hr3⟩

/-- a polyhedron meeting `ExactHyp` has a point -/
theorem Polyhedron.ExactHyp.nonempty {B : Polyhedron} (h : B.ExactHyp) : ∃ x, InHull B.verts x := by
  obtain ⟨f, hf⟩ := List.exists_mem_of_ne_nil _ h.proper.core.nonempty
  obtain ⟨p0, p1, p2, rest, hp, _, _⟩ := h.proper.core.faces_valid f hf
  have hv : p0 ∈ B.verts := h.proper.core.pts_sub f hf p0 (by rw [hp]; simp)
  exact ⟨p0, vertex_in_hull _ _ hv⟩

/-- `intersection(a, a)` denotes `a`, all seven types -/
theorem interRef_self_all (hE : EulerAll) (a : Obj) (ha : OpOK a) :
    ∃ g, interRef a a = .ok (some g) ∧ OpOK g ∧ ∀ x, ObjDen g x ↔ ObjDen a x := by
  obtain ⟨o, ho, hw, hd⟩ := interRef_exact_all hE a a ha ha
  have hne : ∃ x, ObjDen a x := by
    cases a with
    | polyhedron B => exact Polyhedron.ExactHyp.nonempty ha
    | flat g => exact OpOK.nonempty (.flat g) ha trivial
    | polygon P => exact OpOK.nonempty (.polygon P) ha trivial
  cases o with
  | none => obtain ⟨x, hx⟩ := hne; exact absurd ((hd x).mpr ⟨hx, hx⟩) (by simp [denOptB])
  | some g => exact ⟨g, ho, hw g rfl, fun x => by have := hd x; simp only [denOptB] at this; rw [this]; tauto⟩

/-- `a ⊆ b`, a non-empty ⇒ `intersection(a, b)` and `intersection(b, a)` denote `a`, all 49 pairs -/
theorem interRef_of_subset_all (hE : EulerAll) (a b : Obj) (ha : OpOK a) (hb : OpOK b)
    (hsub : ∀ x, ObjDen a x → ObjDen b x) (hne : ∃ x, ObjDen a x) :
    (∃ g, interRef a b = .ok (some g) ∧ ∀ x, ObjDen g x ↔ ObjDen a x) ∧
    (∃ g, interRef b a = .ok (some g) ∧ ∀ x, ObjDen g x ↔ ObjDen a x) := by
  obtain ⟨o, ho, _, hd⟩ := interRef_exact_all hE a b ha hb
  obtain ⟨o', ho', _, hd'⟩ := interRef_exact_all hE b a hb ha
  obtain ⟨x0, hx0⟩ := hne
  constructor
  · cases o with
    | none => exact absurd ((hd x0).mpr ⟨hx0, hsub x0 hx0⟩) (by simp [denOptB])
    | some g =>
      exact ⟨g, ho, fun x => by
        have := hd x; simp only [denOptB] at this; rw [this]
        exact ⟨fun h => h.1, fun h => ⟨h, hsub x h⟩⟩⟩
  · cases o' with
    | none => exact absurd ((hd' x0).mpr ⟨hsub x0 hx0, hx0⟩) (by simp [denOptB])
    | some g =>
      exact ⟨g, ho', fun x => by
        have := hd' x; simp only [denOptB] at this; rw [this]
        exact ⟨fun h => h.2, fun h => ⟨hsub x h, h⟩⟩⟩

#print axioms interRef_assoc_all
end G3D
