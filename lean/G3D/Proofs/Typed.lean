import G3D.Props.C04
import G3D.Proofs.TypedHandlers

/-! # Result typing of `intersection` against the EXTRACTED documentation table, through the generated dispatcher

    `Proofs/TypedHandlers.lean` types every handler as modelled; here the lists are compared with
    `Extracted.docRows` (read through `Props.C04.docFor`) and the statements are lifted to `inter`, the dispatcher
    generated from the current source. -/
namespace G3D
open G3D.Extracted G3D.Dispatch
open G3D.Props.C04 (docFor)

/-! ## the same against the EXTRACTED documentation table, through the generated dispatcher -/
/-- `allowed` IS the documented row of the extracted table -/
theorem docFor_flat (a b : Geo) : docFor (tyOf (.flat a)) (tyOf (.flat b)) = some (allowed a b) := by
  cases a <;> cases b <;> rfl

/-- **documented result types, flat × flat, all inputs**: whenever the generated dispatcher returns a
    value for two flat operands, the documentation table has a row for the two operand types and
    the type of the value is listed in it. -/
theorem inter_flat_documented (a b : Geo) (o : Option Obj) (h : inter (.flat a) (.flat b) = .ok o) :
    ∃ l, docFor (tyOf (.flat a)) (tyOf (.flat b)) = some l ∧ resTyOf o ∈ l := by
  rw [Props.C04.inter_eq_ref] at h
  obtain ⟨o', ho', rfl⟩ := liftFlat_ok (interFlat a b) o h
  exact ⟨allowed a b, docFor_flat a b, by rw [resTyOf_flat]; exact interFlat_typed a b o' ho'⟩
#print axioms inter_flat_documented

/-- **documented result types, flat × ConvexPolygon, both argument orders, all inputs** -/
theorem inter_flat_polygon_documented (f : Geo) (P : Polygon) (o : Option Obj)
    (h : inter (.flat f) (.polygon P) = .ok o ∨ inter (.polygon P) (.flat f) = .ok o) :
    ∃ l, docFor (tyOf (.flat f)) .polygon = some l ∧ docFor .polygon (tyOf (.flat f)) = some l ∧ resTyOf o ∈ l := by
  rw [Props.C04.inter_eq_ref, Props.C04.inter_eq_ref] at h
  cases f with
  | point p => exact ⟨_, rfl, rfl, interPointPolygon_typed p P o (by rcases h with h | h <;> exact h)⟩
  | line l => exact ⟨_, rfl, rfl, interLinePolygon_typed l P o (by rcases h with h | h <;> exact h)⟩
  | plane a => exact ⟨_, rfl, rfl, interPlanePolygon_typed a P o (by rcases h with h | h <;> exact h)⟩
  | seg s => exact ⟨_, rfl, rfl, interSegPolygon_typed s P o (by rcases h with h | h <;> exact h)⟩
  | halfline hl => exact ⟨_, rfl, rfl, interPolygonHalfLine_typed P hl o (by rcases h with h | h <;> exact h)⟩
#print axioms inter_flat_polygon_documented

/-- **C04, result typing, ALL 49 cells, all inputs**: whenever `intersection(a, b)` (the dispatcher
    generated from the current source, running the 28 modelled handlers) returns a value, the
    documentation table extracted from docs/source/example_operation.rst has a row for the two operand
    types, and the type of the returned value (`None` included) is listed in that row.
    No hypothesis on the operands: the statement covers degenerate and ill-formed objects too
    (for those the handlers may raise, which is the case `inter a b = .error _`, not covered here). -/
theorem inter_documented (a b : Obj) (o : Option Obj) (h : inter a b = .ok o) :
    ∃ l, docFor (tyOf a) (tyOf b) = some l ∧ resTyOf o ∈ l := by
  rw [Props.C04.inter_eq_ref] at h
  cases a with
  | flat x =>
    cases b with
    | flat y => exact inter_flat_documented x y o (by rw [Props.C04.inter_eq_ref]; exact h)
    | polygon Q =>
      obtain ⟨l, h1, _, h3⟩ := inter_flat_polygon_documented x Q o (Or.inl (by rw [Props.C04.inter_eq_ref]; exact h))
      exact ⟨l, h1, h3⟩
    | polyhedron B =>
      cases x with
      | point p => exact ⟨_, rfl, interPointPolyhedron_typed p B o h⟩
      | line l => exact ⟨_, rfl, interLinePolyhedron_typed l B o h⟩
      | plane pl => exact ⟨_, rfl, interPlanePolyhedron_typed pl B o h⟩
      | seg s => exact ⟨_, rfl, interSegPolyhedron_typed s B o h⟩
      | halfline hl => exact ⟨_, rfl, interPolyhedronHalfLine_typed B hl o h⟩
  | polygon P =>
    cases b with
    | flat y =>
      obtain ⟨l, _, h2, h3⟩ := inter_flat_polygon_documented y P o (Or.inr (by rw [Props.C04.inter_eq_ref]; exact h))
      exact ⟨l, h2, h3⟩
    | polygon Q => exact ⟨_, rfl, interPolygonPolygon_typed P Q o h⟩
    | polyhedron B => exact ⟨_, rfl, interPolygonPolyhedron_typed B P o h⟩
  | polyhedron A =>
    cases b with
    | flat y =>
      cases y with
      | point p => exact ⟨_, rfl, interPointPolyhedron_typed p A o h⟩
      | line l => exact ⟨_, rfl, interLinePolyhedron_typed l A o h⟩
      | plane pl => exact ⟨_, rfl, interPlanePolyhedron_typed pl A o h⟩
      | seg s => exact ⟨_, rfl, interSegPolyhedron_typed s A o h⟩
      | halfline hl => exact ⟨_, rfl, interPolyhedronHalfLine_typed A hl o h⟩
    | polygon Q => exact ⟨_, rfl, interPolygonPolyhedron_typed A Q o h⟩
    | polyhedron B => exact ⟨_, rfl, interPolyhedronPolyhedron_typed A B o h⟩
#print axioms inter_documented

/-- with optional operands (`None` absorbs, and `None` is in every documented row) -/
theorem interOpt_documented (a b : Obj) (o : Option Obj) (h : interOpt (some a) (some b) = .ok o) :
    ∃ l, docFor (tyOf a) (tyOf b) = some l ∧ resTyOf o ∈ l := inter_documented a b o h

/-- the converse reading: a value of an undocumented type is never returned -/
theorem inter_never_undocumented (a b : Obj) (l : List ResTy) (hl : docFor (tyOf a) (tyOf b) = some l)
    (o : Option Obj) (ho : resTyOf o ∉ l) : inter a b ≠ .ok o := by
  intro h
  obtain ⟨l', hl', hm⟩ := inter_documented a b o h
  rw [hl] at hl'; cases hl'; exact ho hm

end G3D
