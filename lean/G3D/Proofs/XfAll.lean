import G3D.Proofs.Xf2
import G3D.Proofs.ExactAll

/-! # C13 for intersections with composite operands: equivariance follows from exactness -/
namespace G3D
open V3

/-- a symmetry / translation / scaling applied to an operand (polygons keep their vertex order with the pseudo-vector
    normal; polyhedra carry outward normals, so their face cycles are reversed under reflections) -/
def Xf.obj (T : Xf) : Obj → Obj
  | .flat g => .flat (T.geo g)
  | .polygon P => .polygon (T.polygon P)
  | .polyhedron B => .polyhedron (T.body B)

theorem Xf.objDen (T : Xf) (hk : 0 < T.k) (a : Obj) (x : V3) : ObjDen (T.obj a) (T.pt x) ↔ ObjDen a x := by
  cases a with
  | flat g => exact T.den_geo hk g x
  | polygon P => exact T.InHull_pts hk P.pts x
  | polyhedron B => exact T.InHull_pts hk B.verts x

/-- flats and polygons stay admissible -/
theorem Xf.opOK (T : Xf) (hk : 0 < T.k) (a : Obj) (ha : OpOK a) (hnb : NotBothBodies a a) : OpOK (T.obj a) := by
  cases a with
  | flat g => exact T.geo_WF hk g ha
  | polygon P => exact T.polygon_valid hk P ha
  | polyhedron _ => exact hnb.elim

theorem Xf.notBoth (T : Xf) (a b : Obj) (h : NotBothBodies a b) : NotBothBodies (T.obj a) (T.obj b) := by
  cases a <;> cases b <;> first | trivial | exact h

/-- **intersection is equivariant for every admissible operand pair except polyhedron × polyhedron**: the intersection of the
    transformed operands is the transform of the intersection (as point sets; both calls return without error).  For a
    polyhedron operand admissibility of the transformed body is a hypothesis. -/
theorem interRef_xf (T : Xf) (hk : 0 < T.k) (a b : Obj) (ha : OpOK a) (hb : OpOK b)
    (ha' : OpOK (T.obj a)) (hb' : OpOK (T.obj b)) (hnb : NotBothBodies a b) :
    ∃ o o', interRef a b = .ok o ∧ interRef (T.obj a) (T.obj b) = .ok o' ∧ ResOK o ∧ ResOK o' ∧
      ∀ x, denOptB o' (T.pt x) ↔ denOptB o x := by
  obtain ⟨o, ho, hw, hd⟩ := interRef_exactOK a b ha hb hnb
  obtain ⟨o', ho', hw', hd'⟩ := interRef_exactOK (T.obj a) (T.obj b) ha' hb' (T.notBoth a b hnb)
  exact ⟨o, o', ho, ho', hw, hw', fun x => by rw [hd' (T.pt x), hd x, T.objDen hk a x, T.objDen hk b x]⟩

/-- … for flats and polygons without further hypotheses -/
theorem interRef_xf_flat_polygon (T : Xf) (hk : 0 < T.k) (a b : Obj) (ha : OpOK a) (hb : OpOK b)
    (hna : NotBothBodies a a) (hnb : NotBothBodies b b) :
    ∃ o o', interRef a b = .ok o ∧ interRef (T.obj a) (T.obj b) = .ok o' ∧ ResOK o ∧ ResOK o' ∧
      ∀ x, denOptB o' (T.pt x) ↔ denOptB o x := by
  refine interRef_xf T hk a b ha hb (T.opOK hk a ha hna) (T.opOK hk b hb hnb) ?_
  cases a <;> cases b <;> first | trivial | exact hna.elim

#print axioms interRef_xf
end G3D
