import G3D.Extracted.Kmemberr
import G3D.Extracted.Kvecr
import G3D.Proofs.KTieKhashPlane
import G3D.Proofs.KTieKhashHalfLine
/-! # khash meets the constructor kernels: the attribute values the hash ties are stated on ARE what the code stores  (C08)

    The `__hash__` bodies are extracted as functions of the attributes they read.  The Plane ties are stated on the stored normal
    `unitR n` (hand-written in `Proofs/KhashLemmas.lean`); here `unitR` is identified with the EXTRACTED `Plane.__init__` normal
    (`impl_planeCtor_n`, group kmemberr) and the EXTRACTED `Vector.normalized` (`impl_normalized`, group kvecr), so that
    "hash of the plane constructed from (p, n)" is a statement about two extracted pieces of code.  (Cross-import where the Python
    delegates: `Plane._init_pn` calls `normalized`; the hash reads what it stored.) -/
namespace G3D.KTie.Khash
open G3D G3D.Extracted G3D.KTie

section planeCtorN
/-- what `Plane(p, n)` stores as `self.n` is `unitR n` -/
theorem planeCtor_n_unitR (p n : RVec) : impl_planeCtor_n p n = unitR n := by
  simp only [impl_planeCtor_n, sum0, unitR]

/-- **the extracted hash of the plane the extracted constructor builds from (p, n) depends only on `Plane.hashKey`** -/
theorem hash_Plane_ctor_key (H : HFun) (rnd : ℝ → ℝ) (pl : Plane) (h : pl.WF) :
    impl_hash_Plane H rnd sigE negE pl.p.toR (impl_planeCtor_n pl.p.toR pl.n.toR) = planeHashOfKey H rnd (Plane.hashKey pl) := by
  rw [planeCtor_n_unitR, hash_Plane_key H rnd pl h]
end planeCtorN

section normalized
/-- `Vector.normalized()` is `unitR` -/
theorem normalized_unitR (v : RVec) : impl_normalized v = unitR v := by
  simp only [impl_normalized, sum0, unitR]

/-- the vector hashed by `HalfLine.__hash__` is the extracted `vector.normalized()` -/
theorem hash_HalfLine_normalized (H : HFun) (rnd : ℝ → ℝ) (p v : RVec) :
    impl_hash_HalfLine H rnd p v
      = H [.tag "HalfLine", .int (impl_hash_Point H rnd p + impl_hash_Vector H rnd (impl_normalized v)),
           .int (impl_hash_Point H rnd p * impl_hash_Vector H rnd (impl_normalized v))] := by
  rw [hash_HalfLine_shape, normalized_unitR]
end normalized

#print axioms hash_Plane_ctor_key
end G3D.KTie.Khash
