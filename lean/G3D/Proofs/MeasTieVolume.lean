import G3D.Extracted.Mmeas
import G3D.Proofs.MeasTieBase
import G3D.Proofs.MeasTiePolygon
/-! # mmeas, the function `volume(arg)` of calc/volume.py  (C06)
    `G3D.Extracted.m_volume_body` / `m_volume` are regenerated on every run by tools/extract_mmeas.py from the BODY of
    `volume`: the `isinstance` chain (Pyramid / ConvexPolyhedron / else `raise ValueError`), the Pyramid branch that
    recomputes the height through `distance(arg.point, arg.convex_polygon.plane)` and multiplies `1 / 3 * height * area`,
    the ConvexPolyhedron branch that sums `volume(pyramid)` over `pyramid_set` by RECURSION.  The recursion is cut at a
    depth `fuel` (`m_volume : ℕ → ..`, `RecursionError` at 0); every theorem holds for EVERY sufficient fuel
    (≥ 1 for a pyramid, ≥ 2 for a polyhedron).
    Imports the tie of `ConvexPolygon.area` (the Python delegates to it); `MeasTieVolumeEq` adds "`volume(x)` equals
    `x.volume()`" from the ties of the two methods. -/
namespace G3D.MeasTie.Volume
open G3D G3D.MeasRt G3D.KTie G3D.Extracted G3D.MeasTie Real

section volume
theorem m_volume_zero (arg : MObj) : m_volume 0 arg = .error "RecursionError" := rfl

theorem m_volume_succ (k : ℕ) (arg : MObj) : m_volume (k + 1) arg = m_volume_body (m_volume k) arg := rfl

/-- **anything that is neither a Pyramid nor a ConvexPolyhedron raises ValueError** -/
theorem m_volume_other (k : ℕ) : m_volume (k + 1) MObj.other = .error "ValueError" := by
  rw [m_volume_succ]
  simp only [m_volume_body, MObj.asPyramid?, MObj.asPolyhedron?]
  rfl

/-- the Pyramid branch: `1 / 3 * distance(point, plane) * area` -/
theorem m_volume_pyramid_real (k : ℕ) (M : MPyramid) :
    m_volume (k + 1) (MObj.pyramid M)
      = .ok (1 / 3 * distPointPlane M.point M.convex_polygon.plane * m_ConvexPolygon_area M.convex_polygon) := by
  rw [m_volume_succ]
  simp only [m_volume_body, MObj.asPyramid?]
  rfl

/-- **`volume(pyramid)` is the model's exact rational `pyramidVolume`** -/
theorem m_volume_pyramid_tie (k : ℕ) (f : Polygon) (apex : V3) (h : MeasOK f) :
    m_volume (k + 1) (MObj.pyramid (pyrToM (f, apex))) = .ok (((pyramidVolume f apex : ℚ) : ℝ)) := by
  have hn : f.plane.n ≠ V3.zero := Polygon.plane_WF f h.1
  have hN := nn_pos hn
  have hs : √((V3.normSq f.plane.n : ℚ) : ℝ) ≠ 0 := (Real.sqrt_pos.mpr hN).ne'
  rw [m_volume_pyramid_real]
  congr 1
  simp only [pyrToM]
  have hd : distPointPlane apex.toR (polyToM f).plane = _ := distPointPlane_model f apex h.1
  rw [hd, Polygon.m_ConvexPolygon_area_tie f h]
  unfold pyramidVolume
  push_cast
  have hss : √((V3.normSq f.plane.n : ℚ) : ℝ) * √((V3.normSq f.plane.n : ℚ) : ℝ) = ((V3.normSq f.plane.n : ℚ) : ℝ) :=
    Real.mul_self_sqrt hN.le
  field_simp
  rw [show (√((V3.normSq f.plane.n : ℚ) : ℝ)) ^ 2 = ((V3.normSq f.plane.n : ℚ) : ℝ) by rw [sq, hss]]
  ring

/-- the ConvexPolyhedron branch: the accumulator loop over `pyramid_set` with the recursive calls -/
theorem m_volume_polyhedron_real (k : ℕ) (M : MPolyhedron) (h : MPyramid → ℝ)
    (hr : ∀ p ∈ M.pyramid_set, m_volume k (MObj.pyramid p) = .ok (h p)) :
    m_volume (k + 1) (MObj.polyhedron M) = .ok ((M.pyramid_set.map h).sum) := by
  rw [m_volume_succ]
  simp only [m_volume_body, MObj.asPyramid?, MObj.asPolyhedron?]
  have := foldlM_add_sum M.pyramid_set (fun p => m_volume k (MObj.pyramid p)) h hr 0
  rw [zero_add] at this
  simp only [bind_pure_comp] at this ⊢
  rw [this]

/-- **`volume(polyhedron)` is the model's exact rational `Polyhedron.volume`**, for every iteration order of `pyramid_set`
    and every recursion allowance ≥ 2 -/
theorem m_volume_polyhedron_tie (k : ℕ) (B : Polyhedron) (hp : ∀ pa ∈ B.pyramids, MeasOK pa.1) (M : MPolyhedron)
    (hs : List.Perm M.pyramid_set (B.pyramids.map pyrToM)) :
    m_volume (k + 2) (MObj.polyhedron M) = .ok (((B.volume : ℚ) : ℝ)) := by
  -- the value of the recursive call, as a function on runtime pyramids
  have hval : ∀ pa ∈ B.pyramids, m_volume (k + 1) (MObj.pyramid (pyrToM pa)) = .ok (((pyramidVolume pa.1 pa.2 : ℚ) : ℝ)) :=
    fun pa hpa => m_volume_pyramid_tie k pa.1 pa.2 (hp pa hpa)
  let h : MPyramid → ℝ := fun p => 1 / 3 * distPointPlane p.point p.convex_polygon.plane * m_ConvexPolygon_area p.convex_polygon
  rw [m_volume_polyhedron_real (k + 1) M h (fun p _ => m_volume_pyramid_real k p), sum_map_perm hs]
  congr 1
  unfold Polyhedron.volume
  rw [cast_sum_map, List.map_map]
  apply sum_map_congr
  intro pa hpa
  have h1 := m_volume_pyramid_real k (pyrToM pa)
  rw [hval pa hpa] at h1
  exact (Except.ok.inj h1).symm
end volume

#print axioms m_volume_other
#print axioms m_volume_pyramid_real
#print axioms m_volume_pyramid_tie
#print axioms m_volume_polyhedron_real
#print axioms m_volume_polyhedron_tie
end G3D.MeasTie.Volume
