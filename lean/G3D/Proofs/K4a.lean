import G3D.Proofs.K3
import G3D.Proofs.K2

/-! # ConvexPolygon × ConvexPolyhedron is EXACT

The handler cuts the body with the carrier plane of the polygon (kernel K3: exact, and a returned polygon is Valid) and
intersects the section — a Point, a proper Segment or a Valid polygon — with the polygon (K0/K1 for Point and Segment,
K2 for the coplanar polygon).  Composition of the three exactness theorems. -/
namespace G3D
open V3

/-- the plane handler returns None, a Point, a Segment or a polygon -/
theorem interPlanePolyhedron_shape (a : Plane) (B : Polyhedron) (o : Obj) (h : interPlanePolyhedron a B = .ok (some o)) :
    (∃ q, o = .flat (.point q)) ∨ (∃ s, o = .flat (.seg s)) ∨ (∃ Q, o = .polygon Q) := by
  unfold interPlanePolyhedron at h
  split at h
  · cases h; exact .inr (.inr ⟨_, rfl⟩)
  · split at h
    · cases h
    · cases h
    · simp only [pt?] at h; cases h; exact .inl ⟨_, rfl⟩
    · rename_i p q _
      by_cases hpq : p = q
      · simp [hpq, liftC, bind, Except.bind] at h
      · simp [hpq, liftC, bind, Except.bind, seg?] at h; cases h; exact .inr (.inl ⟨_, rfl⟩)
    · rename_i ps _ _ _ _
      cases hm : Polygon.mk? ps with
      | error e => simp [hm, liftC, bind, Except.bind] at h
      | ok P => simp [hm, liftC, bind, Except.bind, pure, Except.pure] at h; cases h; exact .inr (.inr ⟨_, rfl⟩)

theorem interPolygonPolyhedron_exact (B : Polyhedron) (hH : B.ExactHyp) (P : Polygon) (hv : P.Valid) :
    ExactW (interPolygonPolyhedron B P) (InHull P.pts) (InHull B.verts) := by
  have hpW := Polygon.plane_WF P hv
  have hsub : ∀ x, InHull P.pts x → P.plane.den x := Polygon.hull_in_plane P hv
  obtain ⟨o, ho, hw, hd⟩ := interPlanePolyhedron_exact_hull P.plane hpW B hH
  -- the result is the section intersected with the polygon
  have key : ∀ r : ResB, (∃ A : V3 → Prop, (∀ x, A x ↔ (P.plane.den x ∧ InHull B.verts x)) ∧ ExactW r A (InHull P.pts)) →
      ExactW r (InHull P.pts) (InHull B.verts) := by
    rintro r ⟨A, hA, o', ho', hw', hd'⟩
    refine ⟨o', ho', hw', fun x => ?_⟩
    rw [hd' x, hA x]
    exact ⟨fun ⟨⟨_, hb⟩, hp⟩ => ⟨hp, hb⟩, fun ⟨hp, hb⟩ => ⟨⟨hsub x hp, hb⟩, hp⟩⟩
  unfold interPolygonPolyhedron
  rw [ho]
  match o, ho, hw, hd with
  | none, _, _, hd =>
    refine ⟨none, rfl, trivial, fun x => ?_⟩
    simp only [denOptB, false_iff]
    rintro ⟨hp, hb⟩
    exact (hd x).mpr ⟨hsub x hp, hb⟩
  | some (.flat (.point q)), _, _, hd =>
    apply key
    refine ⟨(· = q), fun x => ?_, ?_⟩
    · have := hd x; simp only [denOptB, ObjDen, Geo.den] at this; exact this
    · obtain ⟨o', h1, h2, h3⟩ := interPointPolygon_exact q P hv
      refine ⟨o', h1, ?_, h3⟩
      cases o' with
      | none => trivial
      | some ob =>
        cases ob with
        | flat g => cases g <;> trivial
        | polygon _ => trivial
        | polyhedron _ => trivial
  | some (.flat (.seg s)), _, hw, hd =>
    apply key
    refine ⟨s.den, fun x => ?_, interSegPolygon_exactW s hw P hv⟩
    have := hd x; simp only [denOptB, ObjDen, Geo.den] at this; exact this
  | some (.polygon Q), ho, _, hd =>
    apply key
    have hQ := interPlanePolyhedron_polygon_valid P.plane hpW B hH Q ho
    refine ⟨InHull Q.pts, fun x => ?_, interPolygonPolygon_exact Q P hQ hv⟩
    have := hd x; simp only [denOptB, ObjDen] at this; exact this
  | some (.flat (.line l)), ho, _, _ =>
    obtain ⟨_, h⟩ | ⟨_, h⟩ | ⟨_, h⟩ := interPlanePolyhedron_shape _ _ _ ho <;> cases h
  | some (.flat (.plane l)), ho, _, _ =>
    obtain ⟨_, h⟩ | ⟨_, h⟩ | ⟨_, h⟩ := interPlanePolyhedron_shape _ _ _ ho <;> cases h
  | some (.flat (.halfline l)), ho, _, _ =>
    obtain ⟨_, h⟩ | ⟨_, h⟩ | ⟨_, h⟩ := interPlanePolyhedron_shape _ _ _ ho <;> cases h
  | some (.polyhedron l), ho, _, _ =>
    obtain ⟨_, h⟩ | ⟨_, h⟩ | ⟨_, h⟩ := interPlanePolyhedron_shape _ _ _ ho <;> cases h

end G3D
