import G3D.Proofs.Clip2
import G3D.Proofs.Measure

/-! Kernel K1, part 3: assembly. -/
namespace G3D
open V3

def ObjDen : Obj → V3 → Prop
  | .flat g => g.den
  | .polygon P => InHull P.pts
  | .polyhedron B => InHull B.verts

def denOptB : Option Obj → V3 → Prop
  | none => fun _ => False
  | some o => ObjDen o

/-- flat results (what the flat×polygon handlers may return) are well formed -/
def ObjFlatWF : Option Obj → Prop
  | none => True
  | some (.flat (.point _)) => True
  | some (.flat (.seg s)) => s.WF
  | _ => False

def ExactB (r : ResB) (A B : V3 → Prop) : Prop :=
  ∃ o, r = .ok o ∧ ∀ x, denOptB o x ↔ (A x ∧ B x)

/-- exact, and the result is `None`, a Point or a well-formed Segment -/
def ExactPS (r : ResB) (A B : V3 → Prop) : Prop :=
  ∃ o, r = .ok o ∧ ObjFlatWF o ∧ ∀ x, denOptB o x ↔ (A x ∧ B x)

theorem ExactPS.toExactB {r : ResB} {A B : V3 → Prop} (h : ExactPS r A B) : ExactB r A B := by
  obtain ⟨o, ho, _, hd⟩ := h; exact ⟨o, ho, hd⟩

theorem ExactB_of_liftFlat {r : Res} {A B : V3 → Prop} (h : Exact r A B) : ExactB (liftFlat r) A B := by
  obtain ⟨o, ho, _, hd⟩ := h
  rw [ho]
  cases o with
  | none => exact ⟨none, rfl, fun x => by simpa [denOptB, denOpt] using hd x⟩
  | some g => exact ⟨some (.flat g), rfl, fun x => by simpa [denOptB, denOpt, ObjDen] using hd x⟩

/-- a flat result that is `None`, a Point or a Segment -/
def IsPS : Option Geo → Prop
  | none => True
  | some (.point _) => True
  | some (.seg _) => True
  | _ => False

theorem ExactPS_of_liftFlat {r : Res} {A B : V3 → Prop} (h : Exact r A B)
    (hps : ∀ o, r = .ok o → IsPS o) : ExactPS (liftFlat r) A B := by
  obtain ⟨o, ho, hw, hd⟩ := h
  have := hps o ho
  rw [ho]
  cases o with
  | none => exact ⟨none, rfl, trivial, fun x => by simpa [denOptB, denOpt] using hd x⟩
  | some g =>
    cases g with
    | point q => exact ⟨_, rfl, trivial, fun x => by simpa [denOptB, denOpt, ObjDen] using hd x⟩
    | seg s => exact ⟨_, rfl, hw _ rfl, fun x => by simpa [denOptB, denOpt, ObjDen] using hd x⟩
    | line _ => exact absurd this (by simp [IsPS])
    | plane _ => exact absurd this (by simp [IsPS])
    | halfline _ => exact absurd this (by simp [IsPS])

theorem ofPointSet_IsPS (ps : List V3) (o : Option Geo) (h : ofPointSet ps = .ok o) : IsPS o := by
  match ps, h with
  | [], h => cases h; trivial
  | [p], h => cases h; trivial
  | [p, q], h =>
    simp only [ofPointSet, mkSeg] at h
    by_cases hpq : p = q
    · rw [if_pos hpq] at h; cases h
    · rw [if_neg hpq] at h; cases h; trivial
  | _ :: _ :: _ :: _, h => cases h

theorem Feas_convex (C : List (Rat × Rat)) (a b t : Rat) (ha : Feas C a) (hb : Feas C b) (h1 : a ≤ t) (h2 : t ≤ b) :
    Feas C t := by
  intro c hc
  have e1 := ha c hc; have e2 := hb c hc
  rcases le_total 0 c.2 with h | h
  · nlinarith
  · nlinarith

theorem cross_vsum_left (d : V3) (l : List V3) : cross (vsum l) d = vsum (l.map (fun v => cross v d)) := by
  induction l with
  | nil => simp only [List.map_nil, vsum_nil]; apply V3.ext' <;> simp [cross, zero]
  | cons a l ih =>
    rw [vsum_cons, List.map_cons, vsum_cons, ← ih]
    apply V3.ext' <;> simp only [cross, add] <;> ring

set_option maxHeartbeats 400000 in
theorem lineClip_exact (n pl : V3) (p0 p1 p2 : V3) (rest : List V3)
    (hpl : ∀ p ∈ p0 :: p1 :: p2 :: rest, inPlane n pl p = true)
    (htp : triplesPos n (p0 :: p1 :: p2 :: rest))
    (l : Line) (hl : l.WF) (hls : inPlane n pl l.sv = true) (hld : dot n l.dv = 0) :
    ExactPS (lineEdgesLoop l ((closedPairs (p0 :: p1 :: p2 :: rest)).map (fun e => Seg.mk' e.1 e.2)) [])
      l.den (InHull (p0 :: p1 :: p2 :: rest)) := by
  set pts := p0 :: p1 :: p2 :: rest with hpts
  have hn : n ≠ zero := by
    intro h
    have := htp.1 p1 p2 (by simp)
    rw [h] at this; simp [orient, dot, zero] at this
  set segs := (closedPairs pts).map (fun e => Seg.mk' e.1 e.2) with hsegs
  have hsegW : ∀ s ∈ segs, s.WF := by
    intro s hs
    obtain ⟨e, he, rfl⟩ := List.mem_map.mp hs
    exact Seg.mk'_WF (edge_ne n p0 p1 p2 rest htp e he)
  -- parametrisation of the line and the constraint list
  have lden : ∀ x, l.den x ↔ ∃ t, x = pt l.sv l.dv t := fun x => Iff.rfl
  set C : List (Rat × Rat) := (closedPairs pts).map
    (fun e => (orient n e.1 e.2 l.sv, dot n (cross (sub e.2 e.1) l.dv))) with hC
  have hfeas : ∀ t, Feas C t ↔ InHull pts (pt l.sv l.dv t) := by
    intro t
    rw [← polyContains_iff_hull n pl p0 p1 p2 rest hpl htp]
    unfold polyContains Feas
    rw [Bool.and_eq_true, List.all_eq_true, hC]
    constructor
    · intro h
      refine ⟨inPlane_pt hls hld t, ?_⟩
      intro e he
      have := h _ (List.mem_map.mpr ⟨e, he, rfl⟩)
      simp only [decide_eq_true_eq]; rw [orient_pt]; exact this
    · rintro ⟨_, h⟩ c hc
      obtain ⟨e, he, rfl⟩ := List.mem_map.mp hc
      have := h e he
      simp only [decide_eq_true_eq] at this; rw [orient_pt] at this; exact this
  have hcommon : ∀ x, (l.den x ∧ InHull pts x) ↔ ∃ t, Feas C t ∧ x = pt l.sv l.dv t := by
    intro x; constructor
    · rintro ⟨⟨t, rfl⟩, hh⟩; exact ⟨t, (hfeas t).mpr hh, rfl⟩
    · rintro ⟨t, hf, rfl⟩; exact ⟨⟨t, rfl⟩, (hfeas t).mp hf⟩
  -- every edge result denotes line ∩ edge
  have hedge : ∀ e ∈ closedPairs pts, Exact (interLineSeg l (Seg.mk' e.1 e.2)) l.den (Between e.1 e.2) := by
    intro e he
    exact interLineSeg_exact l _ hl (Seg.mk'_WF (edge_ne n p0 p1 p2 rest htp e he))
  rcases lineEdgesLoop_spec l hl segs [] hsegW with ⟨s0, hs0, hr0, heq0, hret⟩ | ⟨hnoseg, acc', hret, hmem, hnd⟩
  · -- the line runs along an edge
    rw [hret]
    obtain ⟨e, he, rfl⟩ := List.mem_map.mp hs0
    have hne := edge_ne n p0 p1 p2 rest htp e he
    have hW := Seg.mk'_WF hne
    have hmemv := closedPairs_mem pts e he
    refine ⟨some (.flat (.seg (Seg.mk' e.1 e.2))), rfl, hW, fun x => ?_⟩
    simp only [denOptB, ObjDen, Geo.den, Seg.mk'_den]
    constructor
    · intro hb
      refine ⟨?_, between_in_hull hmemv.1 hmemv.2 hb⟩
      have := Seg.den_sub_line (Seg.mk' e.1 e.2) hW x hb
      exact ((Line.eqv_iff l _ hl (Seg.line_WF _ hW)).mp heq0 x).mpr this
    · rintro ⟨hxl, hxh⟩
      have hx2 := ((Line.eqv_iff l _ hl (Seg.line_WF _ hW)).mp heq0 x).mp hxl
      obtain ⟨u, rfl⟩ := hx2
      refine on_edge_of_tight n pts htp e he _ hxh ?_
      simp only [Seg.mk', orient, dot, cross, sub, add, smul]; ring
  · -- no edge along the line: collected hit points
    rw [hret]
    refine ExactPS_of_liftFlat ?_ (fun o ho => ofPointSet_IsPS acc' o ho)
    have hnd' : acc'.Nodup := hnd List.nodup_nil
    have hmem' : ∀ q, q ∈ acc' ↔ ∃ e ∈ closedPairs pts, interLineSeg l (Seg.mk' e.1 e.2) = .ok (some (.point q)) := by
      intro q; rw [hmem q]; simp only [List.not_mem_nil, false_or]
      constructor
      · rintro ⟨s, hs, hq⟩; obtain ⟨e, he, rfl⟩ := List.mem_map.mp hs; exact ⟨e, he, hq⟩
      · rintro ⟨e, he, hq⟩; exact ⟨_, List.mem_map.mpr ⟨e, he, rfl⟩, hq⟩
    -- a hit is a common point, tight on its edge, with non-zero slope
    have hhit : ∀ q e, e ∈ closedPairs pts → interLineSeg l (Seg.mk' e.1 e.2) = .ok (some (.point q)) →
        ∃ t, q = pt l.sv l.dv t ∧ Feas C t ∧
          orient n e.1 e.2 l.sv + dot n (cross (sub e.2 e.1) l.dv) * t = 0 ∧
          dot n (cross (sub e.2 e.1) l.dv) ≠ 0 := by
      intro q e he hq
      obtain ⟨o, ho, _, hd⟩ := hedge e he
      rw [hq] at ho; cases ho
      have hqq := (hd q).mp rfl
      obtain ⟨t, rfl⟩ := hqq.1
      have hmemv := closedPairs_mem pts e he
      have hin : InHull pts (pt l.sv l.dv t) := between_in_hull hmemv.1 hmemv.2 hqq.2
      show ∃ t', add l.sv (smul t l.dv) = pt l.sv l.dv t' ∧ _
      have htight : orient n e.1 e.2 (pt l.sv l.dv t) = 0 := orient_between_zero n e.1 e.2 _ hqq.2
      rw [orient_pt] at htight
      refine ⟨t, rfl, (hfeas t).mpr hin, htight, ?_⟩
      intro hb0
      -- slope zero and tight ⇒ the whole line is the carrier of the edge ⇒ the handler would return the edge
      have hne := edge_ne n p0 p1 p2 rest htp e he
      have hW := Seg.mk'_WF hne
      have ha0 : orient n e.1 e.2 l.sv = 0 := by rw [hb0] at htight; linarith
      have hpa := hpl e.1 hmemv.1; have hpb := hpl e.2 hmemv.2
      obtain ⟨u, hu⟩ := on_carrier_of_orient_zero hn hne hpa hpb hls ha0
      have hcz : cross (sub e.2 e.1) l.dv = zero :=
        coplanar_cross_zero hn (inPlane_diff hpa hpb) hld hb0
      have hd2 : sub e.2 e.1 ≠ zero := fun h => hne (sub_eq_zero_iff.mp h).symm
      obtain ⟨k, hk⟩ : ∃ k, sub e.2 e.1 = smul k l.dv := ⟨_, exists_smul_of_cross_zero hl hcz⟩
      have heqv : l.eqv (Seg.mk' e.1 e.2).line = true := by
        unfold Line.eqv
        rw [Bool.and_eq_true]
        constructor
        · rw [Line.contains_iff l hl]
          refine ⟨- (u * k), ?_⟩
          have hx1 := congrArg V3.x hu; have hy1 := congrArg V3.y hu; have hz1 := congrArg V3.z hu
          have kx := congrArg V3.x hk; have ky := congrArg V3.y hk; have kz := congrArg V3.z hk
          simp only [add, smul, sub] at hx1 hy1 hz1 kx ky kz
          show e.1 = _
          rw [kx] at hx1; rw [ky] at hy1; rw [kz] at hz1
          apply V3.ext' <;> simp only [add, smul]
          · linear_combination (-1 : ℚ) * hx1
          · linear_combination (-1 : ℚ) * hy1
          · linear_combination (-1 : ℚ) * hz1
        · show V3.parallel (sub e.2 e.1) l.dv = true
          rw [hk]; exact parallel_smul _ _
      have : interLineSeg l (Seg.mk' e.1 e.2) = .ok (some (.seg (Seg.mk' e.1 e.2))) := by
        unfold interLineSeg interLineLine; rw [if_pos heqv]
      rw [this] at hq; cases hq
    by_cases hS : ∃ t0, Feas C t0
    · obtain ⟨t0, ht0⟩ := hS
      -- slopes of both signs
      have hsum : (C.map (·.2)).sum = 0 := by
        have : C.map (·.2) = (closedPairs pts).map (fun e => dot n (cross (sub e.2 e.1) l.dv)) := by
          rw [hC, List.map_map]; rfl
        rw [this]
        have h2 : ((closedPairs pts).map (fun e => dot n (cross (sub e.2 e.1) l.dv))).sum =
            dot n (cross (vsum ((closedPairs pts).map (fun e => sub e.2 e.1))) l.dv) := by
          rw [cross_vsum_left, dot_vsum, List.map_map, List.map_map]; rfl
        rw [h2, closed_diff_sum]; simp [dot, cross, zero]
      have hnz : ∃ b ∈ C.map (·.2), b ≠ 0 := by
        by_contra hall
        push_neg at hall
        have hcp : closedPairs pts = (p0, p1) :: (p1, p2) :: consec (p2 :: rest ++ [p0]) := by
          simp [hpts, closedPairs, consec]
        have hb1 : dot n (cross (sub p1 p0) l.dv) = 0 :=
          hall _ (by rw [hC, List.map_map]; exact List.mem_map.mpr ⟨(p0, p1), by rw [hcp]; simp, rfl⟩)
        have hb2 : dot n (cross (sub p2 p1) l.dv) = 0 :=
          hall _ (by rw [hC, List.map_map]; exact List.mem_map.mpr ⟨(p1, p2), by rw [hcp]; simp, rfl⟩)
        have hq0 := hpl p0 (by simp [hpts]); have hq1 := hpl p1 (by simp [hpts]); have hq2 := hpl p2 (by simp [hpts])
        have c1 := coplanar_cross_zero hn (inPlane_diff hq0 hq1) hld hb1
        have c2 := coplanar_cross_zero hn (inPlane_diff hq1 hq2) hld hb2
        obtain ⟨k1, hk1⟩ : ∃ k, sub p1 p0 = smul k l.dv := ⟨_, exists_smul_of_cross_zero hl c1⟩
        obtain ⟨k2, hk2⟩ : ∃ k, sub p2 p1 = smul k l.dv := ⟨_, exists_smul_of_cross_zero hl c2⟩
        have hpos := htp.1 p1 p2 (by simp)
        have : orient n p0 p1 p2 = 0 := by
          have e : sub p2 p0 = smul (k1 + k2) l.dv := by
            have a1 := congrArg V3.x hk1; have a2 := congrArg V3.y hk1; have a3 := congrArg V3.z hk1
            have b1 := congrArg V3.x hk2; have b2 := congrArg V3.y hk2; have b3 := congrArg V3.z hk2
            simp only [sub, smul] at a1 a2 a3 b1 b2 b3
            apply V3.ext' <;> simp only [sub, smul] <;> linarith
          unfold orient; rw [hk1, e]; simp only [dot, cross, smul]; ring
        rw [this] at hpos; exact lt_irrefl _ hpos
      obtain ⟨⟨bp, hbp, hbpos⟩, ⟨bn, hbn, hbneg⟩⟩ := exists_pos_neg_of_sum_zero _ hsum hnz
      obtain ⟨cp, hcp, rfl⟩ := List.mem_map.mp hbp
      obtain ⟨cn, hcn, rfl⟩ := List.mem_map.mp hbn
      obtain ⟨tlo, hflo, hlo, clo, hclo, hclop, hclot⟩ := lp_lo C t0 ht0 ⟨cp, hcp, hbpos⟩
      obtain ⟨thi, hfhi, hhi, chi, hchi, hchin, hchit⟩ := lp_hi C t0 ht0 ⟨cn, hcn, hbneg⟩
      have hlohi : tlo ≤ thi := hlo thi hfhi
      -- a tight constraint at a feasible parameter produces a collected hit
      have htight_hit : ∀ c ∈ C, ∀ t, Feas C t → c.1 + c.2 * t = 0 → pt l.sv l.dv t ∈ acc' := by
        intro c hc t hft hct
        rw [hC] at hc
        obtain ⟨e, he, rfl⟩ := List.mem_map.mp hc
        simp only at hct
        have hin := (hfeas t).mp hft
        have hor : orient n e.1 e.2 (pt l.sv l.dv t) = 0 := by rw [orient_pt]; exact hct
        have hbt := on_edge_of_tight n pts htp e he _ hin hor
        obtain ⟨o, ho, _, hd⟩ := hedge e he
        have hden := (hd (pt l.sv l.dv t)).mpr ⟨⟨t, rfl⟩, hbt⟩
        rcases interLineSeg_shape l _ o ho with rfl | ⟨q, rfl⟩ | ⟨rfl, _⟩
        · simp [denOpt] at hden
        · simp only [denOpt, Geo.den] at hden
          rw [hmem']; exact ⟨e, he, by rw [ho, hden]⟩
        · exact absurd ho (hnoseg _ (List.mem_map.mpr ⟨e, he, rfl⟩))
      refine ofPointSet_pair_exact acc' (pt l.sv l.dv tlo) (pt l.sv l.dv thi) hnd' ?_ ?_ ?_ ?_
      · intro q hq
        obtain ⟨e, he, hqe⟩ := (hmem' q).mp hq
        obtain ⟨t, rfl, hft, htt, hbne⟩ := hhit q e he hqe
        rcases lt_or_gt_of_ne hbne with hneg | hpos
        · right; congr 1
          have h1 : t ≤ thi := hhi t hft
          have h2 := hfhi _ (List.mem_map.mpr ⟨e, he, rfl⟩)
          simp only at h2
          have : thi ≤ t := by nlinarith
          linarith
        · left; congr 1
          have h1 : tlo ≤ t := hlo t hft
          have h2 := hflo _ (List.mem_map.mpr ⟨e, he, rfl⟩)
          simp only at h2
          have : t ≤ tlo := by nlinarith
          linarith
      · exact htight_hit clo hclo tlo hflo hclot
      · exact htight_hit chi hchi thi hfhi hchit
      · intro x
        rw [hcommon, Between_pt hlohi]
        constructor
        · rintro ⟨t, hft, rfl⟩; exact ⟨t, hlo t hft, hhi t hft, rfl⟩
        · rintro ⟨t, h1, h2, rfl⟩; exact ⟨t, Feas_convex C tlo thi t hflo hfhi h1 h2, rfl⟩
    · -- the line misses the polygon
      have hempty : acc' = [] := by
        apply List.eq_nil_iff_forall_not_mem.mpr
        intro q hq
        obtain ⟨e, he, hqe⟩ := (hmem' q).mp hq
        obtain ⟨t, _, hft, _, _⟩ := hhit q e he hqe
        exact hS ⟨t, hft⟩
      rw [hempty]
      refine ofPointSet_nil_exact (fun x hx => ?_)
      obtain ⟨t, hft, _⟩ := (hcommon x).mp hx
      exact hS ⟨t, hft⟩
#print axioms lineClip_exact
end G3D
