import G3D.Proofs.TolGeoPolygon
import Mathlib.Tactic.FinCases
import Mathlib.Tactic.NormNum

/-! Non-vacuity of the polygon theorems: the unit square with corner (1/8, 2, −3) in the plane z = −3, every vertex
    moved by ±eps/1000 per coordinate; the centre and a vertex are accepted, a point 3·eps outside an edge is rejected. -/
namespace G3D.TolGeo
open R3

noncomputable def sqPts : Fin 4 → R3
  | ⟨0, _⟩ => ⟨1 / 8, 2, -3⟩
  | ⟨1, _⟩ => ⟨9 / 8, 2, -3⟩
  | ⟨2, _⟩ => ⟨9 / 8, 3, -3⟩
  | ⟨3, _⟩ => ⟨1 / 8, 3, -3⟩

/-- perturbed vertices, `d = eps/1000` -/
noncomputable def sqPts' (d : ℝ) : Fin 4 → R3
  | ⟨0, _⟩ => ⟨1 / 8 + d, 2 - d, -3 + d⟩
  | ⟨1, _⟩ => ⟨9 / 8 - d, 2 + d, -3 - d⟩
  | ⟨2, _⟩ => ⟨9 / 8 + d, 3 + d, -3 + d⟩
  | ⟨3, _⟩ => ⟨1 / 8 - d, 3 - d, -3 - d⟩

theorem sq_close {d : ℝ} (hd : 0 ≤ d) : ∀ i, closeBy d (sqPts i) (sqPts' d i) := by
  intro i
  fin_cases i <;>
    (refine ⟨?_, ?_, ?_⟩ <;> simp only [sqPts, sqPts'] <;> rw [abs_le] <;> constructor <;> linarith)

theorem sq_normal : cross (sub (sqPts 1) (sqPts 0)) (sub (sqPts 2) (sqPts 0)) = ⟨0, 0, 1⟩ := by
  ext <;> norm_num [cross, sub, sqPts]

theorem sq_next : nextIdx (0 : Fin 4) = 1 ∧ nextIdx (1 : Fin 4) = 2 ∧ nextIdx (2 : Fin 4) = 3 ∧
    nextIdx (3 : Fin 4) = 0 := by decide

/-- the edge quantities of the exact square, `n = (0,0,1)` -/
theorem sq_edgeVal (x : R3) (i : Fin 4) :
    (Polygon.ofPoints (sqPts 0) (sqPts 1) (sqPts 2) sqPts).edgeVal i x
      = dot (sub x (sqPts i)) (cross ⟨0, 0, 1⟩ (sub (sqPts (nextIdx i)) (sqPts i))) := by
  unfold Polygon.edgeVal Polygon.ofPoints Plane.ofPoints Plane.ofPN
  simp only
  rw [sq_normal]
  have h1 : dot (⟨0, 0, 1⟩ : R3) ⟨0, 0, 1⟩ = 1 := by norm_num [dot]
  rw [normalized_of_unit h1, normalized_of_unit h1]

theorem sq_edges : ∀ i : Fin 4, |(sub (sqPts (nextIdx i)) (sqPts i)).x| ≤ 1 ∧
    |(sub (sqPts (nextIdx i)) (sqPts i)).y| ≤ 1 ∧ |(sub (sqPts (nextIdx i)) (sqPts i)).z| ≤ 1 := by
  intro i
  fin_cases i <;> simp only [Fin.zero_eta, Fin.mk_one, Fin.reduceFinMk] <;>
    first
      | rw [sq_next.1] | rw [sq_next.2.1] | rw [sq_next.2.2.1] | rw [sq_next.2.2.2]
  all_goals
    (refine ⟨?_, ?_, ?_⟩ <;> simp only [sub, sqPts] <;> rw [abs_le] <;> constructor <;> norm_num)

/-- coordinates of `x − vertex` for a point of the closed square are ≤ 1 -/
theorem sq_dist {x : R3} (hx : 1 / 8 ≤ x.x ∧ x.x ≤ 9 / 8) (hy : 2 ≤ x.y ∧ x.y ≤ 3) (hz : x.z = -3) :
    ∀ i : Fin 4, |(sub x (sqPts i)).x| ≤ 1 ∧ |(sub x (sqPts i)).y| ≤ 1 ∧ |(sub x (sqPts i)).z| ≤ 1 := by
  intro i
  fin_cases i <;>
    (refine ⟨?_, ?_, ?_⟩ <;> simp only [sub, sqPts] <;> rw [abs_le] <;> constructor <;> linarith)

/-- every point of the closed exact square satisfies the exact edge conditions -/
theorem sq_inside {x : R3} (hx : 1 / 8 ≤ x.x ∧ x.x ≤ 9 / 8) (hy : 2 ≤ x.y ∧ x.y ≤ 3) :
    ∀ i : Fin 4, 0 ≤ (Polygon.ofPoints (sqPts 0) (sqPts 1) (sqPts 2) sqPts).edgeVal i x := by
  intro i
  rw [sq_edgeVal]
  fin_cases i <;> simp only [Fin.zero_eta, Fin.mk_one, Fin.reduceFinMk] <;>
    first
      | rw [sq_next.1] | rw [sq_next.2.1] | rw [sq_next.2.2.1] | rw [sq_next.2.2.2]
  all_goals (simp only [dot, cross, sub, sqPts]; nlinarith)

/-- **the whole closed unit square is accepted by every eps/1000-perturbed copy**, for every `0 < eps ≤ 1`
    (in particular the four vertices and the centre; eps = 1e-5 and eps = 1e-12 below) -/
theorem sq_accepts {eps : ℝ} (heps : 0 < eps) (heps1 : eps ≤ 1) {x : R3}
    (hx : 1 / 8 ≤ x.x ∧ x.x ≤ 9 / 8) (hy : 2 ≤ x.y ∧ x.y ≤ 3) (hz : x.z = -3) :
    Polygon.containsT eps
      (Polygon.ofPoints (sqPts' (eps / 1000) 0) (sqPts' (eps / 1000) 1) (sqPts' (eps / 1000) 2)
        (sqPts' (eps / 1000))) x := by
  have hd : 0 ≤ eps / 1000 := by linarith
  have hc := sq_close hd
  have hE := sq_edges
  refine Polygon.containsT_ofPoints (E := 1) (R := 1) (ρ := 1) (P := sqPts) heps heps1 (hc 0) (hc 1) (hc 2) hc
    ?_ ?_ (by norm_num) ?_ (by linarith) ?_ (sq_dist hx hy hz 0) (sq_dist hx hy hz) hE (sq_inside hx hy)
    (by norm_num) (by norm_num)
  · have := hE 0; rwa [sq_next.1] at this
  · refine ⟨?_, ?_, ?_⟩ <;> simp only [sub, sqPts] <;> rw [abs_le] <;> constructor <;> norm_num
  · rw [sq_normal]; norm_num [dot]
  · rw [sq_normal]; simp only [dot, sub, sqPts]; rw [hz]; ring

/-- centre, eps = 1e-5 -/
example : Polygon.containsT (1 / 100000)
    (Polygon.ofPoints (sqPts' (1 / 100000 / 1000) 0) (sqPts' (1 / 100000 / 1000) 1) (sqPts' (1 / 100000 / 1000) 2)
      (sqPts' (1 / 100000 / 1000))) ⟨5 / 8, 5 / 2, -3⟩ :=
  sq_accepts (by norm_num) (by norm_num) (by norm_num) (by norm_num) rfl

/-- a vertex of the exact square, eps = 1e-12 -/
example : Polygon.containsT (1 / 1000000000000)
    (Polygon.ofPoints (sqPts' (1 / 1000000000000 / 1000) 0) (sqPts' (1 / 1000000000000 / 1000) 1)
      (sqPts' (1 / 1000000000000 / 1000) 2) (sqPts' (1 / 1000000000000 / 1000))) ⟨9 / 8, 3, -3⟩ :=
  sq_accepts (by norm_num) (by norm_num) (by norm_num) (by norm_num) rfl

/-- **rejection**: the point `3·eps` outside the edge `y = 2` (below the middle of the edge) is rejected by every perturbed copy -/
theorem sq_rejects {eps : ℝ} (heps : 0 < eps) (heps1 : eps ≤ 1 / 10) :
    ¬ Polygon.containsT eps
      (Polygon.ofPoints (sqPts' (eps / 1000) 0) (sqPts' (eps / 1000) 1) (sqPts' (eps / 1000) 2)
        (sqPts' (eps / 1000))) ⟨5 / 8, 2 - 3 * eps, -3⟩ := by
  have hd : 0 ≤ eps / 1000 := by linarith
  have hc := sq_close hd
  have hE := sq_edges
  refine Polygon.not_containsT_ofPoints (E := 1) (R := 2) (ρ := 1) (P := sqPts) heps (by linarith)
    (hc 0) (hc 1) (hc 2) hc ?_ ?_ (by norm_num) ?_ (by linarith) ?_ hE (by norm_num) ⟨0, ?_⟩
  · have := hE 0; rwa [sq_next.1] at this
  · refine ⟨?_, ?_, ?_⟩ <;> simp only [sub, sqPts] <;> rw [abs_le] <;> constructor <;> norm_num
  · rw [sq_normal]; norm_num [dot]
  · intro i
    fin_cases i <;>
      (refine ⟨?_, ?_, ?_⟩ <;> simp only [sub, sqPts] <;> rw [abs_le] <;> constructor <;> linarith)
  · rw [sq_edgeVal, sq_next.1]
    simp only [dot, cross, sub, sqPts]
    linarith

example : ¬ Polygon.containsT (1 / 100000)
    (Polygon.ofPoints (sqPts' (1 / 100000 / 1000) 0) (sqPts' (1 / 100000 / 1000) 1) (sqPts' (1 / 100000 / 1000) 2)
      (sqPts' (1 / 100000 / 1000))) ⟨5 / 8, 2 - 3 * (1 / 100000), -3⟩ :=
  sq_rejects (by norm_num) (by norm_num)

end G3D.TolGeo
