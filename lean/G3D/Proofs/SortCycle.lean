import G3D.Proofs.SortValid

/-! Closure of K6: the vertex cycle of a `Valid` polygon is duplicate-free and in strictly convex position, so
    re-running the constructor on it (`move`, `-polygon`, `copy`) succeeds and returns a `Valid` polygon with
    the SAME cycle (`reverse = False`) resp. the reversed cycle (`reverse = True`). -/
namespace G3D
open V3

/-! ### `triplesPos` through sublists; rotation of the cycle -/
theorem triplesPos_iff_sublist (n : V3) : ∀ l : List V3,
    triplesPos n l ↔ ∀ a b c, List.Sublist [a, b, c] l → 0 < orient n a b c := by
  intro l
  induction l with
  | nil =>
    constructor
    · intro _ a b c h; cases h
    · intro _; trivial
  | cons x l ih =>
    constructor
    · rintro ⟨h1, h2⟩ a b c h
      rcases List.sublist_cons_iff.mp h with h | ⟨r, hr, hs⟩
      · exact (ih.mp h2) a b c h
      · simp only [List.cons.injEq] at hr
        obtain ⟨rfl, rfl⟩ := hr
        exact h1 b c hs
    · intro h
      refine ⟨fun b c hbc => h x b c (List.Sublist.cons_cons x hbc), ih.mpr (fun a b c habc => h a b c (List.Sublist.cons x habc))⟩

theorem triplesPos_rotate1 (n a : V3) (l : List V3) (h : triplesPos n (a :: l)) : triplesPos n (l ++ [a]) := by
  rw [triplesPos_iff_sublist] at h ⊢
  intro x y z hs
  obtain ⟨w1, w2, hw, h1, h2⟩ := List.sublist_append_iff.mp hs
  rcases List.sublist_cons_iff.mp h2 with h2 | ⟨r, hr, h2⟩
  · have : w2 = [] := List.eq_nil_of_sublist_nil h2
    rw [this, List.append_nil] at hw
    rw [← hw] at h1
    exact h x y z (List.Sublist.cons a h1)
  · have : r = [] := List.eq_nil_of_sublist_nil h2
    rw [hr, this] at hw
    -- [x,y,z] = w1 ++ [a]
    have hw1 : w1 = [x, y] ∧ a = z := by
      match w1, hw with
      | [p, q], hw => simp at hw; exact ⟨by rw [hw.1, hw.2.1], hw.2.2.symm⟩
      | [], hw => simp at hw
      | [p], hw => simp at hw
      | p :: q :: s :: t, hw => simp at hw
    obtain ⟨e1, e2⟩ := hw1
    rw [e1] at h1
    have := h a x y (List.Sublist.cons_cons a h1)
    rw [← e2, ← orient_cyc]; exact this

theorem triplesPos_rotate (n : V3) : ∀ (l1 m : List V3), triplesPos n (l1 ++ m) → triplesPos n (m ++ l1) := by
  intro l1
  induction l1 with
  | nil => intro m h; simpa using h
  | cons a t ih =>
    intro m h
    have h1 := triplesPos_rotate1 n a (t ++ m) h
    rw [List.append_assoc] at h1
    have := ih (m ++ [a]) h1
    simpa using this

theorem orient_swap23 (n a b c : V3) : orient n a c b = - orient n a b c := by
  simp only [orient, dot, cross, sub]; ring

/-! ### the head of a positively oriented cycle is strictly exposed -/
theorem head_exposed (n p : V3) (l2 : List V3) (hlen : 2 ≤ l2.length) (h : triplesPos n (p :: l2)) :
    ∃ d : V3, ∀ q ∈ l2, dot d q < dot d p := by
  rw [triplesPos_iff_sublist] at h
  -- l2 = y :: mid ++ [x]
  obtain ⟨y, mid, x, rfl⟩ : ∃ y mid x, l2 = y :: (mid ++ [x]) := by
    match l2, hlen with
    | y :: t, hl =>
      rcases List.eq_nil_or_concat t with ht | ⟨mid, x, ht⟩
      · rw [ht] at hl; simp at hl
      · exact ⟨y, mid, x, by rw [ht, List.concat_eq_append]⟩
  refine ⟨cross n (sub x y), ?_⟩
  have hg : ∀ q, dot (cross n (sub x y)) q - dot (cross n (sub x y)) y = orient n y x q := by
    intro q; simp only [orient, dot, cross, sub]; ring
  have hp : 0 < orient n y x p := by
    have : List.Sublist [p, y, x] (p :: y :: (mid ++ [x])) :=
      List.Sublist.cons_cons p (List.Sublist.cons_cons y (List.sublist_append_right mid [x]))
    have := h p y x this
    rw [orient_cyc] at this
    exact this
  intro q hq
  have hq0 : orient n y x q ≤ 0 := by
    rcases List.mem_cons.mp hq with rfl | hq
    · rw [orient_self_left]
    · rcases List.mem_append.mp hq with hq | hq
      · have hs : List.Sublist [q, x] (mid ++ [x]) :=
          List.Sublist.append (List.singleton_sublist.mpr hq) (List.Sublist.refl [x])
        have := h y q x (List.Sublist.cons p (List.Sublist.cons_cons y hs))
        rw [orient_swap23]; linarith
      · rw [List.mem_singleton] at hq
        rw [hq, orient_self_right]
  have e1 := hg q
  have e2 := hg p
  linarith

theorem head_not_mem (n p : V3) (l2 : List V3) (hlen : 2 ≤ l2.length) (h : triplesPos n (p :: l2)) : p ∉ l2 := by
  obtain ⟨d, hd⟩ := head_exposed n p l2 hlen h
  intro hp
  exact absurd (hd p hp) (lt_irrefl _)

theorem nodup_of_decomp : ∀ L : List V3, (∀ l1 p l2, L = l1 ++ p :: l2 → p ∉ l2) → L.Nodup := by
  intro L
  induction L with
  | nil => intro _; exact List.nodup_nil
  | cons a t ih =>
    intro h
    rw [List.nodup_cons]
    refine ⟨h [] a t rfl, ih (fun l1 p l2 e => h (a :: l1) p l2 (by rw [e]; rfl))⟩

/-- a positively oriented cycle with at least three vertices: no repeated vertex, every vertex strictly exposed -/
theorem triplesPos_nodup_exposed (n : V3) (L : List V3) (hlen : 3 ≤ L.length) (h : triplesPos n L) :
    L.Nodup ∧ StrictConvexPos L := by
  have key : ∀ l1 p l2, L = l1 ++ p :: l2 → (p ∉ l2 ++ l1) ∧ ∃ d : V3, ∀ q ∈ l2 ++ l1, dot d q < dot d p := by
    intro l1 p l2 e
    have hr : triplesPos n (p :: (l2 ++ l1)) := by
      have := triplesPos_rotate n l1 (p :: l2) (e ▸ h)
      simpa using this
    have hl : 2 ≤ (l2 ++ l1).length := by
      have := congrArg List.length e
      simp only [List.length_append, List.length_cons] at this ⊢
      omega
    exact ⟨head_not_mem n p _ hl hr, head_exposed n p _ hl hr⟩
  constructor
  · apply nodup_of_decomp
    intro l1 p l2 e hp
    exact (key l1 p l2 e).1 (List.mem_append_left _ hp)
  · intro p hp
    obtain ⟨l1, l2, e⟩ := List.append_of_mem hp
    obtain ⟨d, hd⟩ := (key l1 p l2 e).2
    refine ⟨d, fun q hq hne => hd q ?_⟩
    rw [e] at hq
    rcases List.mem_append.mp hq with hq | hq
    · exact List.mem_append_right _ hq
    · rcases List.mem_cons.mp hq with hq | hq
      · exact absurd hq hne
      · exact List.mem_append_left _ hq

theorem Polygon.Valid.nodup {P : Polygon} (hv : P.Valid) : P.pts.Nodup := by
  obtain ⟨p0, p1, p2, rest, hp, _, htp⟩ := hv
  exact (triplesPos_nodup_exposed P.plane.n P.pts (by rw [hp]; simp) htp).1

theorem Polygon.Valid.strictConvexPos {P : Polygon} (hv : P.Valid) : StrictConvexPos P.pts := by
  obtain ⟨p0, p1, p2, rest, hp, _, htp⟩ := hv
  exact (triplesPos_nodup_exposed P.plane.n P.pts (by rw [hp]; simp) htp).2

#print axioms triplesPos_nodup_exposed

/-! ### uniqueness of a strictly ordered arrangement -/
theorem eq_of_perm_of_pairwise_asymm {α : Type} (R : α → α → Prop) (hasymm : ∀ a b, R a b → R b a → False) :
    ∀ l1 l2 : List α, l1.Pairwise R → l2.Pairwise R → List.Perm l1 l2 → l1 = l2 := by
  intro l1
  induction l1 with
  | nil => intro l2 _ _ hp; exact hp.nil_eq
  | cons a t1 ih =>
    intro l2 h1 h2 hp
    cases l2 with
    | nil => exact absurd hp.symm.nil_eq (by simp)
    | cons b t2 =>
      rw [List.pairwise_cons] at h1 h2
      have hab : a = b := by
        apply Classical.byContradiction
        intro hne
        have ha : a ∈ t2 := by
          rcases List.mem_cons.mp (hp.subset List.mem_cons_self) with h | h
          · exact absurd h hne
          · exact h
        have hb : b ∈ t1 := by
          rcases List.mem_cons.mp (hp.symm.subset List.mem_cons_self) with h | h
          · exact absurd h.symm hne
          · exact h
        exact hasymm a b (h1.1 b hb) (h2.1 a ha)
      subst hab
      rw [ih t2 h1.2 h2.2 hp.cons_inv]

theorem orient_smul' (k : Rat) (n a b c : V3) : orient (smul k n) a b c = k * orient n a b c := by
  simp only [orient, dot, cross, sub, smul]; ring

/-! ### the constructor on a positively oriented cycle -/
/-- **Re-construction.**  Let `q0 :: q1 :: q2 :: r` be a positively oriented (about `n`) strictly convex cycle in
    a plane with normal `n`.  Then `ConvexPolygon(cycle, reverse)` succeeds and returns a `Valid` polygon whose
    plane point is `q0`, whose normal is a positive multiple of `n` (resp. `-n` for `reverse = True`), and whose
    stored cycle is the SAME list (resp. `q0` followed by the reversed rest for `reverse = True`). -/
theorem Polygon.mk?_of_cycle (n a q0 q1 q2 : V3) (r : List V3)
    (hin : ∀ p ∈ q0 :: q1 :: q2 :: r, dot n (sub p a) = 0)
    (htp : triplesPos n (q0 :: q1 :: q2 :: r)) (rev : Bool) :
    ∃ Q, Polygon.mk? (q0 :: q1 :: q2 :: r) rev = .ok Q ∧ Q.Valid ∧
      Q.plane.p = q0 ∧ Q.center = meanV (q0 :: q1 :: q2 :: r) ∧
      (∃ t : Rat, 0 < t ∧ t = orient n q0 q1 q2 / normSq n ∧
        Q.plane.n = smul t (if rev = true then neg n else n)) ∧
      Q.pts = (if rev = true then q0 :: (q1 :: q2 :: r).reverse else q0 :: q1 :: q2 :: r) ∧
      Q.plane.n = (if rev = true then neg (cross (sub q1 q0) (sub q2 q0)) else cross (sub q1 q0) (sub q2 q0)) := by
  obtain ⟨hnd, hx⟩ := triplesPos_nodup_exposed n (q0 :: q1 :: q2 :: r) (by simp) htp
  have hdd : dedupV (q0 :: q1 :: q2 :: r) = q0 :: q1 :: q2 :: r := dedupV_of_nodup _ hnd
  have hpos : 0 < orient n q0 q1 q2 := htp.1 q1 q2 (by simp)
  have hn : n ≠ zero := by
    intro h; rw [h] at hpos; simp [orient, dot, zero] at hpos
  have hnn := normSq_pos_of_ne hn
  have hrel : ∀ p ∈ q0 :: q1 :: q2 :: r, dot n (sub p q0) = 0 := by
    intro p hp
    have h1 := hin p hp
    have h0 := hin q0 List.mem_cons_self
    have : dot n (sub p q0) = dot n (sub p a) - dot n (sub q0 a) := by simp only [dot, sub]; ring
    rw [this, h1, h0]; ring
  obtain ⟨t, htdef, hmt⟩ : ∃ t : Rat, t = orient n q0 q1 q2 / normSq n ∧
      cross (sub q1 q0) (sub q2 q0) = smul t n :=
    ⟨_, rfl, cross_coplanar' n _ _ hn (hrel q1 (by simp)) (hrel q2 (by simp))⟩
  have htpos : 0 < t := by rw [htdef]; exact div_pos hpos hnn
  have hm0 : cross (sub q1 q0) (sub q2 q0) ≠ zero := by
    intro h
    have : orient n q0 q1 q2 = 0 := by rw [orient, h]; simp [dot, zero]
    linarith
  have hv0 : sub q0 (meanV (dedupV (q0 :: q1 :: q2 :: r))) ≠ zero := by
    rw [hdd]
    obtain ⟨d, hd⟩ := hx q0 List.mem_cons_self
    have hq1 : q1 ≠ q0 := by
      intro e
      rw [List.nodup_cons] at hnd
      exact hnd.1 (by rw [← e]; simp)
    have hlt := exposed_gt_mean d q0 _ List.mem_cons_self hd ⟨q1, by simp, hq1⟩
    intro hz
    have hx := congrArg V3.x hz; have hy := congrArg V3.y hz; have hz' := congrArg V3.z hz
    simp only [sub, zero] at hx hy hz'
    have e : meanV (q0 :: q1 :: q2 :: r) = q0 := by apply V3.ext' <;> linarith
    rw [e] at hlt
    exact lt_irrefl _ hlt
  have hnneq : (if rev = true then neg (cross (sub q1 q0) (sub q2 q0)) else cross (sub q1 q0) (sub q2 q0)) =
      smul t (if rev = true then neg n else n) := by
    rw [hmt]
    cases rev
    · simp
    · simp only [if_true]; apply V3.ext' <;> simp only [smul, neg] <;> ring
  have hall : ∀ p ∈ dedupV (q0 :: q1 :: q2 :: r), (⟨q0, if rev = true then neg (cross (sub q1 q0) (sub q2 q0))
        else cross (sub q1 q0) (sub q2 q0)⟩ : Plane).contains p = true := by
    intro p hp
    rw [hdd] at hp
    rw [Plane.contains_iff_dot, hnneq]
    have h1 := hrel p hp
    cases rev
    · simp only [Bool.false_eq_true, if_false]
      simp only [dot, smul, sub] at h1 ⊢
      linear_combination t * h1
    · simp only [if_true]
      simp only [dot, smul, neg, sub] at h1 ⊢
      linear_combination (-t) * h1
  have hok := Polygon.mk?_eq_ok (q0 :: q1 :: q2 :: r) rev q0 q1 q2 r (by simp) hdd hm0 hv0 hall
  rw [hdd] at hok
  refine ⟨_, hok, ?_⟩
  obtain ⟨hvQ, hpermQ, hneQ⟩ := Polygon.mk?_valid_of_strictConvex _ rev _ hok
    (hx.of_subset (fun p hp => dedupV_mem _ p hp))
  obtain ⟨hheadQ, _⟩ := Polygon.mk?_head _ rev _ hok hneQ
  rw [hdd] at hpermQ
  refine ⟨hvQ, rfl, rfl, ⟨t, htpos, htdef, hnneq⟩, ?_, rfl⟩
  -- the cycle
  generalize hQ : (List.map (fun x => x.2) (angSort (frameKey (meanV (q0 :: q1 :: q2 :: r)) q0
      (if rev = true then neg (cross (sub q1 q0) (sub q2 q0)) else cross (sub q1 q0) (sub q2 q0)))
      (q0 :: q1 :: q2 :: r))) = pts at hvQ hpermQ hheadQ ⊢
  obtain ⟨_, _, _, _, _, _, htpQ⟩ := hvQ
  simp only at htpQ hpermQ hheadQ
  rw [hnneq] at htpQ
  cases pts with
  | nil => simp at hheadQ
  | cons h0 tQ =>
    simp only [List.head?_cons, Option.some.injEq] at hheadQ
    subst hheadQ
    have hpt : List.Perm tQ (q1 :: q2 :: r) := hpermQ.cons_inv
    have hRL : (q1 :: q2 :: r).Pairwise (fun x y => 0 < orient n h0 x y) :=
      List.pairwise_of_forall_sublist (fun {x y} hs => htp.1 x y hs)
    cases rev
    · simp only [Bool.false_eq_true, if_false] at htpQ ⊢
      have hRQ : tQ.Pairwise (fun x y => 0 < orient n h0 x y) := by
        apply List.pairwise_of_forall_sublist
        intro x y hs
        have := htpQ.1 x y hs
        rw [orient_smul'] at this
        exact (pos_iff_pos_of_mul_pos this).mp htpos
      congr 1
      exact eq_of_perm_of_pairwise_asymm _ (fun x y h1 h2 => by rw [orient_swap23] at h2; linarith) _ _ hRQ hRL hpt
    · simp only [if_true] at htpQ ⊢
      have hRQ : tQ.Pairwise (fun x y => 0 < orient n h0 y x) := by
        apply List.pairwise_of_forall_sublist
        intro x y hs
        have := htpQ.1 x y hs
        have e : smul t (neg n) = smul (-t) n := by apply V3.ext' <;> simp only [smul, neg] <;> ring
        rw [e, orient_smul'] at this
        rw [orient_swap23]
        nlinarith
      have hRL' : (q1 :: q2 :: r).reverse.Pairwise (fun x y => 0 < orient n h0 y x) :=
        List.pairwise_reverse.mpr hRL
      congr 1
      exact eq_of_perm_of_pairwise_asymm _ (fun x y h1 h2 => by rw [orient_swap23] at h2; linarith) _ _ hRQ hRL'
        (hpt.trans (List.reverse_perm _).symm)

#print axioms Polygon.mk?_of_cycle

/-- `ConvexPolygon(P.points, reverse)` for a `Valid` polygon `P` (this is what `move`, `-P` and `copy`-style
    re-construction run): succeeds, `Valid`, same cycle resp. reversed cycle, normal a positive multiple of
    `±P.plane.n`, plane point the first vertex, centre the vertex mean -/
theorem Polygon.mk?_pts_of_valid (P : Polygon) (hv : P.Valid) (rev : Bool) :
    ∃ Q q0 rest, P.pts = q0 :: rest ∧ Polygon.mk? P.pts rev = .ok Q ∧ Q.Valid ∧
      Q.plane.p = q0 ∧ Q.center = meanV P.pts ∧
      (∃ t : Rat, 0 < t ∧ Q.plane.n = smul t (if rev = true then neg P.plane.n else P.plane.n)) ∧
      Q.pts = if rev = true then q0 :: rest.reverse else P.pts := by
  obtain ⟨p0, p1, p2, rest, hp, hpl, htp⟩ := hv
  rw [hp] at hpl htp ⊢
  have hin : ∀ p ∈ p0 :: p1 :: p2 :: rest, dot P.plane.n (sub p P.plane.p) = 0 := by
    intro p hpm
    have := hpl p hpm
    simpa [G3D.inPlane] using this
  obtain ⟨Q, hQ, hvQ, h1, h2, ⟨t, ht, _, hn⟩, h3, _⟩ := Polygon.mk?_of_cycle P.plane.n P.plane.p p0 p1 p2 rest hin htp rev
  exact ⟨Q, p0, p1 :: p2 :: rest, rfl, hQ, hvQ, h1, h2, ⟨t, ht, hn⟩, h3⟩

/-- **`-polygon` on any `Valid` polygon**: succeeds, is `Valid`, keeps the first vertex and reverses the rest of
    the cycle, flips the normal (up to a positive factor) -/
theorem Polygon.neg?_of_valid (P : Polygon) (hv : P.Valid) :
    ∃ Q q0 rest, P.pts = q0 :: rest ∧ P.neg? = .ok Q ∧ Q.Valid ∧ Q.pts = q0 :: rest.reverse ∧
      Q.plane.p = q0 ∧ Q.center = meanV P.pts ∧
      (∃ t : Rat, 0 < t ∧ Q.plane.n = smul t (neg P.plane.n)) := by
  obtain ⟨Q, q0, rest, hp, hQ, hvQ, h1, h2, ⟨t, ht, hn⟩, h3⟩ := Polygon.mk?_pts_of_valid P hv true
  exact ⟨Q, q0, rest, hp, hQ, hvQ, by simpa using h3, h1, h2, ⟨t, ht, by simpa using hn⟩⟩

/-- `-(-P)` has the vertex cycle of `P` -/
theorem Polygon.neg?_neg?_pts (P : Polygon) (hv : P.Valid) :
    ∃ Q R, P.neg? = .ok Q ∧ Q.neg? = .ok R ∧ R.Valid ∧ R.pts = P.pts ∧
      (∃ t : Rat, 0 < t ∧ R.plane.n = smul t P.plane.n) := by
  obtain ⟨Q, q0, rest, hp, hQ, hvQ, hQp, _, _, ⟨t, ht, hn⟩⟩ := Polygon.neg?_of_valid P hv
  obtain ⟨R, q0', rest', hp', hR, hvR, hRp, _, _, ⟨t', ht', hn'⟩⟩ := Polygon.neg?_of_valid Q hvQ
  refine ⟨Q, R, hQ, hR, hvR, ?_, ⟨t' * t, mul_pos ht' ht, ?_⟩⟩
  · rw [hQp] at hp'
    simp only [List.cons.injEq] at hp'
    obtain ⟨e1, e2⟩ := hp'
    rw [hRp, ← e1, ← e2, List.reverse_reverse, hp]
  · rw [hn', hn]
    apply V3.ext' <;> simp only [smul, neg] <;> ring

/-- re-construction of a `Valid` polygon returns the same cycle (closes the gap of `move_returned_partial`) -/
theorem Polygon.mk?_pts_same (P : Polygon) (hv : P.Valid) :
    ∃ Q, Polygon.mk? P.pts = .ok Q ∧ Q.Valid ∧ Q.pts = P.pts := by
  obtain ⟨Q, q0, rest, _, hQ, hvQ, _, _, _, h3⟩ := Polygon.mk?_pts_of_valid P hv false
  exact ⟨Q, hQ, hvQ, by simpa using h3⟩

/-! ### triangles: the full statement -/
/-- `ConvexPolygon((a, b, c), reverse)` on three non-collinear points: succeeds, is `Valid`, stores the plane
    through `a` with normal `±(b-a)×(c-a)`, the centroid, and the cycle `a, b, c` (resp. `a, c, b`) -/
theorem Polygon.mk?_triangle (a b c : V3) (hnc : cross (sub b a) (sub c a) ≠ zero) (rev : Bool) :
    ∃ Q, Polygon.mk? [a, b, c] rev = .ok Q ∧ Q.Valid ∧
      Q.plane = ⟨a, if rev = true then neg (cross (sub b a) (sub c a)) else cross (sub b a) (sub c a)⟩ ∧
      Q.center = meanV [a, b, c] ∧
      Q.pts = if rev = true then [a, c, b] else [a, b, c] := by
  have hpos := normSq_pos_of_ne hnc
  have hin : ∀ p ∈ [a, b, c], dot (cross (sub b a) (sub c a)) (sub p a) = 0 := by
    intro p hp
    simp only [List.mem_cons, List.not_mem_nil, or_false] at hp
    rcases hp with rfl | rfl | rfl <;> simp only [dot, cross, sub] <;> ring
  have htp : triplesPos (cross (sub b a) (sub c a)) [a, b, c] := by
    refine ⟨?_, ?_, ?_, trivial⟩
    · intro x y hs
      have hxy : x = b ∧ y = c := by
        have h2 := hs.length_le
        match hs with
        | .cons_cons _ (.cons_cons _ _) => exact ⟨rfl, rfl⟩
      rw [hxy.1, hxy.2]
      have : orient (cross (sub b a) (sub c a)) a b c = normSq (cross (sub b a) (sub c a)) := rfl
      rw [this]; exact hpos
    · intro x y hs
      have := hs.length_le
      simp at this
    · intro x y hs
      have := hs.length_le
      simp at this
  obtain ⟨Q, hQ, hvQ, h1, h2, ⟨t, _, htdef, hn⟩, h3, _⟩ :=
    Polygon.mk?_of_cycle (cross (sub b a) (sub c a)) a a b c [] hin htp rev
  refine ⟨Q, hQ, hvQ, ?_, h2, by simpa using h3⟩
  have ht1 : t = 1 := by
    rw [htdef]
    have : orient (cross (sub b a) (sub c a)) a b c = normSq (cross (sub b a) (sub c a)) := rfl
    rw [this]; exact div_self (ne_of_gt hpos)
  have hQpl : Q.plane = ⟨Q.plane.p, Q.plane.n⟩ := rfl
  rw [hQpl, h1, hn, ht1]
  congr 1
  apply V3.ext' <;> simp only [smul] <;> ring

#print axioms Polygon.mk?_pts_of_valid
#print axioms Polygon.neg?_of_valid
#print axioms Polygon.neg?_neg?_pts
#print axioms Polygon.mk?_triangle
end G3D
