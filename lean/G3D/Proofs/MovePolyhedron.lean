import G3D.Proofs.CtorPolyhedron

/-! C07, `ConvexPolyhedron.move` on a `Polyhedron.Valid` body: the call does not raise (Euler's formula assumed in
    the constructor's counting), the receiver after the call and the returned object coincide and are the translate:
    `Valid`, every face is the translate of the face rebuilt from its own vertex cycle (same cycle, plane through the
    first vertex, normal a positive multiple, centre the vertex mean), vertex / edge lists are the translated lists
    of the face vertices / face edges, membership is the translated membership and the volume is unchanged. -/
namespace G3D
open V3

/-! ### translating vertex and edge lists -/
theorem add_injective (v : V3) : Function.Injective (fun p : V3 => add p v) :=
  fun _ _ h => add_right_cancel' h

theorem addPt_map (φ : V3 → V3) (hφ : Function.Injective φ) (acc : List V3) (p : V3) :
    addPt (acc.map φ) (φ p) = (addPt acc p).map φ := by
  unfold addPt
  by_cases h : p ∈ acc
  · rw [if_pos h, if_pos (List.mem_map_of_mem h)]
  · have h' : φ p ∉ acc.map φ := by
      intro hm
      obtain ⟨q, hq, hqp⟩ := List.mem_map.mp hm
      exact h (hφ hqp ▸ hq)
    rw [if_neg h, if_neg h']; simp

theorem foldl_addPt_map (φ : V3 → V3) (hφ : Function.Injective φ) : ∀ (l acc : List V3),
    (l.map φ).foldl addPt (acc.map φ) = (l.foldl addPt acc).map φ := by
  intro l
  induction l with
  | nil => intro acc; rfl
  | cons a l ih => intro acc; simp only [List.map_cons, List.foldl_cons, addPt_map φ hφ, ih]

theorem collectVerts_map (φ : V3 → V3) (hφ : Function.Injective φ) (ψ : Polygon → Polygon) (fs : List Polygon)
    (hψ : ∀ f ∈ fs, (ψ f).pts = f.pts.map φ) : collectVerts (fs.map ψ) = (collectVerts fs).map φ := by
  unfold collectVerts
  have gen : ∀ (l : List Polygon) (acc : List V3), (∀ f ∈ l, (ψ f).pts = f.pts.map φ) →
      (l.map ψ).foldl (fun acc f => f.pts.foldl addPt acc) (acc.map φ) =
      (l.foldl (fun acc f => f.pts.foldl addPt acc) acc).map φ := by
    intro l
    induction l with
    | nil => intro acc _; rfl
    | cons g l ih =>
      intro acc h
      simp only [List.map_cons, List.foldl_cons]
      rw [h g (by simp), foldl_addPt_map φ hφ]
      exact ih _ (fun f hf => h f (List.mem_cons_of_mem _ hf))
  exact gen fs [] hψ

/-- the translate of a stored segment (`Segment.move`) -/
def segT (v : V3) (s : Seg) : Seg := (s.move v).1

theorem segT_mk' (v a b : V3) : segT v (Seg.mk' a b) = Seg.mk' (add a v) (add b v) := rfl

theorem beq_add_right (x a v : V3) : (add x v == add a v) = (x == a) := by
  by_cases h : x = a
  · subst h; simp
  · have h' : add x v ≠ add a v := fun e => h (add_right_cancel' e)
    rw [beq_eq_false_iff_ne.mpr h', beq_eq_false_iff_ne.mpr h]

theorem segT_same (v : V3) (x s : Seg) : (segT v x).same (segT v s) = x.same s := by
  simp only [segT, Seg.move, Seg.mk', Seg.same, beq_add_right]

theorem addSeg_map (v : V3) (acc : List Seg) (s : Seg) :
    addSeg (acc.map (segT v)) (segT v s) = (addSeg acc s).map (segT v) := by
  unfold addSeg
  have : (acc.map (segT v)).any (fun x => x.same (segT v s)) = acc.any (fun x => x.same s) := by
    rw [List.any_map]
    congr 1
    funext x
    exact segT_same v x s
  rw [this]
  split <;> simp

theorem foldl_addSeg_map (v : V3) : ∀ (ss acc : List Seg),
    (ss.map (segT v)).foldl addSeg (acc.map (segT v)) = (ss.foldl addSeg acc).map (segT v) := by
  intro ss
  induction ss with
  | nil => intro acc; rfl
  | cons s ss ih => intro acc; simp only [List.map_cons, List.foldl_cons, addSeg_map, ih]

theorem segs_translate (v : V3) (f f' : Polygon) (h : f'.pts = f.pts.map (fun p => add p v)) :
    f'.segs = f.segs.map (segT v) := by
  unfold Polygon.segs
  rw [h, closedPairs_map, List.map_map, List.map_map]
  rfl

theorem edgesOf_map (v : V3) (ψ : Polygon → Polygon) (fs : List Polygon)
    (hψ : ∀ f ∈ fs, (ψ f).pts = f.pts.map (fun p => add p v)) :
    edgesOf (fs.map ψ) [] = (edgesOf fs []).map (segT v) := by
  unfold edgesOf
  have gen : ∀ (l : List Polygon) (acc : List Seg), (∀ f ∈ l, (ψ f).pts = f.pts.map (fun p => add p v)) →
      (l.map ψ).foldl (fun acc f => f.segs.foldl addSeg acc) (acc.map (segT v)) =
      (l.foldl (fun acc f => f.segs.foldl addSeg acc) acc).map (segT v) := by
    intro l
    induction l with
    | nil => intro acc _; rfl
    | cons g l ih =>
      intro acc h
      simp only [List.map_cons, List.foldl_cons]
      rw [segs_translate v g (ψ g) (h g (by simp)), foldl_addSeg_map]
      exact ih _ (fun f hf => h f (List.mem_cons_of_mem _ hf))
  exact gen fs [] hψ

/-! ### one face -/
/-- `ConvexPolygon(f.points)`: the polygon rebuilt from the stored vertex cycle (`f` itself if that raised) -/
def rebuild (f : Polygon) : Polygon :=
  match Polygon.mk? f.pts with
  | .ok Q => Q
  | .error _ => f

theorem Polygon.translate_valid (Q : Polygon) (hv : Q.Valid) (v : V3) : (Q.translate v).Valid := by
  obtain ⟨p0, p1, p2, rest, hp, hpl, htp⟩ := hv
  refine ⟨add p0 v, add p1 v, add p2 v, rest.map (fun p => add p v), by simp [Polygon.translate, hp], ?_, ?_⟩
  · intro p' hp'
    simp only [Polygon.translate, List.mem_map] at hp'
    obtain ⟨p, hpm, rfl⟩ := hp'
    have := hpl p hpm
    simpa only [Polygon.translate, G3D.inPlane, sub_add_add] using this
  · exact triplesPos_map (fun p => add p v) Q.plane.n Q.plane.n
      (fun a b c h => by rw [orient_translate]; exact h) Q.pts htp

/-- everything about the face `cp.move(v)` returns for a valid face `f` -/
theorem moved_face (f : Polygon) (hf : f.Valid) (hcf : G3D.inPlane f.plane.n f.plane.p f.center = true) (v : V3) :
    (f.move v).2 = .ok ((rebuild f).translate v) ∧ ((rebuild f).translate v).Valid ∧
    G3D.inPlane ((rebuild f).translate v).plane.n ((rebuild f).translate v).plane.p
      ((rebuild f).translate v).center = true ∧
    ((rebuild f).translate v).pts = f.pts.map (fun p => add p v) ∧
    ((rebuild f).translate v).center = add (meanV f.pts) v ∧
    ∃ t : Rat, 0 < t ∧ ((rebuild f).translate v).plane.n = smul t f.plane.n ∧
      (∀ x, ((rebuild f).translate v).side (add x v) = t * f.side x) ∧
      (∀ c, dot (sub ((rebuild f).translate v).plane.p (add c v)) ((rebuild f).translate v).plane.n =
        t * (- f.side c)) ∧
      (∀ c, dot (sub (add c v) (((rebuild f).translate v).pts.headD zero)) ((rebuild f).translate v).plane.n =
        t * dot (sub c (f.pts.headD zero)) f.plane.n) := by
  obtain ⟨Q, q0, rest, hp, hQ, hvQ, hQpl, hQc, ⟨t, ht, hQn⟩, hQp⟩ := Polygon.mk?_pts_of_valid f hf false
  simp only [Bool.false_eq_true, if_false] at hQn hQp
  have hreb : rebuild f = Q := by unfold rebuild; rw [hQ]
  have hret : (f.move v).2 = .ok (Q.translate v) := by
    rw [Polygon.move_returned f hf.good v, hQ]; rfl
  have hvQ' := hvQ
  obtain ⟨_, _, _, _, _, hplQ, _⟩ := hvQ'
  have hfV := hf
  obtain ⟨_, _, _, _, _, hplf, _⟩ := hfV
  have hne : f.pts ≠ [] := by rw [hp]; simp
  have hcQ : G3D.inPlane Q.plane.n Q.plane.p Q.center = true := by
    have := meanV_inplane Q.plane.n Q.plane.p f.pts hne (by
      intro p hpm
      have hpq : p ∈ Q.pts := by rw [hQp]; exact hpm
      simpa [G3D.inPlane] using hplQ p hpq)
    rw [hQc]; simpa [G3D.inPlane] using this
  have hq0f : q0 ∈ f.pts := by rw [hp]; simp
  obtain ⟨hside, htest⟩ := side_proportional f Q t hQn hcf hcQ q0 (hplf _ hq0f) (hplQ _ (by rw [hQp]; exact hq0f))
  rw [hreb]
  refine ⟨hret, Polygon.translate_valid Q hvQ v, ?_, by simp only [Polygon.translate, hQp],
    by simp only [Polygon.translate, hQc], t, ht, by simp only [Polygon.translate, hQn], ?_, ?_, ?_⟩
  · simpa only [Polygon.translate, G3D.inPlane, sub_add_add] using hcQ
  · intro x
    rw [← hside]
    simp only [Polygon.side, Polygon.translate, sub_add_add]
  · intro c
    have := htest c
    rw [f.side_eq_neg_planeTest hcf] at this
    rw [← this]
    simp only [Polygon.translate, sub_add_add]
  · intro c
    simp only [Polygon.translate, hQp, hp, List.map_cons, List.headD_cons, sub_add_add, hQn]
    simp only [dot, smul]; ring

/-- the volume of the pyramid over the moved face with the moved apex -/
theorem moved_pyramidVolume (f : Polygon) (hf : f.Valid) (hcf : G3D.inPlane f.plane.n f.plane.p f.center = true)
    (hctr : ∀ e ∈ closedPairs f.pts, 0 ≤ orient f.plane.n e.1 e.2 f.center) (v c : V3) :
    pyramidVolume ((rebuild f).translate v) (add c v) = pyramidVolume f c := by
  obtain ⟨_, _, _, hpts, hcen, t, ht, hn, _, _, hhead⟩ := moved_face f hf hcf v
  have hfV := hf
  obtain ⟨p0, p1, p2, rest, hp, hpl, htp⟩ := hfV
  have harea : ((rebuild f).translate v).areaNum = t * f.areaNum := by
    unfold Polygon.areaNum
    rw [hn, hcen, hpts, closedPairs_map, List.map_map]
    have h1 : ((fun e : V3 × V3 => triNum (smul t f.plane.n) (add (meanV f.pts) v) e.1 e.2) ∘
        fun e : V3 × V3 => (add e.1 v, add e.2 v)) =
        fun e => t * triNum f.plane.n (meanV f.pts) e.1 e.2 := by
      funext e; exact triNum_translate_smul t (le_of_lt ht) _ _ _ _ _
    rw [h1, list_sum_map_mul_left]
    congr 1
    rw [fan_abs_eq_shoelace f.plane.n f.center f.pts hctr]
    rw [hp] at hpl htp ⊢
    exact polygon_area_shoelace f.plane.n f.plane.p p0 p1 p2 rest hpl htp
  have hheight : pyramidHeightNum ((rebuild f).translate v) (add c v) = t * pyramidHeightNum f c := by
    unfold pyramidHeightNum
    rw [hhead c, mul_comm t, ← absQ_mul_nonneg _ t (le_of_lt ht)]
    exact mul_comm _ _
  have hN : normSq ((rebuild f).translate v).plane.n = t * t * normSq f.plane.n := by
    rw [hn]; simp only [normSq, dot, smul]; ring
  unfold pyramidVolume
  rw [harea, hheight, hN]
  have htt : t * t ≠ 0 := ne_of_gt (mul_pos ht ht)
  have e1 : t * pyramidHeightNum f c * (t * f.areaNum) = t * t * (pyramidHeightNum f c * f.areaNum) := by ring
  have e2 : 6 * (t * t * normSq f.plane.n) = t * t * (6 * normSq f.plane.n) := by ring
  rw [e1, e2, mul_div_mul_left _ _ htt]

/-! ### the body -/
/-- the state `ConvexPolyhedron.move(v)` leaves behind (and returns) on a valid body -/
def Polyhedron.moved (B : Polyhedron) (v : V3) : Polyhedron :=
  ⟨B.faces.map (fun f => (rebuild f).translate v),
   (collectVerts B.faces).map (fun p => add p v),
   (edgesOf B.faces []).map (segT v),
   B.faces.map (fun f => ((rebuild f).translate v, add (meanV (collectVerts B.faces)) v)),
   add (meanV (collectVerts B.faces)) v⟩

/-- **C07 for ConvexPolyhedron.**  `move` on a `Valid` body whose face vertices / face edges / faces satisfy Euler's
    formula (ASSUMED, in the constructor's counting) does not raise; receiver-after and returned object are both
    `B.moved v`. -/
theorem Polyhedron.move_valid_ok (B : Polyhedron) (hV : B.Valid)
    (hEuler : ((collectVerts B.faces).length : Int) - (edgesOf B.faces []).length + B.faces.length = 2) (v : V3) :
    B.move v = .ok (B.moved v, B.moved v) := by
  set ψ : Polygon → Polygon := fun f => (rebuild f).translate v with hψ
  set faces' := B.faces.map ψ with hfaces'
  set c := meanV (collectVerts B.faces) with hc
  have hfacts : ∀ f ∈ B.faces, _ := fun f hf => moved_face f (hV.faces_valid f hf) (hV.center_in_plane f hf) v
  have hpts : ∀ f ∈ B.faces, (ψ f).pts = f.pts.map (fun p => add p v) := fun f hf => (hfacts f hf).2.2.2.1
  have hint := hV.mean_interior
  -- step 1: the face moves
  have h1 : B.faces.mapM (fun f => (f.move v).2) = .ok faces' :=
    mapM_ok_of_forall _ ψ B.faces (fun f hf => (hfacts f hf).1)
  -- step 2: vertices, edges, centre
  have hverts : collectVerts faces' = (collectVerts B.faces).map (fun p => add p v) :=
    collectVerts_map _ (add_injective v) ψ B.faces hpts
  have hedgesOf : edgesOf faces' [] = (edgesOf B.faces []).map (segT v) := edgesOf_map v ψ B.faces hpts
  have hvalid' : ∀ f' ∈ faces', f'.Valid := by
    intro f' hf'
    obtain ⟨f, hf, rfl⟩ := List.mem_map.mp hf'
    exact (hfacts f hf).2.1
  have h2 : collectEdges faces' [] = .ok ((edgesOf B.faces []).map (segT v)) := by
    rw [← hedgesOf]; exact collectEdges_of_valid faces' hvalid'
  have hne0 : collectVerts B.faces ≠ [] := by
    obtain ⟨f0, hf0⟩ := List.exists_mem_of_ne_nil _ hV.nonempty
    obtain ⟨p0, _, _, _, hp, _, _⟩ := hV.faces_valid f0 hf0
    have : p0 ∈ collectVerts B.faces := (mem_collectVerts _ p0).mpr ⟨f0, hf0, by rw [hp]; simp⟩
    intro h0; rw [h0] at this; cases this
  have hv : ¬ (collectVerts faces').length = 0 := by
    rw [hverts, List.length_map]
    intro h0; exact hne0 (List.length_eq_zero_iff.mp h0)
  have hc' : meanV (collectVerts faces') = add c v := by
    rw [hverts]; exact meanV_translate v _ hne0
  -- step 3: the loop
  have htest : ∀ f' ∈ faces', 0 < dot (sub f'.plane.p (add c v)) f'.plane.n := by
    intro f' hf'
    obtain ⟨f, hf, rfl⟩ := List.mem_map.mp hf'
    obtain ⟨_, _, _, _, _, t, ht, _, _, hts, _⟩ := hfacts f hf
    rw [hts c]
    exact mul_pos ht (by have := hint f hf; linarith)
  have h3 : faces'.mapM (moveFace (add c v)) = .ok (faces'.map (fun f => (f, add c v))) := by
    apply mapM_ok_of_forall
    intro f' hf'
    have hpos := htest f' hf'
    unfold moveFace
    rw [if_neg (not_lt.mpr (le_of_lt hpos)), if_neg (Plane.not_contains_of_test_ne _ _ (ne_of_gt hpos))]
  have h4 : ¬ (!faces'.all (fun f => decide (0 ≤ dot (sub f.plane.p (add c v)) f.plane.n))) = true := by
    have : faces'.all (fun f => decide (0 ≤ dot (sub f.plane.p (add c v)) f.plane.n)) = true := by
      rw [List.all_eq_true]
      intro f' hf'
      exact decide_eq_true (le_of_lt (htest f' hf'))
    rw [this]; simp
  have heul : ((collectVerts faces').length : Int) - ((edgesOf B.faces []).map (segT v)).length + faces'.length = 2 := by
    rw [hverts, List.length_map, List.length_map, hfaces', List.length_map]; exact hEuler
  have h5 : ¬ (((collectVerts faces').length : Int) - ((edgesOf B.faces []).map (segT v)).length + faces'.length != 2)
      = true := by
    rw [heul]; simp
  -- step 4: the fresh constructor call
  have hflip : ∀ f' ∈ faces', flipOf (add c v) f' = f' := by
    intro f' hf'
    unfold flipOf
    rw [if_neg (not_lt.mpr (le_of_lt (htest f' hf')))]
  have hmk : Polyhedron.mk? faces' = .ok ⟨faces', collectVerts faces', (edgesOf B.faces []).map (segT v),
      faces'.map (fun f => (f, add c v)), add c v⟩ := by
    have := Polyhedron.mk?_intro faces' (fun f hf => (hvalid' f hf).edges_distinct)
      (by intro h0; apply hv; rw [h0]; rfl)
      (by
        intro g hg
        rw [hc', hflip g hg]
        have hpos := htest g hg
        have := orientFace_intro (add c v) g (Plane.not_contains_of_test_ne _ _ (ne_of_gt hpos))
          (fun h => absurd h (not_lt.mpr (le_of_lt hpos)))
        rw [hflip g hg] at this
        exact this)
      (by intro g hg; rw [hc', hflip g hg]; exact le_of_lt (htest g hg))
      (by rw [hedgesOf]; exact heul)
    rw [this, hc', hedgesOf]
    congr 2
    rw [List.map_congr_left hflip, List.map_id']
  unfold Polyhedron.move
  simp only [bind, Except.bind, h1, liftC2, h2, if_neg hv, hc', h3, if_neg h4, if_neg h5, hmk, pure, Except.pure]
  have hverts2 : collectVerts (B.faces.map (fun f => (rebuild f).translate v)) =
      (collectVerts B.faces).map (fun p => add p v) := hverts
  simp only [Polyhedron.moved, hfaces', List.map_map, Function.comp_def, hψ, hc, hverts2]
#print axioms Polyhedron.move_valid_ok

/-- the moved body is `Valid`, its faces are the moved faces, membership is translated -/
theorem Polyhedron.moved_valid (B : Polyhedron) (hV : B.Valid) (v : V3) :
    (B.moved v).Valid ∧ (∀ x, (B.moved v).contains (add x v) = B.contains x) ∧
    (∀ f' ∈ (B.moved v).faces, f'.side (B.moved v).center < 0) ∧
    (B.moved v).center = meanV (B.moved v).verts := by
  have hfacts : ∀ f ∈ B.faces, _ := fun f hf => moved_face f (hV.faces_valid f hf) (hV.center_in_plane f hf) v
  have hint := hV.mean_interior
  have hne0 : collectVerts B.faces ≠ [] := by
    obtain ⟨f0, hf0⟩ := List.exists_mem_of_ne_nil _ hV.nonempty
    obtain ⟨p0, _, _, _, hp, _, _⟩ := hV.faces_valid f0 hf0
    have : p0 ∈ collectVerts B.faces := (mem_collectVerts _ p0).mpr ⟨f0, hf0, by rw [hp]; simp⟩
    intro h0; rw [h0] at this; cases this
  have hinner : ∀ f' ∈ (B.moved v).faces, f'.side (B.moved v).center < 0 := by
    intro f' hf'
    obtain ⟨f, hf, rfl⟩ := List.mem_map.mp hf'
    obtain ⟨_, _, _, _, _, t, ht, _, hside, _, _⟩ := hfacts f hf
    show ((rebuild f).translate v).side (add (meanV (collectVerts B.faces)) v) < 0
    rw [hside]
    exact mul_neg_of_pos_of_neg ht (hint f hf)
  refine ⟨⟨?_, ?_, ?_, ?_, ?_, ?_, ⟨(B.moved v).center, hinner⟩⟩, ?_, hinner, ?_⟩
  · intro h0
    have : (B.moved v).faces.length = 0 := by rw [h0]; rfl
    simp only [Polyhedron.moved, List.length_map] at this
    exact hV.nonempty (List.length_eq_zero_iff.mp this)
  · intro f' hf'
    obtain ⟨f, hf, rfl⟩ := List.mem_map.mp hf'
    exact (hfacts f hf).2.1
  · intro f' hf'
    obtain ⟨f, hf, rfl⟩ := List.mem_map.mp hf'
    exact (hfacts f hf).2.2.1
  · intro f' hf' p hp
    obtain ⟨f, hf, rfl⟩ := List.mem_map.mp hf'
    rw [(hfacts f hf).2.2.2.1] at hp
    obtain ⟨q, hq, rfl⟩ := List.mem_map.mp hp
    exact List.mem_map.mpr ⟨q, (mem_collectVerts _ q).mpr ⟨f, hf, hq⟩, rfl⟩
  · intro f' hf' w hw
    obtain ⟨f, hf, rfl⟩ := List.mem_map.mp hf'
    obtain ⟨u, hu, rfl⟩ := List.mem_map.mp hw
    obtain ⟨_, _, _, _, _, t, ht, _, hside, _, _⟩ := hfacts f hf
    obtain ⟨g, hg, hug⟩ := (mem_collectVerts _ u).mp hu
    have h1 : f.side u ≤ 0 := hV.verts_inside f hf u (hV.pts_sub g hg u hug)
    show ((rebuild f).translate v).side (add u v) ≤ 0
    rw [hside]
    exact mul_nonpos_of_nonneg_of_nonpos (le_of_lt ht) h1
  · show ClosedSurface (((B.faces.map (fun f => (rebuild f).translate v))).map (·.pts))
    have hde : dirEdges ((B.faces.map (fun f => (rebuild f).translate v)).map (·.pts)) =
        (dirEdges (B.faces.map (·.pts))).map (fun e => (add e.1 v, add e.2 v)) := by
      have gen : ∀ l : List Polygon, (∀ f ∈ l, ((rebuild f).translate v).pts = f.pts.map (fun p => add p v)) →
          dirEdges ((l.map (fun f => (rebuild f).translate v)).map (·.pts)) =
          (dirEdges (l.map (·.pts))).map (fun e => (add e.1 v, add e.2 v)) := by
        intro l
        induction l with
        | nil => intro _; rfl
        | cons g l ih =>
          intro h
          simp only [dirEdges, List.map_cons, List.flatMap_cons, List.map_append] at ih ⊢
          rw [h g (by simp), closedPairs_map, ih (fun f hf => h f (List.mem_cons_of_mem _ hf))]
      exact gen B.faces (fun f hf => (hfacts f hf).2.2.2.1)
    unfold ClosedSurface
    rw [hde, List.map_map]
    have := (hV.closed.map (fun e : V3 × V3 => (add e.1 v, add e.2 v)))
    rw [List.map_map] at this
    exact this
  · intro x
    rw [Bool.eq_iff_iff, Polyhedron.contains_iff_side, Polyhedron.contains_iff_side]
    constructor
    · intro h f hf
      obtain ⟨_, _, _, _, _, t, ht, _, hside, _, _⟩ := hfacts f hf
      have := h _ (List.mem_map.mpr ⟨f, hf, rfl⟩)
      rw [hside] at this
      by_contra hcon
      have := mul_pos ht (not_le.mp hcon)
      linarith
    · intro h f' hf'
      obtain ⟨f, hf, rfl⟩ := List.mem_map.mp hf'
      obtain ⟨_, _, _, _, _, t, ht, _, hside, _, _⟩ := hfacts f hf
      rw [hside]
      exact mul_nonpos_of_nonneg_of_nonpos (le_of_lt ht) (h f hf)
  · show add (meanV (collectVerts B.faces)) v = meanV ((collectVerts B.faces).map (fun p => add p v))
    exact (meanV_translate v _ hne0).symm
#print axioms Polyhedron.moved_valid

/-- volume of the moved body: the sum of the pyramids over the ORIGINAL faces with apex the vertex mean.
    `hctr`: every stored face centre passes the edge tests of its face (true when it is the vertex mean). -/
theorem Polyhedron.moved_volume (B : Polyhedron) (hV : B.Valid)
    (hctr : ∀ f ∈ B.faces, ∀ e ∈ closedPairs f.pts, 0 ≤ orient f.plane.n e.1 e.2 f.center) (v : V3) :
    (B.moved v).volume = (B.faces.map (fun f => pyramidVolume f (meanV (collectVerts B.faces)))).sum := by
  unfold Polyhedron.volume
  simp only [Polyhedron.moved, List.map_map, Function.comp_def]
  congr 1
  apply List.map_congr_left
  intro f hf
  exact moved_pyramidVolume f (hV.faces_valid f hf) (hV.center_in_plane f hf) (hctr f hf) v _

/-- **C07, all in one** for a body in the state the constructor / a previous `move` leaves behind
    (`hverts`, `hcen`, `hpyr`: the cached fields are the ones computed from the faces): `move` succeeds, the
    result is `Valid`, membership is translated, the volume is unchanged, the returned object is the receiver. -/
theorem Polyhedron.move_valid (B : Polyhedron) (hV : B.Valid)
    (hEuler : ((collectVerts B.faces).length : Int) - (edgesOf B.faces []).length + B.faces.length = 2)
    (hcen : B.center = meanV (collectVerts B.faces))
    (hpyr : B.pyramids = B.faces.map (fun f => (f, B.center)))
    (hctr : ∀ f ∈ B.faces, ∀ e ∈ closedPairs f.pts, 0 ≤ orient f.plane.n e.1 e.2 f.center) (v : V3) :
    ∃ B', B.move v = .ok (B', B') ∧ B'.Valid ∧ (∀ x, B'.contains (add x v) = B.contains x) ∧
      B'.volume = B.volume ∧ B'.center = add B.center v ∧
      B'.verts = (collectVerts B.faces).map (fun p => add p v) ∧
      B'.edges = (edgesOf B.faces []).map (segT v) ∧
      List.Forall₂ (fun f f' => f'.Valid ∧ f'.pts = f.pts.map (fun p => add p v) ∧
        ∃ t : Rat, 0 < t ∧ f'.plane.n = smul t f.plane.n) B.faces B'.faces := by
  obtain ⟨hval, hcon, _, _⟩ := B.moved_valid hV v
  refine ⟨B.moved v, B.move_valid_ok hV hEuler v, hval, hcon, ?_, by rw [hcen]; rfl, rfl, rfl, ?_⟩
  · rw [B.moved_volume hV hctr v]
    unfold Polyhedron.volume
    rw [hpyr, List.map_map, hcen]
    rfl
  · apply Forall₂.map_self
    intro f hf
    obtain ⟨_, h2, _, h4, _, t, ht, hn, _⟩ := moved_face f (hV.faces_valid f hf) (hV.center_in_plane f hf) v
    exact ⟨h2, h4, t, ht, hn⟩
#print axioms Polyhedron.move_valid

/-- the same properties for ANY successful `move` of a valid body (no Euler hypothesis: success implies it) -/
theorem Polyhedron.move_ok_valid (B : Polyhedron) (hV : B.Valid) (v : V3) (B' R : Polyhedron)
    (h : B.move v = .ok (B', R)) :
    R = B' ∧ B' = B.moved v ∧ B'.Valid ∧ (∀ x, B'.contains (add x v) = B.contains x) := by
  obtain ⟨hF, hverts, hedges, _, hcen, hpyr, _, heul, _, hR⟩ := Polyhedron.move_ok B v B' R h
  have hfacts : ∀ f ∈ B.faces, _ := fun f hf => moved_face f (hV.faces_valid f hf) (hV.center_in_plane f hf) v
  have hfaces : B'.faces = B.faces.map (fun f => (rebuild f).translate v) := by
    apply forall₂_eq_map
    exact Forall₂.imp_mem hF (fun f hf f' _ hff' => by
      have := (hfacts f hf).1
      rw [this] at hff'
      cases hff'; rfl)
  have hpts : ∀ f ∈ B.faces, ((rebuild f).translate v).pts = f.pts.map (fun p => add p v) :=
    fun f hf => (hfacts f hf).2.2.2.1
  have hv' : B'.verts = (collectVerts B.faces).map (fun p => add p v) := by
    rw [hverts, hfaces]; exact collectVerts_map _ (add_injective v) _ B.faces hpts
  have he' : B'.edges = (edgesOf B.faces []).map (segT v) := by
    rw [hfaces] at hedges
    obtain ⟨hE, _⟩ := (collectEdges_ok_iff _ [] _).mp hedges
    rw [hE]; exact edgesOf_map v _ B.faces hpts
  have hne0 : collectVerts B.faces ≠ [] := by
    obtain ⟨f0, hf0⟩ := List.exists_mem_of_ne_nil _ hV.nonempty
    obtain ⟨p0, _, _, _, hp, _, _⟩ := hV.faces_valid f0 hf0
    have : p0 ∈ collectVerts B.faces := (mem_collectVerts _ p0).mpr ⟨f0, hf0, by rw [hp]; simp⟩
    intro h0; rw [h0] at this; cases this
  have hc' : B'.center = add (meanV (collectVerts B.faces)) v := by
    rw [hcen, hv']; exact meanV_translate v _ hne0
  have hB' : B' = B.moved v := by
    cases B'
    simp only at hfaces hv' he' hc' hpyr
    simp only [Polyhedron.moved, hfaces, hv', he', hc', hpyr, List.map_map, Function.comp_def]
  obtain ⟨hval, hcon, _, _⟩ := B.moved_valid hV v
  exact ⟨hR, hB', by rw [hB']; exact hval, by rw [hB']; exact hcon⟩
#print axioms Polyhedron.move_ok_valid
end G3D
