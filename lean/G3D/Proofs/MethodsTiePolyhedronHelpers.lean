import G3D.Extracted.Mpolyhedron
import G3D.Proofs.MethodsTiePolyhedronShared
/-! # Tie, group `mpolyhedron`: `_get_center_point`, `_check_normal`, `_euler_check` (C09).  Own module because BOTH `__init__` (`MethodsTiePolyhedronCtor`) and `move` (`MethodsTiePolyhedronMove`) call these three methods: that coupling is real. -/
set_option linter.unusedSimpArgs false
set_option linter.unusedVariables false
set_option linter.style.nameCheck false
set_option linter.unusedTactic false
set_option linter.unreachableTactic false
namespace G3D.Tie
open V3 PyRt Extracted

theorem m_ConvexPolyhedron__get_center_point_eq (self : Self) (vs : List V3) (h : self.f_point_set = some (Val.ptSet vs)) :
    m_ConvexPolyhedron__get_center_point self =
      if vs = [] then .error (.ctor .zeroDiv) else .ok (.obj (ptObj (meanV vs))) := by
  unfold m_ConvexPolyhedron__get_center_point
  simp only [h, pyrt, pyFld, Val.ptSet, List.map_map, List.length_map]
  rw [show ((Val.int 0, Val.int 0, Val.int 0) : Val × Val × Val) = ctrRepr none from rfl]
  rw [forIn_repr (Val.obj ∘ ptObj) ctrRepr vs _ (fun p o => .ok (.yield (ctrAdd o p)))]
  · rw [forIn_yield]
    cases vs with
    | nil => simp [ctrRepr, pyDiv, Val.asRat?]
    | cons p ps =>
      have hn : ((ps.length : Rat) + 1) ≠ 0 := by positivity
      simp only [List.foldl_cons, ctrAdd, ctrFold]
      simp [ctrRepr, pyDiv, Val.asRat?, pyPoint3, hn, meanV, sumV, zero_add', smul, ptObj]
      refine ⟨?_, ?_, ?_⟩ <;> ring
  · intro p _ o
    exact center_loop_body p o

theorem m_ConvexPolyhedron__check_normal_eq (self : Self) (fs : List Polygon) (c : V3)
    (h1 : self.f_convex_polygons = some (.seq (fs.map Obj.polygon))) (h2 : self.f_center_point = some (.obj (ptObj c))) :
    m_ConvexPolyhedron__check_normal self = .ok (.bool (fs.all (outward c))) := by
  unfold m_ConvexPolyhedron__check_normal
  simp only [h1, h2, pyrt, pyFld, List.map_map]
  rw [forIn_repr (Val.obj ∘ Obj.polygon) (fun s : Option Val × Unit => s) fs _
    (fun f _ => if (!outward c f) = true then .ok (.done (some (Val.bool false), ())) else .ok (.yield (none, ())))]
  · rw [forIn_return_false fs (fun f => !outward c f)]
    rw [List.all_eq_not_any_not]
    cases (fs.any fun f => !outward c f) <;> simp
  · intro f _ s
    by_cases ho : dot (sub f.plane.p c) f.plane.n < 0
    · have : outward c f = false := by simp [outward, ho]
      simp [Function.comp, pyrt, pyAttr_p, pyAttr_n, ptObj, pyVector, pyMulM, pyCmpTol, tolEval, Val.asRat?, Val.truthy, ho, this,
        ForInStep.map']
    · have : outward c f = true := by simp [outward, not_lt.mp ho]
      simp [Function.comp, pyrt, pyAttr_p, pyAttr_n, ptObj, pyVector, pyMulM, pyCmpTol, tolEval, Val.asRat?, Val.truthy, ho, this,
        ForInStep.map']

theorem m_ConvexPolyhedron__euler_check_eq (self : Self) (fs vs es : List Obj)
    (h1 : self.f_convex_polygons = some (.seq fs)) (h2 : self.f_point_set = some (.set vs)) (h3 : self.f_segment_set = some (.set es)) :
    m_ConvexPolyhedron__euler_check self = .ok (.bool ((vs.length : Int) - es.length + fs.length == 2)) := by
  unfold m_ConvexPolyhedron__euler_check
  simp [h1, h2, h3, pyrt, pyFld, pySub, pyAdd, pyEqM, pyEq]

/-- `_get_center_point()`, `_check_normal()`, `_euler_check()` on a polyhedron object -/
theorem m_ConvexPolyhedron__get_center_point_eq' (B : Polyhedron) :
    m_ConvexPolyhedron__get_center_point (Self.ofPolyhedron B) =
      if B.verts = [] then .error (.ctor .zeroDiv) else .ok (.obj (ptObj (meanV B.verts))) :=
  m_ConvexPolyhedron__get_center_point_eq _ B.verts rfl

theorem m_ConvexPolyhedron__check_normal_eq' (B : Polyhedron) :
    m_ConvexPolyhedron__check_normal (Self.ofPolyhedron B) = .ok (.bool (B.faces.all (outward B.center))) :=
  m_ConvexPolyhedron__check_normal_eq _ B.faces B.center rfl rfl

theorem m_ConvexPolyhedron__euler_check_eq' (B : Polyhedron) :
    m_ConvexPolyhedron__euler_check (Self.ofPolyhedron B) =
      .ok (.bool ((B.verts.length : Int) - B.edges.length + B.faces.length == 2)) := by
  have := m_ConvexPolyhedron__euler_check_eq (Self.ofPolyhedron B) (B.faces.map Obj.polygon) (B.verts.map ptObj) (B.edges.map sgObj)
    rfl rfl rfl
  simpa using this

end G3D.Tie
