import G3D.Extracted.Khash
import G3D.Proofs.KhashLemmas
/-! # khash, `Plane.__hash__`  (C08, C19)
    `G3D.Extracted.impl_hash_*` are regenerated on every run (tools/extract_khash.py, engine tools/khash_engine.py on tools/kernels_engine.py):
    the REAL `__hash__` bodies are run on symbolic numbers with `hash` / `round` / `get_sig_figures` / `get_eps` shimmed; `H` is the
    uninterpreted hash of a tuple, `rnd` / `rndI` the uninterpreted `round(., get_sig_figures())` on numbers / integers, `sig` / `neg`
    the uninterpreted answers to `abs(c) > get_eps()` / `c < 0`.  Every statement holds FOR ALL H, rnd, rndI.  Each kernel has its own
    `section`: when the walk of ONE kernel fails the generated file holds only the marker `impl_<kernel>_EXTRACTION_FAILED` for it
    and exactly the theorems of that section stop compiling.  The reference functions (`…Ref`, `…OfKey`) and their reading through
    the hash keys of `Model/HashKey.lean` are hand-written in `Proofs/KhashLemmas.lean`.
    The body is extracted as a function of the ATTRIBUTES it reads (the point `p` and the stored normal `n`); every constructed
    Plane stores `n = normale.normalized()` (`unitR`; pinned by the kernel `planeContainsN` of the group kmemberr). -/
namespace G3D.KTie.Khash
open G3D G3D.Extracted G3D.KTie

section hash_Plane
/-- the comparisons the body asks: `abs(c) > get_eps()` (the LIVE tolerance) and `c < 0`; the seven paths of the loop
    `for c in n: if abs(c) > eps: (if c < 0: flip); break` -/
theorem hash_Plane_paths :
    impl_hash_Plane_oracles = [("sig", "abs(R) > eps"), ("neg", "R < 0")] ∧
    impl_hash_Plane_paths = [[("abs(R) > eps", true), ("R < 0", true)], [("abs(R) > eps", true), ("R < 0", false)],
      [("abs(R) > eps", false), ("abs(R) > eps", true), ("R < 0", true)],
      [("abs(R) > eps", false), ("abs(R) > eps", true), ("R < 0", false)],
      [("abs(R) > eps", false), ("abs(R) > eps", false), ("abs(R) > eps", true), ("R < 0", true)],
      [("abs(R) > eps", false), ("abs(R) > eps", false), ("abs(R) > eps", true), ("R < 0", false)],
      [("abs(R) > eps", false), ("abs(R) > eps", false), ("abs(R) > eps", false)]] := by decide

/-- under the exact reading of the comparisons the extracted decision tree IS the reference: the sign of the first non-zero
    component of n applied to n and to d = n·p, all four rounded, tag "Plane" -/
theorem hash_Plane_tie (H : HFun) (rnd : ℝ → ℝ) (p n : RVec) :
    impl_hash_Plane H rnd sigE negE p n = planeHashRef H rnd p n := by
  simp only [impl_hash_Plane, planeHashRef, sgnF_cases, sigE, negE, decide_eq_true_eq, RVec.dot]
  split_ifs <;> ring_nf

/-- **the extracted hash of a constructed plane depends only on the model's `Plane.hashKey`** -/
theorem hash_Plane_key (H : HFun) (rnd : ℝ → ℝ) (pl : Plane) (h : pl.WF) :
    impl_hash_Plane H rnd sigE negE pl.p.toR (unitR pl.n.toR) = planeHashOfKey H rnd (Plane.hashKey pl) := by
  rw [hash_Plane_tie, planeHashRef_key H rnd pl h]

/-- **EQUAL PLANES HAVE EQUAL EXTRACTED HASHES**, for every H and every rounding (any point of the plane, any rescaled or
    negated normal) -/
theorem hash_Plane_eq_of_eqv (H : HFun) (rnd : ℝ → ℝ) (a b : Plane) (ha : a.WF) (hb : b.WF) (h : a.eqv b = true) :
    impl_hash_Plane H rnd sigE negE a.p.toR (unitR a.n.toR) = impl_hash_Plane H rnd sigE negE b.p.toR (unitR b.n.toR) := by
  rw [hash_Plane_key H rnd a ha, hash_Plane_key H rnd b hb, Plane.hashKey_of_eqv a b ha hb h]

/-- `hash(-plane)` as the polygon hash builds it (`Plane(p, -n)` normalises the negated stored normal) = `hash(plane)` -/
theorem hash_Plane_neg (H : HFun) (rnd : ℝ → ℝ) (pl : Plane) (h : pl.WF) :
    impl_hash_Plane H rnd sigE negE pl.p.toR (unitR (negR (unitR pl.n.toR)))
      = impl_hash_Plane H rnd sigE negE pl.p.toR (unitR pl.n.toR) := by
  rw [hash_Plane_tie, hash_Plane_tie, planeHashRef_neg H rnd pl h]

/-- (C19) the tolerance enters only through `abs(c) > get_eps()`: for a tolerance e ≥ 0 and a normal whose non-zero components
    all exceed e in absolute value, the tolerance-aware reading takes the same path as the exact one -/
theorem hash_Plane_tol (H : HFun) (rnd : ℝ → ℝ) (e : ℝ) (he : 0 ≤ e) (p n : RVec)
    (hx : n.x = 0 ∨ e < |n.x|) (hy : n.y = 0 ∨ e < |n.y|) (hz : n.z = 0 ∨ e < |n.z|) :
    impl_hash_Plane H rnd (sigT e) negE p n = impl_hash_Plane H rnd sigE negE p n := by
  have key : ∀ c : ℝ, (c = 0 ∨ e < |c|) → sigT e c = sigE c := by
    intro c hc
    simp only [sigT, sigE, gt_iff_lt, ne_eq, decide_eq_decide]
    rcases hc with rfl | hc
    · simp; exact he
    · exact ⟨fun _ h0 => by rw [h0, abs_zero] at hc; linarith, fun _ => hc⟩
  simp only [impl_hash_Plane, key n.x hx, key n.y hy, key n.z hz]

/-- non-vacuity: the plane z = 1 given by the point (0,0,1) with normal (0,0,2) and by the point (1,1,1) with normal (0,0,−3) -/
theorem hash_Plane_example (H : HFun) (rnd : ℝ → ℝ) :
    impl_hash_Plane H rnd sigE negE (V3.toR ⟨0, 0, 1⟩) (unitR (V3.toR ⟨0, 0, 2⟩))
      = impl_hash_Plane H rnd sigE negE (V3.toR ⟨1, 1, 1⟩) (unitR (V3.toR ⟨0, 0, -3⟩)) :=
  hash_Plane_eq_of_eqv H rnd ⟨⟨0, 0, 1⟩, ⟨0, 0, 2⟩⟩ ⟨⟨1, 1, 1⟩, ⟨0, 0, -3⟩⟩ (by unfold Plane.WF; decide +kernel)
    (by unfold Plane.WF; decide +kernel) (by decide +kernel)

/-- (C19) every `round` of the body takes its digit count from the LIVE `get_sig_figures()` (offset 0) -/
theorem hash_Plane_roundings : impl_hash_Plane_roundings = [0] := by decide
end hash_Plane

#print axioms hash_Plane_key
#print axioms hash_Plane_eq_of_eqv
#print axioms hash_Plane_tol
end G3D.KTie.Khash
