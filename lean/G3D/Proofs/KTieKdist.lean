import G3D.Extracted.Kdist
import G3D.Model.Distance
import G3D.Proofs.VecRLemmas
import G3D.Proofs.Flat
import Mathlib.Analysis.Real.Sqrt
import Mathlib.Tactic.Ring
import Mathlib.Tactic.Linarith
import Mathlib.Tactic.FieldSimp
import Mathlib.Tactic.Positivity
/-! # kdist: `Point.distance` and calc/distance.py  (C10)
    `G3D.Extracted.impl_*` are regenerated on every run (tools/extract_kdist.py, engine tools/kernels_engine.py): the REAL code is run on
    symbolic numbers, every comparison against the tolerance is recorded (operands and shape) and answered from a scripted
    path.  Each kernel has its own `section`: when the walk of ONE kernel fails the generated file holds only the marker
    `impl_<kernel>_EXTRACTION_FAILED` for it and exactly the theorems of that section stop compiling. -/
namespace G3D.KTie.Kdist
open G3D G3D.Extracted Real

section modelForms
/-- closed form of the model's point–line squared distance (foot of the perpendicular) -/
theorem distSqPointLine_eq (a : V3) (b : Line) (hb : b.WF) :
    distSqPointLine a b = .ok (V3.normSq (V3.sub
      (V3.add b.sv (V3.smul ((V3.dot b.dv a - V3.dot b.dv b.sv) / V3.dot b.dv b.dv) b.dv)) a)) := by
  have hN := G3D.normSq_pos hb
  have hno : ¬ V3.orthogonal b.dv b.dv = true := by
    simp only [V3.orthogonal, beq_iff_eq]; intro h
    have : V3.normSq b.dv = 0 := h
    exact absurd this (ne_of_gt hN)
  have hnc : ¬ (⟨a, b.dv⟩ : Plane).containsLine b = true := by
    unfold Plane.containsLine; rw [Bool.and_eq_true]; exact fun h => hno h.2
  unfold distSqPointLine
  simp only [interLinePlane, hnc, hno, if_false, Bool.false_eq_true]
  rfl

theorem distSqPointPlane_eq (a : V3) (b : Plane) (hb : b.WF) :
    distSqPointPlane a b = .ok (V3.normSq (V3.sub
      (V3.add a (V3.smul ((V3.dot b.n b.p - V3.dot b.n a) / V3.dot b.n b.n) b.n)) a)) := by
  have hN := G3D.normSq_pos hb
  have hno : ¬ V3.orthogonal b.n b.n = true := by
    simp only [V3.orthogonal, beq_iff_eq]; intro h
    have : V3.normSq b.n = 0 := h
    exact absurd this (ne_of_gt hN)
  have hnc : ¬ b.containsLine ⟨a, b.n⟩ = true := by
    unfold Plane.containsLine; rw [Bool.and_eq_true]; exact fun h => hno h.2
  unfold distSqPointPlane
  simp only [interLinePlane, hnc, hno, if_false, Bool.false_eq_true]
  rfl

theorem cast_foot (a s d : V3) (mu : ℚ) :
    ((V3.normSq (V3.sub (V3.add s (V3.smul mu d)) a) : ℚ) : ℝ)
      = RVec.normSq (RVec.sub (RVec.add s.toR (RVec.smul (mu : ℝ) d.toR)) a.toR) := by
  rw [toR_smul, toR_add, toR_sub, toR_normSq]
end modelForms

section pointDistance
theorem pointDistance_tie (p q : RVec) : impl_pointDistance p q = √(RVec.normSq (RVec.sub q p)) := by
  simp only [impl_pointDistance]
  congr 1
  simp only [RVec.normSq, RVec.dot, RVec.sub]; ring

theorem pointDistance_model (p q : V3) : impl_pointDistance p.toR q.toR = √((distSqPointPoint p q : ℚ) : ℝ) := by
  rw [pointDistance_tie, toR_sub, toR_normSq]; rfl
end pointDistance

section distPointPoint
theorem distPointPoint_tie (p q : RVec) : impl_distPointPoint p q = √(RVec.normSq (RVec.sub q p)) := by
  simp only [impl_distPointPoint]
  congr 1
  simp only [RVec.normSq, RVec.dot, RVec.sub]; ring

theorem distPointPoint_model (p q : V3) : impl_distPointPoint p.toR q.toR = √((distSqPointPoint p q : ℚ) : ℝ) := by
  rw [distPointPoint_tie, toR_sub, toR_normSq]; rfl
end distPointPoint

section distPointLine
/-- `distance(Point, Line)` through the auxiliary plane with the UNIT normal `dv/|dv|`: the factor cancels in `mu` -/
theorem distPointLine_real (x sv dv : RVec) (h : dv ≠ RVec.zero) :
    impl_distPointLine x sv dv = √(RVec.normSq (RVec.sub
      (RVec.add sv (RVec.smul ((RVec.dot dv x - RVec.dot dv sv) / RVec.normSq dv) dv)) x)) := by
  have hN : dv.x * dv.x + dv.y * dv.y + dv.z * dv.z ≠ 0 := by
    have := nsq_pos h; simp only [RVec.normSq, RVec.dot] at this; exact this.ne'
  have hs0 : √(dv.x * dv.x + dv.y * dv.y + dv.z * dv.z) ≠ 0 := by
    have := nsq_pos h; simp only [RVec.normSq, RVec.dot] at this; exact (Real.sqrt_pos.mpr this).ne'
  simp only [impl_distPointLine, zero_add]
  generalize √(dv.x * dv.x + dv.y * dv.y + dv.z * dv.z) = s at hs0 ⊢
  congr 1
  simp only [RVec.normSq, RVec.dot, RVec.sub, RVec.add, RVec.smul]
  field_simp

/-- for rational inputs the computed distance is the square root of the model's squared distance -/
theorem distPointLine_tie (x : V3) (l : Line) (hl : l.WF) :
    ∃ d2 : ℚ, distSqPointLine x l = .ok d2 ∧ impl_distPointLine x.toR l.sv.toR l.dv.toR = √(d2 : ℝ) := by
  refine ⟨_, distSqPointLine_eq x l hl, ?_⟩
  have hd : l.dv.toR ≠ RVec.zero := fun h => hl (toR_inj.mp (h.trans toR_zero.symm))
  rw [distPointLine_real _ _ _ hd, cast_foot]
  congr 5
  rw [toR_dot, toR_dot, toR_normSq]; push_cast; rfl

theorem distPointLine_path :
    impl_distPointLine_path = [("abs(R) < eps", false), ("abs(R) < eps", false)] := by decide
end distPointLine

section distPointPlane
/-- `distance(Point, Plane)` through the auxiliary line along the stored UNIT normal -/
theorem distPointPlane_real (x p n : RVec) (h : n ≠ RVec.zero) :
    impl_distPointPlane x p n = √(RVec.normSq (RVec.sub
      (RVec.add x (RVec.smul ((RVec.dot n p - RVec.dot n x) / RVec.normSq n) n)) x)) := by
  have hN : n.x * n.x + n.y * n.y + n.z * n.z ≠ 0 := by
    have := nsq_pos h; simp only [RVec.normSq, RVec.dot] at this; exact this.ne'
  have hs0 : √(n.x * n.x + n.y * n.y + n.z * n.z) ≠ 0 := by
    have := nsq_pos h; simp only [RVec.normSq, RVec.dot] at this; exact (Real.sqrt_pos.mpr this).ne'
  simp only [impl_distPointPlane, zero_add]
  generalize √(n.x * n.x + n.y * n.y + n.z * n.z) = s at hs0 ⊢
  congr 1
  simp only [RVec.normSq, RVec.dot, RVec.sub, RVec.add, RVec.smul]
  field_simp

theorem distPointPlane_tie (x : V3) (pl : Plane) (hw : pl.WF) :
    ∃ d2 : ℚ, distSqPointPlane x pl = .ok d2 ∧ impl_distPointPlane x.toR pl.p.toR pl.n.toR = √(d2 : ℝ) := by
  refine ⟨_, distSqPointPlane_eq x pl hw, ?_⟩
  have hd : pl.n.toR ≠ RVec.zero := fun h => hw (toR_inj.mp (h.trans toR_zero.symm))
  rw [distPointPlane_real _ _ _ hd, cast_foot]
  congr 5
  rw [toR_dot, toR_dot, toR_normSq]; push_cast; rfl

/-- the textbook form: `|n . (x - p)| / |n|` -/
theorem distPointPlane_closed (x p n : RVec) (h : n ≠ RVec.zero) :
    impl_distPointPlane x p n = |RVec.dot n (RVec.sub x p)| / √(RVec.normSq n) := by
  rw [distPointPlane_real x p n h]
  have hN := nsq_pos h
  have hk : ∀ k : ℝ, RVec.normSq (RVec.sub (RVec.add x (RVec.smul k n)) x) = k ^ 2 * RVec.normSq n := by
    intro k; simp only [RVec.normSq, RVec.dot, RVec.sub, RVec.add, RVec.smul]; ring
  have ht : RVec.dot n p - RVec.dot n x = -RVec.dot n (RVec.sub x p) := by
    simp only [RVec.dot, RVec.sub]; ring
  have : RVec.normSq (RVec.sub (RVec.add x (RVec.smul ((RVec.dot n p - RVec.dot n x) / RVec.normSq n) n)) x)
      = (RVec.dot n (RVec.sub x p)) ^ 2 / RVec.normSq n := by
    rw [hk, ht]
    have hN0 := hN.ne'
    field_simp
  rw [this, Real.sqrt_div (sq_nonneg _), Real.sqrt_sq_eq_abs]

theorem distPointPlane_path :
    impl_distPointPlane_path = [("abs(R) < eps", false), ("abs(R) < eps", false), ("abs(R) < eps", false)] := by decide
end distPointPlane

section distLineLineSkew
/-- `distance(Line, Line)`, skew: `|(s2 - s1) . c/|c||` is the square root of the model's `((s2 - s1) . c)² / c.c` -/
theorem distLineLineSkew_real (s1 d1 s2 d2 : RVec) :
    impl_distLineLineSkew s1 d1 s2 d2
      = √((RVec.dot (RVec.sub s2 s1) (RVec.cross d1 d2)) ^ 2 / RVec.normSq (RVec.cross d1 d2)) := by
  rw [Real.sqrt_div (sq_nonneg _), Real.sqrt_sq_eq_abs, ← abs_of_nonneg (Real.sqrt_nonneg (RVec.normSq _)), ← abs_div]
  simp only [impl_distLineLineSkew, zero_add, RVec.normSq, RVec.dot, RVec.sub, RVec.cross]
  congr 1
  ring

theorem distLineLineSkew_tie (a b : Line) (hpar : V3.parallel a.dv b.dv = false) :
    ∃ d2 : ℚ, distSqLineLine a b = .ok d2 ∧
      impl_distLineLineSkew a.sv.toR a.dv.toR b.sv.toR b.dv.toR = √(d2 : ℝ) := by
  refine ⟨(V3.dot (V3.sub b.sv a.sv) (V3.cross a.dv b.dv)) ^ 2 / V3.normSq (V3.cross a.dv b.dv),
    by simp [distSqLineLine, hpar], ?_⟩
  rw [distLineLineSkew_real, toR_sub, toR_cross, toR_dot, toR_normSq]; push_cast; rfl

theorem distLineLineSkew_path :
    impl_distLineLineSkew_path = [("abs(R) < eps", false), ("abs(R) < eps", false), ("abs(R) < eps", false), ("abs(R) < (eps * S)", false)] := by decide
end distLineLineSkew

section distLineLinePar
/-- the parallel branch delegates to `distance(Point, Line)`: same term -/
theorem distLineLinePar_delegates (s1 d1 s2 d2 : RVec) :
    impl_distLineLinePar s1 d1 s2 d2 = impl_distPointLine s1 s2 d2 := rfl

theorem distLineLinePar_tie (a b : Line) (hb : b.WF) (hpar : V3.parallel a.dv b.dv = true) :
    ∃ d2 : ℚ, distSqLineLine a b = .ok d2 ∧
      impl_distLineLinePar a.sv.toR a.dv.toR b.sv.toR b.dv.toR = √(d2 : ℝ) := by
  obtain ⟨d2, h1, h2⟩ := distPointLine_tie a.sv b hb
  exact ⟨d2, by simp [distSqLineLine, hpar, h1], by rw [← h2]; rfl⟩

theorem distLineLinePar_path :
    impl_distLineLinePar_path = [("abs(R) < eps", false), ("abs(R) < eps", false), ("abs(R) < eps", false), ("abs(R) < (eps * S)", true), ("abs(R) < eps", false), ("abs(R) < eps", false)] := by decide
end distLineLinePar

section distLinePlanePar
/-- the parallel branch delegates to `distance(Point, Plane)`: same term -/
theorem distLinePlanePar_delegates (sv dv p n : RVec) :
    impl_distLinePlanePar sv dv p n = impl_distPointPlane sv p n := rfl

theorem distLinePlanePar_tie (l : Line) (pl : Plane) (hw : pl.WF) (hpar : V3.orthogonal l.dv pl.n = true) :
    ∃ d2 : ℚ, distSqLinePlane l pl = .ok d2 ∧
      impl_distLinePlanePar l.sv.toR l.dv.toR pl.p.toR pl.n.toR = √(d2 : ℝ) := by
  obtain ⟨d2, h1, h2⟩ := distPointPlane_tie l.sv pl hw
  exact ⟨d2, by simp [distSqLinePlane, hpar, h1], by rw [← h2]; rfl⟩

theorem distLinePlanePar_path :
    impl_distLinePlanePar_path = [("abs(R) < eps", true), ("abs(R) < eps", false), ("abs(R) < eps", false), ("abs(R) < eps", false)] := by decide
end distLinePlanePar

section distLinePlaneCross
theorem distLinePlaneCross_tie (l : Line) (pl : Plane) (h : V3.orthogonal l.dv pl.n = false) :
    impl_distLinePlaneCross_value = "0.0" ∧ distSqLinePlane l pl = .ok 0 := by
  refine ⟨by decide, by simp [distSqLinePlane, h]⟩

theorem distLinePlaneCross_path :
    impl_distLinePlaneCross_path = [("abs(R) < eps", false)] := by decide
end distLinePlaneCross

section combined
/-- (conjunction of `distPointPoint_model` and `pointDistance_model`, kept under its former name) -/
theorem distPointPoint_cast (p q : V3) :
    impl_distPointPoint p.toR q.toR = √((distSqPointPoint p q : ℚ) : ℝ) ∧
    impl_pointDistance p.toR q.toR = √((distSqPointPoint p q : ℚ) : ℝ) :=
  ⟨distPointPoint_model p q, pointDistance_model p q⟩

/-- (conjunction of the two `_delegates`, kept under its former name) -/
theorem dist_delegations (s1 d1 s2 d2 sv dv p n : RVec) :
    impl_distLineLinePar s1 d1 s2 d2 = impl_distPointLine s1 s2 d2 ∧
    impl_distLinePlanePar sv dv p n = impl_distPointPlane sv p n := ⟨rfl, rfl⟩

/-- (conjunction of the six `_path` theorems, kept under its former name) -/
theorem dist_paths :
    impl_distPointLine_path = [("abs(R) < eps", false), ("abs(R) < eps", false)] ∧
    impl_distPointPlane_path = [("abs(R) < eps", false), ("abs(R) < eps", false), ("abs(R) < eps", false)] ∧
    impl_distLineLineSkew_path = [("abs(R) < eps", false), ("abs(R) < eps", false), ("abs(R) < eps", false), ("abs(R) < (eps * S)", false)] ∧
    impl_distLineLinePar_path = [("abs(R) < eps", false), ("abs(R) < eps", false), ("abs(R) < eps", false), ("abs(R) < (eps * S)", true), ("abs(R) < eps", false), ("abs(R) < eps", false)] ∧
    impl_distLinePlanePar_path = [("abs(R) < eps", true), ("abs(R) < eps", false), ("abs(R) < eps", false), ("abs(R) < eps", false)] ∧
    impl_distLinePlaneCross_path = [("abs(R) < eps", false)] :=
  ⟨distPointLine_path, distPointPlane_path, distLineLineSkew_path, distLineLinePar_path, distLinePlanePar_path,
    distLinePlaneCross_path⟩
end combined

end G3D.KTie.Kdist
