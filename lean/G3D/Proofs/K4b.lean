import G3D.Proofs.K4a
import G3D.Proofs.BodySoundSets

/-! # Kernel K4, part b: the face-clipping loop `clipFaces`

    * `interPolygonPolyhedron_polygon_valid` : a polygon returned by ConvexPolygon × ConvexPolyhedron is `Valid`
    * `K4.Piece` / `K4.piece` : the clip `f ∩ X` of a valid polygon by a body (`ExactHyp`) is `None`, a Point, a
      well-formed Segment or a `Valid` polygon, and denotes exactly `InHull f.pts ∩ InHull X.verts`
    * `K4.Collected` / `clipFaces_spec` : `clipFaces X fs acc` never errors; its result contains exactly (up to the
      dedup relations `Polygon.same`, `Seg.same`, `=`) the clips of the faces `fs` on top of `acc`, without
      repetitions -/
namespace G3D
open V3

/-! ### a returned polygon is Valid -/

/-- polygon × polygon returns a polygon only in the coplanar branch -/
theorem K4.interPolygonPolygon_polygon_coplanar (a b Q : Polygon)
    (h : interPolygonPolygon a b = .ok (some (.polygon Q))) : a.plane.eqv b.plane = true := by
  unfold interPolygonPolygon at h
  split at h
  · cases h
  · split at h
    · cases h
    · cases h
    · rename_i x y _ _
      have : ∀ r : Res, liftFlat r ≠ .ok (some (.polygon Q)) := by
        intro r
        cases r with
        | error e => cases e <;> simp [liftFlat]
        | ok o =>
          cases o with
          | none => simp [liftFlat]
          | some g => simp [liftFlat]
      exact absurd h (this _)
    · cases h
    · cases h
    · cases h
  · by_cases hco : a.plane.eqv b.plane = true
    · exact hco
    · simp only [Bool.not_eq_true] at hco
      rw [hco] at h
      simp at h
  · cases h

theorem interPolygonPolyhedron_polygon_valid (B : Polyhedron) (hH : B.ExactHyp) (P : Polygon) (hv : P.Valid)
    (Q : Polygon) (h : interPolygonPolyhedron B P = .ok (some (.polygon Q))) : Q.Valid := by
  have hpW := Polygon.plane_WF P hv
  obtain ⟨o, ho, hw, _⟩ := interPlanePolyhedron_exact_hull P.plane hpW B hH
  unfold interPolygonPolyhedron at h
  rw [ho] at h
  cases o with
  | none => cases h
  | some ob =>
    obtain ⟨q, rfl⟩ | ⟨s, rfl⟩ | ⟨Q', rfl⟩ := interPlanePolyhedron_shape _ _ _ ho
    · simp only [interPointPolygon] at h
      split at h <;> cases h
    · obtain ⟨o', ho', hw', _⟩ := interSegPolygon_exactPS s hw P hv
      simp only at h
      rw [ho'] at h
      cases h
      exact absurd hw' (by simp [ObjFlatWF])
    · have hQ' := interPlanePolyhedron_polygon_valid P.plane hpW B hH Q' ho
      simp only at h
      exact (interPolygonPolygon_coplanar_polygon_valid Q' P hQ' hv
        (K4.interPolygonPolygon_polygon_coplanar Q' P Q h) Q h).1
#print axioms interPolygonPolyhedron_polygon_valid

/-! ### the clip of one face -/

/-- what a clip result looks like -/
inductive K4.Shape : Option Obj → Prop
  | none : K4.Shape none
  | point (q : V3) : K4.Shape (some (.flat (.point q)))
  | seg (s : Seg) (hw : s.WF) : K4.Shape (some (.flat (.seg s)))
  | gon (Q : Polygon) (hv : Q.Valid) : K4.Shape (some (.polygon Q))

/-- `o` is the clip of the polygon `f` by the body `X`: the handler returns it, it is `None`, a Point, a well-formed
    Segment or a `Valid` polygon, and it denotes exactly `f ∩ X` -/
structure K4.Piece (X : Polyhedron) (f : Polygon) (o : Option Obj) : Prop where
  eq : interPolygonPolyhedron X f = .ok o
  shape : K4.Shape o
  den : ∀ x, denOptB o x ↔ (InHull f.pts x ∧ InHull X.verts x)

theorem K4.piece (X : Polyhedron) (hH : X.ExactHyp) (f : Polygon) (hv : f.Valid) : ∃ o, K4.Piece X f o := by
  obtain ⟨o, ho, hw, hd⟩ := interPolygonPolyhedron_exact X hH f hv
  refine ⟨o, ho, ?_, hd⟩
  have hty := interPolygonPolyhedron_typed X f o ho
  cases o with
  | none => exact .none
  | some ob =>
    cases ob with
    | flat g =>
      cases g with
      | point q => exact .point q
      | seg s => exact .seg s hw
      | line _ => simp [resTyOf] at hty
      | plane _ => simp [resTyOf] at hty
      | halfline _ => simp [resTyOf] at hty
    | polygon Q => exact .gon Q (interPolygonPolyhedron_polygon_valid X hH f hv Q ho)
    | polyhedron _ => simp [resTyOf] at hty

/-! ### the dedup insertions -/
section dedup
variable {α : Type} (same : α → α → Bool)

/-- the common shape of `addPolygon` and `addSeg` -/
def K4.addD (l : List α) (a : α) : List α := if l.any (fun x => same x a) then l else l ++ [a]

theorem K4.mem_addD (l : List α) (a x : α) (h : x ∈ K4.addD same l a) : x ∈ l ∨ x = a := by
  unfold K4.addD at h
  split at h
  · exact Or.inl h
  · simpa using h

theorem K4.sub_addD (l : List α) (a x : α) (h : x ∈ l) : x ∈ K4.addD same l a := by
  unfold K4.addD
  split
  · exact h
  · simp [h]

theorem K4.rep_addD (l : List α) (a : α) : ∃ x ∈ K4.addD same l a, x = a ∨ same x a = true := by
  unfold K4.addD
  split
  · rename_i h
    obtain ⟨x, hx, hs⟩ := List.any_eq_true.mp h
    exact ⟨x, hx, Or.inr hs⟩
  · exact ⟨a, by simp, Or.inl rfl⟩

theorem K4.pw_addD (l : List α) (a : α) (h : l.Pairwise (fun x y => same x y = false)) :
    (K4.addD same l a).Pairwise (fun x y => same x y = false) := by
  unfold K4.addD
  split
  · exact h
  · rename_i hn
    rw [List.pairwise_append]
    refine ⟨h, List.pairwise_singleton _ _, ?_⟩
    intro x hx y hy
    simp only [List.mem_singleton] at hy
    subst hy
    cases hs : same x y with
    | false => rfl
    | true => exact absurd (List.any_eq_true.mpr ⟨x, hx, hs⟩) hn
end dedup

theorem K4.addPolygon_eq (l : List Polygon) (P : Polygon) : addPolygon l P = K4.addD Polygon.same l P := rfl
theorem K4.addSeg_eq (l : List Seg) (s : Seg) : addSeg l s = K4.addD Seg.same l s := rfl

/-! ### `clipFaces` -/

/-- one step of the loop -/
def K4.push (acc : Parts) : Option Obj → Parts
  | some (.flat (.point q)) => { acc with pts := addNew acc.pts q }
  | some (.flat (.seg s)) => { acc with segs := addSeg acc.segs s }
  | some (.polygon Q) => { acc with gons := addPolygon acc.gons Q }
  | _ => acc

theorem K4.clipFaces_cons (X : Polyhedron) (f : Polygon) (fs : List Polygon) (acc : Parts) (o : Option Obj)
    (h : interPolygonPolyhedron X f = .ok o) : clipFaces X (f :: fs) acc = clipFaces X fs (K4.push acc o) := by
  rw [clipFaces, h]
  cases o with
  | none => rfl
  | some ob =>
    cases ob with
    | flat g => cases g <;> rfl
    | polygon Q => rfl
    | polyhedron _ => rfl

theorem K4.push_gons_sub (acc : Parts) (o : Option Obj) (g : Polygon) (h : g ∈ (K4.push acc o).gons) :
    g ∈ acc.gons ∨ o = some (.polygon g) := by
  cases o with
  | none => exact Or.inl h
  | some ob =>
    cases ob with
    | flat g' => cases g' <;> exact Or.inl h
    | polygon Q =>
      rcases K4.mem_addD Polygon.same _ _ _ h with h2 | rfl
      · exact Or.inl h2
      · exact Or.inr rfl
    | polyhedron _ => exact Or.inl h

theorem K4.push_gons_keep (acc : Parts) (o : Option Obj) (g : Polygon) (h : g ∈ acc.gons) :
    g ∈ (K4.push acc o).gons := by
  cases o with
  | none => exact h
  | some ob =>
    cases ob with
    | flat g' => cases g' <;> exact h
    | polygon Q => exact K4.sub_addD Polygon.same _ _ _ h
    | polyhedron _ => exact h

theorem K4.push_gons_pw (acc : Parts) (o : Option Obj) (h : acc.gons.Pairwise (fun a b => a.same b = false)) :
    (K4.push acc o).gons.Pairwise (fun a b => a.same b = false) := by
  cases o with
  | none => exact h
  | some ob =>
    cases ob with
    | flat g' => cases g' <;> exact h
    | polygon Q => exact K4.pw_addD Polygon.same _ _ h
    | polyhedron _ => exact h

theorem K4.push_segs_sub (acc : Parts) (o : Option Obj) (s : Seg) (h : s ∈ (K4.push acc o).segs) :
    s ∈ acc.segs ∨ o = some (.flat (.seg s)) := by
  cases o with
  | none => exact Or.inl h
  | some ob =>
    cases ob with
    | flat g' =>
      cases g' with
      | seg t =>
        rcases K4.mem_addD Seg.same _ _ _ h with h2 | rfl
        · exact Or.inl h2
        · exact Or.inr rfl
      | point _ => exact Or.inl h
      | line _ => exact Or.inl h
      | plane _ => exact Or.inl h
      | halfline _ => exact Or.inl h
    | polygon Q => exact Or.inl h
    | polyhedron _ => exact Or.inl h

theorem K4.push_segs_keep (acc : Parts) (o : Option Obj) (s : Seg) (h : s ∈ acc.segs) :
    s ∈ (K4.push acc o).segs := by
  cases o with
  | none => exact h
  | some ob =>
    cases ob with
    | flat g' =>
      cases g' with
      | seg t => exact K4.sub_addD Seg.same _ _ _ h
      | point _ => exact h
      | line _ => exact h
      | plane _ => exact h
      | halfline _ => exact h
    | polygon Q => exact h
    | polyhedron _ => exact h

theorem K4.push_segs_pw (acc : Parts) (o : Option Obj) (h : acc.segs.Pairwise (fun a b => a.same b = false)) :
    (K4.push acc o).segs.Pairwise (fun a b => a.same b = false) := by
  cases o with
  | none => exact h
  | some ob =>
    cases ob with
    | flat g' =>
      cases g' with
      | seg t => exact K4.pw_addD Seg.same _ _ h
      | point _ => exact h
      | line _ => exact h
      | plane _ => exact h
      | halfline _ => exact h
    | polygon Q => exact h
    | polyhedron _ => exact h

theorem K4.push_pts_mem (acc : Parts) (o : Option Obj) (q : V3) :
    q ∈ (K4.push acc o).pts ↔ (q ∈ acc.pts ∨ o = some (.flat (.point q))) := by
  cases o with
  | none => simp [K4.push]
  | some ob =>
    cases ob with
    | flat g' =>
      cases g' with
      | point p =>
        simp only [K4.push, mem_addNew]
        constructor
        · rintro (h | rfl)
          · exact Or.inl h
          · exact Or.inr rfl
        · rintro (h | h)
          · exact Or.inl h
          · cases h; exact Or.inr rfl
      | seg _ => simp [K4.push]
      | line _ => simp [K4.push]
      | plane _ => simp [K4.push]
      | halfline _ => simp [K4.push]
    | polygon Q => simp [K4.push]
    | polyhedron _ => simp [K4.push]

theorem K4.push_pts_nodup (acc : Parts) (o : Option Obj) (h : acc.pts.Nodup) : (K4.push acc o).pts.Nodup := by
  cases o with
  | none => exact h
  | some ob =>
    cases ob with
    | flat g' =>
      cases g' with
      | point p => exact nodup_addNew _ _ h
      | seg _ => exact h
      | line _ => exact h
      | plane _ => exact h
      | halfline _ => exact h
    | polygon Q => exact h
    | polyhedron _ => exact h

/-- what `clipFaces X fs acc = .ok out` collects: the clips of the faces `fs`, sorted by kind, on top of `acc`;
    every clip is represented (polygons and segments up to `same`), nothing else is added, no repetitions -/
structure K4.Collected (X : Polyhedron) (fs : List Polygon) (acc out : Parts) : Prop where
  gons_sub : ∀ g ∈ out.gons, g ∈ acc.gons ∨ ∃ f ∈ fs, interPolygonPolyhedron X f = .ok (some (.polygon g))
  gons_keep : ∀ g ∈ acc.gons, g ∈ out.gons
  gons_rep : ∀ f ∈ fs, ∀ g, interPolygonPolyhedron X f = .ok (some (.polygon g)) →
    ∃ g' ∈ out.gons, g' = g ∨ g'.same g = true
  gons_pw : acc.gons.Pairwise (fun a b => a.same b = false) → out.gons.Pairwise (fun a b => a.same b = false)
  segs_sub : ∀ s ∈ out.segs, s ∈ acc.segs ∨ ∃ f ∈ fs, interPolygonPolyhedron X f = .ok (some (.flat (.seg s)))
  segs_keep : ∀ s ∈ acc.segs, s ∈ out.segs
  segs_rep : ∀ f ∈ fs, ∀ s, interPolygonPolyhedron X f = .ok (some (.flat (.seg s))) →
    ∃ s' ∈ out.segs, s' = s ∨ s'.same s = true
  segs_pw : acc.segs.Pairwise (fun a b => a.same b = false) → out.segs.Pairwise (fun a b => a.same b = false)
  pts_mem : ∀ q, q ∈ out.pts ↔ (q ∈ acc.pts ∨ ∃ f ∈ fs, interPolygonPolyhedron X f = .ok (some (.flat (.point q))))
  pts_nodup : acc.pts.Nodup → out.pts.Nodup

theorem K4.Collected.nil (X : Polyhedron) (acc : Parts) : K4.Collected X [] acc acc where
  gons_sub := fun g hg => Or.inl hg
  gons_keep := fun g hg => hg
  gons_rep := fun f hf => by cases hf
  gons_pw := id
  segs_sub := fun g hg => Or.inl hg
  segs_keep := fun g hg => hg
  segs_rep := fun f hf => by cases hf
  segs_pw := id
  pts_mem := by
    intro q
    constructor
    · exact Or.inl
    · rintro (h | ⟨f, hf, _⟩)
      · exact h
      · cases hf
  pts_nodup := id

/-- one more face in front -/
theorem K4.Collected.cons {X : Polyhedron} {f : Polygon} {fs : List Polygon} {acc out : Parts} {o : Option Obj}
    (ho : interPolygonPolyhedron X f = .ok o) (h : K4.Collected X fs (K4.push acc o) out) :
    K4.Collected X (f :: fs) acc out := by
  have hinj : ∀ {o' : Option Obj}, interPolygonPolyhedron X f = .ok o' → o = o' := by
    intro o' h'; rw [ho] at h'; cases h'; rfl
  refine ⟨?_, ?_, ?_, ?_, ?_, ?_, ?_, ?_, ?_, ?_⟩
  · intro g hg
    rcases h.gons_sub g hg with h1 | ⟨f', hf', h1⟩
    · rcases K4.push_gons_sub _ _ _ h1 with h2 | rfl
      · exact Or.inl h2
      · exact Or.inr ⟨f, by simp, ho⟩
    · exact Or.inr ⟨f', by simp [hf'], h1⟩
  · exact fun g hg => h.gons_keep g (K4.push_gons_keep _ _ _ hg)
  · intro f' hf' g h1
    rcases List.mem_cons.mp hf' with rfl | hf'
    · cases hinj h1
      obtain ⟨x, hx, hs⟩ := K4.rep_addD Polygon.same acc.gons g
      exact ⟨x, h.gons_keep x hx, hs⟩
    · exact h.gons_rep f' hf' g h1
  · exact fun hp => h.gons_pw (K4.push_gons_pw _ _ hp)
  · intro g hg
    rcases h.segs_sub g hg with h1 | ⟨f', hf', h1⟩
    · rcases K4.push_segs_sub _ _ _ h1 with h2 | rfl
      · exact Or.inl h2
      · exact Or.inr ⟨f, by simp, ho⟩
    · exact Or.inr ⟨f', by simp [hf'], h1⟩
  · exact fun g hg => h.segs_keep g (K4.push_segs_keep _ _ _ hg)
  · intro f' hf' g h1
    rcases List.mem_cons.mp hf' with rfl | hf'
    · cases hinj h1
      obtain ⟨x, hx, hs⟩ := K4.rep_addD Seg.same acc.segs g
      exact ⟨x, h.segs_keep x hx, hs⟩
    · exact h.segs_rep f' hf' g h1
  · exact fun hp => h.segs_pw (K4.push_segs_pw _ _ hp)
  · intro q
    rw [h.pts_mem q, K4.push_pts_mem]
    constructor
    · rintro ((h1 | rfl) | ⟨f', hf', h1⟩)
      · exact Or.inl h1
      · exact Or.inr ⟨f, by simp, ho⟩
      · exact Or.inr ⟨f', by simp [hf'], h1⟩
    · rintro (h1 | ⟨f', hf', h1⟩)
      · exact Or.inl (Or.inl h1)
      · rcases List.mem_cons.mp hf' with rfl | hf'
        · exact Or.inl (Or.inr (hinj h1))
        · exact Or.inr ⟨f', hf', h1⟩
  · exact fun hp => h.pts_nodup (K4.push_pts_nodup _ _ hp)

/-- `clipFaces` never errors when every single clip succeeds, and collects the clips -/
theorem K4.clipFaces_collect (X : Polyhedron) : ∀ (fs : List Polygon) (acc : Parts),
    (∀ f ∈ fs, ∃ o, interPolygonPolyhedron X f = .ok o) →
    ∃ out, clipFaces X fs acc = .ok out ∧ K4.Collected X fs acc out := by
  intro fs
  induction fs with
  | nil => intro acc _; exact ⟨acc, rfl, K4.Collected.nil X acc⟩
  | cons f fs ih =>
    intro acc h
    obtain ⟨o, ho⟩ := h f (by simp)
    obtain ⟨out, hout, hc⟩ := ih (K4.push acc o) (fun f' hf' => h f' (by simp [hf']))
    exact ⟨out, by rw [K4.clipFaces_cons X f fs acc o ho]; exact hout, hc.cons ho⟩

/-- **`clipFaces_spec`**: for a body `X` satisfying `ExactHyp` and `Valid` polygons `fs`, the loop never errors;
    the parts returned are (`K4.Collected`) exactly the clips of the `fs` on top of `acc`, and every clip
    (`K4.Piece`) is `None`, a Point, a well-formed Segment or a `Valid` polygon denoting exactly `f ∩ X` -/
theorem clipFaces_spec (X : Polyhedron) (hH : X.ExactHyp) (fs : List Polygon) (hfs : ∀ f ∈ fs, f.Valid)
    (acc : Parts) :
    (∀ f ∈ fs, ∃ o, K4.Piece X f o) ∧ ∃ out, clipFaces X fs acc = .ok out ∧ K4.Collected X fs acc out :=
  ⟨fun f hf => K4.piece X hH f (hfs f hf),
   K4.clipFaces_collect X fs acc (fun f hf => by
     obtain ⟨o, ho⟩ := K4.piece X hH f (hfs f hf); exact ⟨o, ho.eq⟩)⟩
#print axioms clipFaces_spec

end G3D
