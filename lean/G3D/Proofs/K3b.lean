import G3D.Proofs.K3a

/-! # Kernel K3, part b: completeness (hence exactness) of Segment / HalfLine × ConvexPolyhedron

    The handlers collect Point hits on faces and edges plus end points inside the body and turn a collected set of
    0 / 1 / 2 points into None / Point / Segment ("Bug detected" for more).  Exactness therefore needs that EVERY
    collected point is an end point of `X ∩ K`; this uses `FaceLocal` (body ∩ face plane = face) for the face hits and
    `EdgesReal` (every listed edge is an edge of a face) for the edge hits. -/
namespace G3D
open V3

/-! ### shapes of the flat results -/
theorem interSegSeg_IsPS (a b : Seg) (o : Option Geo) (h : interSegSeg a b = .ok o) : IsPS o := by
  unfold interSegSeg at h
  by_cases heq : a.line.eqv b.line = true
  · rw [if_pos heq] at h; exact ofPointSet_IsPS _ o h
  · rw [if_neg heq] at h
    split at h
    · cases h; trivial
    · cases h; split <;> trivial
    · cases h
    · cases h

theorem interSegHalfLine_IsPS (a : Seg) (b : HalfLine) (o : Option Geo) (h : interSegHalfLine a b = .ok o) :
    IsPS o := by
  unfold interSegHalfLine at h
  by_cases heq : a.line.eqv b.line = true
  · rw [if_pos heq] at h; exact ofPointSet_IsPS _ o h
  · rw [if_neg heq] at h
    split at h
    · cases h; trivial
    · cases h; split <;> trivial
    · cases h
    · cases h

theorem interPointSeg_IsPS (q : V3) (a : Seg) (o : Option Geo) (h : interPointSeg q a = .ok o) : IsPS o := by
  unfold interPointSeg at h; cases h; split <;> trivial

theorem interPointHalfLine_IsPS (q : V3) (a : HalfLine) (o : Option Geo) (h : interPointHalfLine q a = .ok o) :
    IsPS o := by
  unfold interPointHalfLine at h; cases h; split <;> trivial

/-- `interCarrierPolygon_exact` with the shape of the result (None / Point / well-formed Segment) -/
theorem interCarrierPolygon_exactPS {X : V3 → Prop} (ln : Line) (hln : ln.WF) (hX : ∀ x, X x → ln.den x)
    (mem : V3 → Bool) (hmem : ∀ q, mem q = true ↔ X q)
    (withPoint : V3 → Res) (hwp : ∀ q, Exact (withPoint q) (· = q) X)
    (hwpS : ∀ q o, withPoint q = .ok o → IsPS o)
    (withSeg : Seg → Res) (hws : ∀ s : Seg, s.WF → Exact (withSeg s) s.den X)
    (hwsS : ∀ s o, withSeg s = .ok o → IsPS o)
    (P : Polygon) (hv : P.Valid) :
    ExactPS (interCarrierPolygon ln mem withPoint withSeg P) X (InHull P.pts) := by
  have hinp := Polygon.hull_in_plane P hv
  obtain ⟨o, ho, _, hd⟩ := interLinePlane_exact ln P.plane hln
  unfold interCarrierPolygon
  rcases interLinePlane_shape ln P.plane o ho with rfl | ⟨q, rfl⟩ | ⟨rfl, hc⟩
  · rw [ho]
    refine ⟨none, rfl, trivial, fun x => ?_⟩
    simp only [denOptB, false_iff]
    rintro ⟨h1, h2⟩; exact (hd x).mpr ⟨hX x h1, hinp x h2⟩
  · rw [ho]
    simp only
    by_cases hc : (mem q && P.contains q) = true
    · rw [if_pos hc]
      rw [Bool.and_eq_true] at hc
      refine ⟨_, rfl, trivial, fun x => ?_⟩
      simp only [denOptB, ObjDen, Geo.den]
      constructor
      · rintro rfl; exact ⟨(hmem x).mp hc.1, (Polygon.contains_iff P hv x).mp hc.2⟩
      · rintro ⟨h1, h2⟩; exact (hd x).mpr ⟨hX x h1, hinp x h2⟩
    · rw [if_neg hc]
      refine ⟨none, rfl, trivial, fun x => ?_⟩
      simp only [denOptB, false_iff]
      rintro ⟨h1, h2⟩
      have : x = q := (hd x).mpr ⟨hX x h1, hinp x h2⟩
      subst this
      exact hc (by rw [Bool.and_eq_true]; exact ⟨(hmem x).mpr h1, (Polygon.contains_iff P hv x).mpr h2⟩)
  · rw [ho]
    simp only
    obtain ⟨o', ho', hw', hd'⟩ := interLinePolygon_exact ln hln P hv
    rw [ho']
    rcases ObjFlatWF_cases o' hw' with rfl | ⟨q, rfl⟩ | ⟨s, rfl, hsW⟩
    · refine ⟨none, rfl, trivial, fun x => ?_⟩
      simp only [denOptB, false_iff]
      rintro ⟨h1, h2⟩; exact (hd' x).mpr ⟨hX x h1, h2⟩
    · simp only
      obtain ⟨o2, ho2, hw2, hd2⟩ := ExactPS_of_liftFlat (hwp q) (hwpS q)
      refine ⟨o2, ho2, hw2, fun x => ?_⟩
      rw [hd2 x]
      have hq : ∀ y, y = q ↔ ln.den y ∧ InHull P.pts y := fun y => by simpa [denOptB, ObjDen, Geo.den] using hd' y
      constructor
      · rintro ⟨h1, h2⟩; exact ⟨h2, ((hq x).mp h1).2⟩
      · rintro ⟨h1, h2⟩; exact ⟨(hq x).mpr ⟨hX x h1, h2⟩, h1⟩
    · simp only
      have hsden : ∀ y, s.den y ↔ ln.den y ∧ InHull P.pts y := fun y => by simpa [denOptB, ObjDen, Geo.den] using hd' y
      obtain ⟨o2, ho2, hw2, hd2⟩ := ExactPS_of_liftFlat (hws s hsW) (hwsS s)
      refine ⟨o2, ho2, hw2, fun x => ?_⟩
      rw [hd2 x]
      constructor
      · rintro ⟨h1, h2⟩; exact ⟨h2, ((hsden x).mp h1).2⟩
      · rintro ⟨h1, h2⟩; exact ⟨(hsden x).mpr ⟨hX x h1, h2⟩, h1⟩

theorem interSegPolygon_exactPS (a : Seg) (ha : a.WF) (P : Polygon) (hv : P.Valid) :
    ExactPS (interSegPolygon a P) a.den (InHull P.pts) :=
  interCarrierPolygon_exactPS a.line (a.line_WF ha) (a.den_sub_line ha) a.contains (Seg.contains_iff a ha)
    (fun q => interPointSeg q a) (fun q => interPointSeg_exact q a ha) (fun q => interPointSeg_IsPS q a)
    (fun s => interSegSeg s a) (fun s hs => interSegSeg_exact s a hs ha) (fun s => interSegSeg_IsPS s a) P hv

theorem interPolygonHalfLine_exactPS (P : Polygon) (hv : P.Valid) (h : HalfLine) (hh : h.WF) :
    ExactPS (interPolygonHalfLine P h) h.den (InHull P.pts) :=
  interCarrierPolygon_exactPS h.line (h.line_WF hh) (h.den_sub_line hh) h.contains (HalfLine.contains_iff h hh)
    (fun q => interPointHalfLine q h) (fun q => interPointHalfLine_exact q h hh)
    (fun q => interPointHalfLine_IsPS q h)
    (fun s => interSegHalfLine s h) (fun s hs => interSegHalfLine_exact s h hs hh)
    (fun s => interSegHalfLine_IsPS s h) P hv

/-! ### the collecting loops, as set comprehensions -/
theorem faceHits_spec (facePt : Polygon → ResB) : ∀ (fs : List Polygon) (acc : List V3),
    (∀ f ∈ fs, ∃ o, facePt f = .ok o ∧ ObjFlatWF o) →
    ∃ out, faceHits facePt fs acc = .ok out ∧
      (∀ p, p ∈ out ↔ (p ∈ acc ∨ ∃ f ∈ fs, facePt f = .ok (some (.flat (.point p))))) ∧
      (acc.Nodup → out.Nodup) := by
  intro fs
  induction fs with
  | nil => intro acc _; exact ⟨acc, rfl, fun p => by simp, fun h => h⟩
  | cons f fs ih =>
    intro acc hfs
    obtain ⟨o, ho, hw⟩ := hfs f (by simp)
    have hfs' : ∀ f' ∈ fs, ∃ o, facePt f' = .ok o ∧ ObjFlatWF o := fun f' hm => hfs f' (by simp [hm])
    rcases ObjFlatWF_cases o hw with rfl | ⟨q, rfl⟩ | ⟨s, rfl, _⟩
    · obtain ⟨out, hout, hmem, hnd⟩ := ih acc hfs'
      refine ⟨out, by rw [faceHits, ho]; exact hout, fun p => ?_, hnd⟩
      rw [hmem p]
      constructor
      · rintro (h | ⟨g, hg, hgp⟩)
        · exact Or.inl h
        · exact Or.inr ⟨g, by simp [hg], hgp⟩
      · rintro (h | ⟨g, hg, hgp⟩)
        · exact Or.inl h
        · rcases List.mem_cons.mp hg with rfl | hg
          · rw [ho] at hgp; cases hgp
          · exact Or.inr ⟨g, hg, hgp⟩
    · obtain ⟨out, hout, hmem, hnd⟩ := ih (addNew acc q) hfs'
      refine ⟨out, by rw [faceHits, ho]; exact hout, fun p => ?_, fun h => hnd (nodup_addNew acc q h)⟩
      rw [hmem p, mem_addNew]
      constructor
      · rintro ((h | rfl) | ⟨g, hg, hgp⟩)
        · exact Or.inl h
        · exact Or.inr ⟨f, by simp, ho⟩
        · exact Or.inr ⟨g, by simp [hg], hgp⟩
      · rintro (h | ⟨g, hg, hgp⟩)
        · exact Or.inl (Or.inl h)
        · rcases List.mem_cons.mp hg with rfl | hg
          · rw [ho] at hgp; cases hgp; exact Or.inl (Or.inr rfl)
          · exact Or.inr ⟨g, hg, hgp⟩
    · obtain ⟨out, hout, hmem, hnd⟩ := ih acc hfs'
      refine ⟨out, by rw [faceHits, ho]; exact hout, fun p => ?_, hnd⟩
      rw [hmem p]
      constructor
      · rintro (h | ⟨g, hg, hgp⟩)
        · exact Or.inl h
        · exact Or.inr ⟨g, by simp [hg], hgp⟩
      · rintro (h | ⟨g, hg, hgp⟩)
        · exact Or.inl h
        · rcases List.mem_cons.mp hg with rfl | hg
          · rw [ho] at hgp; cases hgp
          · exact Or.inr ⟨g, hg, hgp⟩

theorem IsPS_cases (o : Option Geo) (h : IsPS o) :
    o = none ∨ (∃ q, o = some (.point q)) ∨ (∃ s, o = some (.seg s)) := by
  cases o with
  | none => exact Or.inl rfl
  | some g =>
    cases g with
    | point q => exact Or.inr (Or.inl ⟨q, rfl⟩)
    | seg s => exact Or.inr (Or.inr ⟨s, rfl⟩)
    | line _ => exact absurd h (by simp [IsPS])
    | plane _ => exact absurd h (by simp [IsPS])
    | halfline _ => exact absurd h (by simp [IsPS])

theorem edgeHits_spec (edgePt : Seg → Res) : ∀ (ss : List Seg) (acc : List V3),
    (∀ s ∈ ss, ∃ o, edgePt s = .ok o ∧ IsPS o) →
    ∃ out, edgeHits edgePt ss acc = .ok out ∧
      (∀ p, p ∈ out ↔ (p ∈ acc ∨ ∃ s ∈ ss, edgePt s = .ok (some (.point p)))) ∧
      (acc.Nodup → out.Nodup) := by
  intro ss
  induction ss with
  | nil => intro acc _; exact ⟨acc, rfl, fun p => by simp, fun h => h⟩
  | cons f fs ih =>
    intro acc hfs
    obtain ⟨o, ho, hw⟩ := hfs f (by simp)
    have hfs' : ∀ f' ∈ fs, ∃ o, edgePt f' = .ok o ∧ IsPS o := fun f' hm => hfs f' (by simp [hm])
    rcases IsPS_cases o hw with rfl | ⟨q, rfl⟩ | ⟨s, rfl⟩
    · obtain ⟨out, hout, hmem, hnd⟩ := ih acc hfs'
      refine ⟨out, by rw [edgeHits, ho]; exact hout, fun p => ?_, hnd⟩
      rw [hmem p]
      constructor
      · rintro (h | ⟨g, hg, hgp⟩)
        · exact Or.inl h
        · exact Or.inr ⟨g, by simp [hg], hgp⟩
      · rintro (h | ⟨g, hg, hgp⟩)
        · exact Or.inl h
        · rcases List.mem_cons.mp hg with rfl | hg
          · rw [ho] at hgp; cases hgp
          · exact Or.inr ⟨g, hg, hgp⟩
    · obtain ⟨out, hout, hmem, hnd⟩ := ih (addNew acc q) hfs'
      refine ⟨out, by rw [edgeHits, ho]; exact hout, fun p => ?_, fun h => hnd (nodup_addNew acc q h)⟩
      rw [hmem p, mem_addNew]
      constructor
      · rintro ((h | rfl) | ⟨g, hg, hgp⟩)
        · exact Or.inl h
        · exact Or.inr ⟨f, by simp, ho⟩
        · exact Or.inr ⟨g, by simp [hg], hgp⟩
      · rintro (h | ⟨g, hg, hgp⟩)
        · exact Or.inl (Or.inl h)
        · rcases List.mem_cons.mp hg with rfl | hg
          · rw [ho] at hgp; cases hgp; exact Or.inl (Or.inr rfl)
          · exact Or.inr ⟨g, hg, hgp⟩
    · obtain ⟨out, hout, hmem, hnd⟩ := ih acc hfs'
      refine ⟨out, by rw [edgeHits, ho]; exact hout, fun p => ?_, hnd⟩
      rw [hmem p]
      constructor
      · rintro (h | ⟨g, hg, hgp⟩)
        · exact Or.inl h
        · exact Or.inr ⟨g, by simp [hg], hgp⟩
      · rintro (h | ⟨g, hg, hgp⟩)
        · exact Or.inl h
        · rcases List.mem_cons.mp hg with rfl | hg
          · rw [ho] at hgp; cases hgp
          · exact Or.inr ⟨g, hg, hgp⟩

theorem boundaryHits_spec (facePt : Polygon → ResB) (edgePt : Seg → Res) (B : Polyhedron)
    (hf : ∀ f ∈ B.faces, ∃ o, facePt f = .ok o ∧ ObjFlatWF o)
    (he : ∀ s ∈ B.edges, ∃ o, edgePt s = .ok o ∧ IsPS o) :
    ∃ out, boundaryHits facePt edgePt B = .ok out ∧ out.Nodup ∧
      ∀ p, p ∈ out ↔ ((∃ f ∈ B.faces, facePt f = .ok (some (.flat (.point p)))) ∨
        (∃ s ∈ B.edges, edgePt s = .ok (some (.point p)))) := by
  obtain ⟨acc, hacc, hmem1, hnd1⟩ := faceHits_spec facePt B.faces [] hf
  obtain ⟨out, hout, hmem2, hnd2⟩ := edgeHits_spec edgePt B.edges acc he
  refine ⟨out, ?_, hnd2 (hnd1 List.nodup_nil), fun p => ?_⟩
  · unfold boundaryHits
    rw [hacc]
    exact hout
  · rw [hmem2 p, hmem1 p]; simp

/-! ### every hit is an end point of `X ∩ K` -/

/-- every listed edge is an edge of some face (in one of the two directions) -/
def Polyhedron.EdgesReal (B : Polyhedron) : Prop :=
  ∀ s ∈ B.edges, ∃ f ∈ B.faces, ∃ e ∈ closedPairs f.pts, (s.a = e.1 ∧ s.b = e.2) ∨ (s.a = e.2 ∧ s.b = e.1)

/-- a point of `X ∩ K = pt o d '' [lo, hi]` lying in the plane of a face crossed transversally is an end point -/
theorem K3.transversal_endpoint (B : Polyhedron) (o d : V3) (X : V3 → Prop) (lo hi : Rat)
    (hXK : ∀ x, (X x ∧ B.contains x = true) ↔ ∃ t, (lo ≤ t ∧ t ≤ hi) ∧ x = pt o d t)
    (f : Polygon) (hf : f ∈ B.faces) (tp : Rat) (h1 : lo ≤ tp) (h2 : tp ≤ hi)
    (hs : f.side (pt o d tp) = 0) (hslope : dot f.plane.n d ≠ 0) :
    pt o d tp = pt o d lo ∨ pt o d tp = pt o d hi := by
  have hle : lo ≤ hi := le_trans h1 h2
  have klo : B.contains (pt o d lo) = true := ((hXK _).mpr ⟨lo, ⟨le_refl _, hle⟩, rfl⟩).2
  have khi : B.contains (pt o d hi) = true := ((hXK _).mpr ⟨hi, ⟨hle, le_refl _⟩, rfl⟩).2
  have slo := (B.contains_iff_side _).mp klo f hf
  have shi := (B.contains_iff_side _).mp khi f hf
  rw [f.side_pt] at slo shi hs
  rcases lt_or_gt_of_ne hslope with hneg | hpos
  · left
    have : tp ≤ lo := by
      by_contra hc
      have := mul_neg_of_pos_of_neg (sub_pos.mpr (not_le.mp hc)) hneg
      nlinarith
    rw [le_antisymm this h1]
  · right
    have : hi ≤ tp := by
      by_contra hc
      have := mul_pos (sub_pos.mpr (not_le.mp hc)) hpos
      nlinarith
    rw [le_antisymm h2 this]

/-- **a Point hit on a face is an end point of `X ∩ K`** -/
theorem K3.face_hit_endpoint (B : Polyhedron) (hP : B.Proper) (o d : V3) (X : V3 → Prop) (lo hi : Rat)
    (hXK : ∀ x, (X x ∧ B.contains x = true) ↔ ∃ t, (lo ≤ t ∧ t ≤ hi) ∧ x = pt o d t)
    (f : Polygon) (hf : f ∈ B.faces) (p : V3) (hex : ∀ y, y = p ↔ (X y ∧ InHull f.pts y)) :
    lo ≤ hi ∧ (p = pt o d lo ∨ p = pt o d hi) := by
  have hp := (hex p).mp rfl
  obtain ⟨tp, ⟨h1, h2⟩, hpt⟩ := (hXK p).mp ⟨hp.1, hP.face_sub f hf p hp.2⟩
  have hle : lo ≤ hi := le_trans h1 h2
  refine ⟨hle, ?_⟩
  have hs : f.side (pt o d tp) = 0 := by rw [← hpt]; exact hP.side_of_face f hf p hp.2
  by_cases hslope : dot f.plane.n d = 0
  · left
    have hlo := (hXK _).mpr ⟨lo, ⟨le_refl _, hle⟩, rfl⟩
    have slo : f.side (pt o d lo) = 0 := by
      rw [f.side_pt] at hs ⊢
      rw [hslope] at hs ⊢; linarith
    exact ((hex _).mpr ⟨hlo.1, hP.tight _ hlo.2 f hf slo⟩).symm
  · rw [hpt]
    exact K3.transversal_endpoint B o d X lo hi hXK f hf tp h1 h2 hs hslope

theorem K3.hull_orient_nonneg (f : Polygon) (hv : f.Valid) (x : V3) (hx : InHull f.pts x) (e : V3 × V3)
    (he : e ∈ closedPairs f.pts) : 0 ≤ orient f.plane.n e.1 e.2 x := by
  have hc := (Polygon.contains_iff f hv x).mpr hx
  exact (f.contains_iff_edges x (f.inPlane_of_contains x hc)).mp hc e he

/-- **a Point hit on a real edge is an end point of `X ∩ K`** -/
theorem K3.edge_hit_endpoint (B : Polyhedron) (hP : B.Proper) (o d : V3) (X : V3 → Prop) (lo hi : Rat)
    (hXK : ∀ x, (X x ∧ B.contains x = true) ↔ ∃ t, (lo ≤ t ∧ t ≤ hi) ∧ x = pt o d t)
    (s : Seg) (f : Polygon) (hf : f ∈ B.faces) (e : V3 × V3) (he : e ∈ closedPairs f.pts)
    (hse : (s.a = e.1 ∧ s.b = e.2) ∨ (s.a = e.2 ∧ s.b = e.1))
    (p : V3) (hex : ∀ y, y = p ↔ (s.den y ∧ X y)) :
    lo ≤ hi ∧ (p = pt o d lo ∨ p = pt o d hi) := by
  have hv := hP.core.faces_valid f hf
  have hsden : ∀ y, s.den y ↔ Between e.1 e.2 y := by
    intro y
    rcases hse with ⟨h1, h2⟩ | ⟨h1, h2⟩
    · unfold Seg.den Between; rw [h1, h2]
    · rw [Between_swap]; unfold Seg.den Between; rw [h1, h2]
  have hm := closedPairs_mem f.pts e he
  have hedge_in : ∀ y, Between e.1 e.2 y → InHull f.pts y := fun y hy => between_in_hull hm.1 hm.2 hy
  have hp := (hex p).mp rfl
  have hpb : Between e.1 e.2 p := (hsden p).mp hp.1
  have hpf : InHull f.pts p := hedge_in p hpb
  obtain ⟨tp, ⟨h1, h2⟩, hpt⟩ := (hXK p).mp ⟨hp.2, hP.face_sub f hf p hpf⟩
  have hle : lo ≤ hi := le_trans h1 h2
  refine ⟨hle, ?_⟩
  have hs : f.side (pt o d tp) = 0 := by rw [← hpt]; exact hP.side_of_face f hf p hpf
  by_cases hslope : dot f.plane.n d = 0
  · -- the carrier lies in the plane of `f`: all of `X ∩ K` lies in `f`
    have hinf : ∀ t, lo ≤ t → t ≤ hi → X (pt o d t) ∧ InHull f.pts (pt o d t) := by
      intro t ht1 ht2
      have hx := (hXK _).mpr ⟨t, ⟨ht1, ht2⟩, rfl⟩
      have st : f.side (pt o d t) = 0 := by
        rw [f.side_pt] at hs ⊢
        rw [hslope] at hs ⊢; linarith
      exact ⟨hx.1, hP.tight _ hx.2 f hf st⟩
    have hop : orient f.plane.n e.1 e.2 (pt o d tp) = 0 := by
      rw [← hpt]; exact orient_between_zero _ _ _ _ hpb
    have olo := K3.hull_orient_nonneg f hv _ (hinf lo (le_refl _) hle).2 e he
    have ohi := K3.hull_orient_nonneg f hv _ (hinf hi hle (le_refl _)).2 e he
    rw [orient_pt] at hop olo ohi
    rcases lt_trichotomy (dot f.plane.n (cross (sub e.2 e.1) d)) 0 with hneg | hz | hpos
    · right
      have : hi ≤ tp := by
        by_contra hc
        have := mul_neg_of_neg_of_pos hneg (sub_pos.mpr (not_le.mp hc))
        nlinarith
      rw [hpt, le_antisymm h2 this]
    · left
      have olo0 : orient f.plane.n e.1 e.2 (pt o d lo) = 0 := by
        rw [orient_pt]; rw [hz] at hop ⊢; linarith
      obtain ⟨_, _, _, _, hpp, _, htp'⟩ := hv
      have hb : Between e.1 e.2 (pt o d lo) :=
        on_edge_of_tight f.plane.n f.pts htp' e he _ (hinf lo (le_refl _) hle).2 olo0
      exact ((hex _).mpr ⟨(hsden _).mpr hb, (hinf lo (le_refl _) hle).1⟩).symm
    · left
      have : tp ≤ lo := by
        by_contra hc
        have := mul_pos hpos (sub_pos.mpr (not_le.mp hc))
        nlinarith
      rw [hpt, le_antisymm this h1]
  · rw [hpt]
    exact K3.transversal_endpoint B o d X lo hi hXK f hf tp h1 h2 hs hslope

#print axioms K3.face_hit_endpoint
#print axioms K3.edge_hit_endpoint

/-! ### 3a. Segment × ConvexPolyhedron -/

theorem K3.endpoint_add (cA cB : Bool) (out : List V3) (A Bp : V3) (hnd : out.Nodup) :
    (∀ p, p ∈ (if (cA && !cB) = true then addNew out A else if (!cA && cB) = true then addNew out Bp else out) ↔
      (p ∈ out ∨ (p = A ∧ cA = true ∧ cB = false) ∨ (p = Bp ∧ cA = false ∧ cB = true))) ∧
    (if (cA && !cB) = true then addNew out A else if (!cA && cB) = true then addNew out Bp else out).Nodup := by
  cases cA <;> cases cB <;> simp [mem_addNew, nodup_addNew, hnd]

theorem K3.ofPoints_eq (ps : List V3) : ofPoints ps = liftFlat (ofPointSet ps) := rfl

/-- **Segment × ConvexPolyhedron is exact**: for a well-formed segment and a `Proper` polyhedron whose listed edges
    are well-formed Segments and edges of faces, the handler returns `None`, a Point or a well-formed Segment denoting
    exactly `a ∩ K` (in particular it never reports "Bug detected") -/
theorem interSegPolyhedron_exact (a : Seg) (ha : a.WF) (B : Polyhedron) (hP : B.Proper)
    (hEW : ∀ s ∈ B.edges, s.WF) (hE : B.EdgesReal) :
    ExactW (interSegPolyhedron a B) a.den (BodyDen B) := by
  unfold interSegPolyhedron
  by_cases hc : (B.contains a.a && B.contains a.b) = true
  · rw [if_pos hc]
    rw [Bool.and_eq_true] at hc
    refine ⟨_, rfl, ha, fun x => ?_⟩
    show a.den x ↔ _
    exact ⟨fun h => ⟨h, Polyhedron.contains_seg B a hc.1 hc.2 x h⟩, fun h => h.1⟩
  rw [if_neg hc]
  set o := a.a with ho
  set d := sub a.b a.a with hdd
  have hd : d ≠ zero := fun h => ha.1 (sub_eq_zero_iff.mp h).symm
  have hX : ∀ x, a.den x → ∃ t, x = pt o d t := fun x ⟨t, _, _, hx⟩ => ⟨t, hx⟩
  have haden : ∀ t, a.den (pt o d t) ↔ (0 ≤ t ∧ t ≤ 1) := by
    intro t
    constructor
    · rintro ⟨t', h0, h1, hx⟩
      have : t = t' := pt_inj hd hx
      rw [this]; exact ⟨h0, h1⟩
    · rintro ⟨h0, h1⟩; exact ⟨t, h0, h1, rfl⟩
  have hpa : pt o d 0 = a.a := K3.pt_zero o d
  have hpb : pt o d 1 = a.b := by apply V3.ext' <;> simp [ho, hdd, pt, add, smul, sub]
  have hface : ∀ f ∈ B.faces, ExactPS (interSegPolygon a f) a.den (InHull f.pts) :=
    fun f hf => interSegPolygon_exactPS a ha f (hP.core.faces_valid f hf)
  have hedge : ∀ s ∈ B.edges, Exact (interSegSeg s a) s.den a.den :=
    fun s hs => interSegSeg_exact s a (hEW s hs) ha
  obtain ⟨out, hout, hnd, hmem⟩ := boundaryHits_spec (fun f => interSegPolygon a f) (fun s => interSegSeg s a) B
    (fun f hf => by obtain ⟨ob, h1, h2, _⟩ := hface f hf; exact ⟨ob, h1, h2⟩)
    (fun s hs => by obtain ⟨ob, h1, _, _⟩ := hedge s hs; exact ⟨ob, h1, interSegSeg_IsPS s a ob h1⟩)
  have hout' : segPolyhedronPointSet a B = .ok out := hout
  simp only [hout', bind, Except.bind]
  obtain ⟨hpsmem, hpsnd⟩ := K3.endpoint_add (B.contains a.a) (B.contains a.b) out a.a a.b hnd
  generalize (if (B.contains a.a && !B.contains a.b) = true then addNew out a.a
    else if (!B.contains a.a && B.contains a.b) = true then addNew out a.b else out) = ps at hpsmem hpsnd
  rw [K3.ofPoints_eq]
  apply ExactW_of_liftFlat
  -- soundness of the collected points
  have hsound : ∀ p ∈ ps, a.den p ∧ B.contains p = true := by
    intro p hp
    rcases (hpsmem p).mp hp with h | ⟨rfl, h, _⟩ | ⟨rfl, _, h⟩
    · rcases (hmem p).mp h with ⟨f, hf, hfp⟩ | ⟨s, hs, hsp⟩
      · have := (hface f hf).toExactB.point_mem p hfp
        exact ⟨this.1, hP.face_sub f hf p this.2⟩
      · have := (hedge s hs).point_mem p hsp
        refine ⟨this.2, ?_⟩
        obtain ⟨f, hf, e, he, hse⟩ := hE s hs
        have hm := closedPairs_mem f.pts e he
        apply hP.face_sub f hf
        rcases hse with ⟨h1, h2⟩ | ⟨h1, h2⟩
        · exact between_in_hull hm.1 hm.2 (by have := this.1; unfold Seg.den at this; rw [h1, h2] at this; exact this)
        · exact between_in_hull hm.2 hm.1 (by have := this.1; unfold Seg.den at this; rw [h1, h2] at this; exact this)
    · exact ⟨a.den_a, h⟩
    · exact ⟨a.den_b, h⟩
  by_cases hne : ∃ t, B.contains (pt o d t) = true
  · obtain ⟨tlo, thi, hle, hiff, ⟨f2, hf2, hs2, hd2⟩, ⟨f1, hf1, hs1, hd1⟩⟩ := B.line_interval hP.hullCore o d hd hne
    have hXK : ∀ x, (a.den x ∧ B.contains x = true) ↔ ∃ t, (max 0 tlo ≤ t ∧ t ≤ min 1 thi) ∧ x = pt o d t := by
      intro x
      constructor
      · rintro ⟨h1, h2⟩
        obtain ⟨t, rfl⟩ := hX x h1
        have e1 := (haden t).mp h1
        have e2 := (hiff t).mp h2
        exact ⟨t, ⟨max_le e1.1 e2.1, le_min e1.2 e2.2⟩, rfl⟩
      · rintro ⟨t, ⟨h1, h2⟩, rfl⟩
        have := max_le_iff.mp h1
        have := le_min_iff.mp h2
        exact ⟨(haden t).mpr ⟨by tauto, by tauto⟩, (hiff t).mpr ⟨by tauto, by tauto⟩⟩
    refine collected_exact (o := o) (d := d) ps hpsnd (max 0 tlo) (min 1 thi) hXK ?_ ?_ ?_
    · intro p hp
      rcases (hpsmem p).mp hp with h | ⟨rfl, hA, _⟩ | ⟨rfl, _, hBb⟩
      · rcases (hmem p).mp h with ⟨f, hf, hfp⟩ | ⟨s, hs, hsp⟩
        · obtain ⟨ob, hob, _, hden⟩ := hface f hf
          rw [hfp] at hob; cases hob
          exact K3.face_hit_endpoint B hP o d a.den _ _ hXK f hf p (fun y => hden y)
        · obtain ⟨ob, hob, _, hden⟩ := hedge s hs
          rw [hsp] at hob; cases hob
          obtain ⟨f, hf, e, he, hse⟩ := hE s hs
          exact K3.edge_hit_endpoint B hP o d a.den _ _ hXK s f hf e he hse p (fun y => hden y)
      · have h0 := (hiff 0).mp (by rw [hpa]; exact hA)
        have e1 : max 0 tlo = 0 := max_eq_left h0.1
        have e2 : (0 : Rat) ≤ min 1 thi := le_min (by norm_num) h0.2
        rw [e1]; exact ⟨e2, Or.inl hpa.symm⟩
      · have h1 := (hiff 1).mp (by rw [hpb]; exact hBb)
        have e1 : min 1 thi = 1 := min_eq_left h1.2
        have e2 : max 0 tlo ≤ 1 := max_le (by norm_num) h1.1
        rw [e1]; exact ⟨e2, Or.inr hpb.symm⟩
    · intro hI
      have hI1 := max_le_iff.mp (le_trans hI (min_le_left _ _))
      have hI2 := max_le_iff.mp (le_trans hI (min_le_right _ _))
      rcases le_total tlo 0 with h0 | h0
      · rw [max_eq_left h0, hpa]
        have hA : B.contains a.a = true := by rw [← hpa]; exact (hiff 0).mpr ⟨h0, hI2.1⟩
        have hBb : B.contains a.b = false := by
          cases hb : B.contains a.b with
          | false => rfl
          | true => exact absurd (by rw [hA, hb]; rfl) hc
        exact (hpsmem _).mpr (Or.inr (Or.inl ⟨rfl, hA, hBb⟩))
      · rw [max_eq_right h0]
        have hXt : a.den (pt o d tlo) := (haden tlo).mpr ⟨h0, hI1.2⟩
        have hK : B.contains (pt o d tlo) = true := (hiff tlo).mpr ⟨le_refl _, hle⟩
        have := K3.face_point_hit B hP o d a.den hX f2 hf2 _ (hface f2 hf2) tlo hXt hK hs2 (ne_of_lt hd2)
        exact (hpsmem _).mpr (Or.inl ((hmem _).mpr (Or.inl ⟨f2, hf2, this⟩)))
    · intro hI
      have hI1 := le_min_iff.mp (le_trans (le_max_left _ _) hI)
      have hI2 := le_min_iff.mp (le_trans (le_max_right _ _) hI)
      rcases le_total 1 thi with h1 | h1
      · rw [min_eq_left h1, hpb]
        have hBb : B.contains a.b = true := by rw [← hpb]; exact (hiff 1).mpr ⟨hI2.1, h1⟩
        have hA : B.contains a.a = false := by
          cases hb : B.contains a.a with
          | false => rfl
          | true => exact absurd (by rw [hBb, hb]; rfl) hc
        exact (hpsmem _).mpr (Or.inr (Or.inr ⟨rfl, hA, hBb⟩))
      · rw [min_eq_right h1]
        have hXt : a.den (pt o d thi) := (haden thi).mpr ⟨hI1.2, h1⟩
        have hK : B.contains (pt o d thi) = true := (hiff thi).mpr ⟨hle, le_refl _⟩
        have := K3.face_point_hit B hP o d a.den hX f1 hf1 _ (hface f1 hf1) thi hXt hK hs1 (ne_of_gt hd1)
        exact (hpsmem _).mpr (Or.inl ((hmem _).mpr (Or.inl ⟨f1, hf1, this⟩)))
  · have : ps = [] := by
      apply List.eq_nil_iff_forall_not_mem.mpr
      intro p hp
      obtain ⟨h1, h2⟩ := hsound p hp
      obtain ⟨t, rfl⟩ := hX p h1
      exact hne ⟨t, h2⟩
    rw [this]
    refine ofPointSet_nil_exact (fun x hx => ?_)
    obtain ⟨t, rfl⟩ := hX x hx.1
    exact hne ⟨t, hx.2⟩
#print axioms interSegPolyhedron_exact


/-! ### 3b. ConvexPolyhedron × HalfLine -/

/-- **ConvexPolyhedron × HalfLine is exact** (same hypotheses as for segments) -/
theorem interPolyhedronHalfLine_exact (B : Polyhedron) (hP : B.Proper)
    (hEW : ∀ s ∈ B.edges, s.WF) (hE : B.EdgesReal) (h : HalfLine) (hh : h.WF) :
    ExactW (interPolyhedronHalfLine B h) h.den (BodyDen B) := by
  unfold interPolyhedronHalfLine
  set o := h.p with ho
  set d := h.v with hdd
  have hd : d ≠ zero := hh.1
  have hX : ∀ x, h.den x → ∃ t, x = pt o d t := fun x ⟨t, _, hx⟩ => ⟨t, hx⟩
  have hhden : ∀ t, h.den (pt o d t) ↔ 0 ≤ t := by
    intro t
    constructor
    · rintro ⟨t', h0, hx⟩
      have : t = t' := pt_inj hd hx
      rw [this]; exact h0
    · intro h0; exact ⟨t, h0, rfl⟩
  have hpa : pt o d 0 = h.p := K3.pt_zero o d
  have hface : ∀ f ∈ B.faces, ExactPS (interPolygonHalfLine f h) h.den (InHull f.pts) :=
    fun f hf => interPolygonHalfLine_exactPS f (hP.core.faces_valid f hf) h hh
  have hedge : ∀ s ∈ B.edges, Exact (interSegHalfLine s h) s.den h.den :=
    fun s hs => interSegHalfLine_exact s h (hEW s hs) hh
  obtain ⟨out, hout, hnd, hmem⟩ := boundaryHits_spec (fun f => interPolygonHalfLine f h)
    (fun s => interSegHalfLine s h) B
    (fun f hf => by obtain ⟨ob, h1, h2, _⟩ := hface f hf; exact ⟨ob, h1, h2⟩)
    (fun s hs => by obtain ⟨ob, h1, _, _⟩ := hedge s hs; exact ⟨ob, h1, interSegHalfLine_IsPS s h ob h1⟩)
  simp only [hout, bind, Except.bind]
  have hpsmem : ∀ p, p ∈ (if B.contains h.p = true then addNew out h.p else out) ↔
      (p ∈ out ∨ (p = h.p ∧ B.contains h.p = true)) := by
    intro p
    by_cases hcp : B.contains h.p = true
    · rw [if_pos hcp, mem_addNew]; simp [hcp]
    · rw [if_neg hcp]; simp [hcp]
  have hpsnd : (if B.contains h.p = true then addNew out h.p else out).Nodup := by
    split
    · exact nodup_addNew out h.p hnd
    · exact hnd
  generalize (if B.contains h.p = true then addNew out h.p else out) = ps at hpsmem hpsnd
  rw [K3.ofPoints_eq]
  apply ExactW_of_liftFlat
  have hsound : ∀ p ∈ ps, h.den p ∧ B.contains p = true := by
    intro p hp
    rcases (hpsmem p).mp hp with h' | ⟨rfl, h'⟩
    · rcases (hmem p).mp h' with ⟨f, hf, hfp⟩ | ⟨s, hs, hsp⟩
      · have := (hface f hf).toExactB.point_mem p hfp
        exact ⟨this.1, hP.face_sub f hf p this.2⟩
      · have := (hedge s hs).point_mem p hsp
        refine ⟨this.2, ?_⟩
        obtain ⟨f, hf, e, he, hse⟩ := hE s hs
        have hm := closedPairs_mem f.pts e he
        apply hP.face_sub f hf
        rcases hse with ⟨h1, h2⟩ | ⟨h1, h2⟩
        · exact between_in_hull hm.1 hm.2 (by have := this.1; unfold Seg.den at this; rw [h1, h2] at this; exact this)
        · exact between_in_hull hm.2 hm.1 (by have := this.1; unfold Seg.den at this; rw [h1, h2] at this; exact this)
    · exact ⟨h.den_p, h'⟩
  by_cases hne : ∃ t, B.contains (pt o d t) = true
  · obtain ⟨tlo, thi, hle, hiff, ⟨f2, hf2, hs2, hd2⟩, ⟨f1, hf1, hs1, hd1⟩⟩ := B.line_interval hP.hullCore o d hd hne
    have hXK : ∀ x, (h.den x ∧ B.contains x = true) ↔ ∃ t, (max 0 tlo ≤ t ∧ t ≤ thi) ∧ x = pt o d t := by
      intro x
      constructor
      · rintro ⟨h1, h2⟩
        obtain ⟨t, rfl⟩ := hX x h1
        have e1 := (hhden t).mp h1
        have e2 := (hiff t).mp h2
        exact ⟨t, ⟨max_le e1 e2.1, e2.2⟩, rfl⟩
      · rintro ⟨t, ⟨h1, h2⟩, rfl⟩
        have := max_le_iff.mp h1
        exact ⟨(hhden t).mpr this.1, (hiff t).mpr ⟨this.2, h2⟩⟩
    refine collected_exact (o := o) (d := d) ps hpsnd (max 0 tlo) thi hXK ?_ ?_ ?_
    · intro p hp
      rcases (hpsmem p).mp hp with h' | ⟨rfl, hA⟩
      · rcases (hmem p).mp h' with ⟨f, hf, hfp⟩ | ⟨s, hs, hsp⟩
        · obtain ⟨ob, hob, _, hden⟩ := hface f hf
          rw [hfp] at hob; cases hob
          exact K3.face_hit_endpoint B hP o d h.den _ _ hXK f hf p (fun y => hden y)
        · obtain ⟨ob, hob, _, hden⟩ := hedge s hs
          rw [hsp] at hob; cases hob
          obtain ⟨f, hf, e, he, hse⟩ := hE s hs
          exact K3.edge_hit_endpoint B hP o d h.den _ _ hXK s f hf e he hse p (fun y => hden y)
      · have h0 := (hiff 0).mp (by rw [hpa]; exact hA)
        have e1 : max 0 tlo = 0 := max_eq_left h0.1
        rw [e1]; exact ⟨h0.2, Or.inl hpa.symm⟩
    · intro hI
      have hI1 := max_le_iff.mp hI
      rcases le_total tlo 0 with h0 | h0
      · rw [max_eq_left h0, hpa]
        have hA : B.contains h.p = true := by rw [← hpa]; exact (hiff 0).mpr ⟨h0, hI1.1⟩
        exact (hpsmem _).mpr (Or.inr ⟨rfl, hA⟩)
      · rw [max_eq_right h0]
        have hXt : h.den (pt o d tlo) := (hhden tlo).mpr h0
        have hK : B.contains (pt o d tlo) = true := (hiff tlo).mpr ⟨le_refl _, hle⟩
        have := K3.face_point_hit B hP o d h.den hX f2 hf2 _ (hface f2 hf2) tlo hXt hK hs2 (ne_of_lt hd2)
        exact (hpsmem _).mpr (Or.inl ((hmem _).mpr (Or.inl ⟨f2, hf2, this⟩)))
    · intro hI
      have hI1 := max_le_iff.mp hI
      have hXt : h.den (pt o d thi) := (hhden thi).mpr hI1.1
      have hK : B.contains (pt o d thi) = true := (hiff thi).mpr ⟨hle, le_refl _⟩
      have := K3.face_point_hit B hP o d h.den hX f1 hf1 _ (hface f1 hf1) thi hXt hK hs1 (ne_of_gt hd1)
      exact (hpsmem _).mpr (Or.inl ((hmem _).mpr (Or.inl ⟨f1, hf1, this⟩)))
  · have : ps = [] := by
      apply List.eq_nil_iff_forall_not_mem.mpr
      intro p hp
      obtain ⟨h1, h2⟩ := hsound p hp
      obtain ⟨t, rfl⟩ := hX p h1
      exact hne ⟨t, h2⟩
    rw [this]
    refine ofPointSet_nil_exact (fun x hx => ?_)
    obtain ⟨t, rfl⟩ := hX x hx.1
    exact hne ⟨t, hx.2⟩
#print axioms interPolyhedronHalfLine_exact

/-! ### variants with the hull of the vertices as the denotation of the body -/
theorem interSegPolyhedron_exact_hull (a : Seg) (ha : a.WF) (B : Polyhedron) (hP : B.Proper)
    (hEW : ∀ s ∈ B.edges, s.WF) (hE : B.EdgesReal) :
    ExactW (interSegPolyhedron a B) a.den (InHull B.verts) := by
  obtain ⟨o, ho, hw, hd⟩ := interSegPolyhedron_exact a ha B hP hEW hE
  exact ⟨o, ho, hw, fun x => by rw [hd x]; exact and_congr Iff.rfl (hP.contains_iff_hull x)⟩

theorem interPolyhedronHalfLine_exact_hull (B : Polyhedron) (hP : B.Proper)
    (hEW : ∀ s ∈ B.edges, s.WF) (hE : B.EdgesReal) (h : HalfLine) (hh : h.WF) :
    ExactW (interPolyhedronHalfLine B h) h.den (InHull B.verts) := by
  obtain ⟨o, ho, hw, hd⟩ := interPolyhedronHalfLine_exact B hP hEW hE h hh
  exact ⟨o, ho, hw, fun x => by rw [hd x]; exact and_congr Iff.rfl (hP.contains_iff_hull x)⟩

end G3D
