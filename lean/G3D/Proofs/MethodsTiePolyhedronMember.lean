import G3D.Extracted.Mpolyhedron
import G3D.Proofs.MethodsTiePolyhedronShared
/-! # Tie, group `mpolyhedron`, role MEMBERSHIP (C05): `__contains__` (Point / Segment / ConvexPolygon / other).  Conventions, trusted readings and the deviations found: `G3D.Proofs.MethodsTie`, header of `G3D.Model.PyRtM`. -/
set_option linter.unusedSimpArgs false
set_option linter.unusedVariables false
set_option linter.style.nameCheck false
set_option linter.unusedTactic false
set_option linter.unreachableTactic false
namespace G3D.Tie
open V3 PyRt Extracted

theorem m_ConvexPolyhedron___contains___eq_point (B : Polyhedron) (x : V3) :
    m_ConvexPolyhedron___contains__ (Self.ofPolyhedron B) (.obj (ptObj x)) = .ok (.bool (B.contains x)) := by
  unfold m_ConvexPolyhedron___contains__
  simp only [Self.ofPolyhedron, pyrt, ptObj, pyFld, List.map_map, decide_true, if_true]
  rw [forIn_repr (Val.obj ∘ Obj.polygon) (fun s : Option Val × Unit => s) B.faces _
    (fun f _ => if decide (0 < dot (sub x f.center) f.plane.n) = true then .ok (.done (some (Val.bool false), ())) else .ok (.yield (none, ())))]
  · rw [forIn_return_false B.faces (fun f => decide (0 < dot (sub x f.center) f.plane.n))]
    simp only [Polyhedron.contains]
    rw [List.all_eq_not_any_not]
    have : (fun f : Polygon => !decide (dot (sub x f.center) f.plane.n ≤ 0)) = fun f => decide (0 < dot (sub x f.center) f.plane.n) := by
      funext f; rw [Bool.eq_iff_iff]; simp [not_le]
    rw [this]
    cases (B.faces.any fun f => decide (0 < dot (sub x f.center) f.plane.n)) <;> simp
  · intro f _ s
    by_cases ho : 0 < dot (sub x f.center) f.plane.n <;>
      simp [Function.comp, pyrt, pyAttr_center_point, pyAttr_n, ptObj, pyVector, pyMulM, pyCmpTol, tolEval, Val.asRat?, Val.truthy, ho,
        ForInStep.map']

theorem m_ConvexPolyhedron___contains___eq_seg (B : Polyhedron) (s : Seg) :
    m_ConvexPolyhedron___contains__ (Self.ofPolyhedron B) (.obj (sgObj s)) = .ok (.bool (B.containsSeg s)) := by
  unfold m_ConvexPolyhedron___contains__
  simp only [pyPack_ConvexPolyhedron_of, pyrt, sgObj]
  simp [pyInM, pyContains, Polyhedron.containsSeg, pyrt]

theorem m_ConvexPolyhedron___contains___eq_polygon (B : Polyhedron) (P : Polygon) :
    m_ConvexPolyhedron___contains__ (Self.ofPolyhedron B) (.obj (.polygon P)) = .ok (.bool (B.containsPolygon P)) := by
  unfold m_ConvexPolyhedron___contains__
  simp only [pyPack_ConvexPolyhedron_of, pyrt, List.map_map, decide_false, decide_true, if_true, if_false, Bool.false_eq_true, reduceCtorEq]
  rw [forIn_repr (Val.obj ∘ ptObj) (fun s : Option Val × Unit => s) P.pts _
    (fun p _ => if (!B.contains p) = true then .ok (.done (some (Val.bool false), ())) else .ok (.yield (none, ())))]
  · rw [forIn_return_false P.pts (fun p => !B.contains p)]
    simp only [Polyhedron.containsPolygon]
    rw [List.all_eq_not_any_not]
    cases (P.pts.any fun p => !B.contains p) <;> simp
  · intro p _ s
    cases hb : B.contains p <;>
      simp [Function.comp, ptObj, pyInM, pyContains, hb, pyNot, Val.truthy, ForInStep.map']

theorem m_ConvexPolyhedron___contains___eq_other (B : Polyhedron) (l : Line) :
    m_ConvexPolyhedron___contains__ (Self.ofPolyhedron B) (.obj (lnObj l)) = .error .notImpl := by
  unfold m_ConvexPolyhedron___contains__
  simp [pyrt, lnObj]

end G3D.Tie
