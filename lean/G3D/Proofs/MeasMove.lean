import G3D.Proofs.MeasBody
import G3D.Proofs.MoveReturned

/-! # C06 / C07: the measures are invariant under `move` (translation)

    Already present: `Polygon.move_edgeLenSqs`, `Polygon.move_areaNum`, `Polygon.move_area_sq` (division-free),
    `Polyhedron.moved_volume`, `Polyhedron.move_valid` (volume of the moved body).  Added here: the statements in terms
    of `Polygon.areaSq`, the object `move` RETURNS, and edge lengths / face areas / surface-integral volume of the moved
    body. -/
namespace G3D
open V3

/-- the vector area of a closed cycle is translation invariant -/
theorem Meas.vecArea2_translate (v : V3) (l : List V3) : vecArea2 (l.map (fun p => add p v)) = vecArea2 l := by
  rw [← vec_fan (add zero v) (l.map (fun p => add p v)), ← vec_fan zero l, closedPairs_map, List.map_map]
  congr 1
  apply List.map_congr_left
  intro e _
  simp only [Function.comp, sub_add_add]

/-- `move` keeps the squared area of a valid polygon (receiver after the call) -/
theorem Polygon.move_areaSq (P : Polygon) (hv : P.Valid) (hc : P.CentreInside) (v : V3) :
    (P.move v).1.areaSq = P.areaSq := by
  obtain ⟨k, hk, _, ha, hn⟩ := Polygon.move_areaNum P hv hc v
  have hN := normSq_pos (Polygon.plane_WF P hv)
  unfold Polygon.areaSq
  rw [ha, hn]
  have hk0 : k ≠ 0 := ne_of_gt hk
  field_simp

/-- `move` on a valid polygon: the receiver after the call and the RETURNED polygon have the squared area and the
    squared edge lengths of the polygon before the call -/
theorem Polygon.move_measures (P : Polygon) (hv : P.Valid) (hc : P.CentreInside) (v : V3) :
    (P.move v).2 = .ok (P.move v).1 ∧ (P.move v).1.Valid ∧
    (P.move v).1.areaSq = P.areaSq ∧ (P.move v).1.edgeLenSqs = P.edgeLenSqs :=
  ⟨Polygon.move_returned_eq_receiver P hv v, Polygon.move_valid P hv v, Polygon.move_areaSq P hv hc v,
    Polygon.move_edgeLenSqs P v⟩

theorem Meas.segT_lenSq (v : V3) (s : Seg) : (segT v s).lenSq = s.lenSq := by
  show normSq (sub (add s.b v) (add s.a v)) = normSq (sub s.b s.a)
  rw [sub_add_add]

/-- **the moved body** (`Polyhedron.moved`, what `move` leaves behind and returns on a `Valid` body): squared edge
    lengths, squared face areas (list-wise, not only as multisets) and volume are those of the body before the move;
    the volume is the surface integral over the ORIGINAL faces for every reference point -/
theorem Polyhedron.moved_measures (B : Polyhedron) (hV : B.Valid) (hctr : ∀ f ∈ B.faces, f.CentreInside) (v : V3) :
    (B.moved v).edgeLenSqs = (edgesOf B.faces []).map Seg.lenSq ∧
    (B.moved v).faces.map Polygon.areaSq = B.faces.map Polygon.areaSq ∧
    (∀ q, (B.moved v).volume = vol6 (B.faces.map (·.pts)) q / 6) := by
  refine ⟨?_, ?_, ?_⟩
  · show ((edgesOf B.faces []).map (segT v)).map Seg.lenSq = _
    rw [List.map_map]
    apply List.map_congr_left
    intro s _
    exact Meas.segT_lenSq v s
  · show (B.faces.map (fun f => (rebuild f).translate v)).map Polygon.areaSq = _
    rw [List.map_map]
    apply List.map_congr_left
    intro f hf
    have hfv := hV.faces_valid f hf
    obtain ⟨_, hval, _, hpts, hcen, _⟩ := moved_face f hfv (hV.center_in_plane f hf) v
    have hne : f.pts ≠ [] := by obtain ⟨p0, _, _, _, hp, _, _⟩ := hfv; rw [hp]; simp
    have hci : ((rebuild f).translate v).CentreInside :=
      Polygon.CentreInside.of_mean hval (by rw [hcen, hpts]; exact (meanV_translate v f.pts hne).symm)
    simp only [Function.comp]
    rw [Polygon.areaSq_eq_vecArea _ hval hci, f.areaSq_eq_vecArea hfv (hctr f hf), hpts, Meas.vecArea2_translate]
  · intro q
    rw [B.moved_volume hV hctr v, vol6_ref_independent _ hV.closed q (meanV (collectVerts B.faces)),
      vol6_eq_sum_coneTerm, List.map_map]
    have h1 : B.faces.map (fun f => pyramidVolume f (meanV (collectVerts B.faces))) =
        B.faces.map (fun f => coneTerm f.pts (meanV (collectVerts B.faces)) / 6) := by
      apply List.map_congr_left
      intro f hf
      exact Meas.pyramidVolume_of_face f f (hV.faces_valid f hf) (hV.center_in_plane f hf) (hV.faces_valid f hf)
        (hctr f hf) (fun _ => Iff.rfl) _ (le_of_lt (hV.mean_interior f hf))
    rw [h1]
    have := Meas.sum_map_div (B.faces.map (·.pts)) (fun l => coneTerm l (meanV (collectVerts B.faces))) 6
    rw [List.map_map, List.map_map] at this
    exact this
#print axioms Polygon.move_measures
#print axioms Polyhedron.moved_measures
end G3D
