import G3D.Extracted.Kvecr
import G3D.Proofs.VecRLemmas
import Mathlib.Analysis.Real.Sqrt
import Mathlib.Tactic.Ring
import Mathlib.Tactic.Linarith
import Mathlib.Tactic.FieldSimp
import Mathlib.Tactic.Positivity
/-! # kvec, `Vector.length`, `Vector.normalized`  (C06, C10)
    `G3D.Extracted.impl_*` are regenerated on every run (tools/extract_kvecr.py, engine tools/kernels_engine.py): the REAL code is run on
    symbolic numbers, every comparison against the tolerance is recorded (operands and shape) and answered from a scripted
    path.  Each kernel has its own `section`: when the walk of ONE kernel fails the generated file holds only the marker
    `impl_<kernel>_EXTRACTION_FAILED` for it and exactly the theorems of that section stop compiling.
    (The ties of the group kvec are spread over four modules, one per property served: KTieKvecEq (C08), KTieKvecOrth (C11),
    KTieKvecLen (C06), KTieKvecPar (C11, C19).) -/
namespace G3D.KTie.Kvec
open G3D G3D.Extracted Real

section length
theorem length_tie (a : RVec) : impl_length a = √(RVec.normSq a) := by
  simp only [impl_length, sum0]

theorem length_cast (a : V3) : impl_length a.toR = √((V3.normSq a : ℚ) : ℝ) := by
  rw [length_tie, toR_normSq]
end length

section normalized
theorem normalized_tie (a : RVec) : impl_normalized a = RVec.smul (1 / √(RVec.normSq a)) a := by
  apply RVec.ext' <;> simp only [impl_normalized, sum0, RVec.smul] <;> ring

theorem normalized_unit (a : RVec) (h : a ≠ RVec.zero) : RVec.normSq (impl_normalized a) = 1 := by
  rw [normalized_tie]
  have hN := nsq_pos h
  have hs : √(RVec.normSq a) ^ 2 = RVec.normSq a := Real.sq_sqrt hN.le
  have hs0 : √(RVec.normSq a) ≠ 0 := (Real.sqrt_pos.mpr hN).ne'
  have : RVec.normSq (RVec.smul (1 / √(RVec.normSq a)) a) = RVec.normSq a / √(RVec.normSq a) ^ 2 := by
    simp only [RVec.normSq, RVec.dot, RVec.smul]; field_simp
  rw [this, hs]; exact div_self hN.ne'
end normalized

end G3D.KTie.Kvec
