import G3D.Model.Xf
import G3D.Proofs.Algebra
import G3D.Proofs.Distance
import G3D.Proofs.Angle

namespace G3D
open V3

theorem sgn_sq (b : Bool) : sgn b * sgn b = 1 := by cases b <;> simp [sgn]

theorem SP.dot_apply (s : SP) (u v : V3) : dot (s.apply u) (s.apply v) = dot u v := by
  obtain ⟨p, sx, sy, sz⟩ := s
  cases p <;> cases sx <;> cases sy <;> cases sz <;> simp [SP.apply, Perm3.apply, dot, sgn] <;> ring

theorem SP.cross_apply (s : SP) (u v : V3) : cross (s.apply u) (s.apply v) = smul s.det (s.apply (cross u v)) := by
  obtain ⟨p, sx, sy, sz⟩ := s
  cases p <;> cases sx <;> cases sy <;> cases sz <;>
    (apply V3.ext' <;> simp [SP.apply, Perm3.apply, cross, smul, SP.det, Perm3.sign, sgn] <;> ring)

theorem SP.apply_add (s : SP) (u v : V3) : s.apply (add u v) = add (s.apply u) (s.apply v) := by
  obtain ⟨p, sx, sy, sz⟩ := s
  cases p <;> (apply V3.ext' <;> simp only [SP.apply, Perm3.apply, add] <;> ring)

theorem SP.apply_sub (s : SP) (u v : V3) : s.apply (sub u v) = sub (s.apply u) (s.apply v) := by
  obtain ⟨p, sx, sy, sz⟩ := s
  cases p <;> (apply V3.ext' <;> simp only [SP.apply, Perm3.apply, sub] <;> ring)

theorem SP.apply_smul (s : SP) (k : Rat) (v : V3) : s.apply (smul k v) = smul k (s.apply v) := by
  obtain ⟨p, sx, sy, sz⟩ := s
  cases p <;> (apply V3.ext' <;> simp only [SP.apply, Perm3.apply, smul] <;> ring)

theorem SP.apply_injective (s : SP) {u v : V3} (h : s.apply u = s.apply v) : u = v := by
  have h0 : normSq (sub u v) = 0 := by
    have : normSq (sub u v) = dot (s.apply (sub u v)) (s.apply (sub u v)) := (SP.dot_apply s _ _).symm
    rw [this, SP.apply_sub, h]; simp [dot, sub]
  exact sub_eq_zero_iff.mp (normSq_eq_zero.mp h0)

/-- every vector is the image of some vector (the signed permutation is its own kind of inverse) -/
theorem SP.apply_surjective (s : SP) (y : V3) : ∃ x, s.apply x = y := by
  obtain ⟨p, sx, sy, sz⟩ := s
  cases p
  · exact ⟨⟨sgn sx * y.x, sgn sy * y.y, sgn sz * y.z⟩, by
      cases sx <;> cases sy <;> cases sz <;> (apply V3.ext' <;> simp [SP.apply, Perm3.apply, sgn])⟩
  · exact ⟨⟨sgn sx * y.x, sgn sz * y.z, sgn sy * y.y⟩, by
      cases sx <;> cases sy <;> cases sz <;> (apply V3.ext' <;> simp [SP.apply, Perm3.apply, sgn])⟩
  · exact ⟨⟨sgn sy * y.y, sgn sx * y.x, sgn sz * y.z⟩, by
      cases sx <;> cases sy <;> cases sz <;> (apply V3.ext' <;> simp [SP.apply, Perm3.apply, sgn])⟩
  · exact ⟨⟨sgn sz * y.z, sgn sx * y.x, sgn sy * y.y⟩, by
      cases sx <;> cases sy <;> cases sz <;> (apply V3.ext' <;> simp [SP.apply, Perm3.apply, sgn])⟩
  · exact ⟨⟨sgn sy * y.y, sgn sz * y.z, sgn sx * y.x⟩, by
      cases sx <;> cases sy <;> cases sz <;> (apply V3.ext' <;> simp [SP.apply, Perm3.apply, sgn])⟩
  · exact ⟨⟨sgn sz * y.z, sgn sy * y.y, sgn sx * y.x⟩, by
      cases sx <;> cases sy <;> cases sz <;> (apply V3.ext' <;> simp [SP.apply, Perm3.apply, sgn])⟩

theorem Xf.pt_sub (T : Xf) (x y : V3) : sub (T.pt x) (T.pt y) = T.dir (sub x y) := by
  simp only [Xf.pt, Xf.dir, SP.apply_sub]
  apply V3.ext' <;> simp only [sub, add, smul] <;> ring

theorem Xf.pt_injective (T : Xf) (hk : 0 < T.k) {x y : V3} (h : T.pt x = T.pt y) : x = y := by
  have h1 : T.dir (sub x y) = zero := by rw [← Xf.pt_sub, h]; apply V3.ext' <;> simp [sub, zero]
  have h2 : T.s.apply (sub x y) = zero := smul_eq_zero_of_ne (ne_of_gt hk) h1
  have h3 : T.s.apply (sub x y) = T.s.apply zero := by
    rw [h2]; obtain ⟨p, sx, sy, sz⟩ := T.s; cases p <;> (apply V3.ext' <;> simp [SP.apply, Perm3.apply, zero])
  exact sub_eq_zero_iff.mp (SP.apply_injective T.s h3)

theorem Xf.pt_surjective (T : Xf) (hk : 0 < T.k) (y : V3) : ∃ x, T.pt x = y := by
  obtain ⟨x, hx⟩ := SP.apply_surjective T.s (smul (1 / T.k) (sub y T.t))
  refine ⟨x, ?_⟩
  simp only [Xf.pt, hx]
  apply V3.ext' <;> simp only [add, smul, sub] <;> field_simp <;> ring

theorem Xf.pt_affine (T : Xf) (a d : V3) (t : Rat) : T.pt (add a (smul t d)) = add (T.pt a) (smul t (T.dir d)) := by
  simp only [Xf.pt, Xf.dir, SP.apply_add, SP.apply_smul]
  apply V3.ext' <;> simp only [add, smul] <;> ring

/-- C13 (membership): the transformed object contains exactly the transformed points -/
theorem Xf.den_geo (T : Xf) (hk : 0 < T.k) (g : Geo) (x : V3) : (T.geo g).den (T.pt x) ↔ g.den x := by
  cases g with
  | point p =>
    simp only [Xf.geo, Geo.den]
    exact ⟨fun h => T.pt_injective hk h, fun h => by rw [h]⟩
  | line l =>
    simp only [Xf.geo, Geo.den, Line.den]
    constructor
    · rintro ⟨t, h⟩; exact ⟨t, T.pt_injective hk (by rw [h, Xf.pt_affine])⟩
    · rintro ⟨t, rfl⟩; exact ⟨t, Xf.pt_affine T _ _ t⟩
  | plane p =>
    simp only [Xf.geo, Geo.den, Plane.den]
    rw [Xf.pt_sub]
    have : dot (T.nrm p.n) (T.dir (sub x p.p)) = T.k * dot p.n (sub x p.p) := by
      simp only [Xf.nrm, Xf.dir]
      have := SP.dot_apply T.s p.n (sub x p.p)
      rw [← this]; simp only [dot, smul]; ring
    rw [this]
    constructor
    · intro h; exact (mul_eq_zero.mp h).resolve_left (ne_of_gt hk)
    · intro h; rw [h]; ring
  | seg s =>
    simp only [Xf.geo, Geo.den, Seg.mk', Seg.den]
    constructor
    · rintro ⟨t, h0, h1, h⟩
      refine ⟨t, h0, h1, T.pt_injective hk ?_⟩
      rw [h, Xf.pt_affine, Xf.pt_sub]
    · rintro ⟨t, h0, h1, rfl⟩
      exact ⟨t, h0, h1, by rw [Xf.pt_affine, Xf.pt_sub]⟩
  | halfline h =>
    simp only [Xf.geo, Geo.den, HalfLine.mk', HalfLine.den]
    constructor
    · rintro ⟨t, h0, he⟩; exact ⟨t, h0, T.pt_injective hk (by rw [he, Xf.pt_affine])⟩
    · rintro ⟨t, h0, rfl⟩; exact ⟨t, h0, Xf.pt_affine T _ _ t⟩

theorem Xf.geo_WF (T : Xf) (hk : 0 < T.k) (g : Geo) (hg : g.WF) : (T.geo g).WF := by
  have hdir : ∀ d : V3, d ≠ zero → T.dir d ≠ zero := by
    intro d hd h
    apply hd
    have h2 : T.s.apply d = zero := smul_eq_zero_of_ne (ne_of_gt hk) h
    have : normSq d = 0 := by
      rw [show normSq d = dot (T.s.apply d) (T.s.apply d) from (SP.dot_apply T.s d d).symm, h2]; simp [dot, zero]
    exact normSq_eq_zero.mp this
  cases g with
  | point p => trivial
  | line l => exact hdir _ hg
  | plane p =>
    intro h
    apply hg
    have : normSq p.n = 0 := by
      rw [show normSq p.n = dot (T.s.apply p.n) (T.s.apply p.n) from (SP.dot_apply T.s _ _).symm]
      have h' : T.s.apply p.n = zero := h
      rw [h']; simp [dot, zero]
    exact normSq_eq_zero.mp this
  | seg s => exact Seg.mk'_WF (fun h => hg.1 (T.pt_injective hk h))
  | halfline h => exact ⟨hdir _ hg.1, rfl⟩

/-- C13 (intersection of flat types): transforming both operands transforms the result -/
theorem interFlat_xf (T : Xf) (hk : 0 < T.k) (a b : Geo) (ha : a.WF) (hb : b.WF) :
    ∃ o o', interFlat a b = .ok o ∧ interFlat (T.geo a) (T.geo b) = .ok o' ∧
      ∀ x, denOpt o' (T.pt x) ↔ denOpt o x := by
  obtain ⟨o, ho, _, hd⟩ := interFlat_exact a b ha hb
  obtain ⟨o', ho', _, hd'⟩ := interFlat_exact (T.geo a) (T.geo b) (T.geo_WF hk a ha) (T.geo_WF hk b hb)
  exact ⟨o, o', ho, ho', fun x => by rw [hd' (T.pt x), hd x, T.den_geo hk a x, T.den_geo hk b x]⟩
#print axioms Xf.den_geo
#print axioms interFlat_xf
end G3D
