import G3D.Proofs.Euler4

/-! # Euler's polyhedron formula, part 5: assembly

    `V - E + F = 2` for every `Valid`, `FaceLocal` polyhedron in which every directed edge occurs once:
    * `E` = number of ascending directed edges (`Eu.edges_count`) = `Σ_f (1 + #ascending corners of f)`
      (`Eu.face_count`) = `F + #ascending corners`;
    * the middle vertex is a bijection from the ascending corners onto the vertices other than the lowest and the
      highest one (`Eu.asc_unique`, `Eu.asc_exists`), so `#ascending corners = V - 2`. -/
namespace G3D
open V3

theorem Eu.sum_map_one_add {α : Type} (g : α → Nat) : ∀ l : List α,
    (l.map (fun x => 1 + g x)).sum = l.length + (l.map g).sum := by
  intro l
  induction l with
  | nil => rfl
  | cons a l ih => simp only [List.map_cons, List.sum_cons, List.length_cons, ih]; omega

/-- all corners of all faces -/
def Eu.corners (B : Polyhedron) : List (V3 × V3 × V3) := B.faces.flatMap (fun f => Eu.cycTriples f.pts)

theorem Eu.mem_corners (B : Polyhedron) (t : V3 × V3 × V3) :
    t ∈ Eu.corners B ↔ ∃ f ∈ B.faces, t ∈ Eu.cycTriples f.pts := by
  unfold Eu.corners; rw [List.mem_flatMap]

theorem Eu.corners_nodup {B : Polyhedron} (H : Eu.Hyp B) : (Eu.corners B).Nodup := by
  unfold Eu.corners
  rw [List.nodup_flatMap]
  refine ⟨fun f hf => Eu.cycTriples_nodup f.pts (H.valid.faces_valid f hf).nodup, ?_⟩
  refine List.Pairwise.imp_of_mem ?_ H.faces_nodup
  intro f g hf hg hne
  simp only [Function.onFun]
  intro t ht1 ht2
  exact hne (H.disjoint f g hf hg _ (Eu.cycTriples_mem _ t ht1).2 (Eu.cycTriples_mem _ t ht2).2)

/-- **Euler's formula for a generic functional** -/
theorem Eu.euler_of_generic {B : Polyhedron} (H : Eu.Hyp B) (d : V3) (hgen : Eu.Generic B d) :
    ((collectVerts B.faces).length : Int) - (edgesOf B.faces []).length + B.faces.length = 2 := by
  have hP := H.proper
  set V := collectVerts B.faces with hV
  have hVnd : V.Nodup := collectVerts_nodup B.faces
  -- the edges
  have hsep : ∀ e ∈ dirEdges (B.faces.map (·.pts)), dot d e.1 ≠ dot d e.2 := by
    intro e he
    obtain ⟨f, hf, hef⟩ := (mem_dirEdges B.faces e).mp he
    have hm := closedPairs_mem _ _ hef
    exact hgen.face f hf _ hm.1 _ hm.2 ((H.valid.faces_valid f hf).edges_distinct e hef)
  have hE := Eu.edges_count B.faces d H.valid.closed H.nodup hsep
  have hE2 : (dirEdges (B.faces.map (·.pts))).countP (fun e => decide (dot d e.1 < dot d e.2)) =
      B.faces.length + (Eu.corners B).countP (Eu.amT d) := by
    rw [K4.FacetBody.dirEdges_eq, List.countP_flatMap]
    unfold Eu.corners
    rw [List.countP_flatMap, ← Eu.sum_map_one_add]
    congr 1
    apply List.map_congr_left
    intro f hf
    exact Eu.face_count f (H.valid.faces_valid f hf) d (hgen.face f hf)
  -- the lowest and the highest vertex
  obtain ⟨f0, hf0⟩ := List.exists_mem_of_ne_nil _ H.valid.nonempty
  obtain ⟨p0, p1, p2, rest, hp, _, _⟩ := id (H.valid.faces_valid f0 hf0)
  have hp0 : p0 ∈ V := (mem_collectVerts _ p0).mpr ⟨f0, hf0, by rw [hp]; simp⟩
  have hp1 : p1 ∈ V := (mem_collectVerts _ p1).mpr ⟨f0, hf0, by rw [hp]; simp⟩
  have hp01 : p0 ≠ p1 := by
    have := (H.valid.faces_valid f0 hf0).nodup
    rw [hp] at this
    intro h; rw [h] at this; simp at this
  have hVne : V ≠ [] := by intro h; rw [h] at hp0; cases hp0
  obtain ⟨vmax, hmaxV, hmax⟩ := exists_max_of_list (fun x => dot d x) V hVne
  obtain ⟨vmin, hminV, hmin0⟩ := exists_max_of_list (fun x => - dot d x) V hVne
  have hmin : ∀ w ∈ V, dot d vmin ≤ dot d w := fun w hw => by
    have : - dot d w ≤ - dot d vmin := hmin0 w hw
    linarith
  have hmax' : ∀ w ∈ V, dot d w ≤ dot d vmax := fun w hw => hmax w hw
  have hne : vmax ≠ vmin := by
    intro h
    have a0 := hmin p0 hp0; have a1 := hmin p1 hp1
    have b0 := hmax' p0 hp0; have b1 := hmax' p1 hp1
    rw [h] at b0 b1
    exact hgen p0 hp0 p1 hp1 hp01 (by linarith)
  -- the middle vertex maps the ascending corners bijectively onto the other vertices
  set A := (Eu.corners B).filter (Eu.amT d) with hA
  have hAmem : ∀ t, t ∈ A ↔ (∃ f ∈ B.faces, t ∈ Eu.cycTriples f.pts) ∧ Eu.amT d t = true := by
    intro t; rw [hA, List.mem_filter, Eu.mem_corners]
  have hMnd : (A.map (fun t => t.2.1)).Nodup := by
    apply List.Nodup.map_on _ ((Eu.corners_nodup H).filter _)
    intro t ht t' ht' hmid
    obtain ⟨⟨f, hf, htf⟩, ha⟩ := (hAmem t).mp ht
    obtain ⟨⟨g, hg, htg⟩, ha'⟩ := (hAmem t').mp ht'
    exact (Eu.asc_unique H d f g hf hg t t' htf htg hmid ha ha').2
  have hMmem : ∀ v, v ∈ A.map (fun t => t.2.1) ↔
      v ∈ V.filter (fun v => decide (v ≠ vmax ∧ v ≠ vmin)) := by
    intro v
    rw [List.mem_filter, List.mem_map]
    simp only [decide_eq_true_iff]
    constructor
    · rintro ⟨t, ht, rfl⟩
      obtain ⟨⟨f, hf, htf⟩, ha⟩ := (hAmem t).mp ht
      simp only [Eu.amT, decide_eq_true_iff] at ha
      obtain ⟨e1, e2, _, _, _, _⟩ := Eu.triple_facts f (H.valid.faces_valid f hf) t htf
      have m1 := closedPairs_mem _ _ e1
      have m2 := closedPairs_mem _ _ e2
      have hV1 : t.1 ∈ V := (mem_collectVerts _ _).mpr ⟨f, hf, m1.1⟩
      have hV2 : t.2.1 ∈ V := (mem_collectVerts _ _).mpr ⟨f, hf, m1.2⟩
      have hV3 : t.2.2 ∈ V := (mem_collectVerts _ _).mpr ⟨f, hf, m2.2⟩
      refine ⟨hV2, ?_, ?_⟩
      · intro h
        have := hmax' _ hV3
        rw [h] at ha; linarith [ha.2]
      · intro h
        have := hmin _ hV1
        rw [h] at ha; linarith [ha.1]
    · rintro ⟨hvV, hv1, hv2⟩
      have h1 : dot d v < dot d vmax := lt_of_le_of_ne (hmax' v hvV) (hgen v hvV vmax hmaxV hv1)
      have h2 : dot d vmin < dot d v := lt_of_le_of_ne (hmin v hvV) (hgen vmin hminV v hvV (Ne.symm hv2))
      obtain ⟨f, hf, t, ht, htv, ha⟩ := Eu.asc_exists H d hgen v vmax vmin hvV hmaxV hminV h1 h2
      exact ⟨t, (hAmem t).mpr ⟨⟨f, hf, ht⟩, ha⟩, htv⟩
  have hperm : List.Perm (A.map (fun t => t.2.1)) (V.filter (fun v => decide (v ≠ vmax ∧ v ≠ vmin))) :=
    (List.perm_ext_iff_of_nodup hMnd (hVnd.filter _)).mpr hMmem
  have hcount : (Eu.corners B).countP (Eu.amT d) + 2 = V.length := by
    rw [List.countP_eq_length_filter, ← hA, ← List.length_map (f := fun t : V3 × V3 × V3 => t.2.1), hperm.length_eq]
    exact Eu.length_filter_two V hVnd vmax vmin hmaxV hminV hne
  rw [hE, hE2]
  omega
#print axioms Eu.euler_of_generic

/-- a functional separating finitely many points -/
theorem Eu.exists_separating (V : List V3) : ∃ d : V3, ∀ u ∈ V, ∀ w ∈ V, u ≠ w → dot d u ≠ dot d w := by
  set ms := (V.flatMap (fun u => V.map (fun w => sub u w))).filter (fun m => decide (m ≠ zero)) with hms
  obtain ⟨d, hd⟩ := K4.exists_generic ms (by
    intro m hm
    rw [hms, List.mem_filter] at hm
    simpa using hm.2)
  refine ⟨d, fun u hu w hw hne => ?_⟩
  have hsub : sub u w ≠ zero := fun h => hne (sub_eq_zero_iff.mp h)
  have hm : sub u w ∈ ms := by
    rw [hms, List.mem_filter]
    exact ⟨List.mem_flatMap.mpr ⟨u, hu, List.mem_map.mpr ⟨w, hw, rfl⟩⟩, by simpa using hsub⟩
  have := hd _ hm
  intro h
  apply this
  have : dot (sub u w) d = dot d u - dot d w := by simp only [dot, sub]; ring
  rw [this, h]; ring

/-- **EULER'S POLYHEDRON FORMULA** for the bodies of the model: a valid convex polyhedron without coplanar
    neighbouring faces (`FaceLocal`) in whose face list every directed edge occurs once satisfies
    `V - E + F = 2`, with `V`, `E` the vertex and edge counts of the constructor `ConvexPolyhedron(...)` -/
theorem Polyhedron.euler (B : Polyhedron) (hV : B.Valid) (hloc : B.FaceLocal)
    (hnd : (dirEdges (B.faces.map (·.pts))).Nodup) :
    ((collectVerts B.faces).length : Int) - (edgesOf B.faces []).length + B.faces.length = 2 := by
  obtain ⟨d, hd⟩ := Eu.exists_separating (collectVerts B.faces)
  exact Eu.euler_of_generic ⟨hV, hloc, hnd⟩ d hd
#print axioms Polyhedron.euler

/-- the counts of the constructor depend on the vertex set and the undirected edges only -/
theorem Eu.eulerOf_congr (gons faces : List Polygon) (hlen : faces.length = gons.length)
    (hverts : ∀ v, (∃ g ∈ gons, v ∈ g.pts) ↔ (∃ f ∈ faces, v ∈ f.pts)) (hedges : SameUEdges gons faces) :
    K4.eulerOf gons = K4.eulerOf faces := by
  unfold K4.eulerOf
  rw [(collectVerts_perm gons faces hverts).length_eq, edgesOf_length_eq gons faces hedges, hlen]

/-- **corollary**: a list of polygons has Euler number 2 as soon as SOME body whose faces have the same vertices and
    the same undirected edges (e.g. rotated / reversed cycles) satisfies the hypotheses -/
theorem Eu.eulerOf_eq_two (gons : List Polygon) (R : Polyhedron) (hV : R.Valid) (hloc : R.FaceLocal)
    (hnd : (dirEdges (R.faces.map (·.pts))).Nodup) (hlen : R.faces.length = gons.length)
    (hverts : ∀ v, (∃ g ∈ gons, v ∈ g.pts) ↔ (∃ f ∈ R.faces, v ∈ f.pts)) (hedges : SameUEdges gons R.faces) :
    K4.eulerOf gons = 2 := by
  rw [Eu.eulerOf_congr gons R.faces hlen hverts hedges]
  exact R.euler hV hloc hnd

/-- the same for the faces the constructor stores (`flipOf c g` = `g` or `-g`) -/
theorem Eu.eulerOf_eq_two_of_flip (gons : List Polygon) (hgv : ∀ g ∈ gons, g.Valid) (c : V3) (R : Polyhedron)
    (hF : R.faces = gons.map (flipOf c)) (hV : R.Valid) (hloc : R.FaceLocal)
    (hnd : (dirEdges (R.faces.map (·.pts))).Nodup) : K4.eulerOf gons = 2 := by
  apply Eu.eulerOf_eq_two gons R hV hloc hnd (by rw [hF, List.length_map])
  · intro v
    rw [hF]
    constructor
    · rintro ⟨g, hg, hv⟩
      exact ⟨flipOf c g, List.mem_map.mpr ⟨g, hg, rfl⟩, (SameSet.flipOf_mem c g (hgv g hg) v).mpr hv⟩
    · rintro ⟨f, hf, hv⟩
      obtain ⟨g, hg, rfl⟩ := List.mem_map.mp hf
      exact ⟨g, hg, (SameSet.flipOf_mem c g (hgv g hg) v).mp hv⟩
  · rw [hF]; exact Bridge.sameUEdges_flip c gons hgv
#print axioms Eu.eulerOf_eq_two_of_flip

/-- facet bodies (the bodies assembled by `intersection(polyhedron, polyhedron)`) satisfy Euler's formula -/
theorem K4.FacetBody.euler {A B R : Polyhedron} (hb : K4.FacetBody A B R) :
    ((collectVerts R.faces).length : Int) - (edgesOf R.faces []).length + R.faces.length = 2 :=
  R.euler hb.valid hb.faceLocal hb.dirEdges_nodup

end G3D
