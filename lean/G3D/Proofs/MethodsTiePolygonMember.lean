import G3D.Extracted.Mpolygon
import G3D.Proofs.MethodsTiePolygonShared
/-! # Tie, group `mpolygon`, role MEMBERSHIP (C05): `__contains__` (Point / Segment / other), `in_`.  Conventions, trusted readings and the deviations found: `G3D.Proofs.MethodsTie`, header of `G3D.Model.PyRtM`. -/
set_option linter.unusedSimpArgs false
set_option linter.unusedVariables false
set_option linter.style.nameCheck false
set_option linter.unusedTactic false
set_option linter.unreachableTactic false
namespace G3D.Tie
open V3 PyRt Extracted

theorem m_ConvexPolygon___contains___raw_point (P : Polygon) (x : V3) :
    m_ConvexPolygon___contains__ (Self.ofPolygon P) (.obj (ptObj x)) =
      if P.plane.n = zero then .error (.ctor .zeroDiv) else .ok (.bool (P.contains x)) := by
  unfold m_ConvexPolygon___contains__
  by_cases hn : P.plane.n = zero
  · simp [Self.ofPolygon, pyrt, pyFld, ptObj, plObj, pyInM, pyContains, pyAttr_n, pyMeth_normalized, hn]
  simp only [Self.ofPolygon, pyrt, pyFld, Val.ptSeq, List.length_map, ptObj, plObj, pyInM, pyContains, pyAttr_n,
    pyMeth_normalized, hn, if_false, Int.sub_zero, Int.toNat_natCast, decide_true, if_true]
  rw [show Val.bool true = (fun b : Bool => Val.bool b) true from rfl]
  rw [forIn_cyc P.pts (fun b : Bool => Val.bool b) _
    (fun e r => if decide (edgeSide P.plane.n e.1 e.2 x < 0) = true then .ok (.done false) else .ok (.yield r))]
  · rw [forIn_all (closedPairs P.pts) (fun e => decide (edgeSide P.plane.n e.1 e.2 x < 0)) true]
    simp only [pyrt, Polygon.contains]
    have : ((closedPairs P.pts).all fun e => decide (0 ≤ edgeSide P.plane.n e.1 e.2 x)) =
        !((closedPairs P.pts).any fun e => decide (edgeSide P.plane.n e.1 e.2 x < 0)) := by
      rw [List.all_eq_not_any_not]; congr 2; funext e; rw [Bool.eq_iff_iff]; simp [not_lt]
    rw [this]
    cases P.plane.contains x <;> cases ((closedPairs P.pts).any fun e => decide (edgeSide P.plane.n e.1 e.2 x < 0)) <;> rfl
  · intro k a b hk r
    obtain ⟨h0, hb⟩ := cyc_index P.pts k a b hk
    rcases hb with ⟨hk1, hb⟩ | ⟨hk1, hb⟩
    · have hk2 : ((k : Int) == (P.pts.length : Int) - 1) = true := by simp [hk1]
      by_cases hs : dot (sub x a) (cross P.plane.n (sub b a)) < 0 <;>
        simp [pySub, pyEqM, pyEq, Val.truthy, hk2, h0, hb, ptObj, pyVector, pyMeth_cross, pyMulM, pyCmpTol, tolEval, Val.asRat?,
          ForInStep.map', edgeSide, hs] <;> rfl
    · have hk2 : ¬ ((k : Int) == (P.pts.length : Int) - 1) = true := by simpa using hk1
      by_cases hs : dot (sub x a) (cross P.plane.n (sub b a)) < 0 <;>
        simp [pySub, pyEqM, pyEq, Val.truthy, hk2, h0, hb, ptObj, pyAdd, pyVector, pyMeth_cross, pyMulM, pyCmpTol, tolEval, Val.asRat?,
          ForInStep.map', edgeSide, hs] <;> rfl

theorem m_ConvexPolygon___contains___eq_seg (P : Polygon) (s : Seg) :
    m_ConvexPolygon___contains__ (Self.ofPolygon P) (.obj (sgObj s)) = .ok (.bool (P.containsSeg s)) := by
  unfold m_ConvexPolygon___contains__
  simp only [pyPack_ConvexPolygon_of, pyrt, sgObj]
  simp [pyInM, pyContains, Polygon.containsSeg, pyrt]

theorem m_ConvexPolygon___contains___eq_other (P : Polygon) (l : Line) :
    m_ConvexPolygon___contains__ (Self.ofPolygon P) (.obj (lnObj l)) = .error .notImpl := by
  unfold m_ConvexPolygon___contains__
  simp [pyrt, lnObj]

theorem m_ConvexPolygon_in__eq (P : Polygon) (a : Plane) :
    m_ConvexPolygon_in_ (Self.ofPolygon P) (.obj (plObj a)) = .ok (.bool (P.inPlane a)) := by
  unfold m_ConvexPolygon_in_
  simp [pyrt, plObj, Self.ofPolygon, pyFld, pyEqM, pyEq, Polygon.inPlane]

theorem m_ConvexPolygon_in__eq_other (P : Polygon) (l : Line) :
    m_ConvexPolygon_in_ (Self.ofPolygon P) (.obj (lnObj l)) = .error .notImpl := by
  unfold m_ConvexPolygon_in_
  simp [pyrt, lnObj]

theorem m_ConvexPolygon___contains___eq_point (P : Polygon) (x : V3) (h : P.plane.WF) :
    m_ConvexPolygon___contains__ (Self.ofPolygon P) (.obj (ptObj x)) = .ok (.bool (P.contains x)) := by
  rw [m_ConvexPolygon___contains___raw_point, if_neg h]

end G3D.Tie
