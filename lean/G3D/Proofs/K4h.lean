import G3D.Proofs.K4f
import G3D.Proofs.BridgeExact

/-! # Kernel K4, part h: the constructor call `ConvexPolyhedron(collected polygons)` fails at most at the Euler check

    `p` are the collected parts (`K4.Parts2 A B p`), `K = A ∩ B` has an interior point.
    * `K4.IsPiece.center` : the stored centre of a collected polygon lies in its plane
    * `K4.mean_interior` : the mean of the collected vertices is strictly inside every half-space of `A` and `B`
    * `K4.stored` : for every collected polygon `g` the constructor loop succeeds; the stored face `flipOf c g` is a
      Valid polygon on the vertices of `g`, centre in plane, looking outwards (`SamePlane F _` for the face `F` of
      `A` or `B` whose plane carries `g`), and passes `_check_normal` strictly
    * `K4.mk?_ok_or_euler`, `interPolyhedronPolyhedron_ok_or_euler` -/
namespace G3D
open V3

/-! ### the stored centre of a constructed polygon lies in its plane -/
theorem K4.Polygon_mk?_center (input : List V3) (rev : Bool) (P : Polygon) (h : Polygon.mk? input rev = .ok P) :
    G3D.inPlane P.plane.n P.plane.p P.center = true := by
  unfold Polygon.mk? at h
  simp only at h
  by_cases hlen : input.length < 3
  · rw [if_pos hlen] at h; cases h
  · rw [if_neg hlen] at h
    cases hded : dedupV input with
    | nil => rw [hded] at h; cases h
    | cons p0 r1 =>
      cases r1 with
      | nil => rw [hded] at h; cases h
      | cons p1 r2 =>
        cases r2 with
        | nil => rw [hded] at h; cases h
        | cons p2 rest =>
          rw [hded] at h
          simp only at h
          by_cases hn0 : cross (sub p1 p0) (sub p2 p0) = zero
          · rw [if_pos hn0] at h; cases h
          · rw [if_neg hn0] at h
            generalize (if rev = true then neg (cross (sub p1 p0) (sub p2 p0)) else cross (sub p1 p0) (sub p2 p0)) = n at h
            by_cases hv0 : sub p0 (meanV (p0 :: p1 :: p2 :: rest)) = zero
            · rw [if_pos hv0] at h; cases h
            · rw [if_neg hv0] at h
              by_cases hall : (!(p0 :: p1 :: p2 :: rest).all (⟨p0, n⟩ : Plane).contains) = true
              · rw [if_pos hall] at h; cases h
              · rw [if_neg hall] at h
                cases h
                have hall' : ∀ p ∈ p0 :: p1 :: p2 :: rest, (⟨p0, n⟩ : Plane).contains p = true := by
                  have : (p0 :: p1 :: p2 :: rest).all (⟨p0, n⟩ : Plane).contains = true := by
                    cases hh : (p0 :: p1 :: p2 :: rest).all (⟨p0, n⟩ : Plane).contains with
                    | true => rfl
                    | false => rw [hh] at hall; simp at hall
                  exact List.all_eq_true.mp this
                simp only [G3D.inPlane, beq_iff_eq]
                apply meanV_inplane n p0 _ (by simp)
                intro p hp
                exact (Plane.contains_iff _ p).mp (hall' p hp)

theorem K4.coplanarFinish_polygon (acc : List V3) (Q : Polygon)
    (h : coplanarFinish acc = .ok (some (.polygon Q))) : ∃ ps, Polygon.mk? ps = .ok Q := by
  match acc, h with
  | [], h => cases h
  | [p], h => cases h
  | [p, q], h =>
    simp only [coplanarFinish] at h
    by_cases hpq : p = q
    · rw [if_pos hpq] at h; cases h
    · rw [if_neg hpq] at h; cases h
  | p0 :: p1 :: p2 :: rest, h =>
    simp only [coplanarFinish] at h
    cases hpl : pointsInALine (p0 :: p1 :: p2 :: rest) with
    | error e => rw [hpl] at h; cases h
    | ok c =>
      rw [hpl] at h
      cases c with
      | true => cases h
      | false =>
        cases hmk : Polygon.mk? (p0 :: p1 :: p2 :: rest) false with
        | error e => rw [hmk] at h; cases h
        | ok P' => rw [hmk] at h; cases h; exact ⟨_, hmk⟩

/-- a polygon returned by polygon × polygon is the result of a constructor call -/
theorem K4.interPolygonPolygon_polygon_mk (a b Q : Polygon)
    (h : interPolygonPolygon a b = .ok (some (.polygon Q))) : ∃ ps, Polygon.mk? ps = .ok Q := by
  have hco := K4.interPolygonPolygon_polygon_coplanar a b Q h
  rw [interPolygonPolygon_coplanar_eq a b hco] at h
  cases hc : coplanarCollect a b with
  | error e => rw [hc] at h; cases h
  | ok out =>
    rw [hc] at h
    exact K4.coplanarFinish_polygon out Q h

/-- the stored centre of a polygon returned by ConvexPolygon × ConvexPolyhedron lies in its plane -/
theorem K4.interPolygonPolyhedron_polygon_center (B : Polyhedron) (hH : B.ExactHyp) (P : Polygon) (hv : P.Valid)
    (Q : Polygon) (h : interPolygonPolyhedron B P = .ok (some (.polygon Q))) :
    G3D.inPlane Q.plane.n Q.plane.p Q.center = true := by
  have hpW := Polygon.plane_WF P hv
  obtain ⟨o, ho, hw, _⟩ := interPlanePolyhedron_exact_hull P.plane hpW B hH
  unfold interPolygonPolyhedron at h
  rw [ho] at h
  cases o with
  | none => cases h
  | some ob =>
    obtain ⟨q, rfl⟩ | ⟨s, rfl⟩ | ⟨Q', rfl⟩ := interPlanePolyhedron_shape _ _ _ ho
    · simp only [interPointPolygon] at h
      split at h <;> cases h
    · obtain ⟨o', ho', hw', _⟩ := interSegPolygon_exactPS s hw P hv
      simp only at h
      rw [ho'] at h
      cases h
      exact absurd hw' (by simp [ObjFlatWF])
    · simp only at h
      obtain ⟨ps, hps⟩ := K4.interPolygonPolygon_polygon_mk Q' P Q h
      exact K4.Polygon_mk?_center ps false Q hps

theorem K4.IsPiece.center {A B : Polyhedron} (hA : A.ExactHyp) (hB : B.ExactHyp) {f Q : Polygon}
    (h : K4.IsPiece A B f (some (.polygon Q))) : G3D.inPlane Q.plane.n Q.plane.p Q.center = true := by
  rcases h with ⟨hf, ho⟩ | ⟨hf, ho⟩
  · exact K4.interPolygonPolyhedron_polygon_center B hB f (hA.proper.core.faces_valid f hf) Q ho
  · exact K4.interPolygonPolyhedron_polygon_center A hA f (hB.proper.core.faces_valid f hf) Q ho

/-- everything known about a collected polygon -/
theorem K4.Parts2.gon_full {A B : Polyhedron} (hA : A.ExactHyp) (hB : B.ExactHyp) {p : Parts}
    (hp : K4.Parts2 A B p) (g : Polygon) (hg : g ∈ p.gons) :
    g.Valid ∧ G3D.inPlane g.plane.n g.plane.p g.center = true ∧
      ∃ F ∈ A.faces ++ B.faces, ∀ x, InHull g.pts x ↔ (K4.InK A B x ∧ F.side x = 0) := by
  obtain ⟨f, hf⟩ := hp.gons_sub g hg
  obtain ⟨hsh, hd⟩ := hf.spec hA hB
  cases hsh with
  | gon _ hv => exact ⟨hv, hf.center hA hB, f, hf.mem, hd⟩

/-! ### the mean of the collected vertices is an interior point -/
theorem K4.collected_vertex_inK {A B : Polyhedron} (hA : A.ExactHyp) (hB : B.ExactHyp) {p : Parts}
    (hp : K4.Parts2 A B p) (v : V3) (hv : v ∈ collectVerts p.gons) : K4.InK A B v :=
  K4.hull_sub_inK hA hB hp v (vertex_in_hull _ _ hv)

theorem K4.mean_interior {A B : Polyhedron} (hA : A.ExactHyp) (hB : B.ExactHyp) {p : Parts}
    (hp : K4.Parts2 A B p) (o : V3) (ho : ∀ f ∈ A.faces ++ B.faces, f.side o < 0) :
    ∀ f ∈ A.faces ++ B.faces, f.side (meanV (collectVerts p.gons)) < 0 := by
  intro f hf
  set V := collectVerts p.gons with hV
  have hle : ∀ v ∈ V, f.side v ≤ 0 := fun v hv =>
    (K4.InK_iff_side A B v).mp (K4.collected_vertex_inK hA hB hp v hv) f hf
  have hoK : K4.InK A B o := (K4.InK_iff_side A B o).mpr (fun g hg => le_of_lt (ho g hg))
  obtain ⟨ws, hlen, hnn, hsum, hcomb⟩ := K4.inK_sub_hull hA hB hp o ho o hoK
  have hex : ∃ v ∈ V, f.side v < 0 := by
    by_contra hcon
    have hge : ∀ v ∈ V, 0 ≤ f.side v := by
      intro v hv
      by_contra hlt
      exact hcon ⟨v, hv, not_le.mp hlt⟩
    have h1 := zipWith_side_sum f ws V hlen
    rw [hcomb, hsum] at h1
    have h2 := sum_zipWith_nonneg ws V (fun p => f.side p) hnn hge
    have := ho f hf
    linarith
  have hne : V ≠ [] := by
    obtain ⟨v, hv, _⟩ := hex
    intro h0; rw [h0] at hv; cases hv
  have hlenpos : (0 : Rat) < V.length := by
    have : 0 < V.length := List.length_pos_iff.mpr hne
    exact_mod_cast this
  have hs : ∀ x, f.side x = dot f.plane.n x - dot f.plane.n f.center := by
    intro x; simp only [Polygon.side, dot, sub]; ring
  rw [hs, dot_meanV]
  have hlt := sum_map_lt (dot f.plane.n) (dot f.plane.n f.center) V
    (fun q hq => by have := hle q hq; rw [hs] at this; linarith)
    (by obtain ⟨v, hv, hvl⟩ := hex; exact ⟨v, hv, by rw [hs] at hvl; linarith⟩)
  rw [sub_neg, div_lt_iff₀ hlenpos]
  linarith

/-! ### what the constructor stores for a collected polygon -/

theorem K4.face_center {A B : Polyhedron} (hA : A.ExactHyp) (hB : B.ExactHyp) (f : Polygon)
    (hf : f ∈ A.faces ++ B.faces) : G3D.inPlane f.plane.n f.plane.p f.center = true := by
  rcases List.mem_append.mp hf with h | h
  · exact hA.proper.core.center_in_plane f h
  · exact hB.proper.core.center_in_plane f h

/-- the face `flipOf c g` stored for the collected polygon `g` (centre `c`), relative to the face `F` of `A` or `B`
    whose plane carries `g` -/
structure K4.Stored (A B : Polyhedron) (c : V3) (g F : Polygon) : Prop where
  memF : F ∈ A.faces ++ B.faces
  den : ∀ x, InHull g.pts x ↔ (K4.InK A B x ∧ F.side x = 0)
  orient : orientFace c g = .ok (flipOf c g, (g, c))
  check : 0 < dot (sub (flipOf c g).plane.p c) (flipOf c g).plane.n
  valid : (flipOf c g).Valid
  center : G3D.inPlane (flipOf c g).plane.n (flipOf c g).plane.p (flipOf c g).center = true
  same : SamePlane F (flipOf c g)
  verts : ∀ v, v ∈ (flipOf c g).pts ↔ v ∈ g.pts

theorem K4.stored {A B : Polyhedron} (hA : A.ExactHyp) (hB : B.ExactHyp) {p : Parts} (hp : K4.Parts2 A B p)
    (g : Polygon) (hg : g ∈ p.gons) (c : V3) (hc : ∀ f ∈ A.faces ++ B.faces, f.side c < 0) :
    ∃ F, K4.Stored A B c g F := by
  obtain ⟨hv, hcen, F, hF, hd⟩ := hp.gon_full hA hB g hg
  have hFV := K4.face_valid hA hB F hF
  have hcF := K4.face_center hA hB F hF
  have hnF : F.plane.n ≠ zero := Polygon.plane_WF F hFV
  have hng : g.plane.n ≠ zero := Polygon.plane_WF g hv
  obtain ⟨a, ha, b, hb, c', hc', hor⟩ := hv.nondeg
  have hN : cross (sub b a) (sub c' a) ≠ zero := by
    intro e; apply hor; simp only [G3D.orient, e, dot, zero]; ring
  have sF : ∀ v ∈ g.pts, F.side v = 0 := fun v hvm => ((hd v).mp (vertex_in_hull _ _ hvm)).2
  have hgpl : ∀ v ∈ g.pts, G3D.inPlane g.plane.n g.plane.p v = true := by
    obtain ⟨_, _, _, _, _, hpl, _⟩ := hv
    exact hpl
  have side_diff : ∀ (x y : V3), dot F.plane.n (sub y x) = F.side y - F.side x := by
    intro x y; simp only [Polygon.side, dot, sub]; ring
  obtain ⟨k1, hk1⟩ := parallel_of_perp _ _ F.plane.n hN
    (by rw [side_diff, sF a ha, sF b hb]; ring) (by rw [side_diff, sF a ha, sF c' hc']; ring)
  obtain ⟨k2, hk2⟩ := parallel_of_perp _ _ g.plane.n hN
    (inPlane_diff (hgpl a ha) (hgpl b hb)) (inPlane_diff (hgpl a ha) (hgpl c' hc'))
  have hk1ne : k1 ≠ 0 := smul_ne_zero_left (by rw [← hk1]; exact hnF)
  have hk2ne : k2 ≠ 0 := smul_ne_zero_left (by rw [← hk2]; exact hng)
  have hn : g.plane.n = smul (k2 / k1) F.plane.n := by
    rw [hk2]; conv_rhs => rw [hk1]
    apply V3.ext' <;> simp only [smul] <;> field_simp
  have hk0 : k2 / k1 ≠ 0 := div_ne_zero hk2ne hk1ne
  have hFa : G3D.inPlane F.plane.n F.plane.p a = true := (F.side_zero_inPlane hcF a).mp (sF a ha)
  obtain ⟨hside, _⟩ := side_proportional F g (k2 / k1) hn hcF hcen a hFa (hgpl a ha)
  rcases lt_or_gt_of_ne hk0 with hneg | hpos
  · -- `g` looks inwards: the reference polygon is `-g`
    obtain ⟨Q, q0, rest, hgp, hQ, hvQ, hQp, _, _, t, ht, hQn⟩ := Polygon.neg?_of_valid g hv
    have hrq : Reoriented g Q := Reoriented.of_neg g Q hv hQ
    have hnQ : Q.plane.n = smul (-(t * (k2 / k1))) F.plane.n := by
      rw [hQn, hn]; apply V3.ext' <;> simp only [smul, neg] <;> ring
    have hκ : 0 < -(t * (k2 / k1)) := by nlinarith
    have haQ : a ∈ Q.pts := (hrq.same_verts a).mpr ha
    have hQa : G3D.inPlane Q.plane.n Q.plane.p a = true := by
      obtain ⟨_, _, _, _, _, hpl, _⟩ := hvQ
      exact hpl a haQ
    obtain ⟨hsideQ, _⟩ := side_proportional F Q _ hnQ hcF hrq.center a hFa hQa
    have hcQ : Q.side c < 0 := by rw [hsideQ]; exact mul_neg_of_pos_of_neg hκ (hc F hF)
    have hr : Reoriented Q g := ⟨hv, hcen, fun v => ((hrq.same_verts v)).symm⟩
    obtain ⟨hor', hoc, hchk, _, _, _⟩ := orientFace_reoriented Q g hvQ hrq.center hr c hcQ
    exact ⟨F, hF, hd, hor', hchk, hoc.valid, hoc.center,
      SamePlane.trans ⟨_, hκ, hnQ, hsideQ⟩ hoc.samePlane,
      fun v => (hoc.mem_iff v).trans (hrq.same_verts v)⟩
  · have hcg : g.side c < 0 := by rw [hside]; exact mul_neg_of_pos_of_neg hpos (hc F hF)
    have hr : Reoriented g g := ⟨hv, hcen, fun v => Iff.rfl⟩
    obtain ⟨hor', hoc, hchk, _, _, _⟩ := orientFace_reoriented g g hv hcen hr c hcg
    exact ⟨F, hF, hd, hor', hchk, hoc.valid, hoc.center,
      SamePlane.trans ⟨_, hpos, hn, hside⟩ hoc.samePlane, fun v => hoc.mem_iff v⟩
#print axioms K4.stored

/-! ### the constructor call -/

/-- when everything but Euler's formula holds the constructor raises `ValueError` -/
theorem K4.mk?_euler_fail (input : List Polygon)
    (hdist : ∀ f ∈ input, ∀ e ∈ closedPairs f.pts, e.1 ≠ e.2) (hne : collectVerts input ≠ [])
    (hor : ∀ g ∈ input, orientFace (meanV (collectVerts input)) g =
      .ok (flipOf (meanV (collectVerts input)) g, (g, meanV (collectVerts input))))
    (hnorm : ∀ g ∈ input, 0 ≤ dot (sub (flipOf (meanV (collectVerts input)) g).plane.p (meanV (collectVerts input)))
      (flipOf (meanV (collectVerts input)) g).plane.n)
    (heul : ((collectVerts input).length : Int) - (edgesOf input []).length + input.length ≠ 2) :
    Polyhedron.mk? input = .error .value := by
  have hE : collectEdges input [] = .ok (edgesOf input []) := (collectEdges_ok_iff input [] _).mpr ⟨rfl, hdist⟩
  have hv : ¬ (collectVerts input).length = 0 := by
    intro h0; exact hne (List.length_eq_zero_iff.mp h0)
  have hmap := mapM_ok_of_forall (orientFace (meanV (collectVerts input)))
    (fun g => (flipOf (meanV (collectVerts input)) g, (g, meanV (collectVerts input)))) input hor
  have hall : ¬ (!(input.map (flipOf (meanV (collectVerts input)))).all
      (fun f => decide (0 ≤ dot (sub f.plane.p (meanV (collectVerts input))) f.plane.n))) = true := by
    have : (input.map (flipOf (meanV (collectVerts input)))).all
        (fun f => decide (0 ≤ dot (sub f.plane.p (meanV (collectVerts input))) f.plane.n)) = true := by
      rw [List.all_eq_true]
      intro f hf
      obtain ⟨g, hg, rfl⟩ := List.mem_map.mp hf
      exact decide_eq_true (hnorm g hg)
    rw [this]; simp
  have heul' : (((collectVerts input).length : Int) - (edgesOf input []).length +
      (input.map (flipOf (meanV (collectVerts input)))).length != 2) = true := by
    rw [List.length_map]; simpa using heul
  unfold Polyhedron.mk?
  simp only [bind, Except.bind, hE, if_neg hv, hmap, List.map_map, Function.comp_def, if_neg hall]
  rw [List.length_map] at heul'
  simp only [List.length_map, if_pos heul']

/-- the Euler number of the collected complex: vertices − undirected edges + polygons -/
def K4.eulerOf (gons : List Polygon) : Int :=
  ((collectVerts gons).length : Int) - (edgesOf gons []).length + gons.length

/-- **the constructor fails at most at the Euler check** -/
theorem K4.mk?_ok_or_euler {A B : Polyhedron} (hA : A.ExactHyp) (hB : B.ExactHyp) {p : Parts}
    (hp : K4.Parts2 A B p) (o : V3) (ho : ∀ f ∈ A.faces ++ B.faces, f.side o < 0) :
    (K4.eulerOf p.gons = 2 ∧ ∃ R, Polyhedron.mk? p.gons = .ok R) ∨
    (K4.eulerOf p.gons ≠ 2 ∧ Polyhedron.mk? p.gons = .error .value) := by
  have hc := K4.mean_interior hA hB hp o ho
  have hst : ∀ g ∈ p.gons, ∃ F, K4.Stored A B (meanV (collectVerts p.gons)) g F :=
    fun g hg => K4.stored hA hB hp g hg _ hc
  have hdist : ∀ f ∈ p.gons, ∀ e ∈ closedPairs f.pts, e.1 ≠ e.2 :=
    fun f hf => (hp.gon_full hA hB f hf).1.edges_distinct
  have hne : collectVerts p.gons ≠ [] := by
    obtain ⟨Q1, Q2, t, hpg⟩ := K4.two_gons hA hB hp o ho
    obtain ⟨p0, _, _, _, hpts, _, _⟩ := (hp.gon_full hA hB Q1 (by rw [hpg]; simp)).1
    intro h0
    have : p0 ∈ collectVerts p.gons :=
      (mem_collectVerts _ p0).mpr ⟨Q1, by rw [hpg]; simp, by rw [hpts]; simp⟩
    rw [h0] at this; cases this
  have hor : ∀ g ∈ p.gons, orientFace (meanV (collectVerts p.gons)) g =
      .ok (flipOf (meanV (collectVerts p.gons)) g, (g, meanV (collectVerts p.gons))) := fun g hg => by
    obtain ⟨F, hs⟩ := hst g hg; exact hs.orient
  have hnorm : ∀ g ∈ p.gons, 0 ≤ dot (sub (flipOf (meanV (collectVerts p.gons)) g).plane.p
      (meanV (collectVerts p.gons))) (flipOf (meanV (collectVerts p.gons)) g).plane.n := fun g hg => by
    obtain ⟨F, hs⟩ := hst g hg; exact le_of_lt hs.check
  by_cases heul : K4.eulerOf p.gons = 2
  · exact Or.inl ⟨heul, _, Polyhedron.mk?_intro p.gons hdist hne hor hnorm heul⟩
  · exact Or.inr ⟨heul, K4.mk?_euler_fail p.gons hdist hne hor hnorm heul⟩
#print axioms K4.mk?_ok_or_euler

/-- **K4, totality up to Euler's formula**: under `ExactHyp` for both bodies, with `p` the collected parts,
    * fewer than two polygons: the handler returns `None`, a Point, a well-formed Segment or a Valid polygon denoting
      exactly `A ∩ B`;
    * two or more polygons and Euler number 2: the handler returns the polyhedron `ConvexPolyhedron(polygons)`, and it
      denotes exactly `A ∩ B`;
    * two or more polygons and Euler number ≠ 2: the handler raises the constructor's `ValueError`. -/
theorem interPolyhedronPolyhedron_ok_or_euler (A B : Polyhedron) (hA : A.ExactHyp) (hB : B.ExactHyp) :
    ∃ p, K4.Parts2 A B p ∧
      ((p.gons.length < 2 ∧ ∃ o, interPolyhedronPolyhedron A B = .ok o ∧ K4.Shape o ∧
          ∀ x, denOptB o x ↔ (InHull A.verts x ∧ InHull B.verts x)) ∨
       (2 ≤ p.gons.length ∧ K4.eulerOf p.gons = 2 ∧ ∃ R, Polyhedron.mk? p.gons = .ok R ∧
          interPolyhedronPolyhedron A B = .ok (some (.polyhedron R)) ∧
          ∀ x, InHull R.verts x ↔ (InHull A.verts x ∧ InHull B.verts x)) ∨
       (2 ≤ p.gons.length ∧ K4.eulerOf p.gons ≠ 2 ∧ Polyhedron.mk? p.gons = .error .value ∧
          interPolyhedronPolyhedron A B = .error (.ctor .value))) := by
  obtain ⟨p, hp, h⟩ := interPolyhedronPolyhedron_total A B hA hB
  refine ⟨p, hp, ?_⟩
  rcases h with h | ⟨h2, _, heq, hex⟩
  · exact Or.inl h
  · obtain ⟨o, ho⟩ := K4.interior_of_two hA hB hp h2
    rcases K4.mk?_ok_or_euler hA hB hp o ho with ⟨he, R, hR⟩ | ⟨he, herr⟩
    · refine Or.inr (Or.inl ⟨h2, he, R, hR, ?_, hex R hR⟩)
      rw [heq, hR]; rfl
    · refine Or.inr (Or.inr ⟨h2, he, herr, ?_⟩)
      rw [heq, herr]; rfl
#print axioms interPolyhedronPolyhedron_ok_or_euler

end G3D
