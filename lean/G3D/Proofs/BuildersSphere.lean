import Mathlib.Analysis.SpecialFunctions.Trigonometric.Basic
import Mathlib.Tactic.Ring
import Mathlib.Tactic.Linarith
import Mathlib.Tactic.LinearCombination
import Mathlib.Tactic.FieldSimp
import Mathlib.Tactic.Positivity
import Mathlib.Algebra.BigOperators.Group.Finset.Basic
import G3D.Proofs.BuildersReal

/-! C14 over ℝ, the inscribed Sphere solid: the face list of `Sphere(center, radius, n1, n2)` after the orientation
    repair (`sphereOriented n1 n2` of G3D/Model/Builders.lean) placed on the real vertices, for EVERY n1 ≥ 1, n2 ≥ 2,
    and its VOLUME in closed form (a finite sum over the n2 latitude bands of one hemisphere of the volumes of the
    frusta of n1-gon pyramids).

    Vertices: ring `m` (m = 0 equator `mc`, m = j+1 ↔ `tc[j]` / `bc[j]`, m = n2 the poles) at latitude
    `BA.lat n2 m = π/2/n2·m` (`latAngle n2 j = BA.lat n2 (j+1)`), point `i` of a ring at `stepAngle n1 i`:
    `centre ± r·sin(lat)·k + r·cos(lat)·(cos θ·u + sin θ·v)`, `(u, v)` the unit frame of `get_circle_point_list` for the
    normal `k = z_unit_vector()` (all rings share normal and base vector, hence the frame up to the radius factor). -/
namespace G3D
namespace BuildersReal
open Real Builders R3

/-! ### the oriented face list, block by block -/
theorem BA.applyFlips_append {α : Type} (m1 m2 : List Bool) (f1 f2 : List (List α)) (h : m1.length = f1.length) :
    applyFlips (m1 ++ m2) (f1 ++ f2) = applyFlips m1 f1 ++ applyFlips m2 f2 := by
  unfold applyFlips; exact List.zipWith_append h

theorem BA.applyFlips_flatMap {α ι : Type} (m : ι → List Bool) (g : ι → List (List α)) :
    ∀ L : List ι, (∀ i ∈ L, (m i).length = (g i).length) →
      applyFlips (L.flatMap m) (L.flatMap g) = L.flatMap (fun i => applyFlips (m i) (g i)) := by
  intro L
  induction L with
  | nil => intro _; simp [applyFlips]
  | cons a L ih =>
    intro h
    rw [List.flatMap_cons, List.flatMap_cons, List.flatMap_cons,
      BA.applyFlips_append _ _ _ _ (h a (List.mem_cons_self ..)), ih (fun i hi => h i (List.mem_cons_of_mem _ hi))]

/-- the faces of sector `i` after the orientation repair (ids) -/
def BA.sphereBlockIds (n1 n2 i : ℕ) : List Face :=
  [[sMc n1 i, sMc n1 ((i + 1) % n1), sTc n1 0 ((i + 1) % n1), sTc n1 0 i],
    flipCycle [sMc n1 i, sMc n1 ((i + 1) % n1), sBc n1 n2 0 ((i + 1) % n1), sBc n1 n2 0 i]] ++
  (List.range' 1 (n2 - 2)).flatMap (fun j =>
    [[sTc n1 (j - 1) i, sTc n1 (j - 1) ((i + 1) % n1), sTc n1 j ((i + 1) % n1), sTc n1 j i],
      flipCycle [sBc n1 n2 (j - 1) i, sBc n1 n2 (j - 1) ((i + 1) % n1), sBc n1 n2 j ((i + 1) % n1), sBc n1 n2 j i]]) ++
  [flipCycle [sTop n1 n2, sTc n1 (n2 - 2) ((i + 1) % n1), sTc n1 (n2 - 2) i],
    [sBot n1 n2, sBc n1 n2 (n2 - 2) ((i + 1) % n1), sBc n1 n2 (n2 - 2) i]]

/-- the Sphere faces after the orientation repair, for every n1, n2: per sector `i` the upper band quadrilaterals as
    coded, the lower band quadrilaterals flipped, the top cap triangle flipped, the bottom cap triangle as coded -/
theorem BA.sphereOriented_eq (n1 n2 : ℕ) :
    sphereOriented n1 n2 = (List.range n1).flatMap (BA.sphereBlockIds n1 n2) := by
  unfold sphereOriented sphereFlips sphereFaces
  rw [BA.applyFlips_flatMap]
  · apply List.flatMap_congr
    intro i _
    rw [BA.applyFlips_append, BA.applyFlips_append, BA.applyFlips_flatMap]
    · rfl
    · intro j _; rfl
    · rfl
    · simp [List.length_flatMap]
  · intro i _
    simp [List.length_flatMap]

/-! ### the real vertices -/
/-- latitude of ring `m`: `π/2/n2·m` (`m = 0` the equator, `m = n2` the pole) -/
noncomputable def BA.lat (n2 m : ℕ) : ℝ := π / 2 / n2 * m

theorem BA.lat_eq_latAngle (n2 j : ℕ) : BA.lat n2 (j + 1) = latAngle n2 j := by
  unfold BA.lat latAngle; push_cast; ring

theorem BA.lat_zero (n2 : ℕ) : BA.lat n2 0 = 0 := by simp [BA.lat]

theorem BA.lat_pole (n2 : ℕ) (h : n2 ≠ 0) : BA.lat n2 n2 = π / 2 := by
  have : (n2 : ℝ) ≠ 0 := Nat.cast_ne_zero.mpr h
  unfold BA.lat; field_simp

/-- the point at (signed) latitude `φ` and longitude `θ`: the point of
    `get_circle_point_list(center.move(r·sin φ·z), z, r·cos φ, n1)` at angle `θ` -/
noncomputable def BA.sphPt (c k u v : R3) (r φ θ : ℝ) : R3 :=
  circlePoint (add c (smul (r * sin φ) k)) (smul (r * cos φ) u) (smul (r * cos φ) v) θ

/-- the lower rings `bc[j]`: centre moved by `−height_i`, same radius `r_i` — the point at latitude `−φ` -/
theorem BA.sphPt_neg (c k u v : R3) (r φ θ : ℝ) :
    circlePoint (add c (smul (-(r * sin φ)) k)) (smul (r * cos φ) u) (smul (r * cos φ) v) θ =
      BA.sphPt c k u v r (-φ) θ := by
  unfold BA.sphPt; rw [sin_neg, cos_neg, mul_neg]

theorem BA.sphPt_eq (c k u v : R3) (r φ θ : ℝ) :
    BA.sphPt c k u v r φ θ = add (add c (smul (r * sin φ) k)) (smul (r * cos φ) (rad u v θ)) := by
  apply R3.ext' <;> simp only [BA.sphPt, circlePoint, rad, add, smul] <;> ring

/-- every vertex lies on the sphere (restating `sphere_vertex` for `BA.sphPt`) -/
theorem BA.sphPt_on_sphere (c k u v : R3) (r φ θ : ℝ) (hk : normSq k = 1) (F : Frame k u v 1) :
    normSq (sub (BA.sphPt c k u v r φ θ) c) = r ^ 2 := by
  have := sphere_vertex c k u v r φ θ 1 hk (by norm_num) F
  simpa [BA.sphPt] using this

/-- upper ring `m`, point `i` -/
noncomputable def BA.up (c k u v : R3) (r : ℝ) (n1 n2 m i : ℕ) : R3 :=
  BA.sphPt c k u v r (BA.lat n2 m) (stepAngle n1 i)
/-- lower ring `m`, point `i` -/
noncomputable def BA.lo (c k u v : R3) (r : ℝ) (n1 n2 m i : ℕ) : R3 :=
  BA.sphPt c k u v r (-BA.lat n2 m) (stepAngle n1 i)

theorem BA.lo_zero (c k u v : R3) (r : ℝ) (n1 n2 i : ℕ) : BA.lo c k u v r n1 n2 0 i = BA.up c k u v r n1 n2 0 i := by
  simp [BA.lo, BA.up, BA.lat_zero]

theorem BA.up_pole (c k u v : R3) (r : ℝ) (n1 n2 i : ℕ) (h : n2 ≠ 0) :
    BA.up c k u v r n1 n2 n2 i = add c (smul r k) := by
  unfold BA.up; rw [BA.sphPt_eq, BA.lat_pole n2 h, sin_pi_div_two, cos_pi_div_two]
  apply R3.ext' <;> simp [add, smul]

theorem BA.lo_pole (c k u v : R3) (r : ℝ) (n1 n2 i : ℕ) (h : n2 ≠ 0) :
    BA.lo c k u v r n1 n2 n2 i = add c (smul (-r) k) := by
  unfold BA.lo; rw [BA.sphPt_eq, BA.lat_pole n2 h, sin_neg, cos_neg, sin_pi_div_two, cos_pi_div_two]
  apply R3.ext' <;> simp [add, smul]

theorem BA.up_step_mod (c k u v : R3) (r : ℝ) (n1 n2 m i : ℕ) (hi : i < n1) :
    BA.up c k u v r n1 n2 m ((i + 1) % n1) = BA.up c k u v r n1 n2 m (i + 1) := by
  unfold BA.up BA.sphPt; exact circlePoint_step_mod _ _ _ n1 i hi

theorem BA.lo_step_mod (c k u v : R3) (r : ℝ) (n1 n2 m i : ℕ) (hi : i < n1) :
    BA.lo c k u v r n1 n2 m ((i + 1) % n1) = BA.lo c k u v r n1 n2 m (i + 1) := by
  unfold BA.lo BA.sphPt; exact circlePoint_step_mod _ _ _ n1 i hi

/-- placement of the Sphere ids: ring `m < n2` of the upper half at ids `m·n1 + i` (`mc`, `tc`), lower ring
    `m = 1..n2−1` at ids `(n2 + m − 1)·n1 + i` (`bc`), then the top pole `center + r·z` and the bottom pole -/
noncomputable def BA.spherePlace (c k u v : R3) (r : ℝ) (n1 n2 : ℕ) (id : ℕ) : R3 :=
  if id < n2 * n1 then BA.up c k u v r n1 n2 (id / n1) (id % n1)
  else if id < (2 * n2 - 1) * n1 then BA.lo c k u v r n1 n2 (id / n1 - n2 + 1) (id % n1)
  else if id = (2 * n2 - 1) * n1 then add c (smul r k) else add c (smul (-r) k)

theorem BA.place_up (c k u v : R3) (r : ℝ) (n1 n2 m i : ℕ) (hm : m < n2) (hi : i < n1) :
    BA.spherePlace c k u v r n1 n2 (m * n1 + i) = BA.up c k u v r n1 n2 m i := by
  have h1 : m * n1 + i < n2 * n1 := by
    have : (m + 1) * n1 ≤ n2 * n1 := Nat.mul_le_mul_right _ hm
    nlinarith
  have h2 : (m * n1 + i) / n1 = m := by
    rw [Nat.mul_comm, Nat.mul_add_div (by omega), Nat.div_eq_of_lt hi]; rfl
  have h3 : (m * n1 + i) % n1 = i := by
    rw [Nat.mul_comm, Nat.mul_add_mod, Nat.mod_eq_of_lt hi]
  rw [BA.spherePlace, if_pos h1, h2, h3]

theorem BA.place_lo (c k u v : R3) (r : ℝ) (n1 n2 j i : ℕ) (hj : j + 1 < n2) (hi : i < n1) :
    BA.spherePlace c k u v r n1 n2 ((n2 + j) * n1 + i) = BA.lo c k u v r n1 n2 (j + 1) i := by
  have h1 : ¬ (n2 + j) * n1 + i < n2 * n1 := by
    have : n2 * n1 ≤ (n2 + j) * n1 := Nat.mul_le_mul_right _ (by omega)
    omega
  have h1' : (n2 + j) * n1 + i < (2 * n2 - 1) * n1 := by
    have : (n2 + j + 1) * n1 ≤ (2 * n2 - 1) * n1 := Nat.mul_le_mul_right _ (by omega)
    nlinarith
  have h2 : ((n2 + j) * n1 + i) / n1 = n2 + j := by
    rw [Nat.mul_comm, Nat.mul_add_div (by omega), Nat.div_eq_of_lt hi]; rfl
  have h3 : ((n2 + j) * n1 + i) % n1 = i := by
    rw [Nat.mul_comm, Nat.mul_add_mod, Nat.mod_eq_of_lt hi]
  rw [BA.spherePlace, if_neg h1, if_pos h1', h2, h3]
  congr 1; omega

theorem BA.place_top (c k u v : R3) (r : ℝ) (n1 n2 : ℕ) (h2 : 1 ≤ n2) :
    BA.spherePlace c k u v r n1 n2 (sTop n1 n2) = add c (smul r k) := by
  have h1 : ¬ (2 * n2 - 1) * n1 < n2 * n1 := by
    have : n2 * n1 ≤ (2 * n2 - 1) * n1 := Nat.mul_le_mul_right _ (by omega)
    omega
  simp [BA.spherePlace, sTop, h1]

theorem BA.place_bot (c k u v : R3) (r : ℝ) (n1 n2 : ℕ) (h2 : 1 ≤ n2) :
    BA.spherePlace c k u v r n1 n2 (sBot n1 n2) = add c (smul (-r) k) := by
  have h1 : ¬ (2 * n2 - 1) * n1 + 1 < n2 * n1 := by
    have : n2 * n1 ≤ (2 * n2 - 1) * n1 := Nat.mul_le_mul_right _ (by omega)
    omega
  simp [BA.spherePlace, sBot, h1]

/-! ### the faces of sector `i` on the real vertices -/
/-- upper band `j` (between rings `j` and `j+1`), sector `i`, as coded `(ring_j[s], ring_j[e], ring_{j+1}[e], ring_{j+1}[s])` -/
noncomputable def BA.qUp (c k u v : R3) (r : ℝ) (n1 n2 j i : ℕ) : List R3 :=
  [BA.up c k u v r n1 n2 j i, BA.up c k u v r n1 n2 j (i + 1), BA.up c k u v r n1 n2 (j + 1) (i + 1),
    BA.up c k u v r n1 n2 (j + 1) i]
/-- lower band `j`, sector `i`, as coded -/
noncomputable def BA.qLo (c k u v : R3) (r : ℝ) (n1 n2 j i : ℕ) : List R3 :=
  [BA.lo c k u v r n1 n2 j i, BA.lo c k u v r n1 n2 j (i + 1), BA.lo c k u v r n1 n2 (j + 1) (i + 1),
    BA.lo c k u v r n1 n2 (j + 1) i]
/-- top cap triangle as coded `(top_point, tc[n2−2][e], tc[n2−2][s])` -/
noncomputable def BA.capT (c k u v : R3) (r : ℝ) (n1 n2 i : ℕ) : List R3 :=
  [add c (smul r k), BA.up c k u v r n1 n2 (n2 - 1) (i + 1), BA.up c k u v r n1 n2 (n2 - 1) i]
/-- bottom cap triangle as coded `(bottom_point, bc[n2−2][e], bc[n2−2][s])` -/
noncomputable def BA.capB (c k u v : R3) (r : ℝ) (n1 n2 i : ℕ) : List R3 :=
  [add c (smul (-r) k), BA.lo c k u v r n1 n2 (n2 - 1) (i + 1), BA.lo c k u v r n1 n2 (n2 - 1) i]

/-- the faces of sector `i` after the orientation repair: lower bands and the top cap flipped -/
noncomputable def BA.sphereBlock (c k u v : R3) (r : ℝ) (n1 n2 i : ℕ) : List (List R3) :=
  [BA.qUp c k u v r n1 n2 0 i, flipCycle (BA.qLo c k u v r n1 n2 0 i)] ++
  (List.range' 1 (n2 - 2)).flatMap (fun j =>
    [BA.qUp c k u v r n1 n2 j i, flipCycle (BA.qLo c k u v r n1 n2 j i)]) ++
  [flipCycle (BA.capT c k u v r n1 n2 i), BA.capB c k u v r n1 n2 i]

/-- the whole solid -/
noncomputable def BA.sphereSolid (c k u v : R3) (r : ℝ) (n1 n2 : ℕ) : List (List R3) :=
  (List.range n1).flatMap (BA.sphereBlock c k u v r n1 n2)

theorem BA.sTc_eq (n1 j i : ℕ) : sTc n1 j i = (j + 1) * n1 + i := by unfold sTc; ring
theorem BA.sMc_eq (n1 i : ℕ) : sMc n1 i = 0 * n1 + i := by unfold sMc; ring

/-- C14, Sphere: the face list of the model (`sphereOriented`, the Python `cpg_list` after the constructor's repair)
    placed on the real vertices is the list of sector blocks, for every n1 ≥ 1 and n2 ≥ 2 -/
theorem BA.sphere_placed (c k u v : R3) (r : ℝ) (n1 n2 : ℕ) (h2 : 2 ≤ n2) :
    (sphereOriented n1 n2).map (List.map (BA.spherePlace c k u v r n1 n2)) = BA.sphereSolid c k u v r n1 n2 := by
  rw [BA.sphereOriented_eq, BA.sphereSolid, List.map_flatMap]
  apply List.flatMap_congr
  intro i hi
  have hi' : i < n1 := List.mem_range.mp hi
  have hm : (i + 1) % n1 < n1 := Nat.mod_lt _ (by omega)
  have pu := fun m i (hm : m < n2) (hi : i < n1) => BA.place_up c k u v r n1 n2 m i hm hi
  have pl := fun j i (hj : j + 1 < n2) (hi : i < n1) => BA.place_lo c k u v r n1 n2 j i hj hi
  unfold BA.sphereBlockIds BA.sphereBlock
  simp only [List.map_append, List.map_flatMap]
  congr 1
  · congr 1
    · -- first pair of bands
      simp only [List.map_cons, List.map_nil, ← flipCycle_map]
      rw [BA.sMc_eq, BA.sMc_eq, BA.sTc_eq, BA.sTc_eq]
      rw [pu 0 i (by omega) hi', pu 0 _ (by omega) hm, pu 1 i (by omega) hi', pu 1 _ (by omega) hm]
      have e0 : sBc n1 n2 0 i = (n2 + 0) * n1 + i := rfl
      have e1 : sBc n1 n2 0 ((i + 1) % n1) = (n2 + 0) * n1 + (i + 1) % n1 := rfl
      rw [e0, e1, pl 0 i (by omega) hi', pl 0 _ (by omega) hm]
      simp only [BA.qUp, BA.qLo, BA.up_step_mod _ _ _ _ _ _ _ _ _ hi', BA.lo_step_mod _ _ _ _ _ _ _ _ _ hi', BA.lo_zero]
    · apply List.flatMap_congr
      intro j hj
      obtain ⟨hj1, hj2⟩ := List.mem_range'_1.mp hj
      simp only [List.map_cons, List.map_nil, ← flipCycle_map]
      rw [BA.sTc_eq, BA.sTc_eq, BA.sTc_eq, BA.sTc_eq]
      have ej : j - 1 + 1 = j := by omega
      rw [ej, pu j i (by omega) hi', pu j _ (by omega) hm, pu (j + 1) i (by omega) hi', pu (j + 1) _ (by omega) hm]
      have e0 : sBc n1 n2 (j - 1) i = (n2 + (j - 1)) * n1 + i := rfl
      have e1 : sBc n1 n2 (j - 1) ((i + 1) % n1) = (n2 + (j - 1)) * n1 + (i + 1) % n1 := rfl
      have e2 : sBc n1 n2 j i = (n2 + j) * n1 + i := rfl
      have e3 : sBc n1 n2 j ((i + 1) % n1) = (n2 + j) * n1 + (i + 1) % n1 := rfl
      rw [e0, e1, e2, e3, pl (j - 1) i (by omega) hi', pl (j - 1) _ (by omega) hm, pl j i (by omega) hi',
        pl j _ (by omega) hm, ej]
      simp only [BA.qUp, BA.qLo, BA.up_step_mod _ _ _ _ _ _ _ _ _ hi', BA.lo_step_mod _ _ _ _ _ _ _ _ _ hi']
  · simp only [List.map_cons, List.map_nil, ← flipCycle_map]
    rw [BA.place_top c k u v r n1 n2 (by omega), BA.place_bot c k u v r n1 n2 (by omega), BA.sTc_eq, BA.sTc_eq]
    have e2 : sBc n1 n2 (n2 - 2) i = (n2 + (n2 - 2)) * n1 + i := rfl
    have e3 : sBc n1 n2 (n2 - 2) ((i + 1) % n1) = (n2 + (n2 - 2)) * n1 + (i + 1) % n1 := rfl
    have ej : n2 - 2 + 1 = n2 - 1 := by omega
    rw [e2, e3, ej, pu (n2 - 1) i (by omega) hi', pu (n2 - 1) _ (by omega) hm, pl (n2 - 2) i (by omega) hi',
      pl (n2 - 2) _ (by omega) hm, ej]
    simp only [BA.capT, BA.capB, BA.up_step_mod _ _ _ _ _ _ _ _ _ hi', BA.lo_step_mod _ _ _ _ _ _ _ _ _ hi']

/-! ### volume: contributions of the faces to the surface integral `vol6R` -/
/-- contribution of one face to `vol6R` seen from `q` -/
def BA.contrib (q : R3) (l : List R3) : ℝ := dot (sub (l.headD zero) q) (vecArea2R l)

theorem BA.vol6R_eq (fs : List (List R3)) (q : R3) : vol6R fs q = (fs.map (BA.contrib q)).sum := rfl

theorem BA.contrib_flip (q : R3) (l : List R3) : BA.contrib q (flipCycle l) = - BA.contrib q l := by
  unfold BA.contrib
  rw [headD_flipCycle, vecArea2R_flip]
  simp only [dot, smul]; ring

theorem BA.vol6R_append (f g : List (List R3)) (q : R3) : vol6R (f ++ g) q = vol6R f q + vol6R g q := by
  simp [BA.vol6R_eq]

theorem BA.vol6R_flatMap {ι : Type} (g : ι → List (List R3)) (q : R3) :
    ∀ L : List ι, vol6R (L.flatMap g) q = (L.map (fun i => vol6R (g i) q)).sum := by
  intro L
  induction L with
  | nil => simp [BA.vol6R_eq]
  | cons a L ih => rw [List.flatMap_cons, BA.vol6R_append, ih]; simp

theorem BA.sum_flatMap_pair {β : Type} (cf : β → ℝ) (f g : ℕ → β) :
    ∀ (m s : ℕ), (((List.range' s m).flatMap (fun j => [f j, g j])).map cf).sum =
      ∑ j ∈ Finset.range m, (cf (f (s + j)) + cf (g (s + j))) := by
  intro m
  induction m with
  | zero => intro s; simp
  | succ m ih =>
    intro s
    rw [List.range'_succ, List.flatMap_cons, List.map_append, List.sum_append, ih (s + 1), Finset.sum_range_succ']
    simp only [List.map_cons, List.map_nil, List.sum_cons, List.sum_nil, add_zero]
    rw [add_comm]
    congr 1
    apply Finset.sum_congr rfl
    intro j _
    have : s + 1 + j = s + (j + 1) := by omega
    rw [this]

theorem BA.fin_telescope (f : ℕ → ℝ) (K : ℝ) (n : ℕ) (G : ℕ → ℝ) (hG : ∀ i, G i = f (i + 1) - f i + K)
    (hf : f n = f 0) : ∑ i ∈ Finset.range n, G i = n * K := by
  rw [Finset.sum_congr rfl (fun i _ => hG i), Finset.sum_add_distrib, Finset.sum_range_sub, Finset.sum_const,
    Finset.card_range, nsmul_eq_mul, hf]
  ring

theorem BA.fin_telescope0 (f : ℕ → ℝ) (n : ℕ) (G : ℕ → ℝ) (hG : ∀ i, G i = f (i + 1) - f i) :
    ∑ i ∈ Finset.range n, G i = f n - f 0 := by
  rw [Finset.sum_congr rfl (fun i _ => hG i), Finset.sum_range_sub]

/-- vector area of a band quadrilateral between the rings `a + ρ1·e`, `b + ρ2·e` -/
theorem BA.quadVA (a b e e' : R3) (ρ1 ρ2 : ℝ) :
    vecArea2R [add a (smul ρ1 e), add a (smul ρ1 e'), add b (smul ρ2 e'), add b (smul ρ2 e)] =
      add (smul (ρ1 + ρ2) (cross (sub b a) (sub e e'))) (smul (ρ1 ^ 2 - ρ2 ^ 2) (cross e e')) := by
  apply R3.ext' <;> simp [vecArea2R, vsumR, cyc, consecG, cross, add, sub, smul] <;> ring

/-- contribution of a band quadrilateral: a difference (telescoping over the sector index) plus a constant -/
theorem BA.quad_contrib (a b e e' q w : R3) (ρ1 ρ2 s : ℝ) (hw : cross e e' = smul s w) :
    BA.contrib q [add a (smul ρ1 e), add a (smul ρ1 e'), add b (smul ρ2 e'), add b (smul ρ2 e)] =
      -(ρ1 + ρ2) * dot (sub a q) (cross (sub b a) e') - (-(ρ1 + ρ2) * dot (sub a q) (cross (sub b a) e)) +
        s * ((ρ1 ^ 2 - ρ2 ^ 2) * dot (sub a q) w + ρ1 * (ρ1 + ρ2) * dot (sub b a) w) := by
  unfold BA.contrib
  rw [BA.quadVA]
  have hx := congrArg R3.x hw
  have hy := congrArg R3.y hw
  have hz := congrArg R3.z hw
  simp only [List.headD_cons, dot, cross, add, sub, smul] at hx hy hz ⊢
  linear_combination ((ρ1 ^ 2 - ρ2 ^ 2) * (a.x - q.x) + ρ1 * (ρ1 + ρ2) * (b.x - a.x)) * hx +
    ((ρ1 ^ 2 - ρ2 ^ 2) * (a.y - q.y) + ρ1 * (ρ1 + ρ2) * (b.y - a.y)) * hy +
    ((ρ1 ^ 2 - ρ2 ^ 2) * (a.z - q.z) + ρ1 * (ρ1 + ρ2) * (b.z - a.z)) * hz

/-- contribution of a cap triangle `(p, a + ρ·e, a + ρ·e')` -/
theorem BA.tri_contrib (a p e e' q w : R3) (ρ s : ℝ) (hw : cross e e' = smul s w) :
    BA.contrib q [p, add a (smul ρ e), add a (smul ρ e')] =
      ρ * dot (sub p q) (cross (sub a p) e') - ρ * dot (sub p q) (cross (sub a p) e) +
        s * (ρ ^ 2 * dot (sub p q) w) := by
  unfold BA.contrib
  rw [tri_vecArea2]
  have hx := congrArg R3.x hw
  have hy := congrArg R3.y hw
  have hz := congrArg R3.z hw
  simp only [List.headD_cons, dot, cross, add, sub, smul] at hx hy hz ⊢
  linear_combination (ρ ^ 2 * (p.x - q.x)) * hx + (ρ ^ 2 * (p.y - q.y)) * hy + (ρ ^ 2 * (p.z - q.z)) * hz

/-- one latitude band (all n sectors) between the rings at signed latitudes `φ`, `φ'`, oriented
    `(A_s, A_e, B_e, B_s)`: with `Q = (c − q)·(u × v)`, `D = k·(u × v)` -/
theorem BA.band_sum (c k u v q : R3) (r φ φ' : ℝ) (n : ℕ) (hn : 0 < n) :
    ∑ i ∈ Finset.range n, BA.contrib q
      [BA.sphPt c k u v r φ (stepAngle n i), BA.sphPt c k u v r φ (stepAngle n (i + 1)),
        BA.sphPt c k u v r φ' (stepAngle n (i + 1)), BA.sphPt c k u v r φ' (stepAngle n i)] =
      n * (sin (2 * π / n) * (((r * cos φ) ^ 2 - (r * cos φ') ^ 2) *
          (dot (sub c q) (cross u v) + r * sin φ * dot k (cross u v)) +
        r * cos φ * (r * cos φ + r * cos φ') * ((r * sin φ' - r * sin φ) * dot k (cross u v)))) := by
  apply BA.fin_telescope (fun i => -(r * cos φ + r * cos φ') * dot (sub (add c (smul (r * sin φ) k)) q)
    (cross (sub (add c (smul (r * sin φ') k)) (add c (smul (r * sin φ) k))) (rad u v (stepAngle n i))))
  · intro i
    simp only [BA.sphPt_eq]
    rw [BA.quad_contrib _ _ _ _ q (cross u v) _ _ (sin (2 * π / n)) (rad_cross u v n i)]
    simp only [dot, cross, add, sub, smul]; ring
  · show _ = _
    rw [rad_closed u v n (by omega)]

/-- one polar cap (all n sectors), triangles `(p, A_s, A_e)` -/
theorem BA.cap_sum (c k u v p q : R3) (r φ : ℝ) (n : ℕ) (hn : 0 < n) :
    ∑ i ∈ Finset.range n, BA.contrib q
      [p, BA.sphPt c k u v r φ (stepAngle n i), BA.sphPt c k u v r φ (stepAngle n (i + 1))] =
      n * (sin (2 * π / n) * ((r * cos φ) ^ 2 * dot (sub p q) (cross u v))) := by
  apply BA.fin_telescope (fun i => (r * cos φ) * dot (sub p q)
    (cross (sub (add c (smul (r * sin φ) k)) p) (rad u v (stepAngle n i))))
  · intro i
    simp only [BA.sphPt_eq]
    rw [BA.tri_contrib _ _ _ _ q (cross u v) _ (sin (2 * π / n)) (rad_cross u v n i)]
  · show _ = _
    rw [rad_closed u v n (by omega)]

/-- the surface integral over the faces of sector `i` (n2 = m + 2) -/
theorem BA.block_vol (c k u v q : R3) (r : ℝ) (n1 m i : ℕ) :
    vol6R (BA.sphereBlock c k u v r n1 (m + 2) i) q =
      ∑ j ∈ Finset.range (m + 1),
          (BA.contrib q (BA.qUp c k u v r n1 (m + 2) j i) - BA.contrib q (BA.qLo c k u v r n1 (m + 2) j i)) -
        BA.contrib q (BA.capT c k u v r n1 (m + 2) i) + BA.contrib q (BA.capB c k u v r n1 (m + 2) i) := by
  unfold BA.sphereBlock
  rw [BA.vol6R_append, BA.vol6R_append, Finset.sum_range_succ']
  have e : m + 2 - 2 = m := by omega
  rw [e]
  rw [BA.vol6R_eq _ q, BA.vol6R_eq _ q, BA.vol6R_eq _ q, BA.sum_flatMap_pair]
  simp only [List.map_cons, List.map_nil, List.sum_cons, List.sum_nil, BA.contrib_flip, add_zero]
  have : ∀ j, 1 + j = j + 1 := fun j => Nat.add_comm 1 j
  simp only [this, ← sub_eq_add_neg]
  ring

theorem BA.capT_eq (c k u v : R3) (r : ℝ) (n1 n2 i : ℕ) :
    BA.capT c k u v r n1 n2 i = flipCycle [add c (smul r k), BA.up c k u v r n1 n2 (n2 - 1) i,
      BA.up c k u v r n1 n2 (n2 - 1) (i + 1)] := by
  simp [BA.capT, flipCycle]

theorem BA.capB_eq (c k u v : R3) (r : ℝ) (n1 n2 i : ℕ) :
    BA.capB c k u v r n1 n2 i = flipCycle [add c (smul (-r) k), BA.lo c k u v r n1 n2 (n2 - 1) i,
      BA.lo c k u v r n1 n2 (n2 - 1) (i + 1)] := by
  simp [BA.capB, flipCycle]

/-- algebra of one pair of bands (upper band j and its mirror image) -/
theorem BA.band_pair_identity (Q D ρ1 ρ2 z1 z2 : ℝ) :
    ((ρ1 ^ 2 - ρ2 ^ 2) * (Q + z1 * D) + ρ1 * (ρ1 + ρ2) * ((z2 - z1) * D)) -
      ((ρ1 ^ 2 - ρ2 ^ 2) * (Q + (-z1) * D) + ρ1 * (ρ1 + ρ2) * ((-z2 - -z1) * D)) =
      D * (2 * ((z2 - z1) * (ρ1 ^ 2 + ρ1 * ρ2 + ρ2 ^ 2))) - 2 * D * (ρ2 ^ 2 * z2 - ρ1 ^ 2 * z1) := by ring

/-- C14, Sphere VOLUME, every n1 ≥ 1, n2 ≥ 2, every reference point `q`: the surface integral over the faces of
    `Sphere(center, radius, n1, n2)` as oriented by the constructor (`sphereOriented`: per sector the upper band
    quadrilaterals `(ring_j[s], ring_j[e], ring_{j+1}[e], ring_{j+1}[s])`, the flipped lower ones, the flipped top
    triangle and the bottom triangle) is
      `6·V = n1·sin(2π/n1)·(k·(u × v))·2·Σ_{j<n2} (z_{j+1} − z_j)·(ρ_j² + ρ_j·ρ_{j+1} + ρ_{j+1}²)`,
    `ρ_j = r·cos(lat_j)`, `z_j = r·sin(lat_j)`: twice (two hemispheres) the sum over the bands of the frustum volumes
    `h/3·(A_j + √(A_j·A_{j+1}) + A_{j+1})`, `A_j = n1/2·ρ_j²·sin(2π/n1)` the area of the inscribed n1-gon of ring `j`
    (`k·(u × v) = 1` for the frame of `get_circle_point_list`) -/
theorem BA.sphere_volume (c k u v q : R3) (r : ℝ) (n1 n2 : ℕ) (hn1 : 0 < n1) (h2 : 2 ≤ n2) :
    vol6R ((sphereOriented n1 n2).map (List.map (BA.spherePlace c k u v r n1 n2))) q =
      n1 * sin (2 * π / n1) * dot k (cross u v) *
        (2 * ∑ j ∈ Finset.range n2, (r * sin (BA.lat n2 (j + 1)) - r * sin (BA.lat n2 j)) *
          ((r * cos (BA.lat n2 j)) ^ 2 + (r * cos (BA.lat n2 j)) * (r * cos (BA.lat n2 (j + 1))) +
            (r * cos (BA.lat n2 (j + 1))) ^ 2)) := by
  rw [BA.sphere_placed c k u v r n1 n2 h2]
  obtain ⟨m, rfl⟩ : ∃ m, n2 = m + 2 := ⟨n2 - 2, by omega⟩
  unfold BA.sphereSolid
  rw [BA.vol6R_flatMap, sum_map_range]
  simp only [BA.block_vol]
  rw [Finset.sum_add_distrib, Finset.sum_sub_distrib, Finset.sum_comm]
  simp only [Finset.sum_sub_distrib]
  have e1 : m + 2 - 1 = m + 1 := by omega
  -- the caps
  have hT : ∑ i ∈ Finset.range n1, BA.contrib q (BA.capT c k u v r n1 (m + 2) i) =
      - (n1 * (sin (2 * π / n1) * ((r * cos (BA.lat (m + 2) (m + 1))) ^ 2 *
        dot (sub (add c (smul r k)) q) (cross u v)))) := by
    simp only [BA.capT_eq, BA.contrib_flip, Finset.sum_neg_distrib, e1, BA.up]
    rw [BA.cap_sum c k u v _ q r _ n1 hn1]
  have hB : ∑ i ∈ Finset.range n1, BA.contrib q (BA.capB c k u v r n1 (m + 2) i) =
      - (n1 * (sin (2 * π / n1) * ((r * cos (BA.lat (m + 2) (m + 1))) ^ 2 *
        dot (sub (add c (smul (-r) k)) q) (cross u v)))) := by
    simp only [BA.capB_eq, BA.contrib_flip, Finset.sum_neg_distrib, e1, BA.lo]
    rw [BA.cap_sum c k u v _ q r _ n1 hn1, cos_neg]
  -- the bands
  have hU : ∀ j, ∑ i ∈ Finset.range n1, BA.contrib q (BA.qUp c k u v r n1 (m + 2) j i) = _ :=
    fun j => BA.band_sum c k u v q r (BA.lat (m + 2) j) (BA.lat (m + 2) (j + 1)) n1 hn1
  have hL : ∀ j, ∑ i ∈ Finset.range n1, BA.contrib q (BA.qLo c k u v r n1 (m + 2) j i) = _ :=
    fun j => BA.band_sum c k u v q r (-BA.lat (m + 2) j) (-BA.lat (m + 2) (j + 1)) n1 hn1
  simp only [BA.qUp, BA.qLo, BA.up, BA.lo] at hU hL
  simp only [BA.qUp, BA.qLo, BA.up, BA.lo, hU, hL, cos_neg, sin_neg, mul_neg]
  rw [hT, hB, ← Finset.sum_sub_distrib]
  -- algebra: telescoping over the bands
  have hpair : ∀ j ∈ Finset.range (m + 1),
      (n1 * (sin (2 * π / n1) * (((r * cos (BA.lat (m + 2) j)) ^ 2 - (r * cos (BA.lat (m + 2) (j + 1))) ^ 2) *
          (dot (sub c q) (cross u v) + r * sin (BA.lat (m + 2) j) * dot k (cross u v)) +
        r * cos (BA.lat (m + 2) j) * (r * cos (BA.lat (m + 2) j) + r * cos (BA.lat (m + 2) (j + 1))) *
          ((r * sin (BA.lat (m + 2) (j + 1)) - r * sin (BA.lat (m + 2) j)) * dot k (cross u v)))) -
      n1 * (sin (2 * π / n1) * (((r * cos (BA.lat (m + 2) j)) ^ 2 - (r * cos (BA.lat (m + 2) (j + 1))) ^ 2) *
          (dot (sub c q) (cross u v) + -(r * sin (BA.lat (m + 2) j)) * dot k (cross u v)) +
        r * cos (BA.lat (m + 2) j) * (r * cos (BA.lat (m + 2) j) + r * cos (BA.lat (m + 2) (j + 1))) *
          ((-(r * sin (BA.lat (m + 2) (j + 1))) - -(r * sin (BA.lat (m + 2) j))) * dot k (cross u v))))) =
      n1 * sin (2 * π / n1) * dot k (cross u v) *
        (2 * ((r * sin (BA.lat (m + 2) (j + 1)) - r * sin (BA.lat (m + 2) j)) *
          ((r * cos (BA.lat (m + 2) j)) ^ 2 + (r * cos (BA.lat (m + 2) j)) * (r * cos (BA.lat (m + 2) (j + 1))) +
            (r * cos (BA.lat (m + 2) (j + 1))) ^ 2))) -
        ((n1 * sin (2 * π / n1) * dot k (cross u v) * 2) *
            ((r * cos (BA.lat (m + 2) (j + 1))) ^ 2 * (r * sin (BA.lat (m + 2) (j + 1)))) -
          (n1 * sin (2 * π / n1) * dot k (cross u v) * 2) *
            ((r * cos (BA.lat (m + 2) j)) ^ 2 * (r * sin (BA.lat (m + 2) j)))) := by
    intro j _
    have := BA.band_pair_identity (dot (sub c q) (cross u v)) (dot k (cross u v)) (r * cos (BA.lat (m + 2) j))
      (r * cos (BA.lat (m + 2) (j + 1))) (r * sin (BA.lat (m + 2) j)) (r * sin (BA.lat (m + 2) (j + 1)))
    linear_combination (n1 * sin (2 * π / n1)) * this
  rw [Finset.sum_congr rfl hpair, Finset.sum_sub_distrib,
    Finset.sum_range_sub (fun j => (n1 * sin (2 * π / n1) * dot k (cross u v) * 2) *
      ((r * cos (BA.lat (m + 2) j)) ^ 2 * (r * sin (BA.lat (m + 2) j)))) (m + 1),
    ← Finset.mul_sum, ← Finset.mul_sum, Finset.sum_range_succ _ (m + 1)]
  have hpole : BA.lat (m + 2) (m + 1 + 1) = π / 2 := BA.lat_pole (m + 2) (by omega)
  simp only [hpole, BA.lat_zero, sin_zero, cos_pi_div_two, sin_pi_div_two]
  simp only [dot, sub, add, smul]
  ring

/-- the sum over the latitude bands in closed form: `Σ_j (sin φ_{j+1} − sin φ_j)(cos²φ_j + cos φ_j cos φ_{j+1} +
    cos²φ_{j+1}) = 1 + cos(π/2/n2)` (telescoping: each term is `(2 + cos Δ)(sin φ_{j+1} − sin φ_j) − (sin³φ_{j+1} −
    sin³φ_j)`, `Δ = π/2/n2` the latitude step) -/
theorem BA.lat_sum_closed (r : ℝ) (n2 : ℕ) (h : n2 ≠ 0) :
    ∑ j ∈ Finset.range n2, (r * sin (BA.lat n2 (j + 1)) - r * sin (BA.lat n2 j)) *
      ((r * cos (BA.lat n2 j)) ^ 2 + (r * cos (BA.lat n2 j)) * (r * cos (BA.lat n2 (j + 1))) +
        (r * cos (BA.lat n2 (j + 1))) ^ 2) = r ^ 3 * (1 + cos (π / 2 / n2)) := by
  rw [BA.fin_telescope0 (fun j => r ^ 3 * ((2 + cos (π / 2 / n2)) * sin (BA.lat n2 j) - sin (BA.lat n2 j) ^ 3))]
  · simp only [BA.lat_pole n2 h, BA.lat_zero, sin_pi_div_two, sin_zero]
    ring
  · intro j
    have hd : BA.lat n2 (j + 1) - BA.lat n2 j = π / 2 / n2 := by unfold BA.lat; push_cast; ring
    have hc : cos (π / 2 / n2) = cos (BA.lat n2 (j + 1)) * cos (BA.lat n2 j) +
        sin (BA.lat n2 (j + 1)) * sin (BA.lat n2 j) := by rw [← hd, cos_sub]
    have ha := cos_sq_add_sin_sq (BA.lat n2 j)
    have hb := cos_sq_add_sin_sq (BA.lat n2 (j + 1))
    rw [hc]
    generalize BA.lat n2 (j + 1) = b at *
    generalize BA.lat n2 j = a at *
    linear_combination (r ^ 3 * (sin b - sin a)) * ha + (r ^ 3 * (sin b - sin a)) * hb

/-- C14, Sphere VOLUME in closed form, every n1 ≥ 1, n2 ≥ 2:
    `V = vol6/6 = n1/3·r³·sin(2π/n1)·(1 + cos(π/(2·n2)))·(k·(u × v))`
    (→ `4/3·π·r³` as n1, n2 → ∞) -/
theorem BA.sphere_volume_closed (c k u v q : R3) (r : ℝ) (n1 n2 : ℕ) (hn1 : 0 < n1) (h2 : 2 ≤ n2) :
    vol6R ((sphereOriented n1 n2).map (List.map (BA.spherePlace c k u v r n1 n2))) q =
      6 * (n1 / 3 * r ^ 3 * sin (2 * π / n1) * (1 + cos (π / 2 / n2))) * dot k (cross u v) := by
  rw [BA.sphere_volume c k u v q r n1 n2 hn1 h2, BA.lat_sum_closed r n2 (by omega)]
  ring

/-- the unit frame of `get_circle_point_list`, scaled by the ring radius, is the frame of radius `ρ` -/
theorem BA.frame_scale_eq (k b : R3) (ρ : ℝ) :
    frameU k b ρ = smul ρ (frameU k b 1) ∧ frameV k b ρ = smul ρ (frameV k b 1) := by
  constructor <;> apply R3.ext' <;> simp only [frameU, frameV, smul] <;> ring

/-- … with the frame of `get_circle_point_list` for a unit normal `k` (the code: `z_unit_vector()`) and a base vector
    `b` not parallel to it: `V = n1/3·r³·sin(2π/n1)·(1 + cos(π/(2·n2)))` -/
theorem BA.sphere_volume_closed_form (c k b q : R3) (r : ℝ) (n1 n2 : ℕ) (hn1 : 0 < n1) (h2 : 2 ≤ n2)
    (hk : normSq k = 1) (hb : 0 < normSq (cross k b)) :
    vol6R ((sphereOriented n1 n2).map (List.map (BA.spherePlace c k (frameU k b 1) (frameV k b 1) r n1 n2))) q =
      6 * (n1 / 3 * r ^ 3 * sin (2 * π / n1) * (1 + cos (π / 2 / n2))) := by
  rw [BA.sphere_volume_closed c k _ _ q r n1 n2 hn1 h2,
    (frame_real_positive k b 1 one_pos (by rw [hk]; exact one_pos) hb).1, hk]
  simp

#print axioms BA.sphereOriented_eq
#print axioms BA.sphere_placed
#print axioms BA.sphPt_on_sphere
#print axioms BA.sphere_volume
#print axioms BA.lat_sum_closed
#print axioms BA.sphere_volume_closed
#print axioms BA.sphere_volume_closed_form
end BuildersReal
end G3D
