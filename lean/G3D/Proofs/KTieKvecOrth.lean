import G3D.Extracted.Kvec
import G3D.Model.Flat
import G3D.Proofs.Vec
/-! # kvec, `Vector.orthogonal`  (C11, C19)
    `G3D.Extracted.impl_*` are regenerated on every run (tools/extract_kvec.py, engine tools/kernels_engine.py): the REAL code is run on
    symbolic numbers, every comparison against the tolerance is recorded (operands and shape) and answered from a scripted
    path.  Each kernel has its own `section`: when the walk of ONE kernel fails the generated file holds only the marker
    `impl_<kernel>_EXTRACTION_FAILED` for it and exactly the theorems of that section stop compiling.
    (The ties of the group kvec are spread over four modules, one per property served: KTieKvecEq (C08), KTieKvecOrth (C11),
    KTieKvecLen (C06), KTieKvecPar (C11, C19).) -/
namespace G3D.KTie.Kvec
open G3D V3 G3D.Extracted

section orthogonal
theorem orthogonal_tie (a b : V3) : impl_orthogonal_residual a b = dot a b := by
  simp only [impl_orthogonal_residual, dot]; ring

theorem orthogonal_iff (a b : V3) : V3.orthogonal a b = true ↔ impl_orthogonal_residual a b = 0 := by
  rw [orthogonal_tie]; simp only [V3.orthogonal, beq_iff_eq]

theorem orthogonal_shape : impl_orthogonal_shape = "abs(R) < eps" ∧ impl_orthogonal_path = [("abs(R) < eps", true)] := by
  decide
end orthogonal

end G3D.KTie.Kvec
