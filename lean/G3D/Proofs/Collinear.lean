import G3D.Proofs.InterFlat
import Mathlib.Order.Lattice
import Mathlib.Algebra.Order.Field.Basic
import Mathlib.Tactic.Ring
import Mathlib.Tactic.Linarith
import Mathlib.Tactic.FieldSimp

namespace G3D
open V3

/-! ### collected point sets -/
def addIf (c : Bool) (p : V3) (l : List V3) : List V3 := if c then addNew l p else l

theorem mem_addNew (l : List V3) (q p : V3) : p ∈ addNew l q ↔ p ∈ l ∨ p = q := by
  unfold addNew
  by_cases h : q ∈ l
  · rw [if_pos h]; constructor
    · exact Or.inl
    · rintro (h1 | rfl); exact h1; exact h
  · rw [if_neg h]; simp

theorem nodup_addNew (l : List V3) (q : V3) (h : l.Nodup) : (addNew l q).Nodup := by
  unfold addNew
  by_cases hq : q ∈ l
  · rw [if_pos hq]; exact h
  · rw [if_neg hq]
    rw [List.nodup_append]
    refine ⟨h, List.nodup_singleton q, ?_⟩
    intro a ha b hb
    simp at hb; subst hb
    exact fun e => hq (e ▸ ha)

theorem mem_addIf (c : Bool) (q : V3) (l : List V3) (p : V3) :
    p ∈ addIf c q l ↔ p ∈ l ∨ (c = true ∧ p = q) := by
  unfold addIf
  by_cases h : c = true
  · rw [if_pos h, mem_addNew]; simp [h]
  · rw [if_neg h]; simp [h]

theorem nodup_addIf (c : Bool) (q : V3) (l : List V3) (h : l.Nodup) : (addIf c q l).Nodup := by
  unfold addIf; split
  · exact nodup_addNew l q h
  · exact h

theorem mem_addIf4 (c1 c2 c3 c4 : Bool) (q1 q2 q3 q4 p : V3) :
    p ∈ addIf c4 q4 (addIf c3 q3 (addIf c2 q2 (addIf c1 q1 []))) ↔
      ((c1 = true ∧ p = q1) ∨ (c2 = true ∧ p = q2) ∨ (c3 = true ∧ p = q3) ∨ (c4 = true ∧ p = q4)) := by
  rw [mem_addIf, mem_addIf, mem_addIf, mem_addIf]
  simp only [List.not_mem_nil, false_or]
  tauto

/-- segment between two (possibly equal) points, as a point set -/
def Between (P Q x : V3) : Prop := ∃ t : Rat, 0 ≤ t ∧ t ≤ 1 ∧ x = add P (smul t (sub Q P))

theorem Between_swap (P Q x : V3) : Between P Q x ↔ Between Q P x := by
  constructor <;>
  · rintro ⟨t, h0, h1, rfl⟩
    exact ⟨1 - t, by linarith, by linarith, by apply V3.ext' <;> simp [add, smul, sub] <;> ring⟩

theorem Between_self (P x : V3) : Between P P x ↔ x = P := by
  constructor
  · rintro ⟨t, _, _, rfl⟩; apply V3.ext' <;> simp [add, smul, sub]
  · rintro rfl; exact ⟨0, le_refl _, by norm_num, by apply V3.ext' <;> simp [add, smul, sub]⟩

theorem Seg.mk'_den (P Q x : V3) : (Seg.mk' P Q).den x ↔ Between P Q x := Iff.rfl

theorem Seg.mk'_WF {P Q : V3} (h : P ≠ Q) : (Seg.mk' P Q).WF := ⟨h, rfl⟩

theorem ofPointSet_nil_exact {A B : V3 → Prop} (h : ∀ x, ¬ (A x ∧ B x)) : Exact (ofPointSet []) A B :=
  Exact.mk_none h

/-- a duplicate-free collected list whose members are the two extreme points `P`, `Q` of `A ∩ B` -/
theorem ofPointSet_pair_exact {A B : V3 → Prop} (ps : List V3) (P Q : V3) (hnd : ps.Nodup)
    (hsub : ∀ p ∈ ps, p = P ∨ p = Q) (hP : P ∈ ps) (hQ : Q ∈ ps)
    (hden : ∀ x, (A x ∧ B x) ↔ Between P Q x) : Exact (ofPointSet ps) A B := by
  by_cases hPQ : P = Q
  · subst hPQ
    have : ps = [P] := by
      match ps, hnd, hsub, hP with
      | [a], _, hsub, _ => rcases hsub a (by simp) with h | h <;> rw [h]
      | a :: b :: rest, hnd, hsub, _ =>
        exfalso
        have ha : a = P := by rcases hsub a (by simp) with h | h <;> exact h
        have hb : b = P := by rcases hsub b (by simp) with h | h <;> exact h
        rw [List.nodup_cons] at hnd
        exact hnd.1 (by rw [ha, hb]; simp)
    rw [this]
    refine Exact.mk_some (.point P) trivial (fun x => ?_)
    simp only [Geo.den]; rw [hden, Between_self]
  · have hlen : ps = [P, Q] ∨ ps = [Q, P] := by
      match ps, hnd, hsub, hP, hQ with
      | [a], _, hsub, hP, hQ =>
        exfalso; simp at hP hQ; exact hPQ (hP.trans hQ.symm)
      | [a, b], hnd, hsub, hP, hQ =>
        have hab : a ≠ b := by
          intro h; rw [List.nodup_cons] at hnd; exact hnd.1 (by simp [h])
        rcases hsub a (by simp) with ha | ha <;> rcases hsub b (by simp) with hb | hb
        · exact absurd (ha.trans hb.symm) hab
        · left; rw [ha, hb]
        · right; rw [ha, hb]
        · exact absurd (ha.trans hb.symm) hab
      | a :: b :: c :: rest, hnd, hsub, _, _ =>
        exfalso
        rw [List.nodup_cons, List.nodup_cons] at hnd
        have hab : a ≠ b := fun h => hnd.1 (by simp [h])
        have hac : a ≠ c := fun h => hnd.1 (by simp [h])
        have hbc : b ≠ c := fun h => hnd.2.1 (by simp [h])
        rcases hsub a (by simp) with ha | ha <;> rcases hsub b (by simp) with hb | hb <;>
          rcases hsub c (by simp) with hc | hc <;> simp_all
    rcases hlen with h | h
    · rw [h]
      simp only [ofPointSet, mkSeg, if_neg hPQ]
      refine Exact.mk_some (.seg (Seg.mk' P Q)) (Seg.mk'_WF hPQ) (fun x => ?_)
      simp only [Geo.den]; rw [Seg.mk'_den, hden]
    · rw [h]
      simp only [ofPointSet, mkSeg, if_neg (Ne.symm hPQ)]
      refine Exact.mk_some (.seg (Seg.mk' Q P)) (Seg.mk'_WF (Ne.symm hPQ)) (fun x => ?_)
      simp only [Geo.den]; rw [Seg.mk'_den, hden, Between_swap]
#print axioms ofPointSet_pair_exact

/-! ### parametrisation of a line -/
def pt (o d : V3) (t : Rat) : V3 := add o (smul t d)

theorem pt_inj {o d : V3} (hd : d ≠ zero) {t t' : Rat} (h : pt o d t = pt o d t') : t = t' := by
  by_contra hne
  apply hd
  apply smul_eq_zero_of_ne (sub_ne_zero.mpr hne)
  have hx := congrArg V3.x h; have hy := congrArg V3.y h; have hz := congrArg V3.z h
  simp only [pt, add, smul] at hx hy hz
  apply V3.ext' <;> simp only [smul, zero] <;> linarith

theorem Between_pt {o d : V3} {lo hi : Rat} (h : lo ≤ hi) (x : V3) :
    Between (pt o d lo) (pt o d hi) x ↔ ∃ t, lo ≤ t ∧ t ≤ hi ∧ x = pt o d t := by
  constructor
  · rintro ⟨u, h0, h1, rfl⟩
    refine ⟨lo + u * (hi - lo), by nlinarith, by nlinarith, ?_⟩
    apply V3.ext' <;> simp only [pt, add, smul, sub] <;> ring
  · rintro ⟨t, h0, h1, rfl⟩
    rcases eq_or_lt_of_le h with heq | hlt
    · have : t = lo := le_antisymm (by linarith) h0
      subst this
      exact ⟨0, le_refl _, by norm_num, by apply V3.ext' <;> simp [pt, add, smul, sub]⟩
    · have hpos : 0 < hi - lo := by linarith
      refine ⟨(t - lo) / (hi - lo), div_nonneg (by linarith) (le_of_lt hpos),
        by rw [div_le_one hpos]; linarith, ?_⟩
      apply V3.ext' <;> simp only [pt, add, smul, sub] <;> field_simp <;> ring

/-- a segment whose endpoints sit at parameters `s`, `e` of the line -/
theorem seg_den_pt {o d : V3} (hd : d ≠ zero) (b : Seg) {s e : Rat} (hs : b.a = pt o d s) (he : b.b = pt o d e)
    (t : Rat) : b.den (pt o d t) ↔ (min s e ≤ t ∧ t ≤ max s e) := by
  have hb : ∀ x, b.den x ↔ Between (pt o d s) (pt o d e) x := by
    intro x; unfold Seg.den Between; rw [hs, he]
  rw [hb]
  rcases le_total s e with hse | hse
  · rw [min_eq_left hse, max_eq_right hse, Between_pt hse]
    constructor
    · rintro ⟨t', h0, h1, ht⟩; rw [pt_inj hd ht]; exact ⟨h0, h1⟩
    · rintro ⟨h0, h1⟩; exact ⟨t, h0, h1, rfl⟩
  · rw [min_eq_right hse, max_eq_left hse, Between_swap, Between_pt hse]
    constructor
    · rintro ⟨t', h0, h1, ht⟩; rw [pt_inj hd ht]; exact ⟨h0, h1⟩
    · rintro ⟨h0, h1⟩; exact ⟨t, h0, h1, rfl⟩

theorem seg_den_on_line {o d : V3} (b : Seg) {s e : Rat} (hs : b.a = pt o d s) (he : b.b = pt o d e)
    (x : V3) (hx : b.den x) : ∃ t, x = pt o d t := by
  obtain ⟨u, _, _, rfl⟩ := hx
  refine ⟨s + u * (e - s), ?_⟩
  rw [hs, he]; apply V3.ext' <;> simp only [pt, add, smul, sub] <;> ring

/-- endpoints of a second collinear object expressed in the parametrisation of the first line -/
theorem eqv_params (l m : Line) (hl : l.WF) (h : l.eqv m = true) :
    ∃ s k : Rat, m.sv = pt l.sv l.dv s ∧ m.dv = smul k l.dv := by
  unfold Line.eqv at h
  rw [Bool.and_eq_true, Line.contains_iff l hl, parallel_iff_cross] at h
  obtain ⟨⟨s, hs⟩, hc⟩ := h
  exact ⟨s, _, hs, exists_smul_of_cross_zero hl hc⟩

theorem interSegSeg_collinear_exact (a b : Seg) (ha : a.WF) (hb : b.WF) (heq : a.line.eqv b.line = true) :
    Exact (interSegSeg a b) a.den b.den := by
  obtain ⟨hab, hal⟩ := ha
  obtain ⟨hbab, hbl⟩ := hb
  have haW : a.WF := ⟨hab, hal⟩
  have hbW : b.WF := ⟨hbab, hbl⟩
  set o := a.a with ho
  set d := sub a.b a.a with hdd
  have hd : d ≠ zero := fun h => hab (sub_eq_zero_iff.mp h).symm
  have hlW : a.line.WF := by rw [hal]; exact hd
  obtain ⟨s, k, hs, hk⟩ := eqv_params a.line b.line hlW heq
  rw [hal, hbl] at hs hk
  simp only at hs hk
  have hbs : b.a = pt o d s := hs
  have hbe : b.b = pt o d (s + k) := by
    have hx := congrArg V3.x hk; have hy := congrArg V3.y hk; have hz := congrArg V3.z hk
    rw [hs] at hx hy hz
    simp only [sub, smul, pt, add] at hx hy hz
    apply V3.ext' <;> simp only [pt, add, smul] <;> linarith
  have hk0 : k ≠ 0 := by
    rintro rfl; apply hbab; rw [hbs, hbe]; simp
  set e := s + k with hedef
  have hse : s ≠ e := by intro h; apply hk0; linarith
  have ha0 : a.a = pt o d 0 := by apply V3.ext' <;> simp [pt, add, smul, ho]
  have ha1 : a.b = pt o d 1 := by apply V3.ext' <;> simp [pt, add, smul, sub, ho, hdd]
  -- membership tests in parameter form
  have aden : ∀ t, a.den (pt o d t) ↔ (0 ≤ t ∧ t ≤ 1) := by
    intro t
    have := seg_den_pt hd a ha0 ha1 t
    rw [min_eq_left (by norm_num : (0:Rat) ≤ 1), max_eq_right (by norm_num : (0:Rat) ≤ 1)] at this
    exact this
  have bden : ∀ t, b.den (pt o d t) ↔ (min s e ≤ t ∧ t ≤ max s e) := seg_den_pt hd b hbs hbe
  have c1 : b.contains a.a = true ↔ (min s e ≤ 0 ∧ 0 ≤ max s e) := by
    rw [Seg.contains_iff b hbW, ha0]; exact bden 0
  have c2 : b.contains a.b = true ↔ (min s e ≤ 1 ∧ 1 ≤ max s e) := by
    rw [Seg.contains_iff b hbW, ha1]; exact bden 1
  have c3 : a.contains b.a = true ↔ (0 ≤ s ∧ s ≤ 1) := by
    rw [Seg.contains_iff a haW, hbs]; exact aden s
  have c4 : a.contains b.b = true ↔ (0 ≤ e ∧ e ≤ 1) := by
    rw [Seg.contains_iff a haW, hbe]; exact aden e
  -- the collected list
  have hps : interSegSeg a b = ofPointSet (addIf (a.contains b.b) b.b (addIf (a.contains b.a) b.a
      (addIf (b.contains a.b) a.b (addIf (b.contains a.a) a.a [])))) := by
    unfold interSegSeg; rw [if_pos heq]; rfl
  rw [hps]
  set ps := addIf (a.contains b.b) b.b (addIf (a.contains b.a) b.a
      (addIf (b.contains a.b) a.b (addIf (b.contains a.a) a.a []))) with hpsdef
  have hnd : ps.Nodup := nodup_addIf _ _ _ (nodup_addIf _ _ _ (nodup_addIf _ _ _ (nodup_addIf _ _ _ List.nodup_nil)))
  have hmem : ∀ p, p ∈ ps ↔ ((b.contains a.a = true ∧ p = a.a) ∨ (b.contains a.b = true ∧ p = a.b) ∨
      (a.contains b.a = true ∧ p = b.a) ∨ (a.contains b.b = true ∧ p = b.b)) := by
    intro p; rw [hpsdef]; exact mem_addIf4 _ _ _ _ _ _ _ _ p
  -- every common point is on the line
  have hcommon : ∀ x, (a.den x ∧ b.den x) ↔ ∃ t, (max 0 (min s e) ≤ t ∧ t ≤ min 1 (max s e)) ∧ x = pt o d t := by
    intro x
    constructor
    · rintro ⟨hxa, hxb⟩
      obtain ⟨t, rfl⟩ := seg_den_on_line a ha0 ha1 x hxa
      have h1 := (aden t).mp hxa; have h2 := (bden t).mp hxb
      exact ⟨t, ⟨max_le h1.1 h2.1, le_min h1.2 h2.2⟩, rfl⟩
    · rintro ⟨t, ⟨h1, h2⟩, rfl⟩
      exact ⟨(aden t).mpr ⟨le_trans (le_max_left _ _) h1, le_trans h2 (min_le_left _ _)⟩,
        (bden t).mpr ⟨le_trans (le_max_right _ _) h1, le_trans h2 (min_le_right _ _)⟩⟩
  set lo := max 0 (min s e) with hlo
  set hi := min 1 (max s e) with hhi
  by_cases hI : lo ≤ hi
  · -- non-empty overlap: extreme points pt lo, pt hi
    refine ofPointSet_pair_exact ps (pt o d lo) (pt o d hi) hnd ?_ ?_ ?_ ?_
    · intro p hp
      rw [hmem] at hp
      rcases hp with ⟨hc, rfl⟩ | ⟨hc, rfl⟩ | ⟨hc, rfl⟩ | ⟨hc, rfl⟩
      · left; rw [ha0]; congr 1
        have := c1.mp hc
        rw [hlo]; exact (max_eq_left this.1).symm
      · right; rw [ha1]; congr 1
        have := c2.mp hc
        rw [hhi]; exact (min_eq_left this.2).symm
      · have := c3.mp hc
        rw [hbs]
        rcases le_total s e with h | h
        · left; congr 1; rw [hlo, min_eq_left h]; exact (max_eq_right this.1).symm
        · right; congr 1; rw [hhi, max_eq_left h]; exact (min_eq_right this.2).symm
      · have := c4.mp hc
        rw [hbe]
        rcases le_total s e with h | h
        · right; congr 1; rw [hhi, max_eq_right h]; exact (min_eq_right this.2).symm
        · left; congr 1; rw [hlo, min_eq_right h]; exact (max_eq_right this.1).symm
    · -- pt lo is collected
      rw [hmem]
      rcases le_total (min s e) 0 with h | h
      · left
        have hl0 : lo = 0 := by rw [hlo]; exact max_eq_left h
        refine ⟨c1.mpr ⟨h, ?_⟩, by rw [hl0, ha0]⟩
        have : lo ≤ max s e := le_trans hI (min_le_right _ _)
        rw [hl0] at this; exact this
      · have hl0 : lo = min s e := by rw [hlo]; exact max_eq_right h
        have hle1 : min s e ≤ 1 := by
          have : lo ≤ 1 := le_trans hI (min_le_left _ _)
          rw [hl0] at this; exact this
        rcases le_total s e with hse' | hse'
        · right; right; left
          rw [min_eq_left hse'] at h hle1 hl0
          exact ⟨c3.mpr ⟨h, hle1⟩, by rw [hl0, hbs]⟩
        · right; right; right
          rw [min_eq_right hse'] at h hle1 hl0
          exact ⟨c4.mpr ⟨h, hle1⟩, by rw [hl0, hbe]⟩
    · -- pt hi is collected
      rw [hmem]
      rcases le_total 1 (max s e) with h | h
      · right; left
        have hh1 : hi = 1 := by rw [hhi]; exact min_eq_left h
        refine ⟨c2.mpr ⟨?_, h⟩, by rw [hh1, ha1]⟩
        have : min s e ≤ hi := le_trans (le_max_right _ _) hI
        rw [hh1] at this; exact this
      · have hh1 : hi = max s e := by rw [hhi]; exact min_eq_right h
        have hge0 : 0 ≤ max s e := by
          have : 0 ≤ hi := le_trans (le_max_left _ _) hI
          rw [hh1] at this; exact this
        rcases le_total s e with hse' | hse'
        · right; right; right
          rw [max_eq_right hse'] at h hge0 hh1
          exact ⟨c4.mpr ⟨hge0, h⟩, by rw [hh1, hbe]⟩
        · right; right; left
          rw [max_eq_left hse'] at h hge0 hh1
          exact ⟨c3.mpr ⟨hge0, h⟩, by rw [hh1, hbs]⟩
    · intro x
      rw [hcommon, Between_pt hI]
      constructor
      · rintro ⟨t, ⟨h1, h2⟩, rfl⟩; exact ⟨t, h1, h2, rfl⟩
      · rintro ⟨t, h1, h2, rfl⟩; exact ⟨t, ⟨h1, h2⟩, rfl⟩
  · -- empty overlap: nothing is collected
    push_neg at hI
    have hempty : ps = [] := by
      apply List.eq_nil_iff_forall_not_mem.mpr
      intro p hp
      rw [hmem] at hp
      have key : ∀ t, (0 ≤ t ∧ t ≤ 1) → (min s e ≤ t ∧ t ≤ max s e) → False := by
        intro t h1 h2
        have : lo ≤ hi := le_trans (max_le h1.1 h2.1) (le_min h1.2 h2.2)
        exact absurd this (not_le.mpr hI)
      rcases hp with ⟨hc, _⟩ | ⟨hc, _⟩ | ⟨hc, _⟩ | ⟨hc, _⟩
      · exact key 0 ⟨le_refl _, by norm_num⟩ (c1.mp hc)
      · exact key 1 ⟨by norm_num, le_refl _⟩ (c2.mp hc)
      · have := c3.mp hc
        exact key s this ⟨min_le_left _ _, le_max_left _ _⟩
      · have := c4.mp hc
        exact key e this ⟨min_le_right _ _, le_max_right _ _⟩
    rw [hempty]
    refine ofPointSet_nil_exact (fun x hx => ?_)
    obtain ⟨t, ⟨h1, h2⟩, _⟩ := (hcommon x).mp hx
    exact absurd (le_trans h1 h2) (not_le.mpr hI)
#print axioms interSegSeg_collinear_exact

/-- non-collinear branch shared by segment/halfline pairs: carrier lines meet in at most a point,
    which is then filtered by both membership tests -/
theorem two_carrier_filter {SA SB : V3 → Prop} (la lb : Line) (hla : la.WF) (hlb : lb.WF)
    (hSA : ∀ x, SA x → la.den x) (hSB : ∀ x, SB x → lb.den x)
    (ca cb : V3 → Bool) (hca : ∀ q, ca q = true ↔ SA q) (hcb : ∀ q, cb q = true ↔ SB q)
    (hneq : ¬ la.eqv lb = true) :
    Exact (match interLineLine la lb with
      | .ok none => .ok none
      | .ok (some (.point q)) => .ok (if ca q && cb q then some (.point q) else none)
      | .ok _ => .error .bug
      | .error e => .error e) SA SB := by
  obtain ⟨o, ho, _, hden⟩ := interLineLine_exact la lb hla hlb
  rcases interLineLine_shape la lb o ho with rfl | ⟨q, rfl⟩ | ⟨_, heq⟩
  · rw [ho]
    exact Exact.mk_none (fun x ⟨ha, hb⟩ => (hden x).mpr ⟨hSA x ha, hSB x hb⟩)
  · rw [ho]
    simp only
    by_cases hc : (ca q && cb q) = true
    · rw [if_pos hc]
      rw [Bool.and_eq_true] at hc
      refine Exact.mk_some (.point q) trivial (fun x => ?_)
      simp only [Geo.den]
      constructor
      · rintro rfl; exact ⟨(hca x).mp hc.1, (hcb x).mp hc.2⟩
      · rintro ⟨ha, hb⟩; exact (hden x).mpr ⟨hSA x ha, hSB x hb⟩
    · rw [if_neg hc]
      refine Exact.mk_none (fun x ⟨ha, hb⟩ => ?_)
      have : x = q := (hden x).mpr ⟨hSA x ha, hSB x hb⟩
      subst this
      exact hc (by rw [Bool.and_eq_true]; exact ⟨(hca x).mpr ha, (hcb x).mpr hb⟩)
  · exact absurd heq hneq

theorem interSegSeg_exact (a b : Seg) (ha : a.WF) (hb : b.WF) : Exact (interSegSeg a b) a.den b.den := by
  by_cases heq : a.line.eqv b.line = true
  · exact interSegSeg_collinear_exact a b ha hb heq
  · have := two_carrier_filter a.line b.line (a.line_WF ha) (b.line_WF hb) (a.den_sub_line ha) (b.den_sub_line hb)
      a.contains b.contains (Seg.contains_iff a ha) (Seg.contains_iff b hb) heq
    unfold interSegSeg; rw [if_neg heq]; exact this
#print axioms interSegSeg_exact

/-! ### half-lines in the parametrisation -/
theorem hl_den_pt {o d : V3} (hd : d ≠ zero) (h : HalfLine) {s k : Rat} (hp : h.p = pt o d s)
    (hv : h.v = smul k d) (hk : k ≠ 0) (t : Rat) : h.den (pt o d t) ↔ 0 ≤ k * (t - s) := by
  unfold HalfLine.den
  rw [hp, hv]
  constructor
  · rintro ⟨u, hu, hx⟩
    have e : pt o d t = pt o d (s + u * k) := by
      rw [hx]; apply V3.ext' <;> simp only [pt, add, smul] <;> ring
    have := pt_inj hd e
    rw [this]; nlinarith [sq_nonneg k]
  · intro h0
    refine ⟨(t - s) / k, ?_, ?_⟩
    · have : (t - s) / k = (k * (t - s)) / (k * k) := by field_simp
      rw [this]; exact div_nonneg h0 (mul_self_nonneg k)
    · apply V3.ext' <;> simp only [pt, add, smul] <;> field_simp <;> ring

theorem hl_den_on_line {o d : V3} (h : HalfLine) {s k : Rat} (hp : h.p = pt o d s) (hv : h.v = smul k d)
    (x : V3) (hx : h.den x) : ∃ t, x = pt o d t := by
  obtain ⟨u, _, rfl⟩ := hx
  refine ⟨s + u * k, ?_⟩
  rw [hp, hv]; apply V3.ext' <;> simp only [pt, add, smul] <;> ring

theorem mem_addIf3 (c1 c2 c3 : Bool) (q1 q2 q3 p : V3) :
    p ∈ addIf c3 q3 (addIf c2 q2 (addIf c1 q1 [])) ↔
      ((c1 = true ∧ p = q1) ∨ (c2 = true ∧ p = q2) ∨ (c3 = true ∧ p = q3)) := by
  rw [mem_addIf, mem_addIf, mem_addIf]
  simp only [List.not_mem_nil, false_or]
  tauto

theorem mem_addIf2 (c1 c2 : Bool) (q1 q2 p : V3) :
    p ∈ addIf c2 q2 (addIf c1 q1 []) ↔ ((c1 = true ∧ p = q1) ∨ (c2 = true ∧ p = q2)) := by
  rw [mem_addIf, mem_addIf]
  simp only [List.not_mem_nil, false_or]

/-- generic finish: a duplicate-free collected list, characterised member-wise, against the parameter
    interval `[lo, hi]` of the common points -/
theorem collected_exact {A B : V3 → Prop} {o d : V3} (ps : List V3) (hnd : ps.Nodup) (lo hi : Rat)
    (hcommon : ∀ x, (A x ∧ B x) ↔ ∃ t, (lo ≤ t ∧ t ≤ hi) ∧ x = pt o d t)
    (hsub : ∀ p ∈ ps, lo ≤ hi ∧ (p = pt o d lo ∨ p = pt o d hi))
    (hlo : lo ≤ hi → pt o d lo ∈ ps) (hhi : lo ≤ hi → pt o d hi ∈ ps) :
    Exact (ofPointSet ps) A B := by
  by_cases hI : lo ≤ hi
  · refine ofPointSet_pair_exact ps (pt o d lo) (pt o d hi) hnd (fun p hp => (hsub p hp).2) (hlo hI) (hhi hI) ?_
    intro x
    rw [hcommon, Between_pt hI]
    constructor
    · rintro ⟨t, ⟨h1, h2⟩, rfl⟩; exact ⟨t, h1, h2, rfl⟩
    · rintro ⟨t, h1, h2, rfl⟩; exact ⟨t, ⟨h1, h2⟩, rfl⟩
  · have hempty : ps = [] := by
      apply List.eq_nil_iff_forall_not_mem.mpr
      intro p hp; exact hI (hsub p hp).1
    rw [hempty]
    refine ofPointSet_nil_exact (fun x hx => ?_)
    obtain ⟨t, ⟨h1, h2⟩, _⟩ := (hcommon x).mp hx
    exact hI (le_trans h1 h2)

theorem interSegHalfLine_collinear_exact (a : Seg) (b : HalfLine) (ha : a.WF) (hb : b.WF)
    (heq : a.line.eqv b.line = true) : Exact (interSegHalfLine a b) a.den b.den := by
  obtain ⟨hab, hal⟩ := ha
  obtain ⟨hbv, hbl⟩ := hb
  have haW : a.WF := ⟨hab, hal⟩
  have hbW : b.WF := ⟨hbv, hbl⟩
  set o := a.a with ho
  set d := sub a.b a.a with hdd
  have hd : d ≠ zero := fun h => hab (sub_eq_zero_iff.mp h).symm
  have hlW : a.line.WF := by rw [hal]; exact hd
  obtain ⟨s, k, hs, hk⟩ := eqv_params a.line b.line hlW heq
  rw [hal, hbl] at hs hk
  simp only at hs hk
  have hk0 : k ≠ 0 := smul_ne_zero_left (by rw [← hk]; exact hbv)
  have ha0 : a.a = pt o d 0 := by apply V3.ext' <;> simp [pt, add, smul, ho]
  have ha1 : a.b = pt o d 1 := by apply V3.ext' <;> simp [pt, add, smul, sub, ho, hdd]
  have aden : ∀ t, a.den (pt o d t) ↔ (0 ≤ t ∧ t ≤ 1) := by
    intro t
    have := seg_den_pt hd a ha0 ha1 t
    rw [min_eq_left (by norm_num : (0:Rat) ≤ 1), max_eq_right (by norm_num : (0:Rat) ≤ 1)] at this
    exact this
  have bden : ∀ t, b.den (pt o d t) ↔ 0 ≤ k * (t - s) := hl_den_pt hd b hs hk hk0
  have c1 : b.contains a.a = true ↔ 0 ≤ k * (0 - s) := by
    rw [HalfLine.contains_iff b hbW, ha0]; exact bden 0
  have c2 : b.contains a.b = true ↔ 0 ≤ k * (1 - s) := by
    rw [HalfLine.contains_iff b hbW, ha1]; exact bden 1
  have c3 : a.contains b.p = true ↔ (0 ≤ s ∧ s ≤ 1) := by
    rw [Seg.contains_iff a haW, hs]; exact aden s
  have hps : interSegHalfLine a b = ofPointSet (addIf (a.contains b.p) b.p
      (addIf (b.contains a.b) a.b (addIf (b.contains a.a) a.a []))) := by
    unfold interSegHalfLine; rw [if_pos heq]; rfl
  rw [hps]
  set ps := addIf (a.contains b.p) b.p (addIf (b.contains a.b) a.b (addIf (b.contains a.a) a.a [])) with hpsdef
  have hnd : ps.Nodup := nodup_addIf _ _ _ (nodup_addIf _ _ _ (nodup_addIf _ _ _ List.nodup_nil))
  have hmem : ∀ p, p ∈ ps ↔ ((b.contains a.a = true ∧ p = a.a) ∨ (b.contains a.b = true ∧ p = a.b) ∨
      (a.contains b.p = true ∧ p = b.p)) := by
    intro p; rw [hpsdef]; exact mem_addIf3 _ _ _ _ _ _ p
  rcases lt_or_gt_of_ne hk0 with hkneg | hkpos
  · -- opposite direction: common parameters [0, min 1 s]
    have bden' : ∀ t, b.den (pt o d t) ↔ t ≤ s := by
      intro t; rw [bden]; constructor
      · intro h; by_contra hc; push_neg at hc; nlinarith
      · intro h; nlinarith
    refine collected_exact (o := o) (d := d) ps hnd 0 (min 1 s) ?_ ?_ ?_ ?_
    · intro x; constructor
      · rintro ⟨hxa, hxb⟩
        obtain ⟨t, rfl⟩ := seg_den_on_line a ha0 ha1 x hxa
        have h1 := (aden t).mp hxa; have h2 := (bden' t).mp hxb
        exact ⟨t, ⟨h1.1, le_min h1.2 h2⟩, rfl⟩
      · rintro ⟨t, ⟨h1, h2⟩, rfl⟩
        exact ⟨(aden t).mpr ⟨h1, le_trans h2 (min_le_left _ _)⟩, (bden' t).mpr (le_trans h2 (min_le_right _ _))⟩
    · intro p hp
      rw [hmem] at hp
      rcases hp with ⟨hc, rfl⟩ | ⟨hc, rfl⟩ | ⟨hc, rfl⟩
      · have h0s : 0 ≤ s := by have := (bden' 0).mp ((bden 0).mpr (c1.mp hc)); exact this
        exact ⟨le_min (by norm_num) h0s, Or.inl ha0⟩
      · have h1s : 1 ≤ s := (bden' 1).mp ((bden 1).mpr (c2.mp hc))
        refine ⟨le_min (by norm_num) (by linarith), Or.inr ?_⟩
        rw [ha1, min_eq_left h1s]
      · have := c3.mp hc
        refine ⟨le_min (by norm_num) this.1, Or.inr ?_⟩
        rw [hs, min_eq_right this.2]
    · intro hI
      rw [hmem]; left
      have h0s : 0 ≤ s := le_trans hI (min_le_right _ _)
      exact ⟨c1.mpr ((bden 0).mp ((bden' 0).mpr h0s)), ha0.symm⟩
    · intro hI
      rw [hmem]
      have h0s : 0 ≤ s := le_trans hI (min_le_right _ _)
      rcases le_total 1 s with h | h
      · right; left
        exact ⟨c2.mpr ((bden 1).mp ((bden' 1).mpr h)), by rw [min_eq_left h, ha1]⟩
      · right; right
        exact ⟨c3.mpr ⟨h0s, h⟩, by rw [min_eq_right h, hs]⟩
  · -- same direction: common parameters [max 0 s, 1]
    have bden' : ∀ t, b.den (pt o d t) ↔ s ≤ t := by
      intro t; rw [bden]; constructor
      · intro h; by_contra hc; push_neg at hc; nlinarith
      · intro h; nlinarith
    refine collected_exact (o := o) (d := d) ps hnd (max 0 s) 1 ?_ ?_ ?_ ?_
    · intro x; constructor
      · rintro ⟨hxa, hxb⟩
        obtain ⟨t, rfl⟩ := seg_den_on_line a ha0 ha1 x hxa
        have h1 := (aden t).mp hxa; have h2 := (bden' t).mp hxb
        exact ⟨t, ⟨max_le h1.1 h2, h1.2⟩, rfl⟩
      · rintro ⟨t, ⟨h1, h2⟩, rfl⟩
        exact ⟨(aden t).mpr ⟨le_trans (le_max_left _ _) h1, h2⟩, (bden' t).mpr (le_trans (le_max_right _ _) h1)⟩
    · intro p hp
      rw [hmem] at hp
      rcases hp with ⟨hc, rfl⟩ | ⟨hc, rfl⟩ | ⟨hc, rfl⟩
      · have hs0 : s ≤ 0 := (bden' 0).mp ((bden 0).mpr (c1.mp hc))
        refine ⟨max_le (by norm_num) (by linarith), Or.inl ?_⟩
        rw [ha0, max_eq_left hs0]
      · have hs1 : s ≤ 1 := (bden' 1).mp ((bden 1).mpr (c2.mp hc))
        exact ⟨max_le (by norm_num) hs1, Or.inr ha1⟩
      · have := c3.mp hc
        refine ⟨max_le (by norm_num) this.2, Or.inl ?_⟩
        rw [hs, max_eq_right this.1]
    · intro hI
      rw [hmem]
      have hs1 : s ≤ 1 := le_trans (le_max_right _ _) hI
      rcases le_total s 0 with h | h
      · left
        exact ⟨c1.mpr ((bden 0).mp ((bden' 0).mpr h)), by rw [max_eq_left h, ha0]⟩
      · right; right
        exact ⟨c3.mpr ⟨h, hs1⟩, by rw [max_eq_right h, hs]⟩
    · intro hI
      rw [hmem]; right; left
      have hs1 : s ≤ 1 := le_trans (le_max_right _ _) hI
      exact ⟨c2.mpr ((bden 1).mp ((bden' 1).mpr hs1)), ha1.symm⟩

theorem interSegHalfLine_exact (a : Seg) (b : HalfLine) (ha : a.WF) (hb : b.WF) :
    Exact (interSegHalfLine a b) a.den b.den := by
  by_cases heq : a.line.eqv b.line = true
  · exact interSegHalfLine_collinear_exact a b ha hb heq
  · have := two_carrier_filter a.line b.line (a.line_WF ha) (b.line_WF hb) (a.den_sub_line ha) (b.den_sub_line hb)
      a.contains b.contains (Seg.contains_iff a ha) (HalfLine.contains_iff b hb) heq
    unfold interSegHalfLine; rw [if_neg heq]; exact this
#print axioms interSegHalfLine_exact

theorem Line.eqv_symm (l m : Line) (hl : l.WF) (hm : m.WF) (h : l.eqv m = true) : m.eqv l = true := by
  rw [Line.eqv_iff m l hm hl]
  intro x; exact ((Line.eqv_iff l m hl hm).mp h x).symm

theorem interHalfLineHalfLine_collinear_exact (a b : HalfLine) (ha : a.WF) (hb : b.WF)
    (heq : a.line.eqv b.line = true) : Exact (interHalfLineHalfLine a b) a.den b.den := by
  obtain ⟨hav, hal⟩ := ha
  obtain ⟨hbv, hbl⟩ := hb
  have haW : a.WF := ⟨hav, hal⟩
  have hbW : b.WF := ⟨hbv, hbl⟩
  set o := a.p with ho
  set d := a.v with hdd
  have hd : d ≠ zero := hav
  have hlW : a.line.WF := by rw [hal]; exact hd
  have hlbW : b.line.WF := b.line_WF hbW
  obtain ⟨s, k, hs, hk⟩ := eqv_params a.line b.line hlW heq
  rw [hal, hbl] at hs hk
  simp only at hs hk
  have hk0 : k ≠ 0 := smul_ne_zero_left (by rw [← hk]; exact hbv)
  have ha0 : a.p = pt o d 0 := by apply V3.ext' <;> simp [pt, add, smul, ho]
  have hav1 : a.v = smul 1 d := by apply V3.ext' <;> simp [smul, hdd]
  have aden : ∀ t, a.den (pt o d t) ↔ 0 ≤ t := by
    intro t; rw [hl_den_pt hd a ha0 hav1 one_ne_zero t]; constructor <;> intro h <;> linarith
  have bden : ∀ t, b.den (pt o d t) ↔ 0 ≤ k * (t - s) := hl_den_pt hd b hs hk hk0
  have hdot : dot b.v a.v = k * normSq d := by rw [hk]; simp only [dot, smul, normSq]; ring
  have hdot' : dot a.v b.v = k * normSq d := by rw [hk]; simp only [dot, smul, normSq]; ring
  have hN := normSq_pos hd
  have heq' : b.line.eqv a.line = true := Line.eqv_symm a.line b.line hlW hlbW heq
  have cba : b.contains a.p = true ↔ 0 ≤ k * (0 - s) := by
    rw [HalfLine.contains_iff b hbW, ha0]; exact bden 0
  have cab : a.contains b.p = true ↔ 0 ≤ s := by
    rw [HalfLine.contains_iff a haW, hs]; exact aden s
  have onlineA : ∀ x, a.den x → ∃ t, x = pt o d t := hl_den_on_line a ha0 hav1
  unfold interHalfLineHalfLine
  rw [if_pos heq]
  by_cases h1 : b.containsHL a = true
  · rw [if_pos h1]
    unfold HalfLine.containsHL at h1
    simp only [Bool.and_eq_true, decide_eq_true_eq] at h1
    obtain ⟨⟨_, hc⟩, hdp⟩ := h1
    rw [hdot] at hdp
    have hkpos : 0 < k := by
      rcases lt_or_gt_of_ne hk0 with h | h
      · nlinarith
      · exact h
    have hs0 : s ≤ 0 := by have := cba.mp hc; nlinarith
    refine Exact.mk_some (.halfline a) haW (fun x => ?_)
    simp only [Geo.den]
    constructor
    · intro hx
      obtain ⟨t, rfl⟩ := onlineA x hx
      have ht := (aden t).mp hx
      exact ⟨hx, (bden t).mpr (by nlinarith)⟩
    · exact fun h => h.1
  · rw [if_neg h1]
    by_cases h2 : a.containsHL b = true
    · rw [if_pos h2]
      unfold HalfLine.containsHL at h2
      simp only [Bool.and_eq_true, decide_eq_true_eq] at h2
      obtain ⟨⟨_, hc⟩, hdp⟩ := h2
      rw [hdot'] at hdp
      have hkpos : 0 < k := by
        rcases lt_or_gt_of_ne hk0 with h | h
        · nlinarith
        · exact h
      have hs0 : 0 ≤ s := cab.mp hc
      refine Exact.mk_some (.halfline b) hbW (fun x => ?_)
      simp only [Geo.den]
      constructor
      · intro hx
        obtain ⟨t, rfl⟩ := hl_den_on_line b hs hk x hx
        have ht := (bden t).mp hx
        have : s ≤ t := by by_contra hc'; push_neg at hc'; nlinarith
        exact ⟨(aden t).mpr (by linarith), hx⟩
      · exact fun h => h.2
    · rw [if_neg h2]
      -- the directions are opposite
      have hkneg : k < 0 := by
        by_contra hkn
        have hkpos : 0 < k := lt_of_le_of_ne (not_lt.mp hkn) (Ne.symm hk0)
        rcases le_total s 0 with hs0 | hs0
        · apply h1
          unfold HalfLine.containsHL
          simp only [Bool.and_eq_true, decide_eq_true_eq]
          exact ⟨⟨heq', cba.mpr (by nlinarith)⟩, by rw [hdot]; positivity⟩
        · apply h2
          unfold HalfLine.containsHL
          simp only [Bool.and_eq_true, decide_eq_true_eq]
          exact ⟨⟨heq, cab.mpr hs0⟩, by rw [hdot']; positivity⟩
      have bden' : ∀ t, b.den (pt o d t) ↔ t ≤ s := by
        intro t; rw [bden]; constructor
        · intro h; by_contra hc; push_neg at hc; nlinarith
        · intro h; nlinarith
      have hps : (let ps : List V3 := []
                  let ps := if b.contains a.p then addNew ps a.p else ps
                  let ps := if a.contains b.p then addNew ps b.p else ps
                  ofPointSet ps) = ofPointSet (addIf (a.contains b.p) b.p (addIf (b.contains a.p) a.p [])) := rfl
      rw [hps]
      set ps := addIf (a.contains b.p) b.p (addIf (b.contains a.p) a.p []) with hpsdef
      have hnd : ps.Nodup := nodup_addIf _ _ _ (nodup_addIf _ _ _ List.nodup_nil)
      have hmem : ∀ p, p ∈ ps ↔ ((b.contains a.p = true ∧ p = a.p) ∨ (a.contains b.p = true ∧ p = b.p)) := by
        intro p; rw [hpsdef]; exact mem_addIf2 _ _ _ _ p
      have cba' : b.contains a.p = true ↔ 0 ≤ s := by
        rw [cba]; constructor
        · intro h; by_contra hc; push_neg at hc; nlinarith
        · intro h; nlinarith
      refine collected_exact (o := o) (d := d) ps hnd 0 s ?_ ?_ ?_ ?_
      · intro x; constructor
        · rintro ⟨hxa, hxb⟩
          obtain ⟨t, rfl⟩ := onlineA x hxa
          exact ⟨t, ⟨(aden t).mp hxa, (bden' t).mp hxb⟩, rfl⟩
        · rintro ⟨t, ⟨h1', h2'⟩, rfl⟩
          exact ⟨(aden t).mpr h1', (bden' t).mpr h2'⟩
      · intro p hp
        rw [hmem] at hp
        rcases hp with ⟨hc, rfl⟩ | ⟨hc, rfl⟩
        · exact ⟨cba'.mp hc, Or.inl ha0⟩
        · exact ⟨cab.mp hc, Or.inr hs⟩
      · intro hI; rw [hmem]; left; exact ⟨cba'.mpr hI, ha0.symm⟩
      · intro hI; rw [hmem]; right; exact ⟨cab.mpr hI, hs.symm⟩

theorem interHalfLineHalfLine_exact (a b : HalfLine) (ha : a.WF) (hb : b.WF) :
    Exact (interHalfLineHalfLine a b) a.den b.den := by
  by_cases heq : a.line.eqv b.line = true
  · exact interHalfLineHalfLine_collinear_exact a b ha hb heq
  · have := two_carrier_filter a.line b.line (a.line_WF ha) (b.line_WF hb) (a.den_sub_line ha) (b.den_sub_line hb)
      a.contains b.contains (HalfLine.contains_iff a ha) (HalfLine.contains_iff b hb) heq
    unfold interHalfLineHalfLine; rw [if_neg heq]; exact this
#print axioms interHalfLineHalfLine_exact

/-! ### C01: all 25 ordered pairs of flat types -/
theorem interFlat_exact (a b : Geo) (ha : a.WF) (hb : b.WF) : Exact (interFlat a b) a.den b.den := by
  cases a <;> cases b <;> simp only [interFlat, Geo.den] <;> simp only [Geo.WF] at ha hb
  · exact interPointPoint_exact _ _
  · exact interPointLine_exact _ _ hb
  · exact interPointPlane_exact _ _
  · exact interPointSeg_exact _ _ hb
  · exact interPointHalfLine_exact _ _ hb
  · exact (interPointLine_exact _ _ ha).symm
  · exact interLineLine_exact _ _ ha hb
  · exact interLinePlane_exact _ _ ha
  · exact interLineSeg_exact _ _ ha hb
  · exact interLineHalfLine_exact _ _ ha hb
  · exact (interPointPlane_exact _ _).symm
  · exact (interLinePlane_exact _ _ hb).symm
  · exact interPlanePlane_exact _ _ ha hb
  · exact interPlaneSeg_exact _ _ hb
  · exact interPlaneHalfLine_exact _ _ hb
  · exact (interPointSeg_exact _ _ ha).symm
  · exact (interLineSeg_exact _ _ hb ha).symm
  · exact (interPlaneSeg_exact _ _ ha).symm
  · exact interSegSeg_exact _ _ ha hb
  · exact interSegHalfLine_exact _ _ ha hb
  · exact (interPointHalfLine_exact _ _ ha).symm
  · exact (interLineHalfLine_exact _ _ hb ha).symm
  · exact (interPlaneHalfLine_exact _ _ ha).symm
  · exact (interSegHalfLine_exact _ _ hb ha).symm
  · exact interHalfLineHalfLine_exact _ _ ha hb
#print axioms interFlat_exact
end G3D
