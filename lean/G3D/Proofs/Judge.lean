import G3D.Model.Judge
import G3D.Proofs.FlatPolygon

/-! The Bool judges of `G3D.Model.Judge` are sound and complete for the Prop-level definitions
    (`triplesPos`, `Polygon.Valid`). -/
namespace G3D
open V3

theorem mem_orderedPairs_iff (b c : V3) : ∀ l : List V3, (b, c) ∈ orderedPairs l ↔ List.Sublist [b, c] l := by
  intro l
  induction l with
  | nil => simp [orderedPairs]
  | cons a l ih =>
    simp only [orderedPairs, List.mem_append, List.mem_map, Prod.mk.injEq, ih]
    rw [List.sublist_cons_iff]
    constructor
    · rintro (⟨c', hc', rfl, rfl⟩ | h)
      · exact Or.inr ⟨[c'], rfl, List.singleton_sublist.mpr hc'⟩
      · exact Or.inl h
    · rintro (h | ⟨r, hr, hs⟩)
      · exact Or.inr h
      · simp only [List.cons.injEq] at hr
        obtain ⟨rfl, rfl⟩ := hr
        exact Or.inl ⟨c, List.singleton_sublist.mp hs, rfl, rfl⟩

theorem sublist_pair_iff_mem_orderedPairs (b c : V3) (l : List V3) :
    List.Sublist [b, c] l ↔ (b, c) ∈ orderedPairs l := (mem_orderedPairs_iff b c l).symm

/-- the Bool judge `triplesPosB` decides `triplesPos` -/
theorem triplesPosB_iff (n : V3) : ∀ l : List V3, triplesPosB n l = true ↔ triplesPos n l := by
  intro l
  induction l with
  | nil => simp [triplesPosB, triplesPos]
  | cons a l ih =>
    simp only [triplesPosB, triplesPos, Bool.and_eq_true, List.all_eq_true, decide_eq_true_eq, ih]
    constructor
    · rintro ⟨h1, h2⟩
      exact ⟨fun b c hbc => h1 (b, c) ((mem_orderedPairs_iff b c l).mpr hbc), h2⟩
    · rintro ⟨h1, h2⟩
      exact ⟨fun bc hbc => h1 bc.1 bc.2 ((mem_orderedPairs_iff bc.1 bc.2 l).mp hbc), h2⟩

theorem three_le_length_iff (l : List V3) : 3 ≤ l.length ↔ ∃ p0 p1 p2 rest, l = p0 :: p1 :: p2 :: rest := by
  constructor
  · intro h
    match l, h with
    | p0 :: p1 :: p2 :: rest, _ => exact ⟨p0, p1, p2, rest, rfl⟩
  · rintro ⟨p0, p1, p2, rest, rfl⟩
    simp

/-- the Bool judge `Polygon.validB` decides `Polygon.Valid` -/
theorem Polygon.validB_iff (P : Polygon) : P.validB = true ↔ P.Valid := by
  unfold Polygon.validB Polygon.Valid
  simp only [Bool.and_eq_true, decide_eq_true_eq, List.all_eq_true, triplesPosB_iff, three_le_length_iff]
  constructor
  · rintro ⟨⟨⟨p0, p1, p2, rest, hp⟩, h2⟩, h3⟩
    exact ⟨p0, p1, p2, rest, hp, h2, h3⟩
  · rintro ⟨p0, p1, p2, rest, hp, h2, h3⟩
    exact ⟨⟨⟨p0, p1, p2, rest, hp⟩, h2⟩, h3⟩

/-- the list-level judge `polygonValidB` (plane through the first vertex) -/
theorem polygonValidB_iff (n : V3) (pts : List V3) :
    polygonValidB n pts = true ↔
      ∃ p0 p1 p2 rest, pts = p0 :: p1 :: p2 :: rest ∧ (∀ p ∈ pts, inPlane n p0 p = true) ∧ triplesPos n pts := by
  unfold polygonValidB
  simp only [Bool.and_eq_true, decide_eq_true_eq, List.all_eq_true, triplesPosB_iff, three_le_length_iff]
  constructor
  · rintro ⟨⟨⟨p0, p1, p2, rest, hp⟩, h2⟩, h3⟩
    subst hp
    exact ⟨p0, p1, p2, rest, rfl, h2, h3⟩
  · rintro ⟨p0, p1, p2, rest, hp, h2, h3⟩
    subst hp
    exact ⟨⟨⟨p0, p1, p2, rest, rfl⟩, h2⟩, h3⟩

/-- `polygonValidB` on the fields of a polygon whose plane point is its first vertex is `Valid` -/
theorem Polygon.valid_of_polygonValidB (P : Polygon) (hp : P.plane.p = P.pts.headD zero)
    (h : polygonValidB P.plane.n P.pts = true) : P.Valid := by
  obtain ⟨p0, p1, p2, rest, hpts, h2, h3⟩ := (polygonValidB_iff _ _).mp h
  refine ⟨p0, p1, p2, rest, hpts, ?_, h3⟩
  intro p hpm
  rw [hp, hpts]
  exact h2 p hpm

#print axioms triplesPosB_iff
#print axioms Polygon.validB_iff
#print axioms polygonValidB_iff
end G3D
