import G3D.Extracted.Mpolygon
/-! # group `mpolygon`: every method was translated (couples all methods; not registered per property) -/
namespace G3D.Tie
open V3 PyRt Extracted

theorem mpolygon_complete : mpolygonFailed = [] := rfl

end G3D.Tie
