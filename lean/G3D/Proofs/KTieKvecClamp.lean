import G3D.Extracted.Kvecr
import G3D.Proofs.AngleReal
import Mathlib.Tactic.Linarith
import Mathlib.Tactic.NormNum
/-! # kvecr, `Vector.angle`: the clamp in front of `math.acos`, for EVERY value of the computed cosine  (C11)

    `cosine = (self * other) / (self.length() * other.length())` is a float: rounding can push it outside [-1, 1] for
    (anti)parallel operands (defect D7 of the pinned tree, repaired by the clamp), and it is ±inf / NaN when the product of
    the lengths over- or underflows.  The translator walks `Vector.angle` on ALL THREE paths of
    `max(-1.0, min(1.0, cosine))` (own kernel `angleClamp`, own section: a failure of this walk leaves the cosine kernel
    alone) and records which comparison is asked of the cosine and which literal reaches `math.acos` when the cosine does not.
    `acosArg` below is the function those three paths determine, over a model of Python floats AS THE COMPARISON OPERATORS
    SEE THEM (NaN compares false with everything); no assumption on how the cosine was rounded. -/
namespace G3D.KTie.Kvec
open G3D G3D.Extracted Real

/-- a Python float as `<` / `>` see it -/
inductive PyF
  | nan | ninf | pinf
  | fin (r : ℝ)

/-- IEEE-754 `a < b` (false as soon as an operand is NaN) -/
def PyF.lt : PyF → PyF → Prop
  | .fin a, .fin b => a < b
  | .ninf, .fin _ => True
  | .ninf, .pinf => True
  | .fin _, .pinf => True
  | _, _ => False

section angleClamp
/-- the three walks: `cosine < 1.0` is asked first; if it holds `cosine > -1.0` is asked -/
theorem angleClamp_paths :
    impl_angleClampHi_path = [("R < 1.0", false)] ∧
    impl_angleClampLo_path = [("R < 1.0", true), ("R > -1.0", false)] := by decide

open Classical in
/-- the argument `math.acos` receives, as determined by the three extracted paths: the cosine itself when both comparisons
    hold, the extracted literal `impl_angleClampHi` when the first fails, `impl_angleClampLo` when the second fails -/
noncomputable def acosArg (c : PyF) : PyF :=
  if PyF.lt c (.fin 1) then (if PyF.lt (.fin (-1)) c then c else .fin (impl_angleClampLo : ℝ))
  else .fin (impl_angleClampHi : ℝ)

/-- **`math.acos` is never called outside its domain** — whatever float the cosine is (rounded up or down, ±inf, NaN):
    its argument is a finite number in [-1, 1], so `Vector.angle` raises no "math domain error" -/
theorem acosArg_in_domain (c : PyF) : ∃ r : ℝ, acosArg c = .fin r ∧ -1 ≤ r ∧ r ≤ 1 := by
  have hHi : ((impl_angleClampHi : Int) : ℝ) = 1 := by simp [impl_angleClampHi]
  have hLo : ((impl_angleClampLo : Int) : ℝ) = -1 := by simp [impl_angleClampLo]
  unfold acosArg
  cases c with
  | nan => exact ⟨1, by simp [PyF.lt, hHi], by norm_num, le_refl _⟩
  | pinf => exact ⟨1, by simp [PyF.lt, hHi], by norm_num, le_refl _⟩
  | ninf => exact ⟨-1, by simp [PyF.lt, hLo], le_refl _, by norm_num⟩
  | fin r =>
    by_cases h1 : r < 1
    · by_cases h2 : -1 < r
      · exact ⟨r, by simp [PyF.lt, h1, h2], le_of_lt h2, le_of_lt h1⟩
      · exact ⟨-1, by simp [PyF.lt, h1, h2, hLo], le_refl _, by norm_num⟩
    · exact ⟨1, by simp [PyF.lt, h1, hHi], by norm_num, le_refl _⟩

/-- an in-range cosine passes through the clamp unchanged (strictly inside; at ±1 the literal equals it) -/
theorem acosArg_of_in_range (r : ℝ) (h1 : -1 ≤ r) (h2 : r ≤ 1) : acosArg (.fin r) = .fin r := by
  have hHi : ((impl_angleClampHi : Int) : ℝ) = 1 := by simp [impl_angleClampHi]
  have hLo : ((impl_angleClampLo : Int) : ℝ) = -1 := by simp [impl_angleClampLo]
  unfold acosArg
  by_cases h : r < 1
  · by_cases h' : -1 < r
    · simp [PyF.lt, h, h']
    · have : r = -1 := le_antisymm (not_lt.mp h') h1
      simp [PyF.lt, h, h', hLo, this]
  · have : r = 1 := le_antisymm h2 (not_lt.mp h)
    simp [PyF.lt, h, hHi, this]

/-- the value of `Vector.angle` for a computed cosine `c` (real `arccos` of the clamped argument) -/
noncomputable def angleOf (c : PyF) : ℝ :=
  match acosArg c with
  | .fin r => arccos r
  | _ => 0

/-- **range for every rounding**: `Vector.angle ∈ [0, π]`, `acute(Vector.angle) ∈ [0, π/2]` (Line–Line, Plane–Plane,
    Vector–Vector) and `π/2 − acute(Vector.angle) ∈ [0, π/2]` (Line–Plane), whatever float the cosine is -/
theorem angle_ranges_any_rounding (c : PyF) :
    (0 ≤ angleOf c ∧ angleOf c ≤ π) ∧ (0 ≤ acuteR (angleOf c) ∧ acuteR (angleOf c) ≤ π / 2) ∧
    (0 ≤ π / 2 - acuteR (angleOf c) ∧ π / 2 - acuteR (angleOf c) ≤ π / 2) := by
  obtain ⟨r, hr, h1, h2⟩ := acosArg_in_domain c
  have ha : angleOf c = arccos r := by unfold angleOf; rw [hr]
  obtain ⟨he, h0, hp⟩ := acute_arccos r h1 h2
  rw [ha, he]
  exact ⟨⟨arccos_nonneg r, arccos_le_pi r⟩, ⟨h0, hp⟩, ⟨by linarith, by linarith⟩⟩
end angleClamp

#print axioms acosArg_in_domain
#print axioms angle_ranges_any_rounding
end G3D.KTie.Kvec
