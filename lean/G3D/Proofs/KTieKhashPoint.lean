import G3D.Extracted.Khash
import G3D.Proofs.KhashLemmas
/-! # khash, `Point.__hash__` and `Vector.__hash__`  (C08, C19)
    `G3D.Extracted.impl_hash_*` are regenerated on every run (tools/extract_khash.py, engine tools/khash_engine.py on tools/kernels_engine.py):
    the REAL `__hash__` bodies are run on symbolic numbers with `hash` / `round` / `get_sig_figures` / `get_eps` shimmed; `H` is the
    uninterpreted hash of a tuple, `rnd` / `rndI` the uninterpreted `round(., get_sig_figures())` on numbers / integers, `sig` / `neg`
    the uninterpreted answers to `abs(c) > get_eps()` / `c < 0`.  Every statement holds FOR ALL H, rnd, rndI.  Each kernel has its own
    `section`: when the walk of ONE kernel fails the generated file holds only the marker `impl_<kernel>_EXTRACTION_FAILED` for it
    and exactly the theorems of that section stop compiling.  The reference functions (`…Ref`, `…OfKey`) and their reading through
    the hash keys of `Model/HashKey.lean` are hand-written in `Proofs/KhashLemmas.lean`. -/
-- `first | rfl | ring_nf`: the second alternative only runs after a harmless arithmetic rearrangement of the Python body
set_option linter.unusedTactic false
set_option linter.unreachableTactic false
namespace G3D.KTie.Khash
open G3D G3D.Extracted G3D.KTie

section hash_Point
/-- the extracted body IS the reference tuple: tag, three rounded coordinates, three products of rounded coordinates -/
theorem hash_Point_tie (H : HFun) (rnd : ℝ → ℝ) (p : RVec) : impl_hash_Point H rnd p = pointHashRef H rnd p := by
  unfold impl_hash_Point pointHashRef
  first | rfl | ring_nf

/-- **the hashed tuple is the model's `Point.hashTuple` of the rounded coordinates** (for a rounding that maps rationals to rationals) -/
theorem hash_Point_tuple (H : HFun) (r : Rat → Rat) (rnd : ℝ → ℝ) (hc : RoundCompat r rnd) (p : V3) :
    impl_hash_Point H rnd p.toR
      = H ((HItem.tuple6 "Point" (Point.hashTuple (mapV r p))).map (HItem.map (Rat.cast : Rat → ℝ))) :=
  (hash_Point_tie H rnd p.toR).trans (pointHashRef_tuple H r rnd hc p)

/-- equal keys (= equal points) give equal hashes -/
theorem hash_Point_eq_of_key (H : HFun) (rnd : ℝ → ℝ) (p q : V3) (h : Point.hashKey p = Point.hashKey q) :
    impl_hash_Point H rnd p.toR = impl_hash_Point H rnd q.toR := by
  have : p = q := h
  rw [this]

/-- (C19) points whose coordinates round alike hash alike: the body reads the coordinates only through `round(., get_sig_figures())` -/
theorem hash_Point_eq_of_round_eq (H : HFun) (rnd : ℝ → ℝ) (p q : RVec) (hx : rnd p.x = rnd q.x) (hy : rnd p.y = rnd q.y)
    (hz : rnd p.z = rnd q.z) : impl_hash_Point H rnd p = impl_hash_Point H rnd q := by
  simp only [impl_hash_Point, hx, hy, hz]

/-- no comparison against the tolerance is made -/
theorem hash_Point_paths : impl_hash_Point_oracles = [] ∧ impl_hash_Point_paths = [[]] := by decide
/-- (C19) every `round` of the body takes its digit count from the LIVE `get_sig_figures()` (offset 0) -/
theorem hash_Point_roundings : impl_hash_Point_roundings = [0] := by decide
end hash_Point

section hash_Vector
theorem hash_Vector_tie (H : HFun) (rnd : ℝ → ℝ) (v : RVec) : impl_hash_Vector H rnd v = vectorHashRef H rnd v := by
  unfold impl_hash_Vector vectorHashRef
  first | rfl | ring_nf

/-- **the hashed tuple is the model's `V3.hashTuple` of the rounded coordinates** -/
theorem hash_Vector_tuple (H : HFun) (r : Rat → Rat) (rnd : ℝ → ℝ) (hc : RoundCompat r rnd) (v : V3) :
    impl_hash_Vector H rnd v.toR
      = H ((HItem.tuple6 "Vector" (V3.hashTuple (mapV r v))).map (HItem.map (Rat.cast : Rat → ℝ))) :=
  (hash_Vector_tie H rnd v.toR).trans (vectorHashRef_tuple H r rnd hc v)

theorem hash_Vector_eq_of_round_eq (H : HFun) (rnd : ℝ → ℝ) (p q : RVec) (hx : rnd p.x = rnd q.x) (hy : rnd p.y = rnd q.y)
    (hz : rnd p.z = rnd q.z) : impl_hash_Vector H rnd p = impl_hash_Vector H rnd q := by
  simp only [impl_hash_Vector, hx, hy, hz]

theorem hash_Vector_paths : impl_hash_Vector_oracles = [] ∧ impl_hash_Vector_paths = [[]] := by decide
/-- (C19) every `round` of the body takes its digit count from the LIVE `get_sig_figures()` (offset 0) -/
theorem hash_Vector_roundings : impl_hash_Vector_roundings = [0] := by decide
end hash_Vector

#print axioms hash_Point_tuple
#print axioms hash_Vector_tuple
end G3D.KTie.Khash
