import G3D.Proofs.BodySoundBase
import G3D.Model.Judge
import G3D.Model.ExactHyp

/-! # Decidable forms of the hypotheses of the soundness theorems

    `Polygon.validB` (Model/Judge.lean) decides `Polygon.Valid`; `Polyhedron.goodB` (here) decides
    `Polyhedron.Good`.  So the hypotheses of `inter_result_vertices_in_both` / `inter_result_subset` can be
    CHECKED on every concrete operand (e.g. on objects the implementation produced). -/
namespace G3D
open V3

theorem mem_orderedPairs_bs : ∀ (l : List V3) (b c : V3), (b, c) ∈ orderedPairs l ↔ List.Sublist [b, c] l := by
  intro l
  induction l with
  | nil => intro b c; simp [orderedPairs]
  | cons x l ih =>
    intro b c
    simp only [orderedPairs, List.mem_append, List.mem_map, Prod.mk.injEq]
    rw [ih b c, List.sublist_cons_iff]
    constructor
    · rintro (⟨c', hc', rfl, rfl⟩ | h)
      · exact Or.inr ⟨[c'], rfl, List.singleton_sublist.mpr hc'⟩
      · exact Or.inl h
    · rintro (h | ⟨r, hr, hs⟩)
      · exact Or.inr h
      · cases hr
        exact Or.inl ⟨c, List.singleton_sublist.mp hs, rfl, rfl⟩

theorem triplesPosB_iff_bs (n : V3) : ∀ (l : List V3), triplesPosB n l = true ↔ triplesPos n l := by
  intro l
  induction l with
  | nil => simp [triplesPosB, triplesPos]
  | cons a l ih =>
    simp only [triplesPosB, triplesPos, Bool.and_eq_true, List.all_eq_true, decide_eq_true_eq, ih]
    constructor
    · rintro ⟨h1, h2⟩
      exact ⟨fun b c hs => h1 (b, c) ((mem_orderedPairs_bs l b c).mpr hs), h2⟩
    · rintro ⟨h1, h2⟩
      exact ⟨fun bc hbc => h1 bc.1 bc.2 ((mem_orderedPairs_bs l bc.1 bc.2).mp hbc), h2⟩

/-- the executable judge decides `Polygon.Valid` -/
theorem Polygon.validB_iff_bs (P : Polygon) : P.validB = true ↔ P.Valid := by
  unfold Polygon.validB Polygon.Valid
  simp only [Bool.and_eq_true, decide_eq_true_eq, List.all_eq_true, triplesPosB_iff_bs]
  constructor
  · rintro ⟨⟨hlen, hpl⟩, htp⟩
    match hp : P.pts, hlen with
    | p0 :: p1 :: p2 :: rest, _ =>
      rw [hp] at hpl htp
      exact ⟨p0, p1, p2, rest, rfl, hpl, htp⟩
  · rintro ⟨p0, p1, p2, rest, hp, hpl, htp⟩
    refine ⟨⟨?_, hpl⟩, htp⟩
    rw [hp]; simp

theorem Seg.wfB_iff (s : Seg) : s.wfB = true ↔ s.WF := by
  unfold Seg.wfB Seg.WF
  simp [Bool.and_eq_true, bne_iff_ne]

/-- executable judge for `Polyhedron.Good` -/
def Polyhedron.goodB (B : Polyhedron) : Bool :=
  B.faces.all (·.validB) &&
  B.faces.all (fun f => B.verts.all (fun v => decide (dot (sub v f.center) f.plane.n ≤ 0))) &&
  B.faces.all (fun f => f.plane.contains f.center) &&
  B.faces.all (fun f => f.pts.all (fun v => decide (v ∈ B.verts))) &&
  B.edges.all (·.wfB) &&
  B.edges.all (fun s => decide (s.a ∈ B.verts) && decide (s.b ∈ B.verts))

/-- the executable judge decides `Polyhedron.Good` -/
theorem Polyhedron.goodB_iff (B : Polyhedron) : B.goodB = true ↔ B.Good := by
  unfold Polyhedron.goodB
  simp only [Bool.and_eq_true, List.all_eq_true, decide_eq_true_eq]
  constructor
  · rintro ⟨⟨⟨⟨⟨h1, h2⟩, h3⟩, h4⟩, h5⟩, h6⟩
    exact ⟨fun f hf => (Polygon.validB_iff_bs f).mp (h1 f hf), fun f hf v hv => h2 f hf v hv, h3, h4,
      fun s hs => (Seg.wfB_iff s).mp (h5 s hs), h6⟩
  · intro hg
    exact ⟨⟨⟨⟨⟨fun f hf => (Polygon.validB_iff_bs f).mpr (hg.faceValid f hf), fun f hf v hv => hg.vertsInside f hf v hv⟩,
      hg.centerInPlane⟩, hg.faceVerts⟩, fun s hs => (Seg.wfB_iff s).mpr (hg.edgeWF s hs)⟩, hg.edgeVerts⟩
#print axioms Polyhedron.goodB_iff

instance (P : Polygon) : Decidable P.Valid := decidable_of_iff _ (Polygon.validB_iff_bs P)
instance (B : Polyhedron) : Decidable B.Good := decidable_of_iff _ (Polyhedron.goodB_iff B)

end G3D
