import G3D.Model.Measure
import G3D.Proofs.PolygonMem

namespace G3D
open V3

/-- componentwise sum of vectors -/
def vsum (l : List V3) : V3 := ⟨(l.map V3.x).sum, (l.map V3.y).sum, (l.map V3.z).sum⟩

theorem vsum_nil : vsum [] = zero := by simp [vsum, zero]
theorem vsum_cons (a : V3) (l : List V3) : vsum (a :: l) = add a (vsum l) := by
  apply V3.ext' <;> simp [vsum, add]

/-- telescoping along a path: Σ (b - a) over consecutive pairs = last - first -/
theorem consec_diff_sum : ∀ (p : V3) (l : List V3) (q : V3),
    vsum ((G3D.consec (p :: l ++ [q])).map (fun e => sub e.2 e.1)) = sub q p := by
  intro p l
  induction l generalizing p with
  | nil => intro q; simp [G3D.consec, vsum_cons, vsum_nil]; apply V3.ext' <;> simp [add, sub, zero]
  | cons a l ih =>
    intro q
    have := ih a q
    simp only [List.cons_append, G3D.consec, List.map_cons, vsum_cons] at this ⊢
    rw [this]; apply V3.ext' <;> simp [add, sub]

theorem closed_diff_sum (l : List V3) : vsum ((G3D.closedPairs l).map (fun e => sub e.2 e.1)) = zero := by
  cases l with
  | nil => simp [G3D.closedPairs, vsum_nil]
  | cons p ps =>
    have := consec_diff_sum p ps p
    simp only [G3D.closedPairs]
    rw [this]; apply V3.ext' <;> simp [sub, zero]

theorem dot_vsum (n : V3) (l : List V3) : dot n (vsum l) = (l.map (dot n)).sum := by
  induction l with
  | nil => simp [vsum, dot]
  | cons a l ih => rw [vsum_cons, List.map_cons, List.sum_cons, ← ih]; simp only [dot, add]; ring

theorem cross_vsum (c : V3) (l : List V3) : cross c (vsum l) = vsum (l.map (cross c)) := by
  induction l with
  | nil => simp only [List.map_nil, vsum_nil]; apply V3.ext' <;> simp [cross, zero]
  | cons a l ih =>
    rw [vsum_cons, List.map_cons, vsum_cons, ← ih]
    apply V3.ext' <;> simp only [cross, add] <;> ring

/-- the fan sum does not depend on the fan centre: Σ n.((a-c)×(b-c)) = n.Σ a×b over a closed cycle -/
theorem fan_sum_eq_shoelace (n c : V3) (l : List V3) :
    ((G3D.closedPairs l).map (fun e => dot n (cross (sub e.1 c) (sub e.2 c)))).sum =
      dot n (vsum ((G3D.closedPairs l).map (fun e => cross e.1 e.2))) := by
  have hterm : ∀ e : V3 × V3, dot n (cross (sub e.1 c) (sub e.2 c)) =
      dot n (cross e.1 e.2) - dot n (cross c (sub e.2 e.1)) := by
    intro e; simp only [dot, cross, sub]; ring
  have h1 : ((G3D.closedPairs l).map (fun e => dot n (cross (sub e.1 c) (sub e.2 c)))).sum =
      ((G3D.closedPairs l).map (fun e => dot n (cross e.1 e.2))).sum -
      ((G3D.closedPairs l).map (fun e => dot n (cross c (sub e.2 e.1)))).sum := by
    induction (G3D.closedPairs l) with
    | nil => simp
    | cons e es ih => simp only [List.map_cons, List.sum_cons, ih, hterm e]; ring
  rw [h1, dot_vsum, List.map_map]
  have h2 : ((G3D.closedPairs l).map (fun e => dot n (cross c (sub e.2 e.1)))).sum =
      dot n (cross c (vsum ((G3D.closedPairs l).map (fun e => sub e.2 e.1)))) := by
    rw [cross_vsum, dot_vsum, List.map_map, List.map_map]; rfl
  rw [h2, closed_diff_sum]
  have : dot n (cross c zero) = 0 := by simp [dot, cross, zero]
  rw [this]; simp; rfl
#print axioms fan_sum_eq_shoelace

/-! ### the vertex centroid lies in the hull, so every fan triangle is positively oriented -/
theorem foldl_add_eq (l : List V3) (acc : V3) : l.foldl add acc = add acc (vsum l) := by
  induction l generalizing acc with
  | nil => simp [vsum_nil]; apply V3.ext' <;> simp [add, zero]
  | cons a l ih =>
    rw [List.foldl_cons, ih, vsum_cons]; apply V3.ext' <;> simp only [add] <;> ring

theorem sumV_eq_vsum (l : List V3) : sumV l = vsum l := by
  unfold sumV; rw [foldl_add_eq]; apply V3.ext' <;> simp [add, zero]

theorem comb_replicate (w : Rat) : ∀ (l : List V3), comb (List.replicate l.length w) l = smul w (vsum l) := by
  intro l
  induction l with
  | nil => simp [comb, vsum_nil]; apply V3.ext' <;> simp [smul, zero]
  | cons a l ih =>
    simp only [List.length_cons, List.replicate_succ, comb, ih, vsum_cons]
    apply V3.ext' <;> simp only [add, smul] <;> ring

theorem mean_in_hull (l : List V3) (hl : l ≠ []) : InHull l (meanV l) := by
  have hpos : (0 : Rat) < l.length := by
    have : 0 < l.length := List.length_pos_of_ne_nil hl
    exact_mod_cast this
  refine ⟨List.replicate l.length (1 / (l.length : Rat)), by simp, ?_, ?_, ?_⟩
  · intro w hw; rw [List.mem_replicate] at hw; rw [hw.2]; exact div_nonneg (by norm_num) (le_of_lt hpos)
  · simp; field_simp
  · rw [comb_replicate]; unfold meanV; rw [sumV_eq_vsum]

/-- C06 (polygon area): for a coplanar, positively oriented cycle the fan-from-centroid sum computed
    by the code (absolute values per triangle) equals the shoelace value `n . Σ a×b`, for ANY vertex
    list in hull position w.r.t. which the centre `c` passes the edge tests -/
theorem fan_abs_eq_shoelace (n c : V3) (l : List V3)
    (hc : ∀ e ∈ G3D.closedPairs l, 0 ≤ orient n e.1 e.2 c) :
    ((G3D.closedPairs l).map (fun e => triNum n c e.1 e.2)).sum =
      dot n (vsum ((G3D.closedPairs l).map (fun e => cross e.1 e.2))) := by
  rw [← fan_sum_eq_shoelace n c l]
  congr 1
  apply List.map_congr_left
  intro e he
  have h0 : 0 ≤ dot n (cross (sub e.1 c) (sub e.2 c)) := by
    have : dot n (cross (sub e.1 c) (sub e.2 c)) = orient n e.1 e.2 c := by
      simp only [orient, dot, cross, sub]; ring
    rw [this]; exact hc e he
  unfold triNum absQ
  rw [if_neg (not_lt.mpr h0)]

theorem centroid_passes_tests (n pl : V3) (p0 p1 p2 : V3) (rest : List V3)
    (hpl : ∀ p ∈ p0 :: p1 :: p2 :: rest, inPlane n pl p = true)
    (htp : triplesPos n (p0 :: p1 :: p2 :: rest)) :
    ∀ e ∈ G3D.closedPairs (p0 :: p1 :: p2 :: rest), 0 ≤ orient n e.1 e.2 (meanV (p0 :: p1 :: p2 :: rest)) := by
  have hin := mean_in_hull (p0 :: p1 :: p2 :: rest) (by simp)
  have := (polyContains_iff_hull n pl p0 p1 p2 rest hpl htp _).mpr hin
  unfold polyContains at this
  rw [Bool.and_eq_true, List.all_eq_true] at this
  intro e he
  simpa using this.2 e he

theorem polygon_area_shoelace (n pl : V3) (p0 p1 p2 : V3) (rest : List V3)
    (hpl : ∀ p ∈ p0 :: p1 :: p2 :: rest, inPlane n pl p = true)
    (htp : triplesPos n (p0 :: p1 :: p2 :: rest)) :
    ((G3D.closedPairs (p0 :: p1 :: p2 :: rest)).map
        (fun e => triNum n (meanV (p0 :: p1 :: p2 :: rest)) e.1 e.2)).sum =
      dot n (vsum ((G3D.closedPairs (p0 :: p1 :: p2 :: rest)).map (fun e => cross e.1 e.2))) :=
  fan_abs_eq_shoelace n _ _ (centroid_passes_tests n pl p0 p1 p2 rest hpl htp)
#print axioms polygon_area_shoelace
end G3D
