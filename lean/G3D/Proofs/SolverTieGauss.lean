import G3D.Extracted.Solver
import G3D.Proofs.SolverTieBase
/-! Tie of `shape`, `find_pivot_row`, `gaussian_elimination` (G3D/Extracted/Solver.lean, generated from
    Geometry3D/utils/solver.py) to the hand model G3D/Model/Solver2.lean.  Property C16 (and C17 through Plane). -/
set_option linter.unusedSimpArgs false
namespace G3D.SolverTie
open G3D.PyRtS G3D.Extracted G3D.Solver2

theorem shape_tie (m : List (List Rat)) :
    s_shape m = .ok ((m.length : Int), ((m.headD []).length : Int)) := by
  cases m with
  | nil => rfl
  | cons r rs =>
    have h : pyIdx (r :: rs) (0 : Int) = .ok r := pyIdx_nat 0 rfl (by simp)
    unfold s_shape
    simp [pyTruthy, pyLen, h]


/-- the candidate list that the loop of `find_pivot_row` builds (rows numbered from `k`) -/
def candsOf : Nat → List Row → List (Rat × Int)
  | _, [] => []
  | k, r :: rs => if r.getD 0 0 != 0 then (pyAbs (r.getD 0 0), (k : Int)) :: candsOf (k + 1) rs else candsOf (k + 1) rs

theorem pivot_loop : ∀ (rows : List Row) (k : Nat) (cands : List (Rat × Int)), (∀ r ∈ rows, r ≠ []) →
    (forIn (enumFrom k rows) cands fun x __s =>
          match x with
          | (i, row) => do
            let a ← pyIdx row 0
            if (a != 0) = true then do
                let b ← pyIdx row 0
                Except.ok (ForInStep.yield (pyAppend __s (pyAbs b, i)))
              else Except.ok (ForInStep.yield __s))
      = Except.ok (cands ++ candsOf k rows) := by
  intro rows
  induction rows with
  | nil => intro k cands _; simp [candsOf]
  | cons r rs ih =>
    intro k cands hne
    have ihx := fun c => ih (k + 1) c (fun y hy => hne y (List.mem_cons_of_mem _ hy))
    have hr : r ≠ [] := hne r (List.mem_cons_self ..)
    have h0 : pyIdx r (0 : Int) = .ok (r.getD 0 0) := pyIdx_getD 0 rfl (List.length_pos_iff.mpr hr)
    rw [enumFrom_cons, List.forIn_cons]
    simp only [h0, ok_bind]
    cases hz : (r.getD 0 0 != 0)
    · simp only [Bool.false_eq_true, if_false, ok_bind]
      rw [ihx]; simp only [candsOf, hz, Bool.false_eq_true, if_false]
    · simp only [if_true, ok_bind]
      rw [ihx]; simp only [candsOf, hz, if_true, pyAppend, List.append_assoc, List.singleton_append]

/-- running maximum as Python's `max` computes it (`none`: nothing seen yet) -/
def optMax (ob : Option (Rat × Int)) (l : List (Rat × Int)) : Option (Rat × Int) :=
  l.foldl (fun ob y => match ob with
    | none => some y
    | some b => some (if pyTupLt b y then y else b)) ob

theorem optMax_some (x : Rat × Int) (l : List (Rat × Int)) :
    optMax (some x) l = some (l.foldl (fun best y => if pyTupLt best y then y else best) x) := by
  induction l generalizing x with
  | nil => rfl
  | cons y ys ih => simp only [optMax, List.foldl_cons] at ih ⊢; exact ih _

theorem pyMax_eq (l : List (Rat × Int)) :
    pyMax l = match optMax none l with
      | some x => .ok x
      | none => .error (.valueError "max() arg is an empty sequence") := by
  cases l with
  | nil => rfl
  | cons x xs =>
    have : optMax none (x :: xs) = optMax (some x) xs := rfl
    rw [this, optMax_some]; rfl

def emb (p : Rat × Nat) : Rat × Int := (p.1, (p.2 : Int))

theorem pivotAux_optMax : ∀ (rows : List Row) (k : Nat) (best : Option (Rat × Nat)),
    (∀ b, best = some b → b.2 < k) →
    (pivotAux 0 rows k best).map emb = optMax (best.map emb) (candsOf k rows) := by
  intro rows
  induction rows with
  | nil => intro k best _; simp [pivotAux, candsOf, optMax]
  | cons r rs ih =>
    intro k best hb
    simp only [pivotAux, candsOf]
    generalize r.getD 0 0 = x
    by_cases hz : x = 0
    · have hz' : (x != 0) = false := by simp [hz]
      simp only [hz, if_true, hz']
      simpa [hz] using ih (k + 1) best (fun b h => Nat.lt_succ_of_lt (hb b h))
    · have hz' : (x != 0) = true := by simp [hz]
      simp only [hz, hz', if_false, if_true]
      have hnew : ∀ b, some (absR x, k) = some b → b.2 < k + 1 := by
        intro b h; cases h; simp
      cases best with
      | none =>
        simp only
        rw [ih (k + 1) _ hnew]
        rfl
      | some bb =>
        obtain ⟨b, bi⟩ := bb
        have hbi : bi < k := hb (b, bi) rfl
        simp only
        have e : pyAbs x = absR x := rfl
        have key : pyTupLt (emb (b, bi)) (pyAbs x, (k : Int)) = decide (b ≤ absR x) := by
          simp only [pyTupLt, emb, e]
          have hlt : ((bi : Int) < (k : Int)) := by exact_mod_cast hbi
          by_cases h1 : b < absR x
          · simp [h1, le_of_lt h1]
          · by_cases h2 : b = absR x
            · simp [h2, hlt]
            · have : ¬ b ≤ absR x := fun hle => h1 (lt_of_le_of_ne hle h2)
              simp [h1, h2, this]
        by_cases hle : b ≤ absR x
        · simp only [hle, if_true]
          rw [ih (k + 1) _ hnew]
          simp only [optMax, List.foldl_cons, Option.map_some]
          rw [key]; simp only [hle, decide_true, if_true]; rfl
        · simp only [hle, if_false]
          rw [ih (k + 1) _ (fun b' h => by cases h; exact Nat.lt_succ_of_lt hbi)]
          simp only [optMax, List.foldl_cons, Option.map_some]
          rw [key]; simp only [hle, decide_false, Bool.false_eq_true, if_false]

theorem find_pivot_row_tie0 (rows : List Row) (hne : ∀ r ∈ rows, r ≠ []) :
    s_find_pivot_row rows = .ok ((pivotIdx rows 0).map (fun (n : Nat) => (n : Int))) := by
  unfold s_find_pivot_row
  simp only [pure_eq_ok, pyEnumerate_eq]
  rw [pivot_loop rows 0 [] hne]
  simp only [ok_bind, List.nil_append]
  have h := pivotAux_optMax rows 0 none (by intro b h; cases h)
  simp only [Option.map_none] at h
  rw [pyMax_eq, ← h]
  unfold pivotIdx
  cases hp : pivotAux 0 rows 0 none with
  | none =>
    rw [hp] at h
    have : candsOf 0 rows = [] := by
      cases hc : candsOf 0 rows with
      | nil => rfl
      | cons x xs => rw [hc] at h; have : optMax none (x :: xs) = optMax (some x) xs := rfl
                     rw [this, optMax_some] at h; cases h
    simp [this, pyTruthy]
  | some b =>
    rw [hp] at h
    have : candsOf 0 rows ≠ [] := by
      intro hc; rw [hc] at h; cases h
    cases hc : candsOf 0 rows with
    | nil => exact absurd hc this
    | cons x xs => simp [pyTruthy, emb]

theorem getD_drop_zero (r : Row) (j : Nat) : (r.drop j).getD 0 0 = r.getD j 0 := by
  simp [List.getD_eq_getElem?_getD]

theorem pivotAux_drop (j : Nat) : ∀ (rows : List Row) (k : Nat) (best : Option (Rat × Nat)),
    pivotAux 0 (rows.map (fun r => r.drop j)) k best = pivotAux j rows k best := by
  intro rows
  induction rows with
  | nil => intro k best; rfl
  | cons r rs ih =>
    intro k best
    simp only [List.map_cons, pivotAux, getD_drop_zero, ih]

/-- `find_pivot_row` on the sliced rows `[row[j:] for row in rows]` is the model's pivot search in column `j` -/
theorem find_pivot_row_tie (rows : List Row) (j : Nat) (hlen : ∀ r ∈ rows, j < r.length) :
    s_find_pivot_row (rows.map (fun r => r.drop j)) = .ok ((pivotIdx rows j).map (fun (n : Nat) => (n : Int))) := by
  rw [find_pivot_row_tie0]
  · unfold pivotIdx; rw [pivotAux_drop]
  · intro r hr
    obtain ⟨r', hr', rfl⟩ := List.mem_map.mp hr
    have := hlen r' hr'
    intro h
    have : (r'.drop j).length = 0 := by rw [h]; rfl
    simp at this; omega


/-- body of the inner loop `for i in range(r + 1, M)` (state: `m`) -/
def innerBody (r j : Int) (i : Int) (m : Mat) : PyM (ForInStep Mat) := do
  let factor : Rat := (← pyDiv (← pyIdx (← pyIdx m i) j) (← pyIdx (← pyIdx m r) j)) * (-1 : Rat)
  let multiplied_row : List Rat ← pyComp (fun x => do return factor * x) (← pyIdx m r)
  let m' ← pySetIdx m i (← pyComp (fun ((x, y) : Rat × Rat) => do return x + y) (pyZip (← pyIdx m i) multiplied_row))
  pure (ForInStep.yield m')

/-- body of the outer loop `for j in range(N - 1)` (state: `(m, r)`) -/
def outerBody (M : Int) (j : Int) (st : Mat × Int) : PyM (ForInStep (Mat × Int)) := do
  let m := st.1
  let r := st.2
  if decide (r ≥ M) then
    return ForInStep.done (m, r)
  let pivot : Option Int ← s_find_pivot_row (← pyComp (fun row => do return pySliceFrom row j) (pySliceFrom m r))
  if pyIsNone pivot then
    return ForInStep.yield (m, r)
  let pivot : Option Int := some ((← pyNum pivot) + r)
  let swap_1 ← pyIdx m (← pyNum pivot)
  let swap_2 ← pyIdx m r
  let m ← pySetIdx m r swap_1
  let m ← pySetIdx m (← pyNum pivot) swap_2
  let m ← forIn (pyRange (r + 1) M) m (innerBody r j)
  return ForInStep.yield (m, r + 1)

theorem gauss_unfold (m : Mat) : s_gaussian_elimination m = (do
    let (M, N) ← s_shape m
    let st ← forIn (pyRange 0 (N - 1)) (m, (0 : Int)) (outerBody M)
    pure st.1) := by
  rfl

theorem pyIdx_of_getElem? {α} {l : List α} {i : Int} {x : α} (k : Nat) (hi : i = (k : Int)) (h : l[k]? = some x) :
    pyIdx l i = .ok x := by
  have hk : k < l.length := by
    by_contra hc; rw [List.getElem?_eq_none (by omega)] at h; cases h
  rw [pyIdx_nat k hi hk]
  rw [List.getElem?_eq_getElem hk] at h; cases h; rfl

theorem zip_addMul (f : Rat) : ∀ (p row : Row),
    (List.zip row (p.map (fun x => f * x))).map (fun ((x, y) : Rat × Rat) => x + y)
      = List.zipWith (fun y x => x + f * y) p row := by
  intro p
  induction p with
  | nil => intro row; cases row <;> simp
  | cons a as ih => intro row; cases row with
    | nil => simp
    | cons b bs => simp [ih bs]

theorem inner_loop (r j : Nat) (p : Row) (nc : Nat) (hp : p.length = nc) (hj : j < nc) (hpj : p.getD j 0 ≠ 0) :
    ∀ (todo A : List Row), A[r]? = some p → (∀ row ∈ todo, row.length = nc) →
      forIn (pyRange (A.length : Int) ((A.length + todo.length : Nat) : Int)) (A ++ todo) (innerBody (r : Int) (j : Int))
        = .ok (A ++ todo.map (elimRow p j)) := by
  intro todo
  induction todo with
  | nil => intro A _ _; rw [pyRange_empty (by simp)]; simp
  | cons row rest ih =>
    intro A hA hrows
    have hrow : row.length = nc := hrows row (List.mem_cons_self ..)
    rw [pyRange_cons (by push_cast; simp), List.forIn_cons]
    have e1 : pyIdx (A ++ row :: rest) (A.length : Int) = .ok row :=
      pyIdx_of_getElem? A.length rfl (by simp)
    have e2 : pyIdx (A ++ row :: rest) (r : Int) = .ok p :=
      pyIdx_of_getElem? r rfl (by rw [List.getElem?_append_left (by
        by_contra hc; rw [List.getElem?_eq_none (by omega)] at hA; cases hA)]; exact hA)
    have e3 : pyIdx row (j : Int) = .ok (row.getD j 0) := pyIdx_getD j rfl (by omega)
    have e4 : pyIdx p (j : Int) = .ok (p.getD j 0) := pyIdx_getD j rfl (by omega)
    have e5 : ∀ x, pySetIdx (A ++ row :: rest) (A.length : Int) x = .ok (A ++ x :: rest) := by
      intro x; rw [pySetIdx_nat A.length x rfl (by simp)]; simp
    have step : innerBody (r : Int) (j : Int) (A.length : Int) (A ++ row :: rest)
        = .ok (ForInStep.yield ((A ++ [elimRow p j row]) ++ rest)) := by
      unfold innerBody
      simp only [e1, e2, e3, e4, ok_bind, pyDiv, hpj, if_false, pure_eq_ok, pyComp_ok, pyZip, e5]
      simp only [zip_addMul, elimRow, addMul, List.append_assoc, List.singleton_append]
      rw [show row.getD j 0 / p.getD j 0 * -1 = -(row.getD j 0 / p.getD j 0) by ring]
    rw [step]
    simp only [ok_bind]
    have := ih (A ++ [elimRow p j row])
      (by rw [List.getElem?_append_left (by
            by_contra hc; rw [List.getElem?_eq_none (by omega)] at hA; cases hA)]; exact hA)
      (fun x hx => hrows x (List.mem_cons_of_mem _ hx))
    simp only [List.length_append, List.length_cons, List.length_nil, Nat.zero_add] at this ⊢
    rw [show ((A.length : Int) + 1) = ((A.length + 1 : Nat) : Int) by push_cast; rfl,
        show A.length + (rest.length + 1) = A.length + 1 + rest.length by omega, this]
    simp

theorem takePivot_swap (r0 : Row) (rs : List Row) (k : Nat) (hk : k < (r0 :: rs).length) :
    ((r0 :: rs).set 0 ((r0 :: rs).getD k [])).set k r0
      = (takePivot (r0 :: rs) k).1 :: (takePivot (r0 :: rs) k).2 := by
  unfold takePivot
  by_cases h0 : k = 0
  · subst h0; simp
  · obtain ⟨k', rfl⟩ : ∃ k', k = k' + 1 := ⟨k - 1, by omega⟩
    have hk' : k' < rs.length := by simpa using hk
    simp only [h0, if_false, List.set_cons_zero, List.set_cons_succ, Nat.add_sub_cancel,
      List.getD_cons_succ]
    rw [List.set_eq_take_append_cons_drop, if_pos hk']

theorem takePivot_snd_mem (rows : List Row) (k : Nat) (hk : k < rows.length) :
    ∀ x ∈ (takePivot rows k).2, x ∈ rows := by
  intro x hx
  exact (takePivot_perm rows k hk).subset (List.mem_cons_of_mem _ hx)

theorem takePivot_snd_length (rows : List Row) (k : Nat) (hk : k < rows.length) :
    (takePivot rows k).2.length + 1 = rows.length := by
  have := (takePivot_perm rows k hk).length_eq
  simpa using this

theorem elimRow_length (p row : Row) (j nc : Nat) (hp : p.length = nc) (hr : row.length = nc) :
    (elimRow p j row).length = nc := by
  unfold elimRow; rw [addMul_length, hp, hr]; simp

theorem gaussRec_done (fuel nc j : Nat) (rows : List Row) (h : nc ≤ j + 1) : gaussRec fuel nc j rows = rows := by
  cases fuel with
  | zero => rfl
  | succ f => simp [gaussRec, h]

theorem outer_loop (nc M : Nat) : ∀ (cnt j : Nat) (done rest : List Row) (fuel : Nat),
    cnt = nc - 1 - j → cnt ≤ fuel → Uniform nc (done ++ rest) → done.length + rest.length = M →
    (Prod.fst <$> forIn (pyRange (j : Int) ((j + cnt : Nat) : Int)) (done ++ rest, (done.length : Int)) (outerBody (M : Int)))
      = .ok (done ++ gaussRec fuel nc j rest) := by
  intro cnt
  induction cnt with
  | zero =>
    intro j done rest fuel hc _ _ _
    rw [pyRange_empty (by simp), gaussRec_done _ _ _ _ (by omega)]
    simp
  | succ c ih =>
    intro j done rest fuel hc hf hu hM
    obtain ⟨f, rfl⟩ : ∃ f, fuel = f + 1 := ⟨fuel - 1, by omega⟩
    have hj : j + 1 < nc := by omega
    rw [pyRange_cons (by push_cast; omega), List.forIn_cons]
    cases rest with
    | nil =>
      have : outerBody (M : Int) (j : Int) (done ++ [], (done.length : Int))
          = .ok (ForInStep.done (done ++ [], (done.length : Int))) := by
        unfold outerBody
        have : decide ((done.length : Int) ≥ (M : Int)) = true := by
          simp at hM; simp [hM]
        simp only [this, if_true]
        rfl
      rw [this]
      simp [gaussRec]
    | cons r0 rs =>
      have hlt : decide ((done.length : Int) ≥ (M : Int)) = false := by
        simp at hM; simp; omega
      have hrows : ∀ r ∈ r0 :: rs, j < r.length := by
        intro r hr; rw [hu r (List.mem_append_right _ hr)]; omega
      have hslice : pySliceFrom (done ++ r0 :: rs) (done.length : Int) = r0 :: rs := by
        rw [pySliceFrom_nat _ done.length rfl]; simp
      have hcomp : pyComp (fun row => (Except.ok (pySliceFrom row (j : Int)) : PyM Row)) (r0 :: rs)
          = .ok ((r0 :: rs).map (fun r => r.drop j)) := by
        rw [pyComp_ok]; congr 1
        apply List.map_congr_left; intro r _; exact pySliceFrom_nat r j rfl
      have hfind := find_pivot_row_tie (r0 :: rs) j hrows
      cases hp : pivotIdx (r0 :: rs) j with
      | none =>
        rw [hp] at hfind
        have step : outerBody (M : Int) (j : Int) (done ++ r0 :: rs, (done.length : Int))
            = .ok (ForInStep.yield (done ++ r0 :: rs, (done.length : Int))) := by
          unfold outerBody
          simp only [hlt, hslice, pure_eq_ok, hcomp, ok_bind, hfind, Option.map_none]
          rfl
        rw [step]
        simp only [ok_bind]
        have := ih (j + 1) done (r0 :: rs) f (by omega) (by omega) hu hM
        rw [show ((j : Int) + 1) = ((j + 1 : Nat) : Int) by push_cast; rfl,
            show j + (c + 1) = j + 1 + c by omega, this]
        simp [gaussRec, hp, show ¬ (nc ≤ j + 1) by omega]
      | some k =>
        rw [hp] at hfind
        obtain ⟨hk, hkj⟩ := pivotIdx_some hp
        have hfst : (takePivot (r0 :: rs) k).1 = (r0 :: rs).getD k [] := takePivot_fst _ _ hk
        have hgetk : (r0 :: rs)[k]? = some ((r0 :: rs).getD k []) := by
          rw [List.getD_eq_getElem?_getD, List.getElem?_eq_getElem hk]; rfl
        have e1 : pyIdx (done ++ r0 :: rs) ((k : Int) + (done.length : Int)) = .ok ((r0 :: rs).getD k []) :=
          pyIdx_of_getElem? (done.length + k) (by push_cast; omega)
            (by rw [List.getElem?_append_right (by omega)]; simpa using hgetk)
        have e2 : pyIdx (done ++ r0 :: rs) (done.length : Int) = .ok r0 :=
          pyIdx_of_getElem? done.length rfl (by simp)
        have e3 : ∀ x, pySetIdx (done ++ r0 :: rs) (done.length : Int) x = .ok (done ++ x :: rs) := by
          intro x; rw [pySetIdx_nat done.length x rfl (by simp)]; simp
        have e4 : ∀ x' x, pySetIdx (done ++ x' :: rs) ((k : Int) + (done.length : Int)) x
            = .ok (done ++ (x' :: rs).set k x) := by
          intro x' x
          rw [pySetIdx_nat (done.length + k) x (by push_cast; omega) (by simp at hk ⊢; omega)]
          rw [List.set_append_right _ _ (by omega)]; simp
        have hswap : ((r0 :: rs).getD k [] :: rs).set k r0
            = (takePivot (r0 :: rs) k).1 :: (takePivot (r0 :: rs) k).2 := by
          rw [← takePivot_swap r0 rs k hk]; rfl
        have hp1len : (takePivot (r0 :: rs) k).1.length = nc := by
          rw [hfst, List.getD_eq_getElem?_getD, List.getElem?_eq_getElem hk]
          exact hu _ (List.mem_append_right _ (List.getElem_mem hk))
        have hp2 : ∀ row ∈ (takePivot (r0 :: rs) k).2, row.length = nc := fun row hrow =>
          hu row (List.mem_append_right _ (takePivot_snd_mem _ _ hk row hrow))
        have hp2len := takePivot_snd_length (r0 :: rs) k hk
        have hinner := inner_loop done.length j (takePivot (r0 :: rs) k).1 nc hp1len (by omega)
          (by rw [hfst]; exact hkj) (takePivot (r0 :: rs) k).2 (done ++ [(takePivot (r0 :: rs) k).1])
          (by simp) hp2
        have hM' : (done ++ [(takePivot (r0 :: rs) k).1]).length + (takePivot (r0 :: rs) k).2.length = M := by
          simp at hM hp2len ⊢; omega
        rw [hM'] at hinner
        have hlen1 : (((done ++ [(takePivot (r0 :: rs) k).1]).length : Nat) : Int) = (done.length : Int) + 1 := by
          simp
        rw [hlen1] at hinner
        have step : outerBody (M : Int) (j : Int) (done ++ r0 :: rs, (done.length : Int))
            = .ok (ForInStep.yield ((done ++ [(takePivot (r0 :: rs) k).1])
                ++ (takePivot (r0 :: rs) k).2.map (elimRow (takePivot (r0 :: rs) k).1 j), (done.length : Int) + 1)) := by
          unfold outerBody
          simp only [hlt, hslice, pure_eq_ok, hcomp, ok_bind, hfind, Option.map_some, pyIsNone, Option.isNone,
            pyNum, e1, e2, e3, e4, hswap]
          simp only [List.append_assoc, List.singleton_append] at hinner
          simp only [Bool.false_eq_true, if_false, hinner, ok_bind, List.append_assoc, List.singleton_append]
        rw [step]
        simp only [ok_bind]
        have := ih (j + 1) (done ++ [(takePivot (r0 :: rs) k).1])
          ((takePivot (r0 :: rs) k).2.map (elimRow (takePivot (r0 :: rs) k).1 j)) f (by omega) (by omega)
          (by
            intro row hrow
            rcases List.mem_append.mp hrow with h | h
            · rcases List.mem_append.mp h with h | h
              · exact hu row (List.mem_append_left _ h)
              · simp at h; rw [h]; exact hp1len
            · obtain ⟨row', hrow', rfl⟩ := List.mem_map.mp h
              exact elimRow_length _ _ _ _ hp1len (hp2 row' hrow'))
          (by simp at hM hp2len ⊢; omega)
        rw [show ((j : Int) + 1) = ((j + 1 : Nat) : Int) by push_cast; rfl,
            show j + (c + 1) = j + 1 + c by omega, ← hlen1, this]
        simp [gaussRec, hp, show ¬ (nc ≤ j + 1) by omega]

/-- **`gaussian_elimination` = the model's `gauss`** on rectangular matrices (all rows as long as the first one, which
    is what `shape` assumes).  The code indexes one matrix with the pivot-row counter `r`; the model peels the finished
    rows off: `outer_loop` is the invariant `m = done ++ rest`, `r = len(done)` that connects the two. -/
theorem gaussian_elimination_tie (m : Mat) (hu : Uniform (m.headD []).length m) :
    s_gaussian_elimination m = .ok (gauss m) := by
  rw [gauss_unfold, shape_tie]
  simp only [ok_bind, pure_eq_ok]
  have h := outer_loop (m.headD []).length m.length ((m.headD []).length - 1) 0 [] m (m.headD []).length
    (by omega) (by omega) (by simpa using hu) (by simp)
  have hr : pyRange (0 : Int) (((m.headD []).length : Int) - 1)
      = pyRange ((0 : Nat) : Int) ((0 + ((m.headD []).length - 1) : Nat) : Int) := by
    by_cases h0 : (m.headD []).length = 0
    · rw [h0, pyRange_empty (by simp), pyRange_empty (by simp)]
    · congr 1; omega
  rw [hr]
  simp only [List.nil_append, List.length_nil] at h
  cases hfor : forIn (pyRange ((0 : Nat) : Int) ((0 + ((m.headD []).length - 1) : Nat) : Int)) (m, ((0 : Nat) : Int))
      (outerBody (m.length : Int)) with
  | error e => rw [hfor] at h; cases h
  | ok st =>
    rw [hfor] at h
    simp only [map_ok, Except.ok.injEq] at h
    simp only [ok_bind, h]
    rfl
end G3D.SolverTie
