import G3D.Proofs.CtorPolyhedron

/-! C09, continued: acceptance by the constructor and the results of the queries (`in`, `volume`) do not depend on
    the orientation / starting vertex / order of the input polygons. -/
namespace G3D
open V3

/-! ### counts -/
/-- a reordered, re-oriented input has the vertices of `B0` (up to order), as many undirected edges, as many faces -/
theorem reoriented_counts (B0 : Polyhedron) (hV : B0.Valid) (F input : List Polygon)
    (hperm : List.Perm F B0.faces) (hrel : List.Forall₂ Reoriented F input) :
    List.Perm (collectVerts input) (collectVerts B0.faces) ∧
    (edgesOf input []).length = (edgesOf B0.faces []).length ∧ input.length = B0.faces.length := by
  have hFmem : ∀ f ∈ F, f ∈ B0.faces := fun f hf => hperm.mem_iff.mp hf
  have hin_to_F : ∀ g ∈ input, ∃ f ∈ B0.faces, Reoriented f g := by
    intro g hg
    obtain ⟨f, hf, hr⟩ := Forall₂.exists_left hrel g hg
    exact ⟨f, hFmem f hf, hr⟩
  have hF_to_in : ∀ f ∈ B0.faces, ∃ g ∈ input, Reoriented f g := fun f hf =>
    Forall₂.exists_right hrel f (hperm.mem_iff.mpr hf)
  have hvperm : List.Perm (collectVerts input) (collectVerts B0.faces) := by
    apply collectVerts_perm
    intro v
    constructor
    · rintro ⟨g, hg, hv⟩
      obtain ⟨f, hf, hr⟩ := hin_to_F g hg
      exact ⟨f, hf, (hr.same_verts v).mp hv⟩
    · rintro ⟨f, hf, hv⟩
      obtain ⟨g, hg, hr⟩ := hF_to_in f hf
      exact ⟨g, hg, (hr.same_verts v).mpr hv⟩
  have hint := hV.mean_interior
  have hface : ∀ f ∈ B0.faces, ∀ g, Reoriented f g → _ := fun f hf g hr =>
    orientFace_reoriented f g (hV.faces_valid f hf) (hV.center_in_plane f hf) hr _ (hint f hf)
  refine ⟨hvperm, edgesOf_length_eq _ _ ⟨?_, ?_⟩, by rw [← hrel.length_eq, hperm.length_eq]⟩
  · intro g hg e he
    obtain ⟨f, hf, hr⟩ := hin_to_F g hg
    exact ⟨f, hf, (hface f hf g hr).2.2.2.2.1 e he⟩
  · intro f hf e he
    obtain ⟨g, hg, hr⟩ := hF_to_in f hf
    exact ⟨g, hg, (hface f hf g hr).2.2.2.2.2 e he⟩

/-- **acceptance is orientation- and order-independent**: the constructor accepts a reordered, re-oriented face list
    of the valid body `B0` if and only if Euler's formula holds for `B0` -/
theorem Polyhedron.mk?_reoriented_iff (B0 : Polyhedron) (hV : B0.Valid) (F input : List Polygon)
    (hperm : List.Perm F B0.faces) (hrel : List.Forall₂ Reoriented F input) :
    (∃ B, Polyhedron.mk? input = .ok B) ↔
    ((collectVerts B0.faces).length : Int) - (edgesOf B0.faces []).length + B0.faces.length = 2 := by
  obtain ⟨hvp, hel, hfl⟩ := reoriented_counts B0 hV F input hperm hrel
  constructor
  · rintro ⟨B, h⟩
    obtain ⟨_, _, _, _, _, _, _, _, heul, _⟩ := Polyhedron.mk?_eq input B h
    rw [hvp.length_eq, hel, hfl] at heul
    exact heul
  · intro hE
    obtain ⟨B, hB, _⟩ := Polyhedron.mk?_reoriented B0 hV F input hperm hrel hE
    exact ⟨B, hB⟩
#print axioms Polyhedron.mk?_reoriented_iff

/-! ### the cone formula for one pyramid -/
/-- `Pyramid(g, apex).volume()` is `|(apex − g.points[0]) · (vector area of the cycle)| / 6` -/
theorem pyramidVolume_eq_cone (g : Polygon) (hg : g.Valid)
    (hctr : ∀ e ∈ closedPairs g.pts, 0 ≤ orient g.plane.n e.1 e.2 g.center) (c : V3) :
    pyramidVolume g c = absQ (dot (sub c (g.pts.headD zero)) (vecArea2 g.pts)) / 6 := by
  obtain ⟨p0, p1, p2, rest, hp, hpl, htp⟩ := hg
  have key := pyramid_term g.plane.n g.plane.p p0 p1 p2 rest (by rw [← hp]; exact hpl) (by rw [← hp]; exact htp) c
  have harea : g.areaNum = ((closedPairs (p0 :: p1 :: p2 :: rest)).map
      (fun e => triNum g.plane.n (meanV (p0 :: p1 :: p2 :: rest)) e.1 e.2)).sum := by
    unfold Polygon.areaNum
    rw [fan_abs_eq_shoelace g.plane.n g.center g.pts hctr, hp]
    rw [hp] at hpl htp
    exact (polygon_area_shoelace g.plane.n g.plane.p p0 p1 p2 rest hpl htp).symm
  unfold pyramidVolume pyramidHeightNum
  rw [harea, hp, List.headD_cons, ← key]
  ring

theorem absQ_neg_q (x : Rat) : absQ (-x) = absQ x := by
  unfold absQ
  split <;> split <;> linarith

theorem vecArea2_of_perm {l l' : List V3} (h : List.Perm (closedPairs l') (closedPairs l)) :
    vecArea2 l' = vecArea2 l := by
  unfold vecArea2
  exact vsum_perm (h.map _)

theorem vecArea2_of_perm_swap {l l' : List V3} (h : List.Perm (closedPairs l') ((closedPairs l).map Prod.swap)) :
    vecArea2 l' = neg (vecArea2 l) := by
  unfold vecArea2
  rw [vsum_perm (h.map _), List.map_map, ← vsum_map_neg, List.map_map]
  congr 1
  apply List.map_congr_left
  intro e _
  simp only [Function.comp, Prod.swap]
  rw [cross_anticomm]

/-- the pyramid over a re-oriented copy of a valid face has the same volume -/
theorem pyramidVolume_reoriented (f g : Polygon) (hf : f.Valid)
    (hcf : G3D.inPlane f.plane.n f.plane.p f.center = true) (hr : Reoriented f g)
    (hctrf : ∀ e ∈ closedPairs f.pts, 0 ≤ orient f.plane.n e.1 e.2 f.center)
    (hctrg : ∀ e ∈ closedPairs g.pts, 0 ≤ orient g.plane.n e.1 e.2 g.center) (c : V3) :
    pyramidVolume g c = pyramidVolume f c := by
  rw [pyramidVolume_eq_cone g hr.valid hctrg, pyramidVolume_eq_cone f hf hctrf]
  congr 1
  have hnF : f.plane.n ≠ zero := Polygon.plane_WF f hf
  obtain ⟨k, hk0, hn⟩ := normal_parallel f g hf hr.valid (fun p hp => (hr.same_verts p).mpr hp)
  have hfV := hf
  obtain ⟨p0, p1, p2, rest, hp, hpl, htp⟩ := hfV
  have hgV := hr.valid
  obtain ⟨q0, q1, q2, qrest, hq, _, _⟩ := hgV
  have hpar := vecArea2_parallel f.plane.n f.plane.p hnF f.pts hpl
  -- the two anchor vertices lie in the plane of `f`, and the vector area is normal to it
  have hq0 : q0 ∈ f.pts := (hr.same_verts q0).mp (by rw [hq]; simp)
  have hp0 : p0 ∈ f.pts := by rw [hp]; simp
  have hd : dot f.plane.n (sub q0 p0) = 0 := inPlane_diff (hpl _ hp0) (hpl _ hq0)
  have hanchor : dot (sub c q0) (vecArea2 f.pts) = dot (sub c p0) (vecArea2 f.pts) := by
    rw [hpar]
    generalize dot f.plane.n (vecArea2 f.pts) / normSq f.plane.n = κ
    simp only [dot, sub, smul] at hd ⊢
    linear_combination (-κ) * hd
  rw [hq, hp, List.headD_cons, List.headD_cons, ← hp, ← hq]
  rcases lt_or_gt_of_ne hk0 with hneg | hpos
  · obtain ⟨Q, q0', qrest', hgp, hQ, hvQ, hQp, _, _, t, ht, hQn⟩ := Polygon.neg?_of_valid g hr.valid
    have hrQ : Reoriented f Q := by
      have h1 := Reoriented.of_neg g Q hr.valid hQ
      exact ⟨h1.valid, h1.center, fun p => (h1.same_verts p).trans (hr.same_verts p)⟩
    have hnQ : Q.plane.n = smul (-(t * k)) f.plane.n := by
      rw [hQn, hn]; apply V3.ext' <;> simp only [smul, neg] <;> ring
    have hκ : 0 < -(t * k) := by nlinarith
    obtain ⟨hoc, _⟩ := outwardCopy_of_pos f Q hf hcf hrQ _ hκ hnQ
    have h1 : vecArea2 Q.pts = vecArea2 f.pts := vecArea2_of_perm hoc.closedPairs_perm
    have h2 : vecArea2 Q.pts = neg (vecArea2 g.pts) := by
      rw [hQp, hgp]; exact vecArea2_of_perm_swap (closedPairs_cons_reverse q0' qrest')
    have h3 : vecArea2 g.pts = neg (vecArea2 f.pts) := by
      rw [← h1, h2]; apply V3.ext' <;> simp [neg]
    rw [h3]
    have : dot (sub c q0) (neg (vecArea2 f.pts)) = - dot (sub c q0) (vecArea2 f.pts) := by
      simp only [dot, neg]; ring
    rw [this, absQ_neg_q, hanchor]
  · obtain ⟨hoc, _⟩ := outwardCopy_of_pos f g hf hcf hr k hpos hn
    rw [vecArea2_of_perm hoc.closedPairs_perm, hanchor]
#print axioms pyramidVolume_reoriented

theorem forall₂_map_eq {α β γ : Type} (φ : α → γ) (ψ : β → γ) {l1 : List α} {l2 : List β}
    (h : List.Forall₂ (fun a b => φ a = ψ b) l1 l2) : l1.map φ = l2.map ψ := by
  induction h with
  | nil => rfl
  | cons hab _ ih => rw [List.map_cons, List.map_cons, hab, ih]

/-! ### the queries -/
/-- **C09, queries on the result.**  For ANY successful `ConvexPolyhedron(input)` on a reordered, re-oriented face
    list of the valid body `B0` (no Euler hypothesis: success implies it): the result is `Valid`, its membership test
    is that of `B0` and is exactly the convex hull of its vertices, its centre is the mean of the face vertices of
    `B0`, and (when every stored polygon centre lies inside its polygon, e.g. is the vertex mean) its volume is the
    sum of the pyramids over the faces of `B0`. -/
theorem Polyhedron.mk?_reoriented_queries (B0 : Polyhedron) (hV : B0.Valid) (F input : List Polygon)
    (hperm : List.Perm F B0.faces) (hrel : List.Forall₂ Reoriented F input)
    (B : Polyhedron) (h : Polyhedron.mk? input = .ok B) :
    B.Valid ∧ B.center = meanV (collectVerts B0.faces) ∧ List.Perm B.verts (collectVerts B0.faces) ∧
    List.Forall₂ OutwardCopy F B.faces ∧
    (∀ x, B.contains x = B0.contains x) ∧ (∀ x, B.contains x = true ↔ InHull B.verts x) ∧
    ((∀ f ∈ B0.faces, ∀ e ∈ closedPairs f.pts, 0 ≤ orient f.plane.n e.1 e.2 f.center) →
     (∀ g ∈ input, ∀ e ∈ closedPairs g.pts, 0 ≤ orient g.plane.n e.1 e.2 g.center) →
      B.volume = (B0.faces.map (fun f => pyramidVolume f B.center)).sum) := by
  have hE := (Polyhedron.mk?_reoriented_iff B0 hV F input hperm hrel).mp ⟨B, h⟩
  obtain ⟨B', hB', hBV, hBc, _, hcop, _, _, hvp, _, _, _, hpyr⟩ :=
    Polyhedron.mk?_reoriented B0 hV F input hperm hrel hE
  rw [h] at hB'; cases hB'
  have hFmem : ∀ f ∈ F, f ∈ B0.faces := fun f hf => hperm.mem_iff.mp hf
  refine ⟨hBV, hBc, hvp, hcop, ?_, fun x => B.contains_iff_hull hBV x, ?_⟩
  · intro x
    rw [Bool.eq_iff_iff, Polyhedron.contains_iff_side, Polyhedron.contains_iff_side]
    constructor
    · intro hh f hf
      obtain ⟨h', hh', hoc⟩ := Forall₂.exists_right hcop f (hperm.mem_iff.mpr hf)
      obtain ⟨k, hk, _, hside⟩ := hoc.samePlane
      have := hh h' hh'
      rw [hside] at this
      by_contra hcon
      have := mul_pos hk (not_le.mp hcon)
      linarith
    · intro hh h' hh'
      obtain ⟨f, hf, hoc⟩ := Forall₂.exists_left hcop h' hh'
      obtain ⟨k, hk, _, hside⟩ := hoc.samePlane
      rw [hside]
      exact mul_nonpos_of_nonneg_of_nonpos (le_of_lt hk) (hh f (hFmem f hf))
  · intro hcf hcg
    unfold Polyhedron.volume
    rw [hpyr, List.map_map]
    have h1 : input.map ((fun pa : Polygon × V3 => pyramidVolume pa.1 pa.2) ∘ fun g => (g, B.center)) =
        F.map (fun f => pyramidVolume f B.center) := by
      symm
      apply forall₂_map_eq
      exact Forall₂.imp_mem hrel (fun f hf g hg hr => by
        simp only [Function.comp]
        exact (pyramidVolume_reoriented f g (hV.faces_valid f (hFmem f hf))
          (hV.center_in_plane f (hFmem f hf)) hr (hcf f (hFmem f hf)) (hcg g hg) B.center).symm)
    rw [h1]
    exact ((hperm.map _).sum_eq)
#print axioms Polyhedron.mk?_reoriented_queries

/-- **canonical result**: two successful constructions from two reordered, re-oriented face lists of the same valid
    body agree on centre, vertices (up to order), number of edges, membership and volume, and their faces are
    outward copies of the same faces -/
theorem Polyhedron.mk?_reoriented_two (B0 : Polyhedron) (hV : B0.Valid) (F1 F2 input1 input2 : List Polygon)
    (hperm1 : List.Perm F1 B0.faces) (hrel1 : List.Forall₂ Reoriented F1 input1)
    (hperm2 : List.Perm F2 B0.faces) (hrel2 : List.Forall₂ Reoriented F2 input2)
    (B1 B2 : Polyhedron) (h1 : Polyhedron.mk? input1 = .ok B1) (h2 : Polyhedron.mk? input2 = .ok B2)
    (hc0 : ∀ f ∈ B0.faces, ∀ e ∈ closedPairs f.pts, 0 ≤ orient f.plane.n e.1 e.2 f.center)
    (hc1 : ∀ g ∈ input1, ∀ e ∈ closedPairs g.pts, 0 ≤ orient g.plane.n e.1 e.2 g.center)
    (hc2 : ∀ g ∈ input2, ∀ e ∈ closedPairs g.pts, 0 ≤ orient g.plane.n e.1 e.2 g.center) :
    B1.center = B2.center ∧ List.Perm B1.verts B2.verts ∧ B1.edges.length = B2.edges.length ∧
    B1.faces.length = B2.faces.length ∧ (∀ x, B1.contains x = B2.contains x) ∧ B1.volume = B2.volume := by
  obtain ⟨_, c1, v1, _, m1, _, vol1⟩ := Polyhedron.mk?_reoriented_queries B0 hV F1 input1 hperm1 hrel1 B1 h1
  obtain ⟨_, c2, v2, _, m2, _, vol2⟩ := Polyhedron.mk?_reoriented_queries B0 hV F2 input2 hperm2 hrel2 B2 h2
  obtain ⟨_, e1, _, _, f1, _⟩ := Polyhedron.mk?_eq input1 B1 h1
  obtain ⟨_, e2, _, _, f2, _⟩ := Polyhedron.mk?_eq input2 B2 h2
  obtain ⟨_, l1, n1⟩ := reoriented_counts B0 hV F1 input1 hperm1 hrel1
  obtain ⟨_, l2, n2⟩ := reoriented_counts B0 hV F2 input2 hperm2 hrel2
  refine ⟨by rw [c1, c2], v1.trans v2.symm, by rw [e1, e2, l1, l2], ?_, fun x => by rw [m1, m2], ?_⟩
  · rw [f1, f2, List.length_map, List.length_map, n1, n2]
  · rw [vol1 hc0 hc1, vol2 hc0 hc2, c1, c2]
#print axioms Polyhedron.mk?_reoriented_two

/-- vertices as a set, when `B0.verts` lists exactly the face vertices -/
theorem Polyhedron.mk?_reoriented_verts (B0 : Polyhedron) (hV : B0.Valid) (F input : List Polygon)
    (hperm : List.Perm F B0.faces) (hrel : List.Forall₂ Reoriented F input)
    (hverts : ∀ v ∈ B0.verts, ∃ f ∈ B0.faces, v ∈ f.pts)
    (B : Polyhedron) (h : Polyhedron.mk? input = .ok B) : ∀ v, v ∈ B.verts ↔ v ∈ B0.verts := by
  obtain ⟨_, _, hvp, _⟩ := Polyhedron.mk?_reoriented_queries B0 hV F input hperm hrel B h
  intro v
  rw [hvp.mem_iff, mem_collectVerts]
  exact ⟨fun ⟨f, hf, hv⟩ => hV.pts_sub f hf v hv, hverts v⟩
end G3D
