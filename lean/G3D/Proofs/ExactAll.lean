import G3D.Proofs.K4a

/-! # Exactness with well-formed results, for every operand pair except polyhedron × polyhedron

`ExactW` records that a returned Segment is proper.  To CHAIN intersections (associativity, C12) the result must again be an
admissible operand: a well-formed flat or a Valid polygon.  `ExactOK` adds that, via syntactic shape lemmas for the handlers
with a polygon / polyhedron operand (they return None, a Point, a Segment or a polygon). -/
namespace G3D
open V3

/-- None, Point, Segment or polygon -/
def Shape4 : Option Obj → Prop
  | none => True
  | some (.flat (.point _)) => True
  | some (.flat (.seg _)) => True
  | some (.polygon _) => True
  | _ => False

/-- None, Point or Segment -/
def Shape3 : Option Obj → Prop
  | none => True
  | some (.flat (.point _)) => True
  | some (.flat (.seg _)) => True
  | _ => False

theorem Shape3.to4 {o : Option Obj} (h : Shape3 o) : Shape4 o := by
  cases o with
  | none => trivial
  | some ob => cases ob with
    | flat g => cases g <;> first | trivial | exact h
    | polygon _ => trivial
    | polyhedron _ => exact h

theorem Shape3_of_liftFlat (r : Res) (o : Option Obj) (hr : ∀ o', r = .ok o' → IsPS o') (h : liftFlat r = .ok o) : Shape3 o := by
  cases r with
  | error e => cases e <;> simp [liftFlat] at h
  | ok o' =>
    have := hr o' rfl
    cases o' with
    | none => simp [liftFlat] at h; cases h; trivial
    | some g =>
      simp [liftFlat] at h; cases h
      cases g <;> trivial

theorem Shape3_of_PS {r : ResB} {A B : V3 → Prop} (h : ExactPS r A B) (o : Option Obj) (ho : r = .ok o) : Shape3 o := by
  obtain ⟨o', ho', hw, _⟩ := h
  rw [ho] at ho'; cases ho'
  rcases ObjFlatWF_cases o hw with rfl | ⟨q, rfl⟩ | ⟨s, rfl, _⟩ <;> trivial

theorem ofPoints_shape (ps : List V3) (o : Option Obj) (h : ofPoints ps = .ok o) : Shape3 o :=
  Shape3_of_liftFlat _ o (fun o' => ofPointSet_IsPS ps o') h

theorem interPointPolygon_shape (p : V3) (P : Polygon) (o : Option Obj) (h : interPointPolygon p P = .ok o) : Shape3 o := by
  unfold interPointPolygon at h; split at h
  · simp [pt?] at h; cases h; trivial
  · cases h; trivial

theorem interPointPolyhedron_shape (p : V3) (B : Polyhedron) (o : Option Obj) (h : interPointPolyhedron p B = .ok o) : Shape3 o := by
  unfold interPointPolyhedron at h; split at h
  · simp [pt?] at h; cases h; trivial
  · cases h; trivial

theorem interLinePolyhedron_loop_shape (l : Line) : ∀ (fs : List Polygon) (acc : List V3) (o : Option Obj),
    interLinePolyhedron.loop l fs acc = .ok o → Shape3 o := by
  intro fs
  induction fs with
  | nil =>
    intro acc o h
    unfold interLinePolyhedron.loop at h
    split at h
    · cases h; trivial
    · simp [pt?] at h; cases h; trivial
    · cases hs : segmentFromPointList acc with
      | error e => simp [hs, bind, Except.bind] at h
      | ok s => simp [hs, bind, Except.bind, seg?] at h; cases h; trivial
  | cons f fs ih =>
    intro acc o h
    unfold interLinePolyhedron.loop at h
    split at h
    · simp [seg?] at h; cases h; trivial
    · exact ih _ o h
    · exact ih _ o h
    · cases h
    · cases h

theorem interLinePolyhedron_shape (l : Line) (B : Polyhedron) (o : Option Obj) (h : interLinePolyhedron l B = .ok o) : Shape3 o :=
  interLinePolyhedron_loop_shape l B.faces [] o h

theorem interSegPolyhedron_shape (a : Seg) (B : Polyhedron) (o : Option Obj) (h : interSegPolyhedron a B = .ok o) : Shape3 o := by
  unfold interSegPolyhedron at h
  split at h
  · simp [seg?] at h; cases h; trivial
  · cases hs : segPolyhedronPointSet a B with
    | error e => simp [hs, bind, Except.bind] at h
    | ok acc => simp only [hs, bind, Except.bind] at h; exact ofPoints_shape _ o h

theorem interPolyhedronHalfLine_shape (B : Polyhedron) (hl : HalfLine) (o : Option Obj)
    (h : interPolyhedronHalfLine B hl = .ok o) : Shape3 o := by
  unfold interPolyhedronHalfLine at h
  cases hs : boundaryHits (fun f => interPolygonHalfLine f hl) (fun s => interSegHalfLine s hl) B with
  | error e => simp [hs, bind, Except.bind] at h
  | ok acc => simp only [hs, bind, Except.bind] at h; exact ofPoints_shape _ o h

theorem interPlanePolyhedron_shape4 (a : Plane) (B : Polyhedron) (o : Option Obj) (h : interPlanePolyhedron a B = .ok o) :
    Shape4 o := by
  cases o with
  | none => trivial
  | some ob =>
    obtain ⟨_, rfl⟩ | ⟨_, rfl⟩ | ⟨_, rfl⟩ := interPlanePolyhedron_shape a B ob h <;> trivial

theorem interFlatPair_shape3 (x y : Geo) (hx : IsPS (some x)) (hy : IsPS (some y)) (o : Option Obj)
    (h : interFlatPair x y = .ok o) : Shape3 o := by
  refine Shape3_of_liftFlat _ o ?_ h
  intro o' ho'
  cases x <;> first | exact hx.elim | skip
  all_goals cases y <;> first | exact hy.elim | skip
  · simp only [interFlat, interPointPoint] at ho'; cases ho'; split <;> trivial
  · exact interPointSeg_IsPS _ _ o' ho'
  · exact interPointSeg_IsPS _ _ o' ho'
  · exact interSegSeg_IsPS _ _ o' ho'

theorem Shape3.isPS {g : Geo} (h : Shape3 (some (.flat g))) : IsPS (some g) := by
  cases g <;> first | trivial | exact h

theorem interPolygonPolygon_shape (a b : Polygon) (ha : a.Valid) (hb : b.Valid) (o : Option Obj)
    (h : interPolygonPolygon a b = .ok o) : Shape4 o := by
  have haW := Polygon.plane_WF a ha
  have hbW := Polygon.plane_WF b hb
  obtain ⟨o1, ho1, _, _⟩ := interPlanePlane_exact a.plane b.plane haW hbW
  have hshape := interPlanePlane_shape a.plane b.plane haW hbW o1 ho1
  unfold interPolygonPolygon at h
  rw [ho1] at h
  rcases hshape with rfl | ⟨rfl, heq⟩ | ⟨L, rfl, hL⟩
  · cases h; trivial
  · simp only [heq, Bool.not_true, Bool.false_eq_true, ↓reduceIte] at h
    cases hsa : a.segments? with
    | error e => simp [hsa, liftC, bind, Except.bind] at h
    | ok sa =>
      cases hsb : b.segments? with
      | error e => simp [hsa, hsb, liftC, bind, Except.bind] at h
      | ok sb =>
        simp only [hsa, hsb, liftC, bind, Except.bind] at h
        split at h
        · cases h
        · rename_i acc hacc
          split at h
          · simp [pure, Except.pure] at h; cases h; trivial
          · simp [pt?] at h; cases h; trivial
          · rename_i p q
            by_cases hpq : p = q
            · simp [hpq] at h
            · simp [hpq, seg?] at h; cases h; trivial
          · cases hl : pointsInALine acc with
            | error e => simp [hl] at h
            | ok bl =>
              cases bl with
              | true => simp [hl, throw, throwThe, MonadExceptOf.throw] at h
              | false =>
                simp only [hl] at h
                cases hm : Polygon.mk? acc with
                | error e => simp [hm] at h
                | ok P => simp [hm, pure, Except.pure] at h; cases h; trivial
  · obtain ⟨oa, hoa, hwa, _⟩ := interLinePolygon_exact L hL a ha
    obtain ⟨ob, hob, hwb, _⟩ := interLinePolygon_exact L hL b hb
    simp only at h
    rw [hoa, hob] at h
    rcases ObjFlatWF_cases oa hwa with rfl | ⟨qa, rfl⟩ | ⟨sa, rfl, hsa⟩
    · cases h; trivial
    all_goals
      rcases ObjFlatWF_cases ob hwb with rfl | ⟨qb, rfl⟩ | ⟨sb, rfl, hsb⟩
    · cases h; trivial
    · refine (interFlatPair_shape3 _ _ ?_ ?_ o h).to4 <;> trivial
    · refine (interFlatPair_shape3 _ _ ?_ ?_ o h).to4 <;> trivial
    · cases h; trivial
    · refine (interFlatPair_shape3 _ _ ?_ ?_ o h).to4 <;> trivial
    · refine (interFlatPair_shape3 _ _ ?_ ?_ o h).to4 <;> trivial

/-! ### admissible operands, admissible results -/
/-- operands for which exactness is proved: well-formed flats, Valid polygons, polyhedra meeting `ExactHyp` -/
def OpOK : Obj → Prop
  | .flat g => g.WF
  | .polygon P => P.Valid
  | .polyhedron B => B.ExactHyp

/-- None, a well-formed flat or a Valid polygon (never a polyhedron: no handler of these pairs builds one) -/
def ResOK : Option Obj → Prop
  | none => True
  | some (.flat g) => g.WF
  | some (.polygon P) => P.Valid
  | some (.polyhedron _) => False

/-- returns without error an admissible operand (or None) denoting exactly `A ∩ B` -/
def ExactOK (r : ResB) (A B : V3 → Prop) : Prop :=
  ∃ o, r = .ok o ∧ ResOK o ∧ ∀ x, denOptB o x ↔ (A x ∧ B x)

theorem ExactOK.swap {r : ResB} {A B : V3 → Prop} (h : ExactOK r A B) : ExactOK r B A := by
  obtain ⟨o, ho, hw, hd⟩ := h
  exact ⟨o, ho, hw, fun x => by rw [hd x]; exact And.comm⟩

theorem ExactOK.of_W {r : ResB} {A B : V3 → Prop} (h : ExactW r A B) (hs : ∀ o, r = .ok o → Shape4 o)
    (hv : ∀ Q, r = .ok (some (.polygon Q)) → Q.Valid) : ExactOK r A B := by
  obtain ⟨o, ho, hw, hd⟩ := h
  refine ⟨o, ho, ?_, hd⟩
  have h4 := hs o ho
  cases o with
  | none => trivial
  | some ob =>
    cases ob with
    | flat g =>
      cases g with
      | point _ => trivial
      | seg s => exact hw
      | line _ => exact h4.elim
      | plane _ => exact h4.elim
      | halfline _ => exact h4.elim
    | polygon Q => exact hv Q ho
    | polyhedron _ => exact h4.elim

theorem ExactOK.of_W3 {r : ResB} {A B : V3 → Prop} (h : ExactW r A B) (hs : ∀ o, r = .ok o → Shape3 o) : ExactOK r A B :=
  ExactOK.of_W h (fun o ho => (hs o ho).to4) (fun Q hQ => (hs _ hQ).elim)

theorem ExactOK.of_PS {r : ResB} {A B : V3 → Prop} (h : ExactPS r A B) : ExactOK r A B := by
  obtain ⟨o, ho, hw, hd⟩ := h
  refine ⟨o, ho, ?_, hd⟩
  rcases ObjFlatWF_cases o hw with rfl | ⟨q, rfl⟩ | ⟨s, rfl, hs⟩
  · trivial
  · trivial
  · exact hs

theorem interFlatPair_exactOK (x y : Geo) (hx : x.WF) (hy : y.WF) : ExactOK (interFlatPair x y) x.den y.den := by
  obtain ⟨o, ho, hw, hd⟩ := interFlat_exact x y hx hy
  unfold interFlatPair
  rw [ho]
  cases o with
  | none => exact ⟨none, rfl, trivial, fun x => by simpa [denOptB, denOpt] using hd x⟩
  | some g => exact ⟨some (.flat g), rfl, hw g rfl, fun x => by simpa [denOptB, denOpt, ObjDen] using hd x⟩

theorem interPlanePolygon_exactOK (a : Plane) (ha : a.WF) (P : Polygon) (hv : P.Valid) :
    ExactOK (interPlanePolygon a P) a.den (InHull P.pts) := by
  have hpW := Polygon.plane_WF P hv
  refine ExactOK.of_W (interPlanePolygon_exactW a ha P hv) ?_ ?_
  · intro o h
    obtain ⟨o1, ho1, _, _⟩ := interPlanePlane_exact a P.plane ha hpW
    unfold interPlanePolygon at h
    rw [ho1] at h
    rcases interPlanePlane_shape a P.plane ha hpW o1 ho1 with rfl | ⟨rfl, _⟩ | ⟨L, rfl, hLW⟩
    · cases h; trivial
    · cases h; trivial
    · exact (Shape3_of_PS (interLinePolygon_exact L hLW P hv) o h).to4
  · intro Q h
    obtain ⟨o1, ho1, _, _⟩ := interPlanePlane_exact a P.plane ha hpW
    unfold interPlanePolygon at h
    rw [ho1] at h
    rcases interPlanePlane_shape a P.plane ha hpW o1 ho1 with rfl | ⟨rfl, _⟩ | ⟨L, rfl, hLW⟩
    · cases h
    · cases h; exact hv
    · exact (Shape3_of_PS (interLinePolygon_exact L hLW P hv) _ h).elim

theorem interPolygonPolygon_polygon_valid (a b : Polygon) (ha : a.Valid) (hb : b.Valid) (Q : Polygon)
    (h : interPolygonPolygon a b = .ok (some (.polygon Q))) : Q.Valid := by
  cases hco : a.plane.eqv b.plane with
  | true => exact (interPolygonPolygon_coplanar_polygon_valid a b ha hb hco Q h).1
  | false =>
    exfalso
    have haW := Polygon.plane_WF a ha
    have hbW := Polygon.plane_WF b hb
    obtain ⟨o1, ho1, _, _⟩ := interPlanePlane_exact a.plane b.plane haW hbW
    unfold interPolygonPolygon at h
    rw [ho1] at h
    rcases interPlanePlane_shape a.plane b.plane haW hbW o1 ho1 with rfl | ⟨rfl, heq⟩ | ⟨L, rfl, hL⟩
    · cases h
    · rw [heq] at hco; cases hco
    · obtain ⟨oa, hoa, hwa, _⟩ := interLinePolygon_exact L hL a ha
      obtain ⟨ob, hob, hwb, _⟩ := interLinePolygon_exact L hL b hb
      simp only at h
      rw [hoa, hob] at h
      rcases ObjFlatWF_cases oa hwa with rfl | ⟨qa, rfl⟩ | ⟨sa, rfl, hsa⟩
      · cases h
      all_goals
        rcases ObjFlatWF_cases ob hwb with rfl | ⟨qb, rfl⟩ | ⟨sb, rfl, hsb⟩
      · cases h
      · refine (interFlatPair_shape3 _ _ ?_ ?_ _ h).elim <;> trivial
      · refine (interFlatPair_shape3 _ _ ?_ ?_ _ h).elim <;> trivial
      · cases h
      · refine (interFlatPair_shape3 _ _ ?_ ?_ _ h).elim <;> trivial
      · refine (interFlatPair_shape3 _ _ ?_ ?_ _ h).elim <;> trivial

theorem interPolygonPolygon_exactOK (a b : Polygon) (ha : a.Valid) (hb : b.Valid) :
    ExactOK (interPolygonPolygon a b) (InHull a.pts) (InHull b.pts) :=
  ExactOK.of_W (interPolygonPolygon_exact a b ha hb) (interPolygonPolygon_shape a b ha hb)
    (interPolygonPolygon_polygon_valid a b ha hb)

theorem interPolygonPolyhedron_exactOK (B : Polyhedron) (hH : B.ExactHyp) (P : Polygon) (hv : P.Valid) :
    ExactOK (interPolygonPolyhedron B P) (InHull P.pts) (InHull B.verts) := by
  have hpW := Polygon.plane_WF P hv
  obtain ⟨o1, ho1, hw1, _⟩ := interPlanePolyhedron_exact_hull P.plane hpW B hH
  have hcase : ∀ o, interPolygonPolyhedron B P = .ok o → Shape4 o ∧ ∀ Q, o = some (.polygon Q) → Q.Valid := by
    intro o h
    unfold interPolygonPolyhedron at h
    rw [ho1] at h
    cases o1 with
    | none => cases h; exact ⟨trivial, fun Q hQ => by cases hQ⟩
    | some ob =>
      obtain ⟨q, rfl⟩ | ⟨s, rfl⟩ | ⟨Q0, rfl⟩ := interPlanePolyhedron_shape P.plane B ob ho1
      · have := interPointPolygon_shape q P o h
        exact ⟨this.to4, fun Q hQ => by rw [hQ] at this; exact this.elim⟩
      · have := Shape3_of_PS (interSegPolygon_exactPS s hw1 P hv) o h
        exact ⟨this.to4, fun Q hQ => by rw [hQ] at this; exact this.elim⟩
      · have hQ0 := interPlanePolyhedron_polygon_valid P.plane hpW B hH Q0 ho1
        exact ⟨interPolygonPolygon_shape Q0 P hQ0 hv o h, fun Q hQ => by
          rw [hQ] at h; exact interPolygonPolygon_polygon_valid Q0 P hQ0 hv Q h⟩
  exact ExactOK.of_W (interPolygonPolyhedron_exact B hH P hv) (fun o h => (hcase o h).1) (fun Q h => (hcase _ h).2 Q rfl)

/-- one of the operands is not a polyhedron -/
def NotBothBodies : Obj → Obj → Prop
  | .polyhedron _, .polyhedron _ => False
  | _, _ => True

/-- **every operand pair except polyhedron × polyhedron**: the reference dispatcher returns without error None or an
    admissible operand (well-formed flat / Valid polygon) denoting exactly the common points -/
theorem interRef_exactOK (a b : Obj) (ha : OpOK a) (hb : OpOK b) (hnb : NotBothBodies a b) :
    ExactOK (interRef a b) (ObjDen a) (ObjDen b) := by
  cases a with
  | flat x =>
    cases b with
    | flat y => exact interFlatPair_exactOK x y ha hb
    | polygon P =>
      cases x with
      | point p => exact ExactOK.of_PS (interPointPolygon_exact p P hb)
      | line l => exact ExactOK.of_PS (interLinePolygon_exact l ha P hb)
      | plane pl => exact interPlanePolygon_exactOK pl ha P hb
      | seg s => exact ExactOK.of_PS (interSegPolygon_exactPS s ha P hb)
      | halfline h => exact (ExactOK.of_PS (interPolygonHalfLine_exactPS P hb h ha))
    | polyhedron B =>
      obtain ⟨hp, hl, hs, hh, hpl⟩ := flat_polyhedron_exact_hull B hb
      cases x with
      | point p => exact ExactOK.of_W3 (hp p) (interPointPolyhedron_shape p B)
      | line l => exact ExactOK.of_W3 (hl l ha) (interLinePolyhedron_shape l B)
      | plane pl =>
        exact ExactOK.of_W (hpl pl ha) (interPlanePolyhedron_shape4 pl B)
          (interPlanePolyhedron_polygon_valid pl ha B hb)
      | seg s => exact ExactOK.of_W3 (hs s ha) (interSegPolyhedron_shape s B)
      | halfline h => exact ExactOK.of_W3 (hh h ha) (interPolyhedronHalfLine_shape B h)
  | polygon P =>
    cases b with
    | flat y =>
      cases y with
      | point p => exact (ExactOK.of_PS (interPointPolygon_exact p P ha)).swap
      | line l => exact (ExactOK.of_PS (interLinePolygon_exact l hb P ha)).swap
      | plane pl => exact (interPlanePolygon_exactOK pl hb P ha).swap
      | seg s => exact (ExactOK.of_PS (interSegPolygon_exactPS s hb P ha)).swap
      | halfline h => exact (ExactOK.of_PS (interPolygonHalfLine_exactPS P ha h hb)).swap
    | polygon Q => exact interPolygonPolygon_exactOK P Q ha hb
    | polyhedron B => exact interPolygonPolyhedron_exactOK B hb P ha
  | polyhedron B =>
    cases b with
    | flat y =>
      obtain ⟨hp, hl, hs, hh, hpl⟩ := flat_polyhedron_exact_hull B ha
      cases y with
      | point p => exact (ExactOK.of_W3 (hp p) (interPointPolyhedron_shape p B)).swap
      | line l => exact (ExactOK.of_W3 (hl l hb) (interLinePolyhedron_shape l B)).swap
      | plane pl =>
        exact (ExactOK.of_W (hpl pl hb) (interPlanePolyhedron_shape4 pl B)
          (interPlanePolyhedron_polygon_valid pl hb B ha)).swap
      | seg s => exact (ExactOK.of_W3 (hs s hb) (interSegPolyhedron_shape s B)).swap
      | halfline h => exact (ExactOK.of_W3 (hh h hb) (interPolyhedronHalfLine_shape B h)).swap
    | polygon P => exact (interPolygonPolyhedron_exactOK B ha P hb).swap
    | polyhedron _ => exact hnb.elim

#print axioms interRef_exactOK
end G3D
