import G3D.Extracted.Hpolyhedron
import G3D.Proofs.HandlersTieShared
/-! # Tie, group `hpolyhedron` (property C02): flat × ConvexPolyhedron and the helpers only these handlers use —
    extracted body (`G3D.Extracted.Hpolyhedron`, tools/extract_hpolyhedron.py) = hand model.
    See `G3D.Proofs.HandlersTie` for the conventions. -/
set_option linter.unusedSimpArgs false
set_option linter.unusedVariables false
namespace G3D.Tie
open V3 PyRt Extracted

/-! ### `get_segment_from_point_list` -/

def relStep (p0 v0 : V3) (pi : V3) (rels : List Rat) : PyM (ForInStep (List Rat)) :=
  if !(V3.parallel (sub pi p0) v0) then .error .value
  else if normSq v0 = 0 then .error (.ctor .zeroDiv)
  else .ok (.yield (rels ++ [dot (sub pi p0) v0 / normSq v0]))

theorem forIn_relStep (p0 v0 : V3) (rest : List V3) (rels : List Rat) :
    forIn rest rels (relStep p0 v0) =
      if rest.any (fun pi => !(V3.parallel (sub pi p0) v0)) then .error .value
      else if rest ≠ [] ∧ normSq v0 = 0 then .error (.ctor .zeroDiv)
      else .ok (rels ++ rest.map (fun pi => dot (sub pi p0) v0 / normSq v0)) := by
  induction rest generalizing rels with
  | nil => simp
  | cons p rest ih =>
    simp only [List.forIn_cons, relStep, List.any_cons]
    by_cases hp : V3.parallel (sub p p0) v0 = true
    · simp only [hp, Bool.not_true, Bool.false_eq_true, if_false, Bool.false_or]
      by_cases hn : normSq v0 = 0
      · have hv : v0 = zero := normSq_eq_zero.mp hn
        have : (rest.any fun pi => !V3.parallel (sub pi p0) v0) = false := by
          rw [List.any_eq_false]; intro x _; rw [hv, parallel_zero_right]; simp
        simp [hn, this]
      · simp only [hn, if_false, ok_bind, ih, and_false]
        split
        · rfl
        · simp
    · have hp' : V3.parallel (sub p p0) v0 = false := by simpa using hp
      simp [hp']

theorem h_get_segment_from_point_list_eq (ps : List V3) :
    h_get_segment_from_point_list (Val.ptSeq ps) =
      (fun s => Val.obj (.flat (.seg s))) <$> segmentFromPointList ps := by
  unfold h_get_segment_from_point_list
  match ps with
  | [] => simp [pyrt, Val.ptSeq, segmentFromPointList]
  | [p] => simp [pyrt, Val.ptSeq, segmentFromPointList]
  | p0 :: p1 :: rest =>
    have hlen : ¬ ((rest.length : Int) + 1 + 1 < 2) := by omega
    have hn : ((rest.length : Int) + 1 + 1 - 2).toNat = rest.length := by omega
    have hlit : pyListLit [Val.int 0, Val.int 1] = .ok (.nums [0, 1]) := by
      simp [pyListLit, allObjs?, allNums?, Val.asRat?]
    simp only [pyrt, Val.ptSeq, List.map_cons, List.length_cons, Nat.cast_add, Nat.cast_one, hlen, decide_false,
      Bool.false_eq_true, if_false, ptObj, hn, hlit, List.length_map]
    rw [← map_snd_indexed rest 2]
    rw [show Val.nums [0, 1] = Val.nums ((fun r : List Rat => r) [0, 1]) from rfl]
    rw [forIn_repr (fun xi : V3 × Int => Val.int xi.2) Val.nums (indexed 2 rest) _ (fun xi => relStep p0 (sub p1 p0) xi.1)]
    rotate_left
    · intro ⟨pi, i⟩ hmem rels
      obtain ⟨k, rfl, hk⟩ := mem_indexed rest 2 pi i hmem
      have hidx : pyIndex (Val.seq (Obj.flat (Geo.point p0) :: Obj.flat (Geo.point p1) :: List.map ptObj rest)) (Val.int (2 + ↑k))
          = .ok (.obj (.flat (.point pi))) := by
        have := pyIndex_seq_nat (Obj.flat (Geo.point p0) :: Obj.flat (Geo.point p1) :: List.map ptObj rest) (k + 2)
          (.flat (.point pi)) (by simp [hk, ptObj])
        rw [← this]; congr 2; push_cast; omega
      simp only [hidx, pyrt, relStep]
      by_cases hp : V3.parallel (sub pi p0) (sub p1 p0) = true
      · by_cases hz : normSq (sub p1 p0) = 0 <;> simp [hp, hz, pyrt, ForInStep.map']
      · have hp' : V3.parallel (sub pi p0) (sub p1 p0) = false := by simpa using hp
        simp [hp', pyrt]
    rw [forIn_indexed, forIn_relStep]
    simp only [segmentFromPointList]
    split
    · simp
    · split
      · simp
      · simp only [pyrt, List.cons_append, List.nil_append, List.foldl_cons, min_self, max_self]
        split <;> simp_all

/-! ### the two polyhedron `get_*_intersection_point_set` helpers -/

theorem h_get_segment_convexpolyhedron_intersection_point_set_eq (s : Seg) (B : Polyhedron) :
    h_get_segment_convexpolyhedron_intersection_point_set (.obj (.flat (.seg s))) (.obj (.polyhedron B)) =
      Val.ptSet <$> segPolyhedronPointSet s B := by
  unfold h_get_segment_convexpolyhedron_intersection_point_set
  simp only [pyrt, List.map_map]
  rw [show (Val.set []) = Val.ptSet [] from rfl]
  rw [forIn_repr (Val.obj ∘ Obj.polygon) Val.ptSet B.faces _ (faceStep (fun f => interSegPolygon s f))]
  rotate_left
  · intro f _ acc
    simp only [Function.comp, pyrt, faceStep]
    exact faceBody_eq _ acc
  simp only [segPolyhedronPointSet, boundaryHits, ← faceHits_eq_forIn]
  cases faceHits (fun f => interSegPolygon s f) B.faces [] with
  | error e => simp
  | ok acc =>
    simp only [pyrt]
    rw [forIn_repr (Val.obj ∘ sgObj) Val.ptSet B.edges _ (edgeStep (fun t => interSegSeg t s))]
    · simp [← edgeHits_eq_forIn]
    · intro t _ acc
      simp only [Function.comp, sgObj, pyrt, edgeStep]
      exact edgeBody_eq _ (interSegSeg_onlyBug t s) acc

theorem h_get_halfline_convexpolyhedron_intersection_point_set_eq (h : HalfLine) (B : Polyhedron) :
    h_get_halfline_convexpolyhedron_intersection_point_set (.obj (.flat (.halfline h))) (.obj (.polyhedron B)) =
      Val.ptSet <$> boundaryHits (fun f => interPolygonHalfLine f h) (fun s => interSegHalfLine s h) B := by
  unfold h_get_halfline_convexpolyhedron_intersection_point_set
  simp only [pyrt, List.map_map]
  rw [show (Val.set []) = Val.ptSet [] from rfl]
  rw [forIn_repr (Val.obj ∘ Obj.polygon) Val.ptSet B.faces _ (faceStep (fun f => interPolygonHalfLine f h))]
  rotate_left
  · intro f _ acc
    simp only [Function.comp, pyrt, faceStep]
    exact faceBody_eq _ acc
  simp only [boundaryHits, ← faceHits_eq_forIn]
  cases faceHits (fun f => interPolygonHalfLine f h) B.faces [] with
  | error e => simp
  | ok acc =>
    simp only [pyrt]
    rw [forIn_repr (Val.obj ∘ sgObj) Val.ptSet B.edges _ (edgeStep (fun t => interSegHalfLine t h))]
    · simp [← edgeHits_eq_forIn]
    · intro t _ acc
      simp only [Function.comp, sgObj, pyrt, edgeStep]
      exact edgeBody_eq _ (interSegHalfLine_onlyBug t h) acc

/-! ### `inter_line_convexpolyhedron` -/

def lineFaceStep (l : Line) (f : Polygon) (st : Option Obj × List V3) : PyM (ForInStep (Option Obj × List V3)) :=
  match interLinePolygon l f with
  | .ok (some (.flat (.seg s))) => .ok (.done (some (.flat (.seg s)), st.2))
  | .ok (some (.flat (.point q))) => .ok (.yield (none, addNew st.2 q))
  | .ok none => .ok (.yield (none, st.2))
  | .ok _ => .error .bug
  | .error e => .error e

theorem interLinePolyhedron_loop_eq (l : Line) (fs : List Polygon) (acc : List V3) :
    interLinePolyhedron.loop l fs acc =
      (do let st ← forIn fs ((none : Option Obj), acc) (lineFaceStep l)
          match st.1 with
          | some o => .ok (some o)
          | none => match st.2 with
            | [] => .ok none
            | [p] => pt? p
            | ps => do let s ← segmentFromPointList ps; seg? s) := by
  induction fs generalizing acc with
  | nil =>
    simp only [interLinePolyhedron.loop, List.forIn_nil, pyrt]
    rcases acc with _ | ⟨p, _ | ⟨q, r⟩⟩ <;> rfl
  | cons f fs ih =>
    simp only [List.forIn_cons, interLinePolyhedron.loop, lineFaceStep]
    split <;> simp [ih, seg?, *]

theorem h_inter_line_convexpolyhedron_eq (l : Line) (B : Polyhedron) :
    h_inter_line_convexpolyhedron (.obj (.flat (.line l))) (.obj (.polyhedron B)) = Val.ofRes (interLinePolyhedron l B) := by
  unfold h_inter_line_convexpolyhedron
  simp only [pyrt, List.map_map]
  rw [show ((none : Option Val), Val.set []) = reprRP (none, []) from rfl]
  rw [forIn_repr (Val.obj ∘ Obj.polygon) reprRP B.faces _ (lineFaceStep l)]
  rotate_left
  · intro f _ st
    simp only [Function.comp, pyrt, lineFaceStep, reprRP]
    rcases interLinePolygon l f with e | o
    · simp [pyrt]
    · rcases o with _ | ⟨g | P | B'⟩
      · simp [pyrt, ForInStep.map', reprRP]
      · cases g <;> simp [pyrt, ForInStep.map', Val.ptSet, reprRP]
      · simp [pyrt, ForInStep.map']
      · simp [pyrt, ForInStep.map']
  simp only [interLinePolyhedron, interLinePolyhedron_loop_eq]
  cases forIn B.faces ((none : Option Obj), ([] : List V3)) (lineFaceStep l) with
  | error e => simp [pyrt]
  | ok st =>
    obtain ⟨r, acc⟩ := st
    cases r with
    | some o => simp [pyrt, reprRP]
    | none =>
      simp only [pyrt, reprRP, Option.map_none, Val.ptSet, List.length_map]
      match acc with
      | [] => simp [pyrt]
      | [p] => simp [pyrt, ptObj, pt?]
      | p :: q :: rest =>
        have := h_get_segment_from_point_list_eq (p :: q :: rest)
        simp only [Val.ptSeq, List.map_cons] at this
        have h0 : ¬ ((rest.length : Int) + 1 + 1 = 0) := by omega
        have h1 : ¬ ((rest.length : Int) + 1 = 0) := by omega
        have h2 : (2 : Int) ≤ (rest.length : Int) + 1 + 1 := by omega
        simp [pyrt, seg?, h0, h1, h2, this]
        cases segmentFromPointList (p :: q :: rest) <;> simp [pyrt]

/-! ### `inter_plane_convexpolyhedron` -/

def findStep {α : Type} (c : α → Bool) (x : α) (_ : Option α) : PyM (ForInStep (Option α)) :=
  if c x then .ok (.done (some x)) else .ok (.yield none)

theorem forIn_findStep {α : Type} (c : α → Bool) (xs : List α) :
    forIn xs none (findStep c) = .ok (xs.find? c) := by
  induction xs with
  | nil => simp
  | cons x xs ih =>
    simp only [List.forIn_cons, findStep, List.find?_cons]
    by_cases h : c x = true
    · simp [h]
    · have h' : c x = false := by simpa using h
      simp [h', ih]

theorem interPlanePolyhedron_loop_eq (a : Plane) (ss : List Seg) (acc : List V3) :
    interPlanePolyhedron.loop a ss acc = edgeHits (fun s => interPlaneSeg a s) ss acc := by
  induction ss generalizing acc with
  | nil => rfl
  | cons s ss ih =>
    simp only [interPlanePolyhedron.loop, edgeHits]
    split <;> simp_all

theorem h_inter_plane_convexpolyhedron_eq (a : Plane) (B : Polyhedron) :
    h_inter_plane_convexpolyhedron (.obj (.flat (.plane a))) (.obj (.polyhedron B)) = Val.ofRes (interPlanePolyhedron a B) := by
  unfold h_inter_plane_convexpolyhedron
  simp only [pyrt, List.map_map]
  rw [show ((none : Option Val), ()) = (fun r : Option Polygon => (r.map (Val.obj ∘ Obj.polygon), ())) none from rfl]
  rw [forIn_repr (Val.obj ∘ Obj.polygon) (fun r : Option Polygon => (r.map (Val.obj ∘ Obj.polygon), ())) B.faces _
    (findStep (fun f => f.inPlane a))]
  rotate_left
  · intro f _ st
    simp only [Function.comp, pyrt, findStep]
    by_cases hc : f.inPlane a = true
    · simp [hc, ForInStep.map']
    · simp [hc, ForInStep.map']
  rw [forIn_findStep]
  simp only [interPlanePolyhedron, pyrt]
  cases B.faces.find? (fun f => f.inPlane a) with
  | some f => simp [pyrt]
  | none =>
    simp only [Option.map_none, interPlanePolyhedron_loop_eq]
    rw [show (Val.set []) = Val.ptSet [] from rfl]
    rw [forIn_repr (Val.obj ∘ sgObj) Val.ptSet B.edges _ (edgeStep (fun s => interPlaneSeg a s))]
    rotate_left
    · intro t _ acc
      simp only [Function.comp, sgObj, pyrt, edgeStep]
      exact edgeBody_eq _ (interPlaneSeg_onlyBug a t) acc
    rw [← edgeHits_eq_forIn]
    cases edgeHits (fun s => interPlaneSeg a s) B.edges [] with
    | error e => simp [pyrt]
    | ok acc =>
      simp only [pyrt, Val.ptSet, List.length_map]
      match acc with
      | [] => simp [pyrt]
      | [p] => simp [pyrt, ptObj, pt?]
      | [p, q] =>
        simp [pyrt, ptObj, seg?, liftC]
        by_cases hpq : p = q <;> simp [hpq, pyrt]
      | p :: q :: r :: rest =>
        have h0 : ¬ ((rest.length : Int) + 1 + 1 + 1 = 0) := by omega
        have h1 : ¬ ((rest.length : Int) + 1 + 1 = 0) := by omega
        have h2 : ¬ ((rest.length : Int) + 1 + 1 + 1 = 2) := by omega
        simp [pyrt, h0, h1, h2]
        cases liftC (Polygon.mk? (p :: q :: r :: rest)) <;> simp [pyrt]

/-! ### `inter_segment_convexpolyhedron`, `inter_convexpolyhedron_halfline` -/

/-- the common tail `l = list(point_set); len(l) == 0 → None; == 1 → l[0]; == 2 → Segment(l[0], l[1]); else Bug` -/
theorem pointTail_eq (acc : List V3) :
    (do let inter_point_list ← pyList (Val.ptSet acc)
        if (← pyEq (← pyLen inter_point_list) (Val.int 0)).truthy then
          Except.ok Val.none
        else if (← pyEq (← pyLen inter_point_list) (Val.int 1)).truthy then
          pyIndex inter_point_list (Val.int 0)
        else if (← pyEq (← pyLen inter_point_list) (Val.int 2)).truthy then
          pySegment (← pyIndex inter_point_list (Val.int 0)) (← pyIndex inter_point_list (Val.int 1))
        else
          Except.error BErr.bug) = Val.ofRes (ofPoints acc) := by
  rw [ofPoints_cases]
  match acc with
  | [] => simp [pyrt, Val.ptSet]
  | [p] => simp [pyrt, Val.ptSet, ptObj]
  | [p, q] => simp [pyrt, Val.ptSet, ptObj]
  | p :: q :: r :: rest =>
    have h0 : ¬ ((rest.length : Int) + 1 + 1 + 1 = 0) := by omega
    have h1 : ¬ ((rest.length : Int) + 1 + 1 = 0) := by omega
    have h2 : ¬ ((rest.length : Int) + 1 + 1 + 1 = 2) := by omega
    simp [pyrt, Val.ptSet, h0, h1, h2]

theorem h_inter_segment_convexpolyhedron_eq (s : Seg) (B : Polyhedron) :
    h_inter_segment_convexpolyhedron (.obj (.flat (.seg s))) (.obj (.polyhedron B)) = Val.ofRes (interSegPolyhedron s B) := by
  unfold h_inter_segment_convexpolyhedron
  simp only [pyrt, h_get_segment_convexpolyhedron_intersection_point_set_eq, interSegPolyhedron]
  by_cases ha : B.contains s.a = true <;> by_cases hb : B.contains s.b = true
  · simp [ha, hb, pyrt, seg?]
  all_goals
    simp only [ha, hb, pyrt, if_true, if_false, Bool.not_true, Bool.not_false, Bool.and_true, Bool.and_false,
      Bool.true_and, Bool.false_and, Bool.false_eq_true, Bool.not_eq_true]
    cases segPolyhedronPointSet s B with
    | error e => simp [pyrt]
    | ok acc =>
      simp only [pyrt, Val.ptSet]
      exact pointTail_eq _

theorem h_inter_convexpolyhedron_halfline_eq (B : Polyhedron) (h : HalfLine) :
    h_inter_convexpolyhedron_halfline (.obj (.polyhedron B)) (.obj (.flat (.halfline h))) =
      Val.ofRes (interPolyhedronHalfLine B h) := by
  unfold h_inter_convexpolyhedron_halfline
  simp only [pyrt, h_get_halfline_convexpolyhedron_intersection_point_set_eq, interPolyhedronHalfLine]
  cases boundaryHits (fun f => interPolygonHalfLine f h) (fun s => interSegHalfLine s h) B with
  | error e => simp [pyrt]
  | ok acc =>
    by_cases hp : B.contains h.p = true
    · simp only [hp, pyrt, Val.ptSet, if_true]
      exact pointTail_eq _
    · simp only [hp, pyrt, Val.ptSet, if_false, Bool.false_eq_true]
      exact pointTail_eq _

/-! ### `inter_point_convexpolyhedron` -/
theorem h_inter_point_convexpolyhedron_eq (p : V3) (B : Polyhedron) :
    h_inter_point_convexpolyhedron (.obj (.flat (.point p))) (.obj (.polyhedron B)) = Val.ofRes (interPointPolyhedron p B) := by
  unfold h_inter_point_convexpolyhedron
  by_cases h : B.contains p = true <;> simp [pyrt, interPointPolyhedron, pt?, h]

/-! ## axiom audit -/
#print axioms h_get_segment_from_point_list_eq
#print axioms h_get_segment_convexpolyhedron_intersection_point_set_eq
#print axioms h_get_halfline_convexpolyhedron_intersection_point_set_eq
#print axioms h_inter_line_convexpolyhedron_eq
#print axioms h_inter_plane_convexpolyhedron_eq
#print axioms h_inter_segment_convexpolyhedron_eq
#print axioms h_inter_convexpolyhedron_halfline_eq
#print axioms h_inter_point_convexpolyhedron_eq

end G3D.Tie
