import G3D.Proofs.BodySoundAll
import G3D.Proofs.TypedHandlers

/-! # result ⊆ a ∩ b as POINT SETS (C12, third clause, set form), all 49 cells

    `BodySoundAll.lean` shows that every vertex / end point of a returned object lies in both operands.
    All operand denotations are convex, so the whole returned object — a Point, a Segment, the hull of the
    vertices of a returned ConvexPolygon / ConvexPolyhedron (`ObjDen`) — lies in both operands. -/
namespace G3D
open V3
open G3D.Dispatch (ResTy)

/-- closed under segments -/
def SegConvex (D : V3 → Prop) : Prop := ∀ u v x, D u → D v → Between u v x → D x

theorem comb_zero_weights : ∀ (ws : List Rat) (ps : List V3), (∀ w ∈ ws, w = 0) → comb ws ps = zero := by
  intro ws
  induction ws with
  | nil => intro ps _; cases ps <;> rfl
  | cons w ws ih =>
    intro ps h
    cases ps with
    | nil => rfl
    | cons p ps =>
      simp only [comb]
      rw [ih ps (fun w' hw' => h w' (by simp [hw'])), h w (by simp)]
      apply V3.ext' <;> simp [add, smul, zero]

/-- a set closed under segments contains the normalised non-negative combinations of its points -/
theorem conv_comb {D : V3 → Prop} (hD : SegConvex D) : ∀ (ws : List Rat) (ps : List V3), ws.length = ps.length →
    (∀ w ∈ ws, 0 ≤ w) → (∀ p ∈ ps, D p) → 0 < ws.sum → D (smul (1 / ws.sum) (comb ws ps)) := by
  intro ws
  induction ws with
  | nil => intro ps _ _ _ h; simp at h
  | cons w ws ih =>
    intro ps hlen hnn hps hpos
    cases ps with
    | nil => simp at hlen
    | cons p ps =>
      have hw : 0 ≤ w := hnn w (by simp)
      have hnn' : ∀ w' ∈ ws, 0 ≤ w' := fun w' h => hnn w' (by simp [h])
      have hS : 0 ≤ ws.sum := List.sum_nonneg hnn'
      rw [List.sum_cons] at hpos ⊢
      simp only [comb]
      rcases lt_or_eq_of_le hS with hSpos | hS0
      · -- the tail carries weight: a point between `p` and the normalised tail combination
        have hy := ih ps (by simpa using hlen) hnn' (fun q h => hps q (by simp [h])) hSpos
        refine hD p _ _ (hps p (by simp)) hy ⟨ws.sum / (w + ws.sum), ?_, ?_, ?_⟩
        · exact div_nonneg hS (le_of_lt hpos)
        · rw [div_le_one hpos]; linarith
        · have hT : w + ws.sum ≠ 0 := ne_of_gt hpos
          have hS' : ws.sum ≠ 0 := ne_of_gt hSpos
          generalize comb ws ps = q
          apply V3.ext' <;> simp only [add, smul, sub] <;> field_simp <;> ring
      · -- all the weight is on `p`
        have hz : ∀ w' ∈ ws, w' = 0 := all_zero_of_nonneg_sum_zero ws hnn' hS0.symm
        rw [comb_zero_weights ws ps hz, ← hS0]
        have hw0 : w ≠ 0 := by rw [← hS0] at hpos; linarith
        have : smul (1 / (w + 0)) (add (smul w p) zero) = p := by
          apply V3.ext' <;> simp only [add, smul, zero] <;> field_simp <;> ring
        rw [this]; exact hps p (by simp)

/-- the hull of points of a convex set lies in the set -/
theorem InHull.sub_of_conv {D : V3 → Prop} (hD : SegConvex D) (pts : List V3) (h : ∀ p ∈ pts, D p) (x : V3)
    (hx : InHull pts x) : D x := by
  obtain ⟨ws, hlen, hnn, hsum, rfl⟩ := hx
  have := conv_comb hD ws pts hlen hnn h (by rw [hsum]; norm_num)
  rw [hsum] at this
  have e : smul (1 / 1) (comb ws pts) = comb ws pts := by apply V3.ext' <;> simp [smul]
  rwa [e] at this

/-! ### every operand denotation is convex -/
theorem Line.den_conv (l : Line) : SegConvex l.den := by
  rintro u v x ⟨a, rfl⟩ ⟨b, rfl⟩ ⟨t, _, _, rfl⟩
  exact ⟨a + t * (b - a), by apply V3.ext' <;> simp only [add, smul, sub] <;> ring⟩

theorem Plane.den_conv (pl : Plane) : SegConvex pl.den := by
  rintro u v x hu hv ⟨t, _, _, rfl⟩
  simp only [Plane.den, dot, sub, add, smul] at hu hv ⊢
  linear_combination (1 - t) * hu + t * hv

theorem Seg.den_conv (s : Seg) : SegConvex s.den := by
  rintro u v x ⟨a, ha0, ha1, rfl⟩ ⟨b, hb0, hb1, rfl⟩ ⟨t, ht0, ht1, rfl⟩
  refine ⟨a + t * (b - a), ?_, ?_, by apply V3.ext' <;> simp only [add, smul, sub] <;> ring⟩
  · nlinarith
  · nlinarith

theorem HalfLine.den_conv (h : HalfLine) : SegConvex h.den := by
  rintro u v x ⟨a, ha0, rfl⟩ ⟨b, hb0, rfl⟩ ⟨t, ht0, ht1, rfl⟩
  refine ⟨a + t * (b - a), ?_, by apply V3.ext' <;> simp only [add, smul, sub] <;> ring⟩
  nlinarith

theorem OpDen_conv (a : Obj) : SegConvex (OpDen a) := by
  cases a with
  | flat g =>
    cases g with
    | point p =>
      rintro u v x hu hv hx
      simp only [OpDen, Geo.den] at hu hv ⊢
      subst hu; subst hv
      exact (Between_self _ x).mp hx
    | line l => exact l.den_conv
    | plane pl => exact pl.den_conv
    | seg s => exact s.den_conv
    | halfline h => exact h.den_conv
  | polygon P => exact fun _ _ _ hu hv hx => InHull.between hu hv hx
  | polyhedron B => exact fun _ _ _ hu hv hx => Polyhedron.contains_between B hu hv hx

/-- from vertices to point sets: if the result is not a Line / Plane / HalfLine, every point of it lies in both
    (convex) operands -/
theorem Sound.den_sub {r : ResB} {A B : V3 → Prop} (h : Sound r A B) (hA : SegConvex A) (hB : SegConvex B)
    (o : Option Obj) (ho : r = .ok o)
    (hty : resTyOf o ∈ [ResTy.none, .point, .seg, .polygon, .polyhedron]) :
    ∀ x, denOptB o x → A x ∧ B x := by
  obtain ⟨_, hv⟩ := h o ho
  intro x hx
  cases o with
  | none => exact absurd hx (by simp [denOptB])
  | some ob =>
    cases ob with
    | flat g =>
      cases g with
      | point q =>
        simp only [denOptB, ObjDen, Geo.den] at hx
        subst hx; exact hv x (by simp [resVerts])
      | seg s =>
        have ha := hv s.a (by simp [resVerts])
        have hb := hv s.b (by simp [resVerts])
        exact ⟨hA _ _ x ha.1 hb.1 hx, hB _ _ x ha.2 hb.2 hx⟩
      | line _ => simp [resTyOf] at hty
      | plane _ => simp [resTyOf] at hty
      | halfline _ => simp [resTyOf] at hty
    | polygon P =>
      exact ⟨InHull.sub_of_conv hA P.pts (fun p hp => (hv p hp).1) x hx,
        InHull.sub_of_conv hB P.pts (fun p hp => (hv p hp).2) x hx⟩
    | polyhedron R =>
      exact ⟨InHull.sub_of_conv hA R.verts (fun p hp => (hv p hp).1) x hx,
        InHull.sub_of_conv hB R.verts (fun p hp => (hv p hp).2) x hx⟩

/-- **result ⊆ a ∩ b, as point sets, all 49 cells**: every point of the object `intersection(a, b)` returns
    (for a returned ConvexPolygon / ConvexPolyhedron: every point of the hull of its vertices) lies in `a`
    and in `b`.  Operands: well-formed flats, Valid polygons, Good polyhedra (a polyhedron operand denotes the
    set of points passing its membership test). -/
theorem interRef_result_subset (a b : Obj) (ha : OpWF a) (hb : OpWF b) (o : Option Obj)
    (h : interRef a b = .ok o) : ∀ x, denOptB o x → OpDen a x ∧ OpDen b x := by
  have hs := interRef_sound a b ha hb
  have key : resTyOf o ∈ [ResTy.none, .point, .seg, .polygon, .polyhedron] →
      ∀ x, denOptB o x → OpDen a x ∧ OpDen b x :=
    fun hty => hs.den_sub (OpDen_conv a) (OpDen_conv b) o h hty
  have sub : ∀ {l : List ResTy}, resTyOf o ∈ l → l ⊆ [ResTy.none, .point, .seg, .polygon, .polyhedron] →
      ∀ x, denOptB o x → OpDen a x ∧ OpDen b x := fun hm hl => key (hl hm)
  cases a with
  | flat f =>
    cases b with
    | flat g =>
      obtain ⟨o', ho', hd⟩ := ExactB_of_liftFlat (interFlat_exact f g ha hb)
      have : interRef (.flat f) (.flat g) = liftFlat (interFlat f g) := rfl
      rw [this, ho'] at h; cases h
      exact fun x hx => (hd x).mp hx
    | polygon P =>
      cases f with
      | point p => exact sub (interPointPolygon_typed p P o h) (by simp)
      | line l => exact sub (interLinePolygon_typed l P o h) (by simp)
      | plane pl => exact sub (interPlanePolygon_typed pl P o h) (by simp)
      | seg s => exact sub (interSegPolygon_typed s P o h) (by simp)
      | halfline hl => exact sub (interPolygonHalfLine_typed P hl o h) (by simp)
    | polyhedron B =>
      cases f with
      | point p => exact sub (interPointPolyhedron_typed p B o h) (by simp)
      | line l => exact sub (interLinePolyhedron_typed l B o h) (by simp)
      | plane pl => exact sub (interPlanePolyhedron_typed pl B o h) (by simp)
      | seg s => exact sub (interSegPolyhedron_typed s B o h) (by simp)
      | halfline hl => exact sub (interPolyhedronHalfLine_typed B hl o h) (by simp)
  | polygon P =>
    cases b with
    | flat g =>
      cases g with
      | point p => exact sub (interPointPolygon_typed p P o h) (by simp)
      | line l => exact sub (interLinePolygon_typed l P o h) (by simp)
      | plane pl => exact sub (interPlanePolygon_typed pl P o h) (by simp)
      | seg s => exact sub (interSegPolygon_typed s P o h) (by simp)
      | halfline hl => exact sub (interPolygonHalfLine_typed P hl o h) (by simp)
    | polygon Q => exact sub (interPolygonPolygon_typed P Q o h) (by simp)
    | polyhedron B => exact sub (interPolygonPolyhedron_typed B P o h) (by simp)
  | polyhedron A =>
    cases b with
    | flat g =>
      cases g with
      | point p => exact sub (interPointPolyhedron_typed p A o h) (by simp)
      | line l => exact sub (interLinePolyhedron_typed l A o h) (by simp)
      | plane pl => exact sub (interPlanePolyhedron_typed pl A o h) (by simp)
      | seg s => exact sub (interSegPolyhedron_typed s A o h) (by simp)
      | halfline hl => exact sub (interPolyhedronHalfLine_typed A hl o h) (by simp)
    | polygon Q => exact sub (interPolygonPolyhedron_typed A Q o h) (by simp)
    | polyhedron B => exact sub (interPolyhedronPolyhedron_typed A B o h) (by simp)
#print axioms interRef_result_subset

end G3D
