import G3D.Proofs.TolGeoSeg

/-! C19, "intersect as coincident": which tolerance predicate selects the coincident branch of each handler of
    calc/intersection.py, and that eps/1000-perturbed copies take it.

    * `inter_line_line` (266-299): `if l1 == l2: return l1`  — `Line.__eq__`, i.e. `Line.eqT`.
    * `inter_plane_plane` (447-473): `if a == b: return a` — `Plane.__eq__`, i.e. `Plane.eqT`
      (then `a.n.parallel(b.n)` → None, else the common line).
    * `inter_segment_segment` (567-603): `if a.line == b.line` — `Line.eqT` on the carrier lines, then the four
      `Point in Segment` tests (`Segment.containsT`) collect the end points.
    * `inter_halfline_halfline` (919-956): `if a.line == b.line: if a in b: return a` — `Line.eqT` and
      `HalfLine.containsHL`. -/
namespace G3D.TolGeo
open R3

/-- (d) **Line × Line**: perturbed copies take the coincident branch (the handler returns `l1`), in both orders -/
theorem interLineLine_coincident {eps : ℝ} {l l' : Line} (heps : 0 < eps)
    (hsv : closeBy (eps / 1000) l.sv l'.sv) (hdv : closeBy (eps / 1000) l.dv l'.dv) :
    interLineLineBranch eps l l' = .coincident ∧ interLineLineBranch eps l' l = .coincident := by
  have h := Line.eqT_of_close heps hsv hdv
  unfold interLineLineBranch
  rw [if_pos h.1, if_pos h.2]
  exact ⟨rfl, rfl⟩

/-- the same with the perturbation eps/100 -/
theorem interLineLine_coincident100 {eps : ℝ} {l l' : Line} (heps : 0 < eps)
    (hsv : closeBy (eps / 100) l.sv l'.sv) (hdv : closeBy (eps / 100) l.dv l'.dv) :
    interLineLineBranch eps l l' = .coincident ∧ interLineLineBranch eps l' l = .coincident := by
  have hlt : eps / 100 < eps := by linarith
  have h := Line.eqT_of_close_gen hlt hlt hsv hdv
  unfold interLineLineBranch
  rw [if_pos h.1, if_pos h.2]
  exact ⟨rfl, rfl⟩

/-- conversely the coincident branch is taken ONLY when `Line.__eq__` holds -/
theorem interLineLine_coincident_iff {eps : ℝ} {l l' : Line} :
    interLineLineBranch eps l l' = .coincident ↔ Line.eqT eps l l' := by
  unfold interLineLineBranch
  constructor
  · intro h
    by_contra hn
    rw [if_neg hn] at h
    exact LLBranch.noConfusion h
  · intro h; rw [if_pos h]

/-- (d) **Plane × Plane**: perturbed copies (point and raw normal, `|r| ≥ 1/8`) take the coincident branch -/
theorem interPlanePlane_coincident {eps : ℝ} {p p' r r' : R3} (heps : 0 < eps) (heps1 : eps ≤ 1)
    (hp : closeBy (eps / 1000) p p') (hr : closeBy (eps / 1000) r r') (hrr : 1 / 64 ≤ dot r r) :
    interPlanePlaneBranch eps (Plane.ofPN p r) (Plane.ofPN p' r') = .coincident ∧
    interPlanePlaneBranch eps (Plane.ofPN p' r') (Plane.ofPN p r) = .coincident := by
  have h := Plane.eqT_of_close heps heps1 hp hr hrr
  unfold interPlanePlaneBranch
  rw [if_pos h.1, if_pos h.2]
  exact ⟨rfl, rfl⟩

theorem interPlanePlane_coincident_iff {eps : ℝ} {a b : Plane} :
    interPlanePlaneBranch eps a b = .coincident ↔ Plane.eqT eps a b := by
  unfold interPlanePlaneBranch
  constructor
  · intro h
    by_contra hn
    rw [if_neg hn] at h
    by_cases hp : parallelT eps a.n b.n
    · rw [if_pos hp] at h; exact PPBranch.noConfusion h
    · rw [if_neg hp] at h; exact PPBranch.noConfusion h
  · intro h; rw [if_pos h]

/-- (d) **Segment × Segment**: for perturbed copies (`|e − s| ≥ 1/8`) the collinear branch is taken and all four end-point
    membership tests succeed, so the collected set consists of the four end points (two eps/1000-close pairs). -/
theorem interSegSeg_coincident {eps : ℝ} {S S' : Segment} (heps : 0 < eps) (heps1 : eps ≤ 1)
    (hs : closeBy (eps / 1000) S.s S'.s) (he : closeBy (eps / 1000) S.e S'.e)
    (hd : 1 / 64 ≤ dot (sub S.e S.s) (sub S.e S.s)) :
    segSegCollinearBranch eps S S' ∧ segSegAllEndpointsCollected eps S S' := by
  have h2 : 2 * (eps / 1000) < eps := by linarith
  have h1 : eps / 1000 < eps := by linarith
  have hdv := hs.sub he
  have hd' : 1 / 100 ≤ dot (sub S'.e S'.s) (sub S'.e S'.s) := dot_self_ge_of_close (by linarith) hdv hd
  have hd0 : 1 / 100 ≤ dot (sub S.e S.s) (sub S.e S.s) := by linarith
  refine ⟨(Line.eqT_of_close_gen (l := S.line) (l' := S'.line) h1 h2 hs hdv).1, ?_, ?_, ?_, ?_⟩
  · have := Segment.containsT_of_close (t := 0) heps heps1 hs he hd0 le_rfl (by norm_num) (Or.inl rfl)
    have e : add S.s (smul 0 (sub S.e S.s)) = S.s := by ext <;> simp [add, smul]
    rwa [e] at this
  · have := Segment.containsT_of_close (t := 1) heps heps1 hs he hd0 (by norm_num) le_rfl
      (Or.inr (by linarith))
    have e : add S.s (smul 1 (sub S.e S.s)) = S.e := by ext <;> simp [add, smul, sub]
    rwa [e] at this
  · have := Segment.containsT_of_close (t := 0) heps heps1 hs.symm he.symm hd' le_rfl (by norm_num) (Or.inl rfl)
    have e : add S'.s (smul 0 (sub S'.e S'.s)) = S'.s := by ext <;> simp [add, smul]
    rwa [e] at this
  · have := Segment.containsT_of_close (t := 1) heps heps1 hs.symm he.symm hd' (by norm_num) le_rfl
      (Or.inr (by linarith))
    have e : add S'.s (smul 1 (sub S'.e S'.s)) = S'.e := by ext <;> simp [add, smul, sub]
    rwa [e] at this

/-- (d) **HalfLine × HalfLine**: for perturbed copies the handler takes `a.line == b.line` and then `a in b`, returning `a` -/
theorem interHlHl_coincident {eps : ℝ} {H H' : HalfLine} (heps : 0 < eps) (heps1 : eps ≤ 1)
    (hp : closeBy (eps / 1000) H.p H'.p) (hv : closeBy (eps / 1000) H.v H'.v)
    (hvv : 1 / 100 ≤ dot H.v H.v) (hM : |H.v.x| ≤ 300 ∧ |H.v.y| ≤ 300 ∧ |H.v.z| ≤ 300) :
    hlHlReturnsFirst eps H H' ∧ hlHlReturnsFirst eps H' H := by
  have hl := Line.eqT_of_close (l := H.line) (l' := H'.line) heps hp hv
  have hc := HalfLine.containsHL_of_close heps heps1 hp hv hvv hM
  exact ⟨⟨hl.1, hc.1⟩, ⟨hl.2, hc.2⟩⟩

end G3D.TolGeo
