import G3D.Proofs.CtorLists

/-! C09, polyhedron constructor: the result does not depend on the orientation of the input polygons nor on their
    order.

    `B0` is a `Polyhedron.Valid` body (faces outward).  The input is obtained from `B0.faces` by reordering and by
    replacing each face `f` by ANY valid polygon `g` on the same vertex set (`Reoriented f g`; this covers a rotated
    cycle, the polygon `-f`, and any rotation of it).  Then `ConvexPolyhedron(input)` succeeds (Euler's formula being
    assumed for `B0` in the constructor's own counting), every stored face is the outward copy of the corresponding
    face of `B0` (`OutwardCopy`: same supporting plane and outward direction, vertex cycle a rotation), the vertex list
    is a permutation of that of `B0`, the edge list represents exactly the undirected edges of `B0`, and the
    result is `Polyhedron.Valid`. -/
namespace G3D
open V3

/-! ### small list helpers -/
theorem Forall₂.exists_right {α β : Type} {R : α → β → Prop} {l1 : List α} {l2 : List β}
    (h : List.Forall₂ R l1 l2) : ∀ a ∈ l1, ∃ b ∈ l2, R a b := by
  induction h with
  | nil => intro a ha; cases ha
  | cons hab _ ih =>
    intro a ha
    rcases List.mem_cons.mp ha with rfl | ha
    · exact ⟨_, by simp, hab⟩
    · obtain ⟨b, hb, hr⟩ := ih a ha
      exact ⟨b, List.mem_cons_of_mem _ hb, hr⟩

theorem Forall₂.exists_left {α β : Type} {R : α → β → Prop} {l1 : List α} {l2 : List β}
    (h : List.Forall₂ R l1 l2) : ∀ b ∈ l2, ∃ a ∈ l1, R a b := by
  induction h with
  | nil => intro b hb; cases hb
  | cons hab _ ih =>
    intro b hb
    rcases List.mem_cons.mp hb with rfl | hb
    · exact ⟨_, by simp, hab⟩
    · obtain ⟨a, ha, hr⟩ := ih b hb
      exact ⟨a, List.mem_cons_of_mem _ ha, hr⟩

theorem Forall₂.imp_mem {α β : Type} {R S : α → β → Prop} {l1 : List α} {l2 : List β}
    (h : List.Forall₂ R l1 l2) : (∀ a ∈ l1, ∀ b ∈ l2, R a b → S a b) → List.Forall₂ S l1 l2 := by
  induction h with
  | nil => intro _; exact List.Forall₂.nil
  | cons hab _ ih =>
    intro himp
    exact List.Forall₂.cons (himp _ (by simp) _ (by simp) hab)
      (ih (fun a ha b hb => himp a (List.mem_cons_of_mem _ ha) b (List.mem_cons_of_mem _ hb)))

theorem Forall₂.map_right {α β γ : Type} {R : α → γ → Prop} (g : β → γ) {l1 : List α} {l2 : List β}
    (h : List.Forall₂ (fun a b => R a (g b)) l1 l2) : List.Forall₂ R l1 (l2.map g) := by
  induction h with
  | nil => exact List.Forall₂.nil
  | cons hab _ ih => exact List.Forall₂.cons hab ih

theorem Forall₂.map_self {α β : Type} {R : α → β → Prop} (g : α → β) (l : List α)
    (h : ∀ a ∈ l, R a (g a)) : List.Forall₂ R l (l.map g) := by
  induction l with
  | nil => exact List.Forall₂.nil
  | cons a l ih =>
    exact List.Forall₂.cons (h a (by simp)) (ih (fun b hb => h b (List.mem_cons_of_mem _ hb)))

/-! ### a convex cycle is determined by its vertex set up to rotation -/
theorem triplesPos_smul_pos (k : Rat) (hk : 0 < k) (n : V3) (l : List V3) :
    triplesPos (smul k n) l ↔ triplesPos n l := by
  rw [triplesPos_iff_sublist, triplesPos_iff_sublist]
  constructor
  · intro h a b c hs
    have := h a b c hs
    rw [orient_smul'] at this
    exact (pos_iff_pos_of_mul_pos this).mp hk
  · intro h a b c hs
    rw [orient_smul']
    exact mul_pos hk (h a b c hs)

/-- **uniqueness of the counter-clockwise cycle**: two positively oriented (about the same normal) vertex cycles on
    the same vertex set are rotations of each other -/
theorem cycle_unique (n : V3) (l l' : List V3) (hl : 3 ≤ l.length) (hl' : 3 ≤ l'.length)
    (h : triplesPos n l) (h' : triplesPos n l') (hmem : ∀ p, p ∈ l' ↔ p ∈ l) :
    ∃ l1 l2, l = l1 ++ l2 ∧ l' = l2 ++ l1 := by
  have hnd := (triplesPos_nodup_exposed n l hl h).1
  have hnd' := (triplesPos_nodup_exposed n l' hl' h').1
  cases l with
  | nil => simp at hl
  | cons a t =>
    have ha : a ∈ l' := (hmem a).mpr (by simp)
    obtain ⟨s, u, rfl⟩ := List.append_of_mem ha
    have hrot : triplesPos n (a :: u ++ s) := triplesPos_rotate n s (a :: u) h'
    have hperm : List.Perm (a :: (u ++ s)) (a :: t) := by
      have h1 : List.Perm (a :: (u ++ s)) (s ++ a :: u) := by
        have : a :: (u ++ s) = (a :: u) ++ s := rfl
        rw [this]; exact List.perm_append_comm
      refine h1.trans ?_
      rw [List.perm_ext_iff_of_nodup hnd' hnd]
      exact hmem
    have hpt : List.Perm (u ++ s) t := hperm.cons_inv
    have hR1 : (u ++ s).Pairwise (fun x y => 0 < orient n a x y) :=
      List.pairwise_of_forall_sublist (fun {x y} hs => hrot.1 x y hs)
    have hR2 : t.Pairwise (fun x y => 0 < orient n a x y) :=
      List.pairwise_of_forall_sublist (fun {x y} hs => h.1 x y hs)
    have heq : u ++ s = t :=
      eq_of_perm_of_pairwise_asymm _ (fun x y h1 h2 => by rw [orient_swap23] at h2; linarith) _ _ hR1 hR2 hpt
    exact ⟨a :: u, s, by rw [← heq]; rfl, rfl⟩
#print axioms cycle_unique

/-! ### two valid polygons on the same vertices: the planes coincide -/
theorem Polygon.side_eq_neg_planeTest (f : Polygon) (hc : G3D.inPlane f.plane.n f.plane.p f.center = true) (x : V3) :
    dot (sub f.plane.p x) f.plane.n = - f.side x := by
  simp only [G3D.inPlane, beq_iff_eq] at hc
  simp only [Polygon.side, dot, sub] at hc ⊢
  linarith

/-- a valid polygon `g` whose plane contains the vertices of the valid polygon `f` has a parallel normal -/
theorem normal_parallel (f g : Polygon) (hf : f.Valid) (hg : g.Valid) (hsub : ∀ p ∈ f.pts, p ∈ g.pts) :
    ∃ k : Rat, k ≠ 0 ∧ g.plane.n = smul k f.plane.n := by
  have hnF : f.plane.n ≠ zero := Polygon.plane_WF f hf
  have hnG : g.plane.n ≠ zero := Polygon.plane_WF g hg
  obtain ⟨p0, p1, p2, rest, hp, hpl, htp⟩ := hf
  obtain ⟨_, _, _, _, _, hplg, _⟩ := hg
  have hm0 : p0 ∈ f.pts := by rw [hp]; simp
  have hm1 : p1 ∈ f.pts := by rw [hp]; simp
  have hm2 : p2 ∈ f.pts := by rw [hp]; simp
  have hD : 0 < orient f.plane.n p0 p1 p2 := by rw [hp] at htp; exact htp.1 p1 p2 (by simp)
  have hN : cross (sub p1 p0) (sub p2 p0) ≠ zero := by
    intro hz
    have : orient f.plane.n p0 p1 p2 = dot f.plane.n (cross (sub p1 p0) (sub p2 p0)) := rfl
    rw [this, hz] at hD; simp [dot, zero] at hD
  have nFu := inPlane_diff (hpl _ hm0) (hpl _ hm1)
  have nFw := inPlane_diff (hpl _ hm0) (hpl _ hm2)
  have nGu := inPlane_diff (hplg _ (hsub _ hm0)) (hplg _ (hsub _ hm1))
  have nGw := inPlane_diff (hplg _ (hsub _ hm0)) (hplg _ (hsub _ hm2))
  obtain ⟨k1, hk1⟩ := parallel_of_perp _ _ g.plane.n hN nGu nGw
  obtain ⟨k2, hk2⟩ := parallel_of_perp _ _ f.plane.n hN nFu nFw
  have hk2ne : k2 ≠ 0 := smul_ne_zero_left (by rw [← hk2]; exact hnF)
  have hk1ne : k1 ≠ 0 := smul_ne_zero_left (by rw [← hk1]; exact hnG)
  refine ⟨k1 / k2, div_ne_zero hk1ne hk2ne, ?_⟩
  rw [hk1]; conv_rhs => rw [hk2]
  apply V3.ext' <;> simp only [smul] <;> field_simp

/-- with parallel normals and a common vertex the two face functionals and the two `_check_normal` values are
    proportional -/
theorem side_proportional (f g : Polygon) (k : Rat) (hn : g.plane.n = smul k f.plane.n)
    (hcf : G3D.inPlane f.plane.n f.plane.p f.center = true)
    (hcg : G3D.inPlane g.plane.n g.plane.p g.center = true)
    (p0 : V3) (hf0 : G3D.inPlane f.plane.n f.plane.p p0 = true) (hg0 : G3D.inPlane g.plane.n g.plane.p p0 = true) :
    (∀ x, g.side x = k * f.side x) ∧
    (∀ x, dot (sub g.plane.p x) g.plane.n = k * dot (sub f.plane.p x) f.plane.n) := by
  have hF0 : f.side p0 = 0 := (f.side_zero_inPlane hcf p0).mpr hf0
  have hG0 : g.side p0 = 0 := (g.side_zero_inPlane hcg p0).mpr hg0
  have hside : ∀ x, g.side x = k * f.side x := by
    intro x
    have e1 : g.side x = g.side x - g.side p0 := by rw [hG0]; ring
    have e2 : f.side x = f.side x - f.side p0 := by rw [hF0]; ring
    rw [e1, e2]
    simp only [Polygon.side, hn, dot, sub, smul]; ring
  refine ⟨hside, ?_⟩
  intro x
  rw [g.side_eq_neg_planeTest hcg, f.side_eq_neg_planeTest hcf, hside]; ring

/-! ### the relations between an input polygon, the face of `B0` it came from, and the stored face -/
/-- `g` is a valid polygon on the vertex set of `f` (any orientation, any starting vertex), stored centre in its
    plane -/
structure Reoriented (f g : Polygon) : Prop where
  valid : g.Valid
  center : G3D.inPlane g.plane.n g.plane.p g.center = true
  same_verts : ∀ p, p ∈ g.pts ↔ p ∈ f.pts

/-- `h` is `f` up to the starting vertex of the cycle and positive rescaling of the normal: valid, same supporting
    plane and same outward direction, vertex cycle a rotation of that of `f` -/
structure OutwardCopy (f h : Polygon) : Prop where
  valid : h.Valid
  center : G3D.inPlane h.plane.n h.plane.p h.center = true
  samePlane : SamePlane f h
  rot : ∃ l1 l2, f.pts = l1 ++ l2 ∧ h.pts = l2 ++ l1

theorem OutwardCopy.closedPairs_perm {f h : Polygon} (hc : OutwardCopy f h) :
    List.Perm (closedPairs h.pts) (closedPairs f.pts) := by
  obtain ⟨l1, l2, e1, e2⟩ := hc.rot
  rw [e1, e2]; exact closedPairs_rotate l2 l1

theorem OutwardCopy.mem_iff {f h : Polygon} (hc : OutwardCopy f h) (p : V3) : p ∈ h.pts ↔ p ∈ f.pts := by
  obtain ⟨l1, l2, e1, e2⟩ := hc.rot
  rw [e1, e2]; simp [or_comm]

/-- concrete form 1 of the task: a rotated cycle with a positively rescaled normal -/
theorem Reoriented.of_rotation (f g : Polygon) (hg : g.Valid)
    (hcg : G3D.inPlane g.plane.n g.plane.p g.center = true)
    (hrot : ∃ l1 l2, f.pts = l1 ++ l2 ∧ g.pts = l2 ++ l1) : Reoriented f g := by
  obtain ⟨l1, l2, e1, e2⟩ := hrot
  exact ⟨hg, hcg, fun p => by rw [e1, e2]; simp [or_comm]⟩

/-- concrete form 2 of the task: `g` is what `-f` returns -/
theorem Reoriented.of_neg (f g : Polygon) (hf : f.Valid) (h : f.neg? = .ok g) : Reoriented f g := by
  obtain ⟨Q, q0, rest, hp, hQ, hvQ, hQp, hQpl, hQc, t, ht, hQn⟩ := Polygon.neg?_of_valid f hf
  rw [h] at hQ; cases hQ
  have hvQ' := hvQ
  obtain ⟨_, _, _, _, _, hplg, _⟩ := hvQ'
  refine ⟨hvQ, ?_, fun p => by rw [hQp, hp]; simp⟩
  have hne : f.pts ≠ [] := by rw [hp]; simp
  have := meanV_inplane g.plane.n g.plane.p f.pts hne (by
    intro p hpm
    have hpg : p ∈ g.pts := by rw [hQp]; rw [hp] at hpm; simpa using hpm
    simpa [G3D.inPlane] using hplg p hpg)
  rw [hQc]; simpa [G3D.inPlane] using this

/-- a re-oriented copy whose normal is a POSITIVE multiple of that of `f` is an outward copy of `f`, and it passes
    the constructor's `_check_normal` strictly for every point `c` strictly inside the half-space of `f` -/
theorem outwardCopy_of_pos (f g : Polygon) (hf : f.Valid) (hcf : G3D.inPlane f.plane.n f.plane.p f.center = true)
    (hr : Reoriented f g) (k : Rat) (hk : 0 < k) (hn : g.plane.n = smul k f.plane.n) :
    OutwardCopy f g ∧ ∀ c, f.side c < 0 → 0 < dot (sub g.plane.p c) g.plane.n := by
  have hg := hr.valid
  obtain ⟨p0, p1, p2, rest, hp, hpl, htp⟩ := hf
  obtain ⟨q0, q1, q2, qrest, hq, hplg, htpg⟩ := hg
  have hm0 : p0 ∈ f.pts := by rw [hp]; simp
  obtain ⟨hside, htest⟩ := side_proportional f g k hn hcf hr.center p0 (hpl _ hm0)
    (hplg _ ((hr.same_verts p0).mpr hm0))
  refine ⟨⟨hr.valid, hr.center, ⟨k, hk, hn, hside⟩, ?_⟩, ?_⟩
  · apply cycle_unique f.plane.n f.pts g.pts (by rw [hp]; simp) (by rw [hq]; simp) htp _ hr.same_verts
    rw [hn] at htpg
    exact (triplesPos_smul_pos k hk _ _).mp htpg
  · intro c hc
    rw [htest, f.side_eq_neg_planeTest hcf]
    exact mul_pos hk (by linarith)

theorem Plane.not_contains_of_test_ne (pl : Plane) (c : V3) (h : dot (sub pl.p c) pl.n ≠ 0) :
    ¬ pl.contains c = true := by
  intro hc
  simp only [Plane.contains, beq_iff_eq] at hc
  apply h
  simp only [dot, sub] at hc ⊢
  linarith

/-- **the flip test is correct.**  Let `f` be a valid face, `c` strictly on its inner side, `g` any valid polygon on
    the vertex set of `f`.  Then the constructor loop succeeds on `g`; it flips `g` exactly when the normal of `g`
    is a negative multiple of the outward normal of `f`; the stored face is an outward copy of `f` that passes
    `_check_normal` strictly; and `g` has the undirected edges of `f`. -/
theorem orientFace_reoriented (f g : Polygon) (hf : f.Valid)
    (hcf : G3D.inPlane f.plane.n f.plane.p f.center = true) (hr : Reoriented f g) (c : V3) (hc : f.side c < 0) :
    orientFace c g = .ok (flipOf c g, (g, c)) ∧ OutwardCopy f (flipOf c g) ∧
    0 < dot (sub (flipOf c g).plane.p c) (flipOf c g).plane.n ∧
    ((flipOf c g = g ∧ ∃ k : Rat, 0 < k ∧ g.plane.n = smul k f.plane.n) ∨
     (g.neg? = .ok (flipOf c g) ∧ ∃ k : Rat, k < 0 ∧ g.plane.n = smul k f.plane.n)) ∧
    (∀ e, e ∈ closedPairs g.pts → e ∈ closedPairs f.pts ∨ (e.2, e.1) ∈ closedPairs f.pts) ∧
    (∀ e, e ∈ closedPairs f.pts → e ∈ closedPairs g.pts ∨ (e.2, e.1) ∈ closedPairs g.pts) := by
  obtain ⟨k, hk0, hn⟩ := normal_parallel f g hf hr.valid (fun p hp => (hr.same_verts p).mpr hp)
  have hfV := hf
  obtain ⟨p0, p1, p2, rest, hp, hpl, htp⟩ := hf
  have hm0 : p0 ∈ f.pts := by rw [hp]; simp
  have hgV := hr.valid
  obtain ⟨_, _, _, _, _, hplg, _⟩ := hgV
  obtain ⟨hside, htest⟩ := side_proportional f g k hn hcf hr.center p0 (hpl _ hm0)
    (hplg _ ((hr.same_verts p0).mpr hm0))
  have htv : dot (sub g.plane.p c) g.plane.n = k * (- f.side c) := by
    rw [htest, f.side_eq_neg_planeTest hcf]
  rcases lt_or_gt_of_ne hk0 with hneg | hpos
  · -- wrongly oriented: flipped
    have hlt : dot (sub g.plane.p c) g.plane.n < 0 := by
      rw [htv]; exact mul_neg_of_neg_of_pos hneg (by linarith)
    obtain ⟨Q, q0, qrest, hgp, hQ, hvQ, hQp, hQpl, hQc, t, ht, hQn⟩ := Polygon.neg?_of_valid g hr.valid
    have hflip : flipOf c g = Q := by unfold flipOf; rw [if_pos hlt, hQ]
    have hrQ : Reoriented f Q := by
      have h1 := Reoriented.of_neg g Q hr.valid hQ
      exact ⟨h1.valid, h1.center, fun p => (h1.same_verts p).trans (hr.same_verts p)⟩
    have hnQ : Q.plane.n = smul (-(t * k)) f.plane.n := by
      rw [hQn, hn]; apply V3.ext' <;> simp only [smul, neg] <;> ring
    have hκ : 0 < -(t * k) := by nlinarith
    obtain ⟨hoc, hchk⟩ := outwardCopy_of_pos f Q hfV hcf hrQ _ hκ hnQ
    have hnc : ¬ g.plane.contains c = true := Plane.not_contains_of_test_ne _ _ (ne_of_lt hlt)
    have hperm1 := closedPairs_cons_reverse q0 qrest
    have hperm2 := hoc.closedPairs_perm
    rw [hQp] at hperm2
    have hor := orientFace_intro c g hnc (fun _ => ⟨Q, hQ⟩)
    rw [hflip] at hor ⊢
    refine ⟨hor, hoc, hchk c hc,
      Or.inr ⟨hQ, k, hneg, hn⟩, ?_, ?_⟩
    · intro e he
      right
      rw [hgp] at he
      have : (e.2, e.1) ∈ (closedPairs (q0 :: qrest)).map Prod.swap :=
        List.mem_map.mpr ⟨e, he, rfl⟩
      exact hperm2.mem_iff.mp (hperm1.mem_iff.mpr this)
    · intro e he
      right
      have h1 := hperm1.mem_iff.mp (hperm2.mem_iff.mpr he)
      obtain ⟨e', he', hsw⟩ := List.mem_map.mp h1
      rw [hgp]
      have : e' = (e.2, e.1) := by rw [← hsw]; rfl
      rw [← this]; exact he'
  · -- correctly oriented: kept
    have hgt : 0 < dot (sub g.plane.p c) g.plane.n := by
      rw [htv]; exact mul_pos hpos (by linarith)
    have hflip : flipOf c g = g := by unfold flipOf; rw [if_neg (not_lt.mpr (le_of_lt hgt))]
    obtain ⟨hoc, hchk⟩ := outwardCopy_of_pos f g hfV hcf hr k hpos hn
    have hnc : ¬ g.plane.contains c = true := Plane.not_contains_of_test_ne _ _ (ne_of_gt hgt)
    have hperm := hoc.closedPairs_perm
    have hor := orientFace_intro c g hnc (fun h => absurd h (not_lt.mpr (le_of_lt hgt)))
    rw [hflip] at hor ⊢
    refine ⟨hor, hoc, hgt, Or.inl ⟨rfl, k, hpos, hn⟩, ?_, ?_⟩
    · intro e he; exact Or.inl (hperm.mem_iff.mp he)
    · intro e he; exact Or.inl (hperm.mem_iff.mpr he)
#print axioms orientFace_reoriented

/-! ### the vertex mean of a valid body is strictly inside -/
theorem zipWith_side_sum (f : Polygon) : ∀ (ws : List Rat) (ps : List V3), ws.length = ps.length →
    f.side (comb ws ps) = (List.zipWith (fun w p => w * f.side p) ws ps).sum + (1 - ws.sum) * f.side zero := by
  intro ws
  induction ws with
  | nil =>
    intro ps h; cases ps
    · simp [comb, Polygon.side, dot, sub, zero]
    · simp at h
  | cons w ws ih =>
    intro ps h
    cases ps with
    | nil => simp at h
    | cons p ps =>
      have := ih ps (by simpa using h)
      simp only [List.zipWith_cons_cons, List.sum_cons, comb]
      have e : f.side (add (smul w p) (comb ws ps)) = w * f.side p + f.side (comb ws ps) - w * f.side zero
          + 0 := by
        simp only [Polygon.side, dot, sub, add, smul, zero]; ring
      rw [e, this]; ring

/-- some face vertex lies strictly inside the half-space of any given face, hence so does the mean of the
    (duplicate-free) list of face vertices: the centre the constructor computes is an interior point -/
theorem Polyhedron.Valid.mean_interior {B0 : Polyhedron} (hV : B0.Valid) :
    ∀ f ∈ B0.faces, f.side (meanV (collectVerts B0.faces)) < 0 := by
  intro f hf
  -- the same body with the vertex list replaced by the list of face vertices is valid
  set B1 : Polyhedron := ⟨B0.faces, collectVerts B0.faces, B0.edges, B0.pyramids, B0.center⟩ with hB1
  have hsubV : ∀ v ∈ collectVerts B0.faces, v ∈ B0.verts := by
    intro v hv
    obtain ⟨g, hg, hvg⟩ := (mem_collectVerts _ v).mp hv
    exact hV.pts_sub g hg v hvg
  have hV1 : B1.Valid :=
    ⟨hV.nonempty, hV.faces_valid, hV.center_in_plane,
      fun g hg p hp => (mem_collectVerts _ p).mpr ⟨g, hg, hp⟩,
      fun g hg v hv => hV.verts_inside g hg v (hsubV v hv), hV.closed, hV.interior⟩
  obtain ⟨o, ho⟩ := hV.interior
  have hco : B1.contains o = true := (B1.contains_iff_side o).mpr (fun g hg => le_of_lt (ho g hg))
  obtain ⟨ws, hlen, hnn, hsum, hcomb⟩ := B1.contains_subset_hull hV1 o hco
  have hle : ∀ v ∈ collectVerts B0.faces, f.side v ≤ 0 := fun v hv => hV.verts_inside f hf v (hsubV v hv)
  have hex : ∃ v ∈ collectVerts B0.faces, f.side v < 0 := by
    by_contra hcon
    have hge : ∀ v ∈ collectVerts B0.faces, 0 ≤ f.side v := by
      intro v hv
      by_contra hlt
      exact hcon ⟨v, hv, not_le.mp hlt⟩
    have h1 := zipWith_side_sum f ws (collectVerts B0.faces) hlen
    have hcomb' : comb ws (collectVerts B0.faces) = o := hcomb
    rw [hcomb', hsum] at h1
    have h2 := sum_zipWith_nonneg ws (collectVerts B0.faces) (fun p => f.side p) hnn hge
    have := ho f hf
    linarith
  -- the mean
  have hne : collectVerts B0.faces ≠ [] := by
    obtain ⟨v, hv, _⟩ := hex
    intro h0; rw [h0] at hv; cases hv
  have hlenpos : (0 : Rat) < (collectVerts B0.faces).length := by
    have : 0 < (collectVerts B0.faces).length := List.length_pos_iff.mpr hne
    exact_mod_cast this
  have hs : ∀ x, f.side x = dot f.plane.n x - dot f.plane.n f.center := by
    intro x; simp only [Polygon.side, dot, sub]; ring
  rw [hs, dot_meanV]
  have hlt := sum_map_lt (dot f.plane.n) (dot f.plane.n f.center) (collectVerts B0.faces)
    (fun q hq => by have := hle q hq; rw [hs] at this; linarith)
    (by obtain ⟨v, hv, hvl⟩ := hex; exact ⟨v, hv, by rw [hs] at hvl; linarith⟩)
  rw [sub_neg, div_lt_iff₀ hlenpos]
  linarith
#print axioms Polyhedron.Valid.mean_interior

/-! ### valid faces never make `collectEdges` fail -/
theorem Polygon.Valid.edges_distinct {P : Polygon} (hv : P.Valid) : ∀ e ∈ closedPairs P.pts, e.1 ≠ e.2 := by
  obtain ⟨p0, p1, p2, rest, hp, _, htp⟩ := hv
  intro e he
  rw [hp] at htp he
  exact edge_ne P.plane.n p0 p1 p2 rest htp e he

theorem collectEdges_of_valid (fs : List Polygon) (h : ∀ f ∈ fs, f.Valid) :
    collectEdges fs [] = .ok (edgesOf fs []) :=
  (collectEdges_ok_iff fs [] _).mpr ⟨rfl, fun f hf => (h f hf).edges_distinct⟩

/-! ### directed edges of face lists -/
theorem dirEdges_perm_of_forall₂ : ∀ (F H : List Polygon),
    List.Forall₂ (fun f h => List.Perm (closedPairs h.pts) (closedPairs f.pts)) F H →
    List.Perm (dirEdges (H.map (·.pts))) (dirEdges (F.map (·.pts))) := by
  intro F H h
  induction h with
  | nil => exact List.Perm.refl _
  | cons hab _ ih =>
    simp only [dirEdges, List.map_cons, List.flatMap_cons] at ih ⊢
    exact List.Perm.append hab ih

theorem dirEdges_perm_of_perm {F G : List Polygon} (h : List.Perm F G) :
    List.Perm (dirEdges (F.map (·.pts))) (dirEdges (G.map (·.pts))) := by
  induction h with
  | nil => exact List.Perm.refl _
  | cons x _ ih =>
    simp only [dirEdges, List.map_cons, List.flatMap_cons] at ih ⊢
    exact List.Perm.append_left _ ih
  | swap x y l =>
    simp only [dirEdges, List.map_cons, List.flatMap_cons]
    rw [← List.append_assoc, ← List.append_assoc]
    exact List.Perm.append_right _ List.perm_append_comm
  | trans _ _ ih1 ih2 => exact ih1.trans ih2

theorem closedSurface_of_perm {fs gs : List (List V3)} (h : List.Perm (dirEdges gs) (dirEdges fs))
    (hc : ClosedSurface fs) : ClosedSurface gs := by
  unfold ClosedSurface at hc ⊢
  exact (h.trans hc).trans (h.map Prod.swap).symm

/-! ### the main theorem -/
/-- **C09, orientation- and order-independence of `ConvexPolyhedron(...)`.**

    Hypotheses: `B0` is `Polyhedron.Valid` (faces outward); `F` is a reordering of `B0.faces`; `input[i]` is any valid
    polygon on the vertex set of `F[i]` with its centre in its plane (`Reoriented`); Euler's formula holds for
    `B0` in the constructor's counting (`hEuler`, an ASSUMPTION: number of distinct face vertices − number of
    undirected face edges + number of faces = 2; see `Polyhedron.mk?_reoriented_of_accepted` for the version where
    it is derived from "the constructor accepts `B0.faces`").

    Conclusion: the constructor succeeds; the result is `Valid` (in particular its directed edges form a closed
    surface); its centre is the mean of the face vertices of `B0` and lies strictly inside every face; face by face
    the stored face is the outward copy of `F[i]` and is `input[i]` or `-input[i]`; vertices and edges are those
    of `B0`. -/
theorem Polyhedron.mk?_reoriented (B0 : Polyhedron) (hV : B0.Valid) (F input : List Polygon)
    (hperm : List.Perm F B0.faces) (hrel : List.Forall₂ Reoriented F input)
    (hEuler : ((collectVerts B0.faces).length : Int) - (edgesOf B0.faces []).length + B0.faces.length = 2) :
    ∃ B, Polyhedron.mk? input = .ok B ∧ B.Valid ∧
      B.center = meanV (collectVerts B0.faces) ∧ B.center = meanV B.verts ∧
      List.Forall₂ OutwardCopy F B.faces ∧
      List.Forall₂ (fun g h => (h = g ∨ g.neg? = .ok h) ∧ (∀ p, p ∈ h.pts ↔ p ∈ g.pts) ∧
        0 < dot (sub h.plane.p B.center) h.plane.n) input B.faces ∧
      (∀ f ∈ B.faces, f.side B.center < 0) ∧
      List.Perm B.verts (collectVerts B0.faces) ∧ (∀ v, v ∈ B.verts ↔ ∃ f ∈ B0.faces, v ∈ f.pts) ∧
      (NoSame B.edges ∧ B.edges.length = (edgesOf B0.faces []).length ∧
        (∀ s ∈ B.edges, ∃ f ∈ B0.faces, ∃ e ∈ closedPairs f.pts, s = Seg.mk' e.1 e.2 ∨ s = Seg.mk' e.2 e.1) ∧
        (∀ f ∈ B0.faces, ∀ e ∈ closedPairs f.pts, ∃ s ∈ B.edges, s.same (Seg.mk' e.1 e.2) = true)) ∧
      ((B.verts.length : Int) - B.edges.length + B.faces.length = 2) ∧
      B.pyramids = input.map (fun g => (g, B.center)) := by
  -- correspondences
  have hFmem : ∀ f ∈ F, f ∈ B0.faces := fun f hf => hperm.mem_iff.mp hf
  have hin_to_F : ∀ g ∈ input, ∃ f ∈ B0.faces, Reoriented f g := by
    intro g hg
    obtain ⟨f, hf, hr⟩ := Forall₂.exists_left hrel g hg
    exact ⟨f, hFmem f hf, hr⟩
  have hF_to_in : ∀ f ∈ B0.faces, ∃ g ∈ input, Reoriented f g := by
    intro f hf
    exact Forall₂.exists_right hrel f (hperm.mem_iff.mpr hf)
  -- vertices
  have hvset : ∀ v, (∃ g ∈ input, v ∈ g.pts) ↔ (∃ f ∈ B0.faces, v ∈ f.pts) := by
    intro v
    constructor
    · rintro ⟨g, hg, hv⟩
      obtain ⟨f, hf, hr⟩ := hin_to_F g hg
      exact ⟨f, hf, (hr.same_verts v).mp hv⟩
    · rintro ⟨f, hf, hv⟩
      obtain ⟨g, hg, hr⟩ := hF_to_in f hf
      exact ⟨g, hg, (hr.same_verts v).mpr hv⟩
  have hvperm : List.Perm (collectVerts input) (collectVerts B0.faces) := collectVerts_perm _ _ hvset
  have hc : meanV (collectVerts input) = meanV (collectVerts B0.faces) := meanV_perm hvperm
  set c := meanV (collectVerts input) with hcdef
  have hint : ∀ f ∈ B0.faces, f.side c < 0 := by
    intro f hf; rw [hc]; exact hV.mean_interior f hf
  -- per face
  have hface : ∀ f ∈ B0.faces, ∀ g, Reoriented f g → _ := fun f hf g hr =>
    orientFace_reoriented f g (hV.faces_valid f hf) (hV.center_in_plane f hf) hr c (hint f hf)
  -- edges
  have huedges : SameUEdges input B0.faces := by
    constructor
    · intro g hg e he
      obtain ⟨f, hf, hr⟩ := hin_to_F g hg
      exact ⟨f, hf, (hface f hf g hr).2.2.2.2.1 e he⟩
    · intro f hf e he
      obtain ⟨g, hg, hr⟩ := hF_to_in f hf
      exact ⟨g, hg, (hface f hf g hr).2.2.2.2.2 e he⟩
  have helen : (edgesOf input []).length = (edgesOf B0.faces []).length := edgesOf_length_eq _ _ huedges
  have hflen : input.length = B0.faces.length := by rw [← hrel.length_eq, hperm.length_eq]
  -- the constructor call
  have hne : collectVerts input ≠ [] := by
    obtain ⟨f0, hf0⟩ := List.exists_mem_of_ne_nil _ hV.nonempty
    obtain ⟨p0, _, _, _, hp, _, _⟩ := hV.faces_valid f0 hf0
    have : p0 ∈ collectVerts B0.faces := (mem_collectVerts _ p0).mpr ⟨f0, hf0, by rw [hp]; simp⟩
    intro h0
    have := hvperm.mem_iff.mpr this
    rw [h0] at this; cases this
  have hmk := Polyhedron.mk?_intro input
    (fun g hg => by obtain ⟨f, _, hr⟩ := hin_to_F g hg; exact hr.valid.edges_distinct) hne
    (fun g hg => by obtain ⟨f, hf, hr⟩ := hin_to_F g hg; exact (hface f hf g hr).1)
    (fun g hg => by obtain ⟨f, hf, hr⟩ := hin_to_F g hg; exact le_of_lt (hface f hf g hr).2.2.1)
    (by rw [hvperm.length_eq, helen, hflen]; exact hEuler)
  refine ⟨_, hmk, ?_, hc, rfl, ?_, ?_, ?_, hvperm, ?_, ⟨edgesOf_noSame _ _ List.Pairwise.nil, helen, ?_, ?_⟩, ?_, rfl⟩
  · -- Valid
    have hcopies : List.Forall₂ OutwardCopy F (input.map (flipOf c)) :=
      Forall₂.map_right _ (Forall₂.imp_mem hrel (fun f hf g _ hr => (hface f (hFmem f hf) g hr).2.1))
    have hcopy_of : ∀ h ∈ input.map (flipOf c), ∃ f ∈ B0.faces, OutwardCopy f h := by
      intro h hh
      obtain ⟨f, hf, hoc⟩ := Forall₂.exists_left hcopies h hh
      exact ⟨f, hFmem f hf, hoc⟩
    refine ⟨?_, ?_, ?_, ?_, ?_, ?_, ⟨c, ?_⟩⟩
    · intro h0
      have h1 : (input.map (flipOf c)).length = 0 := by
        have : input.map (flipOf c) = [] := h0
        rw [this]; rfl
      rw [List.length_map, hflen] at h1
      exact hV.nonempty (List.length_eq_zero_iff.mp h1)
    · intro h hh; obtain ⟨f, _, hoc⟩ := hcopy_of h hh; exact hoc.valid
    · intro h hh; obtain ⟨f, _, hoc⟩ := hcopy_of h hh; exact hoc.center
    · intro h hh p hp
      obtain ⟨f, hf, hoc⟩ := hcopy_of h hh
      show p ∈ collectVerts input
      exact hvperm.mem_iff.mpr ((mem_collectVerts _ p).mpr ⟨f, hf, (hoc.mem_iff p).mp hp⟩)
    · intro h hh v hv
      obtain ⟨f, hf, hoc⟩ := hcopy_of h hh
      obtain ⟨k, hk, _, hside⟩ := hoc.samePlane
      have hv0 : v ∈ B0.verts := by
        obtain ⟨f', hf', hvf⟩ := (mem_collectVerts _ v).mp (hvperm.mem_iff.mp hv)
        exact hV.pts_sub f' hf' v hvf
      have h1 : f.side v ≤ 0 := hV.verts_inside f hf v hv0
      show h.side v ≤ 0
      rw [hside]
      exact mul_nonpos_of_nonneg_of_nonpos (le_of_lt hk) h1
    · show ClosedSurface ((input.map (flipOf c)).map (·.pts))
      have h1 := dirEdges_perm_of_forall₂ F (input.map (flipOf c))
        (hcopies.imp (fun f h hoc => hoc.closedPairs_perm))
      exact closedSurface_of_perm (h1.trans (dirEdges_perm_of_perm hperm)) hV.closed
    · intro h hh
      obtain ⟨f, hf, hoc⟩ := hcopy_of h hh
      obtain ⟨k, hk, _, hside⟩ := hoc.samePlane
      rw [hside]
      exact mul_neg_of_pos_of_neg hk (hint f hf)
  · exact Forall₂.map_right _ (Forall₂.imp_mem hrel (fun f hf g _ hr => (hface f (hFmem f hf) g hr).2.1))
  · apply Forall₂.map_self
    intro g hg
    obtain ⟨f, hf, hr⟩ := hin_to_F g hg
    obtain ⟨_, hoc, hpos, hcase, _, _⟩ := hface f hf g hr
    refine ⟨?_, fun p => (hoc.mem_iff p).trans (hr.same_verts p).symm, hpos⟩
    rcases hcase with ⟨h1, _⟩ | ⟨h1, _⟩
    · exact Or.inl h1
    · exact Or.inr h1
  · intro h hh
    obtain ⟨g, hg, rfl⟩ := List.mem_map.mp hh
    obtain ⟨f, hf, hr⟩ := hin_to_F g hg
    obtain ⟨_, hoc, _, _, _, _⟩ := hface f hf g hr
    obtain ⟨k, hk, _, hside⟩ := hoc.samePlane
    show (flipOf c g).side c < 0
    rw [hside]
    exact mul_neg_of_pos_of_neg hk (hint f hf)
  · intro v
    show v ∈ collectVerts input ↔ _
    rw [mem_collectVerts]; exact hvset v
  · intro s hs
    rcases edgesOf_mem input [] s hs with h' | ⟨g, hg, e, he, rfl⟩
    · cases h'
    · obtain ⟨f, hf, hr⟩ := hin_to_F g hg
      rcases (hface f hf g hr).2.2.2.2.1 e he with h1 | h1
      · exact ⟨f, hf, e, h1, Or.inl rfl⟩
      · exact ⟨f, hf, (e.2, e.1), h1, Or.inr rfl⟩
  · intro f hf e he
    obtain ⟨g, hg, hr⟩ := hF_to_in f hf
    rcases (hface f hf g hr).2.2.2.2.2 e he with h1 | h1
    · exact edgesOf_covers input [] g hg e h1
    · obtain ⟨x, hx, hxs⟩ := edgesOf_covers input [] g hg _ h1
      exact ⟨x, hx, Seg.same_trans hxs (Seg.same_mk'_swap e.2 e.1)⟩
  · show ((collectVerts input).length : Int) - (edgesOf input []).length + (input.map (flipOf c)).length = 2
    rw [List.length_map, hvperm.length_eq, helen, hflen]; exact hEuler
#print axioms Polyhedron.mk?_reoriented

/-- the same with Euler's formula DERIVED from the hypothesis that the constructor accepts the outward face list
    `B0.faces` itself (true e.g. for every body left behind by `move`, see `Polyhedron.move_ok`) -/
theorem Polyhedron.mk?_reoriented_of_accepted (B0 B0' : Polyhedron) (hV : B0.Valid)
    (hacc : Polyhedron.mk? B0.faces = .ok B0') (F input : List Polygon)
    (hperm : List.Perm F B0.faces) (hrel : List.Forall₂ Reoriented F input) :
    ∃ B, Polyhedron.mk? input = .ok B ∧ B.Valid ∧ B.center = B0'.center ∧
      List.Forall₂ OutwardCopy F B.faces ∧ List.Perm B.verts B0'.verts ∧
      B.edges.length = B0'.edges.length ∧
      (∀ s ∈ B.edges, ∃ s' ∈ B0'.edges, s.same s' = true) ∧ (∀ s' ∈ B0'.edges, ∃ s ∈ B.edges, s.same s' = true) := by
  obtain ⟨hv0, he0, _, hc0, _, _, _, _, heul, _⟩ := Polyhedron.mk?_eq B0.faces B0' hacc
  obtain ⟨B, hB, hBV, hBc, _, hcop, _, _, hvp, _, ⟨_, hel, hes, hec⟩, _, _⟩ :=
    Polyhedron.mk?_reoriented B0 hV F input hperm hrel heul
  refine ⟨B, hB, hBV, by rw [hBc, hc0], hcop, by rw [hv0]; exact hvp, by rw [hel, he0], ?_, ?_⟩
  · intro s hs
    obtain ⟨f, hf, e, he, hse⟩ := hes s hs
    obtain ⟨x, hx, hxs⟩ := edgesOf_covers B0.faces [] f hf e he
    rw [he0]
    refine ⟨x, hx, ?_⟩
    rcases hse with rfl | rfl
    · exact Seg.same_symm hxs
    · exact Seg.same_trans (Seg.same_mk'_swap e.2 e.1) (Seg.same_symm hxs)
  · intro s' hs'
    rw [he0] at hs'
    rcases edgesOf_mem B0.faces [] s' hs' with h' | ⟨f, hf, e, he, rfl⟩
    · cases h'
    · exact hec f hf e he
#print axioms Polyhedron.mk?_reoriented_of_accepted

/-! ### Task 2: the order of the input polygons does not matter -/
theorem all_perm {α : Type} (p : α → Bool) {l1 l2 : List α} (h : List.Perm l1 l2) : l1.all p = l2.all p := by
  rw [Bool.eq_iff_iff, List.all_eq_true, List.all_eq_true]
  exact ⟨fun h1 x hx => h1 x (h.mem_iff.mpr hx), fun h1 x hx => h1 x (h.mem_iff.mp hx)⟩

theorem sameUEdges_of_perm {i1 i2 : List Polygon} (h : List.Perm i1 i2) : SameUEdges i1 i2 :=
  ⟨fun f hf _ he => ⟨f, h.mem_iff.mp hf, Or.inl he⟩, fun g hg _ he => ⟨g, h.mem_iff.mpr hg, Or.inl he⟩⟩

/-- **C09, face-order independence.**  If the constructor accepts `input1` it accepts every permutation `input2`
    of it, and the two results have the same centre, the same faces, pyramids and vertices up to order, edge lists
    of the same length representing the same undirected segments, the same membership test and the same volume.
    No validity hypothesis. -/
theorem Polyhedron.mk?_perm (input1 input2 : List Polygon) (hp : List.Perm input1 input2) (B1 : Polyhedron)
    (h1 : Polyhedron.mk? input1 = .ok B1) :
    ∃ B2, Polyhedron.mk? input2 = .ok B2 ∧ B2.center = B1.center ∧
      List.Perm B1.faces B2.faces ∧ List.Perm B1.pyramids B2.pyramids ∧ List.Perm B1.verts B2.verts ∧
      B1.edges.length = B2.edges.length ∧
      (∀ s ∈ B1.edges, ∃ s' ∈ B2.edges, s.same s' = true) ∧ (∀ s' ∈ B2.edges, ∃ s ∈ B1.edges, s.same s' = true) ∧
      (∀ x, B1.contains x = B2.contains x) ∧ B1.volume = B2.volume := by
  obtain ⟨hv1, he1, hd1, hc1, hf1, hpy1, hor1, hn1, heul1, hne1⟩ := Polyhedron.mk?_eq input1 B1 h1
  have hvperm : List.Perm (collectVerts input1) (collectVerts input2) :=
    collectVerts_perm _ _ (fun v => ⟨fun ⟨f, hf, hv⟩ => ⟨f, hp.mem_iff.mp hf, hv⟩,
      fun ⟨f, hf, hv⟩ => ⟨f, hp.mem_iff.mpr hf, hv⟩⟩)
  have hc : meanV (collectVerts input2) = B1.center := by rw [hc1]; exact (meanV_perm hvperm).symm
  have hue := sameUEdges_of_perm hp
  have helen := edgesOf_length_eq _ _ hue
  have hne2 : collectVerts input2 ≠ [] := by
    intro h0
    apply hne1
    have := hvperm.length_eq
    rw [h0] at this
    exact List.length_eq_zero_iff.mp this
  have hmk := Polyhedron.mk?_intro input2 (fun f hf => hd1 f (hp.mem_iff.mpr hf)) hne2
    (fun g hg => by rw [hc]; exact hor1 g (hp.mem_iff.mpr hg))
    (fun g hg => by rw [hc]; exact hn1 g (hp.mem_iff.mpr hg))
    (by rw [← hvperm.length_eq, ← helen, ← hp.length_eq]; exact heul1)
  rw [hc] at hmk
  have hfp : List.Perm B1.faces (input2.map (flipOf B1.center)) := by rw [hf1]; exact hp.map _
  have hpp : List.Perm B1.pyramids (input2.map (fun g => (g, B1.center))) := by rw [hpy1]; exact hp.map _
  refine ⟨_, hmk, rfl, hfp, hpp, by rw [hv1]; exact hvperm, by rw [he1]; exact helen, ?_, ?_, ?_, ?_⟩
  · rw [he1]; exact edgesOf_class_sub _ _ hue.1
  · intro s' hs'
    obtain ⟨s, hs, hss⟩ := edgesOf_class_sub _ _ hue.2 s' hs'
    rw [he1]
    exact ⟨s, hs, Seg.same_symm hss⟩
  · intro x
    unfold Polyhedron.contains
    exact all_perm _ hfp
  · unfold Polyhedron.volume
    exact ((hpp.map _).sum_eq)
#print axioms Polyhedron.mk?_perm

/-- symmetric form for two given successful results -/
theorem Polyhedron.mk?_perm_results (input1 input2 : List Polygon) (hp : List.Perm input1 input2)
    (B1 B2 : Polyhedron) (h1 : Polyhedron.mk? input1 = .ok B1) (h2 : Polyhedron.mk? input2 = .ok B2) :
    B2.center = B1.center ∧ List.Perm B1.faces B2.faces ∧ List.Perm B1.verts B2.verts ∧
    B1.edges.length = B2.edges.length ∧
    (∀ s ∈ B1.edges, ∃ s' ∈ B2.edges, s.same s' = true) ∧ (∀ s' ∈ B2.edges, ∃ s ∈ B1.edges, s.same s' = true) ∧
    (∀ x, B1.contains x = B2.contains x) ∧ B1.volume = B2.volume := by
  obtain ⟨B2', h2', hc, hf, _, hv, hel, hes1, hes2, hcon, hvol⟩ := Polyhedron.mk?_perm input1 input2 hp B1 h1
  rw [h2] at h2'; cases h2'
  exact ⟨hc, hf, hv, hel, hes1, hes2, hcon, hvol⟩
#print axioms Polyhedron.mk?_perm_results
end G3D
