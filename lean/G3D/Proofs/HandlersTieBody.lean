import G3D.Extracted.Hbody
import G3D.Proofs.HandlersTieShared
import G3D.Proofs.FlatPolygon
/-! # Tie, group `hbody` (property C03): polygon × polygon, polygon × polyhedron, polyhedron × polyhedron and the two
    helpers only polygon × polygon uses — extracted body (`G3D.Extracted.Hbody`, tools/extract_hbody.py) = hand model.
    See `G3D.Proofs.HandlersTie` for the conventions. -/
set_option linter.unusedSimpArgs false
set_option linter.unusedVariables false
namespace G3D.Tie
open V3 PyRt Extracted

/-! ### `points_in_a_line` -/

def allStep {α : Type} (c : α → Bool) (x : α) (_ : Option Bool) : PyM (ForInStep (Option Bool)) :=
  if c x then .ok (.yield none) else .ok (.done (some false))

theorem forIn_allStep {α : Type} (c : α → Bool) (xs : List α) :
    forIn xs none (allStep c) = .ok (if xs.all c then none else some false) := by
  induction xs with
  | nil => simp
  | cons x xs ih =>
    simp only [List.forIn_cons, allStep, List.all_cons]
    by_cases h : c x = true
    · simp [h, ih]
    · have h' : c x = false := by simpa using h
      simp [h']

theorem h_points_in_a_line_eq (ps : List V3) :
    h_points_in_a_line (Val.ptSeq ps) = Val.bool <$> pointsInALine ps := by
  unfold h_points_in_a_line
  match ps with
  | [] => simp [pyrt, Val.ptSeq, pointsInALine]
  | [p] => simp [pyrt, Val.ptSeq, pointsInALine]
  | p0 :: p1 :: rest =>
    have hn : ((rest.length : Int) + 1 + 1 - 2).toNat = rest.length := by omega
    simp only [pyrt, Val.ptSeq, List.map_cons, List.length_cons, Nat.cast_add, Nat.cast_one,
      ptObj, hn, List.length_map]
    cases rest with
    | nil => simp [pointsInALine]
    | cons r rest' =>
      have h3 : ¬ (((r :: rest').length : Int) + 1 + 1 < 3) := by simp only [List.length_cons]; push_cast; omega
      simp only [h3, decide_false, Bool.false_eq_true, if_false, pointsInALine]
      by_cases h10 : p1 = p0
      · simp [h10]
      · simp only [h10, if_false, ok_bind, reduceCtorEq]
        generalize r :: rest' = rest
        rw [← map_snd_indexed rest 2]
        rw [show ((none : Option Val), ()) = (fun r : Option Bool => (r.map Val.bool, ())) none from rfl]
        rw [forIn_repr (fun xi : V3 × Int => Val.int xi.2) (fun r : Option Bool => (r.map Val.bool, ()))
          (indexed 2 rest) _ (fun xi => allStep (⟨p0, sub p1 p0⟩ : Line).contains xi.1)]
        rotate_left
        · intro ⟨pi, i⟩ hmem st
          obtain ⟨k, rfl, hk⟩ := mem_indexed rest 2 pi i hmem
          have hidx : pyIndex (Val.seq (Obj.flat (Geo.point p0) :: Obj.flat (Geo.point p1) :: List.map ptObj rest)) (Val.int (2 + ↑k))
              = .ok (.obj (.flat (.point pi))) := by
            have := pyIndex_seq_nat (Obj.flat (Geo.point p0) :: Obj.flat (Geo.point p1) :: List.map ptObj rest) (k + 2)
              (.flat (.point pi)) (by simp [hk, ptObj])
            rw [← this]; congr 2; push_cast; omega
          simp only [hidx, pyrt, allStep]
          cases (⟨p0, sub p1 p0⟩ : Line).contains pi <;> simp [pyrt, ForInStep.map']
        rw [forIn_indexed, forIn_allStep]
        cases rest.all (⟨p0, sub p1 p0⟩ : Line).contains <;> simp

/-! ### `get_segment_convexpolygon_intersection_point_set` (used by polygon × polygon only) -/

theorem h_get_segment_convexpolygon_intersection_point_set_eq (s : Seg) (P : Polygon) :
    h_get_segment_convexpolygon_intersection_point_set (.obj (.flat (.seg s))) (.obj (.polygon P)) =
      (do let ss ← liftC P.segments?
          Val.ptSet <$> edgeHits (fun t => interSegSeg t s) ss []) := by
  unfold h_get_segment_convexpolygon_intersection_point_set
  simp only [pyrt, pyMeth_segments]
  cases liftC P.segments? with
  | error e => simp
  | ok ss =>
    simp only [pyrt, List.map_map]
    rw [show (Val.set []) = Val.ptSet [] from rfl]
    rw [forIn_repr (Val.obj ∘ sgObj) Val.ptSet ss _ (edgeStep (fun t => interSegSeg t s))]
    · simp [← edgeHits_eq_forIn]
    · intro t _ acc
      simp only [Function.comp, sgObj, pyrt, edgeStep]
      exact edgeBody_eq _ (interSegSeg_onlyBug t s) acc

/-! ## ConvexPolygon / ConvexPolyhedron × ConvexPolyhedron -/

/-! ### `inter_convexpolygon_convexPolyhedron` -/
theorem h_inter_convexpolygon_convexPolyhedron_eq (B : Polyhedron) (P : Polygon) :
    h_inter_convexpolygon_convexPolyhedron (.obj (.polyhedron B)) (.obj (.polygon P)) =
      Val.ofRes (interPolygonPolyhedron B P) := by
  unfold h_inter_convexpolygon_convexPolyhedron
  simp only [pyrt, interPolygonPolyhedron]
  rcases interPlanePolyhedron P.plane B with e | o
  · simp [pyrt]
  · rcases o with _ | ⟨g | Q | B'⟩
    · simp [pyrt]
    · cases g <;> simp [pyrt]
    · simp [pyrt]
    · simp [pyrt]

/-! ### `inter_convexpolyhedron_convexpolyhedron` -/

def reprParts (p : Parts) : Val × Val × Val := (.set (p.gons.map Obj.polygon), .set (p.segs.map sgObj), Val.ptSet p.pts)

def clipStep (X : Polyhedron) (f : Polygon) (acc : Parts) : PyM (ForInStep Parts) :=
  match interPolygonPolyhedron X f with
  | .ok none => .ok (.yield acc)
  | .ok (some (.flat (.point q))) => .ok (.yield { acc with pts := addNew acc.pts q })
  | .ok (some (.flat (.seg s))) => .ok (.yield { acc with segs := addSeg acc.segs s })
  | .ok (some (.polygon Q)) => .ok (.yield { acc with gons := addPolygon acc.gons Q })
  | .ok _ => .ok (.yield acc)
  | .error e => .error e

theorem clipFaces_eq_forIn (X : Polyhedron) (fs : List Polygon) (acc : Parts) :
    clipFaces X fs acc = forIn fs acc (clipStep X) := by
  induction fs generalizing acc with
  | nil => simp [clipFaces]
  | cons f fs ih =>
    simp only [List.forIn_cons, clipFaces, clipStep]
    split <;> simp [ih, *]

theorem clipBody_eq (X : Polyhedron) (f : Polygon) (acc : Parts) :
    (do let inter ← Val.ofRes (interPolygonPolyhedron X f)
        if (pyIsNone inter).truthy = true then
          Except.ok (ForInStep.yield ((reprParts acc).1, (reprParts acc).2.1, (reprParts acc).2.2))
        else if (pyIsInstance inter PyTy.Point).truthy = true then
          (fun a => ForInStep.yield ((reprParts acc).1, (reprParts acc).2.1, a)) <$> pySetAdd (reprParts acc).2.2 inter
        else if (pyIsInstance inter PyTy.Segment).truthy = true then
          (fun a => ForInStep.yield ((reprParts acc).1, a, (reprParts acc).2.2)) <$> pySetAdd (reprParts acc).2.1 inter
        else if (pyIsInstance inter PyTy.ConvexPolygon).truthy = true then
          (fun a => ForInStep.yield (a, (reprParts acc).2.1, (reprParts acc).2.2)) <$> pySetAdd (reprParts acc).1 inter
        else Except.ok (ForInStep.yield ((reprParts acc).1, (reprParts acc).2.1, (reprParts acc).2.2))) =
      ForInStep.map' reprParts <$> clipStep X f acc := by
  unfold clipStep
  rcases interPolygonPolyhedron X f with e | o
  · simp [pyrt]
  · rcases o with _ | ⟨g | Q | B'⟩
    · simp [pyrt, ForInStep.map', reprParts]
    · cases g <;> simp [pyrt, ForInStep.map', reprParts, Val.ptSet]
    · simp [pyrt, ForInStep.map', reprParts]
    · simp [pyrt, ForInStep.map', reprParts]

theorem h_inter_convexpolyhedron_convexpolyhedron_eq (A B : Polyhedron) :
    h_inter_convexpolyhedron_convexpolyhedron (.obj (.polyhedron A)) (.obj (.polyhedron B)) =
      Val.ofRes (interPolyhedronPolyhedron A B) := by
  unfold h_inter_convexpolyhedron_convexpolyhedron
  simp only [pyrt, List.map_map, decide_true, if_true, Bool.not_true, Bool.false_eq_true, if_false]
  rw [show (Val.set [], Val.set [], Val.set []) = reprParts {} from rfl]
  rw [forIn_repr (Val.obj ∘ Obj.polygon) reprParts A.faces _ (clipStep B)]
  rotate_left
  · intro f _ acc
    simp only [Function.comp, h_inter_convexpolygon_convexPolyhedron_eq]
    exact clipBody_eq B f acc
  simp only [interPolyhedronPolyhedron, ← clipFaces_eq_forIn]
  cases clipFaces B A.faces {} with
  | error e => simp [pyrt]
  | ok p1 =>
    simp only [pyrt]
    rw [show ((reprParts p1).1, (reprParts p1).2.1, (reprParts p1).2.2) = reprParts p1 from rfl]
    rw [forIn_repr (Val.obj ∘ Obj.polygon) reprParts B.faces _ (clipStep A)]
    rotate_left
    · intro f _ acc
      simp only [Function.comp, h_inter_convexpolygon_convexPolyhedron_eq]
      exact clipBody_eq A f acc
    simp only [← clipFaces_eq_forIn]
    cases clipFaces A B.faces p1 with
    | error e => simp [pyrt]
    | ok p2 =>
      obtain ⟨gons, segs, pts⟩ := p2
      simp only [pyrt, reprParts, Val.ptSet, List.length_map]
      rcases gons with _ | ⟨g1, _ | ⟨g2, gs⟩⟩
      · rcases segs with _ | ⟨s1, _ | ⟨s2, ss⟩⟩
        · rcases pts with _ | ⟨p1, _ | ⟨p2, ps⟩⟩
          · simp [pyrt]
          · simp [pyrt, pt?, ptObj]
          · have : (1 : Int) < (ps.length : Int) + 1 + 1 := by omega
            simp [pyrt, this]
        · simp [pyrt, seg?, sgObj]
        · have : (1 : Int) < (ss.length : Int) + 1 + 1 := by omega
          simp [pyrt, this]
      · simp [pyrt]
      · have : (1 : Int) < (gs.length : Int) + 1 + 1 := by omega
        simp only [List.length_cons, Nat.cast_add, Nat.cast_one, this, decide_true, if_true]
        cases liftC (Polyhedron.mk? (g1 :: g2 :: gs)) <;> simp [pyrt]

/-! ## ConvexPolygon × ConvexPolygon -/

theorem liftFlat_flat (r : Res) (o : Obj) (h : liftFlat r = .ok (some o)) : ∃ g, o = .flat g := by
  rcases r with e | _ | g
  · cases e <;> cases h
  · cases h
  · cases h; exact ⟨g, rfl⟩

theorem lineEdgesLoop_flat (l : Line) (ss : List Seg) (acc : List V3) (o : Obj)
    (h : lineEdgesLoop l ss acc = .ok (some o)) : ∃ g, o = .flat g := by
  induction ss generalizing acc with
  | nil => exact liftFlat_flat _ o h
  | cons s ss ih =>
    simp only [lineEdgesLoop] at h
    split at h
    · exact ih _ h
    · exact ih _ h
    · cases h; exact ⟨_, rfl⟩
    · cases h
    · cases h

theorem interLinePolygon_flat (l : Line) (P : Polygon) (o : Obj) (h : interLinePolygon l P = .ok (some o)) :
    ∃ g, o = .flat g := by
  unfold interLinePolygon at h
  split at h
  · cases h
  · rcases hs : liftC P.segments? with e | ss
    · rw [hs] at h; cases h
    · rw [hs] at h; exact lineEdgesLoop_flat l ss [] o h
  · simp only [interPointPolygon] at h
    split at h
    · cases h; exact ⟨_, rfl⟩
    · cases h
  · cases h

theorem interPlanePlane_kind (a b : Plane) (g : Geo) (h : interPlanePlane a b = .ok (some g)) :
    (∃ L, g = .line L) ∨ (∃ c, g = .plane c) := by
  unfold interPlanePlane at h
  split at h
  · cases h; exact Or.inr ⟨_, rfl⟩
  · split at h
    · cases h
    · simp only at h
      split at h
      · cases h; exact Or.inl ⟨_, rfl⟩
      · cases h

def filterStep (c : V3 → Bool) (p : V3) (acc : List V3) : PyM (ForInStep (List V3)) :=
  .ok (.yield (if c p then addNew acc p else acc))

theorem forIn_filterStep (c : V3 → Bool) (ps acc : List V3) :
    forIn ps acc (filterStep c) = .ok ((ps.filter c).foldl addNew acc) := by
  induction ps generalizing acc with
  | nil => simp
  | cons p ps ih =>
    simp only [List.forIn_cons, filterStep, ok_bind, ih, List.filter_cons]
    by_cases h : c p = true
    · simp [h]
    · simp [h]

theorem mem_foldl_addNew_of_mem_acc (q : V3) (l acc : List V3) (h : q ∈ acc) : q ∈ l.foldl addNew acc := by
  induction l generalizing acc with
  | nil => exact h
  | cons y ys ih =>
    simp only [List.foldl_cons]
    apply ih
    unfold addNew; split
    · exact h
    · exact List.mem_append_left _ h

theorem mem_foldl_addNew_of_mem (q : V3) (l acc : List V3) (h : q ∈ l) : q ∈ l.foldl addNew acc := by
  induction l generalizing acc with
  | nil => cases h
  | cons x xs ih =>
    simp only [List.foldl_cons]
    rcases List.mem_cons.mp h with rfl | hq'
    · apply mem_foldl_addNew_of_mem_acc
      unfold addNew; split
      · assumption
      · simp
    · exact ih _ hq'

theorem addNew_foldl_addNew (tmp acc : List V3) (q : V3) :
    (addNew tmp q).foldl addNew acc = addNew (tmp.foldl addNew acc) q := by
  by_cases h : q ∈ tmp
  · have h1 : addNew tmp q = tmp := by simp [addNew, h]
    have h2 : addNew (tmp.foldl addNew acc) q = tmp.foldl addNew acc := by
      simp [addNew, mem_foldl_addNew_of_mem q tmp acc h]
    rw [h1, h2]
  · have h1 : addNew tmp q = tmp ++ [q] := by simp [addNew, h]
    rw [h1, List.foldl_append]; rfl

theorem edgeHits_acc (edgePt : Seg → Res) (ss : List Seg) (tmp acc : List V3) :
    (fun hits => hits.foldl addNew acc) <$> edgeHits edgePt ss tmp = edgeHits edgePt ss (tmp.foldl addNew acc) := by
  induction ss generalizing tmp with
  | nil => simp [edgeHits]
  | cons s ss ih =>
    simp only [edgeHits]
    split <;> first | exact ih tmp | (rw [ih, addNew_foldl_addNew]) | simp

def crossStep (sb : List Seg) (s : Seg) (acc : List V3) : PyM (ForInStep (List V3)) :=
  ForInStep.yield <$> crossHitsOne sb s acc

theorem crossHits_eq_forIn (sb sa : List Seg) (acc : List V3) :
    crossHits sb sa acc = forIn sa acc (crossStep sb) := by
  induction sa generalizing acc with
  | nil => simp [crossHits]
  | cons s sa ih =>
    simp only [List.forIn_cons, crossHits, crossStep]
    cases crossHitsOne sb s acc with
    | error e => simp
    | ok acc' => simp [ih]

theorem mapM_except_length {ε α β : Type} (f : α → Except ε β) (l : List α) (r : List β)
    (h : l.mapM f = .ok r) : r.length = l.length := by
  induction l generalizing r with
  | nil => simp [List.mapM_nil, pure, Except.pure] at h; subst h; rfl
  | cons x xs ih =>
    simp only [List.mapM_cons, bind, Except.bind] at h
    split at h
    · cases h
    · rename_i y hy
      split at h
      · cases h
      · rename_i ys hys
        simp only [pure, Except.pure] at h
        cases h
        simp [ih ys hys]

theorem segments_ne_nil (P : Polygon) (hP : P.pts ≠ []) (ss : List Seg) (h : liftC P.segments? = .ok ss) : ss ≠ [] := by
  intro hss; subst hss
  unfold Polygon.segments? at h
  rcases hm : (closedPairs P.pts).mapM (fun e => if e.1 = e.2 then Except.error CErr.value else Except.ok (Seg.mk' e.1 e.2)) with e | r
  · rw [hm] at h; cases h
  · rw [hm] at h
    have hr : r = [] := by cases h; rfl
    have hlen := mapM_except_length _ _ _ hm
    rw [hr] at hlen
    rcases hp : P.pts with _ | ⟨p, ps⟩
    · exact hP hp
    · rw [hp] at hlen
      cases ps <;> simp [closedPairs, consec] at hlen

/-- `inter_convexpolygon_convexpolygon`.  The hand model and the code differ in two corner cases that the two
    hypotheses exclude (both are impossible for polygons that the constructor built, see the corollary):
    * `hA`: with an empty vertex tuple `a.points` the code never calls `b.segments()`, the model does;
    * `hNE`: when the planes cross in a line `L`, `L ∩ a` is `None` and `L ∩ b` *raises*, the code raises
      (both inner intersections are computed before the `None` test) while the model returns `None`. -/
theorem h_inter_convexpolygon_convexpolygon_eq (a b : Polygon) (hA : a.pts ≠ [])
    (hNE : ∀ L, interPlanePlane a.plane b.plane = .ok (some (.line L)) → interLinePolygon L a = .ok none →
      ∀ e, interLinePolygon L b ≠ .error e) :
    h_inter_convexpolygon_convexpolygon (.obj (.polygon a)) (.obj (.polygon b)) =
      Val.ofRes (interPolygonPolygon a b) := by
  unfold h_inter_convexpolygon_convexpolygon
  simp only [pyrt, List.map_map, interPolygonPolygon]
  rcases hpp : interPlanePlane a.plane b.plane with e | o
  · cases interPlanePlane_onlyBug _ _ e hpp; simp [pyrt]
  rcases o with _ | g
  · simp [pyrt]
  rcases interPlanePlane_kind _ _ g hpp with ⟨L, rfl⟩ | ⟨c, rfl⟩
  · -- the planes cross in the line L
    simp only [pyrt, decide_true, if_true, reduceCtorEq, decide_false, Bool.false_eq_true, if_false]
    rcases h1 : interLinePolygon L a with e1 | o1
    · simp [pyrt]
    rcases h2 : interLinePolygon L b with e2 | o2
    · rcases o1 with _ | x1
      · exact absurd h2 (hNE L hpp h1 e2)
      · simp [pyrt]
    rcases o1 with _ | x1
    · simp [pyrt]
    rcases o2 with _ | x2
    · simp [pyrt]
    obtain ⟨g1, rfl⟩ := interLinePolygon_flat L a x1 h1
    obtain ⟨g2, rfl⟩ := interLinePolygon_flat L b x2 h2
    simp [pyrt, interFlatPair]
  · -- coplanar
    simp only [pyrt, decide_true, if_true, reduceCtorEq, decide_false, Bool.false_eq_true, if_false]
    by_cases heq : a.plane.eqv b.plane = true
    swap
    · simp [heq, pyrt]
    simp only [heq, Bool.not_true, Bool.false_eq_true, if_false]
    rw [show (Val.set []) = Val.ptSet [] from rfl]
    rw [forIn_repr (Val.obj ∘ ptObj) Val.ptSet a.pts _ (filterStep b.contains)]
    rotate_left
    · intro p _ acc
      simp only [Function.comp, ptObj, pyrt, filterStep]
      by_cases hc : b.contains p = true <;> simp [hc, pyrt, ForInStep.map', Val.ptSet]
    rw [forIn_filterStep]
    simp only [pyrt]
    rw [forIn_repr (Val.obj ∘ ptObj) Val.ptSet b.pts _ (filterStep a.contains)]
    rotate_left
    · intro p _ acc
      simp only [Function.comp, ptObj, pyrt, filterStep]
      by_cases hc : a.contains p = true <;> simp [hc, pyrt, ForInStep.map', Val.ptSet]
    rw [forIn_filterStep]
    simp only [pyrt, pyMeth_segments]
    generalize List.foldl addNew (List.foldl addNew [] (List.filter b.contains a.pts)) (List.filter a.contains b.pts) = acc0
    rcases hsa : liftC a.segments? with e | sa
    · simp [pyrt]
    simp only [pyrt, List.map_map]
    rcases hsb : liftC b.segments? with e | sb
    · -- `b.segments()` raises: in the code at the first round of the loop over `a.segments()`
      have hne := segments_ne_nil a hA sa hsa
      rcases sa with _ | ⟨s0, sa'⟩
      · exact absurd rfl hne
      · simp [List.forIn_cons, sgObj, h_get_segment_convexpolygon_intersection_point_set_eq, hsb, pyrt]
    simp only [pyrt]
    rw [forIn_repr (Val.obj ∘ sgObj) Val.ptSet sa _ (crossStep sb)]
    rotate_left
    · intro s _ acc
      simp only [Function.comp, sgObj, h_get_segment_convexpolygon_intersection_point_set_eq, hsb, pyrt,
        crossStep, crossHitsOne]
      have hacc := edgeHits_acc (fun t => interSegSeg t s) sb [] acc
      simp only [List.foldl_nil] at hacc
      rw [← hacc]
      cases edgeHits (fun t => interSegSeg t s) sb [] with
      | error e => simp
      | ok hits => simp [pyrt, Val.ptSet, ForInStep.map']
    rw [← crossHits_eq_forIn]
    cases crossHits sb sa acc0 with
    | error e => simp [pyrt]
    | ok acc =>
      simp only [pyrt, Val.ptSet, List.length_map]
      match acc with
      | [] => simp [pyrt]
      | [p] => simp [pyrt, ptObj, pt?]
      | [p, q] =>
        simp [pyrt, ptObj, seg?, liftC]
        by_cases hpq : p = q <;> simp [hpq, pyrt]
      | p :: q :: r :: rest =>
        have h0 : ¬ ((rest.length : Int) + 1 + 1 + 1 = 0) := by omega
        have h1 : ¬ ((rest.length : Int) + 1 + 1 = 0) := by omega
        have h2 : ¬ ((rest.length : Int) + 1 + 1 + 1 = 2) := by omega
        have hpl := h_points_in_a_line_eq (p :: q :: r :: rest)
        simp only [Val.ptSeq, List.map_cons] at hpl
        simp [pyrt, h0, h1, h2, hpl]
        cases pointsInALine (p :: q :: r :: rest) with
        | error e => simp [pyrt]
        | ok bl =>
          cases bl
          · simp [pyrt]
            cases liftC (Polygon.mk? (p :: q :: r :: rest)) <;> simp [pyrt]
          · simp [pyrt]

/-- for polygons that satisfy the constructor's guarantees the two side conditions hold -/
theorem h_inter_convexpolygon_convexpolygon_eq_of_valid (a b : Polygon) (ha : a.Valid) (hb : b.Valid) :
    h_inter_convexpolygon_convexpolygon (.obj (.polygon a)) (.obj (.polygon b)) =
      Val.ofRes (interPolygonPolygon a b) := by
  apply h_inter_convexpolygon_convexpolygon_eq
  · obtain ⟨p0, p1, p2, rest, h, _⟩ := ha; rw [h]; simp
  · intro L hL _ e he
    obtain ⟨o, ho, hw, _⟩ := interPlanePlane_exact a.plane b.plane (Polygon.plane_WF a ha) (Polygon.plane_WF b hb)
    rw [hL] at ho; cases ho
    have hLW : L.WF := hw (.line L) rfl
    obtain ⟨o', ho', _⟩ := interLinePolygon_exact L hLW b hb
    rw [ho'] at he; cases he

/-! ## axiom audit -/
#print axioms h_points_in_a_line_eq
#print axioms h_get_segment_convexpolygon_intersection_point_set_eq
#print axioms h_inter_convexpolygon_convexPolyhedron_eq
#print axioms h_inter_convexpolyhedron_convexpolyhedron_eq
#print axioms h_inter_convexpolygon_convexpolygon_eq
#print axioms h_inter_convexpolygon_convexpolygon_eq_of_valid

end G3D.Tie
