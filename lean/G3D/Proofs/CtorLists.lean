import G3D.Proofs.K5
import G3D.Proofs.SortCycle
import G3D.Proofs.BodySoundAll
import G3D.Proofs.Move2
import G3D.Proofs.Xf2

/-! C09 (polyhedron constructor), list level: `collectVerts` / `collectEdges` as sets, cyclic edge lists under
    rotation and reversal, counting of classes of `Seg.same`, and the explicit form of a successful
    `Polyhedron.mk?`. -/
namespace G3D
open V3

/-! ### `collectVerts`: a duplicate-free list of exactly the face vertices -/
theorem addPt_nodup (l : List V3) (p : V3) (h : l.Nodup) : (addPt l p).Nodup := by
  unfold addPt
  split
  · exact h
  · rename_i hp
    rw [List.nodup_append]
    refine ⟨h, List.nodup_singleton _, ?_⟩
    intro a ha b hb
    simp only [List.mem_singleton] at hb
    subst hb
    intro e; exact hp (e ▸ ha)

theorem foldl_addPt_nodup : ∀ (l acc : List V3), acc.Nodup → (l.foldl addPt acc).Nodup := by
  intro l
  induction l with
  | nil => intro acc h; exact h
  | cons a l ih => intro acc h; rw [List.foldl_cons]; exact ih _ (addPt_nodup _ _ h)

theorem mem_foldl_collect : ∀ (l : List Polygon) (acc : List V3) (v : V3),
    v ∈ l.foldl (fun acc f => f.pts.foldl addPt acc) acc ↔ v ∈ acc ∨ ∃ f ∈ l, v ∈ f.pts := by
  intro l
  induction l with
  | nil => intro acc v; simp
  | cons g l ih =>
    intro acc v
    rw [List.foldl_cons, ih, mem_foldl_addPt]
    constructor
    · rintro ((h | h) | ⟨f, hf, hv⟩)
      · exact Or.inl h
      · exact Or.inr ⟨g, by simp, h⟩
      · exact Or.inr ⟨f, by simp [hf], hv⟩
    · rintro (h | ⟨f, hf, hv⟩)
      · exact Or.inl (Or.inl h)
      · rcases List.mem_cons.mp hf with rfl | hf
        · exact Or.inl (Or.inr hv)
        · exact Or.inr ⟨f, hf, hv⟩

/-- the vertex list of the constructor contains exactly the vertices of the input polygons -/
theorem mem_collectVerts (input : List Polygon) (v : V3) :
    v ∈ collectVerts input ↔ ∃ f ∈ input, v ∈ f.pts := by
  unfold collectVerts
  rw [mem_foldl_collect]; simp

theorem foldl_collect_nodup : ∀ (l : List Polygon) (acc : List V3), acc.Nodup →
    (l.foldl (fun acc f => f.pts.foldl addPt acc) acc).Nodup := by
  intro l
  induction l with
  | nil => intro acc h; exact h
  | cons g l ih => intro acc h; rw [List.foldl_cons]; exact ih _ (foldl_addPt_nodup _ _ h)

/-- … each exactly once -/
theorem collectVerts_nodup (input : List Polygon) : (collectVerts input).Nodup :=
  foldl_collect_nodup input [] List.nodup_nil

/-- two inputs with the same set of vertices give the same vertex list up to order -/
theorem collectVerts_perm (i1 i2 : List Polygon)
    (h : ∀ v, (∃ f ∈ i1, v ∈ f.pts) ↔ (∃ f ∈ i2, v ∈ f.pts)) :
    List.Perm (collectVerts i1) (collectVerts i2) := by
  rw [List.perm_ext_iff_of_nodup (collectVerts_nodup i1) (collectVerts_nodup i2)]
  intro v
  rw [mem_collectVerts, mem_collectVerts]; exact h v

/-! ### cyclic edge lists under rotation and reversal of the cycle -/
theorem closedPairs_rotate1 (a : V3) (l : List V3) :
    List.Perm (closedPairs (l ++ [a])) (closedPairs (a :: l)) := by
  cases l with
  | nil => exact List.Perm.refl _
  | cons b m =>
    have e1 : closedPairs (b :: m ++ [a]) = consec ((b :: m) ++ [a]) ++ [(a, b)] := by
      have := consec_append_singleton' (b :: m) a b
      simpa [closedPairs] using this
    have e2 : closedPairs (a :: b :: m) = (a, b) :: consec ((b :: m) ++ [a]) := by
      simp [closedPairs, consec]
    rw [e1, e2]
    exact List.perm_append_singleton _ _

/-- rotating the vertex cycle permutes the directed edges -/
theorem closedPairs_rotate : ∀ (l1 l2 : List V3),
    List.Perm (closedPairs (l1 ++ l2)) (closedPairs (l2 ++ l1)) := by
  intro l1
  induction l1 with
  | nil => intro l2; simp
  | cons a l1 ih =>
    intro l2
    have h1 : List.Perm (closedPairs (a :: (l1 ++ l2))) (closedPairs (l1 ++ (l2 ++ [a]))) := by
      rw [← List.append_assoc]; exact (closedPairs_rotate1 a (l1 ++ l2)).symm
    have h2 := ih (l2 ++ [a])
    have e : l2 ++ [a] ++ l1 = l2 ++ a :: l1 := by simp
    rw [e] at h2
    exact h1.trans h2

/-- `q0 :: rest.reverse` (the cycle stored by `-polygon`) has the reversed directed edges -/
theorem closedPairs_cons_reverse (q0 : V3) (rest : List V3) :
    List.Perm (closedPairs (q0 :: rest.reverse)) ((closedPairs (q0 :: rest)).map Prod.swap) := by
  have h1 := closedPairs_reverse_perm (q0 :: rest)
  rw [List.reverse_cons] at h1
  exact (closedPairs_rotate1 q0 rest.reverse).symm.trans h1

/-! ### `Seg.same` is an equivalence relation -/
theorem Seg.same_iff (s o : Seg) :
    s.same o = true ↔ (s.a = o.a ∧ s.b = o.b) ∨ (s.b = o.a ∧ s.a = o.b) := by
  simp [Seg.same]

theorem Seg.same_refl (s : Seg) : s.same s = true := by rw [Seg.same_iff]; exact Or.inl ⟨rfl, rfl⟩

theorem Seg.same_symm {s o : Seg} (h : s.same o = true) : o.same s = true := by
  rw [Seg.same_iff] at h ⊢
  rcases h with ⟨h1, h2⟩ | ⟨h1, h2⟩
  · exact Or.inl ⟨h1.symm, h2.symm⟩
  · exact Or.inr ⟨h2.symm, h1.symm⟩

theorem Seg.same_trans {s o r : Seg} (h1 : s.same o = true) (h2 : o.same r = true) : s.same r = true := by
  rw [Seg.same_iff] at h1 h2 ⊢
  rcases h1 with ⟨a1, b1⟩ | ⟨a1, b1⟩ <;> rcases h2 with ⟨a2, b2⟩ | ⟨a2, b2⟩
  · exact Or.inl ⟨a1.trans a2, b1.trans b2⟩
  · exact Or.inr ⟨b1.trans a2, a1.trans b2⟩
  · exact Or.inr ⟨a1.trans a2, b1.trans b2⟩
  · exact Or.inl ⟨b1.trans a2, a1.trans b2⟩

theorem Seg.same_mk'_swap (a b : V3) : (Seg.mk' a b).same (Seg.mk' b a) = true := by
  rw [Seg.same_iff]; exact Or.inr ⟨rfl, rfl⟩

/-- no two entries are the same undirected segment -/
def NoSame (l : List Seg) : Prop := l.Pairwise (fun s o => ¬ s.same o = true)

/-- lists of pairwise inequivalent representatives of the same classes have the same length -/
theorem length_eq_of_classes {α : Type} (R : α → α → Prop) (hs : ∀ a b, R a b → R b a)
    (ht : ∀ a b c, R a b → R b c → R a c) :
    ∀ l1 l2 : List α, l1.Pairwise (fun a b => ¬ R a b) → l2.Pairwise (fun a b => ¬ R a b) →
      (∀ a ∈ l1, ∃ b ∈ l2, R a b) → (∀ b ∈ l2, ∃ a ∈ l1, R a b) → l1.length = l2.length := by
  intro l1
  induction l1 with
  | nil =>
    intro l2 _ _ _ h2
    cases l2 with
    | nil => rfl
    | cons b l2 => obtain ⟨a, ha, _⟩ := h2 b (by simp); cases ha
  | cons a t ih =>
    intro l2 p1 p2 h1 h2
    obtain ⟨b, hb, hab⟩ := h1 a (by simp)
    obtain ⟨s, u, rfl⟩ := List.append_of_mem hb
    rw [List.pairwise_cons] at p1
    have p2' := p2
    rw [List.pairwise_append, List.pairwise_cons] at p2'
    obtain ⟨ps, ⟨pbu, pu⟩, psu⟩ := p2'
    have hlen : (s ++ b :: u).length = (s ++ u).length + 1 := by simp; omega
    rw [hlen, List.length_cons]
    congr 1
    apply ih (s ++ u) p1.2
    · rw [List.pairwise_append]
      exact ⟨ps, pu, fun x hx y hy => psu x hx y (List.mem_cons_of_mem _ hy)⟩
    · intro a' ha'
      obtain ⟨b', hb', hab'⟩ := h1 a' (List.mem_cons_of_mem _ ha')
      refine ⟨b', ?_, hab'⟩
      rcases List.mem_append.mp hb' with h | h
      · exact List.mem_append_left _ h
      · rcases List.mem_cons.mp h with rfl | h
        · exact absurd (ht _ _ _ hab (hs _ _ hab')) (p1.1 a' ha')
        · exact List.mem_append_right _ h
    · intro b' hb'
      have hb2 : b' ∈ s ++ b :: u := by
        rcases List.mem_append.mp hb' with h | h
        · exact List.mem_append_left _ h
        · exact List.mem_append_right _ (List.mem_cons_of_mem _ h)
      obtain ⟨a', ha', hab'⟩ := h2 b' hb2
      rcases List.mem_cons.mp ha' with rfl | ha'
      · exfalso
        rcases List.mem_append.mp hb' with h | h
        · exact psu b' h b (by simp) (ht _ _ _ (hs _ _ hab') hab)
        · exact pbu b' h (ht _ _ _ (hs _ _ hab) hab')
      · exact ⟨a', ha', hab'⟩

/-! ### `addSeg` / `collectEdges`: one representative of every undirected edge -/
theorem addSeg_noSame (l : List Seg) (s : Seg) (h : NoSame l) : NoSame (addSeg l s) := by
  unfold addSeg
  split
  · exact h
  · rename_i hn
    unfold NoSame
    rw [List.pairwise_append]
    refine ⟨h, List.pairwise_singleton _ _, ?_⟩
    intro x hx y hy
    simp only [List.mem_singleton] at hy
    subst hy
    intro hxy
    exact hn (List.any_eq_true.mpr ⟨x, hx, hxy⟩)

theorem foldl_addSeg_noSame : ∀ (ss acc : List Seg), NoSame acc → NoSame (ss.foldl addSeg acc) := by
  intro ss
  induction ss with
  | nil => intro acc h; exact h
  | cons s ss ih => intro acc h; rw [List.foldl_cons]; exact ih _ (addSeg_noSame _ _ h)

theorem mem_addSeg_of_mem (l : List Seg) (s x : Seg) (h : x ∈ l) : x ∈ addSeg l s := by
  unfold addSeg; split
  · exact h
  · exact List.mem_append_left _ h

theorem addSeg_covers (l : List Seg) (s : Seg) : ∃ x ∈ addSeg l s, x.same s = true := by
  unfold addSeg
  split
  · rename_i h
    obtain ⟨x, hx, hxs⟩ := List.any_eq_true.mp h
    exact ⟨x, hx, hxs⟩
  · exact ⟨s, by simp, s.same_refl⟩

theorem foldl_addSeg_mono : ∀ (ss acc : List Seg) (x : Seg), x ∈ acc → x ∈ ss.foldl addSeg acc := by
  intro ss
  induction ss with
  | nil => intro acc x h; exact h
  | cons s ss ih => intro acc x h; rw [List.foldl_cons]; exact ih _ x (mem_addSeg_of_mem _ _ _ h)

theorem foldl_addSeg_covers : ∀ (ss acc : List Seg) (s : Seg), s ∈ ss → ∃ x ∈ ss.foldl addSeg acc, x.same s = true := by
  intro ss
  induction ss with
  | nil => intro acc s h; cases h
  | cons s0 ss ih =>
    intro acc s h
    rw [List.foldl_cons]
    rcases List.mem_cons.mp h with rfl | h
    · obtain ⟨x, hx, hxs⟩ := addSeg_covers acc s
      exact ⟨x, foldl_addSeg_mono _ _ _ hx, hxs⟩
    · exact ih _ s h

/-- the segments of one face, as a pure function -/
def Polygon.segs (P : Polygon) : List Seg := (closedPairs P.pts).map (fun e => Seg.mk' e.1 e.2)

theorem mapM_ite_ok {α β : Type} (p : α → Prop) [DecidablePred p] (g : α → β) (e0 : CErr) :
    ∀ l : List α, (∀ a ∈ l, ¬ p a) →
      l.mapM (fun a => if p a then (Except.error e0 : Except CErr β) else .ok (g a)) = .ok (l.map g) := by
  intro l
  induction l with
  | nil => intro _; rfl
  | cons a l ih =>
    intro h
    rw [List.mapM_cons]
    simp only [bind, Except.bind, if_neg (h a (by simp)), ih (fun b hb => h b (List.mem_cons_of_mem _ hb)),
      List.map_cons]
    rfl

theorem mapM_ite_ok_inv {α β : Type} (p : α → Prop) [DecidablePred p] (g : α → β) (e0 : CErr) :
    ∀ (l : List α) (out : List β),
      l.mapM (fun a => if p a then (Except.error e0 : Except CErr β) else .ok (g a)) = .ok out →
      out = l.map g ∧ ∀ a ∈ l, ¬ p a := by
  intro l out h
  have hF := mapM_ok_forall₂ _ l out h
  clear h
  induction hF with
  | nil => exact ⟨rfl, fun a ha => by cases ha⟩
  | @cons a b l out ha _ ih =>
    obtain ⟨i1, i2⟩ := ih
    by_cases hp : p a
    · rw [if_pos hp] at ha; cases ha
    · rw [if_neg hp] at ha
      cases ha
      refine ⟨by rw [i1]; rfl, ?_⟩
      intro x hx
      rcases List.mem_cons.mp hx with rfl | hx
      · exact hp
      · exact i2 x hx

theorem Polygon.segments?_ok_iff (P : Polygon) (ss : List Seg) :
    P.segments? = .ok ss ↔ ss = P.segs ∧ ∀ e ∈ closedPairs P.pts, e.1 ≠ e.2 := by
  unfold Polygon.segments? Polygon.segs
  constructor
  · intro h
    exact mapM_ite_ok_inv (fun e : V3 × V3 => e.1 = e.2) (fun e => Seg.mk' e.1 e.2) CErr.value _ ss h
  · rintro ⟨rfl, h⟩
    exact mapM_ite_ok (fun e : V3 × V3 => e.1 = e.2) (fun e => Seg.mk' e.1 e.2) CErr.value _ h

/-- the edge list of the constructor as a pure function -/
def edgesOf (fs : List Polygon) (acc : List Seg) : List Seg :=
  fs.foldl (fun acc f => f.segs.foldl addSeg acc) acc

theorem collectEdges_ok_iff : ∀ (fs : List Polygon) (acc out : List Seg),
    collectEdges fs acc = .ok out ↔
      out = edgesOf fs acc ∧ ∀ f ∈ fs, ∀ e ∈ closedPairs f.pts, e.1 ≠ e.2 := by
  intro fs
  induction fs with
  | nil =>
    intro acc out
    simp only [collectEdges, edgesOf, List.foldl_nil]
    constructor
    · intro h; cases h; exact ⟨rfl, fun f hf => by cases hf⟩
    · rintro ⟨rfl, _⟩; rfl
  | cons f fs ih =>
    intro acc out
    rw [collectEdges]
    constructor
    · intro h
      cases hss : f.segments? with
      | error e => rw [hss] at h; cases h
      | ok ss =>
        rw [hss] at h
        obtain ⟨rfl, hne⟩ := (f.segments?_ok_iff ss).mp hss
        have h' : collectEdges fs (f.segs.foldl addSeg acc) = .ok out := h
        obtain ⟨i1, i2⟩ := (ih _ out).mp h'
        refine ⟨by rw [i1]; rfl, ?_⟩
        intro g hg
        rcases List.mem_cons.mp hg with rfl | hg
        · exact hne
        · exact i2 g hg
    · rintro ⟨rfl, hne⟩
      have hss : f.segments? = .ok f.segs := (f.segments?_ok_iff _).mpr ⟨rfl, hne f (by simp)⟩
      rw [hss]
      show collectEdges fs (f.segs.foldl addSeg acc) = .ok _
      exact (ih _ _).mpr ⟨rfl, fun g hg => hne g (List.mem_cons_of_mem _ hg)⟩

theorem edgesOf_noSame : ∀ (fs : List Polygon) (acc : List Seg), NoSame acc → NoSame (edgesOf fs acc) := by
  intro fs
  induction fs with
  | nil => intro acc h; exact h
  | cons f fs ih =>
    intro acc h
    unfold edgesOf; rw [List.foldl_cons]
    exact ih _ (foldl_addSeg_noSame _ _ h)

theorem edgesOf_mono : ∀ (fs : List Polygon) (acc : List Seg) (x : Seg), x ∈ acc → x ∈ edgesOf fs acc := by
  intro fs
  induction fs with
  | nil => intro acc x h; exact h
  | cons f fs ih =>
    intro acc x h
    unfold edgesOf; rw [List.foldl_cons]
    exact ih _ x (foldl_addSeg_mono _ _ _ h)

/-- every stored edge is an edge `Segment(p_i, p_{i+1})` of some input polygon -/
theorem edgesOf_mem : ∀ (fs : List Polygon) (acc : List Seg) (x : Seg), x ∈ edgesOf fs acc →
    x ∈ acc ∨ ∃ f ∈ fs, ∃ e ∈ closedPairs f.pts, x = Seg.mk' e.1 e.2 := by
  intro fs
  induction fs with
  | nil => intro acc x h; exact Or.inl h
  | cons f fs ih =>
    intro acc x h
    unfold edgesOf at h; rw [List.foldl_cons] at h
    rcases ih _ x h with h' | ⟨g, hg, e, he, hx⟩
    · rcases BS.mem_foldl_addSeg _ _ _ h' with h'' | h''
      · exact Or.inl h''
      · obtain ⟨e, he, rfl⟩ := List.mem_map.mp h''
        exact Or.inr ⟨f, by simp, e, he, rfl⟩
    · exact Or.inr ⟨g, by simp [hg], e, he, hx⟩

/-- every edge of every input polygon is represented (possibly by its reverse) -/
theorem edgesOf_covers : ∀ (fs : List Polygon) (acc : List Seg) (f : Polygon), f ∈ fs →
    ∀ e ∈ closedPairs f.pts, ∃ x ∈ edgesOf fs acc, x.same (Seg.mk' e.1 e.2) = true := by
  intro fs
  induction fs with
  | nil => intro acc f h; cases h
  | cons g fs ih =>
    intro acc f hf e he
    unfold edgesOf; rw [List.foldl_cons]
    rcases List.mem_cons.mp hf with rfl | hf
    · obtain ⟨x, hx, hxs⟩ := foldl_addSeg_covers f.segs acc (Seg.mk' e.1 e.2) (List.mem_map.mpr ⟨e, he, rfl⟩)
      exact ⟨x, edgesOf_mono fs _ x hx, hxs⟩
    · exact ih _ f hf e he

/-- two face lists have the same undirected edges -/
def SameUEdges (i1 i2 : List Polygon) : Prop :=
  (∀ f ∈ i1, ∀ e ∈ closedPairs f.pts, ∃ g ∈ i2, e ∈ closedPairs g.pts ∨ (e.2, e.1) ∈ closedPairs g.pts) ∧
  (∀ g ∈ i2, ∀ e ∈ closedPairs g.pts, ∃ f ∈ i1, e ∈ closedPairs f.pts ∨ (e.2, e.1) ∈ closedPairs f.pts)

theorem edgesOf_class_sub (i1 i2 : List Polygon)
    (h : ∀ f ∈ i1, ∀ e ∈ closedPairs f.pts, ∃ g ∈ i2, e ∈ closedPairs g.pts ∨ (e.2, e.1) ∈ closedPairs g.pts) :
    ∀ a ∈ edgesOf i1 [], ∃ b ∈ edgesOf i2 [], a.same b = true := by
  intro a ha
  rcases edgesOf_mem i1 [] a ha with h' | ⟨f, hf, e, he, rfl⟩
  · cases h'
  · obtain ⟨g, hg, hge⟩ := h f hf e he
    rcases hge with hge | hge
    · obtain ⟨x, hx, hxs⟩ := edgesOf_covers i2 [] g hg e hge
      exact ⟨x, hx, Seg.same_symm hxs⟩
    · obtain ⟨x, hx, hxs⟩ := edgesOf_covers i2 [] g hg _ hge
      exact ⟨x, hx, Seg.same_trans (Seg.same_mk'_swap e.1 e.2) (Seg.same_symm hxs)⟩

/-- **edge count is canonical**: inputs with the same undirected edges give edge lists of the same length, each
    edge of one list being `Seg.same` to exactly one edge of the other -/
theorem edgesOf_length_eq (i1 i2 : List Polygon) (h : SameUEdges i1 i2) :
    (edgesOf i1 []).length = (edgesOf i2 []).length := by
  apply length_eq_of_classes (fun a b : Seg => a.same b = true) (fun _ _ => Seg.same_symm)
    (fun _ _ _ => Seg.same_trans) _ _ (edgesOf_noSame i1 [] List.Pairwise.nil)
    (edgesOf_noSame i2 [] List.Pairwise.nil) (edgesOf_class_sub i1 i2 h.1)
  intro b hb
  obtain ⟨a, ha, hab⟩ := edgesOf_class_sub i2 i1 h.2 b hb
  exact ⟨a, ha, Seg.same_symm hab⟩

/-! ### the explicit form of a successful `ConvexPolyhedron(...)` -/
/-- the face the constructor stores for the input polygon `g` (centre `c`): `-g` when `g` looks towards `c` -/
def flipOf (c : V3) (g : Polygon) : Polygon :=
  if dot (sub g.plane.p c) g.plane.n < 0 then (match g.neg? with | .ok q => q | .error _ => g) else g

theorem orientFace_ok (c : V3) (g : Polygon) (pr : Polygon × (Polygon × V3)) (h : orientFace c g = .ok pr) :
    pr = (flipOf c g, (g, c)) ∧ ¬ g.plane.contains c = true ∧
    (dot (sub g.plane.p c) g.plane.n < 0 → g.neg? = .ok (flipOf c g)) := by
  unfold orientFace at h
  simp only [bind, Except.bind] at h
  unfold flipOf
  by_cases hd : dot (sub g.plane.p c) g.plane.n < 0
  · rw [if_pos hd] at h ⊢
    cases hn : g.neg? with
    | error e => rw [hn] at h; cases h
    | ok q =>
      rw [hn] at h
      simp only at h
      split at h
      · cases h
      · rename_i hc
        simp only [pure, Except.pure] at h
        cases h
        exact ⟨rfl, hc, fun _ => rfl⟩
  · rw [if_neg hd] at h ⊢
    simp only [pure, Except.pure] at h
    split at h
    · cases h
    · rename_i hc
      cases h
      exact ⟨rfl, hc, fun hd' => absurd hd' hd⟩

theorem orientFace_intro (c : V3) (g : Polygon) (hc : ¬ g.plane.contains c = true)
    (hn : dot (sub g.plane.p c) g.plane.n < 0 → ∃ q, g.neg? = .ok q) :
    orientFace c g = .ok (flipOf c g, (g, c)) := by
  unfold orientFace flipOf
  by_cases hd : dot (sub g.plane.p c) g.plane.n < 0
  · obtain ⟨q, hq⟩ := hn hd
    simp only [if_pos hd, hq, bind, Except.bind, if_neg hc, pure, Except.pure]
  · simp only [if_neg hd, bind, Except.bind, if_neg hc, pure, Except.pure]

theorem mapM_ok_of_forall {α β ε : Type} (f : α → Except ε β) (g : α → β) :
    ∀ l : List α, (∀ a ∈ l, f a = .ok (g a)) → l.mapM f = .ok (l.map g) := by
  intro l
  induction l with
  | nil => intro _; rfl
  | cons a l ih =>
    intro h
    rw [List.mapM_cons]
    simp only [bind, Except.bind, h a (by simp), ih (fun b hb => h b (List.mem_cons_of_mem _ hb)), List.map_cons]
    rfl

theorem forall₂_eq_map {α β : Type} (g : α → β) : ∀ (l : List α) (out : List β),
    List.Forall₂ (fun a b => b = g a) l out → out = l.map g := by
  intro l out h
  induction h with
  | nil => rfl
  | cons ha _ ih => rw [List.map_cons, ← ih, ha]

/-- everything a successful constructor call stores, as functions of the input -/
theorem Polyhedron.mk?_eq (input : List Polygon) (B : Polyhedron) (h : Polyhedron.mk? input = .ok B) :
    B.verts = collectVerts input ∧ B.edges = edgesOf input [] ∧
    (∀ f ∈ input, ∀ e ∈ closedPairs f.pts, e.1 ≠ e.2) ∧
    B.center = meanV (collectVerts input) ∧
    B.faces = input.map (flipOf B.center) ∧ B.pyramids = input.map (fun g => (g, B.center)) ∧
    (∀ g ∈ input, orientFace B.center g = .ok (flipOf B.center g, (g, B.center))) ∧
    (∀ g ∈ input, 0 ≤ dot (sub (flipOf B.center g).plane.p B.center) (flipOf B.center g).plane.n) ∧
    ((collectVerts input).length : Int) - (edgesOf input []).length + input.length = 2 ∧
    collectVerts input ≠ [] := by
  obtain ⟨hout, heul, ⟨hcen, hverts, hne⟩, hlen, _⟩ := Polyhedron.mk?_ok input B h
  unfold Polyhedron.mk? at h
  simp only [bind, Except.bind] at h
  cases he : collectEdges input [] with
  | error e => rw [he] at h; cases h
  | ok edges =>
    rw [he] at h
    simp only at h
    by_cases hv : (collectVerts input).length = 0
    · rw [if_pos hv] at h; cases h
    · rw [if_neg hv] at h
      cases hf : input.mapM (orientFace (meanV (collectVerts input))) with
      | error e => rw [hf] at h; cases h
      | ok fp =>
        rw [hf] at h
        simp only at h
        split at h
        · cases h
        · split at h
          · cases h
          · simp only [pure, Except.pure] at h
            cases h
            simp only at hout heul hlen
            obtain ⟨hE, hdist⟩ := (collectEdges_ok_iff input [] edges).mp he
            have hF := mapM_ok_forall₂ _ input fp hf
            have hfp : fp = input.map (fun g => (flipOf (meanV (collectVerts input)) g,
                (g, meanV (collectVerts input)))) := by
              apply forall₂_eq_map
              exact hF.imp (fun a b hab => (orientFace_ok _ a b hab).1)
            have hor : ∀ g ∈ input, orientFace (meanV (collectVerts input)) g =
                .ok (flipOf (meanV (collectVerts input)) g, (g, meanV (collectVerts input))) := by
              intro g hg
              have : ∀ (l : List Polygon) (out : List (Polygon × (Polygon × V3))),
                  List.Forall₂ (fun a b => orientFace (meanV (collectVerts input)) a = .ok b) l out →
                  g ∈ l → ∃ b, orientFace (meanV (collectVerts input)) g = .ok b := by
                intro l out hF
                induction hF with
                | nil => intro hg; cases hg
                | cons ha _ ih =>
                  intro hg
                  rcases List.mem_cons.mp hg with rfl | hg
                  · exact ⟨_, ha⟩
                  · exact ih hg
              obtain ⟨b, hb⟩ := this input fp hF hg
              rw [hb, (orientFace_ok _ g b hb).1]
            have hfaces : List.map (fun x => x.1) fp = input.map (flipOf (meanV (collectVerts input))) := by
              rw [hfp, List.map_map]; rfl
            have hpyr : List.map (fun x => x.2) fp = input.map (fun g => (g, meanV (collectVerts input))) := by
              rw [hfp, List.map_map]; rfl
            refine ⟨rfl, hE, hdist, rfl, hfaces, hpyr, hor, ?_, ?_, hne⟩
            · intro g hg
              apply hout
              rw [hfaces]
              exact List.mem_map.mpr ⟨g, hg, rfl⟩
            · rw [← hE]
              have : (List.map (fun x => x.1) fp).length = input.length := by rw [hfaces]; simp
              rw [this] at heul
              exact heul

/-- conversely: when the edge endpoints are distinct, there is a vertex, every face passes `orientFace`, the
    stored faces look away from the centre and Euler's formula holds, the constructor succeeds with these fields -/
theorem Polyhedron.mk?_intro (input : List Polygon)
    (hdist : ∀ f ∈ input, ∀ e ∈ closedPairs f.pts, e.1 ≠ e.2) (hne : collectVerts input ≠ [])
    (hor : ∀ g ∈ input, orientFace (meanV (collectVerts input)) g =
      .ok (flipOf (meanV (collectVerts input)) g, (g, meanV (collectVerts input))))
    (hnorm : ∀ g ∈ input, 0 ≤ dot (sub (flipOf (meanV (collectVerts input)) g).plane.p (meanV (collectVerts input)))
      (flipOf (meanV (collectVerts input)) g).plane.n)
    (heul : ((collectVerts input).length : Int) - (edgesOf input []).length + input.length = 2) :
    Polyhedron.mk? input = .ok ⟨input.map (flipOf (meanV (collectVerts input))), collectVerts input,
      edgesOf input [], input.map (fun g => (g, meanV (collectVerts input))), meanV (collectVerts input)⟩ := by
  have hE : collectEdges input [] = .ok (edgesOf input []) := (collectEdges_ok_iff input [] _).mpr ⟨rfl, hdist⟩
  have hv : ¬ (collectVerts input).length = 0 := by
    intro h0; exact hne (List.length_eq_zero_iff.mp h0)
  have hmap := mapM_ok_of_forall (orientFace (meanV (collectVerts input)))
    (fun g => (flipOf (meanV (collectVerts input)) g, (g, meanV (collectVerts input)))) input hor
  have hall : ¬ (!(input.map (flipOf (meanV (collectVerts input)))).all
      (fun f => decide (0 ≤ dot (sub f.plane.p (meanV (collectVerts input))) f.plane.n))) = true := by
    have : (input.map (flipOf (meanV (collectVerts input)))).all
        (fun f => decide (0 ≤ dot (sub f.plane.p (meanV (collectVerts input))) f.plane.n)) = true := by
      rw [List.all_eq_true]
      intro f hf
      obtain ⟨g, hg, rfl⟩ := List.mem_map.mp hf
      exact decide_eq_true (hnorm g hg)
    rw [this]; simp
  have heul' : ¬ (((collectVerts input).length : Int) - (edgesOf input []).length +
      (input.map (flipOf (meanV (collectVerts input)))).length != 2) = true := by
    rw [List.length_map, heul]; simp
  unfold Polyhedron.mk?
  simp only [bind, Except.bind, hE, if_neg hv, hmap, List.map_map, Function.comp_def, if_neg hall, if_neg heul',
    pure, Except.pure]

#print axioms collectVerts_perm
#print axioms edgesOf_length_eq
#print axioms closedPairs_rotate
#print axioms Polyhedron.mk?_eq
#print axioms Polyhedron.mk?_intro
end G3D
