import G3D.Extracted.Poly
import G3D.Proofs.Vec
namespace G3D.Extracted
open G3D V3

theorem impl_add_eq (a b : V3) : impl_add a b = V3.add a b := by
  apply V3.ext' <;> simp only [impl_add, V3.add, V3.sub, V3.smul, V3.neg, V3.cross] <;> ring
theorem impl_sub_eq (a b : V3) : impl_sub a b = V3.sub a b := by
  apply V3.ext' <;> simp only [impl_sub, V3.add, V3.sub, V3.smul, V3.neg, V3.cross] <;> ring
theorem impl_smul_eq (a : V3) (k : Rat) : impl_smul a k = V3.smul k a := by
  apply V3.ext' <;> simp only [impl_smul, V3.add, V3.sub, V3.smul, V3.neg, V3.cross] <;> ring
theorem impl_rsmul_eq (a : V3) (k : Rat) : impl_rsmul a k = V3.smul k a := by
  apply V3.ext' <;> simp only [impl_rsmul, V3.add, V3.sub, V3.smul, V3.neg, V3.cross] <;> ring
theorem impl_neg_eq (a : V3) : impl_neg a = V3.neg a := by
  apply V3.ext' <;> simp only [impl_neg, V3.add, V3.sub, V3.smul, V3.neg, V3.cross] <;> ring
theorem impl_cross_eq (a b : V3) : impl_cross a b = V3.cross a b := by
  apply V3.ext' <;> simp only [impl_cross, V3.add, V3.sub, V3.smul, V3.neg, V3.cross] <;> ring
theorem impl_fromPoints_eq (p q : V3) : impl_fromPoints p q = V3.sub q p := by
  apply V3.ext' <;> simp only [impl_fromPoints, V3.add, V3.sub, V3.smul, V3.neg, V3.cross] <;> ring
theorem impl_pv_eq (p : V3) : impl_pv p = p := by
  apply V3.ext' <;> simp only [impl_pv, V3.add, V3.sub, V3.smul, V3.neg, V3.cross] <;> ring
theorem impl_pointMoveReceiver_eq (p a : V3) : impl_pointMoveReceiver p a = V3.add p a := by
  apply V3.ext' <;> simp only [impl_pointMoveReceiver, V3.add, V3.sub, V3.smul, V3.neg, V3.cross] <;> ring
theorem impl_pointMoveReturned_eq (p a : V3) : impl_pointMoveReturned p a = V3.add p a := by
  apply V3.ext' <;> simp only [impl_pointMoveReturned, V3.add, V3.sub, V3.smul, V3.neg, V3.cross] <;> ring
theorem impl_dot_eq (a b : V3) : impl_dot a b = V3.dot a b := by
  simp only [impl_dot, V3.dot]; ring
end G3D.Extracted
