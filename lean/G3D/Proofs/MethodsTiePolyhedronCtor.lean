import G3D.Extracted.Mpolyhedron
import G3D.Proofs.MethodsTiePolyhedronShared
import G3D.Proofs.MethodsTiePolyhedronHelpers
/-! # Tie, group `mpolyhedron`, role CONSTRUCTION (C09; error branches C15): `Pyramid.__init__`, `ConvexPolyhedron.__init__` = `Polyhedron.mk?`, unconditional.
    Imports `MethodsTiePolyhedronHelpers` (`__init__` calls the three helper methods).  Conventions, trusted readings and the deviations found: `G3D.Proofs.MethodsTie`, header of `G3D.Model.PyRtM`. -/
set_option linter.unusedSimpArgs false
set_option linter.unusedVariables false
set_option linter.style.nameCheck false
set_option linter.unusedTactic false
set_option linter.unreachableTactic false
namespace G3D.Tie
open V3 PyRt Extracted

theorem new_Pyramid_eq (f : Polygon) (c : V3) (dc : Bool) :
    new_Pyramid (.obj (.polygon f)) (.obj (ptObj c)) (.bool dc) = pyPyramid (.obj (.polygon f)) (.obj (ptObj c)) (.bool dc) := by
  unfold new_Pyramid m_Pyramid___init__
  cases dc <;> by_cases h : f.plane.contains c = true <;>
    simp [pyrt, ptObj, pyFld, pyInM, pyContains, pyPyramid, pyPack_Pyramid, Self.empty, h]

theorem new_ConvexPolyhedron_eq (fs : List Polygon) :
    new_ConvexPolyhedron (.seq (fs.map Obj.polygon)) = ofCtor Obj.polyhedron (Polyhedron.mk? fs) := by
  unfold new_ConvexPolyhedron m_ConvexPolyhedron___init__
  simp only [pyrt, Self.empty, List.map_map]
  have h0 : ({ f_convex_polygons := some (Val.seq (List.map Obj.polygon fs)), f_point_set := some (Val.set []), f_segment_set := some (Val.set []), f_pyramid_set := some (Val.set []) } : Self) = (fun st : List V3 × List Seg => setVE (initSelf fs) st.1 st.2) ([], []) := rfl
  rw [h0]
  rw [forIn_repr (Val.obj ∘ Obj.polygon) (fun st : List V3 × List Seg => setVE (initSelf fs) st.1 st.2) fs _ collectStep]
  rotate_left
  · intro f _ st
    exact collect_body_eq _ f st.1 st.2
  rw [collect_forIn]
  unfold Polyhedron.mk?
  cases collectEdges fs [] with
  | error e => simp [liftC, ofCtor]
  | ok es =>
    simp only [liftC, pyrt]
    rw [m_ConvexPolyhedron__get_center_point_eq _ (collectVerts fs) rfl]
    by_cases hvz : collectVerts fs = []
    · simp [hvz, ofCtor]
    have hlen0 : ¬ (collectVerts fs).length = 0 := by simpa using hvz
    simp only [hvz, if_false, pyrt, setVE, initSelf, pyFld_some, List.length_map, Int.sub_zero, Int.toNat_natCast, hlen0]
    have hinit : ({ f_center_point := some (Val.obj (ptObj (meanV (collectVerts fs)))), f_convex_polygons := some (Val.seq (List.map Obj.polygon fs)), f_point_set := some (Val.ptSet (List.foldl (fun acc f => List.foldl addPt acc f.pts) [] fs)), f_segment_set := some (Val.set (List.map sgObj es)), f_pyramid_set := some (Val.set []) } : Self) = orientRepr fs (collectVerts fs) es (meanV (collectVerts fs)) [] := rfl
    rw [hinit]
    rw [forIn_repr_idx0 (orientRepr fs (collectVerts fs) es (meanV (collectVerts fs))) (fun k d => d.length = k) _
      (fun f d => do let r ← liftC (orientFace (meanV (collectVerts fs)) f); pure (ForInStep.yield (d ++ [r]))) fs [] rfl]
    rotate_left
    · intro k f hf d hd
      exact orient_body_eq fs _ es _ k f hf d hd
    · intro k f hf d d' hd hstep
      cases ho : liftC (orientFace (meanV (collectVerts fs)) f) with
      | error e => simp [ho] at hstep
      | ok r =>
        simp [ho] at hstep
        subst hstep
        simp [hd]
    rw [forIn_append_mapM, ← liftC_mapM]
    cases hfp : fs.mapM (orientFace (meanV (collectVerts fs))) with
    | error e => simp [liftC, ofCtor]
    | ok fp =>
      have hfl : fp.length = fs.length := mapM_length _ fs fp hfp
      have hfin : orientRepr fs (collectVerts fs) es (meanV (collectVerts fs)) ([] ++ fp) =
          { f_convex_polygons := some (.seq ((fp.map (·.1)).map Obj.polygon)), f_point_set := some (Val.ptSet (collectVerts fs)),
            f_segment_set := some (.set (es.map sgObj)), f_pyramid_set := some (.set (flatPyr (fp.map (·.2)))),
            f_center_point := some (.obj (ptObj (meanV (collectVerts fs)))) } := by
        simp [orientRepr, hfl]
      simp only [liftC, pyrt, hfin]
      rw [m_ConvexPolyhedron__check_normal_eq _ (fp.map (·.1)) (meanV (collectVerts fs)) rfl rfl]
      rw [m_ConvexPolyhedron__euler_check_eq _ ((fp.map (·.1)).map Obj.polygon) ((collectVerts fs).map ptObj) (es.map sgObj) rfl rfl rfl]
      simp only [show (fun f : Polygon => decide (0 ≤ (f.plane.p.sub (meanV (collectVerts fs))).dot f.plane.n)) =
        outward (meanV (collectVerts fs)) from rfl, List.length_map, pyrt, pyNot, Val.truthy]
      cases (List.map (fun x => x.1) fp).all (outward (meanV (collectVerts fs)))
      · simp [ofCtor]
      · by_cases he : ((collectVerts fs).length : Int) - es.length + fp.length = 2
        · simp [he, ofCtor, pyPack_ConvexPolyhedron, Val.ptSet, allPolygons_polygon, allPolygons_comp, allPoints_pt, allSegs_sg, unflatPyr_flatPyr, ptObj]
        · simp [he, ofCtor]

end G3D.Tie
