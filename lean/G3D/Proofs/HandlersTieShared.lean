import G3D.Proofs.HandlersTieNoErr
/-! Lemmas shared by the four tie modules `HandlersTie{Flat,Polygon,Polyhedron,Body}` (which do not import each other):
    indexed `range` loops, one round of a face / edge hit loop, the early-return × point-set loop state. -/
set_option linter.unusedSimpArgs false
set_option linter.unusedVariables false
namespace G3D.Tie
open V3 PyRt

/-- list elements paired with their Python index -/
def indexed {α : Type} (lo : Int) : List α → List (α × Int)
  | [] => []
  | x :: xs => (x, lo) :: indexed (lo + 1) xs

theorem map_snd_indexed {α : Type} (xs : List α) (lo : Int) :
    (indexed lo xs).map (fun xi => Val.int xi.2) = (intsFrom lo xs.length).map Val.int := by
  induction xs generalizing lo with
  | nil => rfl
  | cons x xs ih => simp [indexed, intsFrom, ih]

theorem mem_indexed {α : Type} (xs : List α) (lo : Int) (x : α) (i : Int) (h : (x, i) ∈ indexed lo xs) :
    ∃ k : Nat, i = lo + k ∧ xs[k]? = some x := by
  induction xs generalizing lo with
  | nil => simp [indexed] at h
  | cons y ys ih =>
    simp only [indexed, List.mem_cons, Prod.mk.injEq] at h
    rcases h with ⟨rfl, rfl⟩ | h
    · exact ⟨0, by simp, rfl⟩
    · obtain ⟨k, hk, hx⟩ := ih (lo + 1) h
      exact ⟨k + 1, by rw [hk]; push_cast; omega, by simpa using hx⟩

theorem forIn_indexed {α σ : Type} (xs : List α) (lo : Int) (s : σ) (step : α → σ → PyM (ForInStep σ)) :
    forIn (indexed lo xs) s (fun xi => step xi.1) = forIn xs s step := by
  induction xs generalizing lo s with
  | nil => rfl
  | cons x xs ih =>
    simp only [indexed, List.forIn_cons]
    congr 1; funext r; cases r <;> simp [ih]

theorem pyIndex_seq_nat (l : List Obj) (k : Nat) (o : Obj) (h : l[k]? = some o) :
    pyIndex (.seq l) (.int (k : Int)) = .ok (.obj o) := by
  have hk : k < l.length := by
    rcases Nat.lt_or_ge k l.length with hlt | hge
    · exact hlt
    · rw [List.getElem?_eq_none hge] at h; cases h
  obtain ⟨_, hget⟩ := List.getElem?_eq_some_iff.mp h
  simp [pyIndex, normIdx, hk, hget]

/-- one round of a face loop `inter = face.intersection(x); None/Segment: continue; Point: add; else Bug` -/
theorem faceBody_eq (r : ResB) (acc : List V3) :
    (do let inter ← Val.ofRes r
        if (pyIsNone inter).truthy = true then Except.ok (ForInStep.yield (Val.ptSet acc))
        else if (pyIsInstance inter PyTy.Segment).truthy = true then Except.ok (ForInStep.yield (Val.ptSet acc))
        else if (pyIsInstance inter PyTy.Point).truthy = true then do
          let point_set ← pySetAdd (Val.ptSet acc) inter
          Except.ok (ForInStep.yield point_set)
        else do
          throw BErr.bug
          Except.ok (ForInStep.yield (Val.ptSet acc))) =
      ForInStep.map' Val.ptSet <$> (match r with
        | .ok none => .ok (.yield acc)
        | .ok (some (.flat (.seg _))) => .ok (.yield acc)
        | .ok (some (.flat (.point q))) => .ok (.yield (addNew acc q))
        | .ok _ => .error .bug
        | .error e => .error e) := by
  rcases r with e | o
  · simp [pyrt]
  · rcases o with _ | ⟨g | P | B'⟩
    · simp [pyrt, ForInStep.map']
    · cases g <;> simp [pyrt, ForInStep.map', Val.ptSet]
    · simp [pyrt, ForInStep.map']
    · simp [pyrt, ForInStep.map']

/-- one round of an edge loop; the model maps every exception of the inner flat call to "Bug detected" -/
theorem edgeBody_eq (r : Res) (hr : OnlyBug r) (acc : List V3) :
    (do let inter ← Val.ofRes (liftFlat r)
        if (pyIsNone inter).truthy = true then Except.ok (ForInStep.yield (Val.ptSet acc))
        else if (pyIsInstance inter PyTy.Segment).truthy = true then Except.ok (ForInStep.yield (Val.ptSet acc))
        else if (pyIsInstance inter PyTy.Point).truthy = true then do
          let point_set ← pySetAdd (Val.ptSet acc) inter
          Except.ok (ForInStep.yield point_set)
        else do
          throw BErr.bug
          Except.ok (ForInStep.yield (Val.ptSet acc))) =
      ForInStep.map' Val.ptSet <$> (match (generalizing := false) r with
        | .ok none => .ok (.yield acc)
        | .ok (some (.seg _)) => .ok (.yield acc)
        | .ok (some (.point q)) => .ok (.yield (addNew acc q))
        | _ => .error .bug) := by
  rcases r with e | o
  · cases hr e rfl; simp [pyrt]
  · rcases o with _ | g
    · simp [pyrt, ForInStep.map']
    · cases g <;> simp [pyrt, ForInStep.map', Val.ptSet]

/-- representation of a loop state "early-return slot × collected point set" -/
def reprRP (st : Option Obj × List V3) : Option Val × Val := (st.1.map Val.obj, Val.ptSet st.2)

end G3D.Tie
