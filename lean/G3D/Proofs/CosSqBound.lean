import G3D.Proofs.Angle

/-! Shape-builder frame selection: a non-zero vector cannot be within a small angle of both the
    x axis and the y axis (`cos² ∠(n,x) + cos² ∠(n,y) ≤ 1`), and `cos² = 1` exactly when the
    cross product vanishes. -/
namespace G3D
open V3

theorem cosSqVec_ex (n : V3) : cosSqVec n ⟨1,0,0⟩ = n.x^2 / normSq n := by
  simp [cosSqVec, dot, normSq]

theorem cosSqVec_ey (n : V3) : cosSqVec n ⟨0,1,0⟩ = n.y^2 / normSq n := by
  simp [cosSqVec, dot, normSq]

theorem cosSqVec_ez (n : V3) : cosSqVec n ⟨0,0,1⟩ = n.z^2 / normSq n := by
  simp [cosSqVec, dot, normSq]

/-- the three direction cosines squared sum to one -/
theorem cosSq_axes_sum (n : V3) (hn : n ≠ zero) :
    cosSqVec n ⟨1,0,0⟩ + cosSqVec n ⟨0,1,0⟩ + cosSqVec n ⟨0,0,1⟩ = 1 := by
  have hN := normSq_pos hn
  rw [cosSqVec_ex, cosSqVec_ey, cosSqVec_ez, ← add_div, ← add_div, div_eq_one_iff_eq (ne_of_gt hN)]
  simp only [normSq, dot]; ring

/-- `n` cannot be close to both the x and the y axis -/
theorem cosSq_xy_le_one (n : V3) (hn : n ≠ zero) :
    cosSqVec n ⟨1,0,0⟩ + cosSqVec n ⟨0,1,0⟩ ≤ 1 := by
  have hN := normSq_pos hn
  rw [cosSqVec_ex, cosSqVec_ey, ← add_div, div_le_one hN]
  simp only [normSq, dot]; nlinarith [sq_nonneg n.z]

/-- consequence used by the frame selection: if `cos²∠(n,x) > 1/2` then `cos²∠(n,y) < 1/2` -/
theorem cosSq_x_big_y_small (n : V3) (hn : n ≠ zero) (t : Rat)
    (h : t < cosSqVec n ⟨1,0,0⟩) : cosSqVec n ⟨0,1,0⟩ < 1 - t := by
  have := cosSq_xy_le_one n hn
  linarith

/-- `cos² = 1` exactly when the cross product vanishes -/
theorem cosSqVec_eq_one_iff_cross (n e : V3) (hn : n ≠ zero) (he : e ≠ zero) :
    cosSqVec n e = 1 ↔ cross n e = zero := by
  rw [← parallel_iff_cosSq_one n e hn he, parallel_iff_cross]

/-- quantitative form (Lagrange): `1 − cos² = |n × e|² / (|n|²|e|²)` -/
theorem one_sub_cosSqVec (n e : V3) (hn : n ≠ zero) (he : e ≠ zero) :
    1 - cosSqVec n e = normSq (cross n e) / (normSq n * normSq e) := by
  have hN := normSq_pos hn; have hE := normSq_pos he
  have hne : normSq n * normSq e ≠ 0 := ne_of_gt (mul_pos hN hE)
  rw [lagrange, cosSqVec, sub_div, div_self hne]

#print axioms cosSq_xy_le_one
#print axioms cosSq_axes_sum
#print axioms cosSqVec_eq_one_iff_cross
#print axioms one_sub_cosSqVec
end G3D
