import G3D.Proofs.TolGeoBase
import Mathlib.Tactic.NormNum

/-! C19 for Vector / Point (base case) and for Line:
    copies perturbed by eps/1000 per defining coordinate compare equal and contain each other's points;
    the lower bound on the parameter `t` in the containment statement is NECESSARY (`Line.contains_gap`). -/
namespace G3D.TolGeo
open R3

/-! ## Vector / Point -/

/-- (a) Points/Vectors whose coordinates differ by ≤ eps/1000 compare equal, in both orders -/
theorem vecEq_of_close {eps : ℝ} {a b : R3} (heps : 0 < eps) (h : closeBy (eps / 1000) a b) :
    vecEq eps a b ∧ vecEq eps b a := by
  obtain ⟨h1, h2, h3⟩ := h
  have hlt : eps / 1000 < eps := by linarith
  refine ⟨⟨?_, ?_, ?_⟩, ⟨?_, ?_, ?_⟩⟩
  · rw [abs_sub_comm]; linarith
  · rw [abs_sub_comm]; linarith
  · rw [abs_sub_comm]; linarith
  · linarith
  · linarith
  · linarith

/-- the same with the coarser perturbation eps/100 used by the campaign -/
theorem vecEq_of_close100 {eps : ℝ} {a b : R3} (heps : 0 < eps) (h : closeBy (eps / 100) a b) :
    vecEq eps a b ∧ vecEq eps b a := by
  obtain ⟨h1, h2, h3⟩ := h
  have hlt : eps / 100 < eps := by linarith
  refine ⟨⟨?_, ?_, ?_⟩, ⟨?_, ?_, ?_⟩⟩
  · rw [abs_sub_comm]; linarith
  · rw [abs_sub_comm]; linarith
  · rw [abs_sub_comm]; linarith
  · linarith
  · linarith
  · linarith

/-- Points/Vectors differing by more than 4·eps (indeed: by at least eps) in SOME coordinate compare unequal -/
theorem not_vecEq_of_far {eps : ℝ} {a b : R3} (heps : 0 < eps)
    (h : 4 * eps < |a.x - b.x| ∨ 4 * eps < |a.y - b.y| ∨ 4 * eps < |a.z - b.z|) :
    ¬ vecEq eps a b ∧ ¬ vecEq eps b a := by
  constructor
  · rintro ⟨h1, h2, h3⟩
    rcases h with h | h | h <;> linarith
  · rintro ⟨h1, h2, h3⟩
    rw [abs_sub_comm] at h1 h2 h3
    rcases h with h | h | h <;> linarith

/-- a vector all of whose coordinates are below eps passes `== Vector.zero()` -/
theorem isZero_of_coord {eps : ℝ} {a : R3} (hx : |a.x| < eps) (hy : |a.y| < eps) (hz : |a.z| < eps) :
    isZero eps a := by
  unfold isZero vecEq R3.zero; simpa using ⟨hx, hy, hz⟩

theorem isZero_coord {eps : ℝ} {a : R3} (h : isZero eps a) :
    |a.x| < eps ∧ |a.y| < eps ∧ |a.z| < eps := by
  unfold isZero vecEq R3.zero at h; simpa using h

/-! ## the parallel test on perturbed data -/

/-- **Core.**  `a = t·d + e` (a point of the line through the unperturbed support, seen from the perturbed
    support) and `b = d + f` (perturbed direction), `|e_i| ≤ eps/1000`, `|f_i| ≤ 2·eps/1000`, `|d| ≥ 1/10`,
    `|t| ≥ √eps`  ⇒  the last comparison of `Vector.parallel` succeeds. -/
theorem parallelT_perturbed {eps t : ℝ} {d e f : R3} (heps : 0 < eps) (heps1 : eps ≤ 1)
    (he : |e.x| ≤ eps / 1000 ∧ |e.y| ≤ eps / 1000 ∧ |e.z| ≤ eps / 1000)
    (hf : |f.x| ≤ 2 * (eps / 1000) ∧ |f.y| ≤ 2 * (eps / 1000) ∧ |f.z| ≤ 2 * (eps / 1000))
    (hd : 1 / 100 ≤ dot d d) (ht : eps ≤ t ^ 2) :
    parallelT eps (add (smul t d) e) (add d f) := by
  right; right
  have hee : dot e e ≤ 3 * (eps / 1000 * (eps / 1000)) := dot_self_le_of_coord he.1 he.2.1 he.2.2
  have hff : dot f f ≤ 3 * (2 * (eps / 1000) * (2 * (eps / 1000))) :=
    dot_self_le_of_coord hf.1 hf.2.1 hf.2.2
  have hee0 := dot_self_nonneg e
  have hff0 := dot_self_nonneg f
  have hA0 := dot_add_self_ge (smul t d) e
  rw [dot_smul_self] at hA0
  have hB0 := dot_add_self_ge d f
  have hc := cross_perturbed_le t d e f
  have hdd0 : 0 ≤ dot d d := dot_self_nonneg d
  have htd : eps * dot d d ≤ t ^ 2 * dot d d := mul_le_mul_of_nonneg_right ht hdd0
  have hee2 : eps * eps ≤ eps := by nlinarith
  generalize hAdef : dot (add (smul t d) e) (add (smul t d) e) = A at *
  generalize hBdef : dot (add d f) (add d f) = B at *
  have hA : eps * dot d d / 4 ≤ A := by nlinarith
  have hApos : 0 < A := by nlinarith
  have hB : 1 / 256 ≤ B := by nlinarith
  have hlb : 1 / 16 ≤ len (add d f) := le_len (by norm_num) (by rw [hBdef]; linarith)
  have h1 : eps * A * (1 / 16) ≤ eps * A * len (add d f) :=
    mul_le_mul_of_nonneg_left hlb (by positivity)
  have s1 : dot e e * dot d d ≤ 3 * (eps / 1000 * (eps / 1000)) * dot d d :=
    mul_le_mul_of_nonneg_right hee hdd0
  have s2 : A * dot f f ≤ A * (3 * (2 * (eps / 1000) * (2 * (eps / 1000)))) :=
    mul_le_mul_of_nonneg_left hff hApos.le
  have s3 : eps * (eps * dot d d / 4) ≤ eps * A := mul_le_mul_of_nonneg_left hA heps.le
  have s4 : eps * eps * A ≤ eps * A := mul_le_mul_of_nonneg_right hee2 hApos.le
  have s5 : 0 < eps * A := mul_pos heps hApos
  refine parallel_core (a := add (smul t d) e) (b := add d f) ?_ ?_ ?_
  · rw [hAdef]; exact hApos
  · rw [hBdef]; linarith
  · rw [hAdef]; linarith

/-! ## Line -/

/-- (a) **Line equality.**  Lines whose support point and direction are perturbed by ≤ eps/1000 per coordinate
    compare equal in both orders — no bound on the data is needed: `Point(l'.sv) in l` is decided by the early
    exit `v == zero`, `l'.dv.parallel(l.dv)` by the early exit `self == other` (utils/vector.py:141-144). -/
theorem Line.eqT_of_close {eps : ℝ} {l l' : Line} (heps : 0 < eps)
    (hsv : closeBy (eps / 1000) l.sv l'.sv) (hdv : closeBy (eps / 1000) l.dv l'.dv) :
    Line.eqT eps l l' ∧ Line.eqT eps l' l := by
  have hlt : eps / 1000 < eps := by linarith
  have z1 : isZero eps (sub l'.sv l.sv) := by
    obtain ⟨h1, h2, h3⟩ := hsv.sub_coord
    exact isZero_of_coord (by linarith) (by linarith) (by linarith)
  have z2 : isZero eps (sub l.sv l'.sv) := by
    obtain ⟨h1, h2, h3⟩ := hsv.symm.sub_coord
    exact isZero_of_coord (by linarith) (by linarith) (by linarith)
  have e := vecEq_of_close heps hdv
  exact ⟨⟨Or.inl (Or.inl z1), Or.inr (Or.inl e.2)⟩, ⟨Or.inl (Or.inl z2), Or.inr (Or.inl e.1)⟩⟩

/-- the same for any per-coordinate perturbations `δ₁, δ₂ < eps` of support and direction (covers eps/100, and the
    lines of Segments, whose direction `end − start` moves by up to 2·eps/1000) -/
theorem Line.eqT_of_close_gen {eps δ₁ δ₂ : ℝ} {l l' : Line} (h1 : δ₁ < eps) (h2 : δ₂ < eps)
    (hsv : closeBy δ₁ l.sv l'.sv) (hdv : closeBy δ₂ l.dv l'.dv) :
    Line.eqT eps l l' ∧ Line.eqT eps l' l := by
  have z1 : isZero eps (sub l'.sv l.sv) := by
    obtain ⟨a1, a2, a3⟩ := hsv.sub_coord
    exact isZero_of_coord (by linarith) (by linarith) (by linarith)
  have z2 : isZero eps (sub l.sv l'.sv) := by
    obtain ⟨a1, a2, a3⟩ := hsv.symm.sub_coord
    exact isZero_of_coord (by linarith) (by linarith) (by linarith)
  obtain ⟨b1, b2, b3⟩ := hdv
  have e1 : vecEq eps l'.dv l.dv := ⟨by linarith, by linarith, by linarith⟩
  have e2 : vecEq eps l.dv l'.dv := by
    refine ⟨?_, ?_, ?_⟩ <;> rw [abs_sub_comm] <;> linarith
  exact ⟨⟨Or.inl (Or.inl z1), Or.inr (Or.inl e1)⟩, ⟨Or.inl (Or.inl z2), Or.inr (Or.inl e2)⟩⟩

/-- a point within eps (coordinate-wise) of the support point is contained: early exit `v == zero` -/
theorem Line.containsT_near {eps : ℝ} (l : Line) {x : R3} (h : vecEq eps x l.sv) :
    Line.containsT eps l x :=
  Or.inl (Or.inl (isZero_of_coord h.1 h.2.1 h.2.2))

/-- (b) **Line contains the other line's points.**  `x = l.sv + t·l.dv` lies exactly on `l`; `l'` is a copy perturbed
    by ≤ eps/1000 per coordinate, `|l.dv| ≥ 1/10`.  Then `x in l'` for `t = 0` and for every `t` with `t² ≥ eps`
    (no upper bound on `t`, no upper bound on the coordinates). -/
theorem Line.containsT_of_close {eps t : ℝ} {l l' : Line} (heps : 0 < eps) (heps1 : eps ≤ 1)
    (hsv : closeBy (eps / 1000) l.sv l'.sv) (hdv : closeBy (eps / 1000) l.dv l'.dv)
    (hd : 1 / 100 ≤ dot l.dv l.dv) (ht : t = 0 ∨ eps ≤ t ^ 2) :
    Line.containsT eps l' (add l.sv (smul t l.dv)) := by
  have hlt : eps / 1000 < eps := by linarith
  rcases ht with ht | ht
  · subst ht
    apply Line.containsT_near
    obtain ⟨h1, h2, h3⟩ := hsv
    refine ⟨?_, ?_, ?_⟩ <;> simp only [add, smul, zero_mul, add_zero] <;>
      rw [abs_sub_comm] <;> linarith
  · have ea : sub (add l.sv (smul t l.dv)) l'.sv = add (smul t l.dv) (sub l.sv l'.sv) := by
      ext <;> simp only [add, sub, smul] <;> ring
    have eb : l'.dv = add l.dv (sub l'.dv l.dv) := by
      ext <;> simp only [add, sub] <;> ring
    unfold Line.containsT
    rw [ea, eb]
    refine parallelT_perturbed heps heps1 hsv.symm.sub_coord ?_ hd ht
    obtain ⟨h1, h2, h3⟩ := hdv.sub_coord
    have : (0 : ℝ) ≤ eps / 1000 := by linarith
    exact ⟨by linarith, by linarith, by linarith⟩

/-- the same for a segment-style direction (difference of two perturbed points: 2·eps/1000 per coordinate) -/
theorem Line.containsT_of_close2 {eps t : ℝ} {l l' : Line} (heps : 0 < eps) (heps1 : eps ≤ 1)
    (hsv : closeBy (eps / 1000) l.sv l'.sv) (hdv : closeBy (2 * (eps / 1000)) l.dv l'.dv)
    (hd : 1 / 100 ≤ dot l.dv l.dv) (ht : t = 0 ∨ eps ≤ t ^ 2) :
    Line.containsT eps l' (add l.sv (smul t l.dv)) := by
  have hlt : eps / 1000 < eps := by linarith
  rcases ht with ht | ht
  · subst ht
    apply Line.containsT_near
    obtain ⟨h1, h2, h3⟩ := hsv
    refine ⟨?_, ?_, ?_⟩ <;> simp only [add, smul, zero_mul, add_zero] <;>
      rw [abs_sub_comm] <;> linarith
  · have ea : sub (add l.sv (smul t l.dv)) l'.sv = add (smul t l.dv) (sub l.sv l'.sv) := by
      ext <;> simp only [add, sub, smul] <;> ring
    have eb : l'.dv = add l.dv (sub l'.dv l.dv) := by
      ext <;> simp only [add, sub] <;> ring
    unfold Line.containsT
    rw [ea, eb]
    exact parallelT_perturbed heps heps1 hsv.symm.sub_coord hdv.sub_coord hd ht

/-- (c) **Rejection.**  A support point displaced ORTHOGONALLY to the direction by a vector with some coordinate
    ≥ eps is not on the line, hence the displaced line (with any direction) is not equal to the original. -/
theorem Line.not_eqT_of_orth_shift {eps : ℝ} {l : Line} {w dv' : R3} (heps : 0 < eps) (heps1 : eps ≤ 1 / 16)
    (hd : 1 / 64 ≤ dot l.dv l.dv) (horth : dot w l.dv = 0)
    (hbig : eps ≤ |w.x| ∨ eps ≤ |w.y| ∨ eps ≤ |w.z|) :
    ¬ Line.containsT eps l (add l.sv w) ∧ ¬ Line.eqT eps l ⟨add l.sv w, dv'⟩ := by
  have key : ¬ Line.containsT eps l (add l.sv w) := by
    have ea : sub (add l.sv w) l.sv = w := by
      ext <;> simp only [add, sub] <;> ring
    unfold Line.containsT
    rw [ea]
    have heps2 : eps * eps ≤ 1 / 256 := by nlinarith
    rintro ((hz | hz) | hv | hlast)
    · obtain ⟨h1, h2, h3⟩ := isZero_coord hz
      rcases hbig with h | h | h <;> linarith
    · obtain ⟨h1, h2, h3⟩ := isZero_coord hz
      have := dot_self_le_of_coord h1.le h2.le h3.le
      nlinarith
    · -- |w - dv|² = |w|² + |dv|² ≥ 1/64 but < 3 eps²
      have h := dot_self_le_of_coord (a := sub w l.dv) (c := eps) hv.1.le hv.2.1.le hv.2.2.le
      have e2 : dot (sub w l.dv) (sub w l.dv) = dot w w + dot l.dv l.dv - 2 * dot w l.dv := by
        simp only [dot, sub]; ring
      have := dot_self_nonneg w
      rw [e2, horth] at h
      nlinarith
    · rw [horth, abs_zero, zero_sub, abs_neg,
        abs_of_nonneg (mul_nonneg (len_nonneg _) (len_nonneg _))] at hlast
      have hw : 0 < len w := by
        have h1 := abs_x_le_len w
        have h2 := abs_y_le_len w
        have h3 := abs_z_le_len w
        rcases hbig with h | h | h <;> linarith
      have hdv : 1 / 8 ≤ len l.dv := le_len (by norm_num) (by linarith)
      nlinarith
  exact ⟨key, fun h => key h.1⟩

/-- **The lower bound on `t` cannot be dropped.**  For every `0 < eps ≤ 1e-7` the x-axis `l` and its copy `l'`
    whose support point is moved by eps/1000 in y compare equal, but the point `x = l.sv + 2·eps·l.dv`, which lies
    exactly on `l`, FAILS `x in l'`: it is too far from the support for the early exit and too close for the
    angular test `| |a·b| − |a||b| | < eps·|a|`. -/
theorem Line.contains_gap {eps : ℝ} (heps : 0 < eps) (h7 : eps ≤ 1 / 10000000) :
    Line.eqT eps ⟨⟨0, 0, 0⟩, ⟨1, 0, 0⟩⟩ ⟨⟨0, eps / 1000, 0⟩, ⟨1, 0, 0⟩⟩ ∧
    ¬ Line.containsT eps ⟨⟨0, eps / 1000, 0⟩, ⟨1, 0, 0⟩⟩
        (add (⟨0, 0, 0⟩ : R3) (smul (2 * eps) ⟨1, 0, 0⟩)) := by
  constructor
  · refine (Line.eqT_of_close heps ?_ ?_).1
    · refine ⟨?_, ?_, ?_⟩ <;> simp only [sub_zero, sub_self, abs_zero] <;>
        first | positivity | exact le_of_eq (abs_of_pos (by positivity))
    · refine ⟨?_, ?_, ?_⟩ <;> simp only [sub_self, abs_zero] <;> positivity
  · unfold Line.containsT
    have ea : sub (add (⟨0, 0, 0⟩ : R3) (smul (2 * eps) ⟨1, 0, 0⟩)) ⟨0, eps / 1000, 0⟩
        = ⟨2 * eps, -(eps / 1000), 0⟩ := by
      ext <;> simp [add, sub, smul]
    rw [ea]
    show ¬ parallelT eps ⟨2 * eps, -(eps / 1000), 0⟩ ⟨1, 0, 0⟩
    rintro ((hz | hz) | hv | hlast)
    · have := (isZero_coord hz).1
      simp only at this
      rw [abs_of_pos (by linarith)] at this; linarith
    · have := (isZero_coord hz).1
      simp only at this
      rw [abs_one] at this; linarith
    · have := hv.1
      simp only at this
      rw [abs_sub_comm, abs_of_pos (by linarith)] at this; linarith
    · have hb : len (⟨1, 0, 0⟩ : R3) = 1 := by
        unfold len dot; simp
      have hdot : dot (⟨2 * eps, -(eps / 1000), 0⟩ : R3) ⟨1, 0, 0⟩ = 2 * eps := by
        unfold dot; simp
      have hL2 := len_mul_self (⟨2 * eps, -(eps / 1000), 0⟩ : R3)
      have hL0 := len_nonneg (⟨2 * eps, -(eps / 1000), 0⟩ : R3)
      have hdd : dot (⟨2 * eps, -(eps / 1000), 0⟩ : R3) ⟨2 * eps, -(eps / 1000), 0⟩
          = 4 * eps * eps + eps * eps / 1000000 := by
        unfold dot; simp only; ring
      rw [hdd] at hL2
      rw [hb, hdot] at hlast
      generalize len (⟨2 * eps, -(eps / 1000), 0⟩ : R3) = L at *
      rw [abs_of_pos (by linarith : (0 : ℝ) < 2 * eps), mul_one] at hlast
      have h2 := (abs_lt.mp hlast).1
      -- L (1 - eps) < 2 eps, squared: L² (1-eps)² < 4 eps²
      have h3 : L * (1 - eps) < 2 * eps := by linarith
      have h4 : 0 ≤ L * (1 - eps) := mul_nonneg hL0 (by linarith)
      have h5 : (L * (1 - eps)) * (L * (1 - eps)) < (2 * eps) * (2 * eps) :=
        mul_self_lt_mul_self h4 h3
      have h6 : (L * (1 - eps)) * (L * (1 - eps)) = (L * L) * ((1 - eps) * (1 - eps)) := by ring
      rw [h6, hL2] at h5
      have h8 : 0 < eps * eps := mul_pos heps heps
      have h9 : (1 - eps) * (1 - eps) ≥ 1 - 2 * eps := by nlinarith
      nlinarith

end G3D.TolGeo
