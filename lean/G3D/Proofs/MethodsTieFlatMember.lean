import G3D.Extracted.Mflat
import G3D.Proofs.MethodsTieBase
/-! # Tie, group `mflat`, role MEMBERSHIP (C05): every `__contains__` / `in_` cell of Line, Plane, Segment, HalfLine incl. the NotImplemented cells.
    `*_raw` = exact behaviour incl. the ZeroDivisionError of a degenerate segment, `*_eq_point` under `s.a ≠ s.b`.  Conventions, trusted readings and the deviations found: `G3D.Proofs.MethodsTie`, header of `G3D.Model.PyRtM`. -/
set_option linter.unusedSimpArgs false
set_option linter.unusedVariables false
set_option linter.style.nameCheck false
set_option linter.unusedTactic false
set_option linter.unreachableTactic false
namespace G3D.Tie
open V3 PyRt Extracted

theorem m_Line___contains___point (l : Line) (p : V3) :
    m_Line___contains__ (Self.ofLine l) (.obj (ptObj p)) = .ok (.bool (l.contains p)) := by
  unfold m_Line___contains__
  msimp [Line.contains]

theorem m_Line___contains___seg (l : Line) (s : Seg) :
    m_Line___contains__ (Self.ofLine l) (.obj (sgObj s)) = .ok (.bool (l.containsSeg s)) := by
  unfold m_Line___contains__
  msimp

theorem m_Line___contains___halfline (l : Line) (h : HalfLine) :
    m_Line___contains__ (Self.ofLine l) (.obj (.flat (.halfline h))) = .ok (.bool (l.containsHalfLine h)) := by
  unfold m_Line___contains__
  msimp

theorem m_Line___contains___polygon (l : Line) (P : Polygon) :
    m_Line___contains__ (Self.ofLine l) (.obj (.polygon P)) = .error .notImpl := by
  unfold m_Line___contains__
  msimp

theorem m_Line___contains___line (l o : Line) :
    m_Line___contains__ (Self.ofLine l) (.obj (lnObj o)) = .error .notImpl := by
  unfold m_Line___contains__
  msimp

theorem m_Plane___contains___eq_point (a : Plane) (x : V3) :
    m_Plane___contains__ (Self.ofPlane a) (.obj (ptObj x)) = .ok (.bool (a.contains x)) := by
  unfold m_Plane___contains__
  msimp [Plane.contains, abs_sub_tol]

theorem m_Plane___contains___eq_line (a : Plane) (l : Line) :
    m_Plane___contains__ (Self.ofPlane a) (.obj (lnObj l)) = .ok (.bool (a.containsLine l)) := by
  unfold m_Plane___contains__
  msimp [Plane.containsLine]

theorem m_Plane___contains___eq_seg (a : Plane) (s : Seg) :
    m_Plane___contains__ (Self.ofPlane a) (.obj (sgObj s)) = .ok (.bool (a.containsSeg s)) := by
  unfold m_Plane___contains__
  msimp

theorem m_Plane___contains___eq_halfline (a : Plane) (h : HalfLine) :
    m_Plane___contains__ (Self.ofPlane a) (.obj (.flat (.halfline h))) = .ok (.bool (a.containsHalfLine h)) := by
  unfold m_Plane___contains__
  msimp

theorem m_Plane___contains___eq_polygon (a : Plane) (P : Polygon) :
    m_Plane___contains__ (Self.ofPlane a) (.obj (.polygon P)) = .ok (.bool (P.inPlane a)) := by
  unfold m_Plane___contains__
  msimp

theorem m_Plane___contains___eq_plane (a b : Plane) :
    m_Plane___contains__ (Self.ofPlane a) (.obj (plObj b)) = .error .notImpl := by
  unfold m_Plane___contains__
  msimp

theorem m_Segment___contains___raw_point (s : Seg) (x : V3) :
    m_Segment___contains__ (Self.ofSeg s) (.obj (ptObj x)) =
      if sub x s.a = zero then .ok (.bool true)
      else if s.b = s.a then .error (.ctor .zeroDiv) else .ok (.bool (s.contains x)) := by
  unfold m_Segment___contains__
  msimp [Seg.contains, normSq_le_zero_iff, normSq_eq_zero, sub_eq_zero_iff]
  by_cases h1 : x = s.a
  · simp [h1]
  · by_cases h2 : s.b = s.a
    · simp [h1, h2]
    · simp [h1, h2]
      cases s.line.contains x <;> simp [pyAnd_bool, Bool.and_assoc]

theorem m_Segment___contains___eq_seg (s o : Seg) :
    m_Segment___contains__ (Self.ofSeg s) (.obj (sgObj o)) = .ok (.bool (s.containsSeg o)) := by
  unfold m_Segment___contains__
  msimp [Seg.containsSeg]

theorem m_Segment___contains___eq_other (s : Seg) (l : Line) :
    m_Segment___contains__ (Self.ofSeg s) (.obj (lnObj l)) = .ok (.bool false) := by
  unfold m_Segment___contains__
  msimp

theorem m_Segment_in__eq_line (s : Seg) (l : Line) :
    m_Segment_in_ (Self.ofSeg s) (.obj (lnObj l)) = .ok (.bool (l.containsSeg s)) := by
  unfold m_Segment_in_
  msimp [Line.containsSeg]

theorem m_Segment_in__eq_plane (s : Seg) (a : Plane) :
    m_Segment_in_ (Self.ofSeg s) (.obj (plObj a)) = .ok (.bool (a.containsSeg s)) := by
  unfold m_Segment_in_
  msimp [Plane.containsSeg]

theorem m_HalfLine___contains___eq_point (h : HalfLine) (x : V3) :
    m_HalfLine___contains__ (Self.ofHalfLine h) (.obj (ptObj x)) = .ok (.bool (h.contains x)) := by
  unfold m_HalfLine___contains__
  msimp [HalfLine.contains]
  cases h.line.contains x <;> simp

theorem m_HalfLine___contains___eq_seg (h : HalfLine) (s : Seg) :
    m_HalfLine___contains__ (Self.ofHalfLine h) (.obj (sgObj s)) = .ok (.bool (h.containsSeg s)) := by
  unfold m_HalfLine___contains__
  msimp [HalfLine.containsSeg]

theorem m_HalfLine___contains___eq_halfline (h o : HalfLine) :
    m_HalfLine___contains__ (Self.ofHalfLine h) (.obj (.flat (.halfline o))) = .ok (.bool (h.containsHL o)) := by
  unfold m_HalfLine___contains__
  msimp [HalfLine.containsHL, Bool.and_assoc]

theorem m_HalfLine___contains___eq_other (h : HalfLine) (l : Line) :
    m_HalfLine___contains__ (Self.ofHalfLine h) (.obj (lnObj l)) = .ok (.bool false) := by
  unfold m_HalfLine___contains__
  msimp

theorem m_HalfLine_in__eq_line (h : HalfLine) (l : Line) :
    m_HalfLine_in_ (Self.ofHalfLine h) (.obj (lnObj l)) = .ok (.bool (l.containsHalfLine h)) := by
  unfold m_HalfLine_in_
  msimp [Line.containsHalfLine]

theorem m_HalfLine_in__eq_plane (h : HalfLine) (a : Plane) :
    m_HalfLine_in_ (Self.ofHalfLine h) (.obj (plObj a)) = .ok (.bool (a.containsHalfLine h)) := by
  unfold m_HalfLine_in_
  msimp [Plane.containsHalfLine]

theorem m_Segment___contains___eq_point (s : Seg) (x : V3) (h : s.a ≠ s.b) :
    m_Segment___contains__ (Self.ofSeg s) (.obj (ptObj x)) = .ok (.bool (s.contains x)) := by
  rw [m_Segment___contains___raw_point]
  by_cases hx : sub x s.a = zero
  · simp [hx, Seg.contains, normSq_eq_zero]
  · have h' : ¬ s.b = s.a := fun e => h e.symm
    simp [hx, h']

end G3D.Tie
