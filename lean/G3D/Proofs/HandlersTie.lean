import G3D.Proofs.HandlersTieFlat
import G3D.Proofs.HandlersTiePolygon
import G3D.Proofs.HandlersTiePolyhedron
import G3D.Proofs.HandlersTieBody
/-! # The extracted handler bodies agree with the hand-written model

    `G3D.Extracted.h_<name>` is the statement-by-statement translation of the Python function `<name>`
    (tools/extract_h{flat,polygon,polyhedron,body}.py over the shared engine tools/hextract.py, regenerated from the
    source on every check run into `G3D/Extracted/H{flat,polygon,polyhedron,body}.lean`); the definitions of
    `G3D.Model.InterBody` / `InterFlat` are the hand-written model that all exactness proofs are about.
    One theorem per Python function: on operands of the right type the two agree — for ALL such operands (no
    validity assumed), except `inter_convexpolygon_convexpolygon`, which needs two side conditions (see there).

    * The runtime is untyped; the theorems are stated for well-typed arguments only.  On other arguments the extracted
      definitions follow Python's duck typing as far as `PyRt` models it and end in `.typeMismatch` otherwise; nothing
      is claimed about that.
    * Inner generic `intersection(x, y)` calls of a handler body are `interRef x y` (the hand-written dispatcher, equal
      to the dispatcher extracted from the source by `G3D.Props.C04.inter_eq_ref`), so every theorem is about ONE
      function body; together with the dispatch tie they cover the whole call tree by induction on the call depth.
    * Where the hand model deviates from the literal translation, the deviation is justified here:
      - inner exceptions mapped to "Bug detected" (`lineEdgesLoop`, `edgeHits`, the loop of `interPlanePolyhedron`):
        indistinguishable, because `inter_line_line` never raises and collected point sets are duplicate-free
        (`G3D.Proofs.HandlersTieNoErr`);
      - statically resolved dispatch, merged loops (`crossHits` threads the accumulator through the helper, the code
        unions per-edge sets: `edgeHits_acc`), dropped dead branches (`inter_segment_convexpolyhedron`'s final `else`,
        `inter_line_convexpolyhedron`'s implicit `return None`), reordered checks (`get_segment_from_point_list`:
        all parallelism tests before the division in the model, interleaved in the code: `forIn_relStep`).

    The theorems live in four modules that do NOT import each other (fault isolation: a change of one Python
    handler breaks only the module of its group): `HandlersTieFlat` (C01), `HandlersTiePolygon`, `HandlersTiePolyhedron`
    (C02), `HandlersTieBody` (C03); shared lemmas in `HandlersTieShared`.  This file only collects them. -/
