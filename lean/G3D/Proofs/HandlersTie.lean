import G3D.Proofs.HandlersTieNoErr
import G3D.Proofs.FlatPolygon
/-! # The extracted handler bodies agree with the hand-written model

    `G3D.Extracted.h_<name>` is the statement-by-statement translation of the Python function `<name>`
    (tools/extract_handlers.py, regenerated from the source on every check run); the definitions of
    `G3D.Model.InterBody` / `InterFlat` are the hand-written model that all exactness proofs are about.
    One theorem per Python function: on operands of the right type the two agree — for ALL such operands (no
    validity assumed), except `inter_convexpolygon_convexpolygon`, which needs two side conditions (see there).

    * The runtime is untyped; the theorems are stated for well-typed arguments only.  On other arguments the extracted
      definitions follow Python's duck typing as far as `PyRt` models it and end in `.typeMismatch` otherwise; nothing
      is claimed about that.
    * Inner generic `intersection(x, y)` calls of a handler body are `interRef x y` (the hand-written dispatcher, equal
      to the dispatcher extracted from the source by `G3D.Props.C04.inter_eq_ref`), so every theorem is about ONE
      function body; together with the dispatch tie they cover the whole call tree by induction on the call depth.
    * Where the hand model deviates from the literal translation, the deviation is justified here:
      - inner exceptions mapped to "Bug detected" (`lineEdgesLoop`, `edgeHits`, the loop of `interPlanePolyhedron`):
        indistinguishable, because `inter_line_line` never raises and collected point sets are duplicate-free
        (`G3D.Proofs.HandlersTieNoErr`);
      - statically resolved dispatch, merged loops (`crossHits` threads the accumulator through the helper, the code
        unions per-edge sets: `edgeHits_acc`), dropped dead branches (`inter_segment_convexpolyhedron`'s final `else`,
        `inter_line_convexpolyhedron`'s implicit `return None`), reordered checks (`get_segment_from_point_list`:
        all parallelism tests before the division in the model, interleaved in the code: `forIn_relStep`). -/
set_option linter.unusedSimpArgs false
set_option linter.unusedVariables false
namespace G3D.Tie
open V3 PyRt Extracted

/-! ## helpers of calc/aux_calc.py -/

/-! ### `get_segment_from_point_list` -/

/-- list elements paired with their Python index -/
def indexed {α : Type} (lo : Int) : List α → List (α × Int)
  | [] => []
  | x :: xs => (x, lo) :: indexed (lo + 1) xs

theorem map_snd_indexed {α : Type} (xs : List α) (lo : Int) :
    (indexed lo xs).map (fun xi => Val.int xi.2) = (intsFrom lo xs.length).map Val.int := by
  induction xs generalizing lo with
  | nil => rfl
  | cons x xs ih => simp [indexed, intsFrom, ih]

theorem mem_indexed {α : Type} (xs : List α) (lo : Int) (x : α) (i : Int) (h : (x, i) ∈ indexed lo xs) :
    ∃ k : Nat, i = lo + k ∧ xs[k]? = some x := by
  induction xs generalizing lo with
  | nil => simp [indexed] at h
  | cons y ys ih =>
    simp only [indexed, List.mem_cons, Prod.mk.injEq] at h
    rcases h with ⟨rfl, rfl⟩ | h
    · exact ⟨0, by simp, rfl⟩
    · obtain ⟨k, hk, hx⟩ := ih (lo + 1) h
      exact ⟨k + 1, by rw [hk]; push_cast; omega, by simpa using hx⟩

theorem forIn_indexed {α σ : Type} (xs : List α) (lo : Int) (s : σ) (step : α → σ → PyM (ForInStep σ)) :
    forIn (indexed lo xs) s (fun xi => step xi.1) = forIn xs s step := by
  induction xs generalizing lo s with
  | nil => rfl
  | cons x xs ih =>
    simp only [indexed, List.forIn_cons]
    congr 1; funext r; cases r <;> simp [ih]

theorem pyIndex_seq_nat (l : List Obj) (k : Nat) (o : Obj) (h : l[k]? = some o) :
    pyIndex (.seq l) (.int (k : Int)) = .ok (.obj o) := by
  have hk : k < l.length := by
    rcases Nat.lt_or_ge k l.length with hlt | hge
    · exact hlt
    · rw [List.getElem?_eq_none hge] at h; cases h
  obtain ⟨_, hget⟩ := List.getElem?_eq_some_iff.mp h
  simp [pyIndex, normIdx, hk, hget]

def relStep (p0 v0 : V3) (pi : V3) (rels : List Rat) : PyM (ForInStep (List Rat)) :=
  if !(V3.parallel (sub pi p0) v0) then .error .value
  else if normSq v0 = 0 then .error (.ctor .zeroDiv)
  else .ok (.yield (rels ++ [dot (sub pi p0) v0 / normSq v0]))

theorem forIn_relStep (p0 v0 : V3) (rest : List V3) (rels : List Rat) :
    forIn rest rels (relStep p0 v0) =
      if rest.any (fun pi => !(V3.parallel (sub pi p0) v0)) then .error .value
      else if rest ≠ [] ∧ normSq v0 = 0 then .error (.ctor .zeroDiv)
      else .ok (rels ++ rest.map (fun pi => dot (sub pi p0) v0 / normSq v0)) := by
  induction rest generalizing rels with
  | nil => simp
  | cons p rest ih =>
    simp only [List.forIn_cons, relStep, List.any_cons]
    by_cases hp : V3.parallel (sub p p0) v0 = true
    · simp only [hp, Bool.not_true, Bool.false_eq_true, if_false, Bool.false_or]
      by_cases hn : normSq v0 = 0
      · have hv : v0 = zero := normSq_eq_zero.mp hn
        have : (rest.any fun pi => !V3.parallel (sub pi p0) v0) = false := by
          rw [List.any_eq_false]; intro x _; rw [hv, parallel_zero_right]; simp
        simp [hn, this]
      · simp only [hn, if_false, ok_bind, ih, and_false]
        split
        · rfl
        · simp
    · have hp' : V3.parallel (sub p p0) v0 = false := by simpa using hp
      simp [hp']

theorem h_get_segment_from_point_list_eq (ps : List V3) :
    h_get_segment_from_point_list (Val.ptSeq ps) =
      (fun s => Val.obj (.flat (.seg s))) <$> segmentFromPointList ps := by
  unfold h_get_segment_from_point_list
  match ps with
  | [] => simp [pyrt, Val.ptSeq, segmentFromPointList]
  | [p] => simp [pyrt, Val.ptSeq, segmentFromPointList]
  | p0 :: p1 :: rest =>
    have hlen : ¬ ((rest.length : Int) + 1 + 1 < 2) := by omega
    have hn : ((rest.length : Int) + 1 + 1 - 2).toNat = rest.length := by omega
    have hlit : pyListLit [Val.int 0, Val.int 1] = .ok (.nums [0, 1]) := by
      simp [pyListLit, allObjs?, allNums?, Val.asRat?]
    simp only [pyrt, Val.ptSeq, List.map_cons, List.length_cons, Nat.cast_add, Nat.cast_one, hlen, decide_false,
      Bool.false_eq_true, if_false, ptObj, hn, hlit, List.length_map]
    rw [← map_snd_indexed rest 2]
    rw [show Val.nums [0, 1] = Val.nums ((fun r : List Rat => r) [0, 1]) from rfl]
    rw [forIn_repr (fun xi : V3 × Int => Val.int xi.2) Val.nums (indexed 2 rest) _ (fun xi => relStep p0 (sub p1 p0) xi.1)]
    rotate_left
    · intro ⟨pi, i⟩ hmem rels
      obtain ⟨k, rfl, hk⟩ := mem_indexed rest 2 pi i hmem
      have hidx : pyIndex (Val.seq (Obj.flat (Geo.point p0) :: Obj.flat (Geo.point p1) :: List.map ptObj rest)) (Val.int (2 + ↑k))
          = .ok (.obj (.flat (.point pi))) := by
        have := pyIndex_seq_nat (Obj.flat (Geo.point p0) :: Obj.flat (Geo.point p1) :: List.map ptObj rest) (k + 2)
          (.flat (.point pi)) (by simp [hk, ptObj])
        rw [← this]; congr 2; push_cast; omega
      simp only [hidx, pyrt, relStep]
      by_cases hp : V3.parallel (sub pi p0) (sub p1 p0) = true
      · by_cases hz : normSq (sub p1 p0) = 0 <;> simp [hp, hz, pyrt, ForInStep.map']
      · have hp' : V3.parallel (sub pi p0) (sub p1 p0) = false := by simpa using hp
        simp [hp', pyrt]
    rw [forIn_indexed, forIn_relStep]
    simp only [segmentFromPointList]
    split
    · simp
    · split
      · simp
      · simp only [pyrt, List.cons_append, List.nil_append, List.foldl_cons, min_self, max_self]
        split <;> simp_all

/-! ### `points_in_a_line` -/

def allStep {α : Type} (c : α → Bool) (x : α) (_ : Option Bool) : PyM (ForInStep (Option Bool)) :=
  if c x then .ok (.yield none) else .ok (.done (some false))

theorem forIn_allStep {α : Type} (c : α → Bool) (xs : List α) :
    forIn xs none (allStep c) = .ok (if xs.all c then none else some false) := by
  induction xs with
  | nil => simp
  | cons x xs ih =>
    simp only [List.forIn_cons, allStep, List.all_cons]
    by_cases h : c x = true
    · simp [h, ih]
    · have h' : c x = false := by simpa using h
      simp [h']

theorem h_points_in_a_line_eq (ps : List V3) :
    h_points_in_a_line (Val.ptSeq ps) = Val.bool <$> pointsInALine ps := by
  unfold h_points_in_a_line
  match ps with
  | [] => simp [pyrt, Val.ptSeq, pointsInALine]
  | [p] => simp [pyrt, Val.ptSeq, pointsInALine]
  | p0 :: p1 :: rest =>
    have hn : ((rest.length : Int) + 1 + 1 - 2).toNat = rest.length := by omega
    simp only [pyrt, Val.ptSeq, List.map_cons, List.length_cons, Nat.cast_add, Nat.cast_one,
      ptObj, hn, List.length_map]
    cases rest with
    | nil => simp [pointsInALine]
    | cons r rest' =>
      have h3 : ¬ (((r :: rest').length : Int) + 1 + 1 < 3) := by simp only [List.length_cons]; push_cast; omega
      simp only [h3, decide_false, Bool.false_eq_true, if_false, pointsInALine]
      by_cases h10 : p1 = p0
      · simp [h10]
      · simp only [h10, if_false, ok_bind, reduceCtorEq]
        generalize r :: rest' = rest
        rw [← map_snd_indexed rest 2]
        rw [show ((none : Option Val), ()) = (fun r : Option Bool => (r.map Val.bool, ())) none from rfl]
        rw [forIn_repr (fun xi : V3 × Int => Val.int xi.2) (fun r : Option Bool => (r.map Val.bool, ()))
          (indexed 2 rest) _ (fun xi => allStep (⟨p0, sub p1 p0⟩ : Line).contains xi.1)]
        rotate_left
        · intro ⟨pi, i⟩ hmem st
          obtain ⟨k, rfl, hk⟩ := mem_indexed rest 2 pi i hmem
          have hidx : pyIndex (Val.seq (Obj.flat (Geo.point p0) :: Obj.flat (Geo.point p1) :: List.map ptObj rest)) (Val.int (2 + ↑k))
              = .ok (.obj (.flat (.point pi))) := by
            have := pyIndex_seq_nat (Obj.flat (Geo.point p0) :: Obj.flat (Geo.point p1) :: List.map ptObj rest) (k + 2)
              (.flat (.point pi)) (by simp [hk, ptObj])
            rw [← this]; congr 2; push_cast; omega
          simp only [hidx, pyrt, allStep]
          cases (⟨p0, sub p1 p0⟩ : Line).contains pi <;> simp [pyrt, ForInStep.map']
        rw [forIn_indexed, forIn_allStep]
        cases rest.all (⟨p0, sub p1 p0⟩ : Line).contains <;> simp

/-! ### the three `get_*_intersection_point_set` helpers -/

/-- one round of a face loop `inter = face.intersection(x); None/Segment: continue; Point: add; else Bug` -/
theorem faceBody_eq (r : ResB) (acc : List V3) :
    (do let inter ← Val.ofRes r
        if (pyIsNone inter).truthy = true then Except.ok (ForInStep.yield (Val.ptSet acc))
        else if (pyIsInstance inter PyTy.Segment).truthy = true then Except.ok (ForInStep.yield (Val.ptSet acc))
        else if (pyIsInstance inter PyTy.Point).truthy = true then do
          let point_set ← pySetAdd (Val.ptSet acc) inter
          Except.ok (ForInStep.yield point_set)
        else do
          throw BErr.bug
          Except.ok (ForInStep.yield (Val.ptSet acc))) =
      ForInStep.map' Val.ptSet <$> (match r with
        | .ok none => .ok (.yield acc)
        | .ok (some (.flat (.seg _))) => .ok (.yield acc)
        | .ok (some (.flat (.point q))) => .ok (.yield (addNew acc q))
        | .ok _ => .error .bug
        | .error e => .error e) := by
  rcases r with e | o
  · simp [pyrt]
  · rcases o with _ | ⟨g | P | B'⟩
    · simp [pyrt, ForInStep.map']
    · cases g <;> simp [pyrt, ForInStep.map', Val.ptSet]
    · simp [pyrt, ForInStep.map']
    · simp [pyrt, ForInStep.map']

/-- one round of an edge loop; the model maps every exception of the inner flat call to "Bug detected" -/
theorem edgeBody_eq (r : Res) (hr : OnlyBug r) (acc : List V3) :
    (do let inter ← Val.ofRes (liftFlat r)
        if (pyIsNone inter).truthy = true then Except.ok (ForInStep.yield (Val.ptSet acc))
        else if (pyIsInstance inter PyTy.Segment).truthy = true then Except.ok (ForInStep.yield (Val.ptSet acc))
        else if (pyIsInstance inter PyTy.Point).truthy = true then do
          let point_set ← pySetAdd (Val.ptSet acc) inter
          Except.ok (ForInStep.yield point_set)
        else do
          throw BErr.bug
          Except.ok (ForInStep.yield (Val.ptSet acc))) =
      ForInStep.map' Val.ptSet <$> (match (generalizing := false) r with
        | .ok none => .ok (.yield acc)
        | .ok (some (.seg _)) => .ok (.yield acc)
        | .ok (some (.point q)) => .ok (.yield (addNew acc q))
        | _ => .error .bug) := by
  rcases r with e | o
  · cases hr e rfl; simp [pyrt]
  · rcases o with _ | g
    · simp [pyrt, ForInStep.map']
    · cases g <;> simp [pyrt, ForInStep.map', Val.ptSet]

theorem h_get_segment_convexpolygon_intersection_point_set_eq (s : Seg) (P : Polygon) :
    h_get_segment_convexpolygon_intersection_point_set (.obj (.flat (.seg s))) (.obj (.polygon P)) =
      (do let ss ← liftC P.segments?
          Val.ptSet <$> edgeHits (fun t => interSegSeg t s) ss []) := by
  unfold h_get_segment_convexpolygon_intersection_point_set
  simp only [pyrt, pyMeth_segments]
  cases liftC P.segments? with
  | error e => simp
  | ok ss =>
    simp only [pyrt, List.map_map]
    rw [show (Val.set []) = Val.ptSet [] from rfl]
    rw [forIn_repr (Val.obj ∘ sgObj) Val.ptSet ss _ (edgeStep (fun t => interSegSeg t s))]
    · simp [← edgeHits_eq_forIn]
    · intro t _ acc
      simp only [Function.comp, sgObj, pyrt, edgeStep]
      exact edgeBody_eq _ (interSegSeg_onlyBug t s) acc

theorem h_get_segment_convexpolyhedron_intersection_point_set_eq (s : Seg) (B : Polyhedron) :
    h_get_segment_convexpolyhedron_intersection_point_set (.obj (.flat (.seg s))) (.obj (.polyhedron B)) =
      Val.ptSet <$> segPolyhedronPointSet s B := by
  unfold h_get_segment_convexpolyhedron_intersection_point_set
  simp only [pyrt, List.map_map]
  rw [show (Val.set []) = Val.ptSet [] from rfl]
  rw [forIn_repr (Val.obj ∘ Obj.polygon) Val.ptSet B.faces _ (faceStep (fun f => interSegPolygon s f))]
  rotate_left
  · intro f _ acc
    simp only [Function.comp, pyrt, faceStep]
    exact faceBody_eq _ acc
  simp only [segPolyhedronPointSet, boundaryHits, ← faceHits_eq_forIn]
  cases faceHits (fun f => interSegPolygon s f) B.faces [] with
  | error e => simp
  | ok acc =>
    simp only [pyrt]
    rw [forIn_repr (Val.obj ∘ sgObj) Val.ptSet B.edges _ (edgeStep (fun t => interSegSeg t s))]
    · simp [← edgeHits_eq_forIn]
    · intro t _ acc
      simp only [Function.comp, sgObj, pyrt, edgeStep]
      exact edgeBody_eq _ (interSegSeg_onlyBug t s) acc

theorem h_get_halfline_convexpolyhedron_intersection_point_set_eq (h : HalfLine) (B : Polyhedron) :
    h_get_halfline_convexpolyhedron_intersection_point_set (.obj (.flat (.halfline h))) (.obj (.polyhedron B)) =
      Val.ptSet <$> boundaryHits (fun f => interPolygonHalfLine f h) (fun s => interSegHalfLine s h) B := by
  unfold h_get_halfline_convexpolyhedron_intersection_point_set
  simp only [pyrt, List.map_map]
  rw [show (Val.set []) = Val.ptSet [] from rfl]
  rw [forIn_repr (Val.obj ∘ Obj.polygon) Val.ptSet B.faces _ (faceStep (fun f => interPolygonHalfLine f h))]
  rotate_left
  · intro f _ acc
    simp only [Function.comp, pyrt, faceStep]
    exact faceBody_eq _ acc
  simp only [boundaryHits, ← faceHits_eq_forIn]
  cases faceHits (fun f => interPolygonHalfLine f h) B.faces [] with
  | error e => simp
  | ok acc =>
    simp only [pyrt]
    rw [forIn_repr (Val.obj ∘ sgObj) Val.ptSet B.edges _ (edgeStep (fun t => interSegHalfLine t h))]
    · simp [← edgeHits_eq_forIn]
    · intro t _ acc
      simp only [Function.comp, sgObj, pyrt, edgeStep]
      exact edgeBody_eq _ (interSegHalfLine_onlyBug t h) acc

/-! ## flat × ConvexPolyhedron -/

/-! ### `inter_line_convexpolyhedron` -/

/-- representation of a loop state "early-return slot × collected point set" -/
def reprRP (st : Option Obj × List V3) : Option Val × Val := (st.1.map Val.obj, Val.ptSet st.2)

def lineFaceStep (l : Line) (f : Polygon) (st : Option Obj × List V3) : PyM (ForInStep (Option Obj × List V3)) :=
  match interLinePolygon l f with
  | .ok (some (.flat (.seg s))) => .ok (.done (some (.flat (.seg s)), st.2))
  | .ok (some (.flat (.point q))) => .ok (.yield (none, addNew st.2 q))
  | .ok none => .ok (.yield (none, st.2))
  | .ok _ => .error .bug
  | .error e => .error e

theorem interLinePolyhedron_loop_eq (l : Line) (fs : List Polygon) (acc : List V3) :
    interLinePolyhedron.loop l fs acc =
      (do let st ← forIn fs ((none : Option Obj), acc) (lineFaceStep l)
          match st.1 with
          | some o => .ok (some o)
          | none => match st.2 with
            | [] => .ok none
            | [p] => pt? p
            | ps => do let s ← segmentFromPointList ps; seg? s) := by
  induction fs generalizing acc with
  | nil =>
    simp only [interLinePolyhedron.loop, List.forIn_nil, pyrt]
    rcases acc with _ | ⟨p, _ | ⟨q, r⟩⟩ <;> rfl
  | cons f fs ih =>
    simp only [List.forIn_cons, interLinePolyhedron.loop, lineFaceStep]
    split <;> simp [ih, seg?, *]

theorem h_inter_line_convexpolyhedron_eq (l : Line) (B : Polyhedron) :
    h_inter_line_convexpolyhedron (.obj (.flat (.line l))) (.obj (.polyhedron B)) = Val.ofRes (interLinePolyhedron l B) := by
  unfold h_inter_line_convexpolyhedron
  simp only [pyrt, List.map_map]
  rw [show ((none : Option Val), Val.set []) = reprRP (none, []) from rfl]
  rw [forIn_repr (Val.obj ∘ Obj.polygon) reprRP B.faces _ (lineFaceStep l)]
  rotate_left
  · intro f _ st
    simp only [Function.comp, pyrt, lineFaceStep, reprRP]
    rcases interLinePolygon l f with e | o
    · simp [pyrt]
    · rcases o with _ | ⟨g | P | B'⟩
      · simp [pyrt, ForInStep.map', reprRP]
      · cases g <;> simp [pyrt, ForInStep.map', Val.ptSet, reprRP]
      · simp [pyrt, ForInStep.map']
      · simp [pyrt, ForInStep.map']
  simp only [interLinePolyhedron, interLinePolyhedron_loop_eq]
  cases forIn B.faces ((none : Option Obj), ([] : List V3)) (lineFaceStep l) with
  | error e => simp [pyrt]
  | ok st =>
    obtain ⟨r, acc⟩ := st
    cases r with
    | some o => simp [pyrt, reprRP]
    | none =>
      simp only [pyrt, reprRP, Option.map_none, Val.ptSet, List.length_map]
      match acc with
      | [] => simp [pyrt]
      | [p] => simp [pyrt, ptObj, pt?]
      | p :: q :: rest =>
        have := h_get_segment_from_point_list_eq (p :: q :: rest)
        simp only [Val.ptSeq, List.map_cons] at this
        have h0 : ¬ ((rest.length : Int) + 1 + 1 = 0) := by omega
        have h1 : ¬ ((rest.length : Int) + 1 = 0) := by omega
        have h2 : (2 : Int) ≤ (rest.length : Int) + 1 + 1 := by omega
        simp [pyrt, seg?, h0, h1, h2, this]
        cases segmentFromPointList (p :: q :: rest) <;> simp [pyrt]

/-! ### `inter_plane_convexpolyhedron` -/

def findStep {α : Type} (c : α → Bool) (x : α) (_ : Option α) : PyM (ForInStep (Option α)) :=
  if c x then .ok (.done (some x)) else .ok (.yield none)

theorem forIn_findStep {α : Type} (c : α → Bool) (xs : List α) :
    forIn xs none (findStep c) = .ok (xs.find? c) := by
  induction xs with
  | nil => simp
  | cons x xs ih =>
    simp only [List.forIn_cons, findStep, List.find?_cons]
    by_cases h : c x = true
    · simp [h]
    · have h' : c x = false := by simpa using h
      simp [h', ih]

theorem interPlanePolyhedron_loop_eq (a : Plane) (ss : List Seg) (acc : List V3) :
    interPlanePolyhedron.loop a ss acc = edgeHits (fun s => interPlaneSeg a s) ss acc := by
  induction ss generalizing acc with
  | nil => rfl
  | cons s ss ih =>
    simp only [interPlanePolyhedron.loop, edgeHits]
    split <;> simp_all

theorem h_inter_plane_convexpolyhedron_eq (a : Plane) (B : Polyhedron) :
    h_inter_plane_convexpolyhedron (.obj (.flat (.plane a))) (.obj (.polyhedron B)) = Val.ofRes (interPlanePolyhedron a B) := by
  unfold h_inter_plane_convexpolyhedron
  simp only [pyrt, List.map_map]
  rw [show ((none : Option Val), ()) = (fun r : Option Polygon => (r.map (Val.obj ∘ Obj.polygon), ())) none from rfl]
  rw [forIn_repr (Val.obj ∘ Obj.polygon) (fun r : Option Polygon => (r.map (Val.obj ∘ Obj.polygon), ())) B.faces _
    (findStep (fun f => f.inPlane a))]
  rotate_left
  · intro f _ st
    simp only [Function.comp, pyrt, findStep]
    by_cases hc : f.inPlane a = true
    · simp [hc, ForInStep.map']
    · simp [hc, ForInStep.map']
  rw [forIn_findStep]
  simp only [interPlanePolyhedron, pyrt]
  cases B.faces.find? (fun f => f.inPlane a) with
  | some f => simp [pyrt]
  | none =>
    simp only [Option.map_none, interPlanePolyhedron_loop_eq]
    rw [show (Val.set []) = Val.ptSet [] from rfl]
    rw [forIn_repr (Val.obj ∘ sgObj) Val.ptSet B.edges _ (edgeStep (fun s => interPlaneSeg a s))]
    rotate_left
    · intro t _ acc
      simp only [Function.comp, sgObj, pyrt, edgeStep]
      exact edgeBody_eq _ (interPlaneSeg_onlyBug a t) acc
    rw [← edgeHits_eq_forIn]
    cases edgeHits (fun s => interPlaneSeg a s) B.edges [] with
    | error e => simp [pyrt]
    | ok acc =>
      simp only [pyrt, Val.ptSet, List.length_map]
      match acc with
      | [] => simp [pyrt]
      | [p] => simp [pyrt, ptObj, pt?]
      | [p, q] =>
        simp [pyrt, ptObj, seg?, liftC]
        by_cases hpq : p = q <;> simp [hpq, pyrt]
      | p :: q :: r :: rest =>
        have h0 : ¬ ((rest.length : Int) + 1 + 1 + 1 = 0) := by omega
        have h1 : ¬ ((rest.length : Int) + 1 + 1 = 0) := by omega
        have h2 : ¬ ((rest.length : Int) + 1 + 1 + 1 = 2) := by omega
        simp [pyrt, h0, h1, h2]
        cases liftC (Polygon.mk? (p :: q :: r :: rest)) <;> simp [pyrt]

/-! ### `inter_segment_convexpolyhedron`, `inter_convexpolyhedron_halfline` -/

/-- the common tail `l = list(point_set); len(l) == 0 → None; == 1 → l[0]; == 2 → Segment(l[0], l[1]); else Bug` -/
theorem pointTail_eq (acc : List V3) :
    (do let inter_point_list ← pyList (Val.ptSet acc)
        if (← pyEq (← pyLen inter_point_list) (Val.int 0)).truthy then
          Except.ok Val.none
        else if (← pyEq (← pyLen inter_point_list) (Val.int 1)).truthy then
          pyIndex inter_point_list (Val.int 0)
        else if (← pyEq (← pyLen inter_point_list) (Val.int 2)).truthy then
          pySegment (← pyIndex inter_point_list (Val.int 0)) (← pyIndex inter_point_list (Val.int 1))
        else
          Except.error BErr.bug) = Val.ofRes (ofPoints acc) := by
  rw [ofPoints_cases]
  match acc with
  | [] => simp [pyrt, Val.ptSet]
  | [p] => simp [pyrt, Val.ptSet, ptObj]
  | [p, q] => simp [pyrt, Val.ptSet, ptObj]
  | p :: q :: r :: rest =>
    have h0 : ¬ ((rest.length : Int) + 1 + 1 + 1 = 0) := by omega
    have h1 : ¬ ((rest.length : Int) + 1 + 1 = 0) := by omega
    have h2 : ¬ ((rest.length : Int) + 1 + 1 + 1 = 2) := by omega
    simp [pyrt, Val.ptSet, h0, h1, h2]

theorem h_inter_segment_convexpolyhedron_eq (s : Seg) (B : Polyhedron) :
    h_inter_segment_convexpolyhedron (.obj (.flat (.seg s))) (.obj (.polyhedron B)) = Val.ofRes (interSegPolyhedron s B) := by
  unfold h_inter_segment_convexpolyhedron
  simp only [pyrt, h_get_segment_convexpolyhedron_intersection_point_set_eq, interSegPolyhedron]
  by_cases ha : B.contains s.a = true <;> by_cases hb : B.contains s.b = true
  · simp [ha, hb, pyrt, seg?]
  all_goals
    simp only [ha, hb, pyrt, if_true, if_false, Bool.not_true, Bool.not_false, Bool.and_true, Bool.and_false,
      Bool.true_and, Bool.false_and, Bool.false_eq_true, Bool.not_eq_true]
    cases segPolyhedronPointSet s B with
    | error e => simp [pyrt]
    | ok acc =>
      simp only [pyrt, Val.ptSet]
      exact pointTail_eq _

theorem h_inter_convexpolyhedron_halfline_eq (B : Polyhedron) (h : HalfLine) :
    h_inter_convexpolyhedron_halfline (.obj (.polyhedron B)) (.obj (.flat (.halfline h))) =
      Val.ofRes (interPolyhedronHalfLine B h) := by
  unfold h_inter_convexpolyhedron_halfline
  simp only [pyrt, h_get_halfline_convexpolyhedron_intersection_point_set_eq, interPolyhedronHalfLine]
  cases boundaryHits (fun f => interPolygonHalfLine f h) (fun s => interSegHalfLine s h) B with
  | error e => simp [pyrt]
  | ok acc =>
    by_cases hp : B.contains h.p = true
    · simp only [hp, pyrt, Val.ptSet, if_true]
      exact pointTail_eq _
    · simp only [hp, pyrt, Val.ptSet, if_false, Bool.false_eq_true]
      exact pointTail_eq _

/-! ## ConvexPolygon / ConvexPolyhedron × ConvexPolyhedron -/

/-! ### `inter_convexpolygon_convexPolyhedron` -/
theorem h_inter_convexpolygon_convexPolyhedron_eq (B : Polyhedron) (P : Polygon) :
    h_inter_convexpolygon_convexPolyhedron (.obj (.polyhedron B)) (.obj (.polygon P)) =
      Val.ofRes (interPolygonPolyhedron B P) := by
  unfold h_inter_convexpolygon_convexPolyhedron
  simp only [pyrt, interPolygonPolyhedron]
  rcases interPlanePolyhedron P.plane B with e | o
  · simp [pyrt]
  · rcases o with _ | ⟨g | Q | B'⟩
    · simp [pyrt]
    · cases g <;> simp [pyrt]
    · simp [pyrt]
    · simp [pyrt]

/-! ### `inter_convexpolyhedron_convexpolyhedron` -/

def reprParts (p : Parts) : Val × Val × Val := (.set (p.gons.map Obj.polygon), .set (p.segs.map sgObj), Val.ptSet p.pts)

def clipStep (X : Polyhedron) (f : Polygon) (acc : Parts) : PyM (ForInStep Parts) :=
  match interPolygonPolyhedron X f with
  | .ok none => .ok (.yield acc)
  | .ok (some (.flat (.point q))) => .ok (.yield { acc with pts := addNew acc.pts q })
  | .ok (some (.flat (.seg s))) => .ok (.yield { acc with segs := addSeg acc.segs s })
  | .ok (some (.polygon Q)) => .ok (.yield { acc with gons := addPolygon acc.gons Q })
  | .ok _ => .ok (.yield acc)
  | .error e => .error e

theorem clipFaces_eq_forIn (X : Polyhedron) (fs : List Polygon) (acc : Parts) :
    clipFaces X fs acc = forIn fs acc (clipStep X) := by
  induction fs generalizing acc with
  | nil => simp [clipFaces]
  | cons f fs ih =>
    simp only [List.forIn_cons, clipFaces, clipStep]
    split <;> simp [ih, *]

theorem clipBody_eq (X : Polyhedron) (f : Polygon) (acc : Parts) :
    (do let inter ← Val.ofRes (interPolygonPolyhedron X f)
        if (pyIsNone inter).truthy = true then
          Except.ok (ForInStep.yield ((reprParts acc).1, (reprParts acc).2.1, (reprParts acc).2.2))
        else if (pyIsInstance inter PyTy.Point).truthy = true then
          (fun a => ForInStep.yield ((reprParts acc).1, (reprParts acc).2.1, a)) <$> pySetAdd (reprParts acc).2.2 inter
        else if (pyIsInstance inter PyTy.Segment).truthy = true then
          (fun a => ForInStep.yield ((reprParts acc).1, a, (reprParts acc).2.2)) <$> pySetAdd (reprParts acc).2.1 inter
        else if (pyIsInstance inter PyTy.ConvexPolygon).truthy = true then
          (fun a => ForInStep.yield (a, (reprParts acc).2.1, (reprParts acc).2.2)) <$> pySetAdd (reprParts acc).1 inter
        else Except.ok (ForInStep.yield ((reprParts acc).1, (reprParts acc).2.1, (reprParts acc).2.2))) =
      ForInStep.map' reprParts <$> clipStep X f acc := by
  unfold clipStep
  rcases interPolygonPolyhedron X f with e | o
  · simp [pyrt]
  · rcases o with _ | ⟨g | Q | B'⟩
    · simp [pyrt, ForInStep.map', reprParts]
    · cases g <;> simp [pyrt, ForInStep.map', reprParts, Val.ptSet]
    · simp [pyrt, ForInStep.map', reprParts]
    · simp [pyrt, ForInStep.map', reprParts]

theorem h_inter_convexpolyhedron_convexpolyhedron_eq (A B : Polyhedron) :
    h_inter_convexpolyhedron_convexpolyhedron (.obj (.polyhedron A)) (.obj (.polyhedron B)) =
      Val.ofRes (interPolyhedronPolyhedron A B) := by
  unfold h_inter_convexpolyhedron_convexpolyhedron
  simp only [pyrt, List.map_map, decide_true, if_true, Bool.not_true, Bool.false_eq_true, if_false]
  rw [show (Val.set [], Val.set [], Val.set []) = reprParts {} from rfl]
  rw [forIn_repr (Val.obj ∘ Obj.polygon) reprParts A.faces _ (clipStep B)]
  rotate_left
  · intro f _ acc
    simp only [Function.comp, h_inter_convexpolygon_convexPolyhedron_eq]
    exact clipBody_eq B f acc
  simp only [interPolyhedronPolyhedron, ← clipFaces_eq_forIn]
  cases clipFaces B A.faces {} with
  | error e => simp [pyrt]
  | ok p1 =>
    simp only [pyrt]
    rw [show ((reprParts p1).1, (reprParts p1).2.1, (reprParts p1).2.2) = reprParts p1 from rfl]
    rw [forIn_repr (Val.obj ∘ Obj.polygon) reprParts B.faces _ (clipStep A)]
    rotate_left
    · intro f _ acc
      simp only [Function.comp, h_inter_convexpolygon_convexPolyhedron_eq]
      exact clipBody_eq A f acc
    simp only [← clipFaces_eq_forIn]
    cases clipFaces A B.faces p1 with
    | error e => simp [pyrt]
    | ok p2 =>
      obtain ⟨gons, segs, pts⟩ := p2
      simp only [pyrt, reprParts, Val.ptSet, List.length_map]
      rcases gons with _ | ⟨g1, _ | ⟨g2, gs⟩⟩
      · rcases segs with _ | ⟨s1, _ | ⟨s2, ss⟩⟩
        · rcases pts with _ | ⟨p1, _ | ⟨p2, ps⟩⟩
          · simp [pyrt]
          · simp [pyrt, pt?, ptObj]
          · have : (1 : Int) < (ps.length : Int) + 1 + 1 := by omega
            simp [pyrt, this]
        · simp [pyrt, seg?, sgObj]
        · have : (1 : Int) < (ss.length : Int) + 1 + 1 := by omega
          simp [pyrt, this]
      · simp [pyrt]
      · have : (1 : Int) < (gs.length : Int) + 1 + 1 := by omega
        simp only [List.length_cons, Nat.cast_add, Nat.cast_one, this, decide_true, if_true]
        cases liftC (Polyhedron.mk? (g1 :: g2 :: gs)) <;> simp [pyrt]

/-! ## ConvexPolygon × ConvexPolygon -/

theorem liftFlat_flat (r : Res) (o : Obj) (h : liftFlat r = .ok (some o)) : ∃ g, o = .flat g := by
  rcases r with e | _ | g
  · cases e <;> cases h
  · cases h
  · cases h; exact ⟨g, rfl⟩

theorem lineEdgesLoop_flat (l : Line) (ss : List Seg) (acc : List V3) (o : Obj)
    (h : lineEdgesLoop l ss acc = .ok (some o)) : ∃ g, o = .flat g := by
  induction ss generalizing acc with
  | nil => exact liftFlat_flat _ o h
  | cons s ss ih =>
    simp only [lineEdgesLoop] at h
    split at h
    · exact ih _ h
    · exact ih _ h
    · cases h; exact ⟨_, rfl⟩
    · cases h
    · cases h

theorem interLinePolygon_flat (l : Line) (P : Polygon) (o : Obj) (h : interLinePolygon l P = .ok (some o)) :
    ∃ g, o = .flat g := by
  unfold interLinePolygon at h
  split at h
  · cases h
  · rcases hs : liftC P.segments? with e | ss
    · rw [hs] at h; cases h
    · rw [hs] at h; exact lineEdgesLoop_flat l ss [] o h
  · simp only [interPointPolygon] at h
    split at h
    · cases h; exact ⟨_, rfl⟩
    · cases h
  · cases h

theorem interPlanePlane_kind (a b : Plane) (g : Geo) (h : interPlanePlane a b = .ok (some g)) :
    (∃ L, g = .line L) ∨ (∃ c, g = .plane c) := by
  unfold interPlanePlane at h
  split at h
  · cases h; exact Or.inr ⟨_, rfl⟩
  · split at h
    · cases h
    · simp only at h
      split at h
      · cases h; exact Or.inl ⟨_, rfl⟩
      · cases h

def filterStep (c : V3 → Bool) (p : V3) (acc : List V3) : PyM (ForInStep (List V3)) :=
  .ok (.yield (if c p then addNew acc p else acc))

theorem forIn_filterStep (c : V3 → Bool) (ps acc : List V3) :
    forIn ps acc (filterStep c) = .ok ((ps.filter c).foldl addNew acc) := by
  induction ps generalizing acc with
  | nil => simp
  | cons p ps ih =>
    simp only [List.forIn_cons, filterStep, ok_bind, ih, List.filter_cons]
    by_cases h : c p = true
    · simp [h]
    · simp [h]

theorem mem_foldl_addNew_of_mem_acc (q : V3) (l acc : List V3) (h : q ∈ acc) : q ∈ l.foldl addNew acc := by
  induction l generalizing acc with
  | nil => exact h
  | cons y ys ih =>
    simp only [List.foldl_cons]
    apply ih
    unfold addNew; split
    · exact h
    · exact List.mem_append_left _ h

theorem mem_foldl_addNew_of_mem (q : V3) (l acc : List V3) (h : q ∈ l) : q ∈ l.foldl addNew acc := by
  induction l generalizing acc with
  | nil => cases h
  | cons x xs ih =>
    simp only [List.foldl_cons]
    rcases List.mem_cons.mp h with rfl | hq'
    · apply mem_foldl_addNew_of_mem_acc
      unfold addNew; split
      · assumption
      · simp
    · exact ih _ hq'

theorem addNew_foldl_addNew (tmp acc : List V3) (q : V3) :
    (addNew tmp q).foldl addNew acc = addNew (tmp.foldl addNew acc) q := by
  by_cases h : q ∈ tmp
  · have h1 : addNew tmp q = tmp := by simp [addNew, h]
    have h2 : addNew (tmp.foldl addNew acc) q = tmp.foldl addNew acc := by
      simp [addNew, mem_foldl_addNew_of_mem q tmp acc h]
    rw [h1, h2]
  · have h1 : addNew tmp q = tmp ++ [q] := by simp [addNew, h]
    rw [h1, List.foldl_append]; rfl

theorem edgeHits_acc (edgePt : Seg → Res) (ss : List Seg) (tmp acc : List V3) :
    (fun hits => hits.foldl addNew acc) <$> edgeHits edgePt ss tmp = edgeHits edgePt ss (tmp.foldl addNew acc) := by
  induction ss generalizing tmp with
  | nil => simp [edgeHits]
  | cons s ss ih =>
    simp only [edgeHits]
    split <;> first | exact ih tmp | (rw [ih, addNew_foldl_addNew]) | simp

def crossStep (sb : List Seg) (s : Seg) (acc : List V3) : PyM (ForInStep (List V3)) :=
  ForInStep.yield <$> crossHitsOne sb s acc

theorem crossHits_eq_forIn (sb sa : List Seg) (acc : List V3) :
    crossHits sb sa acc = forIn sa acc (crossStep sb) := by
  induction sa generalizing acc with
  | nil => simp [crossHits]
  | cons s sa ih =>
    simp only [List.forIn_cons, crossHits, crossStep]
    cases crossHitsOne sb s acc with
    | error e => simp
    | ok acc' => simp [ih]

theorem mapM_except_length {ε α β : Type} (f : α → Except ε β) (l : List α) (r : List β)
    (h : l.mapM f = .ok r) : r.length = l.length := by
  induction l generalizing r with
  | nil => simp [List.mapM_nil, pure, Except.pure] at h; subst h; rfl
  | cons x xs ih =>
    simp only [List.mapM_cons, bind, Except.bind] at h
    split at h
    · cases h
    · rename_i y hy
      split at h
      · cases h
      · rename_i ys hys
        simp only [pure, Except.pure] at h
        cases h
        simp [ih ys hys]

theorem segments_ne_nil (P : Polygon) (hP : P.pts ≠ []) (ss : List Seg) (h : liftC P.segments? = .ok ss) : ss ≠ [] := by
  intro hss; subst hss
  unfold Polygon.segments? at h
  rcases hm : (closedPairs P.pts).mapM (fun e => if e.1 = e.2 then Except.error CErr.value else Except.ok (Seg.mk' e.1 e.2)) with e | r
  · rw [hm] at h; cases h
  · rw [hm] at h
    have hr : r = [] := by cases h; rfl
    have hlen := mapM_except_length _ _ _ hm
    rw [hr] at hlen
    rcases hp : P.pts with _ | ⟨p, ps⟩
    · exact hP hp
    · rw [hp] at hlen
      cases ps <;> simp [closedPairs, consec] at hlen

/-- `inter_convexpolygon_convexpolygon`.  The hand model and the code differ in two corner cases that the two
    hypotheses exclude (both are impossible for polygons that the constructor built, see the corollary):
    * `hA`: with an empty vertex tuple `a.points` the code never calls `b.segments()`, the model does;
    * `hNE`: when the planes cross in a line `L`, `L ∩ a` is `None` and `L ∩ b` *raises*, the code raises
      (both inner intersections are computed before the `None` test) while the model returns `None`. -/
theorem h_inter_convexpolygon_convexpolygon_eq (a b : Polygon) (hA : a.pts ≠ [])
    (hNE : ∀ L, interPlanePlane a.plane b.plane = .ok (some (.line L)) → interLinePolygon L a = .ok none →
      ∀ e, interLinePolygon L b ≠ .error e) :
    h_inter_convexpolygon_convexpolygon (.obj (.polygon a)) (.obj (.polygon b)) =
      Val.ofRes (interPolygonPolygon a b) := by
  unfold h_inter_convexpolygon_convexpolygon
  simp only [pyrt, List.map_map, interPolygonPolygon]
  rcases hpp : interPlanePlane a.plane b.plane with e | o
  · cases interPlanePlane_onlyBug _ _ e hpp; simp [pyrt]
  rcases o with _ | g
  · simp [pyrt]
  rcases interPlanePlane_kind _ _ g hpp with ⟨L, rfl⟩ | ⟨c, rfl⟩
  · -- the planes cross in the line L
    simp only [pyrt, decide_true, if_true, reduceCtorEq, decide_false, Bool.false_eq_true, if_false]
    rcases h1 : interLinePolygon L a with e1 | o1
    · simp [pyrt]
    rcases h2 : interLinePolygon L b with e2 | o2
    · rcases o1 with _ | x1
      · exact absurd h2 (hNE L hpp h1 e2)
      · simp [pyrt]
    rcases o1 with _ | x1
    · simp [pyrt]
    rcases o2 with _ | x2
    · simp [pyrt]
    obtain ⟨g1, rfl⟩ := interLinePolygon_flat L a x1 h1
    obtain ⟨g2, rfl⟩ := interLinePolygon_flat L b x2 h2
    simp [pyrt, interFlatPair]
  · -- coplanar
    simp only [pyrt, decide_true, if_true, reduceCtorEq, decide_false, Bool.false_eq_true, if_false]
    by_cases heq : a.plane.eqv b.plane = true
    swap
    · simp [heq, pyrt]
    simp only [heq, Bool.not_true, Bool.false_eq_true, if_false]
    rw [show (Val.set []) = Val.ptSet [] from rfl]
    rw [forIn_repr (Val.obj ∘ ptObj) Val.ptSet a.pts _ (filterStep b.contains)]
    rotate_left
    · intro p _ acc
      simp only [Function.comp, ptObj, pyrt, filterStep]
      by_cases hc : b.contains p = true <;> simp [hc, pyrt, ForInStep.map', Val.ptSet]
    rw [forIn_filterStep]
    simp only [pyrt]
    rw [forIn_repr (Val.obj ∘ ptObj) Val.ptSet b.pts _ (filterStep a.contains)]
    rotate_left
    · intro p _ acc
      simp only [Function.comp, ptObj, pyrt, filterStep]
      by_cases hc : a.contains p = true <;> simp [hc, pyrt, ForInStep.map', Val.ptSet]
    rw [forIn_filterStep]
    simp only [pyrt, pyMeth_segments]
    generalize List.foldl addNew (List.foldl addNew [] (List.filter b.contains a.pts)) (List.filter a.contains b.pts) = acc0
    rcases hsa : liftC a.segments? with e | sa
    · simp [pyrt]
    simp only [pyrt, List.map_map]
    rcases hsb : liftC b.segments? with e | sb
    · -- `b.segments()` raises: in the code at the first round of the loop over `a.segments()`
      have hne := segments_ne_nil a hA sa hsa
      rcases sa with _ | ⟨s0, sa'⟩
      · exact absurd rfl hne
      · simp [List.forIn_cons, sgObj, h_get_segment_convexpolygon_intersection_point_set_eq, hsb, pyrt]
    simp only [pyrt]
    rw [forIn_repr (Val.obj ∘ sgObj) Val.ptSet sa _ (crossStep sb)]
    rotate_left
    · intro s _ acc
      simp only [Function.comp, sgObj, h_get_segment_convexpolygon_intersection_point_set_eq, hsb, pyrt,
        crossStep, crossHitsOne]
      have hacc := edgeHits_acc (fun t => interSegSeg t s) sb [] acc
      simp only [List.foldl_nil] at hacc
      rw [← hacc]
      cases edgeHits (fun t => interSegSeg t s) sb [] with
      | error e => simp
      | ok hits => simp [pyrt, Val.ptSet, ForInStep.map']
    rw [← crossHits_eq_forIn]
    cases crossHits sb sa acc0 with
    | error e => simp [pyrt]
    | ok acc =>
      simp only [pyrt, Val.ptSet, List.length_map]
      match acc with
      | [] => simp [pyrt]
      | [p] => simp [pyrt, ptObj, pt?]
      | [p, q] =>
        simp [pyrt, ptObj, seg?, liftC]
        by_cases hpq : p = q <;> simp [hpq, pyrt]
      | p :: q :: r :: rest =>
        have h0 : ¬ ((rest.length : Int) + 1 + 1 + 1 = 0) := by omega
        have h1 : ¬ ((rest.length : Int) + 1 + 1 = 0) := by omega
        have h2 : ¬ ((rest.length : Int) + 1 + 1 + 1 = 2) := by omega
        have hpl := h_points_in_a_line_eq (p :: q :: r :: rest)
        simp only [Val.ptSeq, List.map_cons] at hpl
        simp [pyrt, h0, h1, h2, hpl]
        cases pointsInALine (p :: q :: r :: rest) with
        | error e => simp [pyrt]
        | ok bl =>
          cases bl
          · simp [pyrt]
            cases liftC (Polygon.mk? (p :: q :: r :: rest)) <;> simp [pyrt]
          · simp [pyrt]

/-- for polygons that satisfy the constructor's guarantees the two side conditions hold -/
theorem h_inter_convexpolygon_convexpolygon_eq_of_valid (a b : Polygon) (ha : a.Valid) (hb : b.Valid) :
    h_inter_convexpolygon_convexpolygon (.obj (.polygon a)) (.obj (.polygon b)) =
      Val.ofRes (interPolygonPolygon a b) := by
  apply h_inter_convexpolygon_convexpolygon_eq
  · obtain ⟨p0, p1, p2, rest, h, _⟩ := ha; rw [h]; simp
  · intro L hL _ e he
    obtain ⟨o, ho, hw, _⟩ := interPlanePlane_exact a.plane b.plane (Polygon.plane_WF a ha) (Polygon.plane_WF b hb)
    rw [hL] at ho; cases ho
    have hLW : L.WF := hw (.line L) rfl
    obtain ⟨o', ho', _⟩ := interLinePolygon_exact L hLW b hb
    rw [ho'] at he; cases he

/-! ## flat × ConvexPolygon -/

/-! ### `inter_line_convexpolygon` -/

def lineEdgeStep (l : Line) (s : Seg) (st : Option Obj × List V3) : PyM (ForInStep (Option Obj × List V3)) :=
  match interLineSeg l s with
  | .ok none => .ok (.yield (none, st.2))
  | .ok (some (.point q)) => .ok (.yield (none, addNew st.2 q))
  | .ok (some (.seg r)) => .ok (.done (some (.flat (.seg r)), st.2))
  | .ok _ => .error .bug
  | .error _ => .error .bug

theorem lineEdgesLoop_eq (l : Line) (ss : List Seg) (acc : List V3) :
    lineEdgesLoop l ss acc =
      (do let st ← forIn ss ((none : Option Obj), acc) (lineEdgeStep l)
          match st.1 with
          | some o => .ok (some o)
          | none => ofPoints st.2) := by
  induction ss generalizing acc with
  | nil => simp [lineEdgesLoop]
  | cons s ss ih =>
    simp only [List.forIn_cons, lineEdgesLoop, lineEdgeStep]
    split <;> simp [ih, seg?, *]

theorem h_inter_line_convexpolygon_eq (l : Line) (P : Polygon) :
    h_inter_line_convexpolygon (.obj (.flat (.line l))) (.obj (.polygon P)) =
      Val.ofRes (interLinePolygon l P) := by
  unfold h_inter_line_convexpolygon
  simp only [pyrt, List.map_map, interLinePolygon]
  rcases hlp : interLinePlane l P.plane with e | o
  · exact absurd hlp (interLinePlane_ne_error _ _ e)
  rcases o with _ | g
  · simp [pyrt]
  cases g with
  | point q => simp [pyrt]
  | plane c => simp [pyrt]
  | seg c => simp [pyrt]
  | halfline c => simp [pyrt]
  | line L =>
    simp only [pyrt, decide_true, if_true, pyMeth_segments]
    rcases liftC P.segments? with e | ss
    · simp [pyrt]
    simp only [pyrt, List.map_map]
    rw [show ((none : Option Val), Val.set []) = reprRP (none, []) from rfl]
    rw [forIn_repr (Val.obj ∘ sgObj) reprRP ss _ (lineEdgeStep l)]
    rotate_left
    · intro s _ st
      simp only [Function.comp, sgObj, pyrt, lineEdgeStep, reprRP]
      rcases hls : interLineSeg l s with e | o
      · cases interLineSeg_onlyBug l s e hls; simp [pyrt]
      · rcases o with _ | g
        · simp [pyrt, ForInStep.map', reprRP]
        · cases g <;> simp [pyrt, ForInStep.map', Val.ptSet, reprRP]
    rw [lineEdgesLoop_eq]
    cases forIn ss ((none : Option Obj), ([] : List V3)) (lineEdgeStep l) with
    | error e => simp [pyrt]
    | ok st =>
      obtain ⟨r, acc⟩ := st
      cases r with
      | some o => simp [pyrt, reprRP]
      | none =>
        simp only [pyrt, reprRP, Option.map_none, Val.ptSet, List.length_map, ofPoints_cases]
        match acc with
        | [] => simp [pyrt]
        | [p] => simp [pyrt, ptObj]
        | [p, q] => simp [pyrt, ptObj]
        | p :: q :: r :: rest =>
          have h0 : ¬ ((rest.length : Int) + 1 + 1 + 1 = 0) := by omega
          have h1 : ¬ ((rest.length : Int) + 1 + 1 = 0) := by omega
          have h2 : ¬ ((rest.length : Int) + 1 + 1 + 1 = 2) := by omega
          simp [pyrt, h0, h1, h2]

/-! ### `inter_plane_convexpolygon` -/
theorem h_inter_plane_convexpolygon_eq (a : Plane) (P : Polygon) :
    h_inter_plane_convexpolygon (.obj (.flat (.plane a))) (.obj (.polygon P)) =
      Val.ofRes (interPlanePolygon a P) := by
  unfold h_inter_plane_convexpolygon
  simp only [pyrt, interPlanePolygon]
  rcases hpp : interPlanePlane a P.plane with e | o
  · cases interPlanePlane_onlyBug _ _ e hpp; simp [pyrt]
  rcases o with _ | g
  · simp [pyrt]
  cases g <;> simp [pyrt]

/-! ### `inter_segment_convexpolygon`, `inter_convexpolygon_halfline` -/
theorem h_inter_segment_convexpolygon_eq (s : Seg) (P : Polygon) :
    h_inter_segment_convexpolygon (.obj (.flat (.seg s))) (.obj (.polygon P)) =
      Val.ofRes (interSegPolygon s P) := by
  unfold h_inter_segment_convexpolygon
  simp only [pyrt, interSegPolygon, interCarrierPolygon]
  rcases hlp : interLinePlane s.line P.plane with e | o
  · exact absurd hlp (interLinePlane_ne_error _ _ e)
  rcases o with _ | g
  · simp [pyrt]
  cases g with
  | point q =>
    simp only [pyrt, decide_true, if_true, reduceCtorEq, decide_false, Bool.false_eq_true, if_false]
    by_cases h1 : s.contains q = true <;> by_cases h2 : P.contains q = true <;> simp [h1, h2, pyrt, pt?]
  | plane c => simp [pyrt]
  | seg c => simp [pyrt]
  | halfline c => simp [pyrt]
  | line L =>
    simp only [pyrt, decide_true, if_true, reduceCtorEq, decide_false, Bool.false_eq_true, if_false]
    rcases interLinePolygon s.line P with e | o
    · simp [pyrt]
    rcases o with _ | ⟨g | Q | B'⟩
    · simp [pyrt]
    · cases g <;> simp [pyrt]
    · simp [pyrt]
    · simp [pyrt]

theorem h_inter_convexpolygon_halfline_eq (P : Polygon) (h : HalfLine) :
    h_inter_convexpolygon_halfline (.obj (.polygon P)) (.obj (.flat (.halfline h))) =
      Val.ofRes (interPolygonHalfLine P h) := by
  unfold h_inter_convexpolygon_halfline
  simp only [pyrt, interPolygonHalfLine, interCarrierPolygon]
  rcases hlp : interLinePlane h.line P.plane with e | o
  · exact absurd hlp (interLinePlane_ne_error _ _ e)
  rcases o with _ | g
  · simp [pyrt]
  cases g with
  | point q =>
    simp only [pyrt, decide_true, if_true, reduceCtorEq, decide_false, Bool.false_eq_true, if_false]
    by_cases h1 : h.contains q = true <;> by_cases h2 : P.contains q = true <;> simp [h1, h2, pyrt, pt?]
  | plane c => simp [pyrt]
  | seg c => simp [pyrt]
  | halfline c => simp [pyrt]
  | line L =>
    simp only [pyrt, decide_true, if_true, reduceCtorEq, decide_false, Bool.false_eq_true, if_false]
    rcases interLinePolygon h.line P with e | o
    · simp [pyrt]
    rcases o with _ | ⟨g | Q | B'⟩
    · simp [pyrt]
    · cases g <;> simp [pyrt]
    · simp [pyrt]
    · simp [pyrt]

/-! ### `inter_point_convexpolygon`, `inter_point_convexpolyhedron` -/
theorem h_inter_point_convexpolygon_eq (p : V3) (P : Polygon) :
    h_inter_point_convexpolygon (.obj (.flat (.point p))) (.obj (.polygon P)) = Val.ofRes (interPointPolygon p P) := by
  unfold h_inter_point_convexpolygon
  by_cases h : P.contains p = true <;> simp [pyrt, interPointPolygon, pt?, h]

theorem h_inter_point_convexpolyhedron_eq (p : V3) (B : Polyhedron) :
    h_inter_point_convexpolyhedron (.obj (.flat (.point p))) (.obj (.polyhedron B)) = Val.ofRes (interPointPolyhedron p B) := by
  unfold h_inter_point_convexpolyhedron
  by_cases h : B.contains p = true <;> simp [pyrt, interPointPolyhedron, pt?, h]

/-! ## the flat handlers of calc/intersection.py that are written in terms of other handlers -/

@[pyrt] theorem pySetAdd_nil_pt (q : V3) :
    pySetAdd (.set []) (.obj (.flat (.point q))) = .ok (.set ((addNew [] q).map ptObj)) :=
  pySetAdd_pt [] q

/-- the tail of the collinear handlers, after evaluation of the runtime primitives:
    `if len(s) == 0: return None; l = list(s); if len(s) == 1: return l[0]; elif len(s) == 2: Segment(l[0], l[1]); else Bug` -/
theorem pointTail2_eq (acc : List V3) :
    (if (((acc.map ptObj).length : Int) == 0) = true then Except.ok Val.none
     else if (((acc.map ptObj).length : Int) == 1) = true then pyIndex (Val.seq (acc.map ptObj)) (Val.int 0)
     else if (((acc.map ptObj).length : Int) == 2) = true then do
       let x ← pyIndex (Val.seq (acc.map ptObj)) (Val.int 0)
       let y ← pyIndex (Val.seq (acc.map ptObj)) (Val.int 1)
       pySegment x y
     else Except.error BErr.bug) = Val.ofRes (liftFlat (ofPointSet acc)) := by
  have := ofPoints_cases acc
  unfold ofPoints at this
  rw [this]
  match acc with
  | [] => simp [pyrt]
  | [p] => simp [pyrt, ptObj]
  | [p, q] => simp [pyrt, ptObj]
  | p :: q :: r :: rest =>
    have h0 : ¬ ((rest.length : Int) + 1 + 1 + 1 = 0) := by omega
    have h1 : ¬ ((rest.length : Int) + 1 + 1 = 0) := by omega
    have h2 : ¬ ((rest.length : Int) + 1 + 1 + 1 = 2) := by omega
    simp [pyrt, h0, h1, h2]

/-- the non-collinear branch shared by the three collinear handlers -/
theorem crossing_eq (c1 c2 : V3 → Bool) (r : Res) :
    (do let inter_l_l ← Val.ofRes (liftFlat r)
        if (pyIsNone inter_l_l).truthy = true then Except.ok Val.none
        else if (pyIsInstance inter_l_l PyTy.Point).truthy = true then do
          let c ← pyAnd (match inter_l_l with | .obj (.flat (.point q)) => .ok (.bool (c1 q)) | _ => .error .typeMismatch)
                    (match inter_l_l with | .obj (.flat (.point q)) => .ok (.bool (c2 q)) | _ => .error .typeMismatch)
          if c.truthy = true then Except.ok inter_l_l else Except.ok Val.none
        else Except.error BErr.bug) =
      Val.ofRes (liftFlat (match r with
        | .ok none => .ok none
        | .ok (some (.point q)) => .ok (if c1 q && c2 q then some (.point q) else none)
        | .ok _ => .error .bug
        | .error e => .error e)) := by
  rcases r with e | o
  · cases e <;> simp [pyrt, liftFlat]
  rcases o with _ | g
  · simp [pyrt]
  cases g with
  | point q => by_cases h1 : c1 q = true <;> by_cases h2 : c2 q = true <;> simp [pyrt, h1, h2]
  | _ => simp [pyrt]

theorem h_inter_segment_segment_eq (a b : Seg) :
    h_inter_segment_segment (.obj (.flat (.seg a))) (.obj (.flat (.seg b))) =
      Val.ofRes (liftFlat (interSegSeg a b)) := by
  unfold h_inter_segment_segment
  simp only [pyrt, List.map_map, interSegSeg]
  by_cases heq : a.line.eqv b.line = true
  · simp only [heq, if_true]
    by_cases h1 : b.contains a.a = true <;> by_cases h2 : b.contains a.b = true <;>
      by_cases h3 : a.contains b.a = true <;> by_cases h4 : a.contains b.b = true <;>
      simp only [h1, h2, h3, h4, if_true, if_false, pySetAdd_pt, pySetAdd_nil_pt, ok_bind, Bool.false_eq_true] <;>
      first
        | exact pointTail2_eq []
        | (generalize addNew _ _ = acc; exact pointTail2_eq acc)
  · simp only [heq, if_false, Bool.false_eq_true]
    rcases interLineLine a.line b.line with e | o
    · cases e <;> simp [pyrt, liftFlat]
    rcases o with _ | g
    · simp [pyrt]
    cases g with
    | point q => by_cases h1 : a.contains q = true <;> by_cases h2 : b.contains q = true <;> simp [pyrt, h1, h2]
    | _ => simp [pyrt]

theorem h_inter_segment_halfline_eq (a : Seg) (b : HalfLine) :
    h_inter_segment_halfline (.obj (.flat (.seg a))) (.obj (.flat (.halfline b))) =
      Val.ofRes (liftFlat (interSegHalfLine a b)) := by
  unfold h_inter_segment_halfline
  simp only [pyrt, List.map_map, interSegHalfLine]
  by_cases heq : a.line.eqv b.line = true
  · simp only [heq, if_true]
    by_cases h1 : b.contains a.a = true <;> by_cases h2 : b.contains a.b = true <;>
      by_cases h3 : a.contains b.p = true <;>
      simp only [h1, h2, h3, if_true, if_false, pySetAdd_pt, pySetAdd_nil_pt, ok_bind, Bool.false_eq_true] <;>
      first
        | exact pointTail2_eq []
        | (generalize addNew _ _ = acc; exact pointTail2_eq acc)
  · simp only [heq, if_false, Bool.false_eq_true]
    rcases interLineLine a.line b.line with e | o
    · cases e <;> simp [pyrt, liftFlat]
    rcases o with _ | g
    · simp [pyrt]
    cases g with
    | point q => by_cases h1 : a.contains q = true <;> by_cases h2 : b.contains q = true <;> simp [pyrt, h1, h2]
    | _ => simp [pyrt]

theorem h_inter_halfline_halfline_eq (a b : HalfLine) :
    h_inter_halfline_halfline (.obj (.flat (.halfline a))) (.obj (.flat (.halfline b))) =
      Val.ofRes (liftFlat (interHalfLineHalfLine a b)) := by
  unfold h_inter_halfline_halfline
  simp only [pyrt, List.map_map, interHalfLineHalfLine]
  by_cases heq : a.line.eqv b.line = true
  · simp only [heq, if_true]
    by_cases hab : b.containsHL a = true
    · simp [hab, pyrt]
    by_cases hba : a.containsHL b = true
    · simp [hab, hba, pyrt]
    simp only [hab, hba, if_false, Bool.false_eq_true]
    by_cases h1 : b.contains a.p = true <;> by_cases h2 : a.contains b.p = true <;>
      simp only [h1, h2, if_true, if_false, pySetAdd_pt, pySetAdd_nil_pt, ok_bind, Bool.false_eq_true] <;>
      first
        | exact pointTail2_eq []
        | (generalize addNew _ _ = acc; exact pointTail2_eq acc)
  · simp only [heq, if_false, Bool.false_eq_true]
    rcases interLineLine a.line b.line with e | o
    · cases e <;> simp [pyrt, liftFlat]
    rcases o with _ | g
    · simp [pyrt]
    cases g with
    | point q => by_cases h1 : a.contains q = true <;> by_cases h2 : b.contains q = true <;> simp [pyrt, h1, h2]
    | _ => simp [pyrt]

theorem h_inter_line_segment_eq (l : Line) (s : Seg) :
    h_inter_line_segment (.obj (.flat (.line l))) (.obj (.flat (.seg s))) = Val.ofRes (liftFlat (interLineSeg l s)) := by
  unfold h_inter_line_segment
  simp only [pyrt, interLineSeg]
  rcases interLineLine l s.line with e | o
  · cases e <;> simp [pyrt, liftFlat]
  rcases o with _ | g
  · simp [pyrt]
  cases g <;> simp [pyrt]

theorem h_inter_line_halfline_eq (l : Line) (h : HalfLine) :
    h_inter_line_halfline (.obj (.flat (.line l))) (.obj (.flat (.halfline h))) =
      Val.ofRes (liftFlat (interLineHalfLine l h)) := by
  unfold h_inter_line_halfline
  simp only [pyrt, interLineHalfLine]
  rcases interLineLine l h.line with e | o
  · cases e <;> simp [pyrt, liftFlat]
  rcases o with _ | g
  · simp [pyrt]
  cases g <;> simp [pyrt]

theorem h_inter_plane_segment_eq (a : Plane) (s : Seg) :
    h_inter_plane_segment (.obj (.flat (.plane a))) (.obj (.flat (.seg s))) = Val.ofRes (liftFlat (interPlaneSeg a s)) := by
  unfold h_inter_plane_segment
  simp only [pyrt, interPlaneSeg]
  rcases interLinePlane s.line a with e | o
  · cases e <;> simp [pyrt, liftFlat]
  rcases o with _ | g
  · simp [pyrt]
  cases g <;> simp [pyrt]

theorem h_inter_plane_halfline_eq (a : Plane) (h : HalfLine) :
    h_inter_plane_halfline (.obj (.flat (.plane a))) (.obj (.flat (.halfline h))) =
      Val.ofRes (liftFlat (interPlaneHalfLine a h)) := by
  unfold h_inter_plane_halfline
  simp only [pyrt, interPlaneHalfLine]
  rcases interLinePlane h.line a with e | o
  · cases e <;> simp [pyrt, liftFlat]
  rcases o with _ | g
  · simp [pyrt]
  cases g <;> simp [pyrt]

/-! ### the five `inter_point_*` flat handlers -/
theorem h_inter_point_point_eq (p q : V3) :
    h_inter_point_point (.obj (.flat (.point p))) (.obj (.flat (.point q))) = Val.ofRes (liftFlat (interPointPoint p q)) := by
  unfold h_inter_point_point
  by_cases h : p = q <;> simp [pyrt, interPointPoint, h]

theorem h_inter_point_line_eq (p : V3) (l : Line) :
    h_inter_point_line (.obj (.flat (.point p))) (.obj (.flat (.line l))) = Val.ofRes (liftFlat (interPointLine p l)) := by
  unfold h_inter_point_line
  by_cases h : l.contains p = true <;> simp [pyrt, interPointLine, h]

theorem h_inter_point_plane_eq (p : V3) (a : Plane) :
    h_inter_point_plane (.obj (.flat (.point p))) (.obj (.flat (.plane a))) = Val.ofRes (liftFlat (interPointPlane p a)) := by
  unfold h_inter_point_plane
  by_cases h : a.contains p = true <;> simp [pyrt, interPointPlane, h]

theorem h_inter_point_segment_eq (p : V3) (s : Seg) :
    h_inter_point_segment (.obj (.flat (.point p))) (.obj (.flat (.seg s))) = Val.ofRes (liftFlat (interPointSeg p s)) := by
  unfold h_inter_point_segment
  by_cases h : s.contains p = true <;> simp [pyrt, interPointSeg, h]

theorem h_inter_point_halfline_eq (p : V3) (hl : HalfLine) :
    h_inter_point_halfline (.obj (.flat (.point p))) (.obj (.flat (.halfline hl))) =
      Val.ofRes (liftFlat (interPointHalfLine p hl)) := by
  unfold h_inter_point_halfline
  by_cases h : hl.contains p = true <;> simp [pyrt, interPointHalfLine, h]

/-! ## axiom audit -/
#print axioms h_get_segment_from_point_list_eq
#print axioms h_points_in_a_line_eq
#print axioms h_get_segment_convexpolygon_intersection_point_set_eq
#print axioms h_get_segment_convexpolyhedron_intersection_point_set_eq
#print axioms h_get_halfline_convexpolyhedron_intersection_point_set_eq
#print axioms h_inter_line_convexpolyhedron_eq
#print axioms h_inter_plane_convexpolyhedron_eq
#print axioms h_inter_segment_convexpolyhedron_eq
#print axioms h_inter_convexpolyhedron_halfline_eq
#print axioms h_inter_convexpolygon_convexPolyhedron_eq
#print axioms h_inter_convexpolyhedron_convexpolyhedron_eq
#print axioms h_inter_convexpolygon_convexpolygon_eq
#print axioms h_inter_convexpolygon_convexpolygon_eq_of_valid
#print axioms h_inter_line_convexpolygon_eq
#print axioms h_inter_plane_convexpolygon_eq
#print axioms h_inter_segment_convexpolygon_eq
#print axioms h_inter_convexpolygon_halfline_eq
#print axioms h_inter_point_convexpolygon_eq
#print axioms h_inter_point_convexpolyhedron_eq
#print axioms h_inter_segment_segment_eq
#print axioms h_inter_segment_halfline_eq
#print axioms h_inter_halfline_halfline_eq
#print axioms h_inter_line_segment_eq
#print axioms h_inter_line_halfline_eq
#print axioms h_inter_plane_segment_eq
#print axioms h_inter_plane_halfline_eq
#print axioms h_inter_point_point_eq
#print axioms h_inter_point_line_eq
#print axioms h_inter_point_plane_eq
#print axioms h_inter_point_segment_eq
#print axioms h_inter_point_halfline_eq

end G3D.Tie
