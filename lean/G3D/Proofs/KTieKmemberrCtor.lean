import G3D.Extracted.Kmemberr
import G3D.Proofs.KTieKmemberr
/-! # kmember (real part), constructor pins: `Segment(Point, Point)`, `HalfLine(Point, Vector)`  (C19)
    `G3D.Extracted.impl_*` are regenerated on every run (tools/extract_kmemberr.py, engine tools/kernels_engine.py): the REAL code is run on
    symbolic numbers, every comparison against the tolerance is recorded (operands and shape) and answered from a scripted
    path.  Each kernel has its own `section`: when the walk of ONE kernel fails the generated file holds only the marker
    `impl_<kernel>_EXTRACTION_FAILED` for it and exactly the theorems of that section stop compiling. -/
namespace G3D.KTie.Kmember
open G3D G3D.Extracted Real

section segCtor
theorem segCtor_path : impl_segCtor_path = [("abs(R) < eps", false), ("abs(R) < eps", false)] := by decide
end segCtor

section halfLineCtorLength
/-- the constructor's rejection test `|v| < eps` is on the length of `v` -/
theorem halfLineCtor_length_tie (p v : RVec) : impl_halfLineCtor_length p v = √(RVec.normSq v) := by
  simp only [impl_halfLineCtor_length, sum0]

theorem halfLineCtor_iff (p v : V3) : impl_halfLineCtor_length p.toR v.toR = 0 ↔ ¬ (HalfLine.mk' p v).WF := by
  rw [halfLineCtor_length_tie, toR_normSq]
  have hnn : (0 : ℝ) ≤ ((V3.normSq v : ℚ) : ℝ) := by exact_mod_cast G3D.normSq_nonneg v
  rw [Real.sqrt_eq_zero hnn]
  simp only [HalfLine.WF, HalfLine.mk', and_true, ne_eq, not_not, Rat.cast_eq_zero]
  exact G3D.normSq_eq_zero
end halfLineCtorLength

section combined
/-- (conjunction of `segContains_paths_main` and `segCtor_path`, kept under its former name) -/
theorem segContains_paths :
    impl_segContains_path = [("abs(R) < eps", false), ("abs(R) < eps", false), ("abs(R) < eps", false), ("abs(R) < (eps * S)", true), ("R < eps", false), ("R > -eps", true), ("R < (1 + eps)", true)] ∧
    impl_segContainsStart_path = [("abs(R) < eps", false), ("abs(R) < eps", false), ("abs(R) < eps", false), ("abs(R) < (eps * S)", false), ("R < eps", true)] ∧
    impl_segContainsOffLine_path = [("abs(R) < eps", false), ("abs(R) < eps", false), ("abs(R) < eps", false), ("abs(R) < (eps * S)", false), ("R < eps", false)] ∧
    impl_segCtor_path = [("abs(R) < eps", false), ("abs(R) < eps", false)] :=
  ⟨segContains_paths_main.1, segContains_paths_main.2.1, segContains_paths_main.2.2, segCtor_path⟩

/-- (conjunction of `halfLineCarrier_tie` and `halfLineCtor_length_tie`, kept under its former name) -/
theorem halfLine_parts_tie (p v x : RVec) :
    impl_halfLineContains_lineResidual p v x = impl_lineContains_residual p v x ∧
    impl_halfLineCtor_length p v = √(RVec.normSq v) := ⟨halfLineCarrier_tie p v x, halfLineCtor_length_tie p v⟩
end combined

end G3D.KTie.Kmember
