import G3D.Proofs.Collinear

/-! C08 for flats: `__eq__` decides equality of the denoted sets. -/
namespace G3D
open V3

/-- `Segment.__eq__` -/
def Seg.eqv (s o : Seg) : Bool := (s.a == o.a && s.b == o.b) || (s.b == o.a && s.a == o.b)

/-- `HalfLine.__eq__`: same origin and same unit direction; with unnormalised data: parallel and
    positively proportional -/
def HalfLine.eqv (h o : HalfLine) : Bool := h.p == o.p && V3.parallel h.v o.v && decide (0 < dot h.v o.v)

theorem Plane.eqv_iff (a b : Plane) (ha : a.WF) (hb : b.WF) :
    a.eqv b = true ↔ ∀ x, a.den x ↔ b.den x := by
  constructor
  · exact Plane.eqv_den a b ha hb
  · intro h
    have hp : b.den a.p := (h a.p).mp (by simp [Plane.den, dot, sub])
    -- every direction orthogonal to a.n is orthogonal to b.n; apply to u = a.n × (a.n × b.n)
    have key : ∀ u, dot a.n u = 0 → dot b.n u = 0 := by
      intro u hu
      have hx : a.den (add a.p u) := by
        simp only [Plane.den]
        have : dot a.n (sub (add a.p u) a.p) = dot a.n u := by simp only [dot, sub, add]; ring
        rw [this, hu]
      have hy := (h _).mp hx
      simp only [Plane.den] at hy hp
      have : dot b.n (sub (add a.p u) b.p) = dot b.n (sub a.p b.p) + dot b.n u := by
        simp only [dot, sub, add]; ring
      rw [this, hp] at hy; linarith
    have h0 := key (cross a.n (cross a.n b.n)) (by simp only [dot, cross]; ring)
    have hl : dot b.n (cross a.n (cross a.n b.n)) = - normSq (cross a.n b.n) := by
      simp only [dot, cross, normSq]; ring
    rw [hl] at h0
    have hc : cross a.n b.n = zero := normSq_eq_zero.mp (by linarith)
    exact Plane.eqv_of_parallel_common a b ha hb ((parallel_iff_cross _ _).mpr hc) a.p
      (by simp [Plane.den, dot, sub]) hp

theorem Seg.den_endpoints (s : Seg) : s.den s.a ∧ s.den s.b :=
  ⟨⟨0, le_refl _, by norm_num, by apply V3.ext' <;> simp [add, smul]⟩,
   ⟨1, by norm_num, le_refl _, by apply V3.ext' <;> simp [add, smul, sub]⟩⟩

/-- an endpoint of a segment is not strictly between two of its points -/
theorem Seg.eqv_iff (s o : Seg) (hs : s.WF) (ho : o.WF) :
    s.eqv o = true ↔ ∀ x, s.den x ↔ o.den x := by
  constructor
  · intro h
    unfold Seg.eqv at h
    simp only [Bool.or_eq_true, Bool.and_eq_true, beq_iff_eq] at h
    intro x
    rcases h with ⟨h1, h2⟩ | ⟨h1, h2⟩
    · unfold Seg.den; rw [h1, h2]
    · have : ∀ x, s.den x ↔ Between s.a s.b x := fun _ => Iff.rfl
      have ho' : ∀ x, o.den x ↔ Between o.a o.b x := fun _ => Iff.rfl
      rw [this, ho', h1, h2]; exact Between_swap _ _ _
  · intro h
    -- parametrise along s: o.a = pt s0, o.b = pt e0 with both in [0,1]; s.a, s.b in o forces {s0,e0} = {0,1}
    set d := sub s.b s.a with hd
    have hdn : d ≠ zero := fun h0 => hs.1 (sub_eq_zero_iff.mp h0).symm
    have hs0 : s.a = pt s.a d 0 := by apply V3.ext' <;> simp [pt, add, smul]
    have hs1 : s.b = pt s.a d 1 := by apply V3.ext' <;> simp [pt, add, smul, sub, hd]
    obtain ⟨u, hu0, hu1, hua⟩ := (h o.a).mpr o.den_endpoints.1
    obtain ⟨v, hv0, hv1, hvb⟩ := (h o.b).mpr o.den_endpoints.2
    have hoa : o.a = pt s.a d u := hua
    have hob : o.b = pt s.a d v := hvb
    have huv : u ≠ v := by
      intro e; apply ho.1; rw [hoa, hob, e]
    have oden := seg_den_pt hdn o hoa hob
    have h0 := (oden 0).mp (by rw [← hs0]; exact (h s.a).mp s.den_endpoints.1)
    have h1 := (oden 1).mp (by rw [← hs1]; exact (h s.b).mp s.den_endpoints.2)
    unfold Seg.eqv
    simp only [Bool.or_eq_true, Bool.and_eq_true, beq_iff_eq]
    rcases le_total u v with huv' | huv'
    · rw [min_eq_left huv', max_eq_right huv'] at h0 h1
      left
      have hu : u = 0 := le_antisymm h0.1 hu0
      have hv : v = 1 := le_antisymm hv1 h1.2
      exact ⟨by rw [hoa, hu]; exact hs0, by rw [hob, hv]; exact hs1⟩
    · rw [min_eq_right huv', max_eq_left huv'] at h0 h1
      right
      have hv : v = 0 := le_antisymm h0.1 hv0
      have hu : u = 1 := le_antisymm hu1 h1.2
      exact ⟨by rw [hoa, hu]; exact hs1, by rw [hob, hv]; exact hs0⟩
#print axioms Plane.eqv_iff
#print axioms Seg.eqv_iff

theorem HalfLine.eqv_iff (h o : HalfLine) (hh : h.WF) (ho : o.WF) :
    h.eqv o = true ↔ ∀ x, h.den x ↔ o.den x := by
  have hov := ho.1
  have hN := normSq_pos hov
  constructor
  · intro he
    unfold HalfLine.eqv at he
    simp only [Bool.and_eq_true, beq_iff_eq, decide_eq_true_eq] at he
    obtain ⟨⟨hp, hpar⟩, hpos⟩ := he
    rw [parallel_iff_cross] at hpar
    obtain ⟨k, hk⟩ : ∃ k, h.v = smul k o.v := ⟨_, exists_smul_of_cross_zero hov hpar⟩
    have hkpos : 0 < k := by
      have : dot h.v o.v = k * normSq o.v := by rw [hk]; simp only [dot, smul, normSq]; ring
      rw [this] at hpos
      by_contra hc; push_neg at hc; nlinarith
    intro x
    unfold HalfLine.den
    rw [hp, hk]
    constructor
    · rintro ⟨t, ht, rfl⟩
      exact ⟨t * k, by positivity, by apply V3.ext' <;> simp only [add, smul] <;> ring⟩
    · rintro ⟨t, ht, rfl⟩
      exact ⟨t / k, by positivity, by apply V3.ext' <;> simp only [add, smul] <;> field_simp⟩
  · intro hd
    -- coordinates along o
    have hp0 : o.p = pt o.p o.v 0 := by apply V3.ext' <;> simp [pt, add, smul]
    have hv1 : o.v = smul 1 o.v := by apply V3.ext' <;> simp [smul]
    have oden : ∀ t, o.den (pt o.p o.v t) ↔ 0 ≤ t := by
      intro t; rw [hl_den_pt hov o hp0 hv1 one_ne_zero t]; constructor <;> intro h' <;> linarith
    obtain ⟨t0, ht0, hpt0⟩ : ∃ t0, 0 ≤ t0 ∧ h.p = pt o.p o.v t0 := by
      obtain ⟨t, ht, hx⟩ := (hd h.p).mp ⟨0, le_refl _, by apply V3.ext' <;> simp [add, smul]⟩
      exact ⟨t, ht, hx⟩
    obtain ⟨t1, ht1, hpt1⟩ : ∃ t1, 0 ≤ t1 ∧ add h.p h.v = pt o.p o.v t1 := by
      obtain ⟨t, ht, hx⟩ := (hd (add h.p h.v)).mp ⟨1, by norm_num, by apply V3.ext' <;> simp [add, smul]⟩
      exact ⟨t, ht, hx⟩
    have hvk : h.v = smul (t1 - t0) o.v := by
      have hx := congrArg V3.x hpt1; have hy := congrArg V3.y hpt1; have hz := congrArg V3.z hpt1
      rw [hpt0] at hx hy hz
      simp only [pt, add, smul] at hx hy hz
      apply V3.ext' <;> simp only [smul] <;> linarith
    have hk0 : t1 - t0 ≠ 0 := smul_ne_zero_left (by rw [← hvk]; exact hh.1)
    have hden : ∀ t, h.den (pt o.p o.v t) ↔ 0 ≤ (t1 - t0) * (t - t0) := hl_den_pt hov h hpt0 hvk hk0
    -- a far point of o lies in h, hence the directions agree
    have hkpos : 0 < t1 - t0 := by
      have hfar := (hden (t0 + 1)).mp ((hd _).mpr ((oden (t0 + 1)).mpr (by linarith)))
      rcases lt_or_gt_of_ne hk0 with hneg | hpos
      · nlinarith
      · exact hpos
    -- the origin of o lies in h, hence the origins agree
    have ht00 : t0 = 0 := by
      have h0 := (hden 0).mp ((hd _).mpr ((oden 0).mpr (le_refl _)))
      nlinarith
    unfold HalfLine.eqv
    simp only [Bool.and_eq_true, beq_iff_eq, decide_eq_true_eq]
    refine ⟨⟨by rw [hpt0, ht00]; exact hp0.symm, ?_⟩, ?_⟩
    · rw [hvk]; exact parallel_smul _ _
    · rw [hvk]
      have : dot (smul (t1 - t0) o.v) o.v = (t1 - t0) * normSq o.v := by
        simp only [dot, smul, normSq]; ring
      rw [this]; positivity
#print axioms HalfLine.eqv_iff
end G3D
