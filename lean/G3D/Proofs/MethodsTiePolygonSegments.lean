import G3D.Extracted.Mpolygon
import G3D.Proofs.MethodsTiePolygonShared
/-! # Tie, group `mpolygon`: `ConvexPolygon.segments` (read eagerly) = `Polygon.segments?` (C09).  Own module because `length` (`MethodsTiePolygonLength`) calls this method: that coupling is real. -/
set_option linter.unusedSimpArgs false
set_option linter.unusedVariables false
set_option linter.style.nameCheck false
set_option linter.unusedTactic false
set_option linter.unreachableTactic false
namespace G3D.Tie
open V3 PyRt Extracted

theorem m_ConvexPolygon_segments_eq (self : Self) (pts : List V3) (h1 : self.f_points = some (Val.ptSeq pts)) :
    m_ConvexPolygon_segments self = (fun ss => Val.seq (ss.map sgObj)) <$> liftC ((closedPairs pts).mapM segOf) := by
  unfold m_ConvexPolygon_segments
  simp only [h1, pyrt, pyFld, Val.ptSeq, List.length_map, Int.sub_zero, Int.toNat_natCast]
  rw [show Val.seq [] = (fun ss : List Seg => Val.seq (ss.map sgObj)) [] from rfl]
  rw [forIn_cyc pts (fun ss : List Seg => Val.seq (ss.map sgObj)) _
    (fun e acc => do let y ← liftC (segOf e); pure (ForInStep.yield (acc ++ [y])))]
  · rw [forIn_append_mapM, liftC_mapM]
    cases (closedPairs pts).mapM (fun x => liftC (segOf x)) <;> simp
  · intro k a b hk acc
    obtain ⟨h0, hb⟩ := cyc_index pts k a b hk
    rcases hb with ⟨hk1, hb⟩ | ⟨hk1, hb⟩
    · have hk2 : ((k : Int) == (pts.length : Int) - 1) = true := by simp [hk1]
      by_cases hab : a = b <;>
        simp [pySub, pyEqM, pyEq, Val.truthy, hk2, h0, hb, pySegmentM, ofCtor, Seg.mk?, segOf, hab, liftC, pyListAppend, ForInStep.map', sgObj, ptObj]
    · have hk2 : ¬ ((k : Int) == (pts.length : Int) - 1) = true := by simpa using hk1
      by_cases hab : a = b <;>
        simp [pySub, pyEqM, pyEq, Val.truthy, hk2, h0, hb, pyAdd, pySegmentM, ofCtor, Seg.mk?, segOf, hab, liftC, pyListAppend, ForInStep.map', sgObj, ptObj]

/-- `segments()` (read eagerly) on a polygon object -/
theorem m_ConvexPolygon_segments_eq' (P : Polygon) :
    m_ConvexPolygon_segments (Self.ofPolygon P) = (fun ss => Val.seq (ss.map sgObj)) <$> liftC P.segments? :=
  m_ConvexPolygon_segments_eq _ P.pts rfl

end G3D.Tie
