import G3D.Proofs.K2Geom
/-! Kernel K2, general 2-D statement (finite Minkowski–Weyl for a bounded intersection of half-planes).
    In a plane (normal `n`, base point `p0`) let `cs` be finitely many half-plane constraints
    `0 ≤ g . x + k`.  If the feasible set has no direction of recession (`NoRecession`; for a non-empty feasible set
    this is boundedness, `noRecession_of_bounded`), every feasible point of the plane is a convex combination of at
    most four *vertices*: feasible points where two constraints with non-parallel boundary lines are tight
    (`halfplanes_hull`).  Proof: the chord argument, twice (chord through the point; then along the boundary line
    of the tight constraint at each chord end). -/
namespace G3D
open V3

/-- all constraints `0 ≤ g . x + k` hold at `x` -/
def HFeasible (cs : List (V3 × Rat)) (x : V3) : Prop := ∀ c ∈ cs, 0 ≤ dot c.1 x + c.2

/-- no in-plane direction along which every constraint is non-decreasing -/
def NoRecession (n : V3) (cs : List (V3 × Rat)) : Prop :=
  ∀ d, d ≠ zero → dot n d = 0 → ∃ c ∈ cs, dot c.1 d < 0

/-- a vertex of the feasible region: feasible, in the plane, two constraints tight whose boundary lines in the
    plane are not parallel -/
def HVertex (n p0 : V3) (cs : List (V3 × Rat)) (v : V3) : Prop :=
  inPlane n p0 v = true ∧ HFeasible cs v ∧
    ∃ c1 ∈ cs, ∃ c2 ∈ cs, dot c1.1 v + c1.2 = 0 ∧ dot c2.1 v + c2.2 = 0 ∧ dot n (cross c1.1 c2.1) ≠ 0

def lineCons (cs : List (V3 × Rat)) (sv dv : V3) : List (Rat × Rat) :=
  cs.map (fun c => (dot c.1 sv + c.2, dot c.1 dv))

theorem dot_pt (g sv dv : V3) (t : Rat) : dot g (pt sv dv t) = dot g sv + dot g dv * t := by
  simp only [pt, dot, add, smul]; ring

theorem lineCons_feas (cs : List (V3 × Rat)) (sv dv : V3) (t : Rat) :
    Feas (lineCons cs sv dv) t ↔ HFeasible cs (pt sv dv t) := by
  unfold Feas HFeasible lineCons
  constructor
  · intro h c hc
    have := h _ (List.mem_map.mpr ⟨c, hc, rfl⟩)
    simp only at this
    rw [dot_pt]; linarith
  · intro h c' hc'
    obtain ⟨c, hc, rfl⟩ := List.mem_map.mp hc'
    have := h c hc
    rw [dot_pt] at this
    simp only; linarith

theorem neg_ne_zero' {d : V3} (h : d ≠ zero) : neg d ≠ zero := by
  intro hz; apply h
  have hx := congrArg V3.x hz; have hy := congrArg V3.y hz; have hzz := congrArg V3.z hz
  simp only [neg, zero] at hx hy hzz
  apply V3.ext' <;> simp only [zero] <;> linarith

/-- a line of the plane through a feasible point meets the feasible region in a segment whose two ends are
    tight on constraints that are not constant along the line -/
theorem line_clip (n : V3) (cs : List (V3 × Rat)) (hnr : NoRecession n cs) (sv dv : V3) (hdv : dv ≠ zero)
    (hd : dot n dv = 0) (hs : HFeasible cs sv) :
    ∃ tlo thi, tlo ≤ 0 ∧ 0 ≤ thi ∧ HFeasible cs (pt sv dv tlo) ∧ HFeasible cs (pt sv dv thi) ∧
      (∃ c ∈ cs, dot c.1 dv ≠ 0 ∧ dot c.1 (pt sv dv tlo) + c.2 = 0) ∧
      (∃ c ∈ cs, dot c.1 dv ≠ 0 ∧ dot c.1 (pt sv dv thi) + c.2 = 0) := by
  have h0 : Feas (lineCons cs sv dv) 0 := by rw [lineCons_feas, pt_zero]; exact hs
  obtain ⟨cn, hcn, hcnn⟩ := hnr dv hdv hd
  obtain ⟨cp, hcp, hcpp⟩ := hnr (neg dv) (neg_ne_zero' hdv) (by simp only [dot, neg] at hd ⊢; linarith)
  have hcpp' : 0 < dot cp.1 dv := by simp only [dot, neg] at hcpp ⊢; linarith
  obtain ⟨tlo, hflo, hlo, clo, hclo, hclop, hclot⟩ := lp_lo (lineCons cs sv dv) 0 h0
    ⟨_, List.mem_map.mpr ⟨cp, hcp, rfl⟩, hcpp'⟩
  obtain ⟨thi, hfhi, hhi, chi, hchi, hchin, hchit⟩ := lp_hi (lineCons cs sv dv) 0 h0
    ⟨_, List.mem_map.mpr ⟨cn, hcn, rfl⟩, hcnn⟩
  refine ⟨tlo, thi, hlo 0 h0, hhi 0 h0, (lineCons_feas cs sv dv tlo).mp hflo, (lineCons_feas cs sv dv thi).mp hfhi,
    ?_, ?_⟩
  · obtain ⟨c, hc, rfl⟩ := List.mem_map.mp hclo
    simp only at hclop hclot
    exact ⟨c, hc, ne_of_gt hclop, by rw [dot_pt]; linarith⟩
  · obtain ⟨c, hc, rfl⟩ := List.mem_map.mp hchi
    simp only at hchin hchit
    exact ⟨c, hc, ne_of_lt hchin, by rw [dot_pt]; linarith⟩

theorem exists_perp {n : V3} (_hn : n ≠ zero) : ∃ d : V3, d ≠ zero ∧ dot n d = 0 := by
  by_cases h : n.x = 0 ∧ n.y = 0
  · refine ⟨⟨1, 0, 0⟩, ?_, by simp [dot, h.1]⟩
    intro hz; have := congrArg V3.x hz; simp [zero] at this
  · refine ⟨⟨-n.y, n.x, 0⟩, ?_, by simp only [dot]; ring⟩
    intro hz
    have hx := congrArg V3.x hz; have hy := congrArg V3.y hz
    simp only [zero] at hx hy
    exact h ⟨hy, by linarith⟩

/-- a boundary point (tight on `c1`, which is not constant along some in-plane direction) lies between two
    vertices on the boundary line of `c1` -/
theorem boundary_between_vertices (n p0 : V3) (hn : n ≠ zero) (cs : List (V3 × Rat)) (hnr : NoRecession n cs)
    (u : V3) (hup : inPlane n p0 u = true) (huf : HFeasible cs u)
    (c1 : V3 × Rat) (hc1 : c1 ∈ cs) (d : V3) (hd : dot n d = 0) (hc1d : dot c1.1 d ≠ 0)
    (ht : dot c1.1 u + c1.2 = 0) :
    ∃ w1 w2, HVertex n p0 cs w1 ∧ HVertex n p0 cs w2 ∧ Between w1 w2 u := by
  set d1 := cross n c1.1 with hd1
  have hd1n : dot n d1 = 0 := by simp only [hd1, dot, cross]; ring
  have hd1c : dot c1.1 d1 = 0 := by simp only [hd1, dot, cross]; ring
  have hd1z : d1 ≠ zero := by
    intro hz
    apply hc1d
    have hz' : cross c1.1 n = zero := by
      rw [cross_anticomm, ← hd1, hz]; apply V3.ext' <;> simp [neg, zero]
    obtain ⟨k, hk⟩ : ∃ k, c1.1 = smul k n := ⟨_, exists_smul_of_cross_zero hn hz'⟩
    rw [hk]
    simp only [dot, smul] at hd ⊢
    linear_combination k * hd
  obtain ⟨tlo, thi, l0, l1, flo, fhi, ⟨clo, hclo, hclod, hclot⟩, ⟨chi, hchi, hchid, hchit⟩⟩ :=
    line_clip n cs hnr u d1 hd1z hd1n huf
  have key : ∀ t (c : V3 × Rat), c ∈ cs → HFeasible cs (pt u d1 t) → dot c.1 d1 ≠ 0 →
      dot c.1 (pt u d1 t) + c.2 = 0 → HVertex n p0 cs (pt u d1 t) := by
    intro t c hc hf hcd hct
    refine ⟨inPlane_pt hup hd1n t, hf, c1, hc1, c, hc, ?_, hct, ?_⟩
    · rw [dot_pt, hd1c]; linarith
    · intro hz; apply hcd
      have : dot c.1 d1 = dot n (cross c1.1 c.1) := by simp only [hd1, dot, cross]; ring
      rw [this, hz]
  refine ⟨pt u d1 tlo, pt u d1 thi, key tlo clo hclo flo hclod hclot, key thi chi hchi fhi hchid hchit, ?_⟩
  rw [Between_pt (le_trans l0 l1)]
  exact ⟨0, l0, l1, (pt_zero u d1).symm⟩

/-- **(a) `halfplanes_hull`.**  Finitely many half-planes in a plane, no direction of recession: every feasible
    point is a convex combination of (at most four) vertices — feasible points at which two constraints with
    non-parallel boundary lines are tight. -/
theorem halfplanes_hull (n p0 : V3) (hn : n ≠ zero) (cs : List (V3 × Rat)) (hnr : NoRecession n cs)
    (x : V3) (hxp : inPlane n p0 x = true) (hxf : HFeasible cs x) :
    ∃ w1 w2 w3 w4, HVertex n p0 cs w1 ∧ HVertex n p0 cs w2 ∧ HVertex n p0 cs w3 ∧ HVertex n p0 cs w4 ∧
      InHull [w1, w2, w3, w4] x := by
  obtain ⟨d, hdz, hdn⟩ := exists_perp hn
  obtain ⟨tlo, thi, l0, l1, flo, fhi, ⟨clo, hclo, hclod, hclot⟩, ⟨chi, hchi, hchid, hchit⟩⟩ :=
    line_clip n cs hnr x d hdz hdn hxf
  obtain ⟨w1, w2, v1, v2, b12⟩ := boundary_between_vertices n p0 hn cs hnr (pt x d tlo) (inPlane_pt hxp hdn tlo) flo
    clo hclo d hdn hclod hclot
  obtain ⟨w3, w4, v3, v4, b34⟩ := boundary_between_vertices n p0 hn cs hnr (pt x d thi) (inPlane_pt hxp hdn thi) fhi
    chi hchi d hdn hchid hchit
  refine ⟨w1, w2, w3, w4, v1, v2, v3, v4, ?_⟩
  have hu : InHull [w1, w2, w3, w4] (pt x d tlo) := between_in_hull (by simp) (by simp) b12
  have hv : InHull [w1, w2, w3, w4] (pt x d thi) := between_in_hull (by simp) (by simp) b34
  refine InHull.between hu hv ?_
  rw [Between_pt (le_trans l0 l1)]
  exact ⟨0, l0, l1, (pt_zero x d).symm⟩

/-- a non-empty bounded feasible region has no direction of recession -/
theorem noRecession_of_bounded (n p0 : V3) (cs : List (V3 × Rat)) (x0 : V3) (hx0p : inPlane n p0 x0 = true)
    (hx0 : HFeasible cs x0) (R : Rat)
    (hb : ∀ x, inPlane n p0 x = true → HFeasible cs x → normSq (sub x x0) ≤ R) : NoRecession n cs := by
  intro d hdz hdn
  by_contra hcon
  push Not at hcon
  have hN := normSq_pos hdz
  have hR : 0 ≤ R := by
    have := hb x0 hx0p hx0
    have e : normSq (sub x0 x0) = 0 := by simp [normSq, dot, sub]
    linarith
  have hray : ∀ t : Rat, 0 ≤ t → HFeasible cs (pt x0 d t) := by
    intro t ht c hc
    rw [dot_pt]
    have h1 := hx0 c hc
    have h2 := hcon c hc
    nlinarith
  set t := R / normSq d + 1 with ht
  have ht1 : 1 ≤ t := by
    have : 0 ≤ R / normSq d := div_nonneg hR (le_of_lt hN)
    linarith
  have htN : t * normSq d = R + normSq d := by rw [ht]; field_simp
  have := hb (pt x0 d t) (inPlane_pt hx0p hdn t) (hray t (by linarith))
  have e : normSq (sub (pt x0 d t) x0) = t * (t * normSq d) := by
    simp only [normSq, dot, sub, pt, add, smul]; ring
  rw [e, htN] at this
  nlinarith

#print axioms halfplanes_hull
#print axioms noRecession_of_bounded
end G3D
