import G3D.Extracted.Mpolygon
import G3D.Proofs.MethodsTiePolygonShared
import G3D.Proofs.MethodsTiePolygonCenter
/-! # Tie, group `mpolygon`, role CONSTRUCTION (C09; error branches C15): `_check_and_sort_points`, `__init__` (= `Polygon.mk?`, unconditional), `__neg__`.
    Imports `MethodsTiePolygonCenter` (`__init__` calls `_get_center_point`).  Conventions, trusted readings and the deviations found: `G3D.Proofs.MethodsTie`, header of `G3D.Model.PyRtM`. -/
set_option linter.unusedSimpArgs false
set_option linter.unusedVariables false
set_option linter.style.nameCheck false
set_option linter.unusedTactic false
set_option linter.unreachableTactic false
namespace G3D.Tie
open V3 PyRt Extracted

/-- the angular keys of `_check_and_sort_points` on the unnormalised frame -/
def angKey (n c p0 p : V3) : Rat × Rat := (dot (sub p c) (sub p0 c), dot (sub p c) (cross n (sub p0 c)))

/-- the vertex order `_check_and_sort_points` produces -/
def angSort (n c p0 : V3) (pts : List V3) : List V3 :=
  (pts.foldl (fun acc p => angInsert (angKey n c p0 p) p acc) []).map (·.2)

theorem m_ConvexPolygon__check_and_sort_points_eq (self : Self) (p0 : V3) (ps : List V3) (a : Plane) (c : V3)
    (h1 : self.f_points = some (Val.ptSeq (p0 :: ps))) (h2 : self.f_plane = some (.obj (plObj a)))
    (h3 : self.f_center_point = some (.obj (ptObj c))) (hn : a.n ≠ zero) :
    m_ConvexPolygon__check_and_sort_points self =
      if sub p0 c = zero then .error (.ctor .zeroDiv)
      else if (p0 :: ps).all a.contains = true then
        .ok ({ self with f_points := some (Val.ptSeq (angSort a.n c p0 (p0 :: ps))) },
             .bool true)
      else .error (.ctor .value) := by
  unfold m_ConvexPolygon__check_and_sort_points
  by_cases hv : sub p0 c = zero
  · simp only [h1, h2, h3, pyrt, pyFld, Val.ptSeq, plObj, ptObj, pyAttr_n, pyMeth_normalized, hn, if_false, pyVector, hv, if_true]
  simp only [h1, h2, h3, pyrt, pyFld, Val.ptSeq, List.map_map, plObj, ptObj, pyAttr_n, pyMeth_normalized, hn, if_false,
    pyVector, hv, pyMeth_cross, pyAngDictNew]
  rw [forIn_repr (Val.obj ∘ ptObj) (fun d : AngDict => d) (p0 :: ps) _
    (fun p d => if a.contains p = true then .ok (.yield (angInsert (angKey a.n c p0 p) p d)) else .error (.ctor .value))]
  · rw [forIn_guard (p0 :: ps) a.contains (fun d p => angInsert (angKey a.n c p0 p) p d)]
    by_cases hall : (p0 :: ps).all a.contains = true
    · simp only [hall, if_true]
      simp [pyAngDictSortedValues, pyList, Val.ptSeq, angSort]
    · simp [hall]
  · intro p _ d
    by_cases hp : a.contains p = true
    · simp [Function.comp, ptObj, pyInM, pyContains, hp, pyNot, Val.truthy, pyMeth_pv, pySub, pyMulM, pyAngDictSet, Val.asRat?,
        ForInStep.map', angKey]
    · simp [Function.comp, ptObj, pyInM, pyContains, hp, pyNot, Val.truthy]

theorem new_ConvexPolygon_eq (input : List V3) (rev : Bool) (cc : Val) :
    new_ConvexPolygon (Val.ptSeq input) (.bool rev) cc = ofCtor Obj.polygon (Polygon.mk? input rev) := by
  unfold new_ConvexPolygon m_ConvexPolygon___init__
  simp only [pyrt, pyDedupFirst, Val.ptSeq, allPoints_pt, Self.empty, List.length_map, pyFld]
  unfold Polygon.mk?
  by_cases hlen : input.length < 3
  · have : (input.length : Int) < 3 := by omega
    simp [hlen, this, ofCtor]
  have hlen' : ¬ (input.length : Int) < 3 := by omega
  simp only [hlen, hlen', decide_false, if_false, Bool.false_eq_true]
  generalize dedupV input = ded
  match ded with
  | [] => cases rev <;> simp [pyIndexM, pyIndex, normIdx, ofCtor]
  | [a] => cases rev <;> simp [pyIndexM, pyIndex, normIdx, ofCtor]
  | [a, b] => cases rev <;> simp [pyIndexM, pyIndex, normIdx, ofCtor]
  | p0 :: p1 :: p2 :: rest =>
    simp only [pyrt, pyPlane3, ptObj, Plane.ofPoints]
    by_cases hn0 : cross (sub p1 p0) (sub p2 p0) = zero
    · cases rev <;> simp [hn0, ofCtor]
    have hneg : ¬ neg (cross (sub p1 p0) (sub p2 p0)) = zero := fun e => hn0 (neg_eq_zero_iff.mp e)
    cases rev
    · simp only [hn0, if_false, ofCtor, plObj, Bool.false_eq_true, pyrt]
      rw [m_ConvexPolygon__get_center_point_eq _ (p0 :: p1 :: p2 :: rest) rfl]
      simp only [List.cons_ne_nil, reduceCtorEq, if_false, pyrt]
      rw [m_ConvexPolygon__check_and_sort_points_eq _ p0 (p1 :: p2 :: rest) ⟨p0, cross (sub p1 p0) (sub p2 p0)⟩
        (meanV (p0 :: p1 :: p2 :: rest)) rfl rfl rfl hn0]
      by_cases hv : sub p0 (meanV (p0 :: p1 :: p2 :: rest)) = zero
      · simp [hv]
      by_cases hall : (p0 :: p1 :: p2 :: rest).all (Plane.contains ⟨p0, cross (sub p1 p0) (sub p2 p0)⟩) = true
      · simp only [hv, hall, if_false, if_true]
        simp only [pyrt, pyPack_ConvexPolygon, Val.ptSeq, allPoints_pt, plObj, ptObj]
        rfl
      · simp [hv, hall]
    · simp only [hn0, if_false, ofCtor, plObj, Bool.false_eq_true, pyrt, pyNegM, Plane.neg, if_true]
      rw [m_ConvexPolygon__get_center_point_eq _ (p0 :: p1 :: p2 :: rest) rfl]
      simp only [List.cons_ne_nil, reduceCtorEq, if_false, pyrt]
      rw [m_ConvexPolygon__check_and_sort_points_eq _ p0 (p1 :: p2 :: rest) ⟨p0, neg (cross (sub p1 p0) (sub p2 p0))⟩
        (meanV (p0 :: p1 :: p2 :: rest)) rfl rfl rfl hneg]
      by_cases hv : sub p0 (meanV (p0 :: p1 :: p2 :: rest)) = zero
      · simp [hv]
      by_cases hall : (p0 :: p1 :: p2 :: rest).all (Plane.contains ⟨p0, neg (cross (sub p1 p0) (sub p2 p0))⟩) = true
      · simp only [hv, hall, if_false, if_true]
        simp only [pyrt, pyPack_ConvexPolygon, Val.ptSeq, allPoints_pt, plObj, ptObj]
        rfl
      · simp [hv, hall]

theorem m_ConvexPolygon___neg___eq (P : Polygon) :
    m_ConvexPolygon___neg__ (Self.ofPolygon P) = ofCtor Obj.polygon P.neg? := by
  unfold m_ConvexPolygon___neg__
  simp only [Self.ofPolygon, pyFld, pyrt, Val.ptSeq, pyConvexPolygon_pt, Polygon.neg?, ofCtor]
  cases Polygon.mk? P.pts true <;> simp [liftC]

end G3D.Tie
